import AsherahVerif.Proofs.EnvCohCrypt
/-
The invariants along public operations and histories.
-/
set_option linter.unusedVariables false
namespace AsherahVerif.Env

/-! ### reading a `CSpec` in its two modes -/

/-- safety reading (any fault schedule): the invariant survives, successful results are as specified. -/
theorem CSpec.safe {α : Type} {P : World → Prop} {x : M α} {G : α → World → Prop}
    (h : ∀ a, CSpec a False P x G) {w : World} (hi : Inv w) (hp : P w) :
    Inv (x w).2 ∧ ∀ v, (x w).1 = .ok v → G v (x w).2 := by
  rcases (h (accessesAfterClose (x w).2)).post w (fun f => f.elim) hi (fun f => f.elim) hp with hb | ⟨i, _, g, _⟩
  · exact absurd hb (Nat.lt_irrefl _)
  · exact ⟨i, g⟩

/-- progress reading (empty fault schedule): success as specified, unless a destroyed secret was touched. -/
theorem CSpec.live {α : Type} {P : World → Prop} {x : M α} {G : α → World → Prop} {w : World}
    (h : CSpec (accessesAfterClose w) True P x G) (hi : Inv w) (hnf : w.faults = []) (hp : P w) :
    accessesAfterClose w < accessesAfterClose (x w).2 ∨
      (Inv (x w).2 ∧ ∃ v, (x w).1 = .ok v ∧ G v (x w).2) := by
  rcases h.post w (fun _ => Nat.le_refl _) hi (fun _ => hnf) hp with hb | ⟨i, _, g, s⟩
  · exact Or.inl hb
  · obtain ⟨v, hv⟩ := s trivial
    exact Or.inr ⟨i, v, hv, g v hv⟩

/-! ### updates that are not `Ext` -/

theorem Inv.of_caches {w w' : World} (hi : Inv w) (hs : w'.store = w.store) (hk : w'.keys = w.keys)
    (hc : ∀ (c : Nat) (kc : KeyCache), w'.caches[c]? = some kc → w.caches[c]? = some kc ∨ (kc.ents = [] ∧ kc.latest = [])) :
    Inv w' := by
  refine ⟨hs ▸ hi.wf, fun c kc h => ?_⟩
  have tr : ∀ m o, GoodKeyAt w m o → GoodKeyAt w' m o := by
    intro m o ⟨k, h1, h2, h3⟩
    exact ⟨k, hk ▸ h1, h2, hs ▸ h3⟩
  rcases hc c kc h with h | ⟨h1, h2⟩
  · have := hi.coh c kc h
    exact ⟨fun m e he => tr _ _ (this.ents m e he), this.latest⟩
  · exact ⟨fun m e he => (by rw [h1] at he; cases he), fun k m he => (by rw [h2] at he; cases he)⟩

theorem Inv.same {w w' : World} (hi : Inv w) (hs : w'.store = w.store) (hk : w'.keys = w.keys)
    (hc : w'.caches = w.caches) : Inv w' :=
  hi.of_caches hs hk fun c kc h => Or.inl (hc ▸ h)

/-- a row update that keeps key, ciphertext and parent (only `revoked` may change). -/
def KeepsRow (f : Row → Row) : Prop :=
  ∀ r, (f r).kid = r.kid ∧ (f r).created = r.created ∧ (f r).enc = r.enc ∧ (f r).parent = r.parent

theorem findRow_map {f : Row → Row} (hf : KeepsRow f) (s : List Row) (m : KeyMeta) :
    findRow (s.map f) m = (findRow s m).map f := by
  induction s with
  | nil => rfl
  | cons r t ih =>
    unfold findRow at ih ⊢
    simp only [List.map_cons, List.find?_cons]
    rw [(hf r).1, (hf r).2.1]
    split
    · rfl
    · exact ih

theorem RowMat.map {f : Row → Row} (hf : KeepsRow f) {r : Row} {mat : Nat} (h : RowMat r mat) : RowMat (f r) mat := by
  unfold RowMat at *; rw [(hf r).1, (hf r).2.2.1]; exact h

theorem Wraps.map {f : Row → Row} (hf : KeepsRow f) {s : List Row} {m : KeyMeta} {mat : Nat} (h : Wraps s m mat) :
    Wraps (s.map f) m mat := by
  obtain ⟨r, hr, h1, h2, h3⟩ := h
  exact ⟨f r, List.mem_map_of_mem hr, (hf r).1.trans h1, (hf r).2.1.trans h2, h3.map hf⟩

theorem StoreWF.map {f : Row → Row} (hf : KeepsRow f) {s : List Row} (h : StoreWF s) : StoreWF (s.map f) := by
  refine ⟨?_, ?_, ?_⟩
  · intro r' hr'
    obtain ⟨r, hr, rfl⟩ := List.mem_map.mp hr'
    rw [findRow_map hf, (hf r).1, (hf r).2.1, h.uniq r hr]; rfl
  · intro r' hr'
    obtain ⟨r, hr, rfl⟩ := List.mem_map.mp hr'
    have := h.good r hr
    unfold RowGood at *
    rw [(hf r).1, (hf r).2.2.1, (hf r).2.2.2]
    cases hk : r.kid with
    | sk => rw [hk] at this; exact this
    | ik p =>
      rw [hk] at this; dsimp only at this ⊢
      obtain ⟨c, skm, n, mat, h1, h2, h3⟩ := this
      exact ⟨c, skm, n, mat, h1, h2, h3.map hf⟩
  · intro r' hr'
    obtain ⟨r, hr, rfl⟩ := List.mem_map.mp hr'
    rw [(hf r).2.1]; exact h.nz r hr

theorem Inv.mapStore {w w' : World} {f : Row → Row} (hf : KeepsRow f) (hi : Inv w) (hs : w'.store = w.store.map f)
    (hk : w'.keys = w.keys) (hc : w'.caches = w.caches) : Inv w' := by
  refine ⟨hs ▸ hi.wf.map hf, fun c kc h => ?_⟩
  rw [hc] at h
  have := hi.coh c kc h
  refine ⟨fun m e he => ?_, this.latest⟩
  obtain ⟨k, h1, h2, h3⟩ := this.ents m e he
  exact ⟨k, hk ▸ h1, h2, hs ▸ h3.map hf⟩

theorem revoke_keeps (m : KeyMeta) :
    KeepsRow (fun r => if r.kid = m.kid ∧ r.created = m.created then { r with revoked := true } else r) := by
  intro r; dsimp only; split <;> exact ⟨rfl, rfl, rfl, rfl⟩

/-- a row update that keeps the key `(kid, created)` of every row. -/
def KeepsKey (f : Row → Row) : Prop := ∀ r, (f r).kid = r.kid ∧ (f r).created = r.created

theorem findRow_map' {f : Row → Row} (hf : KeepsKey f) (s : List Row) (m : KeyMeta) :
    findRow (s.map f) m = (findRow s m).map f := by
  induction s with
  | nil => rfl
  | cons r t ih =>
    unfold findRow at ih ⊢
    simp only [List.map_cons, List.find?_cons]
    rw [(hf r).1, (hf r).2]
    split
    · rfl
    · exact ih

theorem corruptRow_keepsKey (m : KeyMeta) (dp : Bool) :
    KeepsKey (fun r => if r.kid = m.kid ∧ r.created = m.created then
      (if dp then { r with parent := none } else { r with enc := .junk 2 }) else r) := by
  intro r; dsimp only; split
  · split <;> exact ⟨rfl, rfl⟩
  · exact ⟨rfl, rfl⟩

/-- what survives an out-of-band corruption of a stored row: the store is still a function of
`(kid, created)`, no row carries the stamp 0, and every row with another key is untouched.
(`RowGood` of the hit row and of the intermediate keys below a hit system key, and `Coherent` for
cache entries filed under the hit key, do NOT survive: C01/C02 exclude `corruptRow`; C07 does not
need them.) -/
theorem corruptRow_survivors {w : World} (m : KeyMeta) (dp : Bool)
    (hu : ∀ r, r ∈ w.store → findRow w.store ⟨r.kid, r.created⟩ = some r) (hz : ∀ r, r ∈ w.store → r.created ≠ 0) :
    (∀ r, r ∈ (corruptRow m dp w).2.store → findRow (corruptRow m dp w).2.store ⟨r.kid, r.created⟩ = some r) ∧
    (∀ r, r ∈ (corruptRow m dp w).2.store → r.created ≠ 0) ∧
    (∀ r, r ∈ w.store → ¬ (r.kid = m.kid ∧ r.created = m.created) → r ∈ (corruptRow m dp w).2.store) := by
  have hf := corruptRow_keepsKey m dp
  refine ⟨?_, ?_, ?_⟩
  · intro r' hr'
    obtain ⟨r, hr, rfl⟩ := List.mem_map.mp hr'
    show findRow (w.store.map _) _ = _
    rw [findRow_map' hf, (hf r).1, (hf r).2, hu r hr]; rfl
  · intro r' hr'
    obtain ⟨r, hr, rfl⟩ := List.mem_map.mp hr'
    rw [(hf r).2]; exact hz r hr
  · intro r hr hne
    apply List.mem_map.mpr
    exact ⟨r, hr, by rw [if_neg hne]⟩

/-! ### the clock condition -/

/-- the history started at `t`, one second after the epoch at least, and every factory's timestamp
precision leaves a non-zero stamp from `t` on: no key ever gets `created = 0`, which key_cache.go
reads as "the latest key". -/
def ClockOK (t : Int) (w : World) : Prop :=
  t ≤ w.now ∧ nsPerSec ≤ t ∧ ∀ fac, fac ∈ w.facs → fac.pol.precision + nsPerSec ≤ t

theorem keyTimestamp_ne_zero {now prec : Int} (h1 : nsPerSec ≤ now) (h2 : prec + nsPerSec ≤ now) :
    keyTimestamp now prec ≠ 0 := by
  unfold keyTimestamp
  unfold nsPerSec at *
  split
  · rename_i hp
    have a1 := Int.emod_lt_of_pos now hp
    have a2 := Int.emod_nonneg now (Int.ne_of_gt hp)
    omega
  · omega

theorem getD_mem_or {α : Type} (l : List α) (i : Nat) (d : α) : l.getD i d ∈ l ∨ l.getD i d = d := by
  rw [List.getD_eq_getElem?_getD]
  cases h : l[i]? with
  | none => right; rfl
  | some a => left; exact List.mem_of_getElem? h

theorem ClockOK.timeOK {t : Int} {w : World} (h : ClockOK t w) (s : Nat) : TimeOK (sessionCtx w s) w := by
  unfold TimeOK
  apply keyTimestamp_ne_zero (Int.le_trans h.2.1 h.1)
  show (w.facs.getD (w.sessions.getD s default).fac default).pol.precision + nsPerSec ≤ w.now
  rcases getD_mem_or w.facs (w.sessions.getD s default).fac default with hm | hd
  · exact Int.le_trans (h.2.2 _ hm) h.1
  · rw [hd]
    have : (default : Factory).pol.precision = 0 := rfl
    rw [this]
    have := Int.le_trans h.2.1 h.1
    omega

theorem ClockOK.ext {t : Int} {w w' : World} (h : ClockOK t w) (he : Ext w w') : ClockOK t w' := by
  unfold ClockOK at *; rw [he.now, he.facs]; exact h

structure FInv (t : Int) (w : World) : Prop where
  inv : Inv w
  clock : ClockOK t w

/-- operations of a history covered by C01/C02: anything but out-of-band corruption of rows; a new
factory's timestamp precision must leave non-zero stamps (see `ClockOK`). -/
def OpOK (t : Int) : Op → Prop
  | .newFactory p _ _ _ _ => p.precision + nsPerSec ≤ t
  | .corruptRow _ _ => False
  | _ => True

theorem FInv.init {t : Int} (ht : nsPerSec ≤ t) : FInv t (World.init t) :=
  ⟨⟨⟨fun r h => (by cases h), fun r h => (by cases h), fun r h => (by cases h)⟩,
    fun c kc h => (by simp [World.init] at h)⟩,
   ⟨Int.le_refl _, ht, fun f h => (by cases h)⟩⟩

/-! ### each public operation keeps the invariants -/

theorem decryptDataRowRecord_safe {a : Nat} (x : Ctx) (d : Drr) (rl : Bool) :
    CSpec a False (fun _ => True) (decryptDataRowRecord x d rl) (fun _ _ => True) := by
  unfold decryptDataRowRecord
  split
  · exact CSpec.throw _ fun _ _ _ h => h
  · split
    · exact CSpec.throw _ fun _ _ _ h => h
    · rename_i dk p _
      apply CSpec.ite <;> intro hk
      · exact CSpec.throw _ fun _ _ _ h => h
      · apply CSpec.bind (G1 := fun _ _ => True)
          ((getOrLoad_cspec x.ikCache p _ (fun m => loadIntermediateKey x m rl)
            (fun m => loadIntermediateKey_ext x m rl) (by stable_auto)
            (loadIntermediateKey_cspec x p rl (Classical.not_not.mp hk))).weaken
            (fun _ _ _ h => h.elim) (fun _ _ _ _ => trivial))
        intro ik
        refine CSpec.finallyDo ?_ (fun _ => Stable.const _) (keyRelease_cspec ik)
        exact CSpec.of_still (decryptRow_ext _ _ _) (decryptRow_still _ _ _)
          fun _ _ _ _ _ => Or.inr ⟨fun _ _ => trivial, False.elim⟩

theorem Inv.beginOp {w : World} (hi : Inv w) (fl : List Fault) : Inv { w with log := [], faults := fl } :=
  hi.same rfl rfl rfl

theorem encrypt_finv {t : Int} {w : World} (h : FInv t w) (s pay : Nat) (fl : List Fault) :
    FInv t (encrypt s pay fl true w).2 ∧
      ∀ d, (encrypt s pay fl true w).1 = .ok d →
        Genuine (encrypt s pay fl true w).2.store (w.sessions.getD s default).part pay d := by
  rw [encrypt_run]
  have hc0 : ClockOK t { w with log := [], faults := fl } := h.clock
  have := CSpec.safe (fun a => encryptPayload_cspec (a := a) (sessionCtx { w with log := [], faults := fl } s) pay true)
    (h.inv.beginOp fl) (hc0.timeOK s)
  exact ⟨⟨this.1, hc0.ext (encryptPayload_ext _ _ _ _)⟩, this.2⟩

theorem decrypt_finv {t : Int} {w : World} (h : FInv t w) (s : Nat) (d : Drr) (fl : List Fault) :
    FInv t (decrypt s d fl true w).2 := by
  rw [decrypt_run]
  have hc0 : ClockOK t { w with log := [], faults := fl } := h.clock
  have := CSpec.safe (fun a => decryptDataRowRecord_safe (a := a) (sessionCtx { w with log := [], faults := fl } s) d true)
    (h.inv.beginOp fl) trivial
  exact ⟨this.1, hc0.ext (decryptDataRowRecord_ext _ _ _ _)⟩

theorem cacheClose_inv {w : World} (hi : Inv w) (c : Nat) : Inv (cacheClose c w).2 :=
  (CSpec.safe (fun a => cacheClose_cspec (a := a) (P := fun _ => True) c) hi trivial).1

theorem closeSession_run (s : Nat) (w : World) :
    closeSession s w =
      (if ((w.facs.getD (w.sessions.getD s default).fac default).pol.sharedIK) then pure ()
       else cacheClose (w.sessions.getD s default).ikCache)
        { w with sessions := setAt w.sessions s fun x => { x with closed := true } } := rfl

theorem closeFactory_run (f : Nat) (w : World) :
    closeFactory f w =
      (do
        match (w.facs.getD f default).sharedIk with
        | some c => cacheClose c
        | none => pure ()
        cacheClose (w.facs.getD f default).skCache)
        { w with facs := setAt w.facs f fun x => { x with closed := true } } := rfl

theorem mem_setAt {α : Type} {l : List α} {i : Nat} {f : α → α} {x : α} (h : x ∈ setAt l i f) :
    x ∈ l ∨ ∃ y, y ∈ l ∧ x = f y := by
  obtain ⟨j, hj⟩ := List.mem_iff_getElem?.mp h
  rw [setAt_getElem?] at hj
  split at hj
  · cases hl : l[j]? with
    | none => rw [hl] at hj; cases hj
    | some y => rw [hl] at hj; cases hj; exact Or.inr ⟨y, List.mem_of_getElem? hl, rfl⟩
  · exact Or.inl (List.mem_of_getElem? hj)

theorem closeSession_finv {t : Int} {w : World} (h : FInv t w) (s : Nat) :
    FInv t ((do beginOp []; closeSession s : M Unit) w).2 := by
  have e : ((do beginOp []; closeSession s : M Unit) w) = closeSession s { w with log := [], faults := [] } := rfl
  rw [e, closeSession_run]
  have hi1 : Inv { ({ w with log := [], faults := [] } : World) with
      sessions := setAt w.sessions s fun x => { x with closed := true } } := h.inv.same rfl rfl rfl
  have hc1 : ClockOK t { ({ w with log := [], faults := [] } : World) with
      sessions := setAt w.sessions s fun x => { x with closed := true } } := h.clock
  dsimp only
  split
  · exact ⟨hi1, hc1⟩
  · exact ⟨cacheClose_inv hi1 _, hc1.ext (cacheClose_ext _ _)⟩

theorem closeFactory_finv {t : Int} {w : World} (h : FInv t w) (f : Nat) :
    FInv t ((do beginOp []; closeFactory f : M Unit) w).2 := by
  have e : ((do beginOp []; closeFactory f : M Unit) w) = closeFactory f { w with log := [], faults := [] } := rfl
  rw [e, closeFactory_run]
  have hi1 : Inv { ({ w with log := [], faults := [] } : World) with
      facs := setAt w.facs f fun x => { x with closed := true } } := h.inv.same rfl rfl rfl
  have hc1 : ClockOK t { ({ w with log := [], faults := [] } : World) with
      facs := setAt w.facs f fun x => { x with closed := true } } := by
    refine ⟨h.clock.1, h.clock.2.1, fun fac hf => ?_⟩
    rcases mem_setAt hf with hm | ⟨y, hy, rfl⟩
    · exact h.clock.2.2 _ hm
    · exact h.clock.2.2 y hy
  dsimp only
  have hx : Extends (do
      match (w.facs.getD f default).sharedIk with
      | some c => cacheClose c
      | none => pure ()
      cacheClose (w.facs.getD f default).skCache : M Unit) := by
    ext_auto [cacheClose_ext]
  have hs : ∀ a, CSpec a False (fun _ => True) (do
      match (w.facs.getD f default).sharedIk with
      | some c => cacheClose c
      | none => pure ()
      cacheClose (w.facs.getD f default).skCache : M Unit) (fun _ _ => True) := by
    intro a
    dsimp only
    split
    · exact CSpec.bind (G1 := fun _ _ => True) (cacheClose_cspec _) fun _ => cacheClose_cspec _
    · exact cacheClose_cspec _
  exact ⟨(CSpec.safe hs hi1 trivial).1, hc1.ext (hx _)⟩

theorem cacheOf_empty (on : Bool) (kind : Option (Cache.Kind × Nat)) (pc wc : Nat) :
    (cacheOf on kind pc wc).ents = [] ∧ (cacheOf on kind pc wc).latest = [] := by
  unfold cacheOf newCache
  cases on <;> cases kind <;> simp

theorem getElem?_append_one {α : Type} {l : List α} {x y : α} {i : Nat} (h : (l ++ [x])[i]? = some y) :
    l[i]? = some y ∨ y = x := by
  by_cases hi : i < l.length
  · rw [List.getElem?_append_left hi] at h; exact Or.inl h
  · rw [List.getElem?_append_right (Nat.le_of_not_lt hi)] at h
    right
    cases hj : i - l.length with
    | zero => rw [hj] at h; simpa using h.symm
    | succ j => rw [hj] at h; simp at h

theorem newFactory_world (p : Policy) (a b c d : Nat) (w : World) :
    ∃ cs fac, (newFactory p a b c d w).2 = { w with caches := cs, facs := w.facs ++ [fac] } ∧ (fac.pol = p ∧ fac.closed = false) ∧
      ∀ (i : Nat) (kc : KeyCache), cs[i]? = some kc → w.caches[i]? = some kc ∨ (kc.ents = [] ∧ kc.latest = []) := by
  obtain ⟨ea, ri, pr, csk, cik, sh, skk, ikk⟩ := p
  cases sh
  · refine ⟨w.caches ++ [cacheOf csk skk a b], { pol := ⟨ea, ri, pr, csk, cik, false, skk, ikk⟩, skCache := w.caches.length, sharedIk := none }, rfl, ⟨rfl, rfl⟩, ?_⟩
    intro i kc h
    rcases getElem?_append_one h with h | h
    · exact Or.inl h
    · exact Or.inr (h ▸ cacheOf_empty _ _ _ _)
  · refine ⟨(w.caches ++ [cacheOf csk skk a b]) ++ [cacheOf true ikk c d],
      { pol := ⟨ea, ri, pr, csk, cik, true, skk, ikk⟩, skCache := w.caches.length, sharedIk := some (w.caches ++ [cacheOf csk skk a b]).length }, rfl, ⟨rfl, rfl⟩, ?_⟩
    intro i kc h
    rcases getElem?_append_one h with h | h
    · rcases getElem?_append_one h with h | h
      · exact Or.inl h
      · exact Or.inr (h ▸ cacheOf_empty _ _ _ _)
    · exact Or.inr (h ▸ cacheOf_empty _ _ _ _)

theorem newFactory_finv {t : Int} {w : World} (h : FInv t w) (p : Policy) (a b c d : Nat)
    (hp : p.precision + nsPerSec ≤ t) : FInv t (newFactory p a b c d w).2 := by
  obtain ⟨cs, fac, hw, hfp, hcs⟩ := newFactory_world p a b c d w
  rw [hw]
  refine ⟨h.inv.of_caches rfl rfl hcs, h.clock.1, h.clock.2.1, fun f hf => ?_⟩
  rcases List.mem_append.mp hf with hf | hf
  · exact h.clock.2.2 f hf
  · simp only [List.mem_singleton] at hf
    rw [hf, hfp.1]; exact hp

theorem getSession_world (f part c d : Nat) (w : World) :
    ∃ cs ss, (getSession f part c d w).2 = { w with caches := cs, sessions := w.sessions ++ [ss] } ∧
      ss.part = part ∧ ss.fac = f ∧ ss.closed = false ∧
      ∀ (i : Nat) (kc : KeyCache), cs[i]? = some kc → w.caches[i]? = some kc ∨ (kc.ents = [] ∧ kc.latest = []) := by
  cases hs : (w.facs.getD f default).sharedIk with
  | some ci =>
    refine ⟨w.caches, { fac := f, part := part, ikCache := ci }, ?_, rfl, rfl, rfl, fun i kc h => Or.inl h⟩
    unfold getSession
    simp only [bind_run, get_run, hs]
    rfl
  | none =>
    refine ⟨w.caches ++ [cacheOf (w.facs.getD f default).pol.cacheIK (w.facs.getD f default).pol.ikKind c d],
      { fac := f, part := part, ikCache := w.caches.length }, ?_, rfl, rfl, rfl, ?_⟩
    · unfold getSession
      simp only [bind_run, get_run, hs]
      rfl
    · intro i kc h
      rcases getElem?_append_one h with h | h
      · exact Or.inl h
      · exact Or.inr (h ▸ cacheOf_empty _ _ _ _)

theorem getSession_finv {t : Int} {w : World} (h : FInv t w) (f part c d : Nat) :
    FInv t (getSession f part c d w).2 := by
  obtain ⟨cs, ss, hw, _, _, _, hcs⟩ := getSession_world f part c d w
  rw [hw]
  exact ⟨h.inv.of_caches rfl rfl hcs, h.clock⟩

theorem applyOp_snd (w : World) (op : Op) :
    (applyOp w op).2 = match op with
      | .newFactory p a b c d => (newFactory p a b c d w).2
      | .getSession f part c d => (getSession f part c d w).2
      | .encrypt s pay fl => (encrypt s pay fl true w).2
      | .decrypt s d fl => (decrypt s d fl true w).2
      | .closeSession s => ((do beginOp []; closeSession s : M Unit) w).2
      | .closeFactory f => ((do beginOp []; closeFactory f : M Unit) w).2
      | .advance d => { w with now := w.now + d }
      | .revoke m => { w with store := w.store.map fun r =>
          if r.kid = m.kid ∧ r.created = m.created then { r with revoked := true } else r }
      | .corruptRow m dp => (corruptRow m dp w).2 := by
  have key : ∀ {α : Type} (f : α → Out) (r : Except Err α × World),
      (match r with
        | (.ok a, w') => (f a, w')
        | (.error e, w') => ((Out.error e : Out), w')).2 = r.2 := by
    intro α f r; obtain ⟨r, w'⟩ := r; cases r <;> rfl
  cases op <;> simp only [applyOp] <;> first | rfl | exact (key _ _).trans rfl

theorem applyOp_finv {t : Int} {w : World} (h : FInv t w) (op : Op) (hop : OpOK t op) : FInv t (applyOp w op).2 := by
  rw [applyOp_snd]
  cases op with
  | newFactory p a b c d => exact newFactory_finv h p a b c d hop
  | getSession f part c d => exact getSession_finv h f part c d
  | encrypt s pay fl => exact (encrypt_finv h s pay fl).1
  | decrypt s d fl => exact decrypt_finv h s d fl
  | closeSession s => exact closeSession_finv h s
  | closeFactory f => exact closeFactory_finv h f
  | advance d =>
    exact ⟨h.inv.same rfl rfl rfl, by have := h.clock.1; show t ≤ w.now + d; omega, h.clock.2⟩
  | revoke m => exact ⟨h.inv.mapStore (revoke_keeps m) rfl rfl rfl, h.clock⟩
  | corruptRow m dp => exact hop.elim

theorem runOps_finv {t : Int} {w : World} (h : FInv t w) (ops : List Op) (hops : ∀ op, op ∈ ops → OpOK t op) :
    FInv t (runOps w ops).2 := by
  induction ops generalizing w with
  | nil => exact h
  | cons op rest ih =>
    simp only [runOps]
    exact ih (applyOp_finv h op (hops op (by simp))) fun o ho => hops o (by simp [ho])

/-! ### rows are immutable under SDK operations -/

/-- an operation performed through the SDK (not the out-of-band `revoke` / `corruptRow`). -/
def SdkOp : Op → Prop
  | .revoke _ => False
  | .corruptRow _ _ => False
  | _ => True

theorem applyOp_store_mono (w : World) (op : Op) (h : SdkOp op) :
    ∀ r, r ∈ w.store → r ∈ (applyOp w op).2.store := by
  rw [applyOp_snd]
  cases op with
  | newFactory p a b c d =>
    obtain ⟨cs, fac, hw, _, _⟩ := newFactory_world p a b c d w
    dsimp only; rw [hw]; exact fun r h => h
  | getSession f part c d =>
    obtain ⟨cs, ss, hw, _⟩ := getSession_world f part c d w
    dsimp only; rw [hw]; exact fun r h => h
  | encrypt s pay fl => exact (encrypt_ext s pay fl true w).store
  | decrypt s d fl => exact (decrypt_ext s d fl true w).store
  | closeSession s =>
    have e : ((do beginOp []; closeSession s : M Unit) w) = closeSession s { w with log := [], faults := [] } := rfl
    dsimp only
    rw [e, closeSession_run]
    dsimp only
    split
    · exact fun r h => h
    · intro r hr; exact (cacheClose_ext _ _).store r hr
  | closeFactory f =>
    have e : ((do beginOp []; closeFactory f : M Unit) w) = closeFactory f { w with log := [], faults := [] } := rfl
    have hx : Extends (do
        match (w.facs.getD f default).sharedIk with
        | some c => cacheClose c
        | none => pure ()
        cacheClose (w.facs.getD f default).skCache : M Unit) := by
      ext_auto [cacheClose_ext]
    dsimp only
    rw [e, closeFactory_run]
    intro r hr; exact (hx _).store r hr
  | advance d => exact fun r h => h
  | revoke m => exact h.elim
  | corruptRow m dp => exact h.elim

theorem applyOp_genuine {t : Int} (w : World) (op : Op) (hop : OpOK t op) {part pay : Nat} {d : Drr}
    (hg : Genuine w.store part pay d) : Genuine (applyOp w op).2.store part pay d := by
  by_cases hs : SdkOp op
  · exact hg.mono (applyOp_store_mono w op hs)
  · cases op with
    | revoke m =>
      rw [applyOp_snd]
      obtain ⟨dk, c, ikm, dm, n, n', h1, h2⟩ := hg
      exact ⟨dk, c, ikm, dm, n, n', h1, h2.map (revoke_keeps m)⟩
    | corruptRow m dp => exact hop.elim
    | _ => exact absurd trivial hs

theorem runOps_genuine {t : Int} (w : World) (ops : List Op) (hops : ∀ op, op ∈ ops → OpOK t op) {part pay : Nat} {d : Drr}
    (hg : Genuine w.store part pay d) : Genuine (runOps w ops).2.store part pay d := by
  induction ops generalizing w with
  | nil => exact hg
  | cons op rest ih =>
    simp only [runOps]
    exact ih _ (fun o ho => hops o (by simp [ho])) (applyOp_genuine w op (hops op (by simp)) hg)

/-! ### histories -/

theorem runOps_cons (w : World) (op : Op) (rest : List Op) :
    runOps w (op :: rest) = ((applyOp w op).1 :: (runOps (applyOp w op).2 rest).1, (runOps (applyOp w op).2 rest).2) := rfl

/-- the `i`-th output of a history is the outcome of its `i`-th operation on the world reached by
the first `i` operations; the final world is reached from there by the remaining operations. -/
theorem runOps_at (w : World) (ops : List Op) (i : Nat) (op : Op) (h : ops[i]? = some op) :
    (runOps w ops).1[i]? = some (applyOp (runOps w (ops.take i)).2 op).1 ∧
    (runOps w ops).2 = (runOps (applyOp (runOps w (ops.take i)).2 op).2 (ops.drop (i + 1))).2 := by
  induction ops generalizing w i with
  | nil => cases h
  | cons o rest ih =>
    cases i with
    | zero =>
      simp only [List.getElem?_cons_zero, Option.some.injEq] at h
      subst h
      exact ⟨rfl, rfl⟩
    | succ j =>
      simp only [List.getElem?_cons_succ] at h
      have := ih (applyOp w o).2 j h
      rw [runOps_cons]
      simp only [List.getElem?_cons_succ, List.take_succ_cons, List.drop_succ_cons]
      exact this

theorem mem_of_mem_take {α : Type} {l : List α} {i : Nat} {a : α} (h : a ∈ l.take i) : a ∈ l :=
  List.mem_of_mem_take h

/-- C01 core: a record returned by an encrypt of the history decrypts, in the final world, in every
session of that partition, to the encrypted payload — unless the decrypt touches a destroyed secret. -/
theorem genuine_decrypts {t : Int} {w : World} (h : FInv t w) {part pay : Nat} {d : Drr}
    (hg : Genuine w.store part pay d) (s' : Nat) (hp : (w.sessions.getD s' default).part = part) :
    (applyOp w (.decrypt s' d [])).1 = .payload pay ∨
      accessesAfterClose w < accessesAfterClose (applyOp w (.decrypt s' d [])).2 := by
  rw [(applyOp_decrypt w s' d []).1, (applyOp_decrypt w s' d []).2, decrypt_run]
  have hx : (sessionCtx { w with log := [], faults := [] } s').part = part := hp
  have hs := decryptDataRowRecord_cspec (a := accessesAfterClose ({ w with log := [], faults := [] } : World)) (F := True)
    (sessionCtx { w with log := [], faults := [] } s') d true pay
  rcases hs.live (h.inv.beginOp []) rfl (hx ▸ hg) with hb | ⟨_, v, hv, hvp⟩
  · exact Or.inr hb
  · left; rw [hv, hvp]

/-- the session's partition never changes once the session exists. -/
theorem applyOp_part_stable (w : World) (op : Op) (s : Nat) (ss : Session) (h : w.sessions[s]? = some ss) :
    ((applyOp w op).2.sessions.getD s default).part = ss.part := by
  rw [applyOp_snd]
  have keep : ∀ w' : World, w'.sessions = w.sessions → (w'.sessions.getD s default).part = ss.part := by
    intro w' e; rw [e, List.getD_eq_getElem?_getD, h]; rfl
  cases op with
  | newFactory p a b c d =>
    obtain ⟨cs, fac, hw, _⟩ := newFactory_world p a b c d w
    dsimp only; rw [hw]; exact keep _ rfl
  | getSession f part c d =>
    obtain ⟨cs, s2, hw, _⟩ := getSession_world f part c d w
    dsimp only; rw [hw]
    show ((w.sessions ++ [s2]).getD s default).part = ss.part
    rw [List.getD_eq_getElem?_getD, append_getElem?_of_some _ h]; rfl
  | encrypt s0 pay fl => exact keep _ (encrypt_ext s0 pay fl true w).sessions
  | decrypt s0 d fl => exact keep _ (decrypt_ext s0 d fl true w).sessions
  | closeSession s0 =>
    have e : ((do beginOp []; closeSession s0 : M Unit) w) = closeSession s0 { w with log := [], faults := [] } := rfl
    dsimp only
    rw [e, closeSession_run]
    have hset : ((setAt w.sessions s0 fun x => { x with closed := true }).getD s default).part = ss.part := by
      rw [List.getD_eq_getElem?_getD, setAt_getElem?, h]
      split <;> rfl
    dsimp only
    split
    · exact hset
    · have := (cacheClose_ext (w.sessions.getD s0 default).ikCache
        { ({ w with log := [], faults := [] } : World) with sessions := setAt w.sessions s0 fun x => { x with closed := true } }).sessions
      rw [this]; exact hset
  | closeFactory f =>
    have e : ((do beginOp []; closeFactory f : M Unit) w) = closeFactory f { w with log := [], faults := [] } := rfl
    have hx : Extends (do
        match (w.facs.getD f default).sharedIk with
        | some c => cacheClose c
        | none => pure ()
        cacheClose (w.facs.getD f default).skCache : M Unit) := by
      ext_auto [cacheClose_ext]
    dsimp only
    rw [e, closeFactory_run]
    exact keep _ (hx _).sessions
  | advance d => exact keep _ rfl
  | revoke m => exact keep _ rfl
  | corruptRow m dp => exact keep _ rfl

/-- C02 core (progress): from a world satisfying the invariants, a fault-free encrypt returns a
record, unless it touches a destroyed secret. -/
theorem encrypt_live {t : Int} {w : World} (h : FInv t w) (s pay : Nat) :
    (∃ d, (applyOp w (.encrypt s pay [])).1 = .record d) ∨
      accessesAfterClose w < accessesAfterClose (applyOp w (.encrypt s pay [])).2 := by
  rw [(applyOp_encrypt w s pay []).1, (applyOp_encrypt w s pay []).2, encrypt_run]
  have hc0 : ClockOK t { w with log := [], faults := [] } := h.clock
  have hs := encryptPayload_cspec (a := accessesAfterClose ({ w with log := [], faults := [] } : World)) (F := True)
    (sessionCtx { w with log := [], faults := [] } s) pay true
  rcases hs.live (h.inv.beginOp []) rfl (hc0.timeOK s) with hb | ⟨_, v, hv, _⟩
  · exact Or.inr hb
  · left; rw [hv]; exact ⟨v, rfl⟩

/-- C02 core (safety): a returned record is genuine in the resulting store, for any fault list. -/
theorem encrypt_genuine {t : Int} {w : World} (h : FInv t w) (s pay : Nat) (fl : List Fault) (d : Drr)
    (hr : (applyOp w (.encrypt s pay fl)).1 = .record d) :
    Genuine (applyOp w (.encrypt s pay fl)).2.store (w.sessions.getD s default).part pay d := by
  rw [(applyOp_encrypt w s pay fl).2]
  apply (encrypt_finv h s pay fl).2
  rw [(applyOp_encrypt w s pay fl).1] at hr
  split at hr
  · rename_i d' hd'; cases hr; exact hd'
  · cases hr

/-- the chain of a genuine record is in the store. -/
theorem Genuine.chain {w : World} (hi : Inv w) {part pay : Nat} {d : Drr} (hg : Genuine w.store part pay d) :
    ∃ (dk : DrrKey) (c : Int), d.key = some dk ∧ dk.parent = some ⟨.ik part, c⟩ ∧
      ∃ rik, rik ∈ w.store ∧ rik.kid = .ik part ∧ rik.created = c ∧
        ∃ csk, rik.parent = some ⟨.sk, csk⟩ ∧ ∃ rsk, rsk ∈ w.store ∧ rsk.kid = .sk ∧ rsk.created = csk := by
  obtain ⟨dk, c, ikm, dm, n, n', ⟨h1, h2, _, _⟩, r, hr, hk, hc, _⟩ := hg
  obtain ⟨csk, skm, _, _, ⟨hp, _, _⟩, rsk, hrsk, hk2, hc2, _⟩ := hi.ikRow hr hk
  exact ⟨dk, c, h1, h2, r, hr, hk, hc, csk, hp, rsk, hrsk, hk2, hc2⟩

/-- a fresh factory and session for the partition, created in any world. -/
theorem fresh_process {t : Int} {w : World} (h : FInv t w) (p : Policy) (a b c d part e f : Nat)
    (hp : p.precision + nsPerSec ≤ t) :
    let w1 := (applyOp w (.newFactory p a b c d)).2
    let w2 := (applyOp w1 (.getSession w.facs.length part e f)).2
    FInv t w2 ∧ sessionOpen w2 w1.sessions.length ∧ (w2.sessions.getD w1.sessions.length default).part = part ∧
      (∀ r, r ∈ w.store → r ∈ w2.store) := by
  intro w1 w2
  have hf1 : FInv t w1 := applyOp_finv h _ hp
  have hf2 : FInv t w2 := applyOp_finv hf1 _ trivial
  have e1 : w1 = (newFactory p a b c d w).2 := applyOp_snd w _
  have e2 : w2 = (getSession w.facs.length part e f w1).2 := applyOp_snd w1 _
  obtain ⟨cs, fac, hw1, ⟨_, hfc⟩, _⟩ := newFactory_world p a b c d w
  obtain ⟨cs2, ss, hw2, hsp, hsf, hsc, _⟩ := getSession_world w.facs.length part e f w1
  have hfacs1 : w1.facs = w.facs ++ [fac] := by rw [e1, hw1]
  have hsess2 : w2.sessions = w1.sessions ++ [ss] := by rw [e2, hw2]
  have hfacs2 : w2.facs = w1.facs := by rw [e2, hw2]
  have hget : w2.sessions[w1.sessions.length]? = some ss := by rw [hsess2]; simp
  refine ⟨hf2, ⟨ss, hget, hsc, fac, ?_, hfc⟩, ?_, ?_⟩
  · rw [hfacs2, hfacs1, hsf]; simp
  · rw [List.getD_eq_getElem?_getD, hget]; exact hsp
  · intro r hr
    have s1 : w1.store = w.store := by rw [e1, hw1]
    have s2 : w2.store = w1.store := by rw [e2, hw2]
    rw [s2, s1]; exact hr

end AsherahVerif.Env
