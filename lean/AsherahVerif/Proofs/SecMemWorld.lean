import AsherahVerif.Proofs.SecMemSeq
/-
World-level lemmas: the four creation functions assembled into `create`, the per-secret invariant
every operation preserves under arbitrary faults, and the facts of one `World.step`.
-/
namespace AsherahVerif.SecMem

/-! ### creation, assembled -/

/-- the failure paths of this creation function wipe before they clean up. -/
def Cfg.wipes (cfg : Cfg) : Impl → Bool → Bool
  | .pm, false => cfg.wipeOnNewProtectFail
  | .pm, true => cfg.wipeOnRandFail && cfg.wipeOnRandProtectFail
  | .mg, _ => cfg.mgWipeOnProtectFail

theorem create_sound (cfg : Cfg) (impl : Impl) (random : Bool) (id len : Nat) (fl : List Bool) :
    createSoundB (create cfg impl random id len fl) = true := by
  cases impl <;> cases random <;> simp only [create]
  · have := pmNew_checks cfg id len fl; rw [pmChk_norest] at this; simp only [pmChk, Bool.and_eq_true] at this; exact this.1.1.1
  · have := pmRand_checks cfg id len fl; rw [pmChk_norest] at this; simp only [pmChk, Bool.and_eq_true] at this; exact this.1.1.1
  · have := mgNew_checks cfg id len fl; rw [mgChk_norest] at this; simp only [mgChk, Bool.and_eq_true] at this; exact this.1
  · have := mgRand_checks cfg id len fl; rw [mgChk_norest] at this; simp only [mgChk, Bool.and_eq_true] at this; exact this.1

theorem create_wiped (cfg : Cfg) (impl : Impl) (random : Bool) (id len : Nat) (fl : List Bool)
    (hw : cfg.wipes impl random = true) :
    leavesNoSecretB (create cfg impl random id len fl) = true ∧ wipeOkB (create cfg impl random id len fl).evs = true := by
  cases impl <;> cases random <;> simp only [create] <;> simp only [Cfg.wipes] at hw
  · have := pmNew_checks cfg id len fl; rw [pmChk_norest] at this
    simp only [pmChk, hw, Bool.and_eq_true, Bool.not_true, Bool.false_or] at this; exact this.2
  · have := pmRand_checks cfg id len fl; rw [pmChk_norest] at this
    simp only [pmChk, hw, Bool.and_eq_true, Bool.not_true, Bool.false_or] at this; exact this.2
  · have := mgNew_checks cfg id len fl; rw [mgChk_norest] at this
    simp only [mgChk, hw, Bool.and_eq_true, Bool.not_true, Bool.false_or] at this; exact this.2
  · have := mgRand_checks cfg id len fl; rw [mgChk_norest] at this
    simp only [mgChk, hw, Bool.and_eq_true, Bool.not_true, Bool.false_or] at this; exact this.2

theorem create_pm_partial (cfg : Cfg) (random : Bool) (id len : Nat) (fl : List Bool) :
    leavesNothingMappedB (create cfg .pm random id len fl) = true ∧ errorNotPanicB (create cfg .pm random id len fl) = true := by
  cases random <;> simp only [create]
  · have := pmNew_checks cfg id len fl; rw [pmChk_norest] at this; simp only [pmChk, Bool.and_eq_true] at this
    exact ⟨this.1.1.2, this.1.2⟩
  · have := pmRand_checks cfg id len fl; rw [pmChk_norest] at this; simp only [pmChk, Bool.and_eq_true] at this
    exact ⟨this.1.1.2, this.1.2⟩

/-- Prop reading of `createSoundB`. -/
structure CreateSound (o : CreateOut) : Prop where
  fail_is_error : anyFailed o.evs = true → o.res ≠ .ok
  no_crash : o.res ≠ .crash ∧ o.crashed = false ∧ o.res ≠ .deadlock ∧ o.res ≠ .closedErr
  ok_sec : o.res = .ok → ∃ s, o.sec = some s ∧ s.idle = true ∧ o.page = s.page ∧ anyFailed o.evs = false
  fail_sec : o.res ≠ .ok → o.sec = none
  inuse : inuseDelta o.evs = if o.res = .ok then 1 else 0
  alloc : allocDelta o.evs = if o.res = .ok then 1 else 0

theorem createSound_of {o : CreateOut} (h : createSoundB o = true) : CreateSound o := by
  obtain ⟨res, sec, page, srcWiped, evs, rest, crashed⟩ := o
  cases res <;> cases sec <;> simp [createSoundB] at h <;> (constructor <;> simp_all)

theorem idle_elim {s : Sec} (h : s.idle = true) :
    s.closing = false ∧ s.closed = false ∧ s.counter = 0 ∧ s.page.mapped = true ∧ s.page.locked = true ∧
    s.page.dontdump = true ∧ s.page.prot = .none ∧ s.page.content = s.born ∧ s.born.isSecret = true := by
  simp only [Sec.idle, Bool.and_eq_true, Bool.not_eq_true', beq_iff_eq] at h
  obtain ⟨⟨⟨⟨⟨⟨⟨⟨h1, h2⟩, h3⟩, h4⟩, h5⟩, h6⟩, h7⟩, h8⟩, h9⟩ := h
  exact ⟨h1, h2, h3, h4, h5, h6, h7, h8, h9⟩

/-! ### the invariant of a secret between sequential operations, under arbitrary faults -/

structure SInv (s : Sec) : Prop where
  mapped : s.closed = false → s.page.mapped = true
  unmapped : s.closed = true → s.page.mapped = false
  counter : s.counter = 0

theorem SInv.of_idle {s : Sec} (h : s.idle = true) : SInv s := by
  obtain ⟨_, h2, h3, h4, _⟩ := idle_elim h
  exact ⟨fun _ => h4, fun h => by simp [h2] at h, h3⟩

/-- facts of `withBytes` on a secret satisfying `SInv` (closed form instantiated at counter 0). -/
theorem withBytes_seq (pf : Proto) (hpf : pf.accessChecksClosing = true) (nest : Nat) (s : Sec) (fl : List Bool)
    (hs : SInv s) : withBytes pf nest s fl = withClosed s fl :=
  withBytes_closed pf hpf nest s fl hs.mapped (fun h => absurd hs.counter h)

theorem withClosed_inv (s : Sec) (fl : List Bool) (hs : SInv s) :
    SInv (withClosed s fl).sec ∧ (withClosed s fl).sec.closed = s.closed ∧
    inuseDelta (withClosed s fl).evs = 0 ∧ releasesClean (withClosed s fl).evs = true ∧
    ((withClosed s fl).res = .ok ∨ (withClosed s fl).res = .err ∨ (withClosed s fl).res = .closedErr) := by
  have hc := hs.counter
  unfold withClosed
  simp only [hc, bne_self_eq_false, Bool.false_eq_true, if_false]
  split
  · exact ⟨hs, rfl, rfl, rfl, by simp⟩
  · split
    · exact ⟨hs, rfl, by simp [inuseDelta, protCall], by simp [releasesClean, protCall], by simp⟩
    · split
      · exact ⟨⟨hs.mapped, hs.unmapped, rfl⟩, rfl, by simp [inuseDelta, protCall], by simp [releasesClean, protCall], by simp⟩
      · exact ⟨⟨hs.mapped, hs.unmapped, rfl⟩, rfl, by simp [inuseDelta, protCall], by simp [releasesClean, protCall], by simp⟩

/-- facts of sequential `Close` on a secret satisfying `SInv`. -/
theorem close_seq (pf : Proto) (hpf : pf.closeWaits = true) (s : Sec) (fl : List Bool) (hs : SInv s) :
    let o := close pf s fl
    SInv o.sec ∧ (o.res = .ok ∨ o.res = .err ∨ o.res = .panic) ∧ releasesClean o.evs = true ∧
    inuseDelta o.evs = (if s.closed = false ∧ o.sec.closed = true then -1 else 0) ∧
    (s.closed = true → o.sec.closed = true) ∧ (o.res = .ok ↔ o.sec.closed = true) := by
  intro o
  have he : o = close pf s fl := rfl
  clear_value o
  rw [close_eq pf hpf] at he
  obtain ⟨hsm, hsu, hsc⟩ := hs
  obtain ⟨impl, id, len, born, pg, closing, closed, counter⟩ := s
  simp only at hsm hsu hsc he
  subst hsc
  cases closed
  · simp only [Bool.false_eq_true, if_false, beq_self_eq_true, if_true] at he
    have hm := hsm rfl
    have hf := closeInner_facts { impl := impl, id := id, len := len, born := born, page := pg, closing := true, closed := false, counter := 0 } hm fl
    rw [← he] at hf
    obtain ⟨hres, hsame, hok, hfail, hclean, _, _, _⟩ := hf
    by_cases hr : o.res = .ok
    · obtain ⟨h1, h2, h3, h4, h5, h6⟩ := hok hr
      exact ⟨⟨by simp [h1], fun _ => h2, hsame.2.2.2.2.1⟩, hres, hclean, by simp [h1, h5], by simp, by simp [hr, h1]⟩
    · obtain ⟨h1, h2, h3, h4, h5⟩ := hfail hr
      simp only at h1
      exact ⟨⟨fun _ => h2, by simp [h1], hsame.2.2.2.2.1⟩, hres, hclean, by simp [h1, h3], by simp, by simp [hr, h1]⟩
  · simp only [if_true] at he
    rw [he]
    exact ⟨⟨by simp, fun _ => hsu rfl, rfl⟩, by simp, by simp [releasesClean], by simp [inuseDelta], by simp, by simp⟩

end AsherahVerif.SecMem
