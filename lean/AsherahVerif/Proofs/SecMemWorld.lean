import AsherahVerif.Proofs.SecMemSeq
/-
World-level lemmas: the four creation functions assembled into `create`, the per-secret invariant
every operation preserves under arbitrary faults, and the facts of one `World.step`.
-/
namespace AsherahVerif.SecMem

/-! ### creation, assembled -/

/-- the failure paths of this creation function wipe before they clean up. -/
def Cfg.wipes (cfg : Cfg) : Impl → Bool → Bool
  | .pm, false => cfg.wipeOnNewProtectFail
  | .pm, true => cfg.wipeOnRandFail && cfg.wipeOnRandProtectFail
  | .mg, _ => cfg.mgWipeOnProtectFail

theorem create_sound (cfg : Cfg) (impl : Impl) (random : Bool) (id len : Nat) (fl : List Bool) :
    createSoundB (create cfg impl random id len fl) = true := by
  cases impl <;> cases random <;> simp only [create]
  · have := pmNew_checks cfg id len fl; rw [pmChk_norest] at this; simp only [pmChk, Bool.and_eq_true] at this; exact this.1.1.1
  · have := pmRand_checks cfg id len fl; rw [pmChk_norest] at this; simp only [pmChk, Bool.and_eq_true] at this; exact this.1.1.1
  · have := mgNew_checks cfg id len fl; rw [mgChk_norest] at this; simp only [mgChk, Bool.and_eq_true] at this; exact this.1
  · have := mgRand_checks cfg id len fl; rw [mgChk_norest] at this; simp only [mgChk, Bool.and_eq_true] at this; exact this.1

theorem create_wiped (cfg : Cfg) (impl : Impl) (random : Bool) (id len : Nat) (fl : List Bool)
    (hw : cfg.wipes impl random = true) :
    leavesNoSecretB (create cfg impl random id len fl) = true ∧ wipeOkB (create cfg impl random id len fl).evs = true := by
  cases impl <;> cases random <;> simp only [create] <;> simp only [Cfg.wipes] at hw
  · have := pmNew_checks cfg id len fl; rw [pmChk_norest] at this
    simp only [pmChk, hw, Bool.and_eq_true, Bool.not_true, Bool.false_or] at this; exact this.2
  · have := pmRand_checks cfg id len fl; rw [pmChk_norest] at this
    simp only [pmChk, hw, Bool.and_eq_true, Bool.not_true, Bool.false_or] at this; exact this.2
  · have := mgNew_checks cfg id len fl; rw [mgChk_norest] at this
    simp only [mgChk, hw, Bool.and_eq_true, Bool.not_true, Bool.false_or] at this; exact this.2
  · have := mgRand_checks cfg id len fl; rw [mgChk_norest] at this
    simp only [mgChk, hw, Bool.and_eq_true, Bool.not_true, Bool.false_or] at this; exact this.2

theorem create_pm_partial (cfg : Cfg) (random : Bool) (id len : Nat) (fl : List Bool) :
    leavesNothingMappedB (create cfg .pm random id len fl) = true ∧ errorNotPanicB (create cfg .pm random id len fl) = true := by
  cases random <;> simp only [create]
  · have := pmNew_checks cfg id len fl; rw [pmChk_norest] at this; simp only [pmChk, Bool.and_eq_true] at this
    exact ⟨this.1.1.2, this.1.2⟩
  · have := pmRand_checks cfg id len fl; rw [pmChk_norest] at this; simp only [pmChk, Bool.and_eq_true] at this
    exact ⟨this.1.1.2, this.1.2⟩

/-- Prop reading of `createSoundB`. -/
structure CreateSound (o : CreateOut) : Prop where
  fail_is_error : anyFailed o.evs = true → o.res ≠ .ok
  no_crash : o.res ≠ .crash ∧ o.crashed = false ∧ o.res ≠ .deadlock ∧ o.res ≠ .closedErr
  ok_sec : o.res = .ok → ∃ s, o.sec = some s ∧ s.idle = true ∧ o.page = s.page ∧ anyFailed o.evs = false
  fail_sec : o.res ≠ .ok → o.sec = none
  inuse : inuseDelta o.evs = if o.res = .ok then 1 else 0
  alloc : allocDelta o.evs = if o.res = .ok then 1 else 0

theorem createSound_of {o : CreateOut} (h : createSoundB o = true) : CreateSound o := by
  obtain ⟨res, sec, page, srcWiped, evs, rest, crashed⟩ := o
  cases res <;> cases sec <;> simp [createSoundB] at h <;> (constructor <;> simp_all)

theorem idle_elim {s : Sec} (h : s.idle = true) :
    s.closing = false ∧ s.closed = false ∧ s.counter = 0 ∧ s.page.mapped = true ∧ s.page.locked = true ∧
    s.page.dontdump = true ∧ s.page.prot = .none ∧ s.page.content = s.born ∧ s.born.isSecret = true := by
  simp only [Sec.idle, Bool.and_eq_true, Bool.not_eq_true', beq_iff_eq] at h
  obtain ⟨⟨⟨⟨⟨⟨⟨⟨h1, h2⟩, h3⟩, h4⟩, h5⟩, h6⟩, h7⟩, h8⟩, h9⟩ := h
  exact ⟨h1, h2, h3, h4, h5, h6, h7, h8, h9⟩

/-! ### the invariant of a secret between sequential operations, under arbitrary faults -/

structure SInv (s : Sec) : Prop where
  mapped : s.closed = false → s.page.mapped = true
  unmapped : s.closed = true → s.page.mapped = false
  counter : s.counter = 0

theorem SInv.of_idle {s : Sec} (h : s.idle = true) : SInv s := by
  obtain ⟨_, h2, h3, h4, _⟩ := idle_elim h
  exact ⟨fun _ => h4, fun h => by simp [h2] at h, h3⟩

/-- facts of `withBytes` on a secret satisfying `SInv` (closed form instantiated at counter 0). -/
theorem withBytes_seq (pf : Proto) (hpf : pf.accessChecksClosing = true) (nest : Nat) (s : Sec) (fl : List Bool)
    (hs : SInv s) : withBytes pf nest s fl = withClosed s fl :=
  withBytes_closed pf hpf nest s fl hs.mapped (fun h => absurd hs.counter h)

theorem withClosed_inv (s : Sec) (fl : List Bool) (hs : SInv s) :
    SInv (withClosed s fl).sec ∧ (withClosed s fl).sec.closed = s.closed ∧
    inuseDelta (withClosed s fl).evs = 0 ∧ releasesClean (withClosed s fl).evs = true ∧
    ((withClosed s fl).res = .ok ∨ (withClosed s fl).res = .err ∨ (withClosed s fl).res = .closedErr) := by
  have hc := hs.counter
  unfold withClosed
  simp only [hc, bne_self_eq_false, Bool.false_eq_true, if_false]
  split
  · exact ⟨hs, rfl, rfl, rfl, by simp⟩
  · split
    · exact ⟨hs, rfl, by simp [inuseDelta, protCall], by simp [releasesClean, protCall], by simp⟩
    · split
      · exact ⟨⟨hs.mapped, hs.unmapped, rfl⟩, rfl, by simp [inuseDelta, protCall], by simp [releasesClean, protCall], by simp⟩
      · exact ⟨⟨hs.mapped, hs.unmapped, rfl⟩, rfl, by simp [inuseDelta, protCall], by simp [releasesClean, protCall], by simp⟩

/-- facts of sequential `Close` on a secret satisfying `SInv`. -/
theorem close_seq (pf : Proto) (hpf : pf.closeWaits = true) (s : Sec) (fl : List Bool) (hs : SInv s) :
    let o := close pf s fl
    SInv o.sec ∧ (o.res = .ok ∨ o.res = .err ∨ o.res = .panic) ∧ releasesClean o.evs = true ∧
    inuseDelta o.evs = (if s.closed = false ∧ o.sec.closed = true then -1 else 0) ∧
    (s.closed = true → o.sec.closed = true) ∧ (o.res = .ok ↔ o.sec.closed = true) := by
  intro o
  have he : o = close pf s fl := rfl
  clear_value o
  rw [close_eq pf hpf] at he
  obtain ⟨hsm, hsu, hsc⟩ := hs
  obtain ⟨impl, id, len, born, pg, closing, closed, counter⟩ := s
  simp only at hsm hsu hsc he
  subst hsc
  cases closed
  · simp only [Bool.false_eq_true, if_false, beq_self_eq_true, if_true] at he
    have hm := hsm rfl
    have hf := closeInner_facts { impl := impl, id := id, len := len, born := born, page := pg, closing := true, closed := false, counter := 0 } hm fl
    rw [← he] at hf
    obtain ⟨hres, hsame, hok, hfail, hclean, _, _, _⟩ := hf
    by_cases hr : o.res = .ok
    · obtain ⟨h1, h2, h3, h4, h5, h6⟩ := hok hr
      exact ⟨⟨by simp [h1], fun _ => h2, hsame.2.2.2.2.1⟩, hres, hclean, by simp [h1, h5], by simp, by simp [hr, h1]⟩
    · obtain ⟨h1, h2, h3, h4, h5⟩ := hfail hr
      simp only at h1
      exact ⟨⟨fun _ => h2, by simp [h1], hsame.2.2.2.2.1⟩, hres, hclean, by simp [h1, h3], by simp, by simp [hr, h1]⟩
  · simp only [if_true] at he
    rw [he]
    exact ⟨⟨by simp, fun _ => hsu rfl, rfl⟩, by simp, by simp [releasesClean], by simp [inuseDelta], by simp, by simp⟩

/-! ### a world of secrets -/

theorem live_append (l : List Sec) (s : Sec) : live (l ++ [s]) = live l + (if s.closed then 0 else 1) := by
  induction l with
  | nil => simp [live]
  | cons a t ih => simp only [List.cons_append, live, ih]; omega

theorem live_set (l : List Sec) (i : Nat) (x old : Sec) (h : l[i]? = some old) :
    live (l.set i x) = live l - (if old.closed then 0 else 1) + (if x.closed then 0 else 1) := by
  induction l generalizing i with
  | nil => simp at h
  | cons a t ih =>
    cases i with
    | zero =>
      simp only [List.getElem?_cons_zero, Option.some.injEq] at h
      subst h
      simp only [List.set_cons_zero, live]; omega
    | succ n =>
      simp only [List.getElem?_cons_succ] at h
      simp only [List.set_cons_succ, live, ih n h]; omega

theorem mem_set_cases {l : List Sec} {i : Nat} {x y : Sec} (h : y ∈ l.set i x) : y = x ∨ y ∈ l := by
  induction l generalizing i with
  | nil => simp at h
  | cons a t ih =>
    cases i with
    | zero => simp only [List.set_cons_zero, List.mem_cons] at h; rcases h with h | h <;> simp [h]
    | succ n =>
      simp only [List.set_cons_succ, List.mem_cons] at h
      rcases h with h | h
      · simp [h]
      · rcases ih h with h | h <;> simp [h]

structure WorldInv (w : World) : Prop where
  secs : ∀ s ∈ w.secs, SInv s
  inuse : w.inuse = live w.secs

def Op.creates : Op → Option (Impl × Bool)
  | .new i _ => some (i, false)
  | .rand i _ => some (i, true)
  | _ => none

/-- the facts of one operation of the world, under any faults: the invariant is kept (in particular
the in-use accounting), nothing crashes or deadlocks, and no Unlock/Free is issued on secret bytes
(`clean`; for a creation this needs its failure paths to wipe, `wipes`). -/
structure StepFacts (w : World) (r : World × Obs) (wipes : Bool) : Prop where
  inv : WorldInv r.1
  cfg : r.1.cfg = w.cfg
  pf : r.1.pf = w.pf
  noCrash : r.2.res ≠ .crash
  noDeadlock : r.2.res ≠ .deadlock
  clean : wipes = true → releasesClean r.2.evs = true

theorem createOp_facts (w : World) (hw : WorldInv w) (impl : Impl) (random : Bool) (len : Nat) (fl : List Bool) :
    StepFacts w (w.createOp impl random len fl) (w.cfg.wipes impl random) := by
  unfold World.createOp
  have hs := createSound_of (create_sound w.cfg impl random w.nextId len fl)
  have hwp := create_wiped w.cfg impl random w.nextId len fl
  generalize create w.cfg impl random w.nextId len fl = c at hs hwp ⊢
  have hclean : w.cfg.wipes impl random = true → releasesClean c.evs = true := by
    intro h
    have := (hwp h).2
    simp only [wipeOkB, Bool.and_eq_true] at this
    exact this.2
  cases hsec : c.sec with
  | some s =>
    simp only [hsec]
    have hok : c.res = .ok := by
      by_cases h : c.res = .ok
      · exact h
      · have := hs.fail_sec h; rw [hsec] at this; cases this
    obtain ⟨s', h1, h2, _, _⟩ := hs.ok_sec hok
    rw [hsec] at h1; cases h1
    refine ⟨⟨?_, ?_⟩, rfl, rfl, by simp [hok], by simp [hok], hclean⟩
    · intro x hx
      simp only [List.mem_append, List.mem_singleton] at hx
      rcases hx with hx | hx
      · exact hw.secs x hx
      · subst hx; exact SInv.of_idle h2
    · simp only [live_append, hs.inuse, hok, if_true, hw.inuse, (idle_elim h2).2.1]; simp
  | none =>
    simp only [hsec]
    have hno : c.res ≠ .ok := by
      intro h; obtain ⟨s', h1, _⟩ := hs.ok_sec h; rw [hsec] at h1; cases h1
    refine ⟨⟨hw.secs, ?_⟩, rfl, rfl, hs.no_crash.1, hs.no_crash.2.2.1, hclean⟩
    simp only [hs.inuse, hno, if_false, hw.inuse]; simp

theorem withOp_facts (w : World) (hp1 : w.pf.accessChecksClosing = true) (hw : WorldInv w) (sid nest : Nat) (fl : List Bool) :
    StepFacts w (w.withOp sid nest fl) true := by
  unfold World.withOp
  cases h : w.secs[sid]? with
  | none => exact ⟨hw, rfl, rfl, by simp, by simp, by simp [releasesClean]⟩
  | some s =>
    have hs := hw.secs s (List.mem_of_getElem? h)
    simp only [withBytes_seq w.pf hp1 nest s fl hs]
    obtain ⟨i1, i2, i3, i4, i5⟩ := withClosed_inv s fl hs
    refine ⟨⟨?_, ?_⟩, rfl, rfl, ?_, ?_, fun _ => i4⟩
    · intro x hx
      rcases mem_set_cases hx with hx | hx
      · subst hx; exact i1
      · exact hw.secs x hx
    · simp only [live_set _ _ _ _ h, i2, i3, hw.inuse]; omega
    · rcases i5 with h | h | h <;> simp [h]
    · rcases i5 with h | h | h <;> simp [h]

theorem readOp_facts (w : World) (hp1 : w.pf.accessChecksClosing = true) (hw : WorldInv w) (rid k : Nat) (fl : List Bool) :
    StepFacts w (w.readOp rid k fl) true := by
  unfold World.readOp
  cases hr : w.readers[rid]? with
  | none => exact ⟨hw, rfl, rfl, by simp, by simp, by simp [releasesClean]⟩
  | some p =>
    obtain ⟨sid, i⟩ := p
    simp only
    cases h : w.secs[sid]? with
    | none => exact ⟨hw, rfl, rfl, by simp, by simp, by simp [releasesClean]⟩
    | some s =>
      have hs := hw.secs s (List.mem_of_getElem? h)
      simp only [withBytes_seq w.pf hp1 0 s fl hs]
      obtain ⟨i1, i2, i3, i4, i5⟩ := withClosed_inv s fl hs
      refine ⟨⟨?_, ?_⟩, rfl, rfl, ?_, ?_, fun _ => i4⟩
      · intro x hx
        rcases mem_set_cases hx with hx | hx
        · subst hx; exact i1
        · exact hw.secs x hx
      · simp only [live_set _ _ _ _ h, i2, i3, hw.inuse]; omega
      · rcases i5 with h | h | h <;> simp [h]
      · rcases i5 with h | h | h <;> simp [h]

theorem closeOp_facts (w : World) (hp2 : w.pf.closeWaits = true) (hw : WorldInv w) (sid : Nat) (fl : List Bool) :
    StepFacts w (w.closeOp sid fl) true := by
  unfold World.closeOp
  cases h : w.secs[sid]? with
  | none => exact ⟨hw, rfl, rfl, by simp, by simp, by simp [releasesClean]⟩
  | some s =>
    have hs := hw.secs s (List.mem_of_getElem? h)
    obtain ⟨i1, i2, i3, i4, i5, _⟩ := close_seq w.pf hp2 s fl hs
    refine ⟨⟨?_, ?_⟩, rfl, rfl, ?_, ?_, fun _ => i3⟩
    · intro x hx
      rcases mem_set_cases hx with hx | hx
      · subst hx; exact i1
      · exact hw.secs x hx
    · simp only [live_set _ _ _ _ h, i4, hw.inuse]
      cases hc : s.closed
      · cases hc' : (close w.pf s fl).sec.closed <;> simp <;> omega
      · simp [i5 hc]
    · rcases i2 with h | h | h <;> simp [h]
    · rcases i2 with h | h | h <;> simp [h]

theorem WorldInv.init (cfg : Cfg) : WorldInv { cfg := cfg } :=
  ⟨(by intro s hs; cases hs), (by simp [live])⟩

/-- without faults `close()` / `Destroy()` of a mapped page completes. -/
theorem closeInner_nil (s : Sec) (hm : s.page.mapped = true) : (closeInner s []).res = .ok := by
  obtain ⟨impl, id, len, born, ⟨mapped, locked, dd, prot, content, guards⟩, closing, closed, counter⟩ := s
  simp only at hm; subst hm
  cases impl <;> simp [closeInner, pmClose, mgClose, mgDestroy, Run.call, Run.wipe, Page.writable, applyPrim, Prim.alwaysFails]

/-- does this operation's creation function wipe on its failure paths (`true` for non-creations). -/
def Op.wipes (cfg : Cfg) : Op → Bool
  | .new i _ => cfg.wipes i false
  | .rand i _ => cfg.wipes i true
  | _ => true

theorem step_facts (w : World) (hp1 : w.pf.accessChecksClosing = true) (hp2 : w.pf.closeWaits = true)
    (hw : WorldInv w) (op : Op) (fl : List Bool) : StepFacts w (w.step op fl) (op.wipes w.cfg) := by
  cases op with
  | new impl len => exact createOp_facts w hw impl false len fl
  | rand impl len => exact createOp_facts w hw impl true len fl
  | withB sid nest => exact withOp_facts w hp1 hw sid nest fl
  | withF sid nest => exact withOp_facts w hp1 hw sid nest fl
  | newReader sid =>
    simp only [World.step]
    cases h : w.secs[sid]? with
    | none => exact ⟨hw, rfl, rfl, by simp, by simp, by simp [releasesClean]⟩
    | some s => exact ⟨⟨hw.secs, hw.inuse⟩, rfl, rfl, by simp, by simp, by simp [releasesClean]⟩
  | read rid k => exact readOp_facts w hp1 hw rid k fl
  | close sid => exact closeOp_facts w hp2 hw sid fl
  | isClosed sid =>
    simp only [World.step]
    cases h : w.secs[sid]? with
    | none => exact ⟨hw, rfl, rfl, by simp, by simp, by simp [releasesClean]⟩
    | some s => exact ⟨hw, rfl, rfl, by simp, by simp, by simp [releasesClean]⟩

end AsherahVerif.SecMem
