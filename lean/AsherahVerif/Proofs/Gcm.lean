import AsherahVerif.Model.Gcm
/-
Helper lemmas for the byte-level GCM theorems (Props/C18.lean; reused by C07/C01).
Everything holds for EVERY block function `E`: the only facts used are
  * a block serialises to exactly 16 bytes,
  * xor with the same key stream twice is the identity (CTR is an involution),
  * list surgery on  ct ‖ tag ‖ nonce.
GHASH / the field multiplication are opaque to these proofs (any function would do), which is
exactly why no cryptographic assumption is needed for the functional statements.
-/
namespace AsherahVerif.Gcm

theorem bytes64_length (w : UInt64) : (Block.bytes64 w).length = 8 := rfl

theorem toBytes_length (b : Block) : b.toBytes.length = 16 := by
  simp [Block.toBytes, bytes64_length]

theorem keystream_length {κ : Type} (E : κ → Block → Block) (k : κ) (n : Nat) (cb : Block) :
    (keystream E k n cb).length = 16 * n := by
  induction n generalizing cb with
  | zero => simp [keystream]
  | succ n ih => simp [keystream, toBytes_length, ih]; omega

theorem xorBytes_length (a b : Bytes) : (xorBytes a b).length = min a.length b.length := by
  induction a generalizing b with
  | nil => simp [xorBytes]
  | cons x xs ih =>
    cases b with
    | nil => simp [xorBytes]
    | cons y ys => simp [xorBytes, ih]

theorem xor_cancel (a b : UInt8) : (a ^^^ b) ^^^ b = a := by
  rw [UInt8.xor_assoc, UInt8.xor_self, UInt8.xor_zero]

theorem xorBytes_cancel (a ks : Bytes) (h : a.length ≤ ks.length) : xorBytes (xorBytes a ks) ks = a := by
  induction a generalizing ks with
  | nil => simp [xorBytes]
  | cons x xs ih =>
    cases ks with
    | nil => simp at h
    | cons y ys =>
      simp only [xorBytes, xor_cancel]
      rw [ih ys (by simpa using h)]

theorem nblocks_ge (n : Nat) : n ≤ 16 * nblocks n := by
  unfold nblocks; omega

theorem ctrXor_length {κ : Type} (E : κ → Block → Block) (k : κ) (cb : Block) (d : Bytes) :
    (ctrXor E k cb d).length = d.length := by
  unfold ctrXor
  rw [xorBytes_length, keystream_length]
  have := nblocks_ge d.length
  omega

/-- counter mode is an involution — for every block function. -/
theorem ctrXor_ctrXor {κ : Type} (E : κ → Block → Block) (k : κ) (cb : Block) (d : Bytes) :
    ctrXor E k cb (ctrXor E k cb d) = d := by
  have hl := ctrXor_length E k cb d
  unfold ctrXor at hl ⊢
  rw [hl]
  apply xorBytes_cancel
  rw [keystream_length]
  exact nblocks_ge d.length

theorem tag_length {κ : Type} (E : κ → Block → Block) (k : κ) (n ct : Bytes) :
    (tag E k n ct).length = 16 := by
  unfold tag; exact toBytes_length _

theorem encBody_length {κ : Type} (E : κ → Block → Block) (k : κ) (n p : Bytes) :
    (encBody E k n p).length = p.length := ctrXor_length ..

theorem gcmSeal_length {κ : Type} (E : κ → Block → Block) (k : κ) (n p : Bytes) :
    (gcmSeal E k n p).length = p.length + 16 + n.length := by
  simp [gcmSeal, tag_length, encBody_length]; omega

/-- splitting a layout `ct ‖ t ‖ n` with |t| = 16, |n| = 12 the way `Decrypt`/`gcm.Open` do. -/
theorem split_nonce (ct t n : Bytes) (hn : n.length = 12) :
    (ct ++ t ++ n).drop ((ct ++ t ++ n).length - nonceSize) = n ∧
    (ct ++ t ++ n).take ((ct ++ t ++ n).length - nonceSize) = ct ++ t := by
  have hc : (ct ++ t ++ n).length - nonceSize = (ct ++ t).length := by
    simp [nonceSize, hn]; omega
  rw [hc]
  exact ⟨List.drop_left' rfl, List.take_left' rfl⟩

theorem split_tag (ct t : Bytes) (ht : t.length = 16) :
    (ct ++ t).drop ((ct ++ t).length - tagSize) = t ∧
    (ct ++ t).take ((ct ++ t).length - tagSize) = ct := by
  have hc : (ct ++ t).length - tagSize = ct.length := by simp [tagSize, ht]
  rw [hc]
  exact ⟨List.drop_left' rfl, List.take_left' rfl⟩

/-- `gcmOpenE` on a well-formed layout whose body is within the size limit. -/
theorem gcmOpenE_layout {κ : Type} (E : κ → Block → Block) (k : κ) (ct t n : Bytes)
    (ht : t.length = 16) (hn : n.length = 12) (hsz : ct.length ≤ maxDataSize) :
    gcmOpenE E k (ct ++ t ++ n) =
      if t == tag E k n ct then .ok (ctrXor E k (inc32 (j0 n)) ct) else .error .auth := by
  obtain ⟨h1, h2⟩ := split_nonce ct t n hn
  obtain ⟨h3, h4⟩ := split_tag ct t ht
  unfold gcmOpenE
  have hlen : ¬ (ct ++ t ++ n).length < nonceSize := by simp [nonceSize, hn]; omega
  simp only [hlen, if_false]
  rw [h1, h2, h3, h4]
  have hb1 : ¬ (ct ++ t).length < tagSize := by simp [tagSize, ht]
  have hb2 : ¬ (ct ++ t).length > maxDataSize + tagSize := by
    simp [tagSize, ht]; omega
  simp only [hb1, hb2, if_false]

/-- any accepted input decomposes as  ct ‖ tag ‖ nonce  with the recomputed tag. -/
theorem gcmOpenE_ok_inv {κ : Type} (E : κ → Block → Block) (k : κ) (c p : Bytes)
    (h : gcmOpenE E k c = .ok p) :
    ∃ ct n, n.length = 12 ∧ ct.length ≤ maxDataSize ∧ c = ct ++ tag E k n ct ++ n ∧
      p = ctrXor E k (inc32 (j0 n)) ct := by
  unfold gcmOpenE at h
  split at h
  · cases h
  · rename_i h12
    simp only at h
    split at h
    · cases h
    · rename_i h16
      split at h
      · cases h
      · rename_i hmax
        split at h
        · rename_i htag
          have htag' := eq_of_beq htag
          injection h with h
          let noncePos := c.length - nonceSize
          let body := c.take noncePos
          refine ⟨body.take (body.length - tagSize), c.drop noncePos, ?_, ?_, ?_, h.symm⟩
          · simp [noncePos, nonceSize] at *; omega
          · simp only [body, noncePos, List.length_take, tagSize, nonceSize] at *; omega
          · rw [← htag']
            show c = List.take (body.length - tagSize) body ++ List.drop (body.length - tagSize) body ++ List.drop noncePos c
            rw [List.take_append_drop]
            exact (List.take_append_drop noncePos c).symm
        · cases h

/-- `open ∘ seal = id` for every block function (stated again in Props/C18.lean). -/
theorem gcmOpen_gcmSeal {κ : Type} (E : κ → Block → Block) (k : κ) (n p : Bytes)
    (hn : n.length = 12) (hp : p.length ≤ maxDataSize) :
    gcmOpen E k (gcmSeal E k n p) = some p := by
  unfold gcmOpen gcmSeal
  rw [gcmOpenE_layout E k _ _ n (tag_length ..) hn (by rw [encBody_length]; exact hp)]
  simp only [beq_self_eq_true, if_true, encBody, ctrXor_ctrXor]

theorem gcmOpenE_gcmSeal {κ : Type} (E : κ → Block → Block) (k : κ) (n p : Bytes)
    (hn : n.length = 12) (hp : p.length ≤ maxDataSize) :
    gcmOpenE E k (gcmSeal E k n p) = .ok p := by
  have := gcmOpen_gcmSeal E k n p hn hp
  unfold gcmOpen at this
  split at this
  · rename_i heq; rw [heq]; simp at this; rw [this]
  · cases this

/-- whatever `Encrypt` returns, `Decrypt` with the same key bytes gives the payload back. -/
theorem goDecrypt_of_goEncrypt (C : Cipher) (key n p c : Bytes) (hn : n.length = 12)
    (h : goEncrypt C key n p = .ok c) : goDecrypt C key c = .ok p := by
  unfold goEncrypt at h; unfold goDecrypt
  cases hk : C.prep key with
  | none => rw [hk] at h; cases h
  | some k =>
    rw [hk] at h; simp only at h ⊢
    unfold gcmSealE at h
    split at h
    · cases h
    · rename_i hsz
      injection h with h
      rw [← h]
      exact gcmOpenE_gcmSeal C.E k n p hn (by omega)

end AsherahVerif.Gcm
