import AsherahVerif.Proofs.EnvFootprint
/-
Time-related properties of the envelope model (C04 expiry, C05 revocation, C20 call economy):
basic vocabulary.

* histories: `Allowed w op` (the property's "metastore accepts writes": no fault tokens, no
  `corruptRow`; a session is only opened on a factory that exists), `histOk`, `Reach`.
* the clock arithmetic of `isExpired` / `keyTimestamp`.
* pure views of a key cache (`entsOf`, `latestOf`, `modeOf`, `readEntry`).
-/
set_option linter.unusedVariables false
namespace AsherahVerif.Env

/-! ### histories -/

/-- the operations the C04/C05/C20 statements range over: the metastore accepts writes (no fault
tokens, no out-of-band damage of a stored row), `GetSession` is a method of an existing factory,
and the clock is past the first precision window of the Unix epoch, so that no key is stamped `0`
(`Created == 0` is the SDK's encoding of "latest", key_cache.go `read`/`write`). -/
def allowed (w : World) : Op → Bool
  | .newFactory _ _ _ _ _ => true
  | .getSession f _ _ _ => decide (f < w.facs.length)
  | .encrypt s _ fl => fl.isEmpty && decide (0 < keyTimestamp w.now (sessionCtx w s).pol.precision)
  | .decrypt s _ fl => fl.isEmpty && decide (0 < keyTimestamp w.now (sessionCtx w s).pol.precision)
  | .closeSession _ => true
  | .closeFactory _ => true
  | .advance _ => true
  | .revoke _ => true
  | .corruptRow _ _ => false

def histOk : World → List Op → Bool
  | _, [] => true
  | w, op :: rest => allowed w op && histOk (applyOp w op).2 rest

/-- worlds reachable from an initial world by an allowed history. -/
def Reach (w : World) : Prop := ∃ t ops, histOk (World.init t) ops = true ∧ (runOps (World.init t) ops).2 = w

theorem runOps_append (w : World) (a b : List Op) :
    (runOps w (a ++ b)).2 = (runOps (runOps w a).2 b).2 := by
  induction a generalizing w with
  | nil => rfl
  | cons op rest ih => simp only [List.cons_append, runOps]; exact ih _

theorem runOps_append_outs (w : World) (a b : List Op) :
    (runOps w (a ++ b)).1 = (runOps w a).1 ++ (runOps (runOps w a).2 b).1 := by
  induction a generalizing w with
  | nil => rfl
  | cons op rest ih => simp only [List.cons_append, runOps, List.cons_append]; rw [ih]

theorem histOk_append (w : World) (a b : List Op) :
    histOk w (a ++ b) = (histOk w a && histOk (runOps w a).2 b) := by
  induction a generalizing w with
  | nil => simp [histOk, runOps]
  | cons op rest ih => simp only [List.cons_append, histOk, runOps, ih, Bool.and_assoc]

theorem Reach.init (t : Int) : Reach (World.init t) := ⟨t, [], rfl, rfl⟩

theorem Reach.step {w : World} (h : Reach w) (op : Op) (ha : allowed w op = true) : Reach (applyOp w op).2 := by
  obtain ⟨t, ops, hok, hw⟩ := h
  refine ⟨t, ops ++ [op], ?_, ?_⟩
  · rw [histOk_append, hok, hw]; simp [histOk, ha]
  · rw [runOps_append, hw]; rfl

theorem Reach.run {w : World} (h : Reach w) (ops : List Op) (ha : histOk w ops = true) : Reach (runOps w ops).2 := by
  induction ops generalizing w with
  | nil => exact h
  | cons op rest ih =>
    simp only [histOk, Bool.and_eq_true] at ha
    exact ih (h.step op ha.1) ha.2

/-- induction over reachable worlds. -/
theorem Reach.induction {I : World → Prop} (h0 : ∀ t, I (World.init t))
    (hs : ∀ w op, Reach w → I w → allowed w op = true → I (applyOp w op).2) {w : World} (h : Reach w) : I w := by
  obtain ⟨t, ops, hok, hw⟩ := h
  subst hw
  suffices ∀ (ops : List Op) (w0 : World), Reach w0 → I w0 → histOk w0 ops = true → I (runOps w0 ops).2 from
    this ops _ (Reach.init t) (h0 t) hok
  intro ops
  induction ops with
  | nil => intro w0 _ hi _; exact hi
  | cons op rest ih =>
    intro w0 hr hi hok
    simp only [histOk, Bool.and_eq_true] at hok
    exact ih _ (hr.step op hok.1) (hs w0 op hr hi hok.1) hok.2

/-! ### the record's key names -/

/-- the intermediate key a data row record names (`Key.ParentKeyMeta`). -/
def drrIk (d : Drr) : Option KeyMeta := d.key.bind (·.parent)

/-! ### clock arithmetic -/

/-- a key created now is not already expired. -/
def BornValid (p : Policy) : Prop := ∀ now : Int, isExpired now (keyTimestamp now p.precision) p.expireAfter = false

/-- the configuration hypothesis of C04: `CreateDatePrecision ≤ ExpireKeyAfter`, the precision is a
whole number of seconds (creation stamps are seconds) and a key lives at least a second. -/
structure PolicyOK (p : Policy) : Prop where
  prec_le : p.precision ≤ p.expireAfter
  second : nsPerSec - 1 ≤ p.expireAfter
  whole : 0 < p.precision → nsPerSec ∣ p.precision

theorem isExpired_iff (now c e : Int) : isExpired now c e = true ↔ now > c * nsPerSec + e := by
  simp [isExpired]

theorem isExpired_false_iff (now c e : Int) : isExpired now c e = false ↔ now ≤ c * nsPerSec + e := by
  simp [isExpired]

theorem isExpired_mono {now c1 c2 e : Int} (h : c1 ≤ c2) (h1 : isExpired now c1 e = false) :
    isExpired now c2 e = false := by
  rw [isExpired_false_iff] at *
  have : c1 * nsPerSec ≤ c2 * nsPerSec := Int.mul_le_mul_of_nonneg_right h (by decide)
  omega

theorem bornValid_of_policyOK {p : Policy} (h : PolicyOK p) : BornValid p := by
  intro now
  rw [isExpired_false_iff]
  unfold keyTimestamp
  have hs : (0 : Int) < nsPerSec := by decide
  split
  · rename_i hp
    obtain ⟨k, hk⟩ := h.whole hp
    have h1 : 0 ≤ now % p.precision := Int.emod_nonneg _ (by omega)
    have h2 : now % p.precision < p.precision := Int.emod_lt_of_pos _ hp
    have h3 : (now - now % p.precision) % p.precision = 0 := by
      have := Int.emod_add_mul_ediv now p.precision
      have e : now - now % p.precision = p.precision * (now / p.precision) := by omega
      rw [e]; exact Int.mul_emod_right _ _
    have h4 : nsPerSec ∣ (now - now % p.precision) := by
      have : p.precision ∣ (now - now % p.precision) := Int.dvd_of_emod_eq_zero h3
      exact Int.dvd_trans ⟨k, hk⟩ this
    have h5 : (now - now % p.precision) / nsPerSec * nsPerSec = now - now % p.precision :=
      Int.ediv_mul_cancel h4
    have := h.prec_le
    omega
  · have h1 := Int.emod_add_mul_ediv now nsPerSec
    have h2 : now % nsPerSec < nsPerSec := Int.emod_lt_of_pos _ hs
    have h3 := h.second
    have : now / nsPerSec * nsPerSec = nsPerSec * (now / nsPerSec) := Int.mul_comm _ _
    omega

/-- "a key with a later creation stamp can be created": every stored row of `kid` is older than the
stamp a key created now would get. -/
def CanStamp (w : World) (kid : KeyId) (precision : Int) : Prop :=
  ∀ r ∈ w.store, r.kid = kid → r.created < keyTimestamp w.now precision

/-! ### pure views of the key caches -/

def cacheAt (w : World) (c : Nat) : KeyCache := w.caches.getD c default
def entsOf (w : World) (c : Nat) : List (KeyMeta × CEntry) := (cacheAt w c).ents
def latestOf (w : World) (c : Nat) : List (KeyId × KeyMeta) := (cacheAt w c).latest
def modeOf (w : World) (c : Nat) : CacheMode := (cacheAt w c).mode
def keyAt (w : World) (o : Nat) : KeyObj := w.keys.getD o default

/-- the meta `read` looks up: `Created == 0` goes through the latest alias. -/
def readMeta (w : World) (c : Nat) (m : KeyMeta) : KeyMeta :=
  if m.created = 0 then (assocGet (latestOf w c) m.kid).getD m else m

/-- the entry `read` finds in a map-backed cache. -/
def readEntry (w : World) (c : Nat) (m : KeyMeta) : Option CEntry := assocGet (entsOf w c) (readMeta w c m)

/-- the mode a cache built by `cacheOf` has. -/
def modeFor (on : Bool) (kind : Option (Cache.Kind × Nat)) : CacheMode :=
  if !on then .never else match kind with | none => .simple | some _ => .bounded

theorem cacheOf_mode (on : Bool) (kind : Option (Cache.Kind × Nat)) (a b : Nat) :
    (cacheOf on kind a b).mode = modeFor on kind := by
  unfold cacheOf modeFor newCache
  cases on <;> cases kind <;> simp

theorem cacheOf_ents (on : Bool) (kind : Option (Cache.Kind × Nat)) (a b : Nat) :
    (cacheOf on kind a b).ents = [] ∧ (cacheOf on kind a b).latest = [] := by
  unfold cacheOf newCache
  cases on <;> cases kind <;> simp

/-- a call that leaves the process (metastore or KMS). -/
def Call.external : Call → Bool
  | .load _ _ _ => true
  | .loadLatest _ _ _ => true
  | .store _ _ => true
  | .kmsEnc _ => true
  | .kmsDec _ => true
  | _ => false

/-- the operation's log shows no metastore and no KMS call. -/
def Silent (w : World) : Prop := ∀ c ∈ w.log, c.external = false

end AsherahVerif.Env
