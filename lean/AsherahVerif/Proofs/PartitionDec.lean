import AsherahVerif.Proofs.Partition
/-
Helper lemmas for C06 about `strconv.FormatInt(·, 10)` as modelled by `decimal`, and `cacheKey`.
-/
namespace AsherahVerif.Partition

theorem decNatF_fuel : ∀ (f g n : Nat), n < f → n < g → decNatF f n = decNatF g n := by
  intro f
  induction f with
  | zero => intro g n h; omega
  | succ f ih =>
    intro g n hf hg
    cases g with
    | zero => omega
    | succ g =>
      simp only [decNatF]
      split
      · rfl
      · rw [ih g (n / 10) (by omega) (by omega)]

/-- the defining recurrence of the decimal representation. -/
theorem decNat_eq (n : Nat) :
    decNat n = if n < 10 then [digit n] else decNat (n / 10) ++ [digit n] := by
  have h : decNatF (n + 1) n = if n < 10 then [digit n] else decNatF n (n / 10) ++ [digit n] := rfl
  unfold decNat
  rw [h]
  split
  · rfl
  · rw [decNatF_fuel n (n / 10 + 1) (n / 10) (by omega) (by omega)]

theorem decNat_ne_nil (n : Nat) : decNat n ≠ [] := by
  rw [decNat_eq]; split <;> simp

theorem digit_toNat (n : Nat) : (digit n).toNat = 48 + n % 10 := by
  simp only [digit, UInt8.toNat_ofNat']
  omega

theorem digit_inj {n m : Nat} (h : digit n = digit m) : n % 10 = m % 10 := by
  have := congrArg UInt8.toNat h
  rw [digit_toNat, digit_toNat] at this
  omega

/-- every byte of a decimal representation of a natural number is an ASCII digit. -/
theorem decNat_digits (n : Nat) : ∀ b ∈ decNat n, 48 ≤ b.toNat ∧ b.toNat ≤ 57 := by
  induction n using Nat.strongRecOn with
  | _ n ih =>
    intro b hb
    rw [decNat_eq] at hb
    split at hb
    · simp only [List.mem_singleton] at hb
      subst hb; rw [digit_toNat]; omega
    · rcases List.mem_append.mp hb with h | h
      · exact ih (n / 10) (by omega) b h
      · simp only [List.mem_singleton] at h
        subst h; rw [digit_toNat]; omega

theorem decNat_inj : ∀ {n m : Nat}, decNat n = decNat m → n = m := by
  intro n
  induction n using Nat.strongRecOn with
  | _ n ih =>
    intro m h
    rw [decNat_eq n, decNat_eq m] at h
    split at h <;> split at h
    · have := digit_inj (List.singleton_inj.mp h)
      omega
    · exfalso
      have hl := congrArg List.length h
      have := decNat_ne_nil (m / 10)
      cases hm : decNat (m / 10) with
      | nil => exact this hm
      | cons a t => rw [hm] at hl; simp at hl
    · exfalso
      have hl := congrArg List.length h
      have := decNat_ne_nil (n / 10)
      cases hm : decNat (n / 10) with
      | nil => exact this hm
      | cons a t => rw [hm] at hl; simp at hl
    · have h2 := List.append_inj' h rfl
      have h3 := ih (n / 10) (by omega) h2.1
      have h4 := digit_inj (List.singleton_inj.mp h2.2)
      omega

/-- number of digits: `k` for `10^(k-1) ≤ n < 10^k`. -/
theorem decNat_length_le : ∀ (k n : Nat), n < 10 ^ (k + 1) → (decNat n).length ≤ k + 1 := by
  intro k
  induction k with
  | zero => intro n h; rw [decNat_eq]; simp at h; simp [h]
  | succ k ih =>
    intro n h
    rw [decNat_eq]
    split
    · simp
    · have : n / 10 < 10 ^ (k + 1) := by
        rw [Nat.pow_succ] at h; omega
      have := ih (n / 10) this
      simp; omega

theorem decNat_length_ge : ∀ (k n : Nat), 10 ^ k ≤ n → k + 1 ≤ (decNat n).length := by
  intro k
  induction k with
  | zero => intro n _; have := decNat_ne_nil n; cases h : decNat n with
    | nil => exact absurd h this
    | cons a t => simp
  | succ k ih =>
    intro n h
    rw [decNat_eq]
    have h10 : 10 ≤ n := by
      have : 10 ^ 1 ≤ 10 ^ (k + 1) := Nat.pow_le_pow_right (by omega) (by omega)
      omega
    have : ¬ n < 10 := by omega
    simp only [this, if_false]
    have : 10 ^ k ≤ n / 10 := by
      rw [Nat.pow_succ] at h; omega
    have := ih (n / 10) this
    simp; omega

theorem decNat_length {k n : Nat} (h1 : 10 ^ k ≤ n) (h2 : n < 10 ^ (k + 1)) :
    (decNat n).length = k + 1 :=
  Nat.le_antisymm (decNat_length_le k n h2) (decNat_length_ge k n h1)

/-! ### `decimal` on integers -/

/-- every byte of `FormatInt(c, 10)` is `'-'` or an ASCII digit. -/
theorem decimal_bytes (c : Int) : ∀ b ∈ decimal c, b.toNat = 45 ∨ (48 ≤ b.toNat ∧ b.toNat ≤ 57) := by
  intro b hb
  unfold decimal at hb
  split at hb
  · rcases List.mem_cons.mp hb with h | h
    · left; subst h; rfl
    · right; exact decNat_digits _ b h
  · right; exact decNat_digits _ b hb

theorem us_not_mem_decimal (c : Int) : us ∉ decimal c := by
  intro h
  have := decimal_bytes c us h
  have hu : us.toNat = 95 := rfl
  omega

theorem decimal_inj {c d : Int} (h : decimal c = decimal d) : c = d := by
  unfold decimal at h
  have hneg : ∀ (n m : Nat), (45 : UInt8) :: decNat n ≠ decNat m := by
    intro n m e
    have hm := decNat_ne_nil m
    cases hh : decNat m with
    | nil => exact hm hh
    | cons a t =>
      rw [hh] at e
      have ha := decNat_digits m a (by rw [hh]; simp)
      have : (45 : UInt8) = a := (List.cons.inj e).1
      subst this
      have h45 : (45 : UInt8).toNat = 45 := rfl
      omega
  split at h <;> split at h
  · have := decNat_inj (List.cons.inj h).2
    omega
  · exact absurd h (hneg _ _)
  · exact absurd h.symm (hneg _ _)
  · have := decNat_inj h
    omega

/-- Unix stamps from 2001-09-09 (10^9) up to 2286-11-20 (10^10) all have ten digits. -/
theorem decimal_length_ten {c : Int} (h1 : 1000000000 ≤ c) (h2 : c < 10000000000) :
    (decimal c).length = 10 := by
  unfold decimal
  have : ¬ c < 0 := by omega
  simp only [this, if_false]
  exact decNat_length (k := 9) (by omega) (by omega)

/-! ### cacheKey -/

/-- for ids that share a tail containing an underscore — all ids of one (service, product[, suffix]) —
the separator-less `id ++ decimal(created)` still determines both components. -/
theorem cacheKey_common_tail_inj {x y t : Bytes} {c d : Int} (ht : us ∈ t)
    (h : cacheKey (x ++ t) c = cacheKey (y ++ t) d) : x = y ∧ c = d := by
  unfold cacheKey at h
  have := common_tail_inj ht (us_not_mem_decimal c) (us_not_mem_decimal d) h
  exact ⟨this.1, decimal_inj this.2⟩

/-- for arbitrary ids the encoding is injective among stamps of equal decimal width. -/
theorem cacheKey_same_width_inj {i j : Bytes} {c d : Int}
    (hw : (decimal c).length = (decimal d).length)
    (h : cacheKey i c = cacheKey j d) : i = j ∧ c = d := by
  unfold cacheKey at h
  have := List.append_inj' h hw
  exact ⟨this.1, decimal_inj this.2⟩

end AsherahVerif.Partition
