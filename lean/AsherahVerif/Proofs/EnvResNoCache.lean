import AsherahVerif.Proofs.EnvResDrk
/-
C09 — a factory without key caching (`never` caches for system and intermediate keys): an
operation on its sessions leaves every cache as it was, hence releases everything it allocates.
-/
set_option linter.unusedVariables false
set_option linter.unusedSectionVars false
namespace AsherahVerif.Env.Res

section
variable (cs : List KeyCache)

/-- the caches are exactly `cs`. -/
def CS (w : World) : Prop := w.caches = cs

theorem withKey_cs {α : Type} (o : Nat) (f : Nat → M α) (hf : ∀ m, Preserves (CS cs) (f m)) : Preserves (CS cs) (withKey o f) := by
  unfold withKey; pres_auto [hf]
theorem logCall_cs (c : Call) : Preserves (CS cs) (logCall c) := Preserves.modify (fun _ h => h)
theorem msLoad_cs (m : KeyMeta) : Preserves (CS cs) (msLoad m) := by unfold msLoad; pres_auto [logCall_cs]
theorem msLoadLatest_cs (k : KeyId) : Preserves (CS cs) (msLoadLatest k) := by unfold msLoadLatest; pres_auto [logCall_cs]
theorem mustLoadLatest_cs (k : KeyId) : Preserves (CS cs) (mustLoadLatest k) := by unfold mustLoadLatest; pres_auto [msLoadLatest_cs]
theorem msStore_cs (r : Row) : Preserves (CS cs) (msStore r) := by unfold msStore; pres_auto [logCall_cs]
theorem secretNew_cs (b m : Nat) : Preserves (CS cs) (secretNew b m) := by unfold secretNew wipeBuf; pres_auto_deep [logCall_cs]
theorem secretRandom_cs : Preserves (CS cs) secretRandom := by unfold secretRandom; pres_auto_deep [logCall_cs]
theorem newKeyObj_cs (c : Int) (r : Bool) (m s : Nat) : Preserves (CS cs) (newKeyObj c r m s) := fun _ h => h
theorem keyCloseRaw_cs (o : Nat) : Preserves (CS cs) (keyCloseRaw o) := by unfold keyCloseRaw secretClose; pres_auto
theorem keyRelease_cs (o : Nat) : Preserves (CS cs) (keyRelease o) := by unfold keyRelease; pres_auto [keyCloseRaw_cs]
theorem keyWrap_cs (o : Nat) : Preserves (CS cs) (keyWrap o) := Preserves.modify (fun _ h => h)
theorem kmsEncrypt_cs (m : Nat) : Preserves (CS cs) (kmsEncrypt m) := by unfold kmsEncrypt; pres_auto [logCall_cs]
theorem kmsDecrypt_cs (c : Ct) : Preserves (CS cs) (kmsDecrypt c) := by unfold kmsDecrypt newBuf; pres_auto_deep [logCall_cs]
theorem aeadEncrypt_cs (pt : Pt) (k : Nat) : Preserves (CS cs) (aeadEncrypt pt k) := by unfold aeadEncrypt; pres_auto_deep [logCall_cs]
theorem aeadDecrypt_cs (c : Ct) (k : Nat) : Preserves (CS cs) (aeadDecrypt c k) := by unfold aeadDecrypt; pres_auto [logCall_cs]
theorem newBuf_cs (m : Nat) : Preserves (CS cs) (newBuf m) := fun _ h => h
theorem wipeBuf_cs (b : Nat) : Preserves (CS cs) (wipeBuf b) := Preserves.modify (fun _ h => h)

/-- `neverCache.GetOrLoad`: nothing is cached. -/
theorem getOrLoad_cs (c : Nat) (m : KeyMeta) (i : Int) (loader : KeyMeta → M Nat)
    (hmode : (cs.getD c default).mode = .never) (hl : ∀ m, Preserves (CS cs) (loader m)) :
    Preserves (CS cs) (getOrLoad c m i loader) := by
  intro w hw
  have hm : (w.caches.getD c default).mode = .never := by rw [hw]; exact hmode
  simp only [getOrLoad, bind_run, getCache, hm]
  exact (Preserves.bind (hl m) fun k => Preserves.bind (keyWrap_cs cs k) fun _ => Preserves.pure k) w hw

theorem getOrLoadLatest_cs (c : Nat) (kid : KeyId) (i e : Int) (loader : KeyMeta → M Nat)
    (hmode : (cs.getD c default).mode = .never) (hl : ∀ m, Preserves (CS cs) (loader m)) :
    Preserves (CS cs) (getOrLoadLatest c kid i e loader) := by
  intro w hw
  have hm : (w.caches.getD c default).mode = .never := by rw [hw]; exact hmode
  simp only [getOrLoadLatest, bind_run, getCache, hm]
  exact (Preserves.bind (hl _) fun k => Preserves.bind (keyWrap_cs cs k) fun _ => Preserves.pure k) w hw

variable (x : Ctx) (hsk : (cs.getD x.skCache default).mode = .never) (hik : (cs.getD x.ikCache default).mode = .never)
include hsk

theorem generateKey_cs : Preserves (CS cs) (generateKey x) := by
  unfold generateKey; pres_auto [secretRandom_cs, newKeyObj_cs]
omit hsk in
theorem systemKeyFromEKR_cs (r : Row) : Preserves (CS cs) (systemKeyFromEKR r) := by
  unfold systemKeyFromEKR; pres_auto [kmsDecrypt_cs, secretNew_cs, newKeyObj_cs]
omit hsk in
theorem loadSystemKey_cs (m : KeyMeta) : Preserves (CS cs) (loadSystemKey m) := by
  unfold loadSystemKey; pres_auto [msLoad_cs, systemKeyFromEKR_cs]
theorem getOrLoadSystemKey_cs (m : KeyMeta) : Preserves (CS cs) (getOrLoadSystemKey x m) := by
  unfold getOrLoadSystemKey; exact getOrLoad_cs cs _ _ _ _ hsk (loadSystemKey_cs cs)
omit hsk in
theorem tryStoreSystemKey_cs (sk : Nat) : Preserves (CS cs) (tryStoreSystemKey sk) := by
  unfold tryStoreSystemKey
  pres_auto [msStore_cs, withKey_cs cs _ _ fun m => kmsEncrypt_cs cs m]
theorem createSK_cs : Preserves (CS cs) (loadLatestOrCreateSystemKey.createSK x) := by
  unfold loadLatestOrCreateSystemKey.createSK
  pres_auto [generateKey_cs cs x hsk, tryStoreSystemKey_cs, keyCloseRaw_cs, mustLoadLatest_cs, systemKeyFromEKR_cs]
theorem loadLatestOrCreateSystemKey_cs : Preserves (CS cs) (loadLatestOrCreateSystemKey x) := by
  unfold loadLatestOrCreateSystemKey
  pres_auto [msLoadLatest_cs, systemKeyFromEKR_cs, createSK_cs cs x hsk]
theorem intermediateKeyFromEKR_cs (sk : Nat) (r : Row) (b : Bool) : Preserves (CS cs) (intermediateKeyFromEKR x sk r b) := by
  unfold intermediateKeyFromEKR
  pres_auto [getOrLoadSystemKey_cs cs x hsk, keyRelease_cs, withKey_cs cs _ _ fun m => aeadDecrypt_cs cs _ m, newBuf_cs, secretNew_cs, newKeyObj_cs]
omit hsk in
theorem tryStoreIntermediateKey_cs (ik sk : Nat) : Preserves (CS cs) (tryStoreIntermediateKey x ik sk) := by
  unfold tryStoreIntermediateKey
  pres_auto [msStore_cs, withKey_cs cs _ _ fun ikm => withKey_cs cs _ _ fun skm => aeadEncrypt_cs cs _ _]
theorem createIntermediateKey_cs (b : Bool) : Preserves (CS cs) (createIntermediateKey x b) := by
  unfold createIntermediateKey
  pres_auto [generateKey_cs cs x hsk, tryStoreIntermediateKey_cs, keyCloseRaw_cs, mustLoadLatest_cs,
    intermediateKeyFromEKR_cs cs x hsk, keyRelease_cs,
    getOrLoadLatest_cs cs _ _ _ _ _ hsk fun _ => loadLatestOrCreateSystemKey_cs cs x hsk]
theorem getValidIntermediateKey_cs (sk : Nat) (r : Row) (b : Bool) : Preserves (CS cs) (getValidIntermediateKey x sk r b) := by
  unfold getValidIntermediateKey; pres_auto [intermediateKeyFromEKR_cs cs x hsk]
theorem loadLatestOrCreateIntermediateKey_cs (b : Bool) : Preserves (CS cs) (loadLatestOrCreateIntermediateKey x b) := by
  unfold loadLatestOrCreateIntermediateKey
  pres_auto [msLoadLatest_cs, createIntermediateKey_cs cs x hsk, getOrLoadSystemKey_cs cs x hsk, getValidIntermediateKey_cs cs x hsk, keyRelease_cs]
theorem loadIntermediateKey_cs (m : KeyMeta) (b : Bool) : Preserves (CS cs) (loadIntermediateKey x m b) := by
  unfold loadIntermediateKey
  pres_auto [msLoad_cs, getOrLoadSystemKey_cs cs x hsk, intermediateKeyFromEKR_cs cs x hsk, keyRelease_cs]
include hik
theorem encryptPayload_cs (p : Nat) (b : Bool) : Preserves (CS cs) (encryptPayload x p b) := by
  rw [encryptPayload_eq]
  apply Preserves.bind (getOrLoadLatest_cs cs _ _ _ _ _ hik fun _ => loadLatestOrCreateIntermediateKey_cs cs x hsk b)
  intro ik
  exact Preserves.finallyDo (drkPart_caches x p ik cs) (keyRelease_cs cs ik)
theorem decryptDataRowRecord_cs (d : Drr) (b : Bool) : Preserves (CS cs) (decryptDataRowRecord x d b) := by
  unfold decryptDataRowRecord decryptRow
  pres_auto [keyRelease_cs, getOrLoad_cs cs _ _ _ _ hik fun m => loadIntermediateKey_cs cs x hsk m b, withKey_cs, aeadDecrypt_cs, newBuf_cs, wipeBuf_cs]
end


/-- conversely to `RI.live_in_cache`: a key object referenced from an open cache is live. -/
theorem RI.cached_is_live {T : CTab} {w : World} (hi : RI T .none [] w) {i : Nat} (h : i ∈ liveObjs T.dead w.caches) :
    i ∈ liveIdx w := by
  have hpos : 0 < entCount T.dead w.caches i := List.count_pos_iff.2 h
  have hcnt : 1 ≤ cntOf T (hcount []) w i := by unfold cntOf hcount; simp; omega
  obtain ⟨k, hk, _, _, hcl, _, s, hs, hc, _⟩ := RIc.open_of_cnt hi hcnt
  exact mem_liveIdx.2 ⟨s, hs, hc⟩

theorem liveIdx_nodup (w : World) : (liveIdx w).Nodup := by
  unfold liveIdx; exact List.Nodup.sublist List.filter_sublist List.nodup_range

/-- two quiescent worlds with the same caches and the same closed flags have the same number of
live secrets. -/
theorem liveSecrets_eq_of_caches {w w' : World} (h : QInv w) (h' : QInv w') (hc : w'.caches = w.caches)
    (hf : w'.facs = w.facs) (hs : w'.sessions = w.sessions) : liveSecrets w' = liveSecrets w := by
  rw [liveSecrets_eq, liveSecrets_eq]
  have hd : ∀ c, cacheDead w' c = cacheDead w c := cacheDead_of_eq hf hs
  have hobj : liveObjs (tabOf w').dead w'.caches = liveObjs (tabOf w).dead w.caches := by
    rw [hc]; unfold liveObjs
    exact liveObjsFrom_congr _ _ _ 0 (fun j _ => by simp [tabOf, hd])
  have sub1 : liveIdx w' ⊆ liveIdx w := fun i hi => h.2.cached_is_live (hobj ▸ h'.2.live_in_cache hi)
  have sub2 : liveIdx w ⊆ liveIdx w' := fun i hi => h'.2.cached_is_live (hobj ▸ h.2.live_in_cache hi)
  exact Nat.le_antisymm ((liveIdx_nodup w').length_le_of_subset sub1) ((liveIdx_nodup w).length_le_of_subset sub2)


/-! ### cache modes follow the policies -/

def modeOf (on : Bool) (kind : Option (Cache.Kind × Nat)) : CacheMode := (cacheOf on kind 0 0).mode

theorem cacheOf_mode (on : Bool) (kind : Option (Cache.Kind × Nat)) (a b : Nat) : (cacheOf on kind a b).mode = modeOf on kind := by
  unfold modeOf cacheOf newCache
  cases on <;> cases kind <;> simp

def modeAt (w : World) (c : Nat) : CacheMode := (w.caches.getD c default).mode

structure MInv (w : World) : Prop where
  fac : ∀ (f : Nat) (fac : Factory), w.facs[f]? = some fac →
    modeAt w fac.skCache = modeOf fac.pol.cacheSK fac.pol.skKind ∧
    ∀ c, fac.sharedIk = some c → modeAt w c = modeOf true fac.pol.ikKind
  ses : ∀ (s : Nat) (ss : Session) (fac : Factory), w.sessions[s]? = some ss → w.facs[ss.fac]? = some fac →
    fac.sharedIk = none → modeAt w ss.ikCache = modeOf fac.pol.cacheIK fac.pol.ikKind

theorem releaseAll_caches (l : List Nat) (w : World) : (releaseAll l w).2.caches = w.caches := by
  induction l generalizing w with
  | nil => rfl
  | cons v rest ih =>
    simp only [releaseAll, bind_run]
    have := keyRelease_frame v w
    cases hr : keyRelease v w with
    | mk r w1 =>
      rw [hr] at this
      simp only at this
      rw [this.1]
      simp only
      rw [ih, this.2]

theorem cacheClose_modes (c : Nat) (w : World) (c' : Nat) : modeAt (cacheClose c w).2 c' = modeAt w c' := by
  unfold modeAt
  simp only [cacheClose, bind_run, getCache]
  cases hm : (w.caches.getD c default).mode with
  | never => rfl
  | simple => simp only []; rw [releaseAll_caches]
  | bounded =>
    simp only [setCache, bind_run, modify_run]
    rw [releaseAll_caches]
    simp only
    by_cases hlt : c' < w.caches.length
    · rw [setAt_getD _ _ _ _ _ hlt]
      split
      · rename_i e; subst e; exact hm.symm ▸ rfl
      · rfl
    · simp only [List.getD_eq_getElem?_getD]
      rw [List.getElem?_eq_none (by rw [setAt_length]; omega), List.getElem?_eq_none (by omega)]

theorem MInv.of_same {w w' : World} (h : MInv w) (hf : w'.facs = w.facs) (hs : w'.sessions = w.sessions)
    (hm : ∀ c, modeAt w' c = modeAt w c) : MInv w' :=
  ⟨by rw [hf]; simp only [hm]; exact h.fac, by rw [hf, hs]; simp only [hm]; exact h.ses⟩


theorem cacheClose_minv (c : Nat) : Preserves MInv (cacheClose c) := fun w h =>
  h.of_same (cacheClose_ext c w).facs (cacheClose_ext c w).sessions (cacheClose_modes c w)

theorem QInv.step_modes {α : Type} {w w1 : World} (h : QInv w) (x : M α)
    (hk : w1.keys = w.keys) (hs : w1.secrets = w.secrets) (hc : w1.caches = w.caches)
    (hx : Spec (RI (tabOf w) .none []) x (fun _ => RI (tabOf w) .none []) (RI (tabOf w) .none [])) (c : Nat) :
    modeAt (x w1).2 c = modeAt w c := by
  have h1 : RI (tabOf w) .none [] w1 := RIc.frame h.2 hk hs hc
  have h2 : RI (tabOf w) .none [] (x w1).2 := hx.toPreserves w1 h1
  exact h2.mode c

theorem modeAt_append_lt (w : World) (l : List KeyCache) (c : Nat) (hlt : c < w.caches.length) :
    ((w.caches ++ l).getD c default).mode = modeAt w c := by
  unfold modeAt
  simp only [List.getD_eq_getElem?_getD, List.getElem?_append_left hlt]

theorem MInv.applyOp {w : World} (hm : MInv w) (hq : QInv w) (op : Op) (hok : opOk w op) (hnb : CapsPosOp op) :
    MInv (Env.applyOp w op).2 := by
  rw [applyOp_snd_eq]
  cases op with
  | newFactory p a b c d =>
    simp only [Env.newFactory, bind_run, addCache]
    cases hsh : p.sharedIK with
    | false =>
      simp only [Bool.false_eq_true, if_false, pure_run]
      let fac0 : Factory := { pol := p, skCache := w.caches.length, sharedIk := none }
      let w' : World := { w with caches := w.caches ++ [cacheOf p.cacheSK p.skKind a b], facs := w.facs ++ [fac0] }
      show MInv w'
      have hold : ∀ c', c' < w.caches.length → modeAt w' c' = modeAt w c' := fun c' h => modeAt_append_lt w _ _ h
      constructor
      · intro f fac hf
        rcases fac_lookup_append (l := w.facs) hf with ⟨_, h0⟩ | ⟨_, rfl⟩
        · have hw := hq.1.facOk f fac h0
          refine ⟨by rw [← (hm.fac f fac h0).1]; exact hold _ hw.1, fun c' hc' => ?_⟩
          rw [← (hm.fac f fac h0).2 c' hc']; exact hold _ (hw.2.1 c' hc').1
        · refine ⟨?_, fun c' hc' => by cases hc'⟩
          show ((w.caches ++ [_]).getD w.caches.length default).mode = _
          simp [List.getD_eq_getElem?_getD, cacheOf_mode, fac0]
      · intro s ss fac hs hf hn
        have hs' : w.sessions[s]? = some ss := hs
        rcases fac_lookup_append (l := w.facs) hf with ⟨_, h0⟩ | ⟨e, _⟩
        · obtain ⟨fac1, hf1, _, hb⟩ := hq.1.sesOk s ss hs'
          rw [h0] at hf1; cases hf1
          rw [← hm.ses s ss fac hs' h0 hn]; exact hold _ (hb hn).1
        · have := hq.1.ses_fac_lt hs'; omega
    | true =>
      simp only [if_true, pure_run, bind_run, addCache, List.length_append, List.length_cons, List.length_nil, Nat.zero_add]
      let fac0 : Factory := { pol := p, skCache := w.caches.length, sharedIk := some (w.caches.length + 1) }
      let w' : World := { w with caches := w.caches ++ [cacheOf p.cacheSK p.skKind a b] ++ [cacheOf true p.ikKind c d], facs := w.facs ++ [fac0] }
      show MInv w'
      have hold : ∀ c', c' < w.caches.length → modeAt w' c' = modeAt w c' := by
        intro c' h
        show ((w.caches ++ [_] ++ [_]).getD _ default).mode = _
        rw [List.append_assoc]; exact modeAt_append_lt w _ _ h
      constructor
      · intro f fac hf
        rcases fac_lookup_append (l := w.facs) hf with ⟨_, h0⟩ | ⟨_, rfl⟩
        · have hw := hq.1.facOk f fac h0
          refine ⟨by rw [← (hm.fac f fac h0).1]; exact hold _ hw.1, fun c' hc' => ?_⟩
          rw [← (hm.fac f fac h0).2 c' hc']; exact hold _ (hw.2.1 c' hc').1
        · refine ⟨?_, fun c' hc' => ?_⟩
          · show ((w.caches ++ [_] ++ [_]).getD w.caches.length default).mode = _
            simp [List.getD_eq_getElem?_getD, cacheOf_mode, List.getElem?_append_left, fac0]
          · simp only [fac0, Option.some.injEq] at hc'
            subst hc'
            show ((w.caches ++ [_] ++ [_]).getD (w.caches.length + 1) default).mode = _
            have : (w.caches ++ [cacheOf p.cacheSK p.skKind a b] ++ [cacheOf true p.ikKind c d])[w.caches.length + 1]? =
                some (cacheOf true p.ikKind c d) := by
              rw [List.getElem?_append_right (by simp)]; simp
            simp [List.getD_eq_getElem?_getD, this, cacheOf_mode, fac0]
      · intro s ss fac hs hf hn
        have hs' : w.sessions[s]? = some ss := hs
        rcases fac_lookup_append (l := w.facs) hf with ⟨_, h0⟩ | ⟨e, _⟩
        · obtain ⟨fac1, hf1, _, hb⟩ := hq.1.sesOk s ss hs'
          rw [h0] at hf1; cases hf1
          rw [← hm.ses s ss fac hs' h0 hn]; exact hold _ (hb hn).1
        · have := hq.1.ses_fac_lt hs'; omega
  | getSession f part a b =>
    obtain ⟨fac, hfac⟩ := hok
    have hgf : w.facs.getD f default = fac := getD_eq_of_getElem? hfac
    simp only [Env.getSession, bind_run, get_run, hgf]
    cases hsi : fac.sharedIk with
    | some c0 =>
      simp only [pure_run]
      let ss0 : Session := { fac := f, part := part, ikCache := c0 }
      let w' : World := { w with sessions := w.sessions ++ [ss0] }
      show MInv w'
      constructor
      · exact hm.fac
      · intro s ss fac' hs hf hn
        have hf' : w.facs[ss.fac]? = some fac' := hf
        rcases ses_lookup_append (l := w.sessions) hs with ⟨_, h0⟩ | ⟨_, rfl⟩
        · exact hm.ses s ss fac' h0 hf' hn
        · simp only [ss0] at hf'; rw [hfac] at hf'; cases hf'; rw [hsi] at hn; cases hn
    | none =>
      simp only [addCache]
      let ss0 : Session := { fac := f, part := part, ikCache := w.caches.length }
      let w' : World := { w with caches := w.caches ++ [cacheOf fac.pol.cacheIK fac.pol.ikKind a b], sessions := w.sessions ++ [ss0] }
      show MInv w'
      have hold : ∀ c', c' < w.caches.length → modeAt w' c' = modeAt w c' := fun c' h => modeAt_append_lt w _ _ h
      constructor
      · intro f' fac' hf
        have hf' : w.facs[f']? = some fac' := hf
        have hw := hq.1.facOk f' fac' hf'
        refine ⟨by rw [← (hm.fac f' fac' hf').1]; exact hold _ hw.1, fun c' hc' => ?_⟩
        rw [← (hm.fac f' fac' hf').2 c' hc']; exact hold _ (hw.2.1 c' hc').1
      · intro s ss fac' hs hf hn
        have hf' : w.facs[ss.fac]? = some fac' := hf
        rcases ses_lookup_append (l := w.sessions) hs with ⟨_, h0⟩ | ⟨_, rfl⟩
        · obtain ⟨fac1, hf1, _, hb⟩ := hq.1.sesOk s ss h0
          rw [hf'] at hf1; cases hf1
          rw [← hm.ses s ss fac' h0 hf' hn]; exact hold _ (hb hn).1
        · simp only [ss0] at hf'; rw [hfac] at hf'; cases hf'
          show ((w.caches ++ [_]).getD w.caches.length default).mode = _
          simp [List.getD_eq_getElem?_getD, cacheOf_mode]
  | encrypt s pay fl =>
    have hl := hq.1.ctx_live hok
    have hext := encryptPayload_ext (sessionCtx w s) pay true { w with log := [], faults := fl }
    exact hm.of_same (w' := (encryptPayload (sessionCtx w s) pay true { w with log := [], faults := fl }).2) hext.facs hext.sessions
      (hq.step_modes (w1 := { w with log := [], faults := fl }) _ rfl rfl rfl (encryptPayload_spec (tabOf w) [] _ pay hl.1 hl.2))
  | decrypt s d fl =>
    have hl := hq.1.ctx_live hok
    have hext := decryptDataRowRecord_ext (sessionCtx w s) d true { w with log := [], faults := fl }
    exact hm.of_same (w' := (decryptDataRowRecord (sessionCtx w s) d true { w with log := [], faults := fl }).2) hext.facs hext.sessions
      (hq.step_modes (w1 := { w with log := [], faults := fl }) _ rfl rfl rfl (decryptDataRowRecord_spec (tabOf w) [] _ d hl.1 hl.2))
  | closeSession s =>
    simp only [bind_run, beginOp, modify_run, Env.closeSession, get_run]
    let w1 : World := { w with log := [], faults := [], sessions := setAt w.sessions s fun x => { x with closed := true } }
    have base : MInv w1 := by
      constructor
      · exact hm.fac
      · intro s' ss' fac hs hf hn
        obtain ⟨ss0, h0, e1, e2, _⟩ := ses_setAt_lookup _ _ _ _ hs
        rw [e2]; rw [e1] at hf
        exact hm.ses s' ss0 fac h0 hf hn
    split
    · exact base
    · have hext := cacheClose_ext (w.sessions.getD s default).ikCache w1
      exact base.of_same hext.facs hext.sessions (cacheClose_modes _ w1)
  | closeFactory f =>
    simp only [bind_run, beginOp, modify_run, Env.closeFactory, get_run]
    let w1 : World := { w with log := [], faults := [], facs := setAt w.facs f fun x => { x with closed := true } }
    have base : MInv w1 := by
      constructor
      · intro f' fac' hf
        obtain ⟨x0, hx, e1, e2, e3, _⟩ := fac_setAt_lookup _ _ _ _ hf
        rw [e1, e2, e3]; exact hm.fac f' x0 hx
      · intro s' ss' fac hs hf hn
        obtain ⟨x0, hx, e1, _, e3, _⟩ := fac_setAt_lookup _ _ _ _ hf
        rw [e1]; rw [e3] at hn
        exact hm.ses s' ss' x0 hs hx hn
    cases hsi : (w.facs.getD f default).sharedIk with
    | some c0 => exact (Preserves.bind (cacheClose_minv c0) fun _ => cacheClose_minv _) w1 base
    | none => exact cacheClose_minv _ w1 base
  | advance d => exact hm.of_same rfl rfl fun _ => rfl
  | revoke m => exact hm.of_same rfl rfl fun _ => rfl
  | corruptRow m dp => exact hm.of_same rfl rfl fun _ => rfl


theorem MInv.init (t : Int) : MInv (World.init t) :=
  ⟨fun f fac h => by simp [World.init] at h, fun s ss fac h => by simp [World.init] at h⟩

theorem QMInv_runOps {w : World} (hq : QInv w) (hm : MInv w) (ops : List Op) (hv : validFrom w ops) (hnb : CapsPos ops) :
    QInv (runOps w ops).2 ∧ MInv (runOps w ops).2 := by
  induction ops generalizing w with
  | nil => exact ⟨hq, hm⟩
  | cons op rest ih =>
    rw [runOps_snd_cons]
    exact ih (hq.applyOp op hv.1 (hnb op List.mem_cons_self)) (hm.applyOp hq op hv.1 (hnb op List.mem_cons_self)) hv.2
      (fun o ho => hnb o (List.mem_cons_of_mem _ ho))

theorem modeOf_false (kind : Option (Cache.Kind × Nat)) : modeOf false kind = .never := by
  unfold modeOf cacheOf newCache; simp

/-- the session's factory does not cache keys at all. -/
def noCacheSession (w : World) (s : Nat) : Prop :=
  ∃ ss fac, w.sessions[s]? = some ss ∧ w.facs[ss.fac]? = some fac ∧
    fac.pol.cacheSK = false ∧ fac.pol.cacheIK = false ∧ fac.pol.sharedIK = false

theorem noCache_ctx_never {w : World} (hq : QInv w) (hm : MInv w) {s : Nat} (hn : noCacheSession w s) :
    (w.caches.getD (sessionCtx w s).skCache default).mode = .never ∧
    (w.caches.getD (sessionCtx w s).ikCache default).mode = .never := by
  obtain ⟨ss, fac, hss, hfac, h1, h2, h3⟩ := hn
  have hctx1 : (sessionCtx w s).skCache = fac.skCache := by simp [sessionCtx, hss, hfac]
  have hctx2 : (sessionCtx w s).ikCache = ss.ikCache := by simp [sessionCtx, hss]
  have hsh : fac.sharedIk = none := by
    have := (hq.1.facOk _ _ hfac).2.2.1
    rw [h3] at this
    cases hh : fac.sharedIk with
    | none => rfl
    | some c => rw [hh] at this; cases this
  rw [hctx1, hctx2]
  refine ⟨?_, ?_⟩
  · have := (hm.fac _ _ hfac).1; rw [h1, modeOf_false] at this; exact this
  · have := hm.ses s ss fac hss hfac hsh; rw [h2, modeOf_false] at this; exact this

/-- with key caching disabled, an encrypt releases every secret it allocates: the number of live
secrets is what it was. -/
theorem nocache_encrypt {w : World} (hq : QInv w) (hm : MInv w) (s pay : Nat) (fl : List Fault)
    (ho : sessionOpen w s) (hn : noCacheSession w s) :
    liveSecrets (applyOp w (.encrypt s pay fl)).2 = liveSecrets w := by
  have hq' := hq.applyOp (.encrypt s pay fl) ho trivial
  rw [applyOp_snd_eq] at hq' ⊢
  have hmodes := noCache_ctx_never hq hm hn
  have hcs := encryptPayload_cs w.caches (sessionCtx w s) hmodes.1 hmodes.2 pay true { w with log := [], faults := fl } rfl
  have hext := encryptPayload_ext (sessionCtx w s) pay true { w with log := [], faults := fl }
  exact liveSecrets_eq_of_caches hq hq' hcs hext.facs hext.sessions

theorem nocache_decrypt {w : World} (hq : QInv w) (hm : MInv w) (s : Nat) (d : Drr) (fl : List Fault)
    (ho : sessionOpen w s) (hn : noCacheSession w s) :
    liveSecrets (applyOp w (.decrypt s d fl)).2 = liveSecrets w := by
  have hq' := hq.applyOp (.decrypt s d fl) ho trivial
  rw [applyOp_snd_eq] at hq' ⊢
  have hmodes := noCache_ctx_never hq hm hn
  have hcs := decryptDataRowRecord_cs w.caches (sessionCtx w s) hmodes.1 hmodes.2 d true { w with log := [], faults := fl } rfl
  have hext := decryptDataRowRecord_ext (sessionCtx w s) d true { w with log := [], faults := fl }
  exact liveSecrets_eq_of_caches hq hq' hcs hext.facs hext.sessions

end AsherahVerif.Env.Res
