import AsherahVerif.Proofs.EnvResDrk
/-
C09 — a factory without key caching (`never` caches for system and intermediate keys): an
operation on its sessions leaves every cache as it was, hence releases everything it allocates.
-/
set_option linter.unusedVariables false
set_option linter.unusedSectionVars false
namespace AsherahVerif.Env

section
variable (cs : List KeyCache)

/-- the caches are exactly `cs`. -/
def CS (w : World) : Prop := w.caches = cs

theorem withKey_cs {α : Type} (o : Nat) (f : Nat → M α) (hf : ∀ m, Preserves (CS cs) (f m)) : Preserves (CS cs) (withKey o f) := by
  unfold withKey; pres_auto [hf]
theorem logCall_cs (c : Call) : Preserves (CS cs) (logCall c) := Preserves.modify (fun _ h => h)
theorem msLoad_cs (m : KeyMeta) : Preserves (CS cs) (msLoad m) := by unfold msLoad; pres_auto [logCall_cs]
theorem msLoadLatest_cs (k : KeyId) : Preserves (CS cs) (msLoadLatest k) := by unfold msLoadLatest; pres_auto [logCall_cs]
theorem mustLoadLatest_cs (k : KeyId) : Preserves (CS cs) (mustLoadLatest k) := by unfold mustLoadLatest; pres_auto [msLoadLatest_cs]
theorem msStore_cs (r : Row) : Preserves (CS cs) (msStore r) := by unfold msStore; pres_auto [logCall_cs]
theorem secretNew_cs (b m : Nat) : Preserves (CS cs) (secretNew b m) := by unfold secretNew wipeBuf; pres_auto_deep [logCall_cs]
theorem secretRandom_cs : Preserves (CS cs) secretRandom := by unfold secretRandom; pres_auto_deep [logCall_cs]
theorem newKeyObj_cs (c : Int) (r : Bool) (m s : Nat) : Preserves (CS cs) (newKeyObj c r m s) := fun _ h => h
theorem keyCloseRaw_cs (o : Nat) : Preserves (CS cs) (keyCloseRaw o) := by unfold keyCloseRaw secretClose; pres_auto
theorem keyRelease_cs (o : Nat) : Preserves (CS cs) (keyRelease o) := by unfold keyRelease; pres_auto [keyCloseRaw_cs]
theorem keyWrap_cs (o : Nat) : Preserves (CS cs) (keyWrap o) := Preserves.modify (fun _ h => h)
theorem kmsEncrypt_cs (m : Nat) : Preserves (CS cs) (kmsEncrypt m) := by unfold kmsEncrypt; pres_auto [logCall_cs]
theorem kmsDecrypt_cs (c : Ct) : Preserves (CS cs) (kmsDecrypt c) := by unfold kmsDecrypt newBuf; pres_auto_deep [logCall_cs]
theorem aeadEncrypt_cs (pt : Pt) (k : Nat) : Preserves (CS cs) (aeadEncrypt pt k) := by unfold aeadEncrypt; pres_auto_deep [logCall_cs]
theorem aeadDecrypt_cs (c : Ct) (k : Nat) : Preserves (CS cs) (aeadDecrypt c k) := by unfold aeadDecrypt; pres_auto [logCall_cs]
theorem newBuf_cs (m : Nat) : Preserves (CS cs) (newBuf m) := fun _ h => h
theorem wipeBuf_cs (b : Nat) : Preserves (CS cs) (wipeBuf b) := Preserves.modify (fun _ h => h)

/-- `neverCache.GetOrLoad`: nothing is cached. -/
theorem getOrLoad_cs (c : Nat) (m : KeyMeta) (i : Int) (loader : KeyMeta → M Nat)
    (hmode : (cs.getD c default).mode = .never) (hl : ∀ m, Preserves (CS cs) (loader m)) :
    Preserves (CS cs) (getOrLoad c m i loader) := by
  intro w hw
  have hm : (w.caches.getD c default).mode = .never := by rw [hw]; exact hmode
  simp only [getOrLoad, bind_run, getCache, hm]
  exact (Preserves.bind (hl m) fun k => Preserves.bind (keyWrap_cs cs k) fun _ => Preserves.pure k) w hw

theorem getOrLoadLatest_cs (c : Nat) (kid : KeyId) (i e : Int) (loader : KeyMeta → M Nat)
    (hmode : (cs.getD c default).mode = .never) (hl : ∀ m, Preserves (CS cs) (loader m)) :
    Preserves (CS cs) (getOrLoadLatest c kid i e loader) := by
  intro w hw
  have hm : (w.caches.getD c default).mode = .never := by rw [hw]; exact hmode
  simp only [getOrLoadLatest, bind_run, getCache, hm]
  exact (Preserves.bind (hl _) fun k => Preserves.bind (keyWrap_cs cs k) fun _ => Preserves.pure k) w hw

variable (x : Ctx) (hsk : (cs.getD x.skCache default).mode = .never) (hik : (cs.getD x.ikCache default).mode = .never)
include hsk

theorem generateKey_cs : Preserves (CS cs) (generateKey x) := by
  unfold generateKey; pres_auto [secretRandom_cs, newKeyObj_cs]
omit hsk in
theorem systemKeyFromEKR_cs (r : Row) : Preserves (CS cs) (systemKeyFromEKR r) := by
  unfold systemKeyFromEKR; pres_auto [kmsDecrypt_cs, secretNew_cs, newKeyObj_cs]
omit hsk in
theorem loadSystemKey_cs (m : KeyMeta) : Preserves (CS cs) (loadSystemKey m) := by
  unfold loadSystemKey; pres_auto [msLoad_cs, systemKeyFromEKR_cs]
theorem getOrLoadSystemKey_cs (m : KeyMeta) : Preserves (CS cs) (getOrLoadSystemKey x m) := by
  unfold getOrLoadSystemKey; exact getOrLoad_cs cs _ _ _ _ hsk (loadSystemKey_cs cs)
omit hsk in
theorem tryStoreSystemKey_cs (sk : Nat) : Preserves (CS cs) (tryStoreSystemKey sk) := by
  unfold tryStoreSystemKey
  pres_auto [msStore_cs, withKey_cs cs _ _ fun m => kmsEncrypt_cs cs m]
theorem createSK_cs : Preserves (CS cs) (loadLatestOrCreateSystemKey.createSK x) := by
  unfold loadLatestOrCreateSystemKey.createSK
  pres_auto [generateKey_cs cs x hsk, tryStoreSystemKey_cs, keyCloseRaw_cs, mustLoadLatest_cs, systemKeyFromEKR_cs]
theorem loadLatestOrCreateSystemKey_cs : Preserves (CS cs) (loadLatestOrCreateSystemKey x) := by
  unfold loadLatestOrCreateSystemKey
  pres_auto [msLoadLatest_cs, systemKeyFromEKR_cs, createSK_cs cs x hsk]
theorem intermediateKeyFromEKR_cs (sk : Nat) (r : Row) (b : Bool) : Preserves (CS cs) (intermediateKeyFromEKR x sk r b) := by
  unfold intermediateKeyFromEKR
  pres_auto [getOrLoadSystemKey_cs cs x hsk, keyRelease_cs, withKey_cs cs _ _ fun m => aeadDecrypt_cs cs _ m, newBuf_cs, secretNew_cs, newKeyObj_cs]
omit hsk in
theorem tryStoreIntermediateKey_cs (ik sk : Nat) : Preserves (CS cs) (tryStoreIntermediateKey x ik sk) := by
  unfold tryStoreIntermediateKey
  pres_auto [msStore_cs, withKey_cs cs _ _ fun ikm => withKey_cs cs _ _ fun skm => aeadEncrypt_cs cs _ _]
theorem createIntermediateKey_cs (b : Bool) : Preserves (CS cs) (createIntermediateKey x b) := by
  unfold createIntermediateKey
  pres_auto [generateKey_cs cs x hsk, tryStoreIntermediateKey_cs, keyCloseRaw_cs, mustLoadLatest_cs,
    intermediateKeyFromEKR_cs cs x hsk, keyRelease_cs,
    getOrLoadLatest_cs cs _ _ _ _ _ hsk fun _ => loadLatestOrCreateSystemKey_cs cs x hsk]
theorem getValidIntermediateKey_cs (sk : Nat) (r : Row) (b : Bool) : Preserves (CS cs) (getValidIntermediateKey x sk r b) := by
  unfold getValidIntermediateKey; pres_auto [intermediateKeyFromEKR_cs cs x hsk]
theorem loadLatestOrCreateIntermediateKey_cs (b : Bool) : Preserves (CS cs) (loadLatestOrCreateIntermediateKey x b) := by
  unfold loadLatestOrCreateIntermediateKey
  pres_auto [msLoadLatest_cs, createIntermediateKey_cs cs x hsk, getOrLoadSystemKey_cs cs x hsk, getValidIntermediateKey_cs cs x hsk, keyRelease_cs]
theorem loadIntermediateKey_cs (m : KeyMeta) (b : Bool) : Preserves (CS cs) (loadIntermediateKey x m b) := by
  unfold loadIntermediateKey
  pres_auto [msLoad_cs, getOrLoadSystemKey_cs cs x hsk, intermediateKeyFromEKR_cs cs x hsk, keyRelease_cs]
include hik
theorem encryptPayload_cs (p : Nat) (b : Bool) : Preserves (CS cs) (encryptPayload x p b) := by
  rw [encryptPayload_eq]
  apply Preserves.bind (getOrLoadLatest_cs cs _ _ _ _ _ hik fun _ => loadLatestOrCreateIntermediateKey_cs cs x hsk b)
  intro ik
  exact Preserves.finallyDo (drkPart_caches x p ik cs) (keyRelease_cs cs ik)
theorem decryptDataRowRecord_cs (d : Drr) (b : Bool) : Preserves (CS cs) (decryptDataRowRecord x d b) := by
  unfold decryptDataRowRecord decryptRow
  pres_auto [keyRelease_cs, getOrLoad_cs cs _ _ _ _ hik fun m => loadIntermediateKey_cs cs x hsk m b, withKey_cs, aeadDecrypt_cs, newBuf_cs, wipeBuf_cs]
end
end AsherahVerif.Env
