import AsherahVerif.Proofs.KeyRace
/-
C14 (strengthening): uniqueness of (kid, created) is preserved; racing creators converge on ONE
intermediate key row.
-/
namespace AsherahVerif.KeyRace

def keyOf (r : Row) : Kid × Int := (r.kid, r.created)

/-- the metastore's primary key (id, created) is unique. -/
def UniqueKeys (s : List Row) : Prop := (s.map keyOf).Nodup

theorem uniq_inj {s : List Row} (h : UniqueKeys s) {a b : Row} (ha : a ∈ s) (hb : b ∈ s)
    (hk : a.kid = b.kid) (hc : a.created = b.created) : a = b := by
  unfold UniqueKeys at h
  induction s with
  | nil => cases ha
  | cons x t ih =>
    simp only [List.map_cons, List.nodup_cons] at h
    have hkey : keyOf a = keyOf b := by unfold keyOf; rw [hk, hc]
    rcases List.mem_cons.mp ha with ha | ha <;> rcases List.mem_cons.mp hb with hb | hb
    · rw [ha, hb]
    · exfalso; apply h.1; rw [← ha, hkey]; exact List.mem_map_of_mem hb
    · exfalso; apply h.1; rw [← hb, ← hkey]; exact List.mem_map_of_mem ha
    · exact ih h.2 ha hb

theorem findRow_none_not_mem {s : List Row} {k : Kid} {c : Int} (h : (findRow s k c).isSome ≠ true) :
    (k, c) ∉ s.map keyOf := by
  intro hm
  apply h
  obtain ⟨r, hr, hk⟩ := List.mem_map.mp hm
  unfold keyOf at hk
  injection hk with h1 h2
  have := findRow_isSome_of_mem hr
  rw [h1, h2] at this; exact this

theorem uniq_append {s : List Row} {r : Row} (h : UniqueKeys s) (hn : (findRow s r.kid r.created).isSome ≠ true) :
    UniqueKeys (s ++ [r]) := by
  unfold UniqueKeys at *
  simp only [List.map_append, List.map_cons, List.map_nil]
  rw [List.nodup_append]
  refine ⟨h, by simp, ?_⟩
  intro a ha b hb
  simp only [List.mem_singleton] at hb
  subst hb
  intro e; subst e
  exact findRow_none_not_mem hn ha

/-- **uniqueness of (kid, created) is preserved by every step** (inserts are refused on duplicates). -/
theorem step_uniq (p : Policy) (st st' : St) (i : Nat) (h : UniqueKeys st.store) (hs : step p st i = some st') :
    UniqueKeys st'.store := by
  unfold step at hs
  cases hpc : st.procs[i]? with
  | none => simp [hpc] at hs
  | some pc =>
    simp only [hpc] at hs
    cases pc <;> simp only at hs
    all_goals (repeat' split at hs)
    all_goals (first | (simp at hs; done) | skip)
    all_goals (injection hs with hs; subst hs)
    all_goals (first | exact h | skip)
    all_goals (next hn => exact uniq_append h hn)

theorem run_uniq (p : Policy) (st : St) (h : UniqueKeys st.store) (sched : List Nat) :
    UniqueKeys (run p st sched).store := by
  induction sched generalizing st with
  | nil => exact h
  | cons i rest ih =>
    simp only [run]
    cases hs : step p st i with
    | none => exact ih st h
    | some st' => exact ih st' (step_uniq p st st' i h hs)

/-! ### `latest` returns a newest row -/

theorem latestFold_max (l : List Row) (acc : Option Row) (r : Row)
    (h : l.foldl (fun acc r => match acc with
      | none => some r
      | some a => if a.created < r.created then some r else some a) acc = some r) :
    (∀ x, x ∈ l → x.created ≤ r.created) ∧ (∀ a, acc = some a → a.created ≤ r.created) := by
  induction l generalizing acc with
  | nil =>
    simp only [List.foldl_nil] at h
    refine ⟨fun x hx => (by cases hx), ?_⟩
    intro a ha; rw [ha] at h; injection h with h; rw [h]; exact Int.le_refl _
  | cons a t ih =>
    simp only [List.foldl_cons] at h
    have ⟨h1, h2⟩ := ih _ h
    cases acc with
    | none =>
      simp only at h2
      have ha := h2 a rfl
      refine ⟨?_, fun _ e => by cases e⟩
      intro x hx
      rcases List.mem_cons.mp hx with e | e
      · rw [e]; exact ha
      · exact h1 x e
    | some b =>
      simp only at h2
      by_cases hlt : b.created < a.created
      · rw [if_pos hlt] at h2
        have ha := h2 a rfl
        refine ⟨?_, ?_⟩
        · intro x hx
          rcases List.mem_cons.mp hx with e | e
          · rw [e]; exact ha
          · exact h1 x e
        · intro c hc; injection hc with hc; rw [← hc]; omega
      · rw [if_neg hlt] at h2
        have hb := h2 b rfl
        refine ⟨?_, ?_⟩
        · intro x hx
          rcases List.mem_cons.mp hx with e | e
          · rw [e]; omega
          · exact h1 x e
        · intro c hc; injection hc with hc; rw [← hc]; exact hb

theorem latest_max {s : List Row} {k : Kid} {r : Row} (h : latest s k = some r) :
    ∀ x, x ∈ s → x.kid = k → x.created ≤ r.created := by
  unfold latest at h
  intro x hx hk
  exact (latestFold_max _ none r h).1 x (List.mem_filter.mpr ⟨hx, by simpa using hk⟩)

theorem latest_congr {s s0 : List Row} (k : Kid) (h : s.filter (·.kid = k) = s0.filter (·.kid = k)) :
    latest s k = latest s0 k := by
  unfold latest; rw [h]

/-! ### convergence invariant -/

/-- the store has the intermediate key row of the current creation stamp. -/
def HasT (p : Policy) (store : List Row) : Prop := ∃ r, r ∈ store ∧ r.kid = .ik ∧ r.created = stamp p

def CGood (p : Policy) (store : List Row) : Pc → Prop
  | .loadParent r => r ∈ store ∧ r.kid = .ik ∧ r.created = stamp p
  | .loadParent2 r => r ∈ store ∧ r.kid = .ik ∧ r.created = stamp p
  | .llIKretry _ => HasT p store
  | .done u => ∃ r, r ∈ store ∧ r.kid = .ik ∧ r.created = stamp p ∧ u.ikCreated = stamp p ∧ u.ikMat = r.mat
  | _ => True

theorem CGood.mono {p : Policy} {s s' : List Row} (h : ∀ r, r ∈ s → r ∈ s') {pc : Pc} (g : CGood p s pc) :
    CGood p s' pc := by
  cases pc with
  | loadParent r => exact ⟨h _ g.1, g.2⟩
  | loadParent2 r => exact ⟨h _ g.1, g.2⟩
  | llIKretry sk => obtain ⟨x, hx, hk⟩ := g; exact ⟨x, h _ hx, hk⟩
  | done u => obtain ⟨r, hr, rest⟩ := g; exact ⟨r, h _ hr, rest⟩
  | _ => trivial

structure CInv (p : Policy) (store0 : List Row) (st : St) : Prop where
  le : ∀ r, r ∈ st.store → r.kid = .ik → r.created ≤ stamp p
  frozen : ¬ HasT p st.store → st.store.filter (·.kid = .ik) = store0.filter (·.kid = .ik)
  procs : ∀ (i : Nat) (pc : Pc), st.procs[i]? = some pc → CGood p st.store pc

theorem cprocs_update {p : Policy} {st : St} {store' : List Row} {i : Nat} {q : Pc}
    (hp : ∀ (j : Nat) (pc : Pc), st.procs[j]? = some pc → CGood p st.store pc)
    (hmono : ∀ r, r ∈ st.store → r ∈ store') (hq : CGood p store' q) :
    ∀ (j : Nat) (pc : Pc), (setPc st.procs i q)[j]? = some pc → CGood p store' pc := by
  intro j pc hj
  rw [getElem?_setPc] at hj
  by_cases hji : j = i
  · simp only [hji, if_true] at hj
    cases hl : st.procs[i]? with
    | none => rw [hl] at hj; simp at hj
    | some a => rw [hl] at hj; simp at hj; rw [← hj]; exact hq
  · simp only [hji, if_false] at hj
    exact (hp j pc hj).mono hmono

/-- once the row of the current stamp exists, `LoadLatest(ik)` returns a row of that stamp. -/
theorem latest_is_T {p : Policy} {store : List Row} {r : Row}
    (hle : ∀ r, r ∈ store → r.kid = .ik → r.created ≤ stamp p) (ht : HasT p store)
    (hl : latest store .ik = some r) : r ∈ store ∧ r.kid = .ik ∧ r.created = stamp p := by
  have hm := latest_mem hl
  obtain ⟨t, ht1, ht2, ht3⟩ := ht
  have h1 := latest_max hl t ht1 ht2
  have h2 := hle r hm.1 hm.2
  exact ⟨hm.1, hm.2, by omega⟩

theorem filter_append_sk (s : List Row) (r : Row) (h : r.kid = .sk) :
    (s ++ [r]).filter (·.kid = .ik) = s.filter (·.kid = .ik) := by
  rw [List.filter_append]
  have : [r].filter (·.kid = .ik) = [] := by
    simp [h]
  rw [this, List.append_nil]

theorem cstep_inv (p : Policy) (store0 : List Row) (st st' : St) (i : Nat)
    (h0 : match latest store0 .ik with | none => True | some r => invalid p r = true)
    (h : CInv p store0 st) (hs : step p st i = some st') : CInv p store0 st' := by
  unfold step at hs
  cases hpc : st.procs[i]? with
  | none => simp [hpc] at hs
  | some pc =>
    simp only [hpc] at hs
    have hg := h.procs i pc hpc
    have goto : ∀ q, CGood p st.store q → CInv p store0 { st with procs := setPc st.procs i q } := fun q hq =>
      ⟨h.le, h.frozen, cprocs_update h.procs (fun _ hr => hr) hq⟩
    cases pc with
    | start =>
      simp only at hs
      cases hl : latest st.store .ik with
      | none => simp only [hl] at hs; injection hs with hs; subst hs; exact goto _ trivial
      | some r =>
        simp only [hl] at hs
        split at hs <;> (injection hs with hs; subst hs)
        · exact goto _ trivial
        · next hv =>
          apply goto
          by_cases ht : HasT p st.store
          · exact latest_is_T h.le ht hl
          · exfalso
            have := latest_congr .ik (h.frozen ht)
            rw [hl] at this
            rw [← this] at h0
            exact hv h0
    | loadParent r =>
      simp only at hs
      cases hf : findRow st.store .sk r.parent with
      | none => simp only [hf] at hs; injection hs with hs; subst hs; exact goto _ trivial
      | some s =>
        simp only [hf] at hs
        split at hs <;> (injection hs with hs; subst hs)
        · exact goto _ trivial
        · exact goto _ ⟨r, hg.1, hg.2.1, hg.2.2, hg.2.2, rfl⟩
    | llSK =>
      simp only at hs
      cases hl : latest st.store .sk with
      | none => simp only [hl] at hs; injection hs with hs; subst hs; exact goto _ trivial
      | some s =>
        simp only [hl] at hs
        split at hs <;> (injection hs with hs; subst hs)
        · exact goto _ trivial
        · exact goto _ trivial
    | storeSK =>
      simp only at hs
      split at hs
      · injection hs with hs; subst hs
        exact ⟨h.le, h.frozen, cprocs_update h.procs (fun _ hr => hr) trivial⟩
      · injection hs with hs; subst hs
        refine ⟨?_, ?_, cprocs_update h.procs (fun _ hr => List.mem_append_left _ hr) trivial⟩
        · intro r hr hk
          simp only [List.mem_append, List.mem_singleton] at hr
          rcases hr with hr | hr
          · exact h.le r hr hk
          · rw [hr] at hk; cases hk
        · intro hnt
          dsimp only at hnt ⊢
          rw [filter_append_sk _ _ rfl]
          apply h.frozen
          intro ⟨t, ht1, ht2⟩
          exact hnt ⟨t, List.mem_append_left _ ht1, ht2⟩
    | llSKretry =>
      simp only at hs
      cases hl : latest st.store .sk with
      | none => simp only [hl] at hs; injection hs with hs; subst hs; exact goto _ trivial
      | some s =>
        simp only [hl] at hs
        injection hs with hs; subst hs
        exact goto _ trivial
    | storeIK sk =>
      simp only at hs
      split at hs
      · next hex =>
        injection hs with hs; subst hs
        cases hf : findRow st.store .ik (stamp p) with
        | none => rw [hf] at hex; simp at hex
        | some r =>
          have hm := findRow_mem hf
          exact ⟨h.le, h.frozen, cprocs_update h.procs (fun _ hr => hr) ⟨r, hm.1, hm.2.1, hm.2.2⟩⟩
      · injection hs with hs; subst hs
        have hnew : ({ kid := .ik, created := stamp p, revoked := false, mat := (i, st.serial.getD i 0), parent := sk.created } : Row) ∈
            st.store ++ [{ kid := .ik, created := stamp p, revoked := false, mat := (i, st.serial.getD i 0), parent := sk.created }] :=
          List.mem_append_right _ (List.mem_singleton.mpr rfl)
        refine ⟨?_, ?_, cprocs_update h.procs (fun _ hr => List.mem_append_left _ hr) ?_⟩
        · intro r hr hk
          simp only [List.mem_append, List.mem_singleton] at hr
          rcases hr with hr | hr
          · exact h.le r hr hk
          · rw [hr]; exact Int.le_refl _
        · intro hnt
          exfalso; exact hnt ⟨_, hnew, rfl, rfl⟩
        · exact ⟨_, hnew, rfl, rfl, rfl, rfl⟩
    | llIKretry sk =>
      simp only at hs
      cases hl : latest st.store .ik with
      | none => simp only [hl] at hs; injection hs with hs; subst hs; exact goto _ trivial
      | some r =>
        simp only [hl] at hs
        have hT := latest_is_T h.le hg hl
        split at hs <;> (injection hs with hs; subst hs)
        · exact goto _ ⟨r, hT.1, hT.2.1, hT.2.2, hT.2.2, rfl⟩
        · exact goto _ hT
    | loadParent2 r =>
      simp only at hs
      cases hf : findRow st.store .sk r.parent with
      | none => simp only [hf] at hs; injection hs with hs; subst hs; exact goto _ trivial
      | some s =>
        simp only [hf] at hs
        injection hs with hs; subst hs
        exact goto _ ⟨r, hg.1, hg.2.1, hg.2.2, hg.2.2, rfl⟩
    | done u => simp at hs
    | failed => simp at hs

theorem crun_inv (p : Policy) (store0 : List Row) (st : St)
    (h0 : match latest store0 .ik with | none => True | some r => invalid p r = true)
    (h : CInv p store0 st) (sched : List Nat) : CInv p store0 (run p st sched) := by
  induction sched generalizing st with
  | nil => exact h
  | cons i rest ih =>
    simp only [run]
    cases hs : step p st i with
    | none => exact ih st h
    | some st' => exact ih st' (cstep_inv p store0 st st' i h0 h hs)

theorem cinv_init (p : Policy) (store : List Row) (n : Nat)
    (hle : ∀ r, r ∈ store → r.kid = .ik → r.created ≤ stamp p) : CInv p store (init store n) := by
  refine ⟨hle, fun _ => rfl, ?_⟩
  intro i pc hi
  simp only [init] at hi
  have : pc = .start := by
    have hm := List.mem_of_getElem? hi
    exact List.eq_of_mem_replicate hm
  rw [this]; trivial

end AsherahVerif.KeyRace

namespace AsherahVerif.KeyRace

/-! ### completion: any schedule that gives every process 8 turns finishes every process -/

/-- remaining metastore calls of a program counter (an upper bound). -/
def rk : Pc → Nat
  | .start => 8 | .loadParent _ => 7 | .llSK => 6 | .storeSK => 5 | .llSKretry => 4
  | .storeIK _ => 3 | .llIKretry _ => 2 | .loadParent2 _ => 1 | .done _ => 0 | .failed => 0

def rankOf (st : St) (i : Nat) : Nat := match st.procs[i]? with | some pc => rk pc | none => 0

theorem rk_le (pc : Pc) : rk pc ≤ 8 := by cases pc <;> simp [rk]

theorem step_procs (p : Policy) (st st' : St) (j : Nat) (hs : step p st j = some st') :
    ∃ q, st'.procs = setPc st.procs j q := by
  unfold step at hs
  cases hpc : st.procs[j]? with
  | none => simp [hpc] at hs
  | some pc =>
    simp only [hpc] at hs
    cases pc <;> simp only at hs
    all_goals (repeat' split at hs)
    all_goals (first | (simp at hs; done) | skip)
    all_goals (injection hs with hs; subst hs)
    all_goals (exact ⟨_, rfl⟩)

theorem step_rk (p : Policy) (st st' : St) (i : Nat) (pc : Pc)
    (hpc : st.procs[i]? = some pc) (hs : step p st i = some st') :
    ∃ pc', st'.procs[i]? = some pc' ∧ rk pc' < rk pc := by
  unfold step at hs
  simp only [hpc] at hs
  have key : ∀ q (s' : St), s'.procs = setPc st.procs i q → s'.procs[i]? = some q := by
    intro q s' e
    rw [e, getElem?_setPc]; simp [hpc]
  cases pc <;> simp only at hs
  all_goals (repeat' split at hs)
  all_goals (first | (simp at hs; done) | skip)
  all_goals (injection hs with hs; subst hs)
  all_goals (exact ⟨_, key _ _ rfl, by simp [rk]⟩)

theorem step_enabled (p : Policy) (st : St) (j : Nat) (pc : Pc) (hpc : st.procs[j]? = some pc) (hr : 0 < rk pc) :
    ∃ st', step p st j = some st' := by
  unfold step
  simp only [hpc]
  cases pc <;> simp only
  all_goals (repeat' split)
  all_goals (first | exact ⟨_, rfl⟩ | (simp [rk] at hr))

theorem step_none_rank (p : Policy) (st : St) (j : Nat) (hs : step p st j = none) : rankOf st j = 0 := by
  unfold rankOf
  cases hpc : st.procs[j]? with
  | none => rfl
  | some pc =>
    simp only
    apply Classical.byContradiction; intro hne
    obtain ⟨st', h⟩ := step_enabled p st j pc hpc (by omega)
    rw [h] at hs; cases hs

theorem step_rank (p : Policy) (st st' : St) (j i : Nat) (hs : step p st j = some st') :
    rankOf st' i + (if i = j then 1 else 0) ≤ rankOf st i := by
  by_cases hij : i = j
  · subst hij
    rw [if_pos rfl]
    unfold rankOf
    cases hpc : st.procs[i]? with
    | none => unfold step at hs; simp [hpc] at hs
    | some pc =>
      obtain ⟨pc', h1, h2⟩ := step_rk p st st' i pc hpc hs
      rw [h1]; simp only; omega
  · rw [if_neg hij]
    obtain ⟨q, hq⟩ := step_procs p st st' j hs
    unfold rankOf
    rw [hq, getElem?_setPc, if_neg hij]; omega

/-- after any schedule, process `i` has at most `rank − (number of its turns)` calls left. -/
theorem run_rank (p : Policy) (st : St) (sched : List Nat) (i : Nat) :
    rankOf (run p st sched) i ≤ rankOf st i - sched.count i := by
  induction sched generalizing st with
  | nil => simp [run]
  | cons j rest ih =>
    simp only [run, List.count_cons]
    cases hs : step p st j with
    | none =>
      dsimp only
      have := ih st
      by_cases hij : j = i
      · have h0 := step_none_rank p st j hs
        rw [hij] at h0
        omega
      · have : (j == i) = false := by simpa using hij
        simp only [this, Bool.false_eq_true, if_false]; omega
    | some st' =>
      dsimp only
      have h1 := ih st'
      have h2 := step_rank p st st' j i hs
      by_cases hij : j = i
      · have e : (j == i) = true := by simpa using hij
        have e2 : i = j := hij.symm
        simp only [e, if_true]; rw [if_pos e2] at h2; omega
      · have e : (j == i) = false := by simpa using hij
        have e2 : ¬ i = j := fun c => hij c.symm
        simp only [e, Bool.false_eq_true, if_false]; rw [if_neg e2] at h2; omega

theorem rankOf_le (st : St) (i : Nat) : rankOf st i ≤ 8 := by
  unfold rankOf; split
  · exact rk_le _
  · omega

/-- every process has finished (with a key, not with an error). -/
def complete (st : St) : Prop := ∀ (i : Nat) (pc : Pc), st.procs[i]? = some pc → ∃ u, pc = .done u

theorem run_procs_none (p : Policy) (st : St) (sched : List Nat) (i : Nat) (h : st.procs[i]? = none) :
    (run p st sched).procs[i]? = none := by
  induction sched generalizing st with
  | nil => exact h
  | cons j rest ih =>
    simp only [run]
    cases hs : step p st j with
    | none => exact ih st h
    | some st' =>
      apply ih st'
      obtain ⟨q, hq⟩ := step_procs p st st' j hs
      rw [hq, getElem?_setPc, h]; simp

theorem fair_complete (p : Policy) (store : List Row) (n : Nat)
    (hw : ∀ r, r ∈ store → r.kid = .ik → ∃ s, s ∈ store ∧ s.kid = .sk ∧ s.created = r.parent)
    (sched : List Nat) (hfair : ∀ i, i < n → 8 ≤ sched.count i) :
    complete (run p (init store n) sched) := by
  intro i pc hpc
  have hin : i < n := by
    apply Classical.byContradiction; intro hge
    have : (init store n).procs[i]? = none := by
      simp only [init]; rw [List.getElem?_eq_none]; simp; omega
    rw [run_procs_none p _ sched i this] at hpc; cases hpc
  have hr := run_rank p (init store n) sched i
  have h8 := rankOf_le (init store n) i
  have hf := hfair i hin
  have h0 : rankOf (run p (init store n) sched) i = 0 := by omega
  unfold rankOf at h0
  rw [hpc] at h0
  simp only at h0
  have hg := (run_inv p _ (inv_init store n hw) sched).procs i pc hpc
  cases pc <;> simp [rk] at h0
  · exact ⟨_, rfl⟩
  · exact hg.elim

end AsherahVerif.KeyRace
