import AsherahVerif.Proofs.Base64
import AsherahVerif.Proofs.CodecJson
/-
Record layer: record ↔ JSON value / DynamoDB attribute tree / protobuf message / key id, and the
string-level laws obtained by composing with `parseJson_print` and `b64_decode_encode`.
-/
set_option linter.unusedSimpArgs false
namespace AsherahVerif.Codec
open AsherahVerif.Gcm (Bytes)

/-! member names are pairwise different -/
theorem names_ne :
    nKeyId ≠ nCreated ∧ nCreated ≠ nKeyId ∧
    nRevoked ≠ nCreated ∧ nRevoked ≠ nKey ∧ nRevoked ≠ nParentKeyMeta ∧
    nCreated ≠ nRevoked ∧ nCreated ≠ nKey ∧ nCreated ≠ nParentKeyMeta ∧
    nKey ≠ nRevoked ∧ nKey ≠ nCreated ∧ nKey ≠ nParentKeyMeta ∧ nKey ≠ nData ∧ nData ≠ nKey ∧
    nParentKeyMeta ≠ nRevoked ∧ nParentKeyMeta ≠ nCreated ∧ nParentKeyMeta ≠ nKey ∧
    nId ≠ nCreated ∧ nId ≠ nKeyRecord ∧ nCreated ≠ nId ∧ nCreated ≠ nKeyRecord ∧ nKeyRecord ≠ nId ∧ nKeyRecord ≠ nCreated ∧
    nEncryptedKey ≠ nKmsKeks ∧ nKmsKeks ≠ nEncryptedKey ∧
    nRegion ≠ nArn ∧ nRegion ≠ nEncryptedKek ∧ nArn ≠ nRegion ∧ nArn ≠ nEncryptedKek ∧
    nEncryptedKek ≠ nRegion ∧ nEncryptedKek ≠ nArn := by decide

/-! ### JSON values -/

theorem keyMeta_fromJson_toJson (m : KeyMeta) : KeyMeta.fromJson m.toJson = some m := by
  obtain ⟨h1, h2, _⟩ := names_ne
  simp [KeyMeta.toJson, KeyMeta.fromJson, fieldStr, fieldInt64, lookup, h1, h2, int64OfInt_toInt]

theorem ekr_fromJson_toJson (e : EKR) : EKR.fromJson e.toJson = some e := by
  obtain ⟨_, _, r1, r2, r3, c1, c2, c3, k1, k2, k3, _, _, p1, p2, p3, _⟩ := names_ne
  obtain ⟨rev, created, key, parent⟩ := e
  cases parent with
  | none =>
    cases rev <;>
      simp [EKR.toJson, EKR.fromJson, fieldBool, fieldInt64, fieldBytes, lookup, r1, r2, r3, c1, c2, c3, k1, k2, k3,
        p1, p2, p3, int64OfInt_toInt, b64_decode_encode]
  | some m =>
    have hm : KeyMeta.fromJson (JV.obj [(nKeyId, .str m.id), (nCreated, .num m.created.toInt)]) = some m :=
      keyMeta_fromJson_toJson m
    cases rev <;>
      simp [EKR.toJson, EKR.fromJson, fieldBool, fieldInt64, fieldBytes, lookup, r1, r2, r3, c1, c2, c3, k1, k2, k3,
        p1, p2, p3, int64OfInt_toInt, b64_decode_encode, KeyMeta.toJson, hm]

theorem drr_fromJson_toJson (d : DRR) : DRR.fromJson d.toJson = some d := by
  have hn := names_ne
  obtain ⟨key, data⟩ := d
  cases key with
  | none => simp [DRR.toJson, DRR.fromJson, fieldBytes, lookup, hn.2.2.2.2.2.2.2.2.2.2.2.1, hn.2.2.2.2.2.2.2.2.2.2.2.2.1, b64_decode_encode]
  | some e =>
    have he := ekr_fromJson_toJson e
    simp only [DRR.toJson, DRR.fromJson, lookup, if_true]
    have : ∃ kvs, e.toJson = .obj kvs := ⟨_, rfl⟩
    obtain ⟨kvs, hk⟩ := this
    rw [hk] at he ⊢
    simp [he, fieldBytes, lookup, hn.2.2.2.2.2.2.2.2.2.2.2.1, hn.2.2.2.2.2.2.2.2.2.2.2.2.1, b64_decode_encode]

/-! ### JSON text -/

theorem decodeEKR_encodeEKR (e : EKR) : decodeEKR (encodeEKR e) = some e := by
  simp [decodeEKR, encodeEKR, parseJson_print, ekr_fromJson_toJson]

theorem decodeDRR_encodeDRR (d : DRR) : decodeDRR (encodeDRR d) = some d := by
  simp [decodeDRR, encodeDRR, parseJson_print, drr_fromJson_toJson]

theorem sqlRowDecode_sqlRowOf (id : Str) (created : Int64) (e : EKR) :
    sqlRowDecode (sqlRowOf id created e) = some e ∧ (sqlRowOf id created e).id = id ∧
    (sqlRowOf id created e).created = created := by
  simp [sqlRowDecode, sqlRowOf, decodeEKR_encodeEKR]

/-! ### DynamoDB attribute trees -/

theorem avToKeyMeta_keyMetaToAV (m : KeyMeta) : avToKeyMeta (keyMetaToAV m) = some m := by
  obtain ⟨h1, h2, _⟩ := names_ne
  simp [keyMetaToAV, avToKeyMeta, avStr, avInt64, lookup, h1, h2, parseInt64Str_intDigits]

theorem avS1_str (kvs : List (Str × AV)) (k s : Str) (h : lookup k kvs = some (avS1 s)) : avStr kvs k = some s := by
  unfold avStr; rw [h]; unfold avS1
  by_cases hs : s = []
  · simp [hs]
  · simp [hs]

theorem avToKeyMeta_keyMetaToAV1 (m : KeyMeta) : avToKeyMeta (keyMetaToAV1 m) = some m := by
  obtain ⟨h1, h2, _⟩ := names_ne
  have := avS1_str [(nKeyId, avS1 m.id), (nCreated, AV.n (intDigits m.created.toInt))] nKeyId m.id (by simp [lookup])
  simp [keyMetaToAV1, avToKeyMeta, this, avInt64, lookup, h1, h2, parseInt64Str_intDigits]

theorem avToEKR_ekrToAV (e : EKR) : avToEKR (ekrToAV e) = some e := by
  obtain ⟨_, _, r1, r2, r3, c1, c2, c3, k1, k2, k3, _, _, p1, p2, p3, _⟩ := names_ne
  obtain ⟨rev, created, key, parent⟩ := e
  cases parent with
  | none =>
    cases rev <;>
      simp [ekrToAV, avToEKR, avBool, avInt64, avStr, lookup, r1, r2, r3, c1, c2, c3, k1, k2, k3,
        p1, p2, p3, parseInt64Str_intDigits, b64_decode_encode]
  | some m =>
    have hm : avToKeyMeta (AV.m [(nKeyId, .s m.id), (nCreated, .n (intDigits m.created.toInt))]) = some m :=
      avToKeyMeta_keyMetaToAV m
    cases rev <;>
      simp [ekrToAV, avToEKR, avBool, avInt64, avStr, lookup, r1, r2, r3, c1, c2, c3, k1, k2, k3,
        p1, p2, p3, parseInt64Str_intDigits, b64_decode_encode, keyMetaToAV, hm]

theorem avToEKR_ekrToAV1 (e : EKR) : avToEKR (ekrToAV1 e) = some e := by
  obtain ⟨_, _, r1, r2, r3, c1, c2, c3, k1, k2, k3, _, _, p1, p2, p3, _⟩ := names_ne
  obtain ⟨rev, created, key, parent⟩ := e
  cases parent with
  | none =>
    cases rev
    · have hk := avS1_str [(nCreated, AV.n (intDigits created.toInt)), (nKey, avS1 (b64Encode key))] nKey (b64Encode key)
        (by simp [lookup, c2])
      simp [ekrToAV1, avToEKR, avBool, avInt64, hk, lookup, r1, r2, r3, c1, c2, c3, k1, k2, k3,
        p1, p2, p3, parseInt64Str_intDigits, b64_decode_encode]
    · have hk := avS1_str [(nRevoked, AV.bool true), (nCreated, AV.n (intDigits created.toInt)), (nKey, avS1 (b64Encode key))]
        nKey (b64Encode key) (by simp [lookup, c2, r2])
      simp [ekrToAV1, avToEKR, avBool, avInt64, hk, lookup, r1, r2, r3, c1, c2, c3, k1, k2, k3,
        p1, p2, p3, parseInt64Str_intDigits, b64_decode_encode]
  | some m =>
    have hm : avToKeyMeta (AV.m [(nKeyId, avS1 m.id), (nCreated, .n (intDigits m.created.toInt))]) = some m :=
      avToKeyMeta_keyMetaToAV1 m
    cases rev
    · have hk := avS1_str [(nCreated, AV.n (intDigits created.toInt)), (nKey, avS1 (b64Encode key)),
          (nParentKeyMeta, AV.m [(nKeyId, avS1 m.id), (nCreated, .n (intDigits m.created.toInt))])] nKey (b64Encode key)
        (by simp [lookup, c2])
      simp [ekrToAV1, avToEKR, avBool, avInt64, hk, lookup, r1, r2, r3, c1, c2, c3, k1, k2, k3,
        p1, p2, p3, parseInt64Str_intDigits, b64_decode_encode, keyMetaToAV1, hm]
    · have hk := avS1_str [(nRevoked, AV.bool true), (nCreated, AV.n (intDigits created.toInt)), (nKey, avS1 (b64Encode key)),
          (nParentKeyMeta, AV.m [(nKeyId, avS1 m.id), (nCreated, .n (intDigits m.created.toInt))])] nKey (b64Encode key)
        (by simp [lookup, c2, r2])
      simp [ekrToAV1, avToEKR, avBool, avInt64, hk, lookup, r1, r2, r3, c1, c2, c3, k1, k2, k3,
        p1, p2, p3, parseInt64Str_intDigits, b64_decode_encode, keyMetaToAV1, hm]

theorem avToItem_itemToAV (id : Str) (created : Int64) (e : EKR) :
    avToItem (itemToAV id created e) = some (id, e) := by
  have hn := names_ne
  obtain ⟨_, _, _, _, _, _, _, _, _, _, _, _, _, _, _, _, i1, i2, ci, ck, k1, k2, _⟩ := hn
  have he := avToEKR_ekrToAV e
  have : ∃ kvs, ekrToAV e = .m kvs := ⟨_, rfl⟩
  obtain ⟨kvs, hk⟩ := this
  rw [hk] at he
  simp [itemToAV, avToItem, avStr, lookup, i1, i2, ci, ck, k1, k2, hk, he]

/-- the aws-v1 plugin's `Load` hands the `KeyRecord` attribute of the item to the unmarshaler. -/
theorem item1_keyRecord (id : Str) (created : Int64) (e : EKR) :
    (match itemToAV1 id created e with
     | .m kvs => (lookup nKeyRecord kvs).bind avToEKR
     | _ => none) = some e := by
  obtain ⟨_, _, _, _, _, _, _, _, _, _, _, _, _, _, _, _, i1, i2, ci, ck, k1, k2, _⟩ := names_ne
  simp [itemToAV1, lookup, i1, i2, ci, ck, k1, k2, avToEKR_ekrToAV1]

/-! ### protobuf mapping -/

theorem toPb_panic_iff (d : DRR) : toPb d = .panic ↔ (d.key = none ∨ ∃ e, d.key = some e ∧ e.parent = none) := by
  obtain ⟨key, data⟩ := d
  cases key with
  | none => simp [toPb]
  | some e =>
    cases hp : e.parent with
    | none => simp [toPb, hp]
    | some m => simp [toPb, hp]

theorem fromPb_toPb (e : EKR) (m : KeyMeta) (data : Bytes) (hp : e.parent = some m) :
    toPb ⟨some e, data⟩ = .ok ⟨some ⟨e.created, e.key, some ⟨m.created, m.id⟩⟩, data⟩ ∧
    fromPb ⟨some ⟨e.created, e.key, some ⟨m.created, m.id⟩⟩, data⟩ = ⟨some { e with revoked := false }, data⟩ := by
  obtain ⟨rev, created, key, parent⟩ := e
  simp only at hp
  subst hp
  constructor
  · simp [toPb]
  · simp [fromPb]

theorem toPb_fromPb_ok (p : PbDRR) : ∃ q, toPb (fromPb p) = .ok q := by
  exact ⟨_, by simp [toPb, fromPb]; rfl⟩

/-! ### key ids -/

theorem splitU_no (a : Str) (h : '_' ∉ a) : splitU a = [a] := by
  induction a with
  | nil => rfl
  | cons c r ih =>
    have hc : c ≠ '_' := by intro hh; apply h; simp [hh]
    have hr : '_' ∉ r := by intro hh; apply h; simp [hh]
    simp [splitU, hc, ih hr]

theorem splitU_append (a b : Str) (h : '_' ∉ a) : splitU (a ++ '_' :: b) = a :: splitU b := by
  induction a with
  | nil => simp [splitU]
  | cons c r ih =>
    have hc : c ≠ '_' := by intro hh; apply h; simp [hh]
    have hr : '_' ∉ r := by intro hh; apply h; simp [hh]
    simp [splitU, hc, ih hr]

/-! ### AWS KMS envelope -/

theorem kek_fromJson_toJson (k : Kek) : Kek.fromJson k.toJson = some k := by
  obtain ⟨_, _, _, _, _, _, _, _, _, _, _, _, _, _, _, _, _, _, _, _, _, _, _, _, a1, a2, a3, a4, a5, a6⟩ := names_ne
  simp [Kek.toJson, Kek.fromJson, fieldStr, fieldBytes, lookup, a1, a2, a3, a4, a5, a6, b64_decode_encode]

theorem keksFromJson_map (ks : List Kek) : keksFromJson (ks.map Kek.toJson) = some ks := by
  induction ks with
  | nil => rfl
  | cons k t ih => simp [keksFromJson, kek_fromJson_toJson, ih]

theorem kmsEnvelope_fromJson_toJson (e : KmsEnvelope) : KmsEnvelope.fromJson e.toJson = some e := by
  obtain ⟨_, _, _, _, _, _, _, _, _, _, _, _, _, _, _, _, _, _, _, _, _, _, e1, e2, _⟩ := names_ne
  simp [KmsEnvelope.toJson, KmsEnvelope.fromJson, fieldBytes, lookup, e1, e2, b64_decode_encode, keksFromJson_map]

end AsherahVerif.Codec
