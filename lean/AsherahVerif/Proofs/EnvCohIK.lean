import AsherahVerif.Proofs.EnvCohSK
/-
Specifications of the intermediate-key half of envelope.go.
-/
set_option linter.unusedVariables false
namespace AsherahVerif.Env

/-- what `Inv` says about a stored intermediate-key row. -/
theorem Inv.ikRow {w : World} (hi : Inv w) {r : Row} {p : Nat} (hr : r ∈ w.store) (hk : r.kid = .ik p) :
    ∃ c skm n mat, (r.parent = some ⟨.sk, c⟩ ∧ r.enc = .enc skm n (.key mat) ∧ c ≠ 0) ∧ Wraps w.store ⟨.sk, c⟩ skm := by
  have := hi.wf.good r hr
  unfold RowGood at this; rw [hk] at this; dsimp only at this
  obtain ⟨c, skm, n, mat, h1, h2, h3⟩ := this
  refine ⟨c, skm, n, mat, ⟨h1, h2, ?_⟩, h3⟩
  obtain ⟨r', hr', _, hc', _⟩ := h3
  have hc'' : r'.created = c := hc'
  rw [← hc'']; exact hi.wf.nz r' hr'

/-- the decrypt-and-wrap body of `intermediateKeyFromEKR`, given the right system key. -/
theorem ikBody_spec {a : Nat} {F : Prop} (r : Row) (sk' : Nat) (p : Nat) (c : Int) (skm n mat : Nat)
    (hk : r.kid = .ik p) (henc : r.enc = .enc skm n (.key mat)) :
    Spec a F (fun w => r ∈ w.store ∧ Wraps w.store ⟨.sk, c⟩ skm ∧ GoodKeyAt w ⟨.sk, c⟩ sk')
      (do
        let pt ← withKey sk' fun skm => aeadDecrypt r.enc skm
        match pt with
        | .key m =>
          let b ← newBuf m
          let s ← secretNew b m
          newKeyObj r.created r.revoked m s
        | .payload _ => throw .aead)
      (fun k w => GoodKeyAt w ⟨r.kid, r.created⟩ k) := by
  apply Spec.bind_frame (P' := fun w => Wraps w.store ⟨.sk, c⟩ skm ∧ GoodKeyAt w ⟨.sk, c⟩ sk')
    (G1 := fun pt _ => ∃ n', r.enc = .enc skm n' pt) _ (fun w _ h => h.2) (by stable_auto)
  · intro pt
    apply Spec.of_pre (C := pt = .key mat) (by ext_auto [secretNew_ext])
      (fun w _ h => by obtain ⟨n', hn'⟩ := h.2; rw [henc] at hn'; cases hn'; rfl)
    intro hpt
    subst hpt
    dsimp only
    apply Spec.pre (P := fun w => r ∈ w.store) (fun w _ h => h.1.1)
    apply Spec.bind_frame (newBuf_spec mat) (fun _ _ _ => trivial) (Stable.mem_store r)
    intro b
    apply Spec.pre (P := fun w => r ∈ w.store) (fun w _ h => h.1)
    apply Spec.bind_frame (secretNew_spec b mat) (fun _ _ _ => trivial) (Stable.mem_store r)
    intro s
    apply Spec.pre (P := fun w => r ∈ w.store) (fun w _ h => h.1)
    refine Spec.frame (newKeyObj_spec r.created r.revoked mat s) (fun _ _ _ => trivial) (Stable.mem_store r)
      fun k w _ hr h => GoodKeyAt.of_keyIs h ⟨r, hr, rfl, rfl, ?_⟩
    unfold RowMat; rw [hk]; exact ⟨skm, n, henc⟩
  · refine Spec.withKey skm (fun w hi h => ?_) (fun m => aeadDecrypt_ext _ _)
      ((aeadDecrypt_spec r.enc skm).pre fun w _ _ _ => ⟨n, _, henc⟩)
    obtain ⟨mat', hki, hw⟩ := h.2.keyIs
    have := Wraps.unique hi.wf hw h.1
    subst this
    exact ⟨_, hki⟩

theorem pure_bind_M {α β : Type} (v : α) (f : α → M β) : (pure v >>= f : M β) = f v := rfl

theorem ikTail_spec {a : Nat} {F : Prop} (r : Row) (sk' : Nat) (loaded rl : Bool) (p : Nat) (c : Int) (skm n mat : Nat)
    (hk : r.kid = .ik p) (henc : r.enc = .enc skm n (.key mat)) :
    Spec a F (fun w => r ∈ w.store ∧ Wraps w.store ⟨.sk, c⟩ skm ∧ GoodKeyAt w ⟨.sk, c⟩ sk')
      (if loaded && rl then finallyDo (do
        let pt ← withKey sk' fun skm => aeadDecrypt r.enc skm
        match pt with
        | .key m =>
          let b ← newBuf m
          let s ← secretNew b m
          newKeyObj r.created r.revoked m s
        | .payload _ => throw .aead) (keyRelease sk')
       else (do
        let pt ← withKey sk' fun skm => aeadDecrypt r.enc skm
        match pt with
        | .key m =>
          let b ← newBuf m
          let s ← secretNew b m
          newKeyObj r.created r.revoked m s
        | .payload _ => throw .aead))
      (fun k w => GoodKeyAt w ⟨r.kid, r.created⟩ k) := by
  apply Spec.ite <;> intro _
  · exact Spec.finallyDo (ikBody_spec r sk' p c skm n mat hk henc) (fun _ => Stable.goodKeyAt _ _) (keyRelease_spec sk')
  · exact ikBody_spec r sk' p c skm n mat hk henc

theorem intermediateKeyFromEKR_spec {a : Nat} {F : Prop} (x : Ctx) (sk : Nat) (r : Row) (rl : Bool)
    (hrk : r.kid = x.ikId) :
    Spec a F (fun w => r ∈ w.store ∧ GoodFor ⟨.sk, 0⟩ sk w) (intermediateKeyFromEKR x sk r rl)
      (fun k w => GoodKeyAt w ⟨r.kid, r.created⟩ k) := by
  have hext := intermediateKeyFromEKR_ext x sk r rl
  apply Spec.pre (P := fun w => ∃ c skm n mat, (r.parent = some ⟨.sk, c⟩ ∧ r.enc = .enc skm n (.key mat) ∧ c ≠ 0) ∧
      ∃ m0 : KeyMeta, m0.kid = .sk ∧ (r ∈ w.store ∧ Wraps w.store ⟨.sk, c⟩ skm ∧ GoodKeyAt w m0 sk))
  · intro w hi h
    obtain ⟨c, skm, n, mat, h1, h2⟩ := hi.ikRow h.1 hrk
    obtain ⟨m0, hm0, _, hg⟩ := h.2
    exact ⟨c, skm, n, mat, h1, m0, hm0, h.1, h2, hg⟩
  apply Spec.exists_pre hext; intro c
  apply Spec.exists_pre hext; intro skm
  apply Spec.exists_pre hext; intro n
  apply Spec.exists_pre hext; intro mat
  apply Spec.of_pre (C := r.parent = some ⟨.sk, c⟩ ∧ r.enc = .enc skm n (.key mat) ∧ c ≠ 0) hext (fun w _ h => h.1)
  intro ⟨hpar, henc, hcz⟩
  apply Spec.pre (P := fun w => ∃ m0 : KeyMeta, m0.kid = .sk ∧ (r ∈ w.store ∧ Wraps w.store ⟨.sk, c⟩ skm ∧ GoodKeyAt w m0 sk))
    (fun w _ h => h.2)
  apply Spec.exists_pre hext; intro m0
  apply Spec.of_pre (C := m0.kid = .sk) hext (fun w _ h => h.1)
  intro hm0
  apply Spec.pre (P := fun w => r ∈ w.store ∧ Wraps w.store ⟨.sk, c⟩ skm ∧ GoodKeyAt w m0 sk) (fun w _ h => h.2)
  unfold intermediateKeyFromEKR
  apply Spec.bind_frame (keyObj_created_spec sk m0.created fun w _ h => h.2.2.keyIs') (fun _ _ h => h) (by stable_auto)
  intro so
  rw [hpar]
  dsimp only
  cases hrk' : x.ikId with
  | sk => unfold Ctx.ikId at hrk'; cases hrk'
  | ik p =>
    have hk : r.kid = .ik p := hrk.trans hrk'
    apply Spec.ite <;> intro hne
    · apply Spec.bind_frame (getOrLoadSystemKey_spec x ⟨.sk, c⟩ rfl) (fun w _ h _ => ⟨skm, h.1.2.1⟩) (by stable_auto)
      intro l
      rw [pure_bind_M]
      exact (ikTail_spec r l true rl p c skm n mat hk henc).pre
        fun w _ h => ⟨h.1.1.1, h.1.1.2.1, GoodFor.of_nz hcz h.2⟩
    · rw [pure_bind_M]
      refine (ikTail_spec r sk false rl p c skm n mat hk henc).pre
        fun w _ h => ⟨h.1.1, h.1.2.1, h.1.2.2.congr hm0 ?_⟩
      have := Classical.not_not.mp hne
      exact h.2.symm.trans this

theorem tryStoreIntermediateKey_spec {a : Nat} {F : Prop} (x : Ctx) (ik sk : Nat) (ci : Int) (mi : Nat) (hci : ci ≠ 0)
    (m0 : KeyMeta) (hm0 : m0.kid = .sk) :
    Spec a F (fun w => KeyIs w ik ci mi ∧ GoodKeyAt w m0 sk) (tryStoreIntermediateKey x ik sk)
      (fun b w => (b = true → GoodKeyAt w ⟨x.ikId, ci⟩ ik) ∧
        (b = false → F → ∃ r', r' ∈ w.store ∧ r'.kid = x.ikId)) := by
  have hext := tryStoreIntermediateKey_ext x ik sk
  apply Spec.pre (P := fun w => ∃ skm, KeyIs w ik ci mi ∧ KeyIs w sk m0.created skm ∧ Wraps w.store m0 skm)
  · intro w _ h
    obtain ⟨skm, h1, h2⟩ := h.2.keyIs
    exact ⟨skm, h.1, h1, h2⟩
  apply Spec.exists_pre hext; intro skm
  unfold tryStoreIntermediateKey
  apply Spec.bind_frame (keyObj_spec ik ci mi fun w _ h => h.1) (fun _ _ h => h) (by stable_auto)
  intro io
  apply Spec.bind_frame (keyObj_spec sk m0.created skm fun w _ h => h.1.2.1) (fun _ _ h => h) (by stable_auto)
  intro so
  have hwk : ∀ ikm, Extends (withKey sk fun skm => aeadEncrypt (.key ikm) skm) :=
    fun ikm => withKey_ext _ _ fun skm => aeadEncrypt_ext _ _
  apply Spec.bind_frame (G1 := fun enc _ => ∃ n, enc = .enc skm n (.key mi))
    (P' := fun w => KeyIs w ik ci mi ∧ KeyIs w sk m0.created skm) _ (fun w _ h => ⟨h.1.1.1, h.1.1.2.1⟩)
    (by stable_auto)
  · intro enc
    apply Spec.of_pre (C := (io.created = ci ∧ so.created = m0.created) ∧ ∃ n, enc = .enc skm n (.key mi)) (msStore_ext _)
      (fun w _ h => ⟨⟨h.1.1.2.1, h.1.2.1⟩, h.2⟩)
    intro ⟨⟨hio, hso⟩, n, henc⟩
    apply Spec.pre (P := fun w => KeyIs w ik ci mi ∧ Wraps w.store m0 skm) (fun w _ h => ⟨h.1.1.1.1, h.1.1.1.2.2⟩)
    have hm0' : (⟨.sk, so.created⟩ : KeyMeta) = m0 := by cases m0; simp only at hm0 hso; rw [hm0, hso]
    refine Spec.frame (msStore_spec _) (fun w _ h => ⟨?_, by simpa [hio] using hci⟩) (by stable_auto)
      fun b w _ hp h => ⟨fun hb => ?_, fun hb hF => ?_⟩
    · unfold RowGood
      dsimp only [Ctx.ikId]
      exact ⟨so.created, skm, n, mi, rfl, henc, hm0' ▸ h.2⟩
    · refine GoodKeyAt.of_keyIs hp.1 ⟨_, h.1 hb, rfl, hio, ?_⟩
      unfold RowMat; dsimp only [Ctx.ikId]; exact ⟨skm, n, henc⟩
    · obtain ⟨r', h1, h2, _⟩ := h.2 hb hF
      exact ⟨r', h1, h2⟩
  · exact Spec.withKey mi (fun w _ h => ⟨ci, h.1⟩) hwk
      (Spec.withKey skm (fun w _ h => ⟨_, h.2⟩) (fun skm => aeadEncrypt_ext _ _) (aeadEncrypt_spec _ _))

theorem getValidIntermediateKey_spec {a : Nat} {F : Prop} (x : Ctx) (sk : Nat) (r : Row) (rl : Bool)
    (hrk : r.kid = x.ikId) :
    Spec a F (fun w => r ∈ w.store ∧ GoodFor ⟨.sk, 0⟩ sk w) (getValidIntermediateKey x sk r rl)
      (fun ko w => ∀ k, ko = some k → GoodKeyAt w ⟨r.kid, r.created⟩ k) := by
  unfold getValidIntermediateKey
  apply Spec.bind_frame (keyObj_spec' sk) (fun _ _ _ => trivial) (by stable_auto)
  intro so
  apply Spec.pre (P := fun w => r ∈ w.store ∧ GoodFor ⟨.sk, 0⟩ sk w) (fun w _ h => h.1)
  apply Spec.bind_frame Spec.get (fun _ _ _ => trivial) (by stable_auto)
  intro w0
  apply Spec.ite <;> intro _
  · exact Spec.pure _ fun w _ _ k hk => by cases hk
  · apply Spec.pre (P := fun w => r ∈ w.store ∧ GoodFor ⟨.sk, 0⟩ sk w) (fun w _ h => h.1)
    apply Spec.bind (intermediateKeyFromEKR_spec x sk r rl hrk).tryM
    intro res
    split
    · exact Spec.pure _ fun w _ h k hk => by cases hk; exact h.1 _ rfl
    · exact Spec.pure _ fun w _ _ k hk => by cases hk

theorem createIntermediateKey_spec {a : Nat} {F : Prop} (x : Ctx) (rl : Bool) :
    Spec a F (TimeOK x) (createIntermediateKey x rl) (GoodFor ⟨x.ikId, 0⟩) := by
  unfold createIntermediateKey
  apply Spec.bind_frame (getOrLoadLatest_spec x.skCache .sk _ _ _ (fun _ => loadLatestOrCreateSystemKey_ext x)
    (Stable.timeOK x) (loadLatestOrCreateSystemKey_spec x)) (fun _ _ h => h) (Stable.timeOK x)
  intro sk
  refine Spec.finallyDo ?_ (fun _ => Stable.goodFor _ _) (keyRelease_spec sk)
  apply Spec.bind_frame (generateKey_spec x) (fun _ _ h => h.1) (by stable_auto)
  intro ik
  have hext : Extends (do
      match ← tryM (tryStoreIntermediateKey x ik sk) with
      | .ok true => pure ik
      | .ok false =>
        keyCloseRaw ik
        let r ← mustLoadLatest x.ikId
        intermediateKeyFromEKR x sk r rl
      | .error e =>
        keyCloseRaw ik
        throw e) := by
    ext_auto [tryStoreIntermediateKey_ext, keyCloseRaw_ext, mustLoadLatest_ext, intermediateKeyFromEKR_ext]
  apply Spec.pre (P := fun w => ∃ ci mi, ∃ m0 : KeyMeta, (ci ≠ 0 ∧ m0.kid = .sk) ∧ KeyIs w ik ci mi ∧ GoodKeyAt w m0 sk)
  · intro w _ h
    obtain ⟨ci, mi, hki, hci⟩ := h.2
    obtain ⟨m0, hm0, _, hg⟩ := h.1.2
    exact ⟨ci, mi, m0, ⟨hci, hm0⟩, hki, hg⟩
  apply Spec.exists_pre hext; intro ci
  apply Spec.exists_pre hext; intro mi
  apply Spec.exists_pre hext; intro m0
  apply Spec.of_pre (C := ci ≠ 0 ∧ m0.kid = .sk) hext (fun w _ h => h.1)
  intro ⟨hci, hm0⟩
  apply Spec.pre (P := fun w => KeyIs w ik ci mi ∧ GoodKeyAt w m0 sk) (fun w _ h => h.2)
  apply Spec.bind_frame (tryStoreIntermediateKey_spec x ik sk ci mi hci m0 hm0).tryM (fun _ _ h => h) (by stable_auto)
  intro res
  split
  · exact Spec.pure _ fun w _ h => ((h.2.1 _ rfl).1 rfl).goodFor0
  · apply Spec.pre (P := fun w => GoodKeyAt w m0 sk ∧ (F → ∃ r', r' ∈ w.store ∧ r'.kid = x.ikId))
      (fun w _ h => ⟨h.1.2, fun hF => (h.2.1 _ rfl).2 rfl hF⟩)
    apply Spec.bind_frame (keyCloseRaw_spec ik) (fun _ _ _ => trivial) (by stable_auto)
    intro _
    apply Spec.pre (P := fun w => GoodKeyAt w m0 sk ∧ (F → ∃ r', r' ∈ w.store ∧ r'.kid = x.ikId)) (fun w _ h => h.1)
    apply Spec.bind_frame (mustLoadLatest_spec x.ikId) (fun w _ h => h.2) (by stable_auto)
    intro r
    apply Spec.of_pre (C := r.kid = x.ikId) (intermediateKeyFromEKR_ext x sk r rl) (fun w _ h => h.2.2)
    intro hrk
    refine (intermediateKeyFromEKR_spec x sk r rl hrk).weaken
      (fun w _ h => ⟨h.2.1, ⟨m0, hm0, fun hz => absurd rfl hz, h.1.1⟩⟩) fun k w _ h => ?_
    have := h.goodFor0
    rw [hrk] at this
    exact this
  · apply Spec.of_mode (by ext_auto [keyCloseRaw_ext])
    · intro hF
      apply Spec.pre (P := fun _ => False) (fun w _ h => by obtain ⟨v, hv⟩ := h.2.2 hF; cases hv)
      exact ⟨by ext_auto [keyCloseRaw_ext], fun w _ _ _ h => h.elim⟩
    · intro hF
      apply Spec.bind (keyCloseRaw_spec ik)
      intro _
      exact Spec.throw _ fun _ _ _ => hF

theorem ikId_eq (x : Ctx) : x.ikId = .ik x.part := rfl

theorem loadLatestOrCreateIntermediateKey_spec {a : Nat} {F : Prop} (x : Ctx) (rl : Bool) :
    Spec a F (TimeOK x) (loadLatestOrCreateIntermediateKey x rl) (GoodFor ⟨x.ikId, 0⟩) := by
  unfold loadLatestOrCreateIntermediateKey
  apply Spec.bind_frame (msLoadLatest_spec x.ikId) (fun _ _ _ => trivial) (Stable.timeOK x)
  intro ro
  apply Spec.pre (P := fun w => TimeOK x w ∧ ∀ r, ro = some r → r ∈ w.store ∧ r.kid = x.ikId)
    (fun w _ h => ⟨h.1, fun r hr => latestRow_some (hr ▸ h.2).symm⟩)
  apply Spec.bind_frame Spec.get (fun _ _ _ => trivial) (by stable_auto)
  intro w0
  split
  · exact (createIntermediateKey_spec x rl).pre fun w _ h => h.1.1
  · rename_i r
    apply Spec.pre (P := fun w => TimeOK x w ∧ r ∈ w.store ∧ r.kid = x.ikId) (fun w _ h => ⟨h.1.1, h.1.2 r rfl⟩)
    apply Spec.ite <;> intro _
    · exact (createIntermediateKey_spec x rl).pre fun w _ h => h.1
    · have hext : Extends (match r.parent with
          | none => throw .noParent
          | some p => do
            match ← tryM (getOrLoadSystemKey x p) with
            | .error _ => createIntermediateKey x rl
            | .ok sk =>
              finallyDo (do
                match ← getValidIntermediateKey x sk r rl with
                | some ik => pure ik
                | none => createIntermediateKey x rl) (keyRelease sk)) := by
        ext_auto [createIntermediateKey_ext, getOrLoadSystemKey_ext, getValidIntermediateKey_ext, keyRelease_ext]
      apply Spec.of_pre (C := r.kid = x.ikId ∧ ∃ c, r.parent = some ⟨.sk, c⟩ ∧ c ≠ 0) hext
      · intro w hi h
        obtain ⟨c, skm, n, mat, h1, h2⟩ := hi.ikRow h.2.1 (h.2.2.trans (ikId_eq x))
        exact ⟨h.2.2, c, h1.1, h1.2.2⟩
      intro ⟨hrk, c, hpar, hcz⟩
      rw [hpar]
      dsimp only
      apply Spec.bind_frame (G1 := fun res w => ∀ sk, res = .ok sk → GoodFor ⟨.sk, 0⟩ sk w)
        (P' := fun w => r ∈ w.store) _ (fun w _ h => h.2.1) (by stable_auto)
      · intro res
        split
        · exact (createIntermediateKey_spec x rl).pre fun w _ h => h.1.1
        · rename_i sk
          refine Spec.finallyDo ?_ (fun _ => Stable.goodFor _ _) (keyRelease_spec sk)
          apply Spec.pre (P := fun w => TimeOK x w ∧ r ∈ w.store ∧ GoodFor ⟨.sk, 0⟩ sk w)
            (fun w _ h => ⟨h.1.1, h.1.2.1, h.2 sk rfl⟩)
          apply Spec.bind_frame (getValidIntermediateKey_spec x sk r rl hrk) (fun w _ h => h.2) (by stable_auto)
          intro iko
          split
          · rename_i ik
            refine Spec.pure _ fun w _ h => ?_
            have := (h.2 ik rfl).goodFor0
            rw [hrk] at this; exact this
          · exact (createIntermediateKey_spec x rl).pre fun w _ h => h.1.1
      · refine Spec.weaken (getOrLoadSystemKey_spec x ⟨.sk, c⟩ rfl).tryM ?_ ?_
        · intro w hi hr _
          obtain ⟨c', skm, n, mat, h1, h2⟩ := hi.ikRow hr (hrk.trans (ikId_eq x))
          rw [hpar] at h1
          cases h1.1
          exact ⟨skm, h2⟩
        · intro res w _ h sk hsk
          have := GoodFor.of_nz hcz (h.1 sk hsk)
          exact this.goodFor0

theorem loadIntermediateKey_spec {a : Nat} {F : Prop} (x : Ctx) (m : KeyMeta) (rl : Bool) (hk : m.kid = x.ikId) :
    Spec a F (fun w => F → ∃ mat, Wraps w.store m mat) (loadIntermediateKey x m rl) (GoodFor m) := by
  unfold loadIntermediateKey
  apply Spec.bind_frame (msLoad_spec m) (fun _ _ _ => trivial) (by stable_auto)
  intro ro
  split
  · apply Spec.throw
    intro w _ h hF
    obtain ⟨mat, r, hr, h1, h2, _⟩ := h.1 hF
    exact findRow_none h.2.symm r hr ⟨h1, h2⟩
  · rename_i r
    apply Spec.pre (P := fun w => r ∈ w.store ∧ (r.kid = x.ikId ∧ r.created = m.created))
      (fun w _ h => by have := findRow_some h.2.symm; exact ⟨this.1, this.2.1.trans hk, this.2.2⟩)
    have hext : Extends (match r.parent with
        | none => throw .noParent
        | some p => do
          let sk ← getOrLoadSystemKey x p
          finallyDo (intermediateKeyFromEKR x sk r rl) (keyRelease sk)) := by
      ext_auto [getOrLoadSystemKey_ext, intermediateKeyFromEKR_ext, keyRelease_ext]
    apply Spec.of_pre (C := (r.kid = x.ikId ∧ r.created = m.created) ∧ ∃ c, r.parent = some ⟨.sk, c⟩ ∧ c ≠ 0) hext
    · intro w hi h
      obtain ⟨c, skm, n, mat, h1, h2⟩ := hi.ikRow h.1 (h.2.1.trans (ikId_eq x))
      exact ⟨h.2, c, h1.1, h1.2.2⟩
    intro ⟨⟨hrk, hrc⟩, c, hpar, hcz⟩
    rw [hpar]
    dsimp only
    apply Spec.pre (P := fun w => r ∈ w.store) (fun w _ h => h.1)
    apply Spec.bind_frame (getOrLoadSystemKey_spec x ⟨.sk, c⟩ rfl) _ (by stable_auto)
    · intro sk
      refine Spec.finallyDo ?_ (fun _ => Stable.goodFor _ _) (keyRelease_spec sk)
      refine (intermediateKeyFromEKR_spec x sk r rl hrk).weaken
        (fun w _ h => ⟨h.1, (GoodFor.of_nz hcz h.2).goodFor0⟩) fun k w _ h => ?_
      exact (h.congr (m' := m) (hrk.trans hk.symm) hrc).goodFor
    · intro w hi hr _
      obtain ⟨c', skm, n, mat, h1, h2⟩ := hi.ikRow hr (hrk.trans (ikId_eq x))
      rw [hpar] at h1
      cases h1.1
      exact ⟨skm, h2⟩

end AsherahVerif.Env
