import AsherahVerif.Proofs.EnvCohSK
/-
Specifications of the intermediate-key half of envelope.go.
-/
set_option linter.unusedVariables false
namespace AsherahVerif.Env

/-- what `Inv` says about a stored intermediate-key row. -/
theorem Inv.ikRow {w : World} (hi : Inv w) {r : Row} {p : Nat} (hr : r ∈ w.store) (hk : r.kid = .ik p) :
    ∃ c skm n mat, (r.parent = some ⟨.sk, c⟩ ∧ r.enc = .enc skm n (.key mat) ∧ c ≠ 0) ∧ Wraps w.store ⟨.sk, c⟩ skm := by
  have := hi.wf.good r hr
  unfold RowGood at this; rw [hk] at this; dsimp only at this
  obtain ⟨c, skm, n, mat, h1, h2, h3⟩ := this
  refine ⟨c, skm, n, mat, ⟨h1, h2, ?_⟩, h3⟩
  obtain ⟨r', hr', _, hc', _⟩ := h3
  have hc'' : r'.created = c := hc'
  rw [← hc'']; exact hi.wf.nz r' hr'

/-- the decrypt-and-wrap body of `intermediateKeyFromEKR`, given the right system key. -/
theorem ikBody_cspec {a : Nat} {F : Prop} (r : Row) (sk' : Nat) (p : Nat) (c : Int) (skm n mat : Nat)
    (hk : r.kid = .ik p) (henc : r.enc = .enc skm n (.key mat)) :
    CSpec a F (fun w => r ∈ w.store ∧ Wraps w.store ⟨.sk, c⟩ skm ∧ GoodKeyAt w ⟨.sk, c⟩ sk')
      (do
        let pt ← withKey sk' fun skm => aeadDecrypt r.enc skm
        match pt with
        | .key m =>
          let b ← newBuf m
          let s ← secretNew b m
          newKeyObj r.created r.revoked m s
        | .payload _ => throw .aead)
      (fun k w => GoodKeyAt w ⟨r.kid, r.created⟩ k) := by
  apply CSpec.bind_frame (P' := fun w => Wraps w.store ⟨.sk, c⟩ skm ∧ GoodKeyAt w ⟨.sk, c⟩ sk')
    (G1 := fun pt _ => ∃ n', r.enc = .enc skm n' pt) _ (fun w _ h => h.2) (by stable_auto)
  · intro pt
    apply CSpec.of_pre (C := pt = .key mat) (by ext_auto [secretNew_ext])
      (fun w _ h => by obtain ⟨n', hn'⟩ := h.2; rw [henc] at hn'; cases hn'; rfl)
    intro hpt
    subst hpt
    dsimp only
    apply CSpec.pre (P := fun w => r ∈ w.store) (fun w _ h => h.1.1)
    apply CSpec.bind_frame (newBuf_cspec mat) (fun _ _ _ => trivial) (Stable.mem_store r)
    intro b
    apply CSpec.pre (P := fun w => r ∈ w.store) (fun w _ h => h.1)
    apply CSpec.bind_frame (secretNew_cspec b mat) (fun _ _ _ => trivial) (Stable.mem_store r)
    intro s
    apply CSpec.pre (P := fun w => r ∈ w.store) (fun w _ h => h.1)
    refine CSpec.frame (newKeyObj_cspec r.created r.revoked mat s) (fun _ _ _ => trivial) (Stable.mem_store r)
      fun k w _ hr h => GoodKeyAt.of_keyIs h ⟨r, hr, rfl, rfl, ?_⟩
    unfold RowMat; rw [hk]; exact ⟨skm, n, henc⟩
  · refine CSpec.withKey skm (fun w hi h => ?_) (fun m => aeadDecrypt_ext _ _)
      ((aeadDecrypt_spec r.enc skm).pre fun w _ _ _ => ⟨n, _, henc⟩)
    obtain ⟨mat', hki, hw⟩ := h.2.keyIs
    have := Wraps.unique hi.wf hw h.1
    subst this
    exact ⟨_, hki⟩

theorem pure_bind_M {α β : Type} (v : α) (f : α → M β) : (pure v >>= f : M β) = f v := rfl

theorem ikTail_cspec {a : Nat} {F : Prop} (r : Row) (sk' : Nat) (loaded rl : Bool) (p : Nat) (c : Int) (skm n mat : Nat)
    (hk : r.kid = .ik p) (henc : r.enc = .enc skm n (.key mat)) :
    CSpec a F (fun w => r ∈ w.store ∧ Wraps w.store ⟨.sk, c⟩ skm ∧ GoodKeyAt w ⟨.sk, c⟩ sk')
      (if loaded && rl then finallyDo (do
        let pt ← withKey sk' fun skm => aeadDecrypt r.enc skm
        match pt with
        | .key m =>
          let b ← newBuf m
          let s ← secretNew b m
          newKeyObj r.created r.revoked m s
        | .payload _ => throw .aead) (keyRelease sk')
       else (do
        let pt ← withKey sk' fun skm => aeadDecrypt r.enc skm
        match pt with
        | .key m =>
          let b ← newBuf m
          let s ← secretNew b m
          newKeyObj r.created r.revoked m s
        | .payload _ => throw .aead))
      (fun k w => GoodKeyAt w ⟨r.kid, r.created⟩ k) := by
  apply CSpec.ite <;> intro _
  · exact CSpec.finallyDo (ikBody_cspec r sk' p c skm n mat hk henc) (fun _ => Stable.goodKeyAt _ _) (keyRelease_cspec sk')
  · exact ikBody_cspec r sk' p c skm n mat hk henc

theorem intermediateKeyFromEKR_cspec {a : Nat} {F : Prop} (x : Ctx) (sk : Nat) (r : Row) (rl : Bool)
    (hrk : r.kid = x.ikId) :
    CSpec a F (fun w => r ∈ w.store ∧ GoodFor ⟨.sk, 0⟩ sk w) (intermediateKeyFromEKR x sk r rl)
      (fun k w => GoodKeyAt w ⟨r.kid, r.created⟩ k) := by
  have hext := intermediateKeyFromEKR_ext x sk r rl
  apply CSpec.pre (P := fun w => ∃ c skm n mat, (r.parent = some ⟨.sk, c⟩ ∧ r.enc = .enc skm n (.key mat) ∧ c ≠ 0) ∧
      ∃ m0 : KeyMeta, m0.kid = .sk ∧ (r ∈ w.store ∧ Wraps w.store ⟨.sk, c⟩ skm ∧ GoodKeyAt w m0 sk))
  · intro w hi h
    obtain ⟨c, skm, n, mat, h1, h2⟩ := hi.ikRow h.1 hrk
    obtain ⟨m0, hm0, _, hg⟩ := h.2
    exact ⟨c, skm, n, mat, h1, m0, hm0, h.1, h2, hg⟩
  apply CSpec.exists_pre hext; intro c
  apply CSpec.exists_pre hext; intro skm
  apply CSpec.exists_pre hext; intro n
  apply CSpec.exists_pre hext; intro mat
  apply CSpec.of_pre (C := r.parent = some ⟨.sk, c⟩ ∧ r.enc = .enc skm n (.key mat) ∧ c ≠ 0) hext (fun w _ h => h.1)
  intro ⟨hpar, henc, hcz⟩
  apply CSpec.pre (P := fun w => ∃ m0 : KeyMeta, m0.kid = .sk ∧ (r ∈ w.store ∧ Wraps w.store ⟨.sk, c⟩ skm ∧ GoodKeyAt w m0 sk))
    (fun w _ h => h.2)
  apply CSpec.exists_pre hext; intro m0
  apply CSpec.of_pre (C := m0.kid = .sk) hext (fun w _ h => h.1)
  intro hm0
  apply CSpec.pre (P := fun w => r ∈ w.store ∧ Wraps w.store ⟨.sk, c⟩ skm ∧ GoodKeyAt w m0 sk) (fun w _ h => h.2)
  unfold intermediateKeyFromEKR
  apply CSpec.bind_frame (keyObj_created_spec sk m0.created fun w _ h => h.2.2.keyIs') (fun _ _ h => h) (by stable_auto)
  intro so
  rw [hpar]
  dsimp only
  cases hrk' : x.ikId with
  | sk => unfold Ctx.ikId at hrk'; cases hrk'
  | ik p =>
    have hk : r.kid = .ik p := hrk.trans hrk'
    apply CSpec.ite <;> intro hne
    · apply CSpec.bind_frame (getOrLoadSystemKey_cspec x ⟨.sk, c⟩ rfl) (fun w _ h _ => ⟨skm, h.1.2.1⟩) (by stable_auto)
      intro l
      rw [pure_bind_M]
      exact (ikTail_cspec r l true rl p c skm n mat hk henc).pre
        fun w _ h => ⟨h.1.1.1, h.1.1.2.1, GoodFor.of_nz hcz h.2⟩
    · rw [pure_bind_M]
      refine (ikTail_cspec r sk false rl p c skm n mat hk henc).pre
        fun w _ h => ⟨h.1.1, h.1.2.1, h.1.2.2.congr hm0 ?_⟩
      have := Classical.not_not.mp hne
      exact h.2.symm.trans this

theorem tryStoreIntermediateKey_cspec {a : Nat} {F : Prop} (x : Ctx) (ik sk : Nat) (ci : Int) (mi : Nat) (hci : ci ≠ 0)
    (m0 : KeyMeta) (hm0 : m0.kid = .sk) :
    CSpec a F (fun w => KeyIs w ik ci mi ∧ GoodKeyAt w m0 sk) (tryStoreIntermediateKey x ik sk)
      (fun b w => (b = true → GoodKeyAt w ⟨x.ikId, ci⟩ ik) ∧
        (b = false → F → ∃ r', r' ∈ w.store ∧ r'.kid = x.ikId)) := by
  have hext := tryStoreIntermediateKey_ext x ik sk
  apply CSpec.pre (P := fun w => ∃ skm, KeyIs w ik ci mi ∧ KeyIs w sk m0.created skm ∧ Wraps w.store m0 skm)
  · intro w _ h
    obtain ⟨skm, h1, h2⟩ := h.2.keyIs
    exact ⟨skm, h.1, h1, h2⟩
  apply CSpec.exists_pre hext; intro skm
  unfold tryStoreIntermediateKey
  apply CSpec.bind_frame (keyObj_spec ik ci mi fun w _ h => h.1) (fun _ _ h => h) (by stable_auto)
  intro io
  apply CSpec.bind_frame (keyObj_spec sk m0.created skm fun w _ h => h.1.2.1) (fun _ _ h => h) (by stable_auto)
  intro so
  have hwk : ∀ ikm, Extends (withKey sk fun skm => aeadEncrypt (.key ikm) skm) :=
    fun ikm => withKey_ext _ _ fun skm => aeadEncrypt_ext _ _
  apply CSpec.bind_frame (G1 := fun enc _ => ∃ n, enc = .enc skm n (.key mi))
    (P' := fun w => KeyIs w ik ci mi ∧ KeyIs w sk m0.created skm) _ (fun w _ h => ⟨h.1.1.1, h.1.1.2.1⟩)
    (by stable_auto)
  · intro enc
    apply CSpec.of_pre (C := (io.created = ci ∧ so.created = m0.created) ∧ ∃ n, enc = .enc skm n (.key mi)) (msStore_ext _)
      (fun w _ h => ⟨⟨h.1.1.2.1, h.1.2.1⟩, h.2⟩)
    intro ⟨⟨hio, hso⟩, n, henc⟩
    apply CSpec.pre (P := fun w => KeyIs w ik ci mi ∧ Wraps w.store m0 skm) (fun w _ h => ⟨h.1.1.1.1, h.1.1.1.2.2⟩)
    have hm0' : (⟨.sk, so.created⟩ : KeyMeta) = m0 := by cases m0; simp only at hm0 hso; rw [hm0, hso]
    refine CSpec.frame (msStore_spec _) (fun w _ h => ⟨?_, by simpa [hio] using hci⟩) (by stable_auto)
      fun b w _ hp h => ⟨fun hb => ?_, fun hb hF => ?_⟩
    · unfold RowGood
      dsimp only [Ctx.ikId]
      exact ⟨so.created, skm, n, mi, rfl, henc, hm0' ▸ h.2⟩
    · refine GoodKeyAt.of_keyIs hp.1 ⟨_, h.1 hb, rfl, hio, ?_⟩
      unfold RowMat; dsimp only [Ctx.ikId]; exact ⟨skm, n, henc⟩
    · obtain ⟨r', h1, h2, _⟩ := h.2 hb hF
      exact ⟨r', h1, h2⟩
  · exact CSpec.withKey mi (fun w _ h => ⟨ci, h.1⟩) hwk
      (CSpec.withKey skm (fun w _ h => ⟨_, h.2⟩) (fun skm => aeadEncrypt_ext _ _) (aeadEncrypt_spec _ _))

theorem getValidIntermediateKey_cspec {a : Nat} {F : Prop} (x : Ctx) (sk : Nat) (r : Row) (rl : Bool)
    (hrk : r.kid = x.ikId) :
    CSpec a F (fun w => r ∈ w.store ∧ GoodFor ⟨.sk, 0⟩ sk w) (getValidIntermediateKey x sk r rl)
      (fun ko w => ∀ k, ko = some k → GoodKeyAt w ⟨r.kid, r.created⟩ k) := by
  unfold getValidIntermediateKey
  apply CSpec.bind_frame (keyObj_spec' sk) (fun _ _ _ => trivial) (by stable_auto)
  intro so
  apply CSpec.pre (P := fun w => r ∈ w.store ∧ GoodFor ⟨.sk, 0⟩ sk w) (fun w _ h => h.1)
  apply CSpec.bind_frame CSpec.get (fun _ _ _ => trivial) (by stable_auto)
  intro w0
  apply CSpec.ite <;> intro _
  · exact CSpec.pure _ fun w _ _ k hk => by cases hk
  · apply CSpec.pre (P := fun w => r ∈ w.store ∧ GoodFor ⟨.sk, 0⟩ sk w) (fun w _ h => h.1)
    apply CSpec.bind (intermediateKeyFromEKR_cspec x sk r rl hrk).tryM
    intro res
    split
    · exact CSpec.pure _ fun w _ h k hk => by cases hk; exact h.1 _ rfl
    · exact CSpec.pure _ fun w _ _ k hk => by cases hk

theorem createIntermediateKey_cspec {a : Nat} {F : Prop} (x : Ctx) (rl : Bool) :
    CSpec a F (TimeOK x) (createIntermediateKey x rl) (GoodFor ⟨x.ikId, 0⟩) := by
  unfold createIntermediateKey
  apply CSpec.bind_frame (getOrLoadLatest_cspec x.skCache .sk _ _ _ (fun _ => loadLatestOrCreateSystemKey_ext x)
    (Stable.timeOK x) (loadLatestOrCreateSystemKey_cspec x)) (fun _ _ h => h) (Stable.timeOK x)
  intro sk
  refine CSpec.finallyDo ?_ (fun _ => Stable.goodFor _ _) (keyRelease_cspec sk)
  apply CSpec.bind_frame (generateKey_cspec x) (fun _ _ h => h.1) (by stable_auto)
  intro ik
  have hext : Extends (do
      match ← tryM (tryStoreIntermediateKey x ik sk) with
      | .ok true => pure ik
      | .ok false =>
        keyCloseRaw ik
        let r ← mustLoadLatest x.ikId
        intermediateKeyFromEKR x sk r rl
      | .error e =>
        keyCloseRaw ik
        throw e) := by
    ext_auto [tryStoreIntermediateKey_ext, keyCloseRaw_ext, mustLoadLatest_ext, intermediateKeyFromEKR_ext]
  apply CSpec.pre (P := fun w => ∃ ci mi, ∃ m0 : KeyMeta, (ci ≠ 0 ∧ m0.kid = .sk) ∧ KeyIs w ik ci mi ∧ GoodKeyAt w m0 sk)
  · intro w _ h
    obtain ⟨ci, mi, hki, hci⟩ := h.2
    obtain ⟨m0, hm0, _, hg⟩ := h.1.2
    exact ⟨ci, mi, m0, ⟨hci, hm0⟩, hki, hg⟩
  apply CSpec.exists_pre hext; intro ci
  apply CSpec.exists_pre hext; intro mi
  apply CSpec.exists_pre hext; intro m0
  apply CSpec.of_pre (C := ci ≠ 0 ∧ m0.kid = .sk) hext (fun w _ h => h.1)
  intro ⟨hci, hm0⟩
  apply CSpec.pre (P := fun w => KeyIs w ik ci mi ∧ GoodKeyAt w m0 sk) (fun w _ h => h.2)
  apply CSpec.bind_frame (tryStoreIntermediateKey_cspec x ik sk ci mi hci m0 hm0).tryM (fun _ _ h => h) (by stable_auto)
  intro res
  split
  · exact CSpec.pure _ fun w _ h => ((h.2.1 _ rfl).1 rfl).goodFor0
  · apply CSpec.pre (P := fun w => GoodKeyAt w m0 sk ∧ (F → ∃ r', r' ∈ w.store ∧ r'.kid = x.ikId))
      (fun w _ h => ⟨h.1.2, fun hF => (h.2.1 _ rfl).2 rfl hF⟩)
    apply CSpec.bind_frame (keyCloseRaw_cspec ik) (fun _ _ _ => trivial) (by stable_auto)
    intro _
    apply CSpec.pre (P := fun w => GoodKeyAt w m0 sk ∧ (F → ∃ r', r' ∈ w.store ∧ r'.kid = x.ikId)) (fun w _ h => h.1)
    apply CSpec.bind_frame (mustLoadLatest_spec x.ikId) (fun w _ h => h.2) (by stable_auto)
    intro r
    apply CSpec.of_pre (C := r.kid = x.ikId) (intermediateKeyFromEKR_ext x sk r rl) (fun w _ h => h.2.2)
    intro hrk
    refine (intermediateKeyFromEKR_cspec x sk r rl hrk).weaken
      (fun w _ h => ⟨h.2.1, ⟨m0, hm0, fun hz => absurd rfl hz, h.1.1⟩⟩) fun k w _ h => ?_
    have := h.goodFor0
    rw [hrk] at this
    exact this
  · apply CSpec.of_mode (by ext_auto [keyCloseRaw_ext])
    · intro hF
      apply CSpec.pre (P := fun _ => False) (fun w _ h => by obtain ⟨v, hv⟩ := h.2.2 hF; cases hv)
      exact ⟨by ext_auto [keyCloseRaw_ext], fun w _ _ _ h => h.elim⟩
    · intro hF
      apply CSpec.bind (keyCloseRaw_cspec ik)
      intro _
      exact CSpec.throw _ fun _ _ _ => hF

theorem ikId_eq (x : Ctx) : x.ikId = .ik x.part := rfl

theorem loadLatestOrCreateIntermediateKey_cspec {a : Nat} {F : Prop} (x : Ctx) (rl : Bool) :
    CSpec a F (TimeOK x) (loadLatestOrCreateIntermediateKey x rl) (GoodFor ⟨x.ikId, 0⟩) := by
  unfold loadLatestOrCreateIntermediateKey
  apply CSpec.bind_frame (msLoadLatest_spec x.ikId) (fun _ _ _ => trivial) (Stable.timeOK x)
  intro ro
  apply CSpec.pre (P := fun w => TimeOK x w ∧ ∀ r, ro = some r → r ∈ w.store ∧ r.kid = x.ikId)
    (fun w _ h => ⟨h.1, fun r hr => latestRow_some (hr ▸ h.2).symm⟩)
  apply CSpec.bind_frame CSpec.get (fun _ _ _ => trivial) (by stable_auto)
  intro w0
  split
  · exact (createIntermediateKey_cspec x rl).pre fun w _ h => h.1.1
  · rename_i r
    apply CSpec.pre (P := fun w => TimeOK x w ∧ r ∈ w.store ∧ r.kid = x.ikId) (fun w _ h => ⟨h.1.1, h.1.2 r rfl⟩)
    apply CSpec.ite <;> intro _
    · exact (createIntermediateKey_cspec x rl).pre fun w _ h => h.1
    · have hext : Extends (match r.parent with
          | none => throw .noParent
          | some p => do
            match ← tryM (getOrLoadSystemKey x p) with
            | .error _ => createIntermediateKey x rl
            | .ok sk =>
              finallyDo (do
                match ← getValidIntermediateKey x sk r rl with
                | some ik => pure ik
                | none => createIntermediateKey x rl) (keyRelease sk)) := by
        ext_auto [createIntermediateKey_ext, getOrLoadSystemKey_ext, getValidIntermediateKey_ext, keyRelease_ext]
      apply CSpec.of_pre (C := r.kid = x.ikId ∧ ∃ c, r.parent = some ⟨.sk, c⟩ ∧ c ≠ 0) hext
      · intro w hi h
        obtain ⟨c, skm, n, mat, h1, h2⟩ := hi.ikRow h.2.1 (h.2.2.trans (ikId_eq x))
        exact ⟨h.2.2, c, h1.1, h1.2.2⟩
      intro ⟨hrk, c, hpar, hcz⟩
      rw [hpar]
      dsimp only
      apply CSpec.bind_frame (G1 := fun res w => ∀ sk, res = .ok sk → GoodFor ⟨.sk, 0⟩ sk w)
        (P' := fun w => r ∈ w.store) _ (fun w _ h => h.2.1) (by stable_auto)
      · intro res
        split
        · exact (createIntermediateKey_cspec x rl).pre fun w _ h => h.1.1
        · rename_i sk
          refine CSpec.finallyDo ?_ (fun _ => Stable.goodFor _ _) (keyRelease_cspec sk)
          apply CSpec.pre (P := fun w => TimeOK x w ∧ r ∈ w.store ∧ GoodFor ⟨.sk, 0⟩ sk w)
            (fun w _ h => ⟨h.1.1, h.1.2.1, h.2 sk rfl⟩)
          apply CSpec.bind_frame (getValidIntermediateKey_cspec x sk r rl hrk) (fun w _ h => h.2) (by stable_auto)
          intro iko
          split
          · rename_i ik
            refine CSpec.pure _ fun w _ h => ?_
            have := (h.2 ik rfl).goodFor0
            rw [hrk] at this; exact this
          · exact (createIntermediateKey_cspec x rl).pre fun w _ h => h.1.1
      · refine CSpec.weaken (getOrLoadSystemKey_cspec x ⟨.sk, c⟩ rfl).tryM ?_ ?_
        · intro w hi hr _
          obtain ⟨c', skm, n, mat, h1, h2⟩ := hi.ikRow hr (hrk.trans (ikId_eq x))
          rw [hpar] at h1
          cases h1.1
          exact ⟨skm, h2⟩
        · intro res w _ h sk hsk
          have := GoodFor.of_nz hcz (h.1 sk hsk)
          exact this.goodFor0

theorem loadIntermediateKey_cspec {a : Nat} {F : Prop} (x : Ctx) (m : KeyMeta) (rl : Bool) (hk : m.kid = x.ikId) :
    CSpec a F (fun w => F → ∃ mat, Wraps w.store m mat) (loadIntermediateKey x m rl) (GoodFor m) := by
  unfold loadIntermediateKey
  apply CSpec.bind_frame (msLoad_spec m) (fun _ _ _ => trivial) (by stable_auto)
  intro ro
  split
  · apply CSpec.throw
    intro w _ h hF
    obtain ⟨mat, r, hr, h1, h2, _⟩ := h.1 hF
    exact findRow_none h.2.symm r hr ⟨h1, h2⟩
  · rename_i r
    apply CSpec.pre (P := fun w => r ∈ w.store ∧ (r.kid = x.ikId ∧ r.created = m.created))
      (fun w _ h => by have := findRow_some h.2.symm; exact ⟨this.1, this.2.1.trans hk, this.2.2⟩)
    have hext : Extends (match r.parent with
        | none => throw .noParent
        | some p => do
          let sk ← getOrLoadSystemKey x p
          finallyDo (intermediateKeyFromEKR x sk r rl) (keyRelease sk)) := by
      ext_auto [getOrLoadSystemKey_ext, intermediateKeyFromEKR_ext, keyRelease_ext]
    apply CSpec.of_pre (C := (r.kid = x.ikId ∧ r.created = m.created) ∧ ∃ c, r.parent = some ⟨.sk, c⟩ ∧ c ≠ 0) hext
    · intro w hi h
      obtain ⟨c, skm, n, mat, h1, h2⟩ := hi.ikRow h.1 (h.2.1.trans (ikId_eq x))
      exact ⟨h.2, c, h1.1, h1.2.2⟩
    intro ⟨⟨hrk, hrc⟩, c, hpar, hcz⟩
    rw [hpar]
    dsimp only
    apply CSpec.pre (P := fun w => r ∈ w.store) (fun w _ h => h.1)
    apply CSpec.bind_frame (getOrLoadSystemKey_cspec x ⟨.sk, c⟩ rfl) _ (by stable_auto)
    · intro sk
      refine CSpec.finallyDo ?_ (fun _ => Stable.goodFor _ _) (keyRelease_cspec sk)
      refine (intermediateKeyFromEKR_cspec x sk r rl hrk).weaken
        (fun w _ h => ⟨h.1, (GoodFor.of_nz hcz h.2).goodFor0⟩) fun k w _ h => ?_
      exact (h.congr (m' := m) (hrk.trans hk.symm) hrc).goodFor
    · intro w hi hr _
      obtain ⟨c', skm, n, mat, h1, h2⟩ := hi.ikRow hr (hrk.trans (ikId_eq x))
      rw [hpar] at h1
      cases h1.1
      exact ⟨skm, h2⟩

end AsherahVerif.Env
