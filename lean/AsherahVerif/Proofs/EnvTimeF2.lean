import AsherahVerif.Proofs.EnvTimeF1
/-
Timed calculus under faults, part 2: the primitives under `J`, the invariant `A` (clock, token
bookkeeping, cache entries point to existing key objects, what the operation added to the store so
far), postconditions that absorb `Bad`, and the key-cache load paths generic in the loader.
-/
set_option linter.unusedVariables false
namespace AsherahVerif.Env.TimeF
open AsherahVerif.Env

/-! ### the nine token-consuming primitives keep `J` -/

theorem msLoad_tk (fl : List Fault) (m : KeyMeta) : Resp (TK fl) (msLoad m) := by
  refine prim_tk _ (fun f => do
    let w ← get
    if f ≠ .ok then
      logCall (.load m false true); throw .metastore
    else
      let r := findRow w.store m
      logCall (.load m r.isSome false)
      pure r) rfl ?_
  intro f w
  by_cases hf : f = .ok <;> simp [hf, logCall, throw, get, modify] <;> exact ⟨_, rfl, rfl⟩

theorem msLoadLatest_tk (fl : List Fault) (k : KeyId) : Resp (TK fl) (msLoadLatest k) := by
  refine prim_tk _ (fun f => do
    let w ← get
    if f ≠ .ok then
      logCall (.loadLatest k none true); throw .metastore
    else
      let r := latestRow w.store k
      logCall (.loadLatest k (r.map (·.created)) false)
      pure r) rfl ?_
  intro f w
  by_cases hf : f = .ok <;> simp [hf, logCall, throw, get, modify] <;> exact ⟨_, rfl, rfl⟩

theorem msStore_tk (fl : List Fault) (r : Row) : Resp (TK fl) (msStore r) := by
  refine prim_tk _ (fun f => do
    let w ← get
    let exists_ := (findRow w.store ⟨r.kid, r.created⟩).isSome
    match f with
    | .ok =>
      if exists_ then logCall (.store ⟨r.kid, r.created⟩ false); pure false
      else
        modify fun w => { w with store := w.store ++ [r] }
        logCall (.store ⟨r.kid, r.created⟩ true); pure true
    | .errw =>
      if !exists_ then modify fun w => { w with store := w.store ++ [r] }
      logCall (.store ⟨r.kid, r.created⟩ false); pure false
    | _ => logCall (.store ⟨r.kid, r.created⟩ false); pure false) rfl ?_
  intro f w
  cases f <;> simp only [bind_run, get_run] <;>
    cases (findRow w.store ⟨r.kid, r.created⟩).isSome <;> simp [logCall, modify] <;> exact ⟨_, rfl, rfl⟩

theorem secretNew_tk (fl : List Fault) (b m : Nat) : Resp (TK fl) (secretNew b m) := by
  refine prim_tk _ (fun f => do
    wipeBuf b
    if f ≠ .ok then logCall (.newSecret true); throw .alloc
    else
      logCall (.newSecret false)
      fun w => (.ok w.secrets.length, { w with secrets := w.secrets ++ [{ mat := m }] })) rfl ?_
  intro f w
  cases f <;> exact ⟨_, rfl, rfl⟩

theorem secretRandom_tk (fl : List Fault) : Resp (TK fl) secretRandom := by
  refine prim_tk _ (fun f => do
    if f ≠ .ok then logCall (.randSecret true); throw .alloc
    else
      logCall (.randSecret false)
      fun w => (.ok (w.secrets.length, w.mats),
                { w with secrets := w.secrets ++ [{ mat := w.mats }], mats := w.mats + 1 })) rfl ?_
  intro f w
  cases f <;> exact ⟨_, rfl, rfl⟩

theorem kmsEncrypt_tk (fl : List Fault) (m : Nat) : Resp (TK fl) (kmsEncrypt m) := by
  refine prim_tk _ (fun f => do
    if f ≠ .ok then logCall (.kmsEnc true); throw .kms
    else logCall (.kmsEnc false); pure (.kms m)) rfl ?_
  intro f w
  cases f <;> exact ⟨_, rfl, rfl⟩

theorem kmsDecrypt_tk (fl : List Fault) (c : Ct) : Resp (TK fl) (kmsDecrypt c) := by
  refine prim_tk _ (fun f => do
    if f ≠ .ok then logCall (.kmsDec true); throw .kms
    else match c with
      | .kms m => logCall (.kmsDec false); let b ← newBuf m; pure (b, m)
      | _ => logCall (.kmsDec true); throw .kms) rfl ?_
  intro f w
  cases f <;> cases c <;> exact ⟨_, rfl, rfl⟩

theorem aeadEncrypt_tk (fl : List Fault) (pt : Pt) (k : Nat) : Resp (TK fl) (aeadEncrypt pt k) := by
  refine prim_tk _ (fun f => do
    if f ≠ .ok then logCall (.aeadEnc k pt true); throw .aead
    else
      logCall (.aeadEnc k pt false)
      fun w => (.ok (.enc k w.nonces pt), { w with nonces := w.nonces + 1 })) rfl ?_
  intro f w
  cases f <;> exact ⟨_, rfl, rfl⟩

theorem aeadDecrypt_tk (fl : List Fault) (c : Ct) (k : Nat) : Resp (TK fl) (aeadDecrypt c k) := by
  refine prim_tk _ (fun f => do
    if f ≠ .ok then logCall (.aeadDec k none); throw .aead
    else match c with
      | .enc k' _ pt => if k' = k then logCall (.aeadDec k (some pt)); pure pt
                        else logCall (.aeadDec k none); throw .aead
      | _ => logCall (.aeadDec k none); throw .aead) rfl ?_
  intro f w
  cases f <;> cases c <;> try (exact ⟨_, rfl, rfl⟩)
  rename_i k' n pt
  by_cases hk : k' = k
  · subst hk
    exact ⟨.aeadDec k' (some pt), by simp [logCall, modify], by simp [logCall, modify]⟩
  · exact ⟨.aeadDec k none, by simp [hk, logCall, modify, throw], by simp [hk, logCall, modify, throw]⟩

instance (fl : List Fault) : GenF (TK fl) where
  same w w' h1 h2 := TK.of_same h1 h2
  msLoad := msLoad_tk fl
  msLoadLatest := msLoadLatest_tk fl
  msStore := msStore_tk fl
  secretNew := secretNew_tk fl
  secretRandom := secretRandom_tk fl
  kmsEncrypt := kmsEncrypt_tk fl
  kmsDecrypt := kmsDecrypt_tk fl
  aeadEncrypt := aeadEncrypt_tk fl
  aeadDecrypt := aeadDecrypt_tk fl

/-! ### postconditions that absorb `Bad` -/

/-- `Q` holds as soon as a `store` call was hit by a fault. -/
def BadQ (fl : List Fault) {α : Type} (Q : Except Err α → World → Prop) : Prop := ∀ r w, Bad fl w → Q r w

theorem badQ_base {fl : List Fault} {α : Type} (P : Except Err α → World → Prop) :
    BadQ fl (fun r w => Bad fl w ∨ P r w) := fun _ _ h => Or.inl h

theorem badQ_bind {fl : List Fault} {α β : Type} {f : α → M β} {Q : Except Err β → World → Prop}
    (hf : ∀ a, Resp LG (f a)) (hQ : BadQ fl Q) :
    BadQ fl (fun r w1 => match r with | .ok a => Wp (f a) w1 Q | .error e => Q (.error e) w1) := by
  intro r w h
  cases r with
  | ok a => exact hQ _ _ (h.lg (hf a w))
  | error e => exact hQ _ _ h

theorem badQ_finally {fl : List Fault} {α : Type} {fin : M Unit} {Q : Except Err α → World → Prop}
    (hfin : Resp LG fin) (hQ : BadQ fl Q) : BadQ fl (fun r w1 => Wp fin w1 (fun _ w2 => Q r w2)) :=
  fun r w h => hQ _ _ (h.lg (hfin w))

theorem badQ_tryM {fl : List Fault} {α : Type} {Q : Except Err (Except Err α) → World → Prop}
    (hQ : BadQ fl Q) : BadQ fl (fun r w1 => Q (.ok r) w1) := fun r w h => hQ _ _ h

/-- `Resp LG` for the anonymous tails of the model's do-blocks. -/
syntax "lg_auto" ("[" term,* "]")? : tactic
macro_rules
  | `(tactic| lg_auto) => `(tactic| lg_auto [Resp.pure])
  | `(tactic| lg_auto [$ls,*]) => `(tactic|
    (intros
     resp_auto [$ls,*, gen_takeFault, Gen.logCall, gen_newBuf, gen_wipeBuf, gen_secretClose, gen_newKeyObj, gen_keyIncr,
       gen_keyWrap, gen_secretNew, gen_secretRandom, gen_keyCloseRaw, gen_keyRelease, gen_releaseAll, gen_kmsEncrypt,
       gen_kmsDecrypt, gen_aeadEncrypt, gen_aeadDecrypt, gen_msLoad, gen_msLoadLatest, gen_msStore, gen_mustLoadLatest,
       gen_cacheRead, gen_getFresh, Gen.cacheGet, Gen.cacheSet, Gen.cacheWrite, gen_generateKey, gen_systemKeyFromEKR,
       gen_loadSystemKey, gen_getOrLoadSystemKey, gen_tryStoreSystemKey, gen_createSK, gen_loadLatestOrCreateSystemKey,
       gen_intermediateKeyFromEKR, gen_tryStoreIntermediateKey, gen_createIntermediateKey, gen_getValidIntermediateKey,
       gen_loadLatestOrCreateIntermediateKey, gen_loadIntermediateKey, gen_decryptRow, gen_cacheLoad, gen_getOrLoad,
       gen_getOrLoadLatest, gen_withKey, gen_modify]
     all_goals (first | rfl | (intros; rfl))))

/-- discharge `BadQ fl Q` for the nested postconditions `Wp.bind`/`Wp.finallyDo`/`Wp.tryM` build. -/
syntax "bad_auto" ("[" term,* "]")? : tactic
macro_rules
  | `(tactic| bad_auto) => `(tactic| bad_auto [Resp.pure])
  | `(tactic| bad_auto [$ls,*]) => `(tactic|
    (repeat (first
      | assumption
      | exact badQ_base _
      | (apply badQ_bind (by lg_auto [$ls,*]))
      | (apply badQ_finally (by lg_auto [$ls,*]))
      | apply badQ_tryM)))

/-- sequencing through a callee whose specification has the form `Bad ∨ R`. -/
theorem Wp.bindB {fl : List Fault} {α β : Type} {x : M α} {f : α → M β} {w : World}
    {R : Except Err α → World → Prop} {Q : Except Err β → World → Prop}
    (hx : Wp x w (fun r w1 => Bad fl w1 ∨ R r w1)) (hQ : BadQ fl Q) (hlg : ∀ a, Resp LG (f a))
    (hf : ∀ r w1, R r w1 → match r with | .ok a => Wp (f a) w1 Q | .error e => Q (.error e) w1) :
    Wp (x >>= f) w Q := by
  apply Wp.bind
  apply Wp.mono hx
  intro r w1 h
  rcases h with h | h
  · exact badQ_bind hlg hQ r w1 h
  · exact hf r w1 h

theorem Wp.finallyB {fl : List Fault} {α : Type} {x : M α} {fin : M Unit} {w : World}
    {R : Except Err α → World → Prop} {Q : Except Err α → World → Prop}
    (hx : Wp x w (fun r w1 => Bad fl w1 ∨ R r w1)) (hQ : BadQ fl Q) (hlg : Resp LG fin)
    (hf : ∀ r w1, R r w1 → Wp fin w1 (fun _ w2 => Q r w2)) : Wp (Env.finallyDo x fin) w Q := by
  apply Wp.finallyDo
  apply Wp.mono hx
  intro r w1 h
  rcases h with h | h
  · exact badQ_finally hlg hQ r w1 h
  · exact hf r w1 h

/-! ### the invariant -/

theorem ext_keys_len {w w' : World} (h : Ext w w') : w.keys.length ≤ w'.keys.length := by
  apply Classical.byContradiction
  intro hc
  have hlt : w'.keys.length < w.keys.length := by omega
  obtain ⟨k', hk', -⟩ := h.keys w'.keys.length _ (List.getElem?_eq_getElem hlt)
  rw [List.getElem?_eq_none (Nat.le_refl _)] at hk'; cases hk'

/-- an existing key object whose creation stamp satisfies `P`. -/
def KX (P : Int → Prop) (w : World) (k : Nat) : Prop := ∃ ko : KeyObj, w.keys[k]? = some ko ∧ P ko.created

theorem KX.ext {P : Int → Prop} {w w' : World} {k : Nat} (h : KX P w k) (hext : Ext w w') : KX P w' k := by
  obtain ⟨ko, hk, hp⟩ := h
  obtain ⟨k1, e1, c1, -⟩ := hext.keys _ _ hk
  exact ⟨k1, e1, by rw [c1]; exact hp⟩

theorem KX.lt {P : Int → Prop} {w : World} {k : Nat} (h : KX P w k) : k < w.keys.length := by
  obtain ⟨ko, hk, -⟩ := h
  exact (List.getElem?_eq_some_iff.mp hk).1

theorem KX.stamp {P : Int → Prop} {w : World} {k : Nat} (h : KX P w k) : P (keyAt w k).created := by
  obtain ⟨ko, hk, hp⟩ := h
  rw [keyAt_of_get hk]; exact hp

theorem KX.of_lt {P : Int → Prop} {w : World} {k : Nat} (hlt : k < w.keys.length) (hp : P (keyAt w k).created) :
    KX P w k := by
  refine ⟨w.keys[k], List.getElem?_eq_getElem hlt, ?_⟩
  rw [← keyAt_of_get (List.getElem?_eq_getElem hlt)]; exact hp

theorem KX.mono {P P' : Int → Prop} {w : World} {k : Nat} (h : KX P w k) (hp : ∀ c, P c → P' c) : KX P' w k := by
  obtain ⟨ko, hk, h1⟩ := h; exact ⟨ko, hk, hp _ h1⟩

/-- the invariant of the fault-tolerant calculus: the clock shows `t`, the token bookkeeping `J`, every
cache entry points to an existing key object, and `D` holds of the store. -/
structure A (fl : List Fault) (D : List Row → Prop) (t : Int) (w : World) : Prop where
  now : w.now = t
  tk : J fl w
  ents : ∀ c m e, (m, e) ∈ entsOf w c → e.obj < w.keys.length
  delta : D w.store

variable {fl : List Fault} {D : List Row → Prop} {t : Int}

/-- a step that leaves the store alone and adds no cache entry other than ones pointing to existing keys. -/
theorem A.step {w w' : World} (h : A fl D t w) (hext : Ext w w') (htk : TK fl w w') (hs : w'.store = w.store)
    (he : ∀ c p, p ∈ entsOf w' c → p ∈ entsOf w c ∨ p.2.obj < w'.keys.length) : A fl D t w' := by
  refine ⟨hext.now.trans h.now, htk h.tk, ?_, hs ▸ h.delta⟩
  intro c m e hm
  rcases he c _ hm with h1 | h1
  · exact Nat.lt_of_lt_of_le (h.ents c m e h1) (ext_keys_len hext)
  · exact h1

/-- a step below the cache layer that leaves the store alone. -/
theorem A.below {w w' : World} (h : A fl D t w) (hext : Ext w w') (htk : TK fl w w') (hc : w'.caches = w.caches)
    (hs : w'.store = w.store) : A fl D t w' :=
  h.step hext htk hs (fun c p hp => Or.inl (by unfold entsOf cacheAt at hp ⊢; rw [hc] at hp; exact hp))

theorem A.sv {w w' : World} (h : A fl D t w) (hv : SV w w') : A fl D t w' :=
  h.step (CW.of_sv hv).ext (TK.of_same hv.log hv.faults) hv.store
    (fun c p hp => Or.inl (by rw [(hv.view c).1] at hp; exact hp))

theorem A.cacheWrite {w : World} (h : A fl D t w) (c : Nat) (m : KeyMeta) (e : CEntry) (he : e.obj < w.keys.length) :
    A fl D t (cacheWrite c m e w).2 := by
  obtain ⟨hcw, -, hents, -, -⟩ := cacheWrite_spec c m e w
  refine h.step hcw.ext (f_cacheWrite (R := TK fl) c m e w) hcw.store ?_
  intro c' p hp
  rcases hents c' p hp with h1 | ⟨-, h1⟩
  · exact Or.inl h1
  · right; rw [h1]; exact Nat.lt_of_lt_of_le he (ext_keys_len hcw.ext)

theorem A.keyWrap {w : World} (h : A fl D t w) (k : Nat) : A fl D t (keyWrap k w).2 :=
  h.below (keyWrap_ext k w) (f_keyWrap (R := TK fl) k w) (keyWrap_q0 k w).caches (keyWrap_ss k w)
theorem A.keyIncr {w : World} (h : A fl D t w) (k : Nat) : A fl D t (keyIncr k w).2 :=
  h.below (keyIncr_ext k w) (f_keyIncr (R := TK fl) k w) (keyIncr_q0 k w).caches (keyIncr_ss k w)
theorem A.keyCloseRaw {w : World} (h : A fl D t w) (k : Nat) : A fl D t (keyCloseRaw k w).2 :=
  h.below (keyCloseRaw_ext k w) (f_keyCloseRaw (R := TK fl) k w) (keyCloseRaw_q0 k w).caches (keyCloseRaw_ss k w)
theorem A.keyRelease {w : World} (h : A fl D t w) (k : Nat) : A fl D t (keyRelease k w).2 :=
  h.below (keyRelease_ext k w) (f_keyRelease (R := TK fl) k w) (keyRelease_q0 k w).caches (keyRelease_ss k w)

/-- the entry `read` finds points to an existing key object. -/
theorem A.read_lt {w : World} (h : A fl D t w) {c : Nat} {m : KeyMeta} {e : CEntry} (hr : readEntry w c m = some e) :
    e.obj < w.keys.length := h.ents c _ e (assocGet_mem hr)

end AsherahVerif.Env.TimeF
