import AsherahVerif.Proofs.Gcm
import AsherahVerif.Proofs.CodecRec
/-
Whole hierarchies: what the reference ENCODER builds (SK row, IK row, DRR JSON) is decrypted by the
reference DECODER to the payload — for every block cipher, all keys, ids, stamps, flags and payloads
`Encrypt` accepts.  This composes every layer: JSON text, base64, record mapping, key lookup by
(id, created), and four AEAD layouts.
-/
set_option linter.unusedSimpArgs false
namespace AsherahVerif.Codec
open AsherahVerif.Gcm

theorem skId_head (s p : Str) (x : Option Str) : ∃ r, skId s p x = '_' :: 'S' :: r := by
  cases x <;> exact ⟨_, rfl⟩

theorem ikId_head (pa s p : Str) (x : Option Str) : ∃ r, ikId pa s p x = '_' :: 'I' :: r := by
  cases x <;> exact ⟨_, rfl⟩

theorem skId_ne_ikId (pa s p : Str) (x y : Option Str) : skId s p x ≠ ikId pa s p y := by
  obtain ⟨r1, h1⟩ := skId_head s p x
  obtain ⟨r2, h2⟩ := ikId_head pa s p y
  rw [h1, h2]
  intro h
  injection h with _ h
  injection h with h _
  exact absurd h (by decide)

theorem orErr_some {α : Type} (e : ChainErr) (a : α) : orErr e (some a) = .ok a := rfl
theorem liftOpen_ok (f : Gcm.Err → ChainErr) (b : Bytes) : liftOpen f (.ok b) = .ok b := rfl

theorem decryptChain_buildChain (C : Cipher) (r : BuildReq) (b : Built)
    (h1 : r.n1.length = 12) (h2 : r.n2.length = 12) (h3 : r.n3.length = 12) (h4 : r.n4.length = 12)
    (h : buildChain C r = .ok b) :
    decryptChain C [b.skRow, b.ikRow] r.master b.drr = .ok r.payload := by
  unfold buildChain at h
  cases e1 : goEncrypt C r.master r.n1 r.sk with
  | error e => rw [e1] at h; cases h
  | ok skEnc =>
  cases e2 : goEncrypt C r.sk r.n2 r.ik with
  | error e => rw [e1, e2] at h; cases h
  | ok ikEnc =>
  cases e3 : goEncrypt C r.ik r.n3 r.drk with
  | error e => rw [e1, e2, e3] at h; cases h
  | ok drkEnc =>
  cases e4 : goEncrypt C r.drk r.n4 r.payload with
  | error e => rw [e1, e2, e3, e4] at h; cases h
  | ok data =>
  rw [e1, e2, e3, e4] at h
  simp only [bind, Except.bind, pure, Except.pure] at h
  injection h with h
  subst h
  have d1 := goDecrypt_of_goEncrypt C _ _ _ _ h1 e1
  have d2 := goDecrypt_of_goEncrypt C _ _ _ _ h2 e2
  have d3 := goDecrypt_of_goEncrypt C _ _ _ _ h3 e3
  have d4 := goDecrypt_of_goEncrypt C _ _ _ _ h4 e4
  have hne := skId_ne_ikId r.partition r.service r.product r.suffix r.suffix
  unfold decryptChain
  simp only [decodeDRR_encodeDRR, orErr_some, bind, Except.bind]
  have f1 : findRow
      [sqlRowOf (skId r.service r.product r.suffix) r.skCreated ⟨r.skRevoked, r.skCreated, skEnc, none⟩,
       sqlRowOf (ikId r.partition r.service r.product r.suffix) r.ikCreated
        ⟨r.ikRevoked, r.ikCreated, ikEnc, some ⟨skId r.service r.product r.suffix, r.skCreated⟩⟩]
      (ikId r.partition r.service r.product r.suffix) r.ikCreated =
      some (sqlRowOf (ikId r.partition r.service r.product r.suffix) r.ikCreated
        ⟨r.ikRevoked, r.ikCreated, ikEnc, some ⟨skId r.service r.product r.suffix, r.skCreated⟩⟩) := by
    simp [findRow, List.find?, sqlRowOf, hne]
  have f2 : findRow
      [sqlRowOf (skId r.service r.product r.suffix) r.skCreated ⟨r.skRevoked, r.skCreated, skEnc, none⟩,
       sqlRowOf (ikId r.partition r.service r.product r.suffix) r.ikCreated
        ⟨r.ikRevoked, r.ikCreated, ikEnc, some ⟨skId r.service r.product r.suffix, r.skCreated⟩⟩]
      (skId r.service r.product r.suffix) r.skCreated =
      some (sqlRowOf (skId r.service r.product r.suffix) r.skCreated ⟨r.skRevoked, r.skCreated, skEnc, none⟩) := by
    simp [findRow, List.find?, sqlRowOf]
  simp only [f1, f2, orErr_some, (sqlRowDecode_sqlRowOf _ _ _).1, d1, d2, d3, d4, liftOpen_ok]

end AsherahVerif.Codec
