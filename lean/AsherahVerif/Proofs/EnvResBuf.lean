import AsherahVerif.Proofs.EnvResBase
/-
C10 — heap buffers that received plaintext key material.  `CleanBut S w`: every buffer of the
ledger outside the list `S` of buffers currently "in flight" is wiped.  Every model function
preserves `CleanBut S` for every `S` (whatever it allocates it wipes, on every path); the two
functions that hand a dirty buffer to their caller (`newBuf`, `kmsDecrypt`) have explicit triples.
-/
set_option linter.unusedVariables false
namespace AsherahVerif.Env.Res

def CleanBut (S : List Nat) (w : World) : Prop :=
  ∀ i b, w.bufs[i]? = some b → i ∉ S → b.wiped = true

theorem dirtyBufs_eq_zero_iff (w : World) : dirtyBufs w = 0 ↔ CleanBut [] w := by
  unfold dirtyBufs CleanBut
  rw [List.length_eq_zero_iff, List.filter_eq_nil_iff]
  constructor
  · intro h i b hb _
    have := h b (List.mem_of_getElem? hb)
    simpa using this
  · intro h b hb
    obtain ⟨i, hi, rfl⟩ := List.getElem_of_mem hb
    have := h i _ (List.getElem?_eq_getElem hi) (by simp)
    simp [this]

theorem CleanBut.mono {S S' : List Nat} {w : World} (h : CleanBut S w) (hs : ∀ i, i ∈ S → i ∈ S') : CleanBut S' w :=
  fun i b hb hn => h i b hb (fun hi => hn (hs i hi))

/-- the spec of a function that returns (on success) a still-dirty buffer `held a`. -/
def BufSpec {α : Type} (x : M α) (held : α → List Nat) : Prop :=
  ∀ S, Triple (CleanBut S) x (fun r w => match r with
    | .ok a => CleanBut (held a ++ S) w
    | .error e => CleanBut S w)

theorem newBuf_spec (m : Nat) : BufSpec (newBuf m) (fun b => [b]) := by
  intro S w hw
  show CleanBut ([w.bufs.length] ++ S) { w with bufs := w.bufs ++ [{ mat := m }] }
  intro i b hb hn
  simp only [getElem?_append_single] at hb
  split at hb
  · exact hw i b hb (fun h => hn (by simp [h]))
  · split at hb
    · subst i; simp at hn
    · cases hb

theorem wipeBuf_clean (b : Nat) (S : List Nat) :
    Triple (CleanBut (b :: S)) (wipeBuf b) (fun _ w => CleanBut S w) := by
  intro w hw i x hx hn
  simp only [wipeBuf, modify_run, setAt_getElem?] at hx
  by_cases hib : i = b
  · subst hib
    simp only [if_true] at hx
    cases hh : w.bufs[i]? with
    | none => rw [hh] at hx; cases hx
    | some y => rw [hh] at hx; simp at hx; subst hx; rfl
  · simp only [hib, if_false] at hx
    exact hw i x hx (by simp [hib, hn])

theorem wipeBuf_pres (b : Nat) (S : List Nat) : Preserves (CleanBut S) (wipeBuf b) := fun w hw =>
  wipeBuf_clean b S w (hw.mono (fun i hi => List.mem_cons_of_mem _ hi))

theorem logCall_cb (S : List Nat) (c : Call) : Preserves (CleanBut S) (logCall c) := Preserves.modify (fun _ h => h)

theorem secretNew_clean (b m : Nat) (S : List Nat) :
    Triple (CleanBut (b :: S)) (secretNew b m) (fun _ w => CleanBut S w) := by
  unfold secretNew
  refine Triple.bind (R := fun _ => CleanBut (b :: S)) ?_ ?_
  · intro w hw
    have := takeFault_preserves (I := CleanBut (b :: S)) (fun _ _ h => h) w hw
    obtain ⟨f, hf⟩ := takeFault_ok w
    rw [hf]; exact this
  · intro f
    refine Triple.bind (R := fun _ => CleanBut S) ?_ ?_
    · intro w hw; exact wipeBuf_clean b S w hw
    · intro _
      apply Preserves.toTriple
      pres_auto [logCall_cb]

theorem kmsDecrypt_spec (c : Ct) : BufSpec (kmsDecrypt c) (fun p => [p.1]) := by
  intro S
  unfold kmsDecrypt
  refine Triple.bind (R := fun _ => CleanBut S) ?_ ?_
  · intro w hw
    have := takeFault_preserves (I := CleanBut S) (fun _ _ h => h) w hw
    obtain ⟨f, hf⟩ := takeFault_ok w
    rw [hf]; exact this
  · intro f
    split
    · exact Triple.bind (R := fun _ => CleanBut S) (fun w hw => hw) (fun _ => Triple.throw _ fun _ h => h)
    · split
      · refine Triple.bind (R := fun _ => CleanBut S) (fun w hw => hw) fun _ => ?_
        refine Triple.bind (R := fun b => CleanBut ([b] ++ S)) (newBuf_spec _ S) fun b => ?_
        exact Triple.pure _ fun _ h => h
      · exact Triple.bind (R := fun _ => CleanBut S) (fun w hw => hw) (fun _ => Triple.throw _ fun _ h => h)

/-! ### every buffer-closed function preserves `CleanBut S` -/

theorem takeFault_cb (S : List Nat) : Preserves (CleanBut S) takeFault := takeFault_preserves (fun _ _ h => h)

theorem _root_.AsherahVerif.Env.Preserves.ofTriple {α : Type} {I : World → Prop} {x : M α} (h : Triple I x (fun _ w => I w)) : Preserves I x :=
  fun w hw => h w hw

theorem secretNew_pres (b m : Nat) (S : List Nat) : Preserves (CleanBut S) (secretNew b m) := fun w hw =>
  secretNew_clean b m S w (hw.mono (fun i hi => List.mem_cons_of_mem _ hi))

theorem msLoad_cb (S : List Nat) (m : KeyMeta) : Preserves (CleanBut S) (msLoad m) := by unfold msLoad; pres_auto [logCall_cb]
theorem msLoadLatest_cb (S : List Nat) (k : KeyId) : Preserves (CleanBut S) (msLoadLatest k) := by unfold msLoadLatest; pres_auto [logCall_cb]
theorem msStore_cb (S : List Nat) (r : Row) : Preserves (CleanBut S) (msStore r) := by unfold msStore; pres_auto [logCall_cb]
theorem secretRandom_cb (S : List Nat) : Preserves (CleanBut S) secretRandom := by unfold secretRandom; pres_auto [logCall_cb]
theorem secretClose_cb (S : List Nat) (s : Nat) : Preserves (CleanBut S) (secretClose s) := Preserves.modify (fun _ h => h)
theorem newKeyObj_cb (S : List Nat) (c : Int) (r : Bool) (m s : Nat) : Preserves (CleanBut S) (newKeyObj c r m s) := fun _ h => h
theorem keyCloseRaw_cb (S : List Nat) (o : Nat) : Preserves (CleanBut S) (keyCloseRaw o) := by unfold keyCloseRaw; pres_auto [secretClose_cb]
theorem keyRelease_cb (S : List Nat) (o : Nat) : Preserves (CleanBut S) (keyRelease o) := by unfold keyRelease; pres_auto [keyCloseRaw_cb]
theorem keyIncr_cb (S : List Nat) (o : Nat) : Preserves (CleanBut S) (keyIncr o) := Preserves.modify (fun _ h => h)
theorem keyWrap_cb (S : List Nat) (o : Nat) : Preserves (CleanBut S) (keyWrap o) := Preserves.modify (fun _ h => h)
theorem withKey_cb {α : Type} (S : List Nat) (o : Nat) (f : Nat → M α) (hf : ∀ m, Preserves (CleanBut S) (f m)) :
    Preserves (CleanBut S) (withKey o f) := by unfold withKey; pres_auto [hf]
theorem kmsEncrypt_cb (S : List Nat) (m : Nat) : Preserves (CleanBut S) (kmsEncrypt m) := by unfold kmsEncrypt; pres_auto [logCall_cb]
theorem aeadEncrypt_cb (S : List Nat) (pt : Pt) (k : Nat) : Preserves (CleanBut S) (aeadEncrypt pt k) := by unfold aeadEncrypt; pres_auto [logCall_cb]
theorem aeadDecrypt_cb (S : List Nat) (c : Ct) (k : Nat) : Preserves (CleanBut S) (aeadDecrypt c k) := by unfold aeadDecrypt; pres_auto [logCall_cb]
theorem setCache_cb (S : List Nat) (c : Nat) (kc : KeyCache) : Preserves (CleanBut S) (setCache c kc) := Preserves.modify (fun _ h => h)
theorem releaseAll_cb (S : List Nat) (l : List Nat) : Preserves (CleanBut S) (releaseAll l) := by
  induction l with
  | nil => exact Preserves.pure _
  | cons v rest ih => unfold releaseAll; pres_auto [keyRelease_cb]
theorem cacheGet_cb (S : List Nat) (c : Nat) (m : KeyMeta) : Preserves (CleanBut S) (cacheGet c m) := by unfold cacheGet; pres_auto [setCache_cb]
theorem cacheSet_cb (S : List Nat) (c : Nat) (m : KeyMeta) (e : CEntry) : Preserves (CleanBut S) (cacheSet c m e) := by
  unfold cacheSet; pres_auto [setCache_cb, releaseAll_cb]
theorem cacheRead_cb (S : List Nat) (c : Nat) (m : KeyMeta) : Preserves (CleanBut S) (cacheRead c m) := by unfold cacheRead; pres_auto [cacheGet_cb]
theorem getFresh_cb (S : List Nat) (c : Nat) (m : KeyMeta) (i : Int) : Preserves (CleanBut S) (getFresh c m i) := by unfold getFresh; pres_auto [cacheRead_cb]
theorem cacheWrite_cb (S : List Nat) (c : Nat) (m : KeyMeta) (e : CEntry) : Preserves (CleanBut S) (cacheWrite c m e) := by
  unfold cacheWrite; pres_auto [cacheGet_cb, cacheSet_cb, keyRelease_cb, setCache_cb]
theorem cacheLoad_cb (S : List Nat) (c : Nat) (m : KeyMeta) (loader : KeyMeta → M Nat) (hl : ∀ m, Preserves (CleanBut S) (loader m)) :
    Preserves (CleanBut S) (cacheLoad c m loader) := by
  unfold cacheLoad; pres_auto [cacheRead_cb, cacheWrite_cb, keyCloseRaw_cb, keyWrap_cb, hl]
theorem getOrLoad_cb (S : List Nat) (c : Nat) (m : KeyMeta) (i : Int) (loader : KeyMeta → M Nat) (hl : ∀ m, Preserves (CleanBut S) (loader m)) :
    Preserves (CleanBut S) (getOrLoad c m i loader) := by
  unfold getOrLoad; pres_auto [getFresh_cb, cacheLoad_cb, keyIncr_cb, keyWrap_cb, hl]
theorem getOrLoadLatest_cb (S : List Nat) (c : Nat) (k : KeyId) (i e : Int) (loader : KeyMeta → M Nat)
    (hl : ∀ m, Preserves (CleanBut S) (loader m)) : Preserves (CleanBut S) (getOrLoadLatest c k i e loader) := by
  unfold getOrLoadLatest; pres_auto [getFresh_cb, cacheLoad_cb, cacheWrite_cb, keyIncr_cb, keyWrap_cb, hl]
theorem cacheClose_cb (S : List Nat) (c : Nat) : Preserves (CleanBut S) (cacheClose c) := by
  unfold cacheClose; pres_auto [releaseAll_cb, setCache_cb]

theorem generateKey_cb (S : List Nat) (x : Ctx) : Preserves (CleanBut S) (generateKey x) := by
  unfold generateKey; pres_auto [secretRandom_cb, newKeyObj_cb]

/-- `systemKeyFromEKR`: the KMS plaintext buffer is wiped by `secretNew`, also when that fails. -/
theorem systemKeyFromEKR_cb (S : List Nat) (r : Row) : Preserves (CleanBut S) (systemKeyFromEKR r) := by
  apply Preserves.ofTriple
  unfold systemKeyFromEKR
  refine Triple.bind (kmsDecrypt_spec r.enc S) ?_
  rintro ⟨b, m⟩
  refine Triple.bind (R := fun _ => CleanBut S) ?_ ?_
  · intro w hw
    have := secretNew_clean b m S w hw
    revert this; cases (secretNew b m w).1 <;> exact id
  · intro s; exact (newKeyObj_cb S _ _ _ _).toTriple

theorem loadSystemKey_cb (S : List Nat) (m : KeyMeta) : Preserves (CleanBut S) (loadSystemKey m) := by
  unfold loadSystemKey; pres_auto [msLoad_cb, systemKeyFromEKR_cb]
theorem getOrLoadSystemKey_cb (S : List Nat) (x : Ctx) (m : KeyMeta) : Preserves (CleanBut S) (getOrLoadSystemKey x m) := by
  unfold getOrLoadSystemKey; exact getOrLoad_cb S _ _ _ _ (loadSystemKey_cb S)
theorem withKey_kmsEncrypt_cb (S : List Nat) (o : Nat) : Preserves (CleanBut S) (withKey o fun m => kmsEncrypt m) :=
  withKey_cb S _ _ fun m => kmsEncrypt_cb S m
theorem tryStoreSystemKey_cb (S : List Nat) (sk : Nat) : Preserves (CleanBut S) (tryStoreSystemKey sk) := by
  unfold tryStoreSystemKey; pres_auto [msStore_cb, withKey_kmsEncrypt_cb]
theorem mustLoadLatest_cb (S : List Nat) (k : KeyId) : Preserves (CleanBut S) (mustLoadLatest k) := by
  unfold mustLoadLatest; pres_auto [msLoadLatest_cb]
theorem createSK_cb (S : List Nat) (x : Ctx) : Preserves (CleanBut S) (loadLatestOrCreateSystemKey.createSK x) := by
  unfold loadLatestOrCreateSystemKey.createSK
  pres_auto [generateKey_cb, tryStoreSystemKey_cb, keyCloseRaw_cb, mustLoadLatest_cb, systemKeyFromEKR_cb]
theorem loadLatestOrCreateSystemKey_cb (S : List Nat) (x : Ctx) : Preserves (CleanBut S) (loadLatestOrCreateSystemKey x) := by
  unfold loadLatestOrCreateSystemKey
  pres_auto [msLoadLatest_cb, systemKeyFromEKR_cb, createSK_cb]

theorem withKey_aeadDecrypt_cb (S : List Nat) (o : Nat) (c : Ct) : Preserves (CleanBut S) (withKey o fun skm => aeadDecrypt c skm) :=
  withKey_cb S _ _ fun m => aeadDecrypt_cb S _ _

/-- a decrypted key in a fresh heap slice handed to `secretNew`, which wipes it (also when it fails). -/
theorem bufToSecret_cb (S : List Nat) (m : Nat) (c : Int) (rv : Bool) :
    Preserves (CleanBut S) (do
        let b ← newBuf m
        let s ← secretNew b m
        newKeyObj c rv m s : M Nat) := by
  apply Preserves.ofTriple
  refine Triple.bind (newBuf_spec _ S) ?_
  intro b
  refine Triple.bind (R := fun _ => CleanBut S) ?_ ?_
  · intro w hw
    have := secretNew_clean b m S w hw
    revert this; cases (secretNew b m w).1 <;> exact id
  · intro s; exact (newKeyObj_cb S _ _ _ _).toTriple

theorem intermediateKeyFromEKR_cb (S : List Nat) (x : Ctx) (sk : Nat) (r : Row) (b : Bool) :
    Preserves (CleanBut S) (intermediateKeyFromEKR x sk r b) := by
  unfold intermediateKeyFromEKR
  pres_auto [getOrLoadSystemKey_cb, keyRelease_cb, bufToSecret_cb, withKey_aeadDecrypt_cb]

theorem tryStoreIntermediateKey_cb (S : List Nat) (x : Ctx) (ik sk : Nat) : Preserves (CleanBut S) (tryStoreIntermediateKey x ik sk) := by
  unfold tryStoreIntermediateKey
  pres_auto [msStore_cb]
  exact withKey_cb S _ _ fun ikm => withKey_cb S _ _ fun skm => aeadEncrypt_cb S _ _

theorem createIntermediateKey_cb (S : List Nat) (x : Ctx) (b : Bool) : Preserves (CleanBut S) (createIntermediateKey x b) := by
  unfold createIntermediateKey
  pres_auto [generateKey_cb, tryStoreIntermediateKey_cb, keyCloseRaw_cb, mustLoadLatest_cb,
    intermediateKeyFromEKR_cb, keyRelease_cb]
  exact getOrLoadLatest_cb S _ _ _ _ _ fun _ => loadLatestOrCreateSystemKey_cb S x

theorem getValidIntermediateKey_cb (S : List Nat) (x : Ctx) (sk : Nat) (r : Row) (b : Bool) :
    Preserves (CleanBut S) (getValidIntermediateKey x sk r b) := by
  unfold getValidIntermediateKey; pres_auto [intermediateKeyFromEKR_cb]

theorem loadLatestOrCreateIntermediateKey_cb (S : List Nat) (x : Ctx) (b : Bool) :
    Preserves (CleanBut S) (loadLatestOrCreateIntermediateKey x b) := by
  unfold loadLatestOrCreateIntermediateKey
  pres_auto [msLoadLatest_cb, createIntermediateKey_cb, getOrLoadSystemKey_cb, getValidIntermediateKey_cb, keyRelease_cb]

theorem loadIntermediateKey_cb (S : List Nat) (x : Ctx) (m : KeyMeta) (b : Bool) : Preserves (CleanBut S) (loadIntermediateKey x m b) := by
  unfold loadIntermediateKey
  pres_auto [msLoad_cb, getOrLoadSystemKey_cb, intermediateKeyFromEKR_cb, keyRelease_cb]

theorem encryptPayload_cb (S : List Nat) (x : Ctx) (p : Nat) (b : Bool) : Preserves (CleanBut S) (encryptPayload x p b) := by
  unfold encryptPayload
  apply Preserves.bind
  · exact getOrLoadLatest_cb S _ _ _ _ _ fun _ => loadLatestOrCreateIntermediateKey_cb S x b
  · intro ik
    apply Preserves.finallyDo _ (keyRelease_cb S ik)
    pres_auto [secretRandom_cb, keyCloseRaw_cb, newKeyObj_cb]
    · exact withKey_cb S _ _ fun dm => aeadEncrypt_cb S _ _
    · exact withKey_cb S _ _ fun im => withKey_cb S _ _ fun dm => aeadEncrypt_cb S _ _

/-- `decryptRow`: the decrypted data-row key lives in a heap slice that the deferred `MemClr` wipes,
whatever the payload decryption returns. -/
theorem decryptRow_cb (S : List Nat) (ik : Nat) (dk : DrrKey) (data : Ct) : Preserves (CleanBut S) (decryptRow ik dk data) := by
  unfold decryptRow
  apply withKey_cb
  intro im
  apply Preserves.bind (aeadDecrypt_cb S _ _)
  intro pt
  split
  · apply Preserves.ofTriple
    refine Triple.bind (newBuf_spec _ S) ?_
    intro b
    refine Triple.finallyDo (R := fun _ => CleanBut ([b] ++ S)) ?_ ?_
    · apply Preserves.toTriple
      pres_auto [aeadDecrypt_cb]
    · intro r w hw; exact wipeBuf_clean b S w hw
  · exact Preserves.throw _

theorem getOrLoadIK_cb (S : List Nat) (x : Ctx) (p : KeyMeta) (b : Bool) :
    Preserves (CleanBut S) (getOrLoad x.ikCache p x.pol.revokeInterval (fun m => loadIntermediateKey x m b)) :=
  getOrLoad_cb S _ _ _ _ fun m => loadIntermediateKey_cb S x m b

theorem decryptDataRowRecord_cb (S : List Nat) (x : Ctx) (d : Drr) (b : Bool) : Preserves (CleanBut S) (decryptDataRowRecord x d b) := by
  unfold decryptDataRowRecord
  pres_auto [decryptRow_cb, keyRelease_cb, getOrLoadIK_cb]

theorem beginOp_cb (S : List Nat) (fl : List Fault) : Preserves (CleanBut S) (beginOp fl) := Preserves.modify (fun _ h => h)
theorem encrypt_cb (S : List Nat) (s p : Nat) (fl : List Fault) (b : Bool) : Preserves (CleanBut S) (encrypt s p fl b) := by
  unfold encrypt; pres_auto [beginOp_cb, encryptPayload_cb]
theorem decrypt_cb (S : List Nat) (s : Nat) (d : Drr) (fl : List Fault) (b : Bool) : Preserves (CleanBut S) (decrypt s d fl b) := by
  unfold decrypt; pres_auto [beginOp_cb, decryptDataRowRecord_cb]

theorem addCache_cb (S : List Nat) (kc : KeyCache) : Preserves (CleanBut S) (addCache kc) := fun _ h => h
theorem newFactory_cb (S : List Nat) (p : Policy) (a b c d : Nat) : Preserves (CleanBut S) (newFactory p a b c d) := by
  unfold newFactory; pres_auto [addCache_cb]
theorem getSession_cb (S : List Nat) (f part c d : Nat) : Preserves (CleanBut S) (getSession f part c d) := by
  unfold getSession; pres_auto [addCache_cb]
theorem closeSession_cb (S : List Nat) (s : Nat) : Preserves (CleanBut S) (closeSession s) := by
  unfold closeSession; pres_auto [cacheClose_cb]
theorem closeFactory_cb (S : List Nat) (f : Nat) : Preserves (CleanBut S) (closeFactory f) := by
  unfold closeFactory; pres_auto [cacheClose_cb]
theorem advance_cb (S : List Nat) (d : Nat) : Preserves (CleanBut S) (advance d) := Preserves.modify (fun _ h => h)
theorem revoke_cb (S : List Nat) (m : KeyMeta) : Preserves (CleanBut S) (revoke m) := Preserves.modify (fun _ h => h)
theorem corruptRow_cb (S : List Nat) (m : KeyMeta) (dp : Bool) : Preserves (CleanBut S) (corruptRow m dp) := Preserves.modify (fun _ h => h)

/-- every public operation preserves "all ledger buffers outside `S` are wiped". -/
theorem applyOp_cb (S : List Nat) (w : World) (op : Op) (h : CleanBut S w) : CleanBut S (applyOp w op).2 := by
  have wrap : ∀ {α : Type} (f : α → Out) (x : M α), Preserves (CleanBut S) x →
      CleanBut S (match x w with | (.ok a, w') => (f a, w') | (.error e, w') => (Out.error e, w')).2 := by
    intro α f x hx
    have := hx w h
    revert this
    cases x w with
    | mk r w' => cases r <;> exact id
  cases op with
  | newFactory p a b c d => exact wrap _ _ (newFactory_cb S p a b c d)
  | getSession f part c d => exact wrap _ _ (getSession_cb S f part c d)
  | encrypt s pay fl => exact wrap _ _ (encrypt_cb S s pay fl true)
  | decrypt s d fl => exact wrap _ _ (decrypt_cb S s d fl true)
  | closeSession s => exact wrap (fun _ => Out.unit) _ (Preserves.bind (beginOp_cb S []) fun _ => closeSession_cb S s)
  | closeFactory f => exact wrap (fun _ => Out.unit) _ (Preserves.bind (beginOp_cb S []) fun _ => closeFactory_cb S f)
  | advance d => exact wrap (fun _ => Out.unit) _ (advance_cb S d)
  | revoke m => exact wrap (fun _ => Out.unit) _ (revoke_cb S m)
  | corruptRow m dp => exact wrap (fun _ => Out.unit) _ (corruptRow_cb S m dp)

theorem runOps_snd_cons (w : World) (op : Op) (rest : List Op) :
    (runOps w (op :: rest)).2 = (runOps (applyOp w op).2 rest).2 := by
  simp only [runOps]

theorem runOps_cb (S : List Nat) (ops : List Op) (w : World) (h : CleanBut S w) : CleanBut S (runOps w ops).2 := by
  induction ops generalizing w with
  | nil => exact h
  | cons op rest ih => rw [runOps_snd_cons]; exact ih _ (applyOp_cb S w op h)

end AsherahVerif.Env.Res
