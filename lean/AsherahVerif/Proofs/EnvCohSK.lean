import AsherahVerif.Proofs.EnvCohCache
/-
Specifications of the system-key half of envelope.go: `generateKey`, `systemKeyFromEKR`,
`loadSystemKey`, `getOrLoadSystemKey`, `tryStoreSystemKey`, `mustLoadLatest`,
`loadLatestOrCreateSystemKey`.
-/
set_option linter.unusedVariables false
namespace AsherahVerif.Env

theorem GoodKeyAt.congr {w : World} {m m' : KeyMeta} {o : Nat} (hk : m.kid = m'.kid) (hc : m.created = m'.created)
    (h : GoodKeyAt w m o) : GoodKeyAt w m' o := by
  cases m; cases m'; simp only at hk hc; subst hk; subst hc; exact h

theorem GoodKeyAt.goodFor {w : World} {m : KeyMeta} {o : Nat} (h : GoodKeyAt w m o) : GoodFor m o w :=
  ⟨m, rfl, fun _ => rfl, h⟩

theorem GoodKeyAt.goodFor0 {w : World} {m : KeyMeta} {o : Nat} (h : GoodKeyAt w m o) : GoodFor ⟨m.kid, 0⟩ o w :=
  ⟨m, rfl, fun hz => absurd rfl hz, h⟩

theorem GoodFor.of_nz {w : World} {m : KeyMeta} {o : Nat} (hz : m.created ≠ 0) (h : GoodFor m o w) : GoodKeyAt w m o := by
  obtain ⟨m0, _, h2, h3⟩ := h; rw [← h2 hz]; exact h3

theorem generateKey_cspec {a : Nat} {F : Prop} (x : Ctx) :
    CSpec a F (TimeOK x) (generateKey x) (fun k w => ∃ c m, KeyIs w k c m ∧ c ≠ 0) := by
  unfold generateKey
  apply CSpec.bind_frame CSpec.get (fun _ _ _ => trivial) (Stable.timeOK x)
  intro w0
  apply CSpec.of_pre (C := keyTimestamp w0.now x.pol.precision ≠ 0) (by ext_auto [secretRandom_ext])
    (fun w _ h => by have := h.1; unfold TimeOK at this; rw [h.2.1]; exact this)
  intro hz
  apply CSpec.bind (secretRandom_cspec (P := _))
  intro sm
  obtain ⟨s, m⟩ := sm
  dsimp only
  exact (newKeyObj_cspec _ _ _ _).weaken (fun _ _ _ => trivial) fun k w _ h => ⟨_, _, h, hz⟩

theorem systemKeyFromEKR_cspec {a : Nat} {F : Prop} (r : Row) (hk : r.kid = .sk) :
    CSpec a F (fun w => r ∈ w.store) (systemKeyFromEKR r) (fun k w => GoodKeyAt w ⟨.sk, r.created⟩ k) := by
  unfold systemKeyFromEKR
  apply CSpec.bind_frame (kmsDecrypt_cspec r.enc) _ (Stable.mem_store r)
  · intro bm
    obtain ⟨b, m⟩ := bm
    dsimp only
    apply CSpec.of_pre (C := r.enc = .kms m) (by ext_auto [secretNew_ext]) (fun w _ h => h.2)
    intro henc
    apply CSpec.pre (P := fun w => r ∈ w.store) (fun w _ h => h.1)
    apply CSpec.bind_frame (secretNew_cspec b m) (fun _ _ _ => trivial) (Stable.mem_store r)
    intro s
    apply CSpec.pre (P := fun w => r ∈ w.store) (fun w _ h => h.1)
    refine CSpec.frame (newKeyObj_cspec r.created r.revoked m s) (fun _ _ _ => trivial) (Stable.mem_store r)
      fun k w _ hr h => GoodKeyAt.of_keyIs h ⟨r, hr, hk, rfl, ?_⟩
    unfold RowMat; rw [hk]; exact henc
  · intro w hi hr _
    have := hi.wf.good r hr
    unfold RowGood at this; rw [hk] at this; exact this

theorem loadSystemKey_cspec {a : Nat} {F : Prop} (m : KeyMeta) (hk : m.kid = .sk) :
    CSpec a F (fun w => F → ∃ mat, Wraps w.store m mat) (loadSystemKey m) (GoodFor m) := by
  unfold loadSystemKey
  apply CSpec.bind_frame (msLoad_spec m) (fun _ _ _ => trivial) (by stable_auto)
  intro ro
  split
  · apply CSpec.throw
    intro w _ h hF
    obtain ⟨mat, r, hr, h1, h2, _⟩ := h.1 hF
    exact findRow_none h.2.symm r hr ⟨h1, h2⟩
  · rename_i r
    apply CSpec.of_pre (C := r.kid = .sk ∧ r.created = m.created) (systemKeyFromEKR_ext r)
      (fun w _ h => by have := findRow_some h.2.symm; exact ⟨this.2.1.trans hk, this.2.2⟩)
    intro ⟨hrk, hrc⟩
    refine (systemKeyFromEKR_cspec r hrk).weaken (fun w _ h => (findRow_some h.2.symm).1) fun k w _ h => ?_
    exact (h.congr (m' := m) hk.symm hrc).goodFor

theorem getOrLoadSystemKey_cspec {a : Nat} {F : Prop} (x : Ctx) (m : KeyMeta) (hk : m.kid = .sk) :
    CSpec a F (fun w => F → ∃ mat, Wraps w.store m mat) (getOrLoadSystemKey x m) (GoodFor m) := by
  unfold getOrLoadSystemKey
  exact getOrLoad_cspec _ _ _ _ loadSystemKey_ext (by stable_auto) (loadSystemKey_cspec m hk)

theorem mustLoadLatest_spec {a : Nat} {F : Prop} (k : KeyId) :
    CSpec a F (fun w => F → ∃ r', r' ∈ w.store ∧ r'.kid = k) (mustLoadLatest k) (fun r w => r ∈ w.store ∧ r.kid = k) := by
  unfold mustLoadLatest
  apply CSpec.bind_frame (msLoadLatest_spec k) (fun _ _ _ => trivial) (by stable_auto)
  intro ro
  split
  · apply CSpec.throw
    intro w _ h hF
    obtain ⟨r', hr', hk'⟩ := h.1 hF
    exact latestRow_none h.2.symm r' hr' hk'
  · exact CSpec.pure _ fun w _ h => latestRow_some h.2.symm

theorem tryStoreSystemKey_cspec {a : Nat} {F : Prop} (sk : Nat) (c : Int) (m : Nat) (hc : c ≠ 0) :
    CSpec a F (fun w => KeyIs w sk c m) (tryStoreSystemKey sk)
      (fun b w => (b = true → GoodKeyAt w ⟨.sk, c⟩ sk) ∧ (b = false → F → ∃ r', r' ∈ w.store ∧ r'.kid = .sk)) := by
  unfold tryStoreSystemKey
  apply CSpec.bind_frame (keyObj_spec sk c m fun w _ h => h) (fun _ _ h => h) (Stable.keyIs _ _ _)
  intro ko
  apply CSpec.of_pre (C := ko.created = c)
    (Extends.bind (withKey_ext _ _ fun m => kmsEncrypt_ext m) fun _ => msStore_ext _) (fun w _ h => h.2.1)
  intro hkc
  apply CSpec.pre (P := fun w => KeyIs w sk c m) (fun w _ h => h.1)
  apply CSpec.bind_frame (P' := fun w => KeyIs w sk c m) (G1 := fun enc _ => enc = .kms m) _ (fun _ _ h => h) (Stable.keyIs _ _ _)
  · intro enc
    apply CSpec.of_pre (C := enc = .kms m) (msStore_ext _) (fun w _ h => h.2)
    intro henc
    apply CSpec.pre (P := fun w => KeyIs w sk c m) (fun w _ h => h.1)
    refine CSpec.frame (msStore_spec _) (fun w _ h => ⟨?_, by simpa [hkc] using hc⟩) (Stable.keyIs _ _ _) fun b w _ hki h => ⟨fun hb => ?_, fun hb hF => ?_⟩
    · unfold RowGood; exact ⟨m, henc⟩
    · refine GoodKeyAt.of_keyIs hki ⟨_, h.1 hb, rfl, hkc, ?_⟩
      unfold RowMat; exact henc
    · obtain ⟨r', h1, h2, _⟩ := h.2 hb hF
      exact ⟨r', h1, h2⟩
  · exact CSpec.withKey m (fun w _ h => ⟨c, h⟩) (fun m => kmsEncrypt_ext m) (kmsEncrypt_spec m)

/-- the tail of `createSK` after a failed store: close the unsaved key, re-read the latest row. -/
theorem createSK_cspec {a : Nat} {F : Prop} (x : Ctx) :
    CSpec a F (TimeOK x) (loadLatestOrCreateSystemKey.createSK x) (GoodFor ⟨.sk, 0⟩) := by
  unfold loadLatestOrCreateSystemKey.createSK
  apply CSpec.bind (generateKey_cspec x)
  intro sk
  have hext : Extends (do
      match ← tryM (tryStoreSystemKey sk) with
      | .ok true => pure sk
      | .ok false =>
        keyCloseRaw sk
        let r ← mustLoadLatest .sk
        systemKeyFromEKR r
      | .error e =>
        keyCloseRaw sk
        throw e) := by
    ext_auto [tryStoreSystemKey_ext, keyCloseRaw_ext, mustLoadLatest_ext, systemKeyFromEKR_ext]
  apply CSpec.exists_pre hext; intro c
  apply CSpec.exists_pre hext; intro m
  apply CSpec.of_pre (C := c ≠ 0) hext (fun w _ h => h.2)
  intro hc
  apply CSpec.pre (P := fun w => KeyIs w sk c m) (fun w _ h => h.1)
  apply CSpec.bind (tryStoreSystemKey_cspec sk c m hc).tryM
  intro res
  split
  · exact CSpec.pure _ fun w _ h => ((h.1 _ rfl).1 rfl).goodFor0
  · apply CSpec.pre (P := fun w => F → ∃ r', r' ∈ w.store ∧ r'.kid = KeyId.sk) (fun w _ h hF => (h.1 _ rfl).2 rfl hF)
    apply CSpec.bind_frame (keyCloseRaw_cspec sk) (fun _ _ _ => trivial) (by stable_auto)
    intro _
    apply CSpec.pre (P := fun w => F → ∃ r', r' ∈ w.store ∧ r'.kid = KeyId.sk) (fun w _ h => h.1)
    apply CSpec.bind (mustLoadLatest_spec .sk)
    intro r
    apply CSpec.of_pre (C := r.kid = .sk) (systemKeyFromEKR_ext r) (fun w _ h => h.2)
    intro hrk
    exact (systemKeyFromEKR_cspec r hrk).weaken (fun w _ h => h.1) fun k w _ h => h.goodFor0
  · apply CSpec.of_mode (by ext_auto [keyCloseRaw_ext])
    · intro hF
      apply CSpec.pre (P := fun _ => False) (fun w _ h => by obtain ⟨v, hv⟩ := h.2 hF; cases hv)
      exact ⟨by ext_auto [keyCloseRaw_ext], fun w _ _ _ h => h.elim⟩
    · intro hF
      apply CSpec.bind (keyCloseRaw_cspec sk)
      intro _
      exact CSpec.throw _ fun _ _ _ => hF

theorem loadLatestOrCreateSystemKey_cspec {a : Nat} {F : Prop} (x : Ctx) :
    CSpec a F (TimeOK x) (loadLatestOrCreateSystemKey x) (GoodFor ⟨.sk, 0⟩) := by
  unfold loadLatestOrCreateSystemKey
  apply CSpec.bind_frame (msLoadLatest_spec .sk) (fun _ _ _ => trivial) (Stable.timeOK x)
  intro ro
  apply CSpec.pre (P := fun w => TimeOK x w ∧ ∀ r, ro = some r → r ∈ w.store ∧ r.kid = .sk)
    (fun w _ h => ⟨h.1, fun r hr => latestRow_some (hr ▸ h.2).symm⟩)
  apply CSpec.bind_frame CSpec.get (fun _ _ _ => trivial) (by stable_auto)
  intro w0
  split
  · rename_i r
    apply CSpec.ite <;> intro _
    · apply CSpec.of_pre (C := r.kid = .sk) (systemKeyFromEKR_ext r) (fun w _ h => (h.1.2 r rfl).2)
      intro hrk
      exact (systemKeyFromEKR_cspec r hrk).weaken (fun w _ h => (h.1.2 r rfl).1) fun k w _ h => h.goodFor0
    · exact (createSK_cspec x).pre fun w _ h => h.1.1
  · exact (createSK_cspec x).pre fun w _ h => h.1.1

end AsherahVerif.Env
