import AsherahVerif.Proofs.CacheLookup
import AsherahVerif.Spec.CacheSpec
/-
C15 (strengthening): the observer specification `CacheSpec.Obs.step` (the monitor the driver runs
on the implementation's traces) accepts every trace of the model, and the observer's map is the
model's `items` as a finite map.  Refinement: model ⊑ bounded map with explicit leave events.
-/
namespace AsherahVerif.CacheSpec
open AsherahVerif.Cache

def mkeys (m : List (Nat × Nat)) : List Nat := m.map (·.1)

theorem find_none_iff {m : List (Nat × Nat)} {k : Nat} : find m k = none ↔ k ∉ mkeys m := by
  unfold find mkeys
  simp only [Option.map_eq_none_iff, List.find?_eq_none, List.mem_map]
  constructor
  · rintro h ⟨a, ha, rfl⟩; exact h a ha (by simp)
  · intro h a ha hk; exact h ⟨a, ha, by simpa using hk⟩

theorem find_drop (m : List (Nat × Nat)) (k j : Nat) :
    find (drop m k) j = if j = k then none else find m j := by
  induction m with
  | nil => simp [find, drop]
  | cons a t ih =>
    unfold find drop at *
    simp only [List.filter_cons, List.find?_cons]
    by_cases hak : a.1 = k
    · simp only [hak, bne_self_eq_false, Bool.false_eq_true, if_false]
      rw [ih]
      by_cases hjk : j = k
      · simp [hjk]
      · have : (k == j) = false := by simpa using fun e => hjk e.symm
        simp [hjk, this]
    · have hb : (a.1 != k) = true := by simpa using hak
      simp only [hb, if_true, List.find?_cons]
      by_cases haj : a.1 = j
      · have : j ≠ k := fun e => hak (haj.trans e)
        simp [haj, this]
      · have hb2 : (a.1 == j) = false := by simpa using haj
        simp only [hb2]
        exact ih

theorem find_append_new {m : List (Nat × Nat)} {k v : Nat} (hk : k ∉ mkeys m) (j : Nat) :
    find (m ++ [(k, v)]) j = if j = k then some v else find m j := by
  unfold find
  rw [List.find?_append]
  by_cases hjk : j = k
  · subst hjk
    have : find m j = none := find_none_iff.mpr hk
    unfold find at this
    simp only [Option.map_eq_none_iff] at this
    simp [this]
  · have : (k == j) = false := by simpa using fun e => hjk e.symm
    simp [hjk, this]

theorem drop_of_not_mem {m : List (Nat × Nat)} {k : Nat} (h : k ∉ mkeys m) : drop m k = m := by
  unfold drop
  rw [List.filter_eq_self]
  intro p hp
  have : p.1 ≠ k := fun e => h (List.mem_map.mpr ⟨p, hp, e⟩)
  simpa using this

theorem not_mem_drop (m : List (Nat × Nat)) (k : Nat) : k ∉ mkeys (drop m k) := by
  apply find_none_iff.mp
  rw [find_drop, if_pos rfl]

theorem nodup_drop {m : List (Nat × Nat)} (k : Nat) (h : (mkeys m).Nodup) : (mkeys (drop m k)).Nodup := by
  unfold mkeys drop
  exact List.Nodup.sublist (List.Sublist.map _ List.filter_sublist) h

theorem nodup_append_new {m : List (Nat × Nat)} {k v : Nat} (h : (mkeys m).Nodup) (hk : k ∉ mkeys m) :
    (mkeys (m ++ [(k, v)])).Nodup := by
  unfold mkeys at *
  simp only [List.map_append, List.map_cons, List.map_nil]
  rw [List.nodup_append]
  refine ⟨h, by simp, ?_⟩
  intro a ha b hb
  simp only [List.mem_singleton] at hb
  subst hb
  intro e; subst e; exact hk ha

theorem length_drop_of_find {m : List (Nat × Nat)} {k v : Nat} (hn : (mkeys m).Nodup) (h : find m k = some v) :
    (drop m k).length + 1 = m.length := by
  induction m with
  | nil => simp [find] at h
  | cons a t ih =>
    have hnt : (mkeys t).Nodup := by
      unfold mkeys at *; simp only [List.map_cons, List.nodup_cons] at hn; exact hn.2
    have hat : a.1 ∉ mkeys t := by
      unfold mkeys at *; simp only [List.map_cons, List.nodup_cons] at hn; exact hn.1
    by_cases hak : a.1 = k
    · have hne : (a.1 != k) = false := by simp [hak]
      have : drop (a :: t) k = drop t k := by
        unfold drop; simp only [List.filter_cons, hne, Bool.false_eq_true, if_false]
      rw [this, drop_of_not_mem (hak ▸ hat)]; simp
    · have hb : (a.1 == k) = false := by simpa using hak
      have hl : find t k = some v := by
        unfold find at h ⊢
        simpa only [List.find?_cons, hb] using h
      have hne : (a.1 != k) = true := by simp [hak]
      have : drop (a :: t) k = a :: drop t k := by
        unfold drop; simp only [List.filter_cons, hne, if_true]
      rw [this]
      have := ih hnt hl
      simp only [List.length_cons]; omega

/-- the observer's map `m` is the model's `items` as a finite map key ↦ val. -/
structure SimM (m : List (Nat × Nat)) (items : List Item) : Prop where
  nd : (mkeys m).Nodup
  pt : ∀ k, find m k = (lookup items k).map (·.val)
  len : m.length = items.length

theorem simM_nil : SimM [] [] := ⟨by simp [mkeys], fun k => by simp [find, lookup], rfl⟩

theorem SimM.eq_nil {m : List (Nat × Nat)} (h : SimM m []) : m = [] :=
  List.eq_nil_of_length_eq_zero (by rw [h.len]; rfl)

theorem simM_absent {m : List (Nat × Nat)} {items : List Item} (h : SimM m items) {k : Nat}
    (hk : lookup items k = none) : k ∉ mkeys m := by
  apply find_none_iff.mp; rw [h.pt, hk]; rfl

theorem simM_drop {m : List (Nat × Nat)} {items : List Item} (h : SimM m items)
    (hn : (keysOf items).Nodup) (k : Nat) : SimM (drop m k) (eraseKey items k) := by
  refine ⟨nodup_drop k h.nd, ?_, ?_⟩
  · intro j
    rw [find_drop, lookup_eraseKey]
    by_cases hjk : j = k
    · simp [hjk]
    · simp only [hjk, if_false]; exact h.pt j
  · cases hl : lookup items k with
    | none =>
      rw [drop_of_not_mem (simM_absent h hl)]
      have : eraseKey items k = items := by
        unfold eraseKey
        rw [List.filter_eq_self]
        intro a ha
        have hk := lookup_none.mp hl
        have : a.key ≠ k := fun e => hk (List.mem_map.mpr ⟨a, ha, e⟩)
        simpa using this
      rw [this]; exact h.len
    | some it =>
      have hkey := (lookup_some hl).2
      have hf : find m k = some it.val := by rw [h.pt, hl]; rfl
      have h1 := length_drop_of_find h.nd hf
      have h2 := length_eraseKey hn (by rw [hkey]; exact hl)
      rw [hkey] at h2
      have := h.len
      omega

/-- overwrite of a present key: the model updates in place, the observer drops and re-appends. -/
theorem simM_overwrite {m : List (Nat × Nat)} {items : List Item} (h : SimM m items) {k v e : Nat} {it : Item}
    (hl : lookup items k = some it) : SimM (drop m k ++ [(k, v)]) (setVal items k v e) := by
  have hf : find m k = some it.val := by rw [h.pt, hl]; rfl
  refine ⟨nodup_append_new (nodup_drop k h.nd) (not_mem_drop m k), ?_, ?_⟩
  · intro j
    rw [find_append_new (not_mem_drop m k), find_drop, lookup_setVal]
    by_cases hjk : j = k
    · simp [hjk, hl]
    · simp only [hjk, if_false]; exact h.pt j
  · have h1 := length_drop_of_find h.nd hf
    simp only [List.length_append, List.length_cons, List.length_nil, length_setVal]
    have := h.len; omega

/-- insertion of an absent key. -/
theorem simM_insert {m : List (Nat × Nat)} {items : List Item} (h : SimM m items) {k v e : Nat}
    (hl : lookup items k = none) : SimM (drop m k ++ [(k, v)]) (items ++ [⟨k, v, e⟩]) := by
  have hk := simM_absent h hl
  rw [drop_of_not_mem hk]
  refine ⟨nodup_append_new h.nd hk, ?_, ?_⟩
  · intro j
    rw [find_append_new hk, lookup_append_new (lookup_none.mp hl)]
    by_cases hjk : j = k
    · simp [hjk]
    · simp only [hjk, if_false]; exact h.pt j
  · simp only [List.length_append, List.length_cons, List.length_nil]
    have := h.len; omega

/-- the observer's state mirrors the cache. -/
structure Sim (o : Obs) (c : Cache) : Prop where
  cap : o.cap = c.cap
  closed : o.closed = c.closing
  map : SimM o.m c.items

theorem leave_one {m : List (Nat × Nat)} {k v : Nat} (h : find m k = some v) :
    leave m [(k, v)] = some (drop m k) := by
  simp [leave, h]

/-- `Close`'s eviction loop, seen by the observer: every callback matches a cached entry and after
the last one nothing is left. -/
theorem evictAll_leave (orc : Nat → Bool) :
    ∀ (n : Nat) (c : Cache) (acc : List (Nat × Nat)) (m : List (Nat × Nat)), Bij c → c.items.length ≤ n →
    SimM m c.items →
    ∃ c' cbs, evictAll orc n c acc = some (c', acc ++ cbs) ∧ c'.items = [] ∧
      c'.cap = c.cap ∧ c'.closing = c.closing ∧ leave m cbs = some [] := by
  intro n
  induction n with
  | zero =>
    intro c acc m hb hl hs
    have : c.items = [] := List.eq_nil_of_length_eq_zero (by omega)
    refine ⟨c, [], by simp [evictAll], this, rfl, rfl, ?_⟩
    rw [this] at hs; rw [hs.eq_nil]; rfl
  | succ n ih =>
    intro c acc m hb hl hs
    unfold evictAll
    by_cases hemp : c.items.isEmpty = true
    · have : c.items = [] := List.isEmpty_iff.mp hemp
      refine ⟨c, [], by simp [this], this, rfl, rfl, ?_⟩
      rw [this] at hs; rw [hs.eq_nil]; rfl
    · have hne : c.items ≠ [] := fun e => hemp (by simp [e])
      obtain ⟨it, hit, hv, hev⟩ := evict_spec hb hne (orc n)
      obtain ⟨hb1, hlen, hcap, hcl, _, _, _⟩ := evict_bij hb hev hne
      simp only [hemp, hev]
      have hs1 : SimM (drop m it.key) (eraseKey c.items it.key) := simM_drop hs hb.itemsNodup it.key
      obtain ⟨c', cbs, h1, h2, h4, h5, h6⟩ :=
        ih _ (acc ++ [(it.key, it.val)]) (drop m it.key) hb1 (by simp at hlen ⊢; omega) hs1
      refine ⟨c', (it.key, it.val) :: cbs, ?_, h2, by rw [h4], by rw [h5], ?_⟩
      · simp only [Bool.false_eq_true, if_false]; rw [h1]; simp
      · have hf : find m it.key = some it.val := by rw [hs.pt, hit]; rfl
        simp only [leave, hf, if_true]; exact h6

/-- **one step of the model is accepted by the monitor and keeps the simulation.** -/
theorem obs_step_sim {c : Cache} (h : Inv c) {o : Obs} (hs : Sim o c) (op : Op) (orc : Nat → Bool) :
    ∃ o', o.step op (step c op orc).res (step c op orc).cbs = some o' ∧ Sim o' (step c op orc).cache := by
  have hm := hs.map
  cases op with
  | tick d =>
    refine ⟨o, by simp [step, Obs.step, leave], ⟨hs.cap, hs.closed, hm⟩⟩
  | len =>
    refine ⟨o, ?_, hs⟩
    simp [step, Obs.step, leave, hm.len]
  | capacity =>
    refine ⟨o, ?_, hs⟩
    simp only [step, Obs.step, leave]
    split <;> simp
  | set k v =>
    simp only [step]
    by_cases hc : c.closing = true
    · rw [if_pos hc]
      have hoc : o.closed = true := by rw [hs.closed]; exact hc
      exact ⟨o, by simp [Obs.step, leave, hoc], hs⟩
    · rw [if_neg hc]
      have hoc : o.closed = false := by rw [hs.closed]; simpa using hc
      cases hl : lookup c.items k with
      | some it =>
        simp only
        have hsim := simM_overwrite (e := expireAt c) (v := v) hm hl
        have hlen : (drop o.m k ++ [(k, v)]).length ≤ o.cap := by
          rw [hsim.len, length_setVal, hs.cap]; exact h.size
        refine ⟨{ o with m := drop o.m k ++ [(k, v)] }, ?_, ⟨hs.cap, hs.closed, hsim⟩⟩
        simp [Obs.step, leave, hoc]; simpa using hlen
      | none =>
        simp only
        have hfk : find o.m k = none := by rw [hm.pt, hl]; rfl
        by_cases hfull : c.items.length = c.cap
        · rw [if_pos hfull]
          have hne : c.items ≠ [] := by
            intro e; rw [e] at hfull; simp at hfull; have := h.capPos; omega
          obtain ⟨it, hit, hv, hev⟩ := evict_spec h.toBij hne (orc 0)
          rw [hev]
          simp only
          have hf : find o.m it.key = some it.val := by rw [hm.pt, hit]; rfl
          have hs1 : SimM (drop o.m it.key) (eraseKey c.items it.key) := simM_drop hm h.itemsNodup it.key
          have hl1 : lookup (eraseKey c.items it.key) k = none := by
            rw [lookup_eraseKey]; split <;> first | rfl | exact hl
          have hsim := simM_insert (e := expireAt c) (v := v) hs1 hl1
          have hlen : (drop (drop o.m it.key) k ++ [(k, v)]).length ≤ o.cap := by
            rw [hsim.len, hs.cap]
            simp only [List.length_append, List.length_cons, List.length_nil]
            have := length_eraseKey h.itemsNodup hit
            omega
          refine ⟨{ o with m := drop (drop o.m it.key) k ++ [(k, v)] }, ?_, ⟨hs.cap, hs.closed, hsim⟩⟩
          simp [Obs.step, leave, hf, hoc, hfk]; simpa using hlen
        · rw [if_neg hfull]
          have hsim := simM_insert (e := expireAt c) (v := v) hm hl
          have hlen : (drop o.m k ++ [(k, v)]).length ≤ o.cap := by
            rw [hsim.len, hs.cap]
            simp only [List.length_append, List.length_cons, List.length_nil]
            have := h.size; omega
          refine ⟨{ o with m := drop o.m k ++ [(k, v)] }, ?_, ⟨hs.cap, hs.closed, hsim⟩⟩
          simp [Obs.step, leave, hoc, hfk]; simpa using hlen
  | get k =>
    simp only [step]
    by_cases hc : c.closing = true
    · rw [if_pos hc]
      have hoc : o.closed = true := by rw [hs.closed]; exact hc
      refine ⟨o, ?_, hs⟩
      obtain ⟨m, cl, cp⟩ := o
      simp only at hoc; subst hoc
      simp [Obs.step, leave]
    · rw [if_neg hc]
      have hoc : o.closed = false := by rw [hs.closed]; simpa using hc
      cases hl : lookup c.items k with
      | none =>
        simp only
        have hfk : find o.m k = none := by rw [hm.pt, hl]; rfl
        refine ⟨o, ?_, hs⟩
        obtain ⟨m, cl, cp⟩ := o
        simp only at hfk
        simp [Obs.step, leave, hfk]
      | some it =>
        simp only
        have hkey := (lookup_some hl).2
        have hf : find o.m k = some it.val := by rw [hm.pt, hl]; rfl
        by_cases hexp : c.expiry > 0 ∧ it.exp < c.now
        · rw [if_pos hexp]
          simp only [evictItem, hkey]
          have hs1 : SimM (drop o.m k) (eraseKey c.items k) := simM_drop hm h.itemsNodup k
          refine ⟨{ o with m := drop o.m k }, ?_, ⟨hs.cap, hs.closed, hs1⟩⟩
          have hfd : find (drop o.m k) k = none := by rw [find_drop, if_pos rfl]
          simp [Obs.step, leave, hf, hfd]
        · rw [if_neg hexp]
          refine ⟨o, ?_, ⟨hs.cap, hs.closed, hm⟩⟩
          simp [Obs.step, leave, hf, hoc]
  | del k =>
    simp only [step]
    by_cases hc : c.closing = true
    · rw [if_pos hc]
      have hoc : o.closed = true := by rw [hs.closed]; exact hc
      exact ⟨o, by simp [Obs.step, leave, hoc], hs⟩
    · rw [if_neg hc]
      have hoc : o.closed = false := by rw [hs.closed]; simpa using hc
      cases hl : lookup c.items k with
      | none =>
        simp only
        have hfk : find o.m k = none := by rw [hm.pt, hl]; rfl
        refine ⟨{ o with m := drop o.m k }, by simp [Obs.step, leave, hoc, hfk], ⟨hs.cap, hs.closed, ?_⟩⟩
        show SimM (drop o.m k) c.items
        rw [drop_of_not_mem (simM_absent hm hl)]; exact hm
      | some it =>
        simp only
        have hf : find o.m k = some it.val := by rw [hm.pt, hl]; rfl
        exact ⟨{ o with m := drop o.m k }, by simp [Obs.step, leave, hoc, hf],
          ⟨hs.cap, hs.closed, simM_drop hm h.itemsNodup k⟩⟩
  | close =>
    simp only [step]
    by_cases hc : c.closing = true
    · rw [if_pos hc]
      have hoc : o.closed = true := by rw [hs.closed]; exact hc
      exact ⟨o, by simp [Obs.step, leave, hoc], hs⟩
    · rw [if_neg hc]
      have hoc : o.closed = false := by rw [hs.closed]; simpa using hc
      have hb : Bij { c with closing := true } := ⟨h.itemsNodup, h.polNodup, h.same⟩
      obtain ⟨c', cbs, h1, h2, h4, h5, h6⟩ :=
        evictAll_leave orc c.items.length { c with closing := true } [] o.m hb (Nat.le_refl _) hm
      simp only [List.nil_append] at h1
      rw [h1]
      simp only
      refine ⟨{ o with m := [], closed := true }, by simp [Obs.step, h6, hoc], ⟨?_, ?_, ?_⟩⟩
      · show o.cap = c'.cap; rw [h4]; exact hs.cap
      · show true = c'.closing; rw [h5]
      · show SimM [] c'.items; rw [h2]; exact simM_nil

/-- fold the monitor over the model's own outputs. -/
def monRun (o : Obs) (c : Cache) : List (Op × (Nat → Bool)) → Option Obs
  | [] => some o
  | (op, orc) :: rest =>
    let out := step c op orc
    match o.step op out.res out.cbs with
    | none => none
    | some o' => monRun o' out.cache rest

theorem monRun_accepts {c : Cache} (h : Inv c) {o : Obs} (hs : Sim o c) (ops : List (Op × (Nat → Bool))) :
    ∃ o', monRun o c ops = some o' ∧ Sim o' (run c ops).1 := by
  induction ops generalizing c o with
  | nil => exact ⟨o, rfl, hs⟩
  | cons a t ih =>
    obtain ⟨op, orc⟩ := a
    obtain ⟨o1, h1, hs1⟩ := obs_step_sim h hs op orc
    obtain ⟨o', h2, hs2⟩ := ih (step_inv h op orc).1 hs1
    refine ⟨o', ?_, ?_⟩
    · simp only [monRun, h1]; exact h2
    · simp only [run]; exact hs2

theorem sim_mk (kind : Kind) (cap expiry protCap winCap : Nat) :
    Sim { cap := cap } (mk kind cap expiry protCap winCap) :=
  ⟨rfl, rfl, simM_nil⟩

end AsherahVerif.CacheSpec

namespace AsherahVerif.CacheSpec
open AsherahVerif.Cache

/-! ### histories: what a key holds according to the trace alone -/

/-- one observed event: operation, result, eviction callbacks (in order). -/
abbrev Ev := Op × Res × List (Nat × Nat)

/-- the model's own trace. -/
def trace (c : Cache) : List (Op × (Nat → Bool)) → List Ev
  | [] => []
  | (op, orc) :: rest => (op, (step c op orc).res, (step c op orc).cbs) :: trace (step c op orc).cache rest

theorem trace_run (c : Cache) (ops : List (Op × (Nat → Bool))) :
    (run c ops).2 = (trace c ops).map fun e => (e.2.1, e.2.2) := by
  induction ops generalizing c with
  | nil => rfl
  | cons a t ih => obtain ⟨op, orc⟩ := a; simp only [run, trace, List.map_cons, ih]

theorem trace_append (c : Cache) (a b : List (Op × (Nat → Bool))) :
    trace c (a ++ b) = trace c a ++ trace (run c a).1 b := by
  induction a generalizing c with
  | nil => rfl
  | cons x t ih => obtain ⟨op, orc⟩ := x; simp only [List.cons_append, trace, run, ih]

/-- fold the monitor over a trace. -/
def monTrace (o : Obs) : List Ev → Option Obs
  | [] => some o
  | (op, res, cbs) :: rest =>
    match o.step op res cbs with
    | none => none
    | some o' => monTrace o' rest

theorem monRun_eq (o : Obs) (c : Cache) (ops : List (Op × (Nat → Bool))) :
    monRun o c ops = monTrace o (trace c ops) := by
  induction ops generalizing o c with
  | nil => rfl
  | cons a t ih =>
    obtain ⟨op, orc⟩ := a
    simp only [monRun, trace, monTrace]
    cases o.step op (step c op orc).res (step c op orc).cbs with
    | none => rfl
    | some o' => exact ih o' _

/-- what key `k` holds after one more event, judged from the event alone:
a callback for `k` means it left; `Set k v` (cache open) means it holds `v`; `Delete k` and `Close`
mean it holds nothing; everything else leaves it alone. State = (value held, cache closed). -/
def keyStep (k : Nat) (s : Option Nat × Bool) (e : Ev) : Option Nat × Bool :=
  let cur := if k ∈ e.2.2.map (·.1) then none else s.1
  match e.1 with
  | .set k' v => if s.2 then (cur, s.2) else if k' = k then (some v, s.2) else (cur, s.2)
  | .del k' => if s.2 then (cur, s.2) else if k' = k then (none, s.2) else (cur, s.2)
  | .close => if s.2 then (cur, true) else (none, true)
  | _ => (cur, s.2)

/-- the value most recently set for `k` and not since reported gone / deleted / closed. -/
def held (k : Nat) (tr : List Ev) : Option Nat × Bool := tr.foldl (keyStep k) (none, false)

theorem leave_spec : ∀ (cbs m m1 : List (Nat × Nat)), leave m cbs = some m1 →
    (cbs.map (·.1)).Nodup ∧ (∀ k v, (k, v) ∈ cbs → find m k = some v) ∧
    (∀ k, find m1 k = if k ∈ cbs.map (·.1) then none else find m k) := by
  intro cbs
  induction cbs with
  | nil =>
    intro m m1 h
    simp only [leave] at h; injection h with h; subst h
    exact ⟨by simp, by simp, by simp⟩
  | cons a rest ih =>
    intro m m1 h
    obtain ⟨k', v'⟩ := a
    simp only [leave] at h
    split at h
    · next hf =>
      obtain ⟨h1, h2, h3⟩ := ih _ _ h
      have hk' : k' ∉ rest.map (·.1) := by
        intro hm
        obtain ⟨p, hp, hpk⟩ := List.mem_map.mp hm
        have := h2 p.1 p.2 hp
        rw [find_drop, hpk, if_pos rfl] at this; cases this
      refine ⟨?_, ?_, ?_⟩
      · simp only [List.map_cons, List.nodup_cons]; exact ⟨hk', h1⟩
      · intro k v hm
        rcases List.mem_cons.mp hm with e | e
        · injection e with e1 e2; rw [e1, e2]; exact hf
        · have := h2 k v e
          rw [find_drop] at this
          split at this
          · cases this
          · exact this
      · intro k
        rw [h3 k, find_drop]
        simp only [List.map_cons, List.mem_cons]
        by_cases hkk : k = k'
        · simp [hkk]
        · by_cases hkr : k ∈ rest.map (·.1)
          · simp [hkr]
          · simp [hkk, hkr]
    · cases h

theorem obs_step_key (k : Nat) {o o' : Obs} {op : Op} {res : Res} {cbs : List (Nat × Nat)}
    (h : o.step op res cbs = some o') :
    (find o'.m k, o'.closed) = keyStep k (find o.m k, o.closed) (op, res, cbs) := by
  unfold Obs.step at h
  split at h
  · cases h
  · split at h
    · cases h
    · next m1 heq =>
      obtain ⟨_, _, hl⟩ := leave_spec _ _ _ heq
      have hlk := hl k
      cases op with
      | tick d =>
        simp only at h; split at h
        · next hc => injection h with h; subst h; simp [keyStep, hc.1]
        · cases h
      | len =>
        simp only at h; split at h
        · next hc => injection h with h; subst h; simp [keyStep, hc.1]
        · cases h
      | capacity =>
        simp only at h; split at h
        · next hc => injection h with h; subst h; simp [keyStep, hc]
        · cases h
      | set k' v =>
        simp only at h
        split at h
        · cases h
        · split at h
          · next hcl =>
            split at h
            · next hc => injection h with h; subst h; simp [keyStep, hcl, hc]
            · cases h
          · next hcl =>
            split at h
            · cases h
            · split at h
              · injection h with h; subst h
                have hcl' : o.closed = false := by simpa using hcl
                simp only [keyStep, hcl', Bool.false_eq_true, if_false]
                rw [find_append_new (not_mem_drop m1 k'), find_drop]
                by_cases hkk : k' = k
                · subst hkk; simp
                · have : ¬ k = k' := fun e => hkk e.symm
                  simp only [hkk, this, if_false]; rw [hlk]
              · cases h
      | get k' =>
        simp only at h
        split at h
        · split at h
          · next hc => injection h with h; subst h; simp [keyStep, hc.1]
          · cases h
        · split at h
          · injection h with h; subst h
            simp only [keyStep]; rw [hlk]
          · cases h
        · cases h
      | del k' =>
        simp only at h
        split at h
        · cases h
        · next hc =>
          have hc' : cbs = [] := by simpa using hc
          split at h
          · next hcl =>
            split at h
            · injection h with h; subst h; simp [keyStep, hcl, hc']
            · cases h
          · next hcl =>
            split at h
            · injection h with h; subst h
              have hcl' : o.closed = false := by simpa using hcl
              simp only [keyStep, hcl', Bool.false_eq_true, if_false, hc', List.map_nil, List.not_mem_nil]
              rw [find_drop]
              by_cases hkk : k' = k
              · subst hkk; simp
              · have : ¬ k = k' := fun e => hkk e.symm
                simp only [hkk, this, if_false]
            · cases h
      | close =>
        simp only at h
        split at h
        · cases h
        · split at h
          · next hcl =>
            split at h
            · next hc => injection h with h; subst h; simp [keyStep, hcl, hc]
            · cases h
          · next hcl =>
            split at h
            · injection h with h; subst h
              have hcl' : o.closed = false := by simpa using hcl
              simp [keyStep, hcl', find]
            · cases h

/-- what an accepted event's callbacks say: distinct keys, each one a cached entry with the value it
held; a key that is not reported, not overwritten and not deleted keeps its value. -/
theorem obs_step_cbs {o o' : Obs} {op : Op} {res : Res} {cbs : List (Nat × Nat)}
    (h : o.step op res cbs = some o') :
    (cbs.map (·.1)).Nodup ∧ (∀ k v, (k, v) ∈ cbs → find o.m k = some v) := by
  unfold Obs.step at h
  split at h
  · cases h
  · split at h
    · cases h
    · next m1 heq =>
      obtain ⟨h1, h2, _⟩ := leave_spec _ _ _ heq
      exact ⟨h1, h2⟩

/-- **per-key view of a whole history**: what the trace alone says key `k` holds is what the model
holds, after any operation sequence. -/
theorem held_fold {c : Cache} (h : Inv c) {o : Obs} (hs : Sim o c) (k : Nat) (ops : List (Op × (Nat → Bool))) :
    (trace c ops).foldl (keyStep k) (find o.m k, o.closed) =
      ((lookup (run c ops).1.items k).map (·.val), (run c ops).1.closing) := by
  induction ops generalizing c o with
  | nil => simp only [trace, List.foldl_nil, run]; rw [hs.map.pt, hs.closed]
  | cons a t ih =>
    obtain ⟨op, orc⟩ := a
    obtain ⟨o1, h1, hs1⟩ := obs_step_sim h hs op orc
    have hk := obs_step_key k h1
    simp only [trace, List.foldl_cons, run]
    rw [← hk]
    exact ih (step_inv h op orc).1 hs1

end AsherahVerif.CacheSpec

namespace AsherahVerif.CacheSpec
open AsherahVerif.Cache

theorem obs_set_evict {o o' : Obs} {k' v : Nat} {res : Res} {cbs : List (Nat × Nat)}
    (h : o.step (.set k' v) res cbs = some o') (hc : cbs ≠ []) : find o.m k' = none := by
  unfold Obs.step at h
  split at h
  · cases h
  · split at h
    · cases h
    · simp only at h
      split at h
      · cases h
      · split at h
        · cases h
        · split at h
          · cases h
          · next hn =>
            cases hf : find o.m k' with
            | none => rfl
            | some x => exact absurd ⟨by rw [hf]; rfl, hc⟩ hn

theorem obs_close_all {o o' : Obs} {res : Res} {cbs : List (Nat × Nat)}
    (h : o.step .close res cbs = some o') (hcl : o.closed = false) {k v : Nat} (hf : find o.m k = some v) :
    k ∈ cbs.map (·.1) := by
  unfold Obs.step at h
  split at h
  · cases h
  · split at h
    · cases h
    · next m1 heq =>
      obtain ⟨_, _, hl⟩ := leave_spec _ _ _ heq
      simp only at h
      split at h
      · cases h
      · rw [hcl] at h
        simp only [Bool.false_eq_true, if_false] at h
        split at h
        · next hm =>
          apply Classical.byContradiction; intro hn
          have := hl k
          rw [if_neg hn, hf, hm] at this
          simp [find] at this
        · cases h

/-- **callbacks are exact** (monitor level): an accepted event reports distinct keys; each reported
key was cached with exactly the reported value and is not cached afterwards; and a cached entry
survives the event unchanged unless it is reported, overwritten by `Set` or removed by `Delete`. -/
theorem obs_step_exact {o o' : Obs} {op : Op} {res : Res} {cbs : List (Nat × Nat)}
    (h : o.step op res cbs = some o') :
    (cbs.map (·.1)).Nodup ∧
    (∀ k v, (k, v) ∈ cbs → find o.m k = some v ∧ find o'.m k = none) ∧
    (∀ k v, find o.m k = some v →
      (k, v) ∈ cbs ∨ find o'.m k = some v ∨ (∃ v', op = .set k v') ∨ op = .del k) := by
  obtain ⟨hnd, hval⟩ := obs_step_cbs h
  refine ⟨hnd, ?_, ?_⟩
  · intro k v hm
    refine ⟨hval k v hm, ?_⟩
    have hk := obs_step_key k h
    have hmem : k ∈ cbs.map (·.1) := List.mem_map.mpr ⟨(k, v), hm, rfl⟩
    have hne : cbs ≠ [] := fun e => by rw [e] at hm; cases hm
    have e1 : find o'.m k = (keyStep k (find o.m k, o.closed) (op, res, cbs)).1 := by rw [← hk]
    rw [e1]
    cases op with
    | set k' v' =>
      simp only [keyStep, hmem, if_true]
      by_cases hcl : o.closed = true
      · simp [hcl]
      · simp only [hcl]
        by_cases hkk : k' = k
        · subst hkk
          have := obs_set_evict h hne
          rw [hval k' v hm] at this; cases this
        · simp [hkk]
    | del k' =>
      simp only [keyStep, hmem, if_true]
      by_cases hcl : o.closed = true
      · simp [hcl]
      · simp only [hcl]; split <;> simp
    | close => simp only [keyStep, hmem, if_true]; split <;> simp
    | tick d => simp only [keyStep, hmem, if_true]
    | len => simp only [keyStep, hmem, if_true]
    | capacity => simp only [keyStep, hmem, if_true]
    | get k' => simp only [keyStep, hmem, if_true]
  · intro k v hf
    have hk := obs_step_key k h
    have e1 : find o'.m k = (keyStep k (find o.m k, o.closed) (op, res, cbs)).1 := by rw [← hk]
    by_cases hmem : k ∈ cbs.map (·.1)
    · left
      obtain ⟨p, hp, hpk⟩ := List.mem_map.mp hmem
      have := hval p.1 p.2 hp
      rw [hpk, hf] at this
      injection this with this
      have : p = (k, v) := by rw [← hpk, this]
      rw [← this]; exact hp
    · right
      rw [e1]
      cases op with
      | set k' v' =>
        simp only [keyStep, hmem, if_false]
        by_cases hcl : o.closed = true
        · left; simp [hcl, hf]
        · simp only [hcl]
          by_cases hkk : k' = k
          · right; left; exact ⟨v', by rw [hkk]⟩
          · left; simp [hkk, hf]
      | del k' =>
        simp only [keyStep, hmem, if_false]
        by_cases hcl : o.closed = true
        · left; simp [hcl, hf]
        · simp only [hcl]
          by_cases hkk : k' = k
          · right; right; rw [hkk]
          · left; simp [hkk, hf]
      | close =>
        by_cases hcl : o.closed = true
        · left; simp [keyStep, hmem, hcl, hf]
        · exact absurd (obs_close_all h (by simpa using hcl) hf) hmem
      | tick d => left; simp only [keyStep, hmem, if_false]; exact hf
      | len => left; simp only [keyStep, hmem, if_false]; exact hf
      | capacity => left; simp only [keyStep, hmem, if_false]; exact hf
      | get k' => left; simp only [keyStep, hmem, if_false]; exact hf

/-- the monitor state after a model history, one more model step, and the simulation around it. -/
theorem step_view {c0 : Cache} (h0 : Inv c0) {o0 : Obs} (hs0 : Sim o0 c0)
    (ops : List (Op × (Nat → Bool))) (op : Op) (orc : Nat → Bool) :
    ∃ o o', monTrace o0 (trace c0 ops) = some o ∧ Sim o (run c0 ops).1 ∧
      o.step op (step (run c0 ops).1 op orc).res (step (run c0 ops).1 op orc).cbs = some o' ∧
      Sim o' (step (run c0 ops).1 op orc).cache := by
  obtain ⟨o, h1, hs1⟩ := monRun_accepts h0 hs0 ops
  rw [monRun_eq] at h1
  obtain ⟨o', h2, hs2⟩ := obs_step_sim (run_inv h0 ops).1 hs1 op orc
  exact ⟨o, o', h1, hs1, h2, hs2⟩

theorem held_eq_obs {c0 : Cache} (h0 : Inv c0) {o0 : Obs} (hs0 : Sim o0 c0) (hm0 : o0.m = []) (hc0 : o0.closed = false)
    (ops : List (Op × (Nat → Bool))) {o : Obs} (hs : Sim o (run c0 ops).1) (k : Nat) :
    held k (trace c0 ops) = (find o.m k, o.closed) := by
  have := held_fold h0 hs0 k ops
  rw [hm0, hc0] at this
  unfold held
  have e : find ([] : List (Nat × Nat)) k = none := rfl
  rw [e] at this
  rw [this, hs.map.pt, hs.closed]

end AsherahVerif.CacheSpec

namespace AsherahVerif.CacheSpec
open AsherahVerif.Cache

theorem obs_step_cap {o o' : Obs} {op : Op} {res : Res} {cbs : List (Nat × Nat)}
    (h : o.step op res cbs = some o') : o'.cap = o.cap := by
  unfold Obs.step at h
  split at h
  · cases h
  · split at h
    · cases h
    · cases op <;> simp only at h <;> (repeat' split at h)
      all_goals (first | (injection h with h; subst h; rfl) | cases h)

theorem monTrace_cap : ∀ (tr : List Ev) (o o' : Obs), monTrace o tr = some o' → o'.cap = o.cap := by
  intro tr
  induction tr with
  | nil => intro o o' h; simp only [monTrace] at h; injection h with h; rw [h]
  | cons e t ih =>
    intro o o' h
    obtain ⟨op, res, cbs⟩ := e
    simp only [monTrace] at h
    cases hst : o.step op res cbs with
    | none => rw [hst] at h; cases h
    | some o1 =>
      rw [hst] at h
      rw [ih o1 o' h]
      exact obs_step_cap hst

end AsherahVerif.CacheSpec
