import AsherahVerif.Proofs.ExtraCacheLru
/-
C15 (strengthening): LFU with REAL use counts.  Ghost functions over the observable history:
`useCount k tr` = number of uses of `k` (`Set k _` on an open cache, `Get k` hits) since it was last
admitted (i.e. since the last callback for `k`, `Delete k` or `Close`), and `lastTouch k tr`.
After any history on an LFU cache the policy's `ents` list holds, for every live key, exactly its
`useCount`, and lists the keys in increasing order of `lastTouch`; hence the victim is the live key
with the smallest use count and, among those, the least recently used.
-/
namespace AsherahVerif.CacheSpec
open AsherahVerif.Cache

theorem lfuFreq_eq_find (e : List (Nat × Nat)) (k : Nat) : lfuFreq e k = find e k := rfl
theorem lfuErase_eq_drop (e : List (Nat × Nat)) (k : Nat) : lfuErase e k = drop e k := rfl

/-- uses of `k` since its last admission, and whether the cache has been closed. -/
def countStep (k : Nat) (s : Nat × Bool) (e : Ev) : Nat × Bool :=
  let cur := if k ∈ e.2.2.map (·.1) then 0 else s.1
  match e.1, e.2.1 with
  | .set k' _, _ => if s.2 then (cur, s.2) else if k' = k then (cur + 1, s.2) else (cur, s.2)
  | .get k', .val _ => if k' = k then (cur + 1, s.2) else (cur, s.2)
  | .del k', _ => if s.2 then (cur, s.2) else if k' = k then (0, s.2) else (cur, s.2)
  | .close, _ => (0, true)
  | _, _ => (cur, s.2)

def useCountSt (k : Nat) (tr : List Ev) : Nat × Bool := tr.foldl (countStep k) (0, false)
def useCount (k : Nat) (tr : List Ev) : Nat := (useCountSt k tr).1

theorem useCountSt_snoc (k : Nat) (tr : List Ev) (e : Ev) :
    useCountSt k (tr ++ [e]) = countStep k (useCountSt k tr) e := by
  unfold useCountSt; rw [List.foldl_append]; rfl

theorem lfuIncr_eq (e : List (Nat × Nat)) (k : Nat) :
    lfuIncr e k = drop e k ++ [(k, (find e k).getD 0 + 1)] := by
  unfold lfuIncr
  rw [lfuFreq_eq_find]
  cases hf : find e k with
  | none => simp only; rw [drop_of_not_mem (find_none_iff.mp hf)]; rfl
  | some f => rfl

theorem find_incr (e : List (Nat × Nat)) (k j : Nat) :
    find (lfuIncr e k) j = if j = k then some ((find e k).getD 0 + 1) else find e j := by
  rw [lfuIncr_eq, find_append_new (not_mem_drop e k), find_drop]
  by_cases hjk : j = k <;> simp [hjk]

theorem mkeys_incr (e : List (Nat × Nat)) (k : Nat) : mkeys (lfuIncr e k) = mkeys (drop e k) ++ [k] := by
  rw [lfuIncr_eq]; simp [mkeys]

theorem mkeys_drop_sublist (e : List (Nat × Nat)) (k : Nat) : (mkeys (drop e k)).Sublist (mkeys e) := by
  unfold mkeys drop
  exact List.Sublist.map _ List.filter_sublist

/-- increasing last-touch stamps (oldest first). -/
def Asc (lt : Nat → Nat) (o : List Nat) : Prop := o.Pairwise (fun a b => lt a < lt b)

theorem asc_sub {lt lt' : Nat → Nat} {o o' : List Nat} (hs : Asc lt o) (hsub : o'.Sublist o)
    (heq : ∀ a, a ∈ o' → lt' a = lt a) : Asc lt' o' := by
  have := List.Pairwise.sublist hsub hs
  apply this.imp_of_mem
  intro a b ha hb hab
  rw [heq a ha, heq b hb]; exact hab

theorem asc_back {lt lt' : Nat → Nat} {o o' : List Nat} {k n : Nat} (hs : Asc lt o) (hsub : o'.Sublist o)
    (hk : k ∉ o') (hle : ∀ a, lt a ≤ n) (hkn : lt' k = n + 1) (heq : ∀ a, a ≠ k → lt' a = lt a) :
    Asc lt' (o' ++ [k]) := by
  have hne : ∀ a, a ∈ o' → a ≠ k := fun a ha e => hk (e ▸ ha)
  have h1 := asc_sub (lt' := lt') hs hsub (fun a ha => heq a (hne a ha))
  unfold Asc
  rw [List.pairwise_append]
  refine ⟨h1, by simp, ?_⟩
  intro a ha b hb
  simp only [List.mem_singleton] at hb
  subst hb
  rw [heq a (hne a ha), hkn]
  have := hle a; omega

/-- the LFU refinement invariant. -/
def LfuOk (c : Cache) (tr : List Ev) : Prop :=
  ∃ e, c.pol = .lfu e ∧ (∀ j, useCountSt j tr = ((find e j).getD 0, c.closing)) ∧
    Asc (fun a => lastTouch a tr) (mkeys e)

theorem evictAll_lfu (orc : Nat → Bool) : ∀ (n : Nat) (c : Cache) (acc : List (Nat × Nat)) (c' : Cache)
    (r : List (Nat × Nat)) (e : List (Nat × Nat)), c.pol = .lfu e → evictAll orc n c acc = some (c', r) →
    ∃ e', c'.pol = .lfu e' := by
  intro n
  induction n with
  | zero =>
    intro c acc c' r e hp he
    simp only [evictAll] at he
    injection he with he; injection he with h1 _; subst h1; exact ⟨e, hp⟩
  | succ n ih =>
    intro c acc c' r e hp he
    unfold evictAll at he
    split at he
    · injection he with he; injection he with h1 _; subst h1; exact ⟨e, hp⟩
    · split at he
      · cases he
      · next c1 cbs hev =>
        have : ∃ e1, c1.pol = .lfu e1 := by
          unfold evict at hev
          rw [hp] at hev
          simp only [Pol.victim] at hev
          cases hg : lfuVictim e with
          | none => rw [hg] at hev; cases hev
          | some k =>
            rw [hg] at hev
            simp only at hev
            cases hl : lookup c.items k with
            | none => rw [hl] at hev; cases hev
            | some it =>
              rw [hl] at hev
              simp only [evictItem] at hev
              injection hev with hev
              injection hev with h1 h2
              subst h1
              exact ⟨_, rfl⟩
        obtain ⟨e1, he1⟩ := this
        exact ih c1 _ c' r e1 he1 he

theorem lfu_step {c : Cache} (h : Inv c) {pre : List Ev} (hJ : LfuOk c pre) (op : Op) (orc : Nat → Bool) :
    LfuOk (step c op orc).cache (pre ++ [(op, (step c op orc).res, (step c op orc).cbs)]) := by
  obtain ⟨e, hp, hcnt, hs⟩ := hJ
  have hle : ∀ a, lastTouch a pre ≤ pre.length := fun a => lastTouch_le a pre
  have hkeys : c.pol.keys = mkeys e := by rw [hp]; rfl
  have quiet : ∀ (ev : Ev) (o' : List Nat), (∀ a, touches a ev = false) → o'.Sublist (mkeys e) →
      Asc (fun a => lastTouch a (pre ++ [ev])) o' := by
    intro ev o' hn hsub
    exact asc_sub hs hsub (fun a _ => lt_untouched hn a)
  have back : ∀ (ev : Ev) (o' : List Nat) (k : Nat), (∀ a, touches a ev = (k == a)) → o'.Sublist (mkeys e) → k ∉ o' →
      Asc (fun a => lastTouch a (pre ++ [ev])) (o' ++ [k]) := by
    intro ev o' k hk hsub hko
    obtain ⟨h1, h2⟩ := lt_touched (pre := pre) hk
    exact asc_back hs hsub hko hle h1 h2
  have hempty : c.closing = true → e = [] := by
    intro hc
    have hi := h.closed hc
    cases he : e with
    | nil => rfl
    | cons a t =>
      have : a.1 ∈ c.pol.keys := by rw [hkeys, he]; simp [mkeys]
      have := (h.same a.1).mp this
      rw [hi] at this; simp [keysOf] at this
  have absent : ∀ k, lookup c.items k = none → find e k = none := by
    intro k hl
    apply find_none_iff.mpr
    intro hm
    have : k ∈ c.pol.keys := by rw [hkeys]; exact hm
    exact (lookup_none.mp hl) ((h.same k).mp this)
  cases op with
  | tick d =>
    refine ⟨e, hp, ?_, quiet _ _ (fun a => rfl) (List.Sublist.refl _)⟩
    intro j; rw [useCountSt_snoc, hcnt j]; simp [countStep, step]
  | len =>
    refine ⟨e, hp, ?_, quiet _ _ (fun a => rfl) (List.Sublist.refl _)⟩
    intro j; rw [useCountSt_snoc, hcnt j]; simp [countStep, step]
  | capacity =>
    refine ⟨e, hp, ?_, quiet _ _ (fun a => rfl) (List.Sublist.refl _)⟩
    intro j; rw [useCountSt_snoc, hcnt j]; simp [countStep, step]
  | set k v =>
    simp only [step]
    by_cases hc : c.closing = true
    · rw [if_pos hc]
      refine ⟨e, hp, ?_, ?_⟩
      · intro j; rw [useCountSt_snoc, hcnt j]; simp [countStep, hc]
      · rw [hempty hc]; exact List.Pairwise.nil
    · rw [if_neg hc]
      have hc' : c.closing = false := by simpa using hc
      cases hl : lookup c.items k with
      | some it =>
        simp only
        refine ⟨lfuIncr e k, by rw [hp]; rfl, ?_, ?_⟩
        · intro j
          rw [useCountSt_snoc, hcnt j, find_incr]
          by_cases hjk : j = k
          · subst hjk; simp [countStep, hc']
          · have : ¬ k = j := fun e => hjk e.symm
            simp [countStep, hc', hjk, this]
        · rw [mkeys_incr]
          exact back _ _ k (fun a => rfl) (mkeys_drop_sublist e k) (not_mem_drop e k)
      | none =>
        simp only
        have hfk := absent k hl
        by_cases hfull : c.items.length = c.cap
        · rw [if_pos hfull]
          have hne : c.items ≠ [] := by
            intro e'; rw [e'] at hfull; simp at hfull; have := h.capPos; omega
          obtain ⟨it, hit, hv, hev⟩ := evict_spec h.toBij hne (orc 0)
          rw [hev]
          simp only
          have hxk : it.key ≠ k := by
            intro e'; rw [e'] at hit; rw [hl] at hit; cases hit
          have hpol : ((c.pol.victim (orc 0)).2.remove it.key).admit k = .lfu (lfuIncr (drop e it.key) k) := by
            rw [hp]; rfl
          refine ⟨lfuIncr (drop e it.key) k, hpol, ?_, ?_⟩
          · intro j
            rw [useCountSt_snoc, hcnt j, find_incr, find_drop]
            by_cases hjk : j = k
            · subst hjk
              have : ¬ j = it.key := fun e => hxk e.symm
              simp [countStep, hc', this, hfk]
            · have h1 : ¬ k = j := fun e => hjk e.symm
              by_cases hjx : j = it.key
              · subst hjx; simp [countStep, hc', hjk, h1, find_drop]
              · have h2 : ¬ it.key = j := fun e => hjx e.symm
                simp [countStep, hc', hjk, h1, hjx, find_drop]
          · rw [mkeys_incr]
            refine back _ _ k (fun a => rfl) ?_ (not_mem_drop _ k)
            exact (mkeys_drop_sublist _ k).trans (mkeys_drop_sublist e it.key)
        · rw [if_neg hfull]
          simp only
          refine ⟨lfuIncr e k, by rw [hp]; rfl, ?_, ?_⟩
          · intro j
            rw [useCountSt_snoc, hcnt j, find_incr]
            by_cases hjk : j = k
            · subst hjk; simp [countStep, hc']
            · have : ¬ k = j := fun e => hjk e.symm
              simp [countStep, hc', hjk, this]
          · rw [mkeys_incr]
            exact back _ _ k (fun a => rfl) (mkeys_drop_sublist e k) (not_mem_drop e k)
  | get k =>
    simp only [step]
    by_cases hc : c.closing = true
    · rw [if_pos hc]
      refine ⟨e, hp, ?_, quiet _ _ (fun a => rfl) (List.Sublist.refl _)⟩
      intro j; rw [useCountSt_snoc, hcnt j]; simp [countStep]
    · rw [if_neg hc]
      cases hl : lookup c.items k with
      | none =>
        refine ⟨e, hp, ?_, quiet _ _ (fun a => rfl) (List.Sublist.refl _)⟩
        intro j; rw [useCountSt_snoc, hcnt j]; simp [countStep]
      | some it =>
        simp only
        have hkey := (lookup_some hl).2
        by_cases hexp : c.expiry > 0 ∧ it.exp < c.now
        · rw [if_pos hexp]
          simp only [evictItem, hkey]
          refine ⟨drop e k, by rw [hp]; rfl, ?_, quiet _ _ (fun a => rfl) (mkeys_drop_sublist e k)⟩
          intro j
          rw [useCountSt_snoc, hcnt j, find_drop]
          by_cases hjk : j = k
          · subst hjk; simp [countStep]
          · simp [countStep, hjk]
        · rw [if_neg hexp]
          simp only
          refine ⟨lfuIncr e k, by rw [hp]; rfl, ?_, ?_⟩
          · intro j
            rw [useCountSt_snoc, hcnt j, find_incr]
            by_cases hjk : j = k
            · subst hjk; simp [countStep]
            · have : ¬ k = j := fun e => hjk e.symm
              simp [countStep, hjk, this]
          · rw [mkeys_incr]
            exact back _ _ k (fun a => rfl) (mkeys_drop_sublist e k) (not_mem_drop e k)
  | del k =>
    simp only [step]
    by_cases hc : c.closing = true
    · rw [if_pos hc]
      refine ⟨e, hp, ?_, quiet _ _ (fun a => rfl) (List.Sublist.refl _)⟩
      intro j; rw [useCountSt_snoc, hcnt j]; simp [countStep, hc]
    · rw [if_neg hc]
      have hc' : c.closing = false := by simpa using hc
      cases hl : lookup c.items k with
      | none =>
        have hfk := absent k hl
        refine ⟨e, hp, ?_, quiet _ _ (fun a => rfl) (List.Sublist.refl _)⟩
        intro j
        rw [useCountSt_snoc, hcnt j]
        by_cases hjk : j = k
        · subst hjk; simp [countStep, hc', hfk]
        · have : ¬ k = j := fun e => hjk e.symm
          simp [countStep, hc', this]
      | some it =>
        simp only
        refine ⟨drop e k, by rw [hp]; rfl, ?_, quiet _ _ (fun a => rfl) (mkeys_drop_sublist e k)⟩
        intro j
        rw [useCountSt_snoc, hcnt j, find_drop]
        by_cases hjk : j = k
        · subst hjk; simp [countStep, hc']
        · have : ¬ k = j := fun e => hjk e.symm
          simp [countStep, hc', hjk, this]
  | close =>
    simp only [step]
    by_cases hc : c.closing = true
    · rw [if_pos hc]
      refine ⟨e, hp, ?_, quiet _ _ (fun a => rfl) (List.Sublist.refl _)⟩
      intro j; rw [useCountSt_snoc, hcnt j]
      simp [countStep, hc, hempty hc, find]
    · rw [if_neg hc]
      have hb : Bij { c with closing := true } := ⟨h.itemsNodup, h.polNodup, h.same⟩
      obtain ⟨c', cbs, h1, _, _, _, h5, _⟩ :=
        evictAll_spec orc c.items.length { c with closing := true } [] hb (Nat.le_refl _)
      obtain ⟨e', he'⟩ := evictAll_lfu orc _ { c with closing := true } [] c' _ e hp h1
      simp only [List.nil_append] at h1
      rw [h1]
      simp only
      refine ⟨[], by rw [he']; rfl, ?_, List.Pairwise.nil⟩
      intro j; rw [useCountSt_snoc]
      simp [countStep, find, h5]

theorem lfu_run {c : Cache} (h : Inv c) {pre : List Ev} (hJ : LfuOk c pre) (ops : List (Op × (Nat → Bool))) :
    LfuOk (run c ops).1 (pre ++ trace c ops) := by
  induction ops generalizing c pre with
  | nil => simp only [run, trace, List.append_nil]; exact hJ
  | cons a t ih =>
    obtain ⟨op, orc⟩ := a
    have h1 := lfu_step h hJ op orc
    have := ih (step_inv h op orc).1 h1
    simp only [run, trace]
    rw [List.append_assoc] at this
    exact this

theorem find_of_mem_nodup {m : List (Nat × Nat)} (hn : (mkeys m).Nodup) {k v : Nat} (h : (k, v) ∈ m) :
    find m k = some v := by
  induction m with
  | nil => cases h
  | cons a t ih =>
    have hnt : (mkeys t).Nodup := by
      unfold mkeys at *; simp only [List.map_cons, List.nodup_cons] at hn; exact hn.2
    have hat : a.1 ∉ mkeys t := by
      unfold mkeys at *; simp only [List.map_cons, List.nodup_cons] at hn; exact hn.1
    rcases List.mem_cons.mp h with e | e
    · rw [← e]; simp [find]
    · have hne : a.1 ≠ k := by
        intro e'; apply hat; rw [e']; exact List.mem_map.mpr ⟨(k, v), e, rfl⟩
      have hb : (a.1 == k) = false := by simpa using hne
      have := ih hnt e
      unfold find at this ⊢
      simp only [List.find?_cons, hb]; exact this

end AsherahVerif.CacheSpec
