import AsherahVerif.Proofs.EnvResRole
import AsherahVerif.Proofs.EnvResCache
/-
C03 — the role discipline through the key caches: an entry stored under key id `kid` holds a key
of role `roleOfKid kid`; whatever a cache hands out for a key id has that role.  Independent of the
cache mode (never / simple / bounded): the caches move entries around, they never retype them.
-/
set_option linter.unusedVariables false
namespace AsherahVerif.Env.Res

section
variable (ρ0 : RoleMap) (part : Nat) (Γ : List Fact)

/-- replacing the contents of cache `c` by entries that were there or are typed in `Γ`. -/
theorem TIx.setCache {w : World} (h : TIx ρ0 part Γ w) (c : Nat) (kc' : KeyCache)
    (hents : ∀ m e, (m, e) ∈ kc'.ents → (∃ kc, w.caches[c]? = some kc ∧ (m, e) ∈ kc.ents) ∨
      Fact.obj e.obj (roleOfKid m.kid) ∈ Γ)
    (hlat : ∀ kid l, (kid, l) ∈ kc'.latest → l.kid = kid) :
    TIx ρ0 part Γ { w with caches := setAt w.caches c fun _ => kc' } := by
  obtain ⟨ρ, h1, h2, h3⟩ := h
  refine ⟨ρ, h1, ⟨h2.dom, h2.store, ?_, h2.log⟩, fun f hf => (h3 f hf).mono (RoleMap.le_refl ρ) (KeysKeep.refl _)⟩
  intro c' kc0 hc'
  have hc'' : (setAt w.caches c fun _ => kc')[c']? = some kc0 := hc'
  rw [setAt_getElem?] at hc''
  by_cases e : c' = c
  · subst e
    simp only [if_true] at hc''
    cases hw : w.caches[c']? with
    | none => rw [hw] at hc''; cases hc''
    | some kc =>
      rw [hw] at hc''; simp at hc''; subst hc''
      refine ⟨?_, hlat⟩
      intro m e' hme
      rcases hents m e' hme with ⟨kc1, q1, q2⟩ | hf
      · rw [hw] at q1; cases q1
        exact (h2.caches c' kc hw).1 m e' q2
      · exact h3 _ hf
  · simp only [e, if_false] at hc''
    exact h2.caches c' kc0 hc''

theorem setCache_ti (c : Nat) (kc' : KeyCache)
    (hents : ∀ w, TIx ρ0 part Γ w → ∀ m e, (m, e) ∈ kc'.ents → (∃ kc, w.caches[c]? = some kc ∧ (m, e) ∈ kc.ents) ∨
      Fact.obj e.obj (roleOfKid m.kid) ∈ Γ)
    (hlat : ∀ kid l, (kid, l) ∈ kc'.latest → l.kid = kid) : Preserves (TIx ρ0 part Γ) (setCache c kc') :=
  fun w hw => hw.setCache ρ0 part Γ c kc' (hents w hw) hlat

/-- what is found in a cache under key `m` has the role of `m`'s key id. -/
theorem TIx.entry_typed {w : World} (h : TIx ρ0 part Γ w) {c : Nat} {kc : KeyCache} {m : KeyMeta} {e : CEntry}
    (hkc : w.caches[c]? = some kc) (hme : (m, e) ∈ kc.ents) : TIx ρ0 part (Fact.obj e.obj (roleOfKid m.kid) :: Γ) w := by
  obtain ⟨ρ, h1, h2, h3⟩ := h
  refine ⟨ρ, h1, h2, ?_⟩
  intro f hf
  rcases List.mem_cons.1 hf with rfl | hf
  · exact (h2.caches c kc hkc).1 m e hme
  · exact h3 f hf

def optFact (r : Option CEntry) (role : Role) : List Fact :=
  match r with
  | some e => [Fact.obj e.obj role]
  | none => []

theorem cacheGet_ti (c : Nat) (m : KeyMeta) :
    Spec (TIx ρ0 part Γ) (cacheGet c m) (fun r => TIx ρ0 part (optFact r (roleOfKid m.kid) ++ Γ)) (fun _ => False) := by
  apply Spec.intro_ok
  intro w hw
  simp only [cacheGet, bind_run, getCache]
  cases hc : w.caches[c]? with
  | none =>
    have hgd : w.caches.getD c default = default := by simp [List.getD_eq_getElem?_getD, hc]
    rw [hgd]
    exact ⟨none, w, rfl, by simpa [optFact] using hw⟩
  | some kc =>
    have hgd : w.caches.getD c default = kc := getD_eq_of_getElem? hc
    rw [hgd]
    cases hm : kc.mode with
    | never => exact ⟨none, w, rfl, by simpa [optFact] using hw⟩
    | simple =>
      simp only []
      cases hg : assocGet kc.ents m with
      | none => exact ⟨none, w, rfl, by simpa [optFact] using hw⟩
      | some e => exact ⟨some e, w, rfl, by simpa [optFact] using hw.entry_typed ρ0 part Γ hc (assocGet_mem hg)⟩
    | bounded =>
      simp only []
      cases hs : slotOf kc m with
      | none => exact ⟨none, w, rfl, by simpa [optFact] using hw⟩
      | some s =>
        simp only [setCache, modify_run, bind_run]
        have hw' : TIx ρ0 part Γ { w with caches := setAt w.caches c fun _ =>
            { kc with pol := (Cache.step kc.pol (Cache.Op.get s) fun _ => false).cache } } := by
          refine hw.setCache ρ0 part Γ c _ (fun m' e' h' => Or.inl ⟨kc, hc, h'⟩) ?_
          obtain ⟨ρ, _, h2, _⟩ := hw
          exact (h2.caches c kc hc).2
        have hc' : (setAt w.caches c fun _ => { kc with pol := (Cache.step kc.pol (Cache.Op.get s) fun _ => false).cache })[c]? =
            some { kc with pol := (Cache.step kc.pol (Cache.Op.get s) fun _ => false).cache } := by
          rw [setAt_getElem?]; simp [hc]
        simp only [hm] at hw' hc'
        cases hres : (Cache.step kc.pol (Cache.Op.get s) fun _ => false).res with
        | val v =>
          simp only []
          cases hg : assocGet kc.ents m with
          | none => exact ⟨none, _, rfl, by simpa [optFact] using hw'⟩
          | some e => exact ⟨some e, _, rfl, by simpa [optFact] using hw'.entry_typed ρ0 part Γ hc' (assocGet_mem hg)⟩
        | _ => exact ⟨none, _, rfl, by simpa [optFact] using hw'⟩


theorem getD_ents_mem {w : World} {c : Nat} {m : KeyMeta} {e : CEntry} (h : (m, e) ∈ (w.caches.getD c default).ents) :
    ∃ kc, w.caches[c]? = some kc ∧ (m, e) ∈ kc.ents := by
  cases hc : w.caches[c]? with
  | none =>
    have hgd : w.caches.getD c default = default := by simp [List.getD_eq_getElem?_getD, hc]
    rw [hgd] at h; cases h
  | some kc => exact ⟨kc, rfl, by rw [getD_eq_of_getElem? hc] at h; exact h⟩

theorem TIx.latest_ok {w : World} (h : TIx ρ0 part Γ w) (c : Nat) :
    ∀ kid l, (kid, l) ∈ (w.caches.getD c default).latest → l.kid = kid := by
  intro kid l hl
  cases hc : w.caches[c]? with
  | none =>
    have hgd : w.caches.getD c default = default := by simp [List.getD_eq_getElem?_getD, hc]
    rw [hgd] at hl; cases hl
  | some kc =>
    rw [getD_eq_of_getElem? hc] at hl
    obtain ⟨ρ, _, h2, _⟩ := h
    exact (h2.caches c kc hc).2 kid l hl

theorem readKey_kid {kc : KeyCache} (hl : ∀ kid l, (kid, l) ∈ kc.latest → l.kid = kid) (m : KeyMeta) :
    (readKey kc m).kid = m.kid := by
  unfold readKey
  split
  · cases hg : getLatestMeta kc m.kid with
    | none => rfl
    | some l => exact hl _ _ (assocGet_mem hg)
  · rfl

theorem cacheRead_ti (c : Nat) (m : KeyMeta) :
    Spec (TIx ρ0 part Γ) (cacheRead c m) (fun r => TIx ρ0 part (optFact r (roleOfKid m.kid) ++ Γ)) (fun _ => False) := by
  intro w hw
  have hk := readKey_kid (hw.latest_ok ρ0 part Γ c) m
  have := cacheGet_ti ρ0 part Γ c (readKey (w.caches.getD c default) m) w hw
  rw [hk] at this
  simp only [cacheRead, bind_run, getCache]
  exact this

theorem keyObj_any {P E : World → Prop} (o : Nat) : Spec P (keyObj o) (fun _ => P) E := fun _ hw => hw
theorem get_any {P E : World → Prop} : Spec P get (fun _ => P) E := fun _ hw => hw
theorem getCache_any {P E : World → Prop} (c : Nat) : Spec P (getCache c) (fun _ => P) E := fun _ hw => hw

theorem getFresh_ti (c : Nat) (m : KeyMeta) (i : Int) :
    Spec (TIx ρ0 part Γ) (getFresh c m i)
      (fun r => TIx ρ0 part ((match r.1 with | some o => [Fact.obj o (roleOfKid m.kid)] | none => []) ++ Γ)) (fun _ => False) := by
  unfold getFresh
  refine Spec.bind (cacheRead_ti ρ0 part Γ c m) (fun _ h => h) fun r => ?_
  cases r with
  | none => exact Spec.pure _ fun _ h => by simpa [optFact] using h
  | some e =>
    refine Spec.bind (keyObj_any _) (fun _ h => h) fun k => ?_
    refine Spec.bind get_any (fun _ h => h) fun w0 => ?_
    split
    · exact Spec.pure _ fun _ h => by simpa [optFact] using h
    · exact Spec.pure _ fun _ h => by simpa [optFact] using h

theorem mem_foldl_assocDel {l : List (KeyMeta × CEntry)} {ks : List KeyMeta} {p : KeyMeta × CEntry}
    (h : p ∈ ks.foldl (fun acc em => assocDel acc em) l) : p ∈ l := by
  induction ks generalizing l with
  | nil => exact h
  | cons k t ih =>
    simp only [List.foldl_cons] at h
    have := ih h
    obtain ⟨a, b⟩ := p
    exact (mem_assocDel.1 this).1

/-- `c.keys.Set(id, e)` with a key object of the role of `id`, for every cache mode. -/
theorem cacheSet_ti (c : Nat) (m : KeyMeta) (e : CEntry) (he : Fact.obj e.obj (roleOfKid m.kid) ∈ Γ) :
    Preserves (TIx ρ0 part Γ) (cacheSet c m e) := by
  intro w hw
  have hlat := hw.latest_ok ρ0 part Γ c
  have hents : ∀ (L : List (KeyMeta × CEntry)), (∀ p, p ∈ L → p ∈ (w.caches.getD c default).ents) →
      ∀ m' e', (m', e') ∈ assocSet L m e → (∃ kc, w.caches[c]? = some kc ∧ (m', e') ∈ kc.ents) ∨
        Fact.obj e'.obj (roleOfKid m'.kid) ∈ Γ := by
    intro L hL m' e' h'
    rcases mem_assocSet h' with ⟨rfl, rfl⟩ | ⟨h'', _⟩
    · exact Or.inr he
    · exact Or.inl (getD_ents_mem (hL _ h''))
  simp only [cacheSet, bind_run, getCache]
  cases hm : (w.caches.getD c default).mode with
  | never => exact hw
  | simple =>
    exact hw.setCache ρ0 part Γ c _ (hents _ fun _ h => h) hlat
  | bounded =>
    simp only []
    cases hs : slotOf (w.caches.getD c default) m with
    | some s =>
      simp only [setCache, modify_run]
      exact releaseAll_ti ρ0 part Γ _ _ (hw.setCache ρ0 part Γ c _ (hents _ fun _ h => mem_foldl_assocDel h) hlat)
    | none =>
      simp only [setCache, modify_run]
      exact releaseAll_ti ρ0 part Γ _ _ (hw.setCache ρ0 part Γ c _ (hents _ fun _ h => mem_foldl_assocDel h) hlat)


theorem writeKey_kid (m : KeyMeta) (c : Int) : (writeKey m c).kid = m.kid := by
  unfold writeKey; split <;> rfl

theorem TIx.weaken_append {w : World} {Δ : List Fact} (h : TIx ρ0 part (Δ ++ Γ) w) : TIx ρ0 part Γ w :=
  h.weaken fun _ hf => List.mem_append_right _ hf

theorem cacheGet_ti_pres (c : Nat) (m : KeyMeta) : Preserves (TIx ρ0 part Γ) (cacheGet c m) := by
  apply Spec.toPreserves
  exact (cacheGet_ti ρ0 part Γ c m).weaken (fun _ h => h) (fun _ _ h => TIx.weaken_append ρ0 part Γ h) (fun _ h => h.elim)

theorem cacheWriteTail_ti (c : Nat) (m' : KeyMeta) (e : CEntry) (he : Fact.obj e.obj (roleOfKid m'.kid) ∈ Γ) :
    Preserves (TIx ρ0 part Γ) (cacheWriteTail c m' e) := by
  unfold cacheWriteTail
  pres_auto [cacheGet_ti_pres, keyRelease_ti, cacheSet_ti ρ0 part Γ c m' e he]

/-- `write`: the entry goes under a key with the same key id as the one asked for. -/
theorem cacheWrite_ti (c : Nat) (m : KeyMeta) (e : CEntry) (he : Fact.obj e.obj (roleOfKid m.kid) ∈ Γ) :
    Preserves (TIx ρ0 part Γ) (cacheWrite c m e) := by
  intro w hw
  rw [cacheWrite_eq]
  simp only [cacheWrite']
  have he' : Fact.obj e.obj (roleOfKid (writeKey m (w.keys.getD e.obj default).created).kid) ∈ Γ := by
    rw [writeKey_kid]; exact he
  cases setLatestFlag (w.caches.getD c default) m (w.keys.getD e.obj default)
  · exact cacheWriteTail_ti ρ0 part Γ c _ e he' w hw
  · apply cacheWriteTail_ti ρ0 part Γ c _ e he'
    refine hw.setCache ρ0 part Γ c _ (fun m' e' h' => Or.inl (getD_ents_mem h')) ?_
    intro kid l hl
    rcases mem_assocSet hl with ⟨rfl, rfl⟩ | ⟨hl', _⟩
    · exact writeKey_kid m _
    · exact hw.latest_ok ρ0 part Γ c kid l hl'

/-- a loader that returns a key of the role of the key id it was asked for. -/
def LoaderTyped (loader : KeyMeta → M Nat) (m : KeyMeta) : Prop :=
  ∀ Γ, Spec (TIx ρ0 part Γ) (loader m) (fun o => TIx ρ0 part (Fact.obj o (roleOfKid m.kid) :: Γ)) (TIx ρ0 part Γ)

theorem revokedSet_ti (o : Nat) (r : Bool) :
    Preserves (TIx ρ0 part Γ) (modify fun w => { w with keys := setAt w.keys o fun x => { x with revoked := r } }) :=
  Preserves.modify (fun _ h => TIx.frame h (Nat.le_refl _) rfl rfl rfl (keysKeep_setAt _ _ _ fun _ => rfl))

theorem cacheLoad_ti (c : Nat) (m : KeyMeta) (loader : KeyMeta → M Nat) (hl : LoaderTyped ρ0 part loader m) :
    Spec (TIx ρ0 part Γ) (cacheLoad c m loader) (fun o => TIx ρ0 part (Fact.obj o (roleOfKid m.kid) :: Γ)) (TIx ρ0 part Γ) := by
  unfold cacheLoad
  refine Spec.bind (hl Γ) (fun _ h => h) fun k => ?_
  -- contexts: the loaded key `k`; then also the entry's key
  have d1 : ∀ w, TIx ρ0 part (Fact.obj k (roleOfKid m.kid) :: Γ) w → TIx ρ0 part Γ w := fun _ h => h.drop
  refine Spec.bind (E₁ := TIx ρ0 part (Fact.obj k (roleOfKid m.kid) :: Γ)) (keyObj_any _) d1 fun ko => ?_
  refine Spec.bind (cacheRead_ti ρ0 part _ c m) (fun _ h => h.elim) fun r => ?_
  cases r with
  | some e =>
    simp only [optFact, List.singleton_append]
    have d2 : ∀ w, TIx ρ0 part (Fact.obj e.obj (roleOfKid m.kid) :: Fact.obj k (roleOfKid m.kid) :: Γ) w → TIx ρ0 part Γ w :=
      fun _ h => h.drop.drop
    refine Spec.bind (E₁ := TIx ρ0 part (Fact.obj e.obj (roleOfKid m.kid) :: Fact.obj k (roleOfKid m.kid) :: Γ)) (keyObj_any _) d2 fun eo => ?_
    split
    · -- merge: the entry's key is handed out again
      refine Spec.bind (revokedSet_ti ρ0 part _ _ _).toSpec d2 fun _ => ?_
      refine Spec.bind (E₁ := TIx ρ0 part (Fact.obj e.obj (roleOfKid m.kid) :: Fact.obj k (roleOfKid m.kid) :: Γ)) get_any d2 fun w0 => ?_
      refine Spec.bind (keyCloseRaw_ti ρ0 part _ k).toSpec d2 fun _ => ?_
      refine Spec.bind (cacheWrite_ti ρ0 part _ c m { loadedAt := w0.now, obj := e.obj } List.mem_cons_self).toSpec d2 fun _ => ?_
      exact Spec.pure _ fun _ h => h.weaken fun f hf => by
        rcases List.mem_cons.1 hf with rfl | hf
        · exact List.mem_cons_self
        · exact List.mem_cons_of_mem _ (List.mem_cons_of_mem _ hf)
    · refine Spec.bind (E₁ := TIx ρ0 part (Fact.obj e.obj (roleOfKid m.kid) :: Fact.obj k (roleOfKid m.kid) :: Γ)) get_any d2 fun w0 => ?_
      refine Spec.bind (keyWrap_ti ρ0 part _ k).toSpec d2 fun _ => ?_
      refine Spec.bind (cacheWrite_ti ρ0 part _ c m { loadedAt := w0.now, obj := k } (List.mem_cons_of_mem _ List.mem_cons_self)).toSpec d2 fun _ => ?_
      exact Spec.pure _ fun _ h => h.drop
  | none =>
    simp only [optFact, List.nil_append]
    refine Spec.bind (E₁ := TIx ρ0 part (Fact.obj k (roleOfKid m.kid) :: Γ)) get_any d1 fun w0 => ?_
    refine Spec.bind (keyWrap_ti ρ0 part _ k).toSpec d1 fun _ => ?_
    refine Spec.bind (cacheWrite_ti ρ0 part _ c m { loadedAt := w0.now, obj := k } List.mem_cons_self).toSpec d1 fun _ => ?_
    exact Spec.pure _ fun _ h => h

theorem tracked_ti (k : Nat) (role : Role) :
    Spec (TIx ρ0 part (Fact.obj k role :: Γ)) (keyIncr k >>= fun _ => (pure k : M Nat))
      (fun o => TIx ρ0 part (Fact.obj o role :: Γ)) (TIx ρ0 part Γ) :=
  Spec.bind (keyIncr_ti ρ0 part _ k).toSpec (fun _ h => h.drop) fun _ => Spec.pure _ fun _ h => h

theorem getOrLoad_ti (c : Nat) (m : KeyMeta) (i : Int) (loader : KeyMeta → M Nat) (hl : LoaderTyped ρ0 part loader m) :
    Spec (TIx ρ0 part Γ) (getOrLoad c m i loader) (fun o => TIx ρ0 part (Fact.obj o (roleOfKid m.kid) :: Γ)) (TIx ρ0 part Γ) := by
  unfold getOrLoad
  refine Spec.bind (getCache_any c) (fun _ h => h) fun kc => ?_
  split
  · refine Spec.bind (hl Γ) (fun _ h => h) fun k => ?_
    exact Spec.bind (keyWrap_ti ρ0 part _ k).toSpec (fun _ h => h.drop) fun _ => Spec.pure _ fun _ h => h
  · have slow : Spec (TIx ρ0 part Γ) (cacheLoad c m loader >>= fun k => keyIncr k >>= fun _ => (pure k : M Nat))
        (fun o => TIx ρ0 part (Fact.obj o (roleOfKid m.kid) :: Γ)) (TIx ρ0 part Γ) :=
      Spec.bind (cacheLoad_ti ρ0 part Γ c m loader hl) (fun _ h => h) fun k => tracked_ti ρ0 part Γ k _
    have second : Spec (TIx ρ0 part Γ)
        (getFresh c m i >>= fun r => match r with
          | (some k, true) => keyIncr k >>= fun _ => (pure k : M Nat)
          | _ => cacheLoad c m loader >>= fun k => keyIncr k >>= fun _ => (pure k : M Nat))
        (fun o => TIx ρ0 part (Fact.obj o (roleOfKid m.kid) :: Γ)) (TIx ρ0 part Γ) := by
      refine Spec.bind (getFresh_ti ρ0 part Γ c m i) (fun _ h => h.elim) ?_
      rintro ⟨ro, rb⟩
      cases ro with
      | none => exact slow.weaken (fun _ h => TIx.weaken_append ρ0 part Γ h) (fun _ _ h => h) (fun _ h => h)
      | some k =>
        cases rb with
        | true => exact tracked_ti ρ0 part Γ k _
        | false => exact slow.weaken (fun _ h => TIx.weaken_append ρ0 part Γ h) (fun _ _ h => h) (fun _ h => h)
    refine Spec.bind (getFresh_ti ρ0 part Γ c m i) (fun _ h => h.elim) ?_
    rintro ⟨ro, rb⟩
    cases ro with
    | none => exact second.weaken (fun _ h => TIx.weaken_append ρ0 part Γ h) (fun _ _ h => h) (fun _ h => h)
    | some k =>
      cases rb with
      | true => exact tracked_ti ρ0 part Γ k _
      | false => exact second.weaken (fun _ h => TIx.weaken_append ρ0 part Γ h) (fun _ _ h => h) (fun _ h => h)


theorem getOrLoadLatest_rest_ti (c : Nat) (kid : KeyId) (ea : Int) (loader : KeyMeta → M Nat)
    (hl : LoaderTyped ρ0 part loader ⟨kid, 0⟩) (key : Nat) :
    Spec (TIx ρ0 part (Fact.obj key (roleOfKid kid) :: Γ))
      (do
        let ko ← keyObj key
        let w ← get
        if isKeyInvalid ko w.now ea = true then do
            let reloaded ← loader { kid := kid, created := 0 }
            let ro ← keyObj reloaded
            let w ← get
            keyWrap reloaded
            cacheWrite c { kid := kid, created := ro.created } { loadedAt := w.now, obj := reloaded }
            keyIncr reloaded
            pure reloaded
          else do
            keyIncr key
            pure key : M Nat)
      (fun o => TIx ρ0 part (Fact.obj o (roleOfKid kid) :: Γ)) (TIx ρ0 part Γ) := by
  have d1 : ∀ w, TIx ρ0 part (Fact.obj key (roleOfKid kid) :: Γ) w → TIx ρ0 part Γ w := fun _ h => h.drop
  refine Spec.bind (E₁ := TIx ρ0 part (Fact.obj key (roleOfKid kid) :: Γ)) (keyObj_any _) d1 fun ko => ?_
  refine Spec.bind (E₁ := TIx ρ0 part (Fact.obj key (roleOfKid kid) :: Γ)) get_any d1 fun w0 => ?_
  split
  · refine Spec.bind (hl _) d1 fun reloaded => ?_
    have d2 : ∀ w, TIx ρ0 part (Fact.obj reloaded (roleOfKid kid) :: Fact.obj key (roleOfKid kid) :: Γ) w → TIx ρ0 part Γ w :=
      fun _ h => h.drop.drop
    refine Spec.bind (E₁ := TIx ρ0 part (Fact.obj reloaded (roleOfKid kid) :: Fact.obj key (roleOfKid kid) :: Γ)) (keyObj_any _) d2 fun ro => ?_
    refine Spec.bind (E₁ := TIx ρ0 part (Fact.obj reloaded (roleOfKid kid) :: Fact.obj key (roleOfKid kid) :: Γ)) get_any d2 fun w1 => ?_
    refine Spec.bind (keyWrap_ti ρ0 part _ reloaded).toSpec d2 fun _ => ?_
    refine Spec.bind (cacheWrite_ti ρ0 part _ c ⟨kid, ro.created⟩ { loadedAt := w1.now, obj := reloaded } List.mem_cons_self).toSpec d2 fun _ => ?_
    refine Spec.bind (keyIncr_ti ρ0 part _ reloaded).toSpec d2 fun _ => ?_
    exact Spec.pure _ fun _ h => h.weaken fun f hf => by
      rcases List.mem_cons.1 hf with rfl | hf
      · exact List.mem_cons_self
      · exact List.mem_cons_of_mem _ (List.mem_cons_of_mem _ hf)
  · exact tracked_ti ρ0 part Γ key _

theorem getOrLoadLatest_ti (c : Nat) (kid : KeyId) (i ea : Int) (loader : KeyMeta → M Nat)
    (hl : LoaderTyped ρ0 part loader ⟨kid, 0⟩) :
    Spec (TIx ρ0 part Γ) (getOrLoadLatest c kid i ea loader) (fun o => TIx ρ0 part (Fact.obj o (roleOfKid kid) :: Γ)) (TIx ρ0 part Γ) := by
  unfold getOrLoadLatest
  refine Spec.bind (getCache_any c) (fun _ h => h) fun kc => ?_
  split
  · refine Spec.bind (hl Γ) (fun _ h => h) fun k => ?_
    exact Spec.bind (keyWrap_ti ρ0 part _ k).toSpec (fun _ h => h.drop) fun _ => Spec.pure _ fun _ h => h
  · refine Spec.bind (getFresh_ti ρ0 part Γ c ⟨kid, 0⟩ i) (fun _ h => h.elim) ?_
    rintro ⟨ro, rb⟩
    have viaLoad : Spec (TIx ρ0 part Γ) (cacheLoad c ⟨kid, 0⟩ loader >>= fun key => (do
          let ko ← keyObj key
          let w ← get
          if isKeyInvalid ko w.now ea = true then do
              let reloaded ← loader { kid := kid, created := 0 }
              let ro ← keyObj reloaded
              let w ← get
              keyWrap reloaded
              cacheWrite c { kid := kid, created := ro.created } { loadedAt := w.now, obj := reloaded }
              keyIncr reloaded
              pure reloaded
            else do
              keyIncr key
              pure key : M Nat))
        (fun o => TIx ρ0 part (Fact.obj o (roleOfKid kid) :: Γ)) (TIx ρ0 part Γ) :=
      Spec.bind (cacheLoad_ti ρ0 part Γ c ⟨kid, 0⟩ loader hl) (fun _ h => h) (getOrLoadLatest_rest_ti ρ0 part Γ c kid ea loader hl)
    cases ro with
    | none => dsimp only; exact viaLoad.weaken (fun _ h => TIx.weaken_append ρ0 part Γ h) (fun _ _ h => h) (fun _ h => h)
    | some k =>
      cases rb with
      | true =>
        dsimp only
        exact Spec.bind (R := fun key => TIx ρ0 part (Fact.obj key (roleOfKid kid) :: Γ)) (E₁ := TIx ρ0 part Γ)
          (Spec.pure _ fun _ h => h) (fun _ h => h) (getOrLoadLatest_rest_ti ρ0 part Γ c kid ea loader hl)
      | false => dsimp only; exact viaLoad.weaken (fun _ h => TIx.weaken_append ρ0 part Γ h) (fun _ _ h => h) (fun _ h => h)

theorem cacheClose_ti (c : Nat) : Preserves (TIx ρ0 part Γ) (cacheClose c) := by
  intro w hw
  simp only [cacheClose, bind_run, getCache]
  cases hm : (w.caches.getD c default).mode with
  | never => exact hw
  | simple => exact releaseAll_ti ρ0 part Γ _ _ hw
  | bounded =>
    simp only [setCache, bind_run, modify_run]
    apply releaseAll_ti
    exact hw.setCache ρ0 part Γ c _ (fun m e h => by cases h) (hw.latest_ok ρ0 part Γ c)

end
end AsherahVerif.Env.Res
