import AsherahVerif.Proofs.EnvResEnv
/-
C09 — quiescent worlds: which caches have been closed (`cacheDead`, derived from the ghost `closed`
flags of sessions and factories), how caches are wired to factories and sessions (`Wired`),
well-formed histories (`opOk`, `validFrom`), and the quiescent invariant `QInv` with its
preservation by every public operation.
-/
set_option linter.unusedVariables false
namespace AsherahVerif.Env

/-- cache `c` belongs to factory `fac` (its system-key cache or its shared intermediate-key cache). -/
def fcaches (fac : Factory) (c : Nat) : Prop := fac.skCache = c ∨ fac.sharedIk = some c

instance (fac : Factory) (c : Nat) : Decidable (fcaches fac c) := by unfold fcaches; exact inferInstance

/-- the session owns its intermediate-key cache (its factory has no shared one). -/
def nonShared (w : World) (ss : Session) : Bool := ((w.facs.getD ss.fac default).sharedIk).isNone

/-- cache `c` has been closed: by `SessionFactory.Close` of its factory or `Session.Close` of the
session that owns it. -/
def cacheDead (w : World) (c : Nat) : Bool :=
  w.facs.any (fun fac => fac.closed && decide (fcaches fac c)) ||
  w.sessions.any (fun ss => ss.closed && nonShared w ss && ss.ikCache == c)

theorem cacheDead_iff (w : World) (c : Nat) : cacheDead w c = true ↔
    (∃ f fac, w.facs[f]? = some fac ∧ fac.closed = true ∧ fcaches fac c) ∨
    (∃ s ss, w.sessions[s]? = some ss ∧ ss.closed = true ∧ nonShared w ss = true ∧ ss.ikCache = c) := by
  unfold cacheDead
  simp only [Bool.or_eq_true, List.any_eq_true, Bool.and_eq_true, decide_eq_true_eq, beq_iff_eq]
  constructor
  · rintro (⟨fac, hm, h1, h2⟩ | ⟨ss, hm, ⟨h1, h2⟩, h3⟩)
    · obtain ⟨i, hi, rfl⟩ := List.getElem_of_mem hm
      exact Or.inl ⟨i, _, List.getElem?_eq_getElem hi, h1, h2⟩
    · obtain ⟨i, hi, rfl⟩ := List.getElem_of_mem hm
      exact Or.inr ⟨i, _, List.getElem?_eq_getElem hi, h1, h2, h3⟩
  · rintro (⟨f, fac, hf, h1, h2⟩ | ⟨s, ss, hs, h1, h2, h3⟩)
    · exact Or.inl ⟨fac, List.mem_of_getElem? hf, h1, h2⟩
    · exact Or.inr ⟨ss, List.mem_of_getElem? hs, ⟨h1, h2⟩, h3⟩

theorem cacheDead_false_iff (w : World) (c : Nat) : cacheDead w c = false ↔
    (∀ f fac, w.facs[f]? = some fac → fac.closed = true → ¬ fcaches fac c) ∧
    (∀ s ss, w.sessions[s]? = some ss → ss.closed = true → nonShared w ss = true → ss.ikCache ≠ c) := by
  rw [← Bool.not_eq_true, cacheDead_iff]
  constructor
  · intro h
    exact ⟨fun f fac h1 h2 h3 => h (Or.inl ⟨f, fac, h1, h2, h3⟩), fun s ss h1 h2 h3 h4 => h (Or.inr ⟨s, ss, h1, h2, h3, h4⟩)⟩
  · rintro ⟨h1, h2⟩ (⟨f, fac, a, b, c'⟩ | ⟨s, ss, a, b, c', d⟩)
    · exact h1 f fac a b c'
    · exact h2 s ss a b c' d

/-- the cache table of a quiescent world. -/
def tabOf (w : World) : CTab :=
  { dead := cacheDead w, mode := fun c => (w.caches.getD c default).mode, n := w.caches.length }

/-- how caches hang off factories and sessions (nothing here depends on the `closed` flags). -/
structure Wired (w : World) : Prop where
  facOk : ∀ (f : Nat) (fac : Factory), w.facs[f]? = some fac →
    fac.skCache < w.caches.length ∧ (∀ c, fac.sharedIk = some c → c < w.caches.length ∧ c ≠ fac.skCache) ∧
    fac.pol.sharedIK = fac.sharedIk.isSome ∧ fac.pol.skKind = none ∧ fac.pol.ikKind = none
  facDisj : ∀ (f f' : Nat) (fac fac' : Factory) (c : Nat), w.facs[f]? = some fac → w.facs[f']? = some fac' →
    fcaches fac c → fcaches fac' c → f = f'
  sesOk : ∀ (s : Nat) (ss : Session), w.sessions[s]? = some ss → ∃ fac, w.facs[ss.fac]? = some fac ∧
    (∀ c, fac.sharedIk = some c → ss.ikCache = c) ∧
    (fac.sharedIk = none → ss.ikCache < w.caches.length ∧
      ∀ (f' : Nat) (fac' : Factory), w.facs[f']? = some fac' → ¬ fcaches fac' ss.ikCache)
  sesDisj : ∀ (s s' : Nat) (ss ss' : Session), w.sessions[s]? = some ss → w.sessions[s']? = some ss' →
    nonShared w ss = true → nonShared w ss' = true → ss.ikCache = ss'.ikCache → s = s'
  owned : ∀ c, c < w.caches.length →
    (∃ f fac, w.facs[f]? = some fac ∧ fcaches fac c) ∨
    (∃ s ss, w.sessions[s]? = some ss ∧ nonShared w ss = true ∧ ss.ikCache = c)

/-- the quiescent invariant (between public operations). -/
def QInv (w : World) : Prop := Wired w ∧ RI (tabOf w) .none [] w

theorem nonShared_eq {w : World} {ss : Session} {fac : Factory} (h : w.facs[ss.fac]? = some fac) :
    nonShared w ss = fac.sharedIk.isNone := by
  unfold nonShared; rw [getD_eq_of_getElem? h]

/-- the caches an open session works on have not been closed. -/
theorem Wired.ctx_live {w : World} (hw : Wired w) {s : Nat} (ho : sessionOpen w s) :
    cacheDead w (sessionCtx w s).skCache = false ∧ cacheDead w (sessionCtx w s).ikCache = false := by
  obtain ⟨ss, hss, hsc, fac, hfac, hfc⟩ := ho
  have hctx1 : (sessionCtx w s).skCache = fac.skCache := by
    simp [sessionCtx, getD_eq_of_getElem? hss, getD_eq_of_getElem? hfac]
  have hctx2 : (sessionCtx w s).ikCache = ss.ikCache := by
    simp [sessionCtx, getD_eq_of_getElem? hss]
  obtain ⟨fac0, hfac0, hsh, hns⟩ := hw.sesOk s ss hss
  rw [hfac] at hfac0; cases hfac0
  rw [hctx1, hctx2]
  constructor
  · rw [cacheDead_false_iff]
    constructor
    · intro f' fac' hf' hcl hfc'
      have := hw.facDisj f' ss.fac fac' fac _ hf' hfac hfc' (Or.inl rfl)
      subst this; rw [hfac] at hf'; cases hf'; rw [hfc] at hcl; cases hcl
    · intro s' ss' hs' hcl hns' heq
      obtain ⟨fac', hfac', _, hn'⟩ := hw.sesOk s' ss' hs'
      rw [nonShared_eq hfac'] at hns'
      have hnone : fac'.sharedIk = none := by simpa using hns'
      exact (hn' hnone).2 ss.fac fac hfac (Or.inl heq.symm)
  · rw [cacheDead_false_iff]
    cases hsi : fac.sharedIk with
    | some c =>
      have hic := hsh c hsi
      constructor
      · intro f' fac' hf' hcl hfc'
        have := hw.facDisj f' ss.fac fac' fac _ hf' hfac hfc' (Or.inr (by rw [hsi, hic]))
        subst this; rw [hfac] at hf'; cases hf'; rw [hfc] at hcl; cases hcl
      · intro s' ss' hs' hcl hns' heq
        obtain ⟨fac', hfac', _, hn'⟩ := hw.sesOk s' ss' hs'
        rw [nonShared_eq hfac'] at hns'
        have hnone : fac'.sharedIk = none := by simpa using hns'
        exact (hn' hnone).2 ss.fac fac hfac (Or.inr (by rw [hsi, heq, hic]))
    | none =>
      constructor
      · intro f' fac' hf' hcl hfc'
        exact (hns hsi).2 f' fac' hf' hfc'
      · intro s' ss' hs' hcl hns' heq
        have hnss : nonShared w ss = true := by rw [nonShared_eq hfac, hsi]; rfl
        have := hw.sesDisj s' s ss' ss hs' hss hns' hnss heq
        subst this; rw [hss] at hs'; cases hs'; rw [hsc] at hcl; cases hcl

/-- re-deriving the table from the world after an operation. -/
theorem RI.retab {T : CTab} {w : World} (hi : RI T .none [] w)
    (hd : ∀ c, c < w.caches.length → T.dead c = cacheDead w c) : RI (tabOf w) .none [] w :=
  RIc.congr_T hi hd (fun c => (hi.mode c).symm) hi.clen.symm

theorem Wired.of_eq {w w' : World} (hw : Wired w) (hf : w'.facs = w.facs) (hs : w'.sessions = w.sessions)
    (hc : w'.caches.length = w.caches.length) : Wired w' := by
  have hns : ∀ ss, nonShared w' ss = nonShared w ss := by intro ss; unfold nonShared; rw [hf]
  refine ⟨?_, ?_, ?_, ?_, ?_⟩
  · rw [hf, hc]; exact hw.facOk
  · rw [hf]; exact hw.facDisj
  · rw [hf, hs, hc]; exact hw.sesOk
  · rw [hs]; simp only [hns]; exact hw.sesDisj
  · rw [hf, hs, hc]; simp only [hns]; exact hw.owned

theorem cacheDead_of_eq {w w' : World} (hf : w'.facs = w.facs) (hs : w'.sessions = w.sessions) (c : Nat) :
    cacheDead w' c = cacheDead w c := by
  unfold cacheDead nonShared; rw [hf, hs]

end AsherahVerif.Env
