import AsherahVerif.Proofs.EnvResEnv
import AsherahVerif.Proofs.EnvResBuf
/-
C09 — quiescent worlds: which caches have been closed (`cacheDead`, derived from the ghost `closed`
flags of sessions and factories), how caches are wired to factories and sessions (`Wired`),
well-formed histories (`opOk`, `validFrom`), and the quiescent invariant `QInv` with its
preservation by every public operation.
-/
set_option linter.unusedVariables false
namespace AsherahVerif.Env.Res

/-- a bounded cache kind is usable: capacity at least 1 (with capacity 0 the first `Set` panics,
see C15 `cap0_panics`). -/
def kindOk (kind : Option (Cache.Kind × Nat)) : Prop := ∀ k cap, kind = some (k, cap) → 1 ≤ cap

/-- cache `c` belongs to factory `fac` (its system-key cache or its shared intermediate-key cache). -/
def fcaches (fac : Factory) (c : Nat) : Prop := fac.skCache = c ∨ fac.sharedIk = some c

instance (fac : Factory) (c : Nat) : Decidable (fcaches fac c) := by unfold fcaches; exact inferInstance

/-- the session owns its intermediate-key cache (its factory has no shared one). -/
def nonShared (w : World) (ss : Session) : Bool := ((w.facs.getD ss.fac default).sharedIk).isNone

/-- cache `c` has been closed: by `SessionFactory.Close` of its factory or `Session.Close` of the
session that owns it. -/
def cacheDead (w : World) (c : Nat) : Bool :=
  w.facs.any (fun fac => fac.closed && decide (fcaches fac c)) ||
  w.sessions.any (fun ss => ss.closed && nonShared w ss && ss.ikCache == c)

theorem cacheDead_iff (w : World) (c : Nat) : cacheDead w c = true ↔
    (∃ (f : Nat) (fac : Factory), w.facs[f]? = some fac ∧ fac.closed = true ∧ fcaches fac c) ∨
    (∃ (s : Nat) (ss : Session), w.sessions[s]? = some ss ∧ ss.closed = true ∧ nonShared w ss = true ∧ ss.ikCache = c) := by
  unfold cacheDead
  simp only [Bool.or_eq_true, List.any_eq_true, Bool.and_eq_true, decide_eq_true_eq, beq_iff_eq]
  constructor
  · rintro (⟨fac, hm, h1, h2⟩ | ⟨ss, hm, ⟨h1, h2⟩, h3⟩)
    · obtain ⟨i, hi, rfl⟩ := List.getElem_of_mem hm
      exact Or.inl ⟨i, _, List.getElem?_eq_getElem hi, h1, h2⟩
    · obtain ⟨i, hi, rfl⟩ := List.getElem_of_mem hm
      exact Or.inr ⟨i, _, List.getElem?_eq_getElem hi, h1, h2, h3⟩
  · rintro (⟨f, fac, hf, h1, h2⟩ | ⟨s, ss, hs, h1, h2, h3⟩)
    · exact Or.inl ⟨fac, List.mem_of_getElem? hf, h1, h2⟩
    · exact Or.inr ⟨ss, List.mem_of_getElem? hs, ⟨h1, h2⟩, h3⟩

theorem cacheDead_false_iff (w : World) (c : Nat) : cacheDead w c = false ↔
    (∀ (f : Nat) (fac : Factory), w.facs[f]? = some fac → fac.closed = true → ¬ fcaches fac c) ∧
    (∀ (s : Nat) (ss : Session), w.sessions[s]? = some ss → ss.closed = true → nonShared w ss = true → ss.ikCache ≠ c) := by
  rw [← Bool.not_eq_true, cacheDead_iff]
  constructor
  · intro h
    exact ⟨fun f fac h1 h2 h3 => h (Or.inl ⟨f, fac, h1, h2, h3⟩), fun s ss h1 h2 h3 h4 => h (Or.inr ⟨s, ss, h1, h2, h3, h4⟩)⟩
  · rintro ⟨h1, h2⟩ (⟨f, fac, a, b, c'⟩ | ⟨s, ss, a, b, c', d⟩)
    · exact h1 f fac a b c'
    · exact h2 s ss a b c' d

/-- the cache table of a quiescent world. -/
def tabOf (w : World) : CTab :=
  { dead := cacheDead w, mode := fun c => (w.caches.getD c default).mode, n := w.caches.length }

/-- how caches hang off factories and sessions (nothing here depends on the `closed` flags). -/
structure Wired (w : World) : Prop where
  facOk : ∀ (f : Nat) (fac : Factory), w.facs[f]? = some fac →
    fac.skCache < w.caches.length ∧ (∀ c, fac.sharedIk = some c → c < w.caches.length ∧ c ≠ fac.skCache) ∧
    fac.pol.sharedIK = fac.sharedIk.isSome ∧ kindOk fac.pol.skKind ∧ kindOk fac.pol.ikKind
  facDisj : ∀ (f f' : Nat) (fac fac' : Factory) (c : Nat), w.facs[f]? = some fac → w.facs[f']? = some fac' →
    fcaches fac c → fcaches fac' c → f = f'
  sesOk : ∀ (s : Nat) (ss : Session), w.sessions[s]? = some ss → ∃ fac, w.facs[ss.fac]? = some fac ∧
    (∀ c, fac.sharedIk = some c → ss.ikCache = c) ∧
    (fac.sharedIk = none → ss.ikCache < w.caches.length ∧
      ∀ (f' : Nat) (fac' : Factory), w.facs[f']? = some fac' → ¬ fcaches fac' ss.ikCache)
  sesDisj : ∀ (s s' : Nat) (ss ss' : Session), w.sessions[s]? = some ss → w.sessions[s']? = some ss' →
    nonShared w ss = true → nonShared w ss' = true → ss.ikCache = ss'.ikCache → s = s'
  owned : ∀ c, c < w.caches.length →
    (∃ (f : Nat) (fac : Factory), w.facs[f]? = some fac ∧ fcaches fac c) ∨
    (∃ (s : Nat) (ss : Session), w.sessions[s]? = some ss ∧ nonShared w ss = true ∧ ss.ikCache = c)

/-- the quiescent invariant (between public operations). -/
def QInv (w : World) : Prop := Wired w ∧ RI (tabOf w) .none [] w

theorem nonShared_eq {w : World} {ss : Session} {fac : Factory} (h : w.facs[ss.fac]? = some fac) :
    nonShared w ss = fac.sharedIk.isNone := by
  unfold nonShared; rw [getD_eq_of_getElem? h]

/-- the caches an open session works on have not been closed. -/
theorem Wired.ctx_live {w : World} (hw : Wired w) {s : Nat} (ho : sessionOpen w s) :
    cacheDead w (sessionCtx w s).skCache = false ∧ cacheDead w (sessionCtx w s).ikCache = false := by
  obtain ⟨ss, hss, hsc, fac, hfac, hfc⟩ := ho
  have hctx1 : (sessionCtx w s).skCache = fac.skCache := by
    simp [sessionCtx, hss, hfac]
  have hctx2 : (sessionCtx w s).ikCache = ss.ikCache := by
    simp [sessionCtx, hss]
  obtain ⟨fac0, hfac0, hsh, hns⟩ := hw.sesOk s ss hss
  rw [hfac] at hfac0; cases hfac0
  rw [hctx1, hctx2]
  constructor
  · rw [cacheDead_false_iff]
    constructor
    · intro f' fac' hf' hcl hfc'
      have := hw.facDisj f' ss.fac fac' fac _ hf' hfac hfc' (Or.inl rfl)
      subst this; rw [hfac] at hf'; cases hf'; rw [hfc] at hcl; cases hcl
    · intro s' ss' hs' hcl hns' heq
      obtain ⟨fac', hfac', _, hn'⟩ := hw.sesOk s' ss' hs'
      rw [nonShared_eq hfac'] at hns'
      have hnone : fac'.sharedIk = none := by simpa using hns'
      exact (hn' hnone).2 ss.fac fac hfac (Or.inl heq.symm)
  · rw [cacheDead_false_iff]
    cases hsi : fac.sharedIk with
    | some c =>
      have hic := hsh c hsi
      constructor
      · intro f' fac' hf' hcl hfc'
        have := hw.facDisj f' ss.fac fac' fac _ hf' hfac hfc' (Or.inr (by rw [hsi, hic]))
        subst this; rw [hfac] at hf'; cases hf'; rw [hfc] at hcl; cases hcl
      · intro s' ss' hs' hcl hns' heq
        obtain ⟨fac', hfac', _, hn'⟩ := hw.sesOk s' ss' hs'
        rw [nonShared_eq hfac'] at hns'
        have hnone : fac'.sharedIk = none := by simpa using hns'
        exact (hn' hnone).2 ss.fac fac hfac (Or.inr (by rw [hsi, heq, hic]))
    | none =>
      constructor
      · intro f' fac' hf' hcl hfc'
        exact (hns hsi).2 f' fac' hf' hfc'
      · intro s' ss' hs' hcl hns' heq
        have hnss : nonShared w ss = true := by rw [nonShared_eq hfac, hsi]; rfl
        have := hw.sesDisj s' s ss' ss hs' hss hns' hnss heq
        subst this; rw [hss] at hs'; cases hs'; rw [hsc] at hcl; cases hcl

/-- re-deriving the table from the world after an operation. -/
theorem RI.retab {T : CTab} {w : World} (hi : RI T .none [] w)
    (hd : ∀ c, c < w.caches.length → T.dead c = cacheDead w c) : RI (tabOf w) .none [] w :=
  RIc.congr_T hi hd (fun c => (hi.mode c).symm) hi.clen.symm

theorem Wired.of_eq {w w' : World} (hw : Wired w) (hf : w'.facs = w.facs) (hs : w'.sessions = w.sessions)
    (hc : w'.caches.length = w.caches.length) : Wired w' := by
  have hns : ∀ ss, nonShared w' ss = nonShared w ss := by intro ss; unfold nonShared; rw [hf]
  refine ⟨?_, ?_, ?_, ?_, ?_⟩
  · rw [hf, hc]; exact hw.facOk
  · rw [hf]; exact hw.facDisj
  · rw [hf, hs, hc]; exact hw.sesOk
  · rw [hs]; simp only [hns]; exact hw.sesDisj
  · rw [hf, hs, hc]; simp only [hns]; exact hw.owned

theorem cacheDead_of_eq {w w' : World} (hf : w'.facs = w.facs) (hs : w'.sessions = w.sessions) (c : Nat) :
    cacheDead w' c = cacheDead w c := by
  unfold cacheDead nonShared; rw [hf, hs]



/-- an SDK-internal computation that keeps the invariant for the fixed table keeps `QInv`. -/
theorem QInv.step {α : Type} {w w1 : World} (h : QInv w) (x : M α)
    (hk : w1.keys = w.keys) (hs : w1.secrets = w.secrets) (hc : w1.caches = w.caches)
    (hf : w1.facs = w.facs) (hse : w1.sessions = w.sessions)
    (hx : Spec (RI (tabOf w) .none []) x (fun _ => RI (tabOf w) .none []) (RI (tabOf w) .none []))
    (he : Extends x) : QInv (x w1).2 := by
  have h1 : RI (tabOf w) .none [] w1 := RIc.frame h.2 hk hs hc
  have h2 : RI (tabOf w) .none [] (x w1).2 := hx.toPreserves w1 h1
  have hext := he w1
  have hf' : (x w1).2.facs = w.facs := hext.facs.trans hf
  have hs' : (x w1).2.sessions = w.sessions := hext.sessions.trans hse
  refine ⟨h.1.of_eq hf' hs' ?_, h2.retab fun c _ => (cacheDead_of_eq hf' hs' c).symm⟩
  rw [h2.clen, h.2.clen]

theorem QInv.encrypt {w : World} (h : QInv w) (s pay : Nat) (fl : List Fault) (ho : sessionOpen w s) :
    QInv (encrypt s pay fl true w).2 := by
  have hl := h.1.ctx_live ho
  exact h.step (w1 := { w with log := [], faults := fl }) (encryptPayload (sessionCtx w s) pay true) rfl rfl rfl rfl rfl
    (encryptPayload_spec (tabOf w) [] _ pay hl.1 hl.2) (encryptPayload_ext _ _ _)

theorem QInv.decrypt {w : World} (h : QInv w) (s : Nat) (d : Drr) (fl : List Fault) (ho : sessionOpen w s) :
    QInv (decrypt s d fl true w).2 := by
  have hl := h.1.ctx_live ho
  exact h.step (w1 := { w with log := [], faults := fl }) (decryptDataRowRecord (sessionCtx w s) d true) rfl rfl rfl rfl rfl
    (decryptDataRowRecord_spec (tabOf w) [] _ d hl.1 hl.2) (decryptDataRowRecord_ext _ _ _)

/-- updates of the world that touch neither heap nor wiring. -/
theorem QInv.of_same {w w' : World} (h : QInv w) (hk : w'.keys = w.keys) (hs : w'.secrets = w.secrets)
    (hc : w'.caches = w.caches) (hf : w'.facs = w.facs) (hse : w'.sessions = w.sessions) : QInv w' := by
  have := h.step (w1 := w') (pure () : M Unit) hk hs hc hf hse (Spec.pure _ fun _ h => h) (Extends.pure _)
  exact this

theorem ses_setAt_lookup (l : List Session) (s s' : Nat) (ss' : Session)
    (h : (setAt l s fun x => { x with closed := true })[s']? = some ss') :
    ∃ ss0, l[s']? = some ss0 ∧ ss'.fac = ss0.fac ∧ ss'.ikCache = ss0.ikCache ∧ ss'.part = ss0.part ∧
      (ss'.closed = true ↔ (s' = s ∨ ss0.closed = true)) := by
  rw [setAt_getElem?] at h
  by_cases e : s' = s
  · subst e
    simp only [if_true] at h
    cases hl : l[s']? with
    | none => rw [hl] at h; cases h
    | some ss0 => rw [hl] at h; simp at h; subst h; exact ⟨ss0, rfl, rfl, rfl, rfl, by simp⟩
  · simp only [e, if_false] at h
    exact ⟨ss', h, rfl, rfl, rfl, by simp [e]⟩

theorem ses_setAt_lookup' (l : List Session) (s s' : Nat) (ss0 : Session) (h : l[s']? = some ss0) :
    ∃ ss', (setAt l s fun x => { x with closed := true })[s']? = some ss' ∧ ss'.fac = ss0.fac ∧ ss'.ikCache = ss0.ikCache ∧
      (ss'.closed = true ↔ (s' = s ∨ ss0.closed = true)) := by
  rw [setAt_getElem?]
  by_cases e : s' = s
  · subst e; simp only [if_true, h, Option.map_some]; exact ⟨_, rfl, rfl, rfl, by simp⟩
  · simp only [e, if_false, h]; exact ⟨_, rfl, rfl, rfl, by simp [e]⟩

theorem Wired.closeSes {w w' : World} (hw : Wired w) (s : Nat) (hf : w'.facs = w.facs)
    (hs : w'.sessions = setAt w.sessions s fun x => { x with closed := true })
    (hc : w'.caches.length = w.caches.length) : Wired w' := by
  have hns : ∀ ss ss0 : Session, ss.fac = ss0.fac → nonShared w' ss = nonShared w ss0 := by
    intro ss ss0 e; unfold nonShared; rw [hf, e]
  refine ⟨?_, ?_, ?_, ?_, ?_⟩
  · rw [hf, hc]; exact hw.facOk
  · rw [hf]; exact hw.facDisj
  · intro s' ss' h'
    rw [hs] at h'
    obtain ⟨ss0, h0, e1, e2, _⟩ := ses_setAt_lookup _ _ _ _ h'
    rw [hf, hc, e1, e2]
    exact hw.sesOk s' ss0 h0
  · intro s1 s2 ss1 ss2 h1 h2 n1 n2 e
    rw [hs] at h1 h2
    obtain ⟨a0, ha, a1, a2, _⟩ := ses_setAt_lookup _ _ _ _ h1
    obtain ⟨b0, hb, b1, b2, _⟩ := ses_setAt_lookup _ _ _ _ h2
    rw [hns _ _ a1] at n1; rw [hns _ _ b1] at n2
    exact hw.sesDisj s1 s2 a0 b0 ha hb n1 n2 (by rw [← a2, ← b2]; exact e)
  · intro c hc'
    rw [hc] at hc'
    rcases hw.owned c hc' with ⟨f, fac, h1, h2⟩ | ⟨s0, ss0, h1, h2, h3⟩
    · exact Or.inl ⟨f, fac, by rw [hf]; exact h1, h2⟩
    · obtain ⟨ss', h', e1, e2, _⟩ := ses_setAt_lookup' w.sessions s s0 ss0 h1
      exact Or.inr ⟨s0, ss', by rw [hs]; exact h', by rw [hns _ _ e1]; exact h2, by rw [e2]; exact h3⟩

/-- which caches are dead after the ghost flag of session `s` has been set. -/
theorem cacheDead_closeSes {w w' : World} (s : Nat) (ss : Session) (hss : w.sessions[s]? = some ss)
    (hf : w'.facs = w.facs) (hs : w'.sessions = setAt w.sessions s fun x => { x with closed := true }) (c : Nat) :
    cacheDead w' c = ((nonShared w ss && ss.ikCache == c) || cacheDead w c) := by
  have hns : ∀ a b : Session, a.fac = b.fac → nonShared w' a = nonShared w b := by
    intro a b e; unfold nonShared; rw [hf, e]
  rw [Bool.eq_iff_iff]
  simp only [Bool.or_eq_true, Bool.and_eq_true, beq_iff_eq, cacheDead_iff]
  constructor
  · rintro (⟨f, fac, h1, h2, h3⟩ | ⟨s', ss', h1, h2, h3, h4⟩)
    · exact Or.inr (Or.inl ⟨f, fac, by rw [← hf]; exact h1, h2, h3⟩)
    · rw [hs] at h1
      obtain ⟨ss0, h0, e1, e2, _, e4⟩ := ses_setAt_lookup _ _ _ _ h1
      rw [hns _ _ e1] at h3
      rcases e4.1 h2 with rfl | hcl
      · rw [hss] at h0; cases h0
        exact Or.inl ⟨h3, by rw [← e2]; exact h4⟩
      · exact Or.inr (Or.inr ⟨s', ss0, h0, hcl, h3, by rw [← e2]; exact h4⟩)
  · rintro (⟨h1, h2⟩ | ⟨f, fac, h1, h2, h3⟩ | ⟨s', ss0, h1, h2, h3, h4⟩)
    · obtain ⟨ss', h', e1, e2, e4⟩ := ses_setAt_lookup' w.sessions s s ss hss
      exact Or.inr ⟨s, ss', by rw [hs]; exact h', e4.2 (Or.inl rfl), by rw [hns _ _ e1]; exact h1, by rw [e2]; exact h2⟩
    · exact Or.inl ⟨f, fac, by rw [hf]; exact h1, h2, h3⟩
    · obtain ⟨ss', h', e1, e2, e4⟩ := ses_setAt_lookup' w.sessions s s' ss0 h1
      exact Or.inr ⟨s', ss', by rw [hs]; exact h', e4.2 (Or.inr h2), by rw [hns _ _ e1]; exact h3, by rw [e2]; exact h4⟩

/-- a session that has not been closed and owns its cache: the cache is open. -/
theorem Wired.own_live {w : World} (hw : Wired w) {s : Nat} {ss : Session} (hss : w.sessions[s]? = some ss)
    (hcl : ss.closed = false) (hns : nonShared w ss = true) : cacheDead w ss.ikCache = false := by
  obtain ⟨fac, hfac, hsh, hn⟩ := hw.sesOk s ss hss
  rw [nonShared_eq hfac] at hns
  have hnone : fac.sharedIk = none := by simpa using hns
  rw [cacheDead_false_iff]
  constructor
  · intro f' fac' hf' _ hfc'
    exact (hn hnone).2 f' fac' hf' hfc'
  · intro s' ss' hs' hcl' hns' heq
    have hnss : nonShared w ss = true := by rw [nonShared_eq hfac, hnone]; rfl
    have := hw.sesDisj s' s ss' ss hs' hss hns' hnss heq
    subst this; rw [hss] at hs'; cases hs'; rw [hcl] at hcl'; cases hcl'

theorem QInv.closeSession {w : World} (h : QInv w) (s : Nat) (ss : Session) (hss : w.sessions[s]? = some ss)
    (hcl : ss.closed = false) : QInv ((do beginOp []; closeSession s : M Unit) w).2 := by
  obtain ⟨fac, hfac, hsh, hn⟩ := h.1.sesOk s ss hss
  have hpol := (h.1.facOk _ _ hfac).2.2.1
  simp only [bind_run, beginOp, modify_run, Env.closeSession, get_run]
  have hgs : w.sessions.getD s default = ss := getD_eq_of_getElem? hss
  have hgf : w.facs.getD ss.fac default = fac := getD_eq_of_getElem? hfac
  simp only [hgs, hgf]
  cases hsi : fac.sharedIk with
  | some c0 =>
    have hp : fac.pol.sharedIK = true := by rw [hpol, hsi]; rfl
    simp only [hp, if_true, pure_run]
    have hnsf : nonShared w ss = false := by rw [nonShared_eq hfac, hsi]; rfl
    let w1 : World := { w with log := [], faults := [], sessions := setAt w.sessions s fun x => { x with closed := true } }
    show QInv w1
    refine ⟨h.1.closeSes s rfl rfl rfl, ?_⟩
    refine RI.retab (RIc.frame h.2 rfl rfl rfl) ?_
    intro c _
    rw [cacheDead_closeSes (w := w) (w' := w1) s ss hss rfl rfl c, hnsf]
    simp [tabOf]
  | none =>
    have hp : fac.pol.sharedIK = false := by rw [hpol, hsi]; rfl
    simp only [hp, Bool.false_eq_true, if_false]
    have hnsf : nonShared w ss = true := by rw [nonShared_eq hfac, hsi]; rfl
    have hlive := h.1.own_live hss hcl hnsf
    let w1 : World := { w with log := [], faults := [], sessions := setAt w.sessions s fun x => { x with closed := true } }
    have h1 : RI (tabOf w) .none [] w1 := RIc.frame h.2 rfl rfl rfl
    have hsp := cacheClose_spec (tabOf w) [] ss.ikCache hlive w1 h1
    have hext := cacheClose_ext ss.ikCache w1
    show QInv (cacheClose ss.ikCache w1).2
    cases hr : cacheClose ss.ikCache w1 with
    | mk r w2 =>
      rw [hr] at hsp hext
      cases r with
      | error e => exact hsp.elim
      | ok u =>
        simp only at hsp hext ⊢
        have hf2 : w2.facs = w.facs := hext.facs
        have hs2 : w2.sessions = setAt w.sessions s fun x => { x with closed := true } := hext.sessions
        refine ⟨h.1.closeSes s hf2 hs2 ?_, ?_⟩
        · rw [hsp.clen, h.2.clen]; rfl
        · refine RI.retab hsp ?_
          intro c _
          rw [cacheDead_closeSes s ss hss hf2 hs2 c, hnsf]
          simp only [tabOf, CTab.kill, Bool.true_and]
          rw [Bool.beq_comm]

theorem fac_setAt_lookup (l : List Factory) (f f' : Nat) (fac' : Factory)
    (h : (setAt l f fun x => { x with closed := true })[f']? = some fac') :
    ∃ fac0, l[f']? = some fac0 ∧ fac'.pol = fac0.pol ∧ fac'.skCache = fac0.skCache ∧ fac'.sharedIk = fac0.sharedIk ∧
      (fac'.closed = true ↔ (f' = f ∨ fac0.closed = true)) := by
  rw [setAt_getElem?] at h
  by_cases e : f' = f
  · subst e
    simp only [if_true] at h
    cases hl : l[f']? with
    | none => rw [hl] at h; cases h
    | some x => rw [hl] at h; simp at h; subst h; exact ⟨x, rfl, rfl, rfl, rfl, by simp⟩
  · simp only [e, if_false] at h
    exact ⟨fac', h, rfl, rfl, rfl, by simp [e]⟩

theorem fac_setAt_lookup' (l : List Factory) (f f' : Nat) (fac0 : Factory) (h : l[f']? = some fac0) :
    ∃ fac', (setAt l f fun x => { x with closed := true })[f']? = some fac' ∧ fac'.pol = fac0.pol ∧
      fac'.skCache = fac0.skCache ∧ fac'.sharedIk = fac0.sharedIk ∧ (fac'.closed = true ↔ (f' = f ∨ fac0.closed = true)) := by
  rw [setAt_getElem?]
  by_cases e : f' = f
  · subst e; simp only [if_true, h, Option.map_some]; exact ⟨_, rfl, rfl, rfl, rfl, by simp⟩
  · simp only [e, if_false, h]; exact ⟨_, rfl, rfl, rfl, rfl, by simp [e]⟩

theorem nonShared_closeFac {w w' : World} (f : Nat)
    (hf : w'.facs = setAt w.facs f fun x => { x with closed := true }) (ss : Session) :
    nonShared w' ss = nonShared w ss := by
  unfold nonShared
  rw [hf]
  simp only [List.getD_eq_getElem?_getD]
  cases h : w.facs[ss.fac]? with
  | none =>
    have : (setAt w.facs f fun x => { x with closed := true })[ss.fac]? = none := by
      rw [setAt_getElem?]; split <;> simp [h]
    rw [this]
  | some fac0 =>
    obtain ⟨fac', h', _, _, e, _⟩ := fac_setAt_lookup' w.facs f ss.fac fac0 h
    rw [h']; simp [e]

theorem fcaches_congr {a b : Factory} (h1 : a.skCache = b.skCache) (h2 : a.sharedIk = b.sharedIk) (c : Nat) :
    fcaches a c ↔ fcaches b c := by unfold fcaches; rw [h1, h2]

theorem Wired.closeFac {w w' : World} (hw : Wired w) (f : Nat)
    (hf : w'.facs = setAt w.facs f fun x => { x with closed := true }) (hs : w'.sessions = w.sessions)
    (hc : w'.caches.length = w.caches.length) : Wired w' := by
  have hns := nonShared_closeFac f hf
  refine ⟨?_, ?_, ?_, ?_, ?_⟩
  · intro f' fac' h'
    rw [hf] at h'
    obtain ⟨fac0, h0, e1, e2, e3, _⟩ := fac_setAt_lookup _ _ _ _ h'
    rw [hc, e1, e2, e3]
    exact hw.facOk f' fac0 h0
  · intro f1 f2 a b c h1 h2 c1 c2
    rw [hf] at h1 h2
    obtain ⟨a0, ha, _, a2, a3, _⟩ := fac_setAt_lookup _ _ _ _ h1
    obtain ⟨b0, hb, _, b2, b3, _⟩ := fac_setAt_lookup _ _ _ _ h2
    exact hw.facDisj f1 f2 a0 b0 c ha hb ((fcaches_congr a2 a3 c).1 c1) ((fcaches_congr b2 b3 c).1 c2)
  · intro s ss h'
    rw [hs] at h'
    obtain ⟨fac0, h0, a, b⟩ := hw.sesOk s ss h'
    obtain ⟨fac', hf', _, e2, e3, _⟩ := fac_setAt_lookup' w.facs f ss.fac fac0 h0
    refine ⟨fac', by rw [hf]; exact hf', by rw [e3]; exact a, ?_⟩
    rw [e3, hc]
    intro hnone
    refine ⟨(b hnone).1, ?_⟩
    intro f2 fac2 h2 hc2
    rw [hf] at h2
    obtain ⟨x0, hx, _, x2, x3, _⟩ := fac_setAt_lookup _ _ _ _ h2
    exact (b hnone).2 f2 x0 hx ((fcaches_congr x2 x3 _).1 hc2)
  · rw [hs]; simp only [hns]; exact hw.sesDisj
  · intro c hc'
    rw [hc] at hc'
    rcases hw.owned c hc' with ⟨f0, fac0, h1, h2⟩ | ⟨s0, ss0, h1, h2, h3⟩
    · obtain ⟨fac', hf', _, e2, e3, _⟩ := fac_setAt_lookup' w.facs f f0 fac0 h1
      exact Or.inl ⟨f0, fac', by rw [hf]; exact hf', (fcaches_congr e2 e3 c).2 h2⟩
    · exact Or.inr ⟨s0, ss0, by rw [hs]; exact h1, by rw [hns]; exact h2, h3⟩

theorem cacheDead_closeFac {w w' : World} (f : Nat) (fac : Factory) (hfac : w.facs[f]? = some fac)
    (hf : w'.facs = setAt w.facs f fun x => { x with closed := true }) (hs : w'.sessions = w.sessions) (c : Nat) :
    cacheDead w' c = (decide (fcaches fac c) || cacheDead w c) := by
  have hns := nonShared_closeFac f hf
  rw [Bool.eq_iff_iff]
  simp only [Bool.or_eq_true, decide_eq_true_eq, cacheDead_iff]
  constructor
  · rintro (⟨f', fac', h1, h2, h3⟩ | ⟨s', ss', h1, h2, h3, h4⟩)
    · rw [hf] at h1
      obtain ⟨x0, hx, _, x2, x3, x4⟩ := fac_setAt_lookup _ _ _ _ h1
      rcases x4.1 h2 with rfl | hcl
      · rw [hfac] at hx; cases hx
        exact Or.inl ((fcaches_congr x2 x3 c).1 h3)
      · exact Or.inr (Or.inl ⟨f', x0, hx, hcl, (fcaches_congr x2 x3 c).1 h3⟩)
    · exact Or.inr (Or.inr ⟨s', ss', by rw [← hs]; exact h1, h2, by rw [← hns]; exact h3, h4⟩)
  · rintro (h1 | ⟨f', x0, h1, h2, h3⟩ | ⟨s', ss0, h1, h2, h3, h4⟩)
    · obtain ⟨fac', h', _, e2, e3, e4⟩ := fac_setAt_lookup' w.facs f f fac hfac
      exact Or.inl ⟨f, fac', by rw [hf]; exact h', e4.2 (Or.inl rfl), (fcaches_congr e2 e3 c).2 h1⟩
    · obtain ⟨fac', h', _, e2, e3, e4⟩ := fac_setAt_lookup' w.facs f f' x0 h1
      exact Or.inl ⟨f', fac', by rw [hf]; exact h', e4.2 (Or.inr h2), (fcaches_congr e2 e3 c).2 h3⟩
    · exact Or.inr ⟨s', ss0, by rw [hs]; exact h1, h2, by rw [hns]; exact h3, h4⟩

/-- the caches of a factory that has not been closed are open. -/
theorem Wired.fac_live {w : World} (hw : Wired w) {f : Nat} {fac : Factory} (hfac : w.facs[f]? = some fac)
    (hcl : fac.closed = false) {c : Nat} (hc : fcaches fac c) : cacheDead w c = false := by
  rw [cacheDead_false_iff]
  constructor
  · intro f' fac' hf' hcl' hfc'
    have := hw.facDisj f' f fac' fac c hf' hfac hfc' hc
    subst this; rw [hfac] at hf'; cases hf'; rw [hcl] at hcl'; cases hcl'
  · intro s' ss' hs' _ hns' heq
    obtain ⟨fac', hfac', _, hn'⟩ := hw.sesOk s' ss' hs'
    rw [nonShared_eq hfac'] at hns'
    have hnone : fac'.sharedIk = none := by simpa using hns'
    exact (hn' hnone).2 f fac hfac (heq ▸ hc)

theorem QInv.closeFactory {w : World} (h : QInv w) (f : Nat) (fac : Factory) (hfac : w.facs[f]? = some fac)
    (hcl : fac.closed = false) : QInv ((do beginOp []; closeFactory f : M Unit) w).2 := by
  simp only [bind_run, beginOp, modify_run, Env.closeFactory, get_run]
  have hgf : w.facs.getD f default = fac := getD_eq_of_getElem? hfac
  simp only [hgf]
  let w1 : World := { w with log := [], faults := [], facs := setAt w.facs f fun x => { x with closed := true } }
  have h1 : RI (tabOf w) .none [] w1 := RIc.frame h.2 rfl rfl rfl
  have hsk := h.1.fac_live hfac hcl (c := fac.skCache) (Or.inl rfl)
  -- closing the system-key cache from a world `wa` whose table is `Ta`
  have final : ∀ (Ta : CTab) (wa : World), RI Ta .none [] wa → Ta.dead fac.skCache = false → wa.facs = w1.facs →
      wa.sessions = w.sessions → Ta.n = w.caches.length →
      (∀ c, (Ta.kill fac.skCache).dead c = (decide (fcaches fac c) || cacheDead w c)) →
      QInv (cacheClose fac.skCache wa).2 := by
    intro Ta wa hia hda hfa hsa hna hdead
    have hsp := cacheClose_spec Ta [] fac.skCache hda wa hia
    have hext := cacheClose_ext fac.skCache wa
    cases hr : cacheClose fac.skCache wa with
    | mk r w2 =>
      rw [hr] at hsp hext
      cases r with
      | error e => exact hsp.elim
      | ok u =>
        simp only at hsp hext ⊢
        have hf2 : w2.facs = setAt w.facs f fun x => { x with closed := true } := hext.facs.trans hfa
        have hs2 : w2.sessions = w.sessions := hext.sessions.trans hsa
        refine ⟨h.1.closeFac f hf2 hs2 ?_, ?_⟩
        · rw [hsp.clen]; exact hna
        · refine RI.retab hsp ?_
          intro c _
          rw [cacheDead_closeFac f fac hfac hf2 hs2 c]
          exact hdead c
  cases hsi : fac.sharedIk with
  | none =>
    simp only [pure_run]
    refine final (tabOf w) w1 h1 hsk rfl rfl rfl ?_
    intro c
    simp only [tabOf, CTab.kill, fcaches, hsi]
    rw [Bool.eq_iff_iff]
    simp only [Bool.or_eq_true, beq_iff_eq, decide_eq_true_eq, reduceCtorEq, or_false]
    constructor <;> rintro (e | e) <;> first | exact Or.inl e.symm | exact Or.inr e
  | some c0 =>
    simp only [bind_run]
    have hc0 := h.1.fac_live hfac hcl (c := c0) (Or.inr hsi)
    have hne : c0 ≠ fac.skCache := ((h.1.facOk f fac hfac).2.1 c0 hsi).2
    have hsp := cacheClose_spec (tabOf w) [] c0 hc0 w1 h1
    have hext := cacheClose_ext c0 w1
    cases hr : cacheClose c0 w1 with
    | mk r w2 =>
      rw [hr] at hsp hext
      cases r with
      | error e => exact hsp.elim
      | ok u =>
        simp only at hsp hext ⊢
        refine final ((tabOf w).kill c0) w2 hsp ?_ hext.facs hext.sessions rfl ?_
        · simp only [CTab.kill, tabOf, hsk, Bool.or_false, beq_eq_false_iff_ne, ne_eq]
          exact fun e => hne e.symm
        · intro c
          simp only [tabOf, CTab.kill, fcaches, hsi, Option.some.injEq]
          rw [Bool.eq_iff_iff]
          simp only [Bool.or_eq_true, beq_iff_eq, decide_eq_true_eq]
          constructor
          · rintro (e | e | e)
            · exact Or.inl (Or.inl e.symm)
            · exact Or.inl (Or.inr e.symm)
            · exact Or.inr e
          · rintro ((e | e) | e)
            · exact Or.inl e.symm
            · exact Or.inr (Or.inl e.symm)
            · exact Or.inr (Or.inr e)


/-- a new, empty cache at the end of the cache list. -/
theorem RIc.appendCache {T T' : CTab} {raw : Raw} {h : Nat → Int} {w : World} (hi : RIc T raw h w) (kc : KeyCache)
    (hents : kc.ents = []) (hlat : kc.latest = []) (hbnd : kc.mode = .bounded → BOK kc)
    (hd : ∀ c, c < w.caches.length → T'.dead c = T.dead c)
    (hm : ∀ c, T'.mode c = ((w.caches ++ [kc]).getD c default).mode)
    (hn : T'.n = T.n + 1) : RIc T' raw h { w with caches := w.caches ++ [kc] } := by
  have hcnt : ∀ o, cntOf T' h { w with caches := w.caches ++ [kc] } o = cntOf T h w o := by
    intro o
    unfold cntOf
    show ((entCount T'.dead (w.caches ++ [kc]) o : Nat) : Int) + h o = _
    rw [entCount_append_empty _ _ _ _ hents, entCount_congr w.caches o hd]
  refine ⟨hi.len, hi.rawSec, hi.rawObj, hi.sec, hi.mat, hi.led, ?_, hi.hval, ?_, ?_, ?_⟩
  · intro o k hk; rw [hcnt]; exact hi.acc o k hk
  · intro c kc' hc' hdc
    simp only [getElem?_append_single] at hc'
    split at hc'
    · rename_i hlt
      exact hi.ents c kc' hc' (by rw [← hd c hlt]; exact hdc)
    · split at hc'
      · cases hc'
        refine ⟨?_, ?_, ?_, fun _ => hents, hbnd⟩
        · intro m e hme; rw [hents] at hme; cases hme
        · rw [hents]; exact List.nodup_nil
        · intro kid l hl; rw [hlat] at hl; cases hl
      · cases hc'
  · intro c; exact (hm c).symm
  · show (w.caches ++ [kc]).length = T'.n
    rw [hn, ← hi.clen]; simp

theorem cacheOf_fresh (on : Bool) (kind : Option (Cache.Kind × Nat)) (hk : kindOk kind) (a b : Nat) :
    (cacheOf on kind a b).ents = [] ∧ (cacheOf on kind a b).latest = [] ∧
    ((cacheOf on kind a b).mode = .bounded → BOK (cacheOf on kind a b)) := by
  unfold cacheOf newCache
  cases on with
  | false => simp
  | true =>
    cases kind with
    | none => simp
    | some kc =>
      obtain ⟨k, cap⟩ := kc
      simp only [Bool.not_true, Bool.false_eq_true, if_false, true_and]
      intro _
      refine ⟨Cache.inv_mk k cap 0 a b (hk k cap rfl), rfl, rfl, List.nodup_nil, ?_, ?_⟩
      · intro s hs; simp [Cache.mk, Cache.keysOf] at hs
      · intro m; simp [Cache.mk, Cache.keysOf]


theorem nonShared_append {w w' : World} {fac : Factory} (hf : w'.facs = w.facs ++ [fac]) (ss : Session)
    (hv : ss.fac < w.facs.length) : nonShared w' ss = nonShared w ss := by
  unfold nonShared
  rw [hf]
  simp only [List.getD_eq_getElem?_getD, List.getElem?_append_left hv]

theorem Wired.ses_fac_lt {w : World} (hw : Wired w) {s : Nat} {ss : Session} (h : w.sessions[s]? = some ss) :
    ss.fac < w.facs.length := by
  obtain ⟨fac, hfac, _⟩ := hw.sesOk s ss h
  exact getElem?_lt hfac

theorem fac_lookup_append {l : List Factory} {fac fac' : Factory} {f : Nat} (h : (l ++ [fac])[f]? = some fac') :
    (f < l.length ∧ l[f]? = some fac') ∨ (f = l.length ∧ fac' = fac) := by
  rw [getElem?_append_single] at h
  split at h
  · exact Or.inl ⟨by assumption, h⟩
  · split at h
    · cases h; exact Or.inr ⟨by assumption, rfl⟩
    · cases h

theorem Wired.fcaches_lt {w : World} (hw : Wired w) {f : Nat} {fac : Factory} (h : w.facs[f]? = some fac) {c : Nat}
    (hc : fcaches fac c) : c < w.caches.length := by
  have := hw.facOk f fac h
  rcases hc with rfl | hc
  · exact this.1
  · exact (this.2.1 c hc).1

theorem Wired.addFactory {w w' : World} {fac : Factory} (hw : Wired w) (hs : w'.sessions = w.sessions)
    (hf : w'.facs = w.facs ++ [fac]) (hlen : w.caches.length ≤ w'.caches.length)
    (hsk : w.caches.length ≤ fac.skCache ∧ fac.skCache < w'.caches.length)
    (hsh : ∀ c, fac.sharedIk = some c → w.caches.length ≤ c ∧ c < w'.caches.length ∧ c ≠ fac.skCache)
    (hpol : fac.pol.sharedIK = fac.sharedIk.isSome ∧ kindOk fac.pol.skKind ∧ kindOk fac.pol.ikKind)
    (hown : ∀ c, w.caches.length ≤ c → c < w'.caches.length → fcaches fac c) : Wired w' := by
  have hnew : ∀ c, fcaches fac c → w.caches.length ≤ c := by
    rintro c (rfl | hc)
    · exact hsk.1
    · exact (hsh c hc).1
  have hns : ∀ s ss, w.sessions[s]? = some ss → nonShared w' ss = nonShared w ss :=
    fun s ss h => nonShared_append hf ss (hw.ses_fac_lt h)
  refine ⟨?_, ?_, ?_, ?_, ?_⟩
  · intro f' fac' h'
    rw [hf] at h'
    rcases fac_lookup_append h' with ⟨_, h0⟩ | ⟨_, rfl⟩
    · have := hw.facOk f' fac' h0
      refine ⟨by omega, fun c hc => ⟨by have := (this.2.1 c hc).1; omega, (this.2.1 c hc).2⟩, this.2.2⟩
    · exact ⟨hsk.2, fun c hc => ⟨(hsh c hc).2.1, (hsh c hc).2.2⟩, hpol⟩
  · intro f1 f2 a b c h1 h2 c1 c2
    rw [hf] at h1 h2
    rcases fac_lookup_append h1 with ⟨_, ha⟩ | ⟨e1, rfl⟩ <;> rcases fac_lookup_append h2 with ⟨_, hb⟩ | ⟨e2, rfl⟩
    · exact hw.facDisj f1 f2 a b c ha hb c1 c2
    · have := hw.fcaches_lt ha c1; have := hnew c c2; omega
    · have := hw.fcaches_lt hb c2; have := hnew c c1; omega
    · omega
  · intro s ss h'
    rw [hs] at h'
    obtain ⟨fac0, h0, a, b⟩ := hw.sesOk s ss h'
    refine ⟨fac0, by rw [hf]; exact append_getElem?_of_some _ h0, a, ?_⟩
    intro hnone
    refine ⟨by have := (b hnone).1; omega, ?_⟩
    intro f2 fac2 h2 hc2
    rw [hf] at h2
    rcases fac_lookup_append h2 with ⟨_, hb⟩ | ⟨_, rfl⟩
    · exact (b hnone).2 f2 fac2 hb hc2
    · have := hnew _ hc2; have := (b hnone).1; omega
  · intro s1 s2 a b h1 h2 n1 n2 e
    rw [hs] at h1 h2
    rw [hns _ _ h1] at n1; rw [hns _ _ h2] at n2
    exact hw.sesDisj s1 s2 a b h1 h2 n1 n2 e
  · intro c hc
    by_cases hlt : c < w.caches.length
    · rcases hw.owned c hlt with ⟨f0, fac0, h1, h2⟩ | ⟨s0, ss0, h1, h2, h3⟩
      · exact Or.inl ⟨f0, fac0, by rw [hf]; exact append_getElem?_of_some _ h1, h2⟩
      · exact Or.inr ⟨s0, ss0, by rw [hs]; exact h1, by rw [hns _ _ h1]; exact h2, h3⟩
    · exact Or.inl ⟨w.facs.length, fac, by rw [hf]; simp, hown c (by omega) hc⟩

theorem cacheDead_addFactory {w w' : World} {fac : Factory} (hw : Wired w) (hs : w'.sessions = w.sessions)
    (hf : w'.facs = w.facs ++ [fac]) (hcl : fac.closed = false) (c : Nat) : cacheDead w' c = cacheDead w c := by
  have hns : ∀ s ss, w.sessions[s]? = some ss → nonShared w' ss = nonShared w ss :=
    fun s ss h => nonShared_append hf ss (hw.ses_fac_lt h)
  rw [Bool.eq_iff_iff]
  simp only [cacheDead_iff]
  constructor
  · rintro (⟨f', fac', h1, h2, h3⟩ | ⟨s', ss', h1, h2, h3, h4⟩)
    · rw [hf] at h1
      rcases fac_lookup_append h1 with ⟨_, hb⟩ | ⟨_, rfl⟩
      · exact Or.inl ⟨f', fac', hb, h2, h3⟩
      · rw [hcl] at h2; cases h2
    · rw [hs] at h1
      exact Or.inr ⟨s', ss', h1, h2, by rw [← hns _ _ h1]; exact h3, h4⟩
  · rintro (⟨f', fac', h1, h2, h3⟩ | ⟨s', ss', h1, h2, h3, h4⟩)
    · exact Or.inl ⟨f', fac', by rw [hf]; exact append_getElem?_of_some _ h1, h2, h3⟩
    · exact Or.inr ⟨s', ss', by rw [hs]; exact h1, h2, by rw [hns _ _ h1]; exact h3, h4⟩

theorem QInv.newFactory {w : World} (h : QInv w) (p : Policy) (a b c d : Nat)
    (hnb : kindOk p.skKind ∧ kindOk p.ikKind) : QInv (newFactory p a b c d w).2 := by
  simp only [Env.newFactory, bind_run, addCache]
  have hf1 := cacheOf_fresh p.cacheSK p.skKind hnb.1 a b
  have hf2 := cacheOf_fresh true p.ikKind hnb.2 c d
  cases hsh : p.sharedIK with
  | false =>
    simp only [Bool.false_eq_true, if_false, pure_run]
    let fac : Factory := { pol := p, skCache := w.caches.length, sharedIk := none }
    let w' : World := { w with caches := w.caches ++ [cacheOf p.cacheSK p.skKind a b], facs := w.facs ++ [fac] }
    show QInv w'
    have hwd : Wired w' := by
      refine h.1.addFactory (w' := w') (fac := fac) rfl rfl (by simp [w']) ⟨Nat.le_refl _, by simp [w', fac]⟩
        (fun c hc => by cases hc) ⟨by simp [fac, hsh], hnb.1, hnb.2⟩ ?_
      intro c h1 h2
      left
      simp [w'] at h2
      show w.caches.length = c
      omega
    refine ⟨hwd, ?_⟩
    have hd : ∀ c, cacheDead w' c = cacheDead w c := cacheDead_addFactory (fac := fac) h.1 rfl rfl rfl
    have := RIc.appendCache (T' := tabOf w') h.2 (cacheOf p.cacheSK p.skKind a b) hf1.1 hf1.2.1 hf1.2.2
      (fun c _ => hd c) (fun c => rfl) (by simp [tabOf, w'])
    exact RIc.frame this rfl rfl rfl
  | true =>
    simp only [if_true, pure_run, bind_run, addCache, List.length_append, List.length_cons, List.length_nil, Nat.zero_add]
    let fac : Factory := { pol := p, skCache := w.caches.length, sharedIk := some (w.caches.length + 1) }
    let w1 : World := { w with caches := w.caches ++ [cacheOf p.cacheSK p.skKind a b] }
    let w' : World := { w with caches := (w.caches ++ [cacheOf p.cacheSK p.skKind a b]) ++ [cacheOf true p.ikKind c d], facs := w.facs ++ [fac] }
    show QInv w'
    have hwd : Wired w' := by
      refine h.1.addFactory (w' := w') (fac := fac) rfl (by simp [w', fac]) (by simp [w']) ⟨Nat.le_refl _, by simp [w', fac]⟩
        ?_ ⟨by simp [fac, hsh], hnb.1, hnb.2⟩ ?_
      · intro c hc
        simp only [fac, Option.some.injEq] at hc
        subst hc
        simp [w', fac]
      · intro c h1 h2
        simp [w'] at h2
        by_cases e : c = w.caches.length
        · left; exact e.symm
        · right; show some (w.caches.length + 1) = some c; congr 1; omega
    refine ⟨hwd, ?_⟩
    have hd : ∀ c, cacheDead w' c = cacheDead w c := cacheDead_addFactory (fac := fac) h.1 rfl (by simp [w', fac]) rfl
    let T1 : CTab := { dead := cacheDead w', mode := fun c => (w1.caches.getD c default).mode, n := w.caches.length + 1 }
    have h1 : RIc T1 .none (hcount []) w1 := RIc.appendCache (T' := T1) h.2 (cacheOf p.cacheSK p.skKind a b) hf1.1 hf1.2.1 hf1.2.2
      (fun c _ => hd c) (fun c => rfl) rfl
    have h2 := RIc.appendCache (T' := tabOf w') h1 (cacheOf true p.ikKind c d) hf2.1 hf2.2.1 hf2.2.2
      (fun c _ => rfl) (fun c => rfl) (by simp [tabOf, w', T1])
    exact RIc.frame h2 rfl rfl rfl

theorem ses_lookup_append {l : List Session} {ss ss' : Session} {s : Nat} (h : (l ++ [ss])[s]? = some ss') :
    (s < l.length ∧ l[s]? = some ss') ∨ (s = l.length ∧ ss' = ss) := by
  rw [getElem?_append_single] at h
  split at h
  · exact Or.inl ⟨by assumption, h⟩
  · split at h
    · cases h; exact Or.inr ⟨by assumption, rfl⟩
    · cases h

theorem nonShared_facs_eq {w w' : World} (hf : w'.facs = w.facs) (ss : Session) : nonShared w' ss = nonShared w ss := by
  unfold nonShared; rw [hf]

theorem Wired.addSession {w w' : World} {ss : Session} {fac : Factory} (hw : Wired w) (hf : w'.facs = w.facs)
    (hs : w'.sessions = w.sessions ++ [ss]) (hfac : w.facs[ss.fac]? = some fac)
    (hcase : (∃ c, fac.sharedIk = some c ∧ ss.ikCache = c ∧ w'.caches.length = w.caches.length) ∨
      (fac.sharedIk = none ∧ ss.ikCache = w.caches.length ∧ w'.caches.length = w.caches.length + 1)) : Wired w' := by
  have hlen : w.caches.length ≤ w'.caches.length := by rcases hcase with ⟨c, _, _, e⟩ | ⟨_, _, e⟩ <;> omega
  have hns := nonShared_facs_eq hf
  have hnsnew : nonShared w ss = true → fac.sharedIk = none ∧ ss.ikCache = w.caches.length ∧ w'.caches.length = w.caches.length + 1 := by
    intro hn
    rw [nonShared_eq hfac] at hn
    rcases hcase with ⟨c, e, _, _⟩ | h
    · rw [e] at hn; cases hn
    · exact h
  have hold_lt : ∀ (s0 : Nat) (ss0 : Session), w.sessions[s0]? = some ss0 → nonShared w ss0 = true → ss0.ikCache < w.caches.length := by
    intro s0 ss0 h0 hn
    obtain ⟨fac0, hfac0, _, b⟩ := hw.sesOk s0 ss0 h0
    rw [nonShared_eq hfac0] at hn
    exact (b (by simpa using hn)).1
  refine ⟨?_, ?_, ?_, ?_, ?_⟩
  · intro f' fac' h'
    rw [hf] at h'
    have := hw.facOk f' fac' h'
    exact ⟨by omega, fun c hc => ⟨by have := (this.2.1 c hc).1; omega, (this.2.1 c hc).2⟩, this.2.2⟩
  · rw [hf]; exact hw.facDisj
  · intro s0 ss0 h'
    rw [hs] at h'
    rw [hf]
    rcases ses_lookup_append h' with ⟨_, h0⟩ | ⟨_, rfl⟩
    · obtain ⟨fac0, hfac0, a, b⟩ := hw.sesOk s0 ss0 h0
      exact ⟨fac0, hfac0, a, fun hn => ⟨by have := (b hn).1; omega, (b hn).2⟩⟩
    · refine ⟨fac, hfac, ?_, ?_⟩
      · intro c hc
        rcases hcase with ⟨c', e, e2, _⟩ | ⟨e, _, _⟩
        · rw [e] at hc; cases hc; exact e2
        · rw [e] at hc; cases hc
      · intro hn
        rcases hcase with ⟨c', e, _, _⟩ | ⟨_, e2, e3⟩
        · rw [e] at hn; cases hn
        · refine ⟨by omega, ?_⟩
          intro f2 fac2 h2 hc2
          have := hw.fcaches_lt h2 hc2
          omega
  · intro s1 s2 a b h1 h2 n1 n2 e
    rw [hs] at h1 h2
    rw [hns] at n1 n2
    rcases ses_lookup_append h1 with ⟨l1, ha⟩ | ⟨e1, rfl⟩ <;> rcases ses_lookup_append h2 with ⟨l2, hb⟩ | ⟨e2, rfl⟩
    · exact hw.sesDisj s1 s2 a b ha hb n1 n2 e
    · have := hold_lt _ _ ha n1; have := (hnsnew n2).2.1; omega
    · have := hold_lt _ _ hb n2; have := (hnsnew n1).2.1; omega
    · omega
  · intro c hc
    by_cases hlt : c < w.caches.length
    · rcases hw.owned c hlt with ⟨f0, fac0, h1, h2⟩ | ⟨s0, ss0, h1, h2, h3⟩
      · exact Or.inl ⟨f0, fac0, by rw [hf]; exact h1, h2⟩
      · exact Or.inr ⟨s0, ss0, by rw [hs]; exact append_getElem?_of_some _ h1, by rw [hns]; exact h2, h3⟩
    · rcases hcase with ⟨c', _, _, e⟩ | ⟨e1, e2, e3⟩
      · omega
      · refine Or.inr ⟨w.sessions.length, ss, by rw [hs]; simp, ?_, by omega⟩
        rw [hns, nonShared_eq hfac, e1]; rfl

theorem cacheDead_addSession {w w' : World} {ss : Session} (hf : w'.facs = w.facs)
    (hs : w'.sessions = w.sessions ++ [ss]) (hcl : ss.closed = false) (c : Nat) : cacheDead w' c = cacheDead w c := by
  have hns := nonShared_facs_eq hf
  rw [Bool.eq_iff_iff]
  simp only [cacheDead_iff]
  constructor
  · rintro (⟨f', fac', h1, h2, h3⟩ | ⟨s', ss', h1, h2, h3, h4⟩)
    · exact Or.inl ⟨f', fac', by rw [← hf]; exact h1, h2, h3⟩
    · rw [hs] at h1
      rcases ses_lookup_append h1 with ⟨_, hb⟩ | ⟨_, rfl⟩
      · exact Or.inr ⟨s', ss', hb, h2, by rw [← hns]; exact h3, h4⟩
      · rw [hcl] at h2; cases h2
  · rintro (⟨f', fac', h1, h2, h3⟩ | ⟨s', ss', h1, h2, h3, h4⟩)
    · exact Or.inl ⟨f', fac', by rw [hf]; exact h1, h2, h3⟩
    · exact Or.inr ⟨s', ss', by rw [hs]; exact append_getElem?_of_some _ h1, h2, by rw [hns]; exact h3, h4⟩

theorem QInv.getSession {w : World} (h : QInv w) (f part a b : Nat) (fac : Factory) (hfac : w.facs[f]? = some fac) :
    QInv (getSession f part a b w).2 := by
  have hgf : w.facs.getD f default = fac := getD_eq_of_getElem? hfac
  simp only [Env.getSession, bind_run, get_run, hgf]
  have hfo := h.1.facOk f fac hfac
  cases hsi : fac.sharedIk with
  | some c0 =>
    simp only [pure_run]
    let ss : Session := { fac := f, part := part, ikCache := c0 }
    let w' : World := { w with sessions := w.sessions ++ [ss] }
    show QInv w'
    refine ⟨h.1.addSession (w' := w') (ss := ss) (fac := fac) rfl rfl hfac (Or.inl ⟨c0, hsi, rfl, rfl⟩), ?_⟩
    refine RI.retab (RIc.frame h.2 rfl rfl rfl) ?_
    intro c _
    exact (cacheDead_addSession (w := w) (w' := w') (ss := ss) rfl rfl rfl c).symm
  | none =>
    simp only [addCache]
    have hfr := cacheOf_fresh fac.pol.cacheIK fac.pol.ikKind hfo.2.2.2.2 a b
    let ss : Session := { fac := f, part := part, ikCache := w.caches.length }
    let w' : World := { w with caches := w.caches ++ [cacheOf fac.pol.cacheIK fac.pol.ikKind a b], sessions := w.sessions ++ [ss] }
    show QInv w'
    refine ⟨h.1.addSession (w' := w') (ss := ss) (fac := fac) rfl rfl hfac (Or.inr ⟨hsi, rfl, by simp [w']⟩), ?_⟩
    have hd : ∀ c, cacheDead w' c = cacheDead w c := cacheDead_addSession (w := w) (w' := w') (ss := ss) rfl rfl rfl
    have := RIc.appendCache (T' := tabOf w') h.2 (cacheOf fac.pol.cacheIK fac.pol.ikKind a b) hfr.1 hfr.2.1 hfr.2.2
      (fun c _ => hd c) (fun c => rfl) (by simp [tabOf, w'])
    exact RIc.frame this rfl rfl rfl

/-! ### well-formed histories -/

/-- bounded key caches have capacity ≥ 1 (capacity 0 is outside C15's and C09's quantifier: the
first `Set` panics in Go). -/
def CapsPosOp : Op → Prop
  | .newFactory p _ _ _ _ => kindOk p.skKind ∧ kindOk p.ikKind
  | _ => True

/-- an operation a caller can legitimately issue in world `w`: it names existing objects, uses
only sessions that are open (neither the session nor its factory has been closed) and closes
nothing twice. -/
def opOk (w : World) : Op → Prop
  | .getSession f _ _ _ => ∃ fac, w.facs[f]? = some fac
  | .encrypt s _ _ => sessionOpen w s
  | .decrypt s _ _ => sessionOpen w s
  | .closeSession s => ∃ ss, w.sessions[s]? = some ss ∧ ss.closed = false
  | .closeFactory f => ∃ fac, w.facs[f]? = some fac ∧ fac.closed = false
  | _ => True

/-- every operation of the history is legitimate in the world in which it runs. -/
def validFrom (w : World) : List Op → Prop
  | [] => True
  | op :: rest => opOk w op ∧ validFrom (applyOp w op).2 rest

def CapsPos (ops : List Op) : Prop := ∀ op, op ∈ ops → CapsPosOp op

theorem applyOp_snd_eq (w : World) (op : Op) : (applyOp w op).2 = match op with
    | .newFactory p a b c d => (newFactory p a b c d w).2
    | .getSession f part c d => (getSession f part c d w).2
    | .encrypt s pay fl => (encrypt s pay fl true w).2
    | .decrypt s d fl => (decrypt s d fl true w).2
    | .closeSession s => ((do beginOp []; closeSession s : M Unit) w).2
    | .closeFactory f => ((do beginOp []; closeFactory f : M Unit) w).2
    | .advance d => (advance d w).2
    | .revoke m => (revoke m w).2
    | .corruptRow m dp => (corruptRow m dp w).2 := by
  have wrap : ∀ {α : Type} (f : α → Out) (r : Except Err α × World),
      (match r with | (.ok a, w') => (f a, w') | (.error e, w') => (Out.error e, w')).2 = r.2 := by
    intro α f r; obtain ⟨r, w'⟩ := r; cases r <;> rfl
  cases op <;> first | exact wrap _ _ | rfl

theorem QInv.applyOp {w : World} (h : QInv w) (op : Op) (hok : opOk w op) (hnb : CapsPosOp op) :
    QInv (applyOp w op).2 := by
  rw [applyOp_snd_eq]
  cases op with
  | newFactory p a b c d => exact h.newFactory p a b c d hnb
  | getSession f part c d => obtain ⟨fac, hf⟩ := hok; exact h.getSession f part c d fac hf
  | encrypt s pay fl => exact h.encrypt s pay fl hok
  | decrypt s d fl => exact h.decrypt s d fl hok
  | closeSession s => obtain ⟨ss, h1, h2⟩ := hok; exact h.closeSession s ss h1 h2
  | closeFactory f => obtain ⟨fac, h1, h2⟩ := hok; exact h.closeFactory f fac h1 h2
  | advance d => exact h.of_same rfl rfl rfl rfl rfl
  | revoke m => exact h.of_same rfl rfl rfl rfl rfl
  | corruptRow m dp => exact h.of_same rfl rfl rfl rfl rfl

theorem QInv.init (t : Int) : QInv (World.init t) := by
  refine ⟨⟨?_, ?_, ?_, ?_, ?_⟩, ?_⟩
  · intro f fac h; simp [World.init] at h
  · intro f f' fac fac' c h; simp [World.init] at h
  · intro s ss h; simp [World.init] at h
  · intro s s' ss ss' h; simp [World.init] at h
  · intro c h; simp [World.init] at h
  · refine ⟨rfl, fun s m h => (by cases h), fun o h => (by cases h), ?_, ?_, ?_, ?_, ?_, ?_, ?_, rfl⟩
    · intro o k h; simp [World.init] at h
    · intro o k sx h; simp [World.init] at h
    · intro i s h; simp [World.init] at h
    · intro o k h; simp [World.init] at h
    · intro o h; simp [hcount] at h
    · intro c kc h; simp [World.init] at h
    · intro c; rfl

theorem QInv.runOps {w : World} (h : QInv w) (ops : List Op) (hv : validFrom w ops) (hnb : CapsPos ops) :
    QInv (runOps w ops).2 := by
  induction ops generalizing w with
  | nil => exact h
  | cons op rest ih =>
    rw [runOps_snd_cons]
    exact ih (h.applyOp op hv.1 (hnb op List.mem_cons_self)) hv.2 (fun o ho => hnb o (List.mem_cons_of_mem _ ho))

end AsherahVerif.Env.Res

/-! the vocabulary of well-formed histories is part of the public statement of C09 (and of the
composition theorems): visible under `open AsherahVerif.Env`. -/
namespace AsherahVerif.Env
export Res (kindOk CapsPosOp opOk validFrom CapsPos)
end AsherahVerif.Env
