import AsherahVerif.Model.Server
/-
Helper lemmas of C19 about `AsherahVerif.Server.step` / `run` (Model/Server.lean).
The property theorems are in Props/C19.lean.
-/
namespace AsherahVerif.Server

variable {Id Sess Payload Record : Type}

abbrev Entry (Id Payload Record : Type) := Nat × Request Id Payload Record × Response Payload Record

/-- the handler exists (`s.handler != nil`) -/
def HState.hasHandler : HState Sess → Bool
  | .uninit => false
  | _ => true

def HState.isReady : HState Sess → Bool
  | .ready _ => true
  | _ => false

def Request.isGetSession : Request Id Payload Record → Bool
  | .getSession _ => true
  | _ => false

/-- an encrypt or a decrypt request -/
def Request.isCrypt : Request Id Payload Record → Bool
  | .encrypt _ => true
  | .decrypt _ => true
  | _ => false

/-- the SDK never hands out a record `toProtobufDRR` would choke on -/
def WellFormed (sdk : Sdk Id Sess Payload Record) : Prop :=
  ∀ t s p r, sdk.encrypt t s p = some r → sdk.hasKeyMeta r = true

/-- what a ready handler answers: exactly what the SDK session answers -/
def readyAnswer (sdk : Sdk Id Sess Payload Record) (t : Nat) (s : Sess) :
    Request Id Payload Record → Response Payload Record
  | .encrypt p => match sdk.encrypt t s p with
    | some r => .enc r
    | none => .err .sdk
  | .decrypt r => match sdk.decrypt t s r with
    | some p => .dec p
    | none => .err .sdk
  | .getSession _ => .err .alreadyInitialized
  | .empty => .nilMsg

/-! ### one step -/

theorem step_ok {g : Guards} {sdk : Sdk Id Sess Payload Record} {t : Nat} {st st' : HState Sess}
    {req : Request Id Payload Record} (h : step g sdk t st req = .reply st' .ok) :
    st = .uninit ∧ ∃ id s, req = .getSession id ∧ sdk.getSession t id = some s ∧ st' = .ready s := by
  cases st <;> cases req <;> grind [step, HState.session?, liftH, hEncrypt, hDecrypt]

theorem step_keeps_handler {g : Guards} {sdk : Sdk Id Sess Payload Record} {t : Nat}
    {st st' : HState Sess} {req : Request Id Payload Record} {a : Response Payload Record}
    (h : step g sdk t st req = .reply st' a) (hh : st.hasHandler = true) : st' = st := by
  cases st <;> cases req <;> grind [step, HState.session?, liftH, hEncrypt, hDecrypt, HState.hasHandler]

theorem step_getSession_sets_handler {g : Guards} {sdk : Sdk Id Sess Payload Record} {t : Nat}
    {st st' : HState Sess} {id : Id} {a : Response Payload Record}
    (h : step g sdk t st (.getSession id) = .reply st' a) : st'.hasHandler = true := by
  cases st <;> grind [step, HState.session?, HState.hasHandler]

theorem step_second_getSession (g : Guards) (sdk : Sdk Id Sess Payload Record) (t : Nat)
    {st : HState Sess} (id : Id) (hh : st.hasHandler = true) :
    step g sdk t st (.getSession id) = .reply st (.err .alreadyInitialized) := by
  cases st <;> grind [step, HState.session?, HState.hasHandler]

/-- a state without a session only gets one through a get-session answered `ok` -/
theorem step_not_ready_stays {g : Guards} {sdk : Sdk Id Sess Payload Record} {t : Nat}
    {st st' : HState Sess} {req : Request Id Payload Record} {a : Response Payload Record}
    (h : step g sdk t st req = .reply st' a) (hn : st.isReady = false) (ha : a ≠ .ok) :
    st'.isReady = false := by
  cases st <;> cases req <;> grind [step, HState.session?, liftH, hEncrypt, hDecrypt, HState.isReady]

/-- without a session, encrypt and decrypt are refused — provided the handler methods test for the
nil session (`uninit` needs no guard: `handleRequest` tests `s.handler == nil` itself) -/
theorem step_crypt_without_session {g : Guards} (sdk : Sdk Id Sess Payload Record) (t : Nat)
    {st : HState Sess} {req : Request Id Payload Record}
    (hg : st = .uninit ∨ (g.enc = true ∧ g.dec = true)) (hn : st.isReady = false)
    (hc : req.isCrypt = true) :
    step g sdk t st req = .reply st (.err .uninitialized) := by
  cases st <;> cases req <;>
    grind [step, HState.session?, liftH, hEncrypt, hDecrypt, HState.isReady, Request.isCrypt]

theorem step_ready {g : Guards} {sdk : Sdk Id Sess Payload Record} (hw : WellFormed sdk) (t : Nat)
    (s : Sess) (req : Request Id Payload Record) :
    step g sdk t (.ready s) req = .reply (.ready s) (readyAnswer sdk t s req) := by
  cases req <;> grind [step, HState.session?, liftH, hEncrypt, hDecrypt, readyAnswer, WellFormed]

theorem step_ne_panic {g : Guards} {sdk : Sdk Id Sess Payload Record} (hg : g.all = true)
    (hw : WellFormed sdk) (t : Nat) (st : HState Sess) (req : Request Id Payload Record) :
    step g sdk t st req ≠ .panic := by
  have ⟨he, hd⟩ : g.enc = true ∧ g.dec = true := by
    cases g; simp [Guards.all] at hg ⊢; exact ⟨hg.1.1, hg.1.2⟩
  cases st <;> cases req <;> grind [step, HState.session?, liftH, hEncrypt, hDecrypt, WellFormed]

/-- a step that does not start from a failed initialisation and meets no malformed record does not
panic, whatever the guards -/
theorem step_ne_panic_of_not_failed {g : Guards} {sdk : Sdk Id Sess Payload Record}
    (hw : WellFormed sdk) (t : Nat) {st : HState Sess} (req : Request Id Payload Record)
    (hf : st ≠ .failedInit) : step g sdk t st req ≠ .panic := by
  cases st <;> cases req <;> grind [step, HState.session?, liftH, hEncrypt, hDecrypt, WellFormed]

/-! ### the stream loop -/

@[simp] theorem finish_log (g : Guards) (st : HState Sess) (ret : Ret) :
    (finish g st ret : Result Id Sess Payload Record).log = [] := by
  unfold finish; split <;> rfl

theorem finish_ret (g : Guards) (st : HState Sess) (ret : Ret)
    (h : (finish g st ret : Result Id Sess Payload Record).ret ≠ .panic) :
    (finish g st ret : Result Id Sess Payload Record).ret = ret := by
  unfold finish at h ⊢; split <;> simp_all

theorem finish_ret_of_close (g : Guards) (st : HState Sess) (ret : Ret)
    (h : closeHandler g st ≠ .panic) :
    (finish g st ret : Result Id Sess Payload Record).ret = ret := by
  unfold finish; split <;> simp_all

theorem finish_panic (g : Guards) (st : HState Sess) :
    (finish g st .panic : Result Id Sess Payload Record).ret = .panic := by
  unfold finish; split <;> rfl

theorem run_msg_panic {g : Guards} {sdk : Sdk Id Sess Payload Record} {t : Nat} {st : HState Sess}
    {req : Request Id Payload Record} (ok : Bool) (rest : List (Item Id Payload Record))
    (h : step g sdk t st req = .panic) :
    run g sdk t st (.msg req ok :: rest) = finish g st .panic := by
  simp only [run, h]

theorem run_msg_reply {g : Guards} {sdk : Sdk Id Sess Payload Record} {t : Nat} {st st' : HState Sess}
    {req : Request Id Payload Record} {resp : Response Payload Record} (ok : Bool)
    (rest : List (Item Id Payload Record)) (h : step g sdk t st req = .reply st' resp) :
    run g sdk t st (.msg req ok :: rest) =
      { (if ok then run g sdk (t + 1) st' rest else finish g st' .err) with
        log := (t, req, resp) :: (if ok then run g sdk (t + 1) st' rest else finish g st' .err).log } := by
  simp only [run, h]

/-- **`stream_loop`**: `Stream` never sends more responses than requests it took from `Recv`, and —
unless it panics — exactly one per request, returning what the end of the stream calls for -/
theorem run_loop (g : Guards) (sdk : Sdk Id Sess Payload Record) (t : Nat) (st : HState Sess)
    (items : List (Item Id Payload Record)) :
    (run g sdk t st items).log.length ≤ processed items ∧
    ((run g sdk t st items).ret ≠ .panic →
      (run g sdk t st items).log.length = processed items ∧ (run g sdk t st items).ret = cleanRet items) := by
  induction items generalizing t st with
  | nil => simp only [run, processed, cleanRet, finish_log]; exact ⟨Nat.le_refl _, fun h => ⟨rfl, finish_ret _ _ _ h⟩⟩
  | cons it rest ih =>
    cases it with
    | recvErr => simp only [run, processed, cleanRet, finish_log]; exact ⟨Nat.le_refl _, fun h => ⟨rfl, finish_ret _ _ _ h⟩⟩
    | msg req ok =>
      cases hs : step g sdk t st req with
      | panic =>
        rw [run_msg_panic ok rest hs]
        simp only [finish_log, finish_panic]
        refine ⟨Nat.zero_le _, fun h => absurd rfl h⟩
      | reply st' resp =>
        rw [run_msg_reply ok rest hs]
        cases ok with
        | true =>
          have := ih (t + 1) st'
          simp only [if_true, List.length_cons, processed, cleanRet]
          exact ⟨Nat.succ_le_succ this.1, fun h => ⟨by rw [(this.2 h).1], (this.2 h).2⟩⟩
        | false =>
          simp only [Bool.false_eq_true, if_false, List.length_cons, processed, cleanRet, finish_log]
          exact ⟨Nat.le_refl _, fun h => ⟨rfl, finish_ret _ _ _ h⟩⟩

/-- being the log of some stream that starts at tick `t` in state `st` -/
def IsLog (g : Guards) (sdk : Sdk Id Sess Payload Record) (t : Nat) (st : HState Sess)
    (l : List (Entry Id Payload Record)) : Prop :=
  ∃ items, (run g sdk t st items).log = l

theorem isLog_run (g : Guards) (sdk : Sdk Id Sess Payload Record) (t : Nat) (st : HState Sess)
    (items : List (Item Id Payload Record)) : IsLog g sdk t st (run g sdk t st items).log := ⟨items, rfl⟩

/-- the first entry of a log is a step from the start state, the rest is a log from the next state -/
theorem isLog_cons {g : Guards} {sdk : Sdk Id Sess Payload Record} {t : Nat} {st : HState Sess}
    {e : Entry Id Payload Record} {l : List (Entry Id Payload Record)} (h : IsLog g sdk t st (e :: l)) :
    ∃ st', step g sdk t st e.2.1 = .reply st' e.2.2 ∧ e.1 = t ∧ IsLog g sdk (t + 1) st' l := by
  obtain ⟨items, hi⟩ := h
  cases items with
  | nil => simp [run] at hi
  | cons it rest =>
    cases it with
    | recvErr => simp [run] at hi
    | msg req ok =>
      cases hs : step g sdk t st req with
      | panic => rw [run_msg_panic ok rest hs] at hi; simp at hi
      | reply st' resp =>
        rw [run_msg_reply ok rest hs] at hi
        simp only [List.cons.injEq] at hi
        obtain ⟨he, hl⟩ := hi
        refine ⟨st', ?_, ?_, ?_⟩
        · rw [← he]; exact hs
        · rw [← he]
        · cases ok with
          | true => exact ⟨rest, by simpa using hl⟩
          | false => exact ⟨[], by simpa [run] using hl⟩

/-- in a stream whose handler already exists the state never changes -/
theorem isLog_handler_entries {g : Guards} {sdk : Sdk Id Sess Payload Record}
    (l : List (Entry Id Payload Record)) :
    ∀ {t : Nat} {st : HState Sess}, IsLog g sdk t st l → st.hasHandler = true →
      ∀ e ∈ l, step g sdk e.1 st e.2.1 = .reply st e.2.2 := by
  induction l with
  | nil => intro _ _ _ _ e he; cases he
  | cons x l ih =>
    intro t st h hh e he
    obtain ⟨st', hs, ht, hl⟩ := isLog_cons h
    have hst : st' = st := step_keeps_handler hs hh
    rw [hst] at hs hl
    cases he with
    | head => rw [ht]; exact hs
    | tail _ hm => exact ih hl hh e hm

end AsherahVerif.Server
