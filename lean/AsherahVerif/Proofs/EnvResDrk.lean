import AsherahVerif.Proofs.EnvResObs
import AsherahVerif.Proofs.EnvResNames
/-
C09 — the data row key: `EncryptPayload` = obtain the intermediate key, then `drkPart`; whatever
`drkPart` allocates is closed when it returns. `decryptRow` allocates nothing.
-/
set_option linter.unusedVariables false
namespace AsherahVerif.Env.Res

/-- the part of `EncryptPayload` that runs once the intermediate key `ik` is at hand: generate the
data row key, encrypt payload and key, close the data row key. -/
def drkPart (x : Ctx) (payload ik : Nat) : M Drr := do
  let w ← get
  let (s, m) ← secretRandom
  let drk ← newKeyObj (w.now / nsPerSec) false m s
  finallyDo (do
    let encData ← withKey drk fun dm => aeadEncrypt (.payload payload) dm
    let encKey ← withKey ik fun im => withKey drk fun dm => aeadEncrypt (.key dm) im
    let io ← keyObj ik
    let dko ← keyObj drk
    pure { key := some { created := dko.created, enc := encKey, parent := some ⟨x.ikId, io.created⟩ },
           data := encData }) (keyCloseRaw drk)

theorem encryptPayload_eq (x : Ctx) (payload : Nat) (b : Bool) :
    encryptPayload x payload b =
      (getOrLoadLatest x.ikCache x.ikId x.pol.revokeInterval x.pol.expireAfter
          (fun _ => loadLatestOrCreateIntermediateKey x b) >>= fun ik =>
        finallyDo (drkPart x payload ik) (keyRelease ik)) := rfl

theorem drkPart_spec (T : CTab) (H : List Nat) (x : Ctx) (p ik : Nat) (hik : ik ∈ H) :
    Spec (RI T .none H) (drkPart x p ik) (fun _ => RI T .none H) (RI T .none H) := by
  unfold drkPart
  refine Spec.bind (Preserves.get).toSpec (fun _ h => h) fun w0 => ?_
  refine Spec.bind (secretRandom_ri T H) (fun _ h => h) ?_
  rintro ⟨s, m⟩
  refine Spec.bind (newKeyObj_ri T H _ _ _ _) (fun _ h => h) fun drk => ?_
  refine Spec.finallyDo (R := fun _ => RI T (.obj drk) H) (E₁ := RI T (.obj drk) H) ?_
    (fun a => keyCloseRaw_ri T H drk) (keyCloseRaw_ri T H drk)
  spec_auto [withKey_raw, withKey_ri _ _ (Or.inl hik), aeadEncrypt_ril]

/-- a function that never writes a cache. -/
def CachesSame {α : Type} (x : M α) : Prop := ∀ w, (x w).2.caches = w.caches

theorem drkPart_caches (x : Ctx) (p ik : Nat) (cs : List KeyCache) :
    Preserves (fun w => w.caches = cs) (drkPart x p ik) := by
  have hw : ∀ {α : Type} (o : Nat) (f : Nat → M α), (∀ m, Preserves (fun w => w.caches = cs) (f m)) →
      Preserves (fun w => w.caches = cs) (withKey o f) := by
    intro α o f hf; unfold withKey; pres_auto [hf]
  have ha : ∀ pt k, Preserves (fun w => w.caches = cs) (aeadEncrypt pt k) := by
    intro pt k; unfold aeadEncrypt logCall; pres_auto
  unfold drkPart secretRandom newKeyObj keyCloseRaw secretClose logCall
  pres_auto_deep [hw, ha]

/-- **the data row key is released**: whatever `drkPart` returns and whatever the faults, every
secret it allocated (index ≥ the ledger length before) has been closed exactly once and was never
touched afterwards; and the data row key never enters a key cache. -/
theorem drkPart_released (T : CTab) (H : List Nat) (x : Ctx) (p ik : Nat) (hik : ik ∈ H) (w : World)
    (hi : RI T .none H w) :
    (∀ i s, (drkPart x p ik w).2.secrets[i]? = some s → w.secrets.length ≤ i → s.closes = 1 ∧ s.aac = 0) ∧
    (drkPart x p ik w).2.caches = w.caches := by
  have h' : RI T .none H (drkPart x p ik w).2 := (drkPart_spec T H x p ik hik).toPreserves w hi
  have hc : (drkPart x p ik w).2.caches = w.caches := drkPart_caches x p ik w.caches w rfl
  refine ⟨?_, hc⟩
  intro i s hs hge
  have hlen : w.secrets.length = w.keys.length := by simpa [Raw.extra] using hi.len
  have hlen' : (drkPart x p ik w).2.secrets.length = (drkPart x p ik w).2.keys.length := by simpa [Raw.extra] using h'.len
  have hl := h'.led i s hs
  have hlt : i < (drkPart x p ik w).2.keys.length := by have := getElem?_lt hs; omega
  have hk := List.getElem?_eq_getElem hlt
  rw [hk] at hl
  have hacc := (h'.acc i _ hk).2 (by intro e; cases e)
  have hcnt : cntOf T (hcount H) (drkPart x p ik w).2 i = 0 := by
    unfold cntOf
    rw [hc, hi.entCount_zero_of_ge (by omega)]
    have : hcount H i = 0 := by
      apply Classical.byContradiction; intro hne
      have := hi.hval i hne; omega
    simp [this]
  have hcl := hacc.2.2 hcnt
  simp only [hcl, if_true] at hl
  exact ⟨hl.2, hl.1⟩

/-- `decryptRow` allocates no secret: the decrypted data row key only ever lives in a heap slice
(which C10 shows wiped). -/
theorem decryptRow_no_secret (ik : Nat) (dk : DrrKey) (data : Ct) (w : World) :
    (decryptRow ik dk data w).2.secrets.length = w.secrets.length := by
  have : Preserves (fun w' => w'.secrets.length = w.secrets.length) (decryptRow ik dk data) := by
    have hw : ∀ {α : Type} (o : Nat) (f : Nat → M α), (∀ m, Preserves (fun w' => w'.secrets.length = w.secrets.length) (f m)) →
        Preserves (fun w' => w'.secrets.length = w.secrets.length) (withKey o f) := by
      intro α o f hf w' h
      rw [withKey_run]
      split
      · show (setAt _ _ _).length = _; rw [setAt_length]; exact h
      · exact hf _ w' h
    have ha : ∀ c k, Preserves (fun w' => w'.secrets.length = w.secrets.length) (aeadDecrypt c k) := by
      intro c k; unfold aeadDecrypt logCall; pres_auto
    unfold decryptRow newBuf wipeBuf
    pres_auto_deep [hw, ha]
  exact this w rfl
end AsherahVerif.Env.Res
