import AsherahVerif.Model.SessCache
/-
C16 helper lemmas: life-cycle and usage-count invariant of the session cache protocol.
-/
namespace AsherahVerif.SessCache

/-- the session at an index (default for out-of-range indices); kept opaque to `simp`. -/
def at' (l : List Sess) (i : Nat) : Sess := l.getD i default

theorem default_sess : (default : Sess) = { part := 0, users := 0, closes := 0, removers := 0 } := rfl

theorem upd_length (l : List Sess) (i : Nat) (f : Sess → Sess) : (upd l i f).length = l.length := by
  simp [upd]

theorem at_upd (l : List Sess) (i j : Nat) (f : Sess → Sess) :
    at' (upd l i f) j = if j = i ∧ j < l.length then f (at' l j) else at' l j := by
  unfold upd at'
  simp only [List.getD_eq_getElem?_getD, List.getElem?_mapIdx]
  by_cases hj : j < l.length
  · have : l[j]? = some l[j] := List.getElem?_eq_getElem hj
    by_cases hji : j = i
    · subst hji; simp [this, hj]
    · simp [this, hji]
  · have : l[j]? = none := List.getElem?_eq_none (by omega)
    simp [this, hj]

theorem at_append_lt (l : List Sess) (x : Sess) (i : Nat) (h : i < l.length) : at' (l ++ [x]) i = at' l i := by
  simp [at', List.getD_eq_getElem?_getD, List.getElem?_append_left h]
theorem at_append_eq (l : List Sess) (x : Sess) : at' (l ++ [x]) l.length = x := by
  simp [at', List.getD_eq_getElem?_getD]
theorem at_ge (l : List Sess) (i : Nat) (h : l.length ≤ i) : at' l i = default := by
  simp [at', List.getD_eq_getElem?_getD, List.getElem?_eq_none h]

def inCache (c : List (Nat × Nat)) (s : Nat) : Nat := (c.map (·.2)).count s

theorem inCache_erase_le (c : List (Nat × Nat)) (k s : Nat) : inCache (erase c k) s ≤ inCache c s := by
  unfold inCache erase
  induction c with
  | nil => simp
  | cons a t ih =>
    simp only [List.filter_cons]
    split
    · simp only [List.map_cons, List.count_cons]; omega
    · simp only [List.map_cons, List.count_cons]; omega

theorem inCache_erase_found {c : List (Nat × Nat)} {k s : Nat} (h : lookup c k = some s) :
    inCache (erase c k) s + 1 ≤ inCache c s := by
  unfold inCache erase lookup at *
  induction c with
  | nil => simp at h
  | cons a t ih =>
    simp only [List.find?_cons] at h
    by_cases hak : a.1 = k
    · have hb : (a.1 == k) = true := by simpa using hak
      simp only [hb, Option.map_some] at h
      injection h with h
      have hne : (a.1 != k) = false := by simp [hak]
      simp only [List.filter_cons, hne, Bool.false_eq_true, if_false, List.map_cons, List.count_cons, h, beq_self_eq_true, if_true]
      have := inCache_erase_le t k s
      unfold inCache erase at this
      omega
    · have hb : (a.1 == k) = false := by simpa using hak
      simp only [hb] at h
      have hne : (a.1 != k) = true := by simp [hak]
      simp only [List.filter_cons, hne, if_true, List.map_cons, List.count_cons]
      have := ih h
      omega

theorem lookup_inCache_pos {c : List (Nat × Nat)} {k s : Nat} (h : lookup c k = some s) : 1 ≤ inCache c s := by
  have := inCache_erase_found h; omega

theorem inCache_append (c : List (Nat × Nat)) (k s x : Nat) :
    inCache (c ++ [(k, s)]) x = inCache c x + (if s = x then 1 else 0) := by
  unfold inCache
  simp only [List.map_append, List.map_cons, List.map_nil, List.count_append, List.count_cons, List.count_nil]
  by_cases h : s = x <;> simp [h]

/-- life cycle of a session: cached → being removed → closed, exactly one of them at a time. -/
structure Inv (st : St) : Prop where
  pend : st.pendingIncr = []
  users : ∀ s, (st.holders.count s : Int) ≤ (at' st.sess s).users
  life : ∀ s, inCache st.cache s + (at' st.sess s).removers + (at' st.sess s).closes ≤ 1
  closed : ∀ s, 0 < (at' st.sess s).closes → (at' st.sess s).users ≤ 0
  range : ∀ s, 0 < inCache st.cache s + st.holders.count s → s < st.sess.length
  ok : st.failed = false

theorem inv_init : Inv init := by
  refine ⟨rfl, ?_, ?_, ?_, ?_, rfl⟩
  · intro s; simp [init, at', default_sess]
  · intro s; simp [init, at', inCache, default_sess]
  · intro s h; simp [init, at', default_sess] at h
  · intro s h; simp [init, inCache] at h

/-- spawning a remover for a session that has just left the cache keeps the life-cycle sum. -/
theorem at_spawn (l : List Sess) (s x : Nat) :
    (at' (spawnRemover Facts.good l s) x).users = (at' l x).users ∧
    (at' (spawnRemover Facts.good l s) x).closes = (at' l x).closes ∧
    (at' (spawnRemover Facts.good l s) x).removers = (at' l x).removers + (if x = s ∧ x < l.length then 1 else 0) := by
  unfold spawnRemover
  simp only [Facts.good, if_true]
  rw [at_upd]
  by_cases h : x = s ∧ x < l.length
  · rw [if_pos h, if_pos h]; exact ⟨rfl, rfl, rfl⟩
  · rw [if_neg h, if_neg h]; exact ⟨rfl, rfl, rfl⟩

theorem spawn_length (l : List Sess) (s : Nat) : (spawnRemover Facts.good l s).length = l.length := by
  unfold spawnRemover; simp only [Facts.good, if_true]; exact upd_length _ _ _

theorem at_upd_users (l : List Sess) (i x : Nat) (d : Int) (hi : i < l.length) :
    (at' (upd l i fun y => { y with users := y.users + d }) x).users = (at' l x).users + (if x = i then d else 0) ∧
    (at' (upd l i fun y => { y with users := y.users + d }) x).closes = (at' l x).closes ∧
    (at' (upd l i fun y => { y with users := y.users + d }) x).removers = (at' l x).removers := by
  rw [at_upd]
  by_cases h : x = i
  · subst h
    have hc : x = x ∧ x < l.length := ⟨rfl, hi⟩
    rw [if_pos hc]; simp
  · have hc : ¬ (x = i ∧ x < l.length) := fun e => h e.1
    rw [if_neg hc]; simp [h]

/-- an entry (found under key `k`) leaves the cache and a remover is started for its session. -/
theorem inv_leave (st : St) (k s : Nat) (h : Inv st) (hk : lookup st.cache k = some s) :
    Inv { st with cache := erase st.cache k, sess := spawnRemover Facts.good st.sess s } := by
  have hpos := lookup_inCache_pos hk
  have hr := h.range s (by omega)
  have hf := inCache_erase_found hk
  refine ⟨h.pend, ?_, ?_, ?_, ?_, h.ok⟩
  · intro x
    have ⟨hu, _, _⟩ := at_spawn st.sess s x
    dsimp only
    rw [hu]; exact h.users x
  · intro x
    have ⟨_, hc, hrm⟩ := at_spawn st.sess s x
    have hl := h.life x
    have hle := inCache_erase_le st.cache k x
    dsimp only
    rw [hc, hrm]
    by_cases hx : x = s
    · subst hx
      have : (x = x ∧ x < st.sess.length) := ⟨rfl, hr⟩
      rw [if_pos this]; omega
    · have : ¬ (x = s ∧ x < st.sess.length) := fun e => hx e.1
      rw [if_neg this]; omega
  · intro x hx
    have ⟨hu, hc, _⟩ := at_spawn st.sess s x
    dsimp only at hx ⊢
    rw [hc] at hx; rw [hu]; exact h.closed x hx
  · intro x hx
    dsimp only at hx ⊢
    rw [spawn_length]
    apply h.range
    have hle := inCache_erase_le st.cache k x
    omega

/-- a freshly loaded session enters the cache and is handed to the caller with usage 1. -/
theorem inv_new (st : St) (p : Nat) (h : Inv st) :
    Inv { st with cache := st.cache ++ [(p, st.sess.length)],
                  sess := st.sess ++ [{ part := p, users := 1, closes := 0, removers := 0 }],
                  holders := st.sess.length :: st.holders } := by
  have hz : inCache st.cache st.sess.length + st.holders.count st.sess.length = 0 := by
    apply Classical.byContradiction; intro hne
    have := h.range st.sess.length (by omega); omega
  refine ⟨h.pend, ?_, ?_, ?_, ?_, h.ok⟩
  · intro x
    dsimp only
    simp only [List.count_cons]
    by_cases hx : x = st.sess.length
    · rw [hx, at_append_eq]; simp; omega
    · have hne : (st.sess.length == x) = false := by simpa using fun e => hx e.symm
      simp only [hne, Bool.false_eq_true, if_false]
      by_cases hlt : x < st.sess.length
      · rw [at_append_lt _ _ _ hlt]; have := h.users x; omega
      · have h0 : st.holders.count x = 0 := by
          apply Classical.byContradiction; intro hc
          have := h.range x (by omega); omega
        rw [at_ge _ _ (by simp; omega), default_sess]; simp [h0]
  · intro x
    dsimp only
    simp only [inCache_append]
    by_cases hx : x = st.sess.length
    · rw [hx, at_append_eq]; simp; omega
    · have hne : ¬ (st.sess.length = x) := fun e => hx e.symm
      rw [if_neg hne]
      by_cases hlt : x < st.sess.length
      · rw [at_append_lt _ _ _ hlt]; exact h.life x
      · have h0 : inCache st.cache x = 0 := by
          apply Classical.byContradiction; intro hc
          have := h.range x (by omega); omega
        rw [at_ge _ _ (by simp; omega), default_sess]; simp [h0]
  · intro x hx
    dsimp only at hx ⊢
    by_cases hlt : x < st.sess.length
    · rw [at_append_lt _ _ _ hlt] at hx ⊢; exact h.closed x hx
    · by_cases hx2 : x = st.sess.length
      · rw [hx2, at_append_eq] at hx; simp at hx
      · rw [at_ge _ _ (by simp; omega), default_sess] at hx; simp at hx
  · intro x hx
    dsimp only at hx ⊢
    simp only [List.length_append, List.length_cons, List.length_nil]
    by_cases hx2 : x = st.sess.length
    · omega
    · have hne : ¬ (st.sess.length = x) := fun e => hx2 e.symm
      have hne' : (st.sess.length == x) = false := by simpa using hne
      simp only [inCache_append, List.count_cons, hne, hne', if_false, Bool.false_eq_true] at hx
      have := h.range x (by omega); omega

/-- `factoryClose`: every cached session gets a remover. -/
theorem at_spawnAll (c : List (Nat × Nat)) (l : List Sess) (x : Nat) :
    let l' := c.foldl (fun l e => spawnRemover Facts.good l e.2) l
    l'.length = l.length ∧ (at' l' x).users = (at' l x).users ∧ (at' l' x).closes = (at' l x).closes ∧
    (at' l' x).removers = (at' l x).removers + (if x < l.length then inCache c x else 0) := by
  induction c generalizing l with
  | nil => simp [inCache]
  | cons e t ih =>
    simp only [List.foldl_cons]
    have ⟨h1, h2, h3, h4⟩ := ih (spawnRemover Facts.good l e.2)
    have ⟨g1, g2, g3⟩ := at_spawn l e.2 x
    rw [spawn_length] at h1 h4
    refine ⟨h1, h2.trans g1, h3.trans g2, ?_⟩
    rw [h4, g3]
    have hcons : inCache (e :: t) x = inCache t x + (if e.2 = x then 1 else 0) := by
      simp only [inCache, List.map_cons, List.count_cons]
      by_cases hx : e.2 = x <;> simp [hx]
    rw [hcons]
    by_cases hlt : x < l.length
    · rw [if_pos hlt, if_pos hlt]
      by_cases hx : x = e.2
      · have h1 : (x = e.2 ∧ x < l.length) := ⟨hx, hlt⟩
        rw [if_pos h1, if_pos hx.symm]; omega
      · have h1 : ¬ (x = e.2 ∧ x < l.length) := fun c => hx c.1
        have h2 : ¬ (e.2 = x) := fun c => hx c.symm
        rw [if_neg h1, if_neg h2]; omega
    · have h1 : ¬ (x = e.2 ∧ x < l.length) := fun c => hlt c.2
      rw [if_neg hlt, if_neg hlt, if_neg h1]

/-- the two evictions that may precede an insert in `Get` (expired entry of the same partition,
policy victim). -/
theorem inv_leave_opt (st : St) (c : List (Nat × Nat)) (l : List Sess) (h : Inv st)
    (r : Option (List (Nat × Nat) × List Sess))
    (hr : r = some (c, l))
    (k : Nat) (s : Nat) (hk : lookup st.cache k = some s)
    (hdef : r = some (erase st.cache k, spawnRemover Facts.good st.sess s)) :
    Inv { st with cache := c, sess := l } := by
  rw [hdef] at hr
  injection hr with hr; injection hr with h1 h2
  subst h1; subst h2
  exact inv_leave st k s h hk

theorem step_inv (st : St) (x : Step) (st' : St) (h : Inv st) (hs : step Facts.good st x = some st') : Inv st' := by
  cases x with
  | getHit p =>
    simp only [step] at hs
    by_cases hcf : st.closedFactory = true
    · simp [hcf] at hs
    · simp only [hcf, Bool.false_eq_true, if_false] at hs
      cases hk : lookup st.cache p with
      | none => simp [hk] at hs
      | some s =>
        simp only [hk, Facts.good, if_true] at hs
        injection hs with hs; subst hs
        have hpos := lookup_inCache_pos hk
        have hr := h.range s (by omega)
        refine ⟨h.pend, ?_, ?_, ?_, ?_, h.ok⟩
        · intro y
          dsimp only
          have ⟨hu, _, _⟩ := at_upd_users st.sess s y 1 hr
          rw [hu]
          have := h.users y
          simp only [List.count_cons]
          by_cases hy : y = s
          · subst hy; simp; omega
          · have : (s == y) = false := by simpa using fun e => hy e.symm
            simp [hy, this]; omega
        · intro y
          dsimp only
          have ⟨_, hc, hrm⟩ := at_upd_users st.sess s y 1 hr
          rw [hc, hrm]; exact h.life y
        · intro y hy
          dsimp only at hy ⊢
          have ⟨hu, hc, _⟩ := at_upd_users st.sess s y 1 hr
          rw [hc] at hy; rw [hu]
          by_cases hys : y = s
          · subst hys
            have := h.life y; omega
          · simp [hys]; exact h.closed y hy
        · intro y hy
          dsimp only at hy ⊢
          rw [upd_length]
          by_cases hys : y = s
          · subst hys; exact hr
          · apply h.range
            have : (s == y) = false := by simpa using fun e => hys e.symm
            simp only [List.count_cons, this, Bool.false_eq_true, if_false] at hy
            omega
  | getLoad p victim expired =>
    simp only [step] at hs
    by_cases hcf : st.closedFactory = true
    · simp [hcf] at hs
    · simp only [hcf, Bool.false_eq_true, if_false] at hs
      -- phase 1: an expired entry of this partition leaves
      have ph1 : ∀ c1 l1,
          (match lookup st.cache p with
            | some old => if expired = true then some (erase st.cache p, spawnRemover Facts.good st.sess old) else none
            | none => if expired = true then none else some (st.cache, st.sess)) = some (c1, l1) →
          Inv { st with cache := c1, sess := l1 } := by
        intro c1 l1 he
        cases hl : lookup st.cache p with
        | none =>
          simp only [hl] at he
          by_cases hx : expired = true
          · simp [hx] at he
          · simp only [hx, Bool.false_eq_true, if_false] at he
            injection he with he; injection he with e1 e2; subst e1; subst e2; exact h
        | some old =>
          simp only [hl] at he
          by_cases hx : expired = true
          · simp only [hx, if_true] at he
            injection he with he; injection he with e1 e2; subst e1; subst e2
            exact inv_leave st p old h hl
          · simp [hx] at he
      split at hs
      · simp at hs
      · next c1 l1 heq =>
        have h1 := ph1 c1 l1 heq
        -- phase 2: the policy's victim leaves
        have ph2 : ∀ c2 l2,
            (match victim with
              | none => some (c1, l1)
              | some vp =>
                match lookup c1 vp with
                | some vs => if vp = p then none else some (erase c1 vp, spawnRemover Facts.good l1 vs)
                | none => none) = some (c2, l2) →
            Inv { st with cache := c2, sess := l2 } := by
          intro c2 l2 he
          cases victim with
          | none => simp at he; obtain ⟨rfl, rfl⟩ := he; exact h1
          | some vp =>
            simp only at he
            cases hl : lookup c1 vp with
            | none => simp [hl] at he
            | some vs =>
              simp only [hl] at he
              by_cases hvp : vp = p
              · simp [hvp] at he
              · simp only [hvp, if_false] at he
                injection he with he; injection he with e1 e2; subst e1; subst e2
                exact inv_leave { st with cache := c1, sess := l1 } vp vs h1 hl
        split at hs
        · simp at hs
        · next c2 l2 heq2 =>
          have h2 := ph2 c2 l2 heq2
          simp only [Facts.good, if_true] at hs
          injection hs with hs; subst hs
          have e : st.closedFactory = false := by simpa using hcf
          have h3 := inv_new { st with cache := c2, sess := l2 } p h2
          dsimp only at h3
          rw [e] at h3
          exact h3
  | incr s =>
    simp only [step] at hs
    rw [h.pend] at hs; simp at hs
  | use s =>
    simp only [step] at hs
    by_cases hm : s ∈ st.holders
    · simp only [hm, if_true] at hs
      have hc := List.count_pos_iff.mpr hm
      have hu := h.users s
      by_cases hcl : (st.sess.getD s default).closes > 0
      · have := h.closed s (by simpa [at'] using hcl); omega
      · simp only [hcl, if_false] at hs
        injection hs with hs; subst hs; exact h
    · simp [hm] at hs
  | close s =>
    simp only [step] at hs
    by_cases hm : s ∈ st.holders
    · simp only [hm, if_true] at hs
      injection hs with hs; subst hs
      have hc := List.count_pos_iff.mpr hm
      have hr := h.range s (by omega)
      refine ⟨h.pend, ?_, ?_, ?_, ?_, h.ok⟩
      · intro y
        dsimp only
        have ⟨hu, _, _⟩ := at_upd_users st.sess s y (-1) hr
        have hu' : (at' (upd st.sess s fun x => { x with users := x.users - 1 }) y).users =
            (at' st.sess y).users + (if y = s then -1 else 0) := by
          have : (fun x : Sess => { x with users := x.users - 1 }) = (fun x : Sess => { x with users := x.users + -1 }) := by
            funext x; simp [Int.sub_eq_add_neg]
          rw [this]; exact hu
        rw [hu']
        have := h.users y
        by_cases hy : y = s
        · subst hy
          have := List.count_erase_self (a := y) (l := st.holders)
          simp; omega
        · have hne : List.count y (st.holders.erase s) = List.count y st.holders := List.count_erase_of_ne hy
          simp [hy, hne]; omega
      · intro y
        dsimp only
        rw [at_upd]
        by_cases hc' : y = s ∧ y < st.sess.length
        · rw [if_pos hc']; exact h.life y
        · rw [if_neg hc']; exact h.life y
      · intro y hy
        dsimp only at hy ⊢
        rw [at_upd] at hy ⊢
        by_cases hc' : y = s ∧ y < st.sess.length
        · rw [if_pos hc'] at hy ⊢
          have := h.closed y hy
          simp only; omega
        · rw [if_neg hc'] at hy ⊢; exact h.closed y hy
      · intro y hy
        dsimp only at hy ⊢
        rw [upd_length]
        apply h.range
        have : List.count y (st.holders.erase s) ≤ List.count y st.holders := (List.erase_sublist).count_le y
        omega
    · simp [hm] at hs
  | remove s =>
    simp only [step] at hs
    by_cases hg : (st.sess.getD s default).removers > 0 ∧ ((st.sess.getD s default).users ≤ 0 ∨ (!Facts.good.removeWaitsForZero) = true)
    · rw [if_pos hg] at hs
      injection hs with hs; subst hs
      have hrm : 0 < (at' st.sess s).removers := by simpa [at'] using hg.1
      have hus : (at' st.sess s).users ≤ 0 := by
        rcases hg.2 with h1 | h1
        · simpa [at'] using h1
        · simp [Facts.good] at h1
      have hr : s < st.sess.length := by
        apply Classical.byContradiction; intro hc
        rw [at_ge _ _ (by omega), default_sess] at hrm; simp at hrm
      refine ⟨h.pend, ?_, ?_, ?_, ?_, h.ok⟩
      · intro y
        dsimp only
        rw [at_upd]
        by_cases hc' : y = s ∧ y < st.sess.length
        · rw [if_pos hc']; exact h.users y
        · rw [if_neg hc']; exact h.users y
      · intro y
        dsimp only
        rw [at_upd]
        by_cases hc' : y = s ∧ y < st.sess.length
        · rw [if_pos hc']
          have := h.life y
          obtain ⟨e, _⟩ := hc'; subst e
          simp only; omega
        · rw [if_neg hc']; exact h.life y
      · intro y hy
        dsimp only at hy ⊢
        rw [at_upd] at hy ⊢
        by_cases hc' : y = s ∧ y < st.sess.length
        · rw [if_pos hc'] at hy ⊢
          obtain ⟨e, _⟩ := hc'; subst e
          exact hus
        · rw [if_neg hc'] at hy ⊢; exact h.closed y hy
      · intro y hy
        dsimp only at hy ⊢
        rw [upd_length]; exact h.range y hy
    · rw [if_neg hg] at hs; cases hs
  | factoryClose =>
    simp only [step] at hs
    by_cases hcf : st.closedFactory = true
    · simp [hcf] at hs
    · simp only [hcf, Bool.false_eq_true, if_false] at hs
      injection hs with hs; subst hs
      refine ⟨h.pend, ?_, ?_, ?_, ?_, h.ok⟩
      · intro y
        dsimp only
        have ⟨_, hu, _, _⟩ := at_spawnAll st.cache st.sess y
        rw [hu]; exact h.users y
      · intro y
        dsimp only
        have ⟨_, _, hc, hrm⟩ := at_spawnAll st.cache st.sess y
        rw [hc, hrm]
        have := h.life y
        have h0 : inCache [] y = 0 := by simp [inCache]
        rw [h0]
        by_cases hlt : y < st.sess.length
        · rw [if_pos hlt]; omega
        · rw [if_neg hlt]; omega
      · intro y hy
        dsimp only at hy ⊢
        have ⟨_, hu, hc, _⟩ := at_spawnAll st.cache st.sess y
        rw [hc] at hy; rw [hu]; exact h.closed y hy
      · intro y hy
        dsimp only at hy ⊢
        have ⟨hl, _, _, _⟩ := at_spawnAll st.cache st.sess y
        rw [hl]
        apply h.range
        have h0 : inCache [] y = 0 := by simp [inCache]
        rw [h0] at hy; omega

theorem run_inv (st : St) (h : Inv st) (sched : List Step) : Inv (run Facts.good st sched) := by
  induction sched generalizing st with
  | nil => exact h
  | cons x rest ih =>
    simp only [run]
    cases hs : step Facts.good st x with
    | none => exact ih st h
    | some st' => exact ih st' (step_inv st x st' h hs)

end AsherahVerif.SessCache
