import AsherahVerif.Proofs.EnvCohFresh
import AsherahVerif.Proofs.EnvCohOps
/-
C07 `decrypt_returns_original`: along ANY history (corrupted rows included) the data-row keys of the
returned records are pairwise distinct and never sealed in a stored row; hence a record assembled
from emitted ciphertext terms decrypts only if its data AND its encrypted key come from one and
the same earlier encrypt, whose payload is what comes out.
-/
set_option linter.unusedVariables false
namespace AsherahVerif.Env

/-- `d` is the record of the successful encrypt `op`, sealed under the data-row key `dm`. -/
def RecOf (op : Op) (d : Drr) (dm : Nat) : Prop :=
  ∃ (s pay : Nat) (fl : List Fault) (dk : DrrKey) (n ikm n' : Nat), op = .encrypt s pay fl ∧
    d.data = .enc dm n (.payload pay) ∧ d.key = some dk ∧ dk.enc = .enc ikm n' (.key dm)

structure GInv (w : World) (tr : List (Op × Out)) : Prop where
  rows : ∀ r, r ∈ w.store → (∀ m, KeyMatOf r.enc = some m → m < w.mats) ∧ ¬ PayloadShaped r.enc
  recs : ∀ op d, (op, Out.record d) ∈ tr →
    ∃ dm, RecOf op d dm ∧ dm < w.mats ∧ ∀ r, r ∈ w.store → KeyMatOf r.enc ≠ some dm
  sorted : tr.Pairwise fun a b => ∀ da db dma dmb, a.2 = .record da → b.2 = .record db →
    RecOf a.1 da dma → RecOf b.1 db dmb → dma < dmb

/-- the materials the history has used as data-row keys so far. -/
def UsedDrk (tr : List (Op × Out)) (m : Nat) : Prop := ∃ op d, (op, Out.record d) ∈ tr ∧ RecOf op d m

theorem RecOf.dm_unique {op : Op} {d : Drr} {a b : Nat} (ha : RecOf op d a) (hb : RecOf op d b) : a = b := by
  obtain ⟨_, _, _, _, _, _, _, _, h1, _⟩ := ha
  obtain ⟨_, _, _, _, _, _, _, _, h2, _⟩ := hb
  rw [h1] at h2; cases h2; rfl

theorem GInv.toJ {w : World} {tr : List (Op × Out)} (h : GInv w tr) : J (UsedDrk tr) w.mats w := by
  refine ⟨Nat.le_refl _, fun r hr => ⟨fun m hm => ⟨(h.rows r hr).1 m hm, ?_⟩, (h.rows r hr).2⟩⟩
  intro ⟨op, d, hmem, hrec⟩
  obtain ⟨dm, hrec', _, hno⟩ := h.recs op d hmem
  have := hrec.dm_unique hrec'
  subst this
  exact hno r hr hm

theorem GInv.usedBelow {w : World} {tr : List (Op × Out)} (h : GInv w tr) : ∀ m, UsedDrk tr m → m < w.mats := by
  intro m ⟨op, d, hmem, hrec⟩
  obtain ⟨dm, hrec', hlt, _⟩ := h.recs op d hmem
  rw [hrec.dm_unique hrec']; exact hlt

/-- back from `J` (with the used data-row keys as the forbidden set) after an operation that
returned no record. -/
theorem GInv.ofJ {w w' : World} {tr : List (Op × Out)} (h : GInv w tr) (hJ : J (UsedDrk tr) w.mats w')
    (op : Op) (o : Out) (hno : ∀ d, o ≠ .record d) : GInv w' (tr ++ [(op, o)]) := by
  refine ⟨fun r hr => ⟨fun m hm => ((hJ.rows r hr).1 m hm).1, (hJ.rows r hr).2⟩, ?_, ?_⟩
  · intro op' d hmem
    rcases List.mem_append.mp hmem with hmem | hmem
    · obtain ⟨dm, hrec, hlt, _⟩ := h.recs op' d hmem
      exact ⟨dm, hrec, Nat.lt_of_lt_of_le hlt hJ.le, fun r hr hk => ((hJ.rows r hr).1 dm hk).2 ⟨op', d, hmem, hrec⟩⟩
    · simp only [List.mem_singleton, Prod.mk.injEq] at hmem
      exact absurd hmem.2.symm (hno d)
  · rw [List.pairwise_append]
    refine ⟨h.sorted, List.pairwise_singleton _ _, ?_⟩
    intro a ha b' hb da db dma dmb _ hbr
    simp only [List.mem_singleton] at hb
    subst hb
    exact absurd hbr (hno db)

/-! ### every operation keeps `J` -/

theorem J.mapStore {Bad : Nat → Prop} {b : Nat} {w w' : World} {f : Row → Row} (h : J Bad b w)
    (hf : ∀ r, (f r).enc = r.enc ∨ (f r).enc = .junk 2) (hs : w'.store = w.store.map f) (hm : w'.mats = w.mats) :
    J Bad b w' := by
  refine ⟨hm ▸ h.le, fun r' hr' => ?_⟩
  rw [hs] at hr'
  obtain ⟨r, hr, rfl⟩ := List.mem_map.mp hr'
  rcases hf r with he | he
  · rw [he, hm]; exact h.rows r hr
  · rw [he]; exact ⟨fun m hk => (by cases hk), fun hp => hp⟩

theorem applyOp_J {Bad : Nat → Prop} {b : Nat} (hB : ∀ m, Bad m → m < b) {w : World} (h : J Bad b w) (op : Op) :
    J Bad b (applyOp w op).2 := by
  rw [applyOp_snd]
  cases op with
  | newFactory p a b' c d =>
    obtain ⟨cs, fac, hw, _⟩ := newFactory_world p a b' c d w
    dsimp only; rw [hw]; exact h.step rfl (Nat.le_refl _)
  | getSession f part c d =>
    obtain ⟨cs, ss, hw, _⟩ := getSession_world f part c d w
    dsimp only; rw [hw]; exact h.step rfl (Nat.le_refl _)
  | encrypt s pay fl =>
    dsimp only; rw [encrypt_run]
    exact (encryptPayload_keeps hB _ pay true).k _ (h.step rfl (Nat.le_refl _))
  | decrypt s d fl =>
    dsimp only; rw [decrypt_run]
    exact (decryptDataRowRecord_keeps _ d true).k _ (h.step rfl (Nat.le_refl _))
  | closeSession s =>
    have e : ((do beginOp []; closeSession s : M Unit) w) = closeSession s { w with log := [], faults := [] } := rfl
    dsimp only
    rw [e, closeSession_run]
    have h1 : J Bad b { ({ w with log := [], faults := [] } : World) with
        sessions := setAt w.sessions s fun x => { x with closed := true } } := h.step rfl (Nat.le_refl _)
    dsimp only
    split
    · exact h1
    · exact (cacheClose_keeps _).k _ h1
  | closeFactory f =>
    have e : ((do beginOp []; closeFactory f : M Unit) w) = closeFactory f { w with log := [], faults := [] } := rfl
    have hx : Keeps Bad b (do
        match (w.facs.getD f default).sharedIk with
        | some c => cacheClose c
        | none => pure ()
        cacheClose (w.facs.getD f default).skCache : M Unit) := by
      keeps_auto [cacheClose_keeps]
    dsimp only
    rw [e, closeFactory_run]
    exact hx.k _ (h.step rfl (Nat.le_refl _))
  | advance d => exact h.step rfl (Nat.le_refl _)
  | revoke m =>
    refine h.mapStore (f := fun r => if r.kid = m.kid ∧ r.created = m.created then { r with revoked := true } else r)
      (fun r => ?_) rfl rfl
    split <;> exact Or.inl rfl
  | corruptRow m dp =>
    refine h.mapStore (f := fun r => if r.kid = m.kid ∧ r.created = m.created then
        (if dp then { r with parent := none } else { r with enc := .junk 2 }) else r)
      (fun r => ?_) rfl rfl
    split
    · split
      · exact Or.inl rfl
      · exact Or.inr rfl
    · exact Or.inl rfl

/-! ### the trace invariant along operations and histories -/

theorem applyOp_record {w : World} {op : Op} {d : Drr} (h : (applyOp w op).1 = .record d) :
    ∃ s pay fl, op = .encrypt s pay fl := by
  have key : ∀ {α : Type} (f : α → Out) (hf : ∀ a, f a ≠ .record d) (r : Except Err α × World),
      (match r with
        | (.ok a, w') => (f a, w')
        | (.error e, w') => ((Out.error e : Out), w')).1 ≠ .record d := by
    intro α f hf r
    obtain ⟨r, w'⟩ := r
    cases r with
    | ok a => exact hf a
    | error e => intro hc; cases hc
  cases op with
  | encrypt s pay fl => exact ⟨s, pay, fl, rfl⟩
  | newFactory p a b c d' => exact absurd h (key Out.id (fun _ hc => by cases hc) _)
  | getSession f part c d' => exact absurd h (key Out.id (fun _ hc => by cases hc) _)
  | decrypt s d' fl => exact absurd h (key Out.payload (fun _ hc => by cases hc) _)
  | closeSession s => exact absurd h (key (fun _ => Out.unit) (fun _ hc => by cases hc) _)
  | closeFactory f => exact absurd h (key (fun _ => Out.unit) (fun _ hc => by cases hc) _)
  | advance d' => have e : (applyOp w (.advance d')).1 = .unit := rfl; rw [e] at h; cases h
  | revoke m => have e : (applyOp w (.revoke m)).1 = .unit := rfl; rw [e] at h; cases h
  | corruptRow m dp => have e : (applyOp w (.corruptRow m dp)).1 = .unit := rfl; rw [e] at h; cases h

theorem applyOp_ginv {w : World} {tr : List (Op × Out)} (h : GInv w tr) (op : Op) :
    GInv (applyOp w op).2 (tr ++ [(op, (applyOp w op).1)]) := by
  have hJ' := applyOp_J h.usedBelow h.toJ op
  by_cases hrec : ∃ d, (applyOp w op).1 = .record d
  · obtain ⟨d, hd⟩ := hrec
    obtain ⟨s, pay, fl, rfl⟩ := applyOp_record hd
    rw [hd]
    -- the new record
    have hok : (encrypt s pay fl true w).1 = .ok d := by
      rw [(applyOp_encrypt w s pay fl).1] at hd
      split at hd
      · rename_i d' hd'; cases hd; exact hd'
      · cases hd
    rw [encrypt_run] at hok
    have hJ0 : J (UsedDrk tr) w.mats ({ w with log := [], faults := fl } : World) := h.toJ.step rfl (Nat.le_refl _)
    obtain ⟨dk, dm, n, ikm, n', e1, e2, e3, hge, hlt, hrows⟩ :=
      encryptPayload_rec h.usedBelow (sessionCtx { w with log := [], faults := fl } s) pay true hJ0 hok
    have hw' : (applyOp w (.encrypt s pay fl)).2 =
        (encryptPayload (sessionCtx { w with log := [], faults := fl } s) pay true { w with log := [], faults := fl }).2 := by
      rw [(applyOp_encrypt w s pay fl).2, encrypt_run]
    rw [← hw'] at hlt hrows
    have hnew : RecOf (.encrypt s pay fl) d dm := ⟨s, pay, fl, dk, n, ikm, n', rfl, e1, e2, e3⟩
    refine ⟨fun r hr => ⟨fun m hm => ((hJ'.rows r hr).1 m hm).1, (hJ'.rows r hr).2⟩, ?_, ?_⟩
    · intro op' d' hmem
      rcases List.mem_append.mp hmem with hmem | hmem
      · obtain ⟨dm', hrec', hlt', _⟩ := h.recs op' d' hmem
        exact ⟨dm', hrec', Nat.lt_of_lt_of_le hlt' hJ'.le,
          fun r hr hk => ((hJ'.rows r hr).1 dm' hk).2 ⟨op', d', hmem, hrec'⟩⟩
      · simp only [List.mem_singleton, Prod.mk.injEq, Out.record.injEq] at hmem
        obtain ⟨rfl, rfl⟩ := hmem
        exact ⟨dm, hnew, hlt, hrows⟩
    · rw [List.pairwise_append]
      refine ⟨h.sorted, List.pairwise_singleton _ _, ?_⟩
      intro a ha b' hb da db dma dmb har hbr hra hrb
      simp only [List.mem_singleton] at hb
      subst hb
      simp only [Out.record.injEq] at hbr
      subst hbr
      have := hrb.dm_unique hnew
      subst this
      have hlt2 : dma < w.mats := h.usedBelow dma ⟨a.1, da, by rw [← har]; exact ha, hra⟩
      exact Nat.lt_of_lt_of_le hlt2 hge
  · exact h.ofJ hJ' op _ fun d hd => hrec ⟨d, hd⟩

theorem GInv.init (t : Int) : GInv (World.init t) [] :=
  ⟨fun r hr => (by cases hr), fun op d h => (by cases h), List.Pairwise.nil⟩

theorem runOps_ginv {w : World} {tr : List (Op × Out)} (h : GInv w tr) (ops : List Op) :
    GInv (runOps w ops).2 (tr ++ ops.zip (runOps w ops).1) := by
  induction ops generalizing w tr with
  | nil => simpa [runOps] using h
  | cons op rest ih =>
    have := ih (applyOp_ginv h op)
    rw [runOps_cons]
    simp only [List.zip_cons_cons]
    rw [List.append_assoc] at this
    exact this

/-! ### the final statement -/

/-- ciphertext terms the history has emitted: fields of returned records, stored rows. -/
def Emitted (tr : List (Op × Out)) (store : List Row) (c : Ct) : Prop :=
  (∃ op dj, (op, Out.record dj) ∈ tr ∧ (dj.data = c ∨ ∃ dk, dj.key = some dk ∧ dk.enc = c)) ∨
  (∃ r, r ∈ store ∧ r.enc = c)

theorem pairwise_mem_cases {α : Type} {R : α → α → Prop} {l : List α} (h : l.Pairwise R) {a b : α}
    (ha : a ∈ l) (hb : b ∈ l) : a = b ∨ R a b ∨ R b a := by
  induction h with
  | nil => cases ha
  | cons hx _ ih =>
    rcases List.mem_cons.mp ha with rfl | ha'
    · rcases List.mem_cons.mp hb with rfl | hb'
      · exact Or.inl rfl
      · exact Or.inr (Or.inl (hx b hb'))
    · rcases List.mem_cons.mp hb with rfl | hb'
      · exact Or.inr (Or.inr (hx a ha'))
      · exact ih ha' hb'

theorem decrypt_original {w : World} {tr : List (Op × Out)} (h : GInv w tr) {s : Nat} {d : Drr} {fl : List Fault}
    {p : Nat} (hdec : (applyOp w (.decrypt s d fl)).1 = .payload p)
    (hdata : Emitted tr w.store d.data) (hkey : ∀ dk, d.key = some dk → Emitted tr w.store dk.enc) :
    ∃ op dj s' fl', (op, Out.record dj) ∈ tr ∧ op = .encrypt s' p fl' ∧ dj.data = d.data ∧
      dj.key.map (·.enc) = d.key.map (·.enc) := by
  obtain ⟨dk, par, hk, _, _, im, dm, n, n', he, hd⟩ := decrypt_ok (applyOp_decrypt_payload hdec)
  rcases hdata with ⟨op, dj, hmem, hdj | ⟨dk', hk', he'⟩⟩ | ⟨r, hr, hre⟩
  · obtain ⟨dmj, hrec, _, hnorow⟩ := h.recs op dj hmem
    obtain ⟨s', pay, fl', dkj, nj, ikmj, nj', hop, e1, e2, e3⟩ := hrec
    rw [hdj, hd] at e1
    cases e1
    refine ⟨op, dj, s', fl', hmem, hop, hdj, ?_⟩
    rcases hkey dk hk with ⟨op2, dj2, hmem2, hdj2 | ⟨dk2, hk2, he2⟩⟩ | ⟨r, hr, hre⟩
    · obtain ⟨dm2, ⟨_, _, _, _, _, _, _, _, f1, _, _⟩, _, _⟩ := h.recs op2 dj2 hmem2
      rw [hdj2, he] at f1; cases f1
    · obtain ⟨dm2, hrec2, _, _⟩ := h.recs op2 dj2 hmem2
      have hrec2' := hrec2
      obtain ⟨_, _, _, dk2', _, _, _, _, _, f2, f3⟩ := hrec2'
      rw [hk2] at f2; cases f2
      rw [he2, he] at f3
      cases f3
      have hrecj : RecOf op dj dm := ⟨s', p, fl', dkj, n, ikmj, nj', hop, by rw [hdj, hd], e2, e3⟩
      rcases pairwise_mem_cases h.sorted hmem hmem2 with heq | hlt | hlt
      · cases heq
        rw [hk2, hk, Option.map_some, Option.map_some, he2]
      · exact absurd (hlt dj dj2 dm dm rfl rfl hrecj hrec2) (Nat.lt_irrefl _)
      · exact absurd (hlt dj2 dj dm dm rfl rfl hrec2 hrecj) (Nat.lt_irrefl _)
    · exact absurd (by rw [hre, he]; rfl) (hnorow r hr)
  · obtain ⟨dm2, ⟨_, _, _, dk2, _, _, _, _, _, f2, f3⟩, _, _⟩ := h.recs op dj hmem
    rw [hk'] at f2; cases f2
    rw [he', hd] at f3; cases f3
  · have := (h.rows r hr).2
    rw [hre, hd] at this
    exact absurd trivial this

theorem mem_zip_getElem? {α β : Type} {l : List α} {l' : List β} {a : α} {b : β} (h : (a, b) ∈ l.zip l') :
    ∃ j : Nat, l[j]? = some a ∧ l'[j]? = some b := by
  obtain ⟨j, hj⟩ := List.mem_iff_getElem?.mp h
  refine ⟨j, ?_⟩
  rw [List.getElem?_zip_eq_some] at hj
  exact hj

theorem runOps_length (w : World) (ops : List Op) : (runOps w ops).1.length = ops.length := by
  induction ops generalizing w with
  | nil => rfl
  | cons op rest ih => rw [runOps_cons]; simp [ih]

theorem mem_zip_of_getElem? {α β : Type} {l : List α} {l' : List β} {j : Nat} {a : α} {b : β}
    (ha : l[j]? = some a) (hb : l'[j]? = some b) : (a, b) ∈ l.zip l' := by
  apply List.mem_iff_getElem?.mpr
  exact ⟨j, by rw [List.getElem?_zip_eq_some]; exact ⟨ha, hb⟩⟩

theorem ops_getElem?_of_out {w : World} {ops : List Op} {j : Nat} {o : Out} (h : (runOps w ops).1[j]? = some o) :
    ∃ op, ops[j]? = some op := by
  have hj : j < (runOps w ops).1.length := by
    apply Classical.byContradiction; intro hc
    rw [List.getElem?_eq_none (Nat.le_of_not_lt hc)] at h; cases h
  rw [runOps_length] at hj
  exact ⟨ops[j], List.getElem?_eq_getElem hj⟩

/-- two different records of a history never share their data-row key, so the key of one with the
data of the other is rejected. -/
theorem splice_error {w : World} {tr : List (Op × Out)} (h : GInv w tr) {i j : Nat} (hij : i ≠ j)
    {opi opj : Op} {di dj : Drr} (hi : tr[i]? = some (opi, .record di)) (hj : tr[j]? = some (opj, .record dj))
    (s : Nat) (fl : List Fault) : ∃ e, (applyOp w (.decrypt s ⟨di.key, dj.data⟩ fl)).1 = .error e := by
  obtain ⟨dmi, hri, _, _⟩ := h.recs opi di (List.mem_of_getElem? hi)
  obtain ⟨dmj, hrj, _, _⟩ := h.recs opj dj (List.mem_of_getElem? hj)
  have hne : dmi ≠ dmj := by
    have hs := List.pairwise_iff_getElem.mp h.sorted
    have hil : i < tr.length := by
      apply Classical.byContradiction; intro hc
      rw [List.getElem?_eq_none (Nat.le_of_not_lt hc)] at hi; cases hi
    have hjl : j < tr.length := by
      apply Classical.byContradiction; intro hc
      rw [List.getElem?_eq_none (Nat.le_of_not_lt hc)] at hj; cases hj
    have ei : tr[i] = (opi, .record di) := by rw [List.getElem?_eq_getElem hil] at hi; exact Option.some.inj hi
    have ej : tr[j] = (opj, .record dj) := by rw [List.getElem?_eq_getElem hjl] at hj; exact Option.some.inj hj
    rcases Nat.lt_or_gt_of_ne hij with hlt | hgt
    · have := hs i j hil hjl hlt di dj dmi dmj (by rw [ei]) (by rw [ej]) (by rw [ei]; exact hri) (by rw [ej]; exact hrj)
      exact Nat.ne_of_lt this
    · have := hs j i hjl hil hgt dj di dmj dmi (by rw [ej]) (by rw [ei]) (by rw [ej]; exact hrj) (by rw [ei]; exact hri)
      exact (Nat.ne_of_lt this).symm
  rcases applyOp_decrypt_cases w s ⟨di.key, dj.data⟩ fl with ⟨p, hp⟩ | he
  · obtain ⟨dk, par, hk, _, _, im, dm, n, n', he, hd⟩ := decrypt_ok (applyOp_decrypt_payload hp)
    obtain ⟨_, _, _, dki, _, _, _, _, _, f2, f3⟩ := hri
    obtain ⟨_, _, _, _, _, _, _, _, g1, _, _⟩ := hrj
    dsimp only at hk hd
    rw [f2] at hk; cases hk
    rw [f3] at he; cases he
    rw [g1] at hd; cases hd
    exact absurd rfl hne
  · exact he

end AsherahVerif.Env
