import AsherahVerif.Proofs.EnvTimeInv
/-
The key-cache load paths (`load`, `GetOrLoad`, `GetOrLoadLatest`) against the invariant `St`,
generic in the loader: a loader that keeps `St` and returns a key satisfying `Loaded` yields, through
the cache, either a cache hit (`Hit`: the entry found in the initial world was not due for a reload)
or a key with the loader's guarantees (`Res`).
-/
set_option linter.unusedVariables false
namespace AsherahVerif.Env

/-! ### weakest preconditions -/

/-- `Wp x w Q`: running `x` from `w` ends in an outcome and a world satisfying `Q`. -/
def Wp {α : Type} (x : M α) (w : World) (Q : Except Err α → World → Prop) : Prop := Q (x w).1 (x w).2

theorem Wp.bind {α β : Type} {x : M α} {f : α → M β} {w : World} {Q : Except Err β → World → Prop}
    (h : Wp x w (fun r w1 => match r with | .ok a => Wp (f a) w1 Q | .error e => Q (.error e) w1)) :
    Wp (x >>= f) w Q := by
  unfold Wp at *
  simp only [bind_run]
  cases hr : x w with
  | mk r w' =>
    rw [hr] at h
    cases r with
    | ok a => exact h
    | error e => exact h

theorem Wp.mono {α : Type} {x : M α} {w : World} {Q Q' : Except Err α → World → Prop} (h : Wp x w Q)
    (hq : ∀ r w', Q r w' → Q' r w') : Wp x w Q' := hq _ _ h

theorem Wp.pure {α : Type} {a : α} {w : World} {Q : Except Err α → World → Prop} (h : Q (.ok a) w) :
    Wp (Pure.pure a : M α) w Q := h
theorem Wp.throw {α : Type} {e : Err} {w : World} {Q : Except Err α → World → Prop} (h : Q (.error e) w) :
    Wp (Env.throw e : M α) w Q := h
theorem Wp.get {w : World} {Q : Except Err World → World → Prop} (h : Q (.ok w) w) : Wp Env.get w Q := h
theorem Wp.keyObj {o : Nat} {w : World} {Q : Except Err KeyObj → World → Prop} (h : Q (.ok (keyAt w o)) w) :
    Wp (Env.keyObj o) w Q := h
theorem Wp.getCache {c : Nat} {w : World} {Q : Except Err KeyCache → World → Prop} (h : Q (.ok (cacheAt w c)) w) :
    Wp (Env.getCache c) w Q := h
theorem Wp.modify {f : World → World} {w : World} {Q : Except Err Unit → World → Prop} (h : Q (.ok ()) (f w)) :
    Wp (Env.modify f) w Q := h
theorem Wp.finallyDo {α : Type} {x : M α} {fin : M Unit} {w : World} {Q : Except Err α → World → Prop}
    (h : Wp x w (fun r w1 => Wp fin w1 (fun _ w2 => Q r w2))) : Wp (Env.finallyDo x fin) w Q := h
theorem Wp.tryM {α : Type} {x : M α} {w : World} {Q : Except Err (Except Err α) → World → Prop}
    (h : Wp x w (fun r w1 => Q (.ok r) w1)) : Wp (Env.tryM x) w Q := h

/-- sequencing through a step of which only the world after is known. -/
theorem Wp.bind_world {α β : Type} {x : M α} {f : α → M β} {w : World} {Q : Except Err β → World → Prop}
    (herr : ∀ e, Q (.error e) (x w).2) (hok : ∀ a, Wp (f a) (x w).2 Q) : Wp (x >>= f) w Q := by
  apply Wp.bind
  unfold Wp
  cases h : (x w).1 with
  | ok a => exact hok a
  | error e => exact herr e

/-- sequencing through a unit step that cannot fail. -/
theorem Wp.bind_unit {β : Type} {x : M Unit} {f : Unit → M β} {w : World} {Q : Except Err β → World → Prop}
    (hok : (x w).1 = .ok ()) (h : Wp (f ()) (x w).2 Q) : Wp (x >>= f) w Q := by
  apply Wp.bind
  unfold Wp
  rw [hok]; exact h

/-- steps whose result is irrelevant: only the world after matters (unit-valued calls). -/
theorem Wp.of_world {α : Type} {x : M α} {w : World} {Q : Except Err α → World → Prop}
    (h : ∀ r, Q r (x w).2) : Wp x w Q := h _

/-- `MSame`: no cache was added and none changed its mode. -/
def MSame (w w' : World) : Prop := w'.caches.length = w.caches.length ∧ ∀ c, modeOf w' c = modeOf w c
instance : RT MSame := ⟨fun _ => ⟨rfl, fun _ => rfl⟩, fun h1 h2 => ⟨h2.1.trans h1.1, fun c => (h2.2 c).trans (h1.2 c)⟩⟩
theorem CW.msame {w w' : World} (h : CW w w') : MSame w w' := ⟨h.len, h.mode⟩
theorem SV.msame {w w' : World} (h : SV w w') : MSame w w' := ⟨h.len, fun c => (h.view c).2.2⟩
theorem Q0.msame {w w' : World} (h : Q0 w w') : MSame w w' :=
  ⟨by rw [h.caches], fun c => by unfold modeOf cacheAt; rw [h.caches]⟩

/-- guarantees about a key that came out of a loader (possibly merged into an existing entry):
`LP` is the caller's fact about its creation stamp and revoked flag. -/
def Res (ρ : RevCtx) (LP : Int → Bool → World → Prop) (kid : KeyId) (w : World) (k : Nat) : Prop :=
  ∃ ko : KeyObj, w.keys[k]? = some ko ∧ LP ko.created ko.revoked w ∧
    (∃ r ∈ w.store, r.kid = kid ∧ r.created = ko.created) ∧
    (∀ τ m0, ρ = some (τ, m0) → m0 = ⟨kid, ko.created⟩ → ko.revoked = true)

/-- what a loader called for `m` must deliver. -/
def Loaded (ρ : RevCtx) (LP : Int → Bool → World → Prop) (m : KeyMeta) (w : World) (k : Nat) : Prop :=
  Res ρ LP m.kid w k ∧ (m.created ≠ 0 → (keyAt w k).created = m.created) ∧
    (∀ c2 m2 e2, (m2, e2) ∈ entsOf w c2 → e2.obj ≠ k)

/-- the loader contract. -/
def LoaderOK (ρ : RevCtx) (D : List Row → Prop) (t : Int) (LP : Int → Bool → World → Prop)
    (loader : KeyMeta → M Nat) (m : KeyMeta) : Prop :=
  ∀ w, St ρ D t w → Wp (loader m) w fun r w' =>
    St ρ D t w' ∧ MSame w w' ∧ ∀ k, r = .ok k → Loaded ρ LP m w' k

def LPMono (LP : Int → Bool → World → Prop) : Prop := ∀ c b w w', LP c b w → Ext w w' → LP c b w'

theorem keyAt_of_get {w : World} {o : Nat} {ko : KeyObj} (h : w.keys[o]? = some ko) : keyAt w o = ko := by
  unfold keyAt; rw [List.getD_eq_getElem?_getD, h]; rfl

theorem Res.mono {ρ : RevCtx} {LP : Int → Bool → World → Prop} (hLP : LPMono LP) {kid : KeyId} {w w' : World} {k : Nat}
    (h : Res ρ LP kid w k) (hcw : CW w w') : Res ρ LP kid w' k := by
  obtain ⟨ko, hk, hlp, ⟨r, hr, hrk⟩, hrev⟩ := h
  obtain ⟨k1, e1, c1, _⟩ := hcw.ext.keys _ _ hk
  obtain ⟨k2, e2, r2⟩ := hcw.rev _ _ hk
  rw [e1] at e2; cases e2
  refine ⟨k1, e1, ?_, ⟨r, hcw.ext.store r hr, by rw [c1]; exact hrk⟩, ?_⟩
  · rw [c1, r2]; exact hLP _ _ _ _ hlp hcw.ext
  · intro τ m0 h1 h2; rw [r2]; rw [c1] at h2; exact hrev τ m0 h1 h2

/-- the meta under which `read` finds an entry: same key id, the stamp of the entry's key. -/
theorem readMeta_facts {ρ : RevCtx} {D : List Row → Prop} {t : Int} {w : World} (h : St ρ D t w) {c : Nat} {m : KeyMeta}
    {e : CEntry} (hr : readEntry w c m = some e) :
    (readMeta w c m, e) ∈ entsOf w c ∧ (readMeta w c m).kid = m.kid ∧ (m.created ≠ 0 → readMeta w c m = m) := by
  refine ⟨assocGet_mem hr, ?_, ?_⟩
  · unfold readMeta
    split
    · cases hl : assocGet (latestOf w c) m.kid with
      | none => rfl
      | some l => exact h.aliasKid c m.kid l hl
    · rfl
  · intro hne; unfold readMeta; rw [if_neg hne]

/-- in a map-backed cache, `read` after `write` finds the written entry. -/
theorem readEntry_cacheWrite (c : Nat) (m : KeyMeta) (e : CEntry) (w : World) (hm : modeOf w c = .simple)
    (hl : c < w.caches.length) : readEntry (cacheWrite c m e w).2 c m = some e := by
  obtain ⟨-, hlat, -, hents, -⟩ := cacheWrite_spec c m e w
  unfold readEntry
  rw [hents hm hl]
  have : readMeta (cacheWrite c m e w).2 c m = writeMeta w m e := by
    unfold readMeta writeMeta
    split
    · rename_i h0
      rw [hlat]
      have hs : setsLatest w c m e = true := by unfold setsLatest; rw [if_pos h0]
      rw [if_pos ⟨rfl, hl, hs⟩, assocGet_assocSet_same]
      unfold writeMeta; rw [if_pos h0]; rfl
    · rfl
  rw [this, assocGet_assocSet_same]

/-- flipping the revoked flag of a cached key to what a fresh load of the same key shows. -/
theorem St.setRevoked {ρ : RevCtx} {D : List Row → Prop} {t : Int} {w : World} (h : St ρ D t w) (o : Nat) (b : Bool)
    (hb : ∀ c2 m2 e2, (m2, e2) ∈ entsOf w c2 → e2.obj = o → ∀ τ m0, ρ = some (τ, m0) → m2 = m0 → b = true) :
    St ρ D t (modify (fun w => { w with keys := setAt w.keys o fun x => { x with revoked := b } }) w).2 := by
  refine ⟨h.now, h.faults, ?_, h.objMeta, h.aliasKid, h.tau, h.sto⟩
  intro c m e hm
  have g := h.good c m e hm
  obtain ⟨ko, hk, hc, hs⟩ := g.coh
  refine ⟨?_, g.past, g.stored⟩
  simp only [modify_run, setAt_getElem?]
  by_cases ho : e.obj = o
  · simp only [ho, if_true]
    rw [ho] at hk
    rw [hk]
    refine ⟨_, rfl, hc, ?_⟩
    intro τ m0 h1 h2
    left; exact hb c m e hm ho τ m0 h1 h2
  · simp only [ho, if_false]
    exact ⟨ko, hk, hc, hs⟩

theorem Loaded.keyAt {ρ : RevCtx} {LP : Int → Bool → World → Prop} {m : KeyMeta} {w : World} {k : Nat}
    (h : Loaded ρ LP m w k) : ∃ ko, w.keys[k]? = some ko ∧ Env.keyAt w k = ko := by
  obtain ⟨⟨ko, hk, -⟩, -⟩ := h
  exact ⟨ko, hk, keyAt_of_get hk⟩

/-- caching a freshly loaded key: wrap it and file it under `m` (world after both steps). -/
theorem freshWrite_world {ρ : RevCtx} {D : List Row → Prop} {t : Int} {LP : Int → Bool → World → Prop} (hLP : LPMono LP)
    (c : Nat) (m : KeyMeta) (k : Nat) (w : World) (h : St ρ D t w) (hld : Loaded ρ LP m w k) :
    St ρ D t (cacheWrite c m { loadedAt := w.now, obj := k } (keyWrap k w).2).2 ∧
      CW w (cacheWrite c m { loadedAt := w.now, obj := k } (keyWrap k w).2).2 ∧
      Res ρ LP m.kid (cacheWrite c m { loadedAt := w.now, obj := k } (keyWrap k w).2).2 k ∧
      (modeOf w c = .simple → c < w.caches.length →
        readEntry (cacheWrite c m { loadedAt := w.now, obj := k } (keyWrap k w).2).2 c m = some { loadedAt := t, obj := k }) := by
  have hcw1 := keyWrap_cw k w
  have hv1 := fun c => CW.views (keyWrap_q0 k w) c
  have h1 : St ρ D t (keyWrap k w).2 := h.step' (keyWrap_ext k w) (keyWrap_q0 k w) (keyWrap_ss k w)
  generalize (keyWrap k w).2 = w1 at hcw1 hv1 h1 ⊢
  obtain ⟨hres, hex, hfresh⟩ := hld
  have hres1 : Res ρ LP m.kid w1 k := hres.mono hLP hcw1
  obtain ⟨ko, hk, hlp, hst, hrev⟩ := hres1
  have hka : keyAt w1 k = ko := keyAt_of_get hk
  have hcr : ko.created = (keyAt w k).created := by
    obtain ⟨ko0, hk0, -⟩ := hres
    obtain ⟨k1, e1, c1, _⟩ := hcw1.ext.keys _ _ hk0
    rw [hk] at e1; cases e1
    rw [keyAt_of_get hk0]; exact c1
  have hwm : writeMeta w1 m { loadedAt := w.now, obj := k } = ⟨m.kid, ko.created⟩ := by
    unfold writeMeta
    simp only [hka]
    split
    · rfl
    · rename_i hne
      have := hex hne
      rw [← hcr] at this
      rw [this]
  have hg : Good ρ w1 (writeMeta w1 m { loadedAt := w.now, obj := k }) { loadedAt := w.now, obj := k } := by
    rw [hwm]
    refine ⟨⟨ko, hk, rfl, ?_⟩, by rw [hcw1.ext.now]; exact Int.le_refl _, hst⟩
    intro τ m0 h1 h2; left; exact hrev τ m0 h1 h2.symm
  have hobj : ∀ c2 m2 e2, (m2, e2) ∈ entsOf w1 c2 → e2.obj = ({ loadedAt := w.now, obj := k } : CEntry).obj →
      m2 = writeMeta w1 m { loadedAt := w.now, obj := k } := by
    intro c2 m2 e2 hm ho
    rw [(hv1 c2).1] at hm
    exact absurd ho (hfresh c2 m2 e2 hm)
  have h2 := h1.cacheWrite c m _ hg hobj
  obtain ⟨hcw2, -, -, -, -⟩ := cacheWrite_spec c m { loadedAt := w.now, obj := k } w1
  have hre := readEntry_cacheWrite c m { loadedAt := w.now, obj := k } w1
  refine ⟨h2, RT.trans hcw1 hcw2, Res.mono hLP ⟨ko, hk, hlp, hst, hrev⟩ hcw2, ?_⟩
  intro hm hl
  rw [← hcw1.mode] at hm; rw [← hcw1.len] at hl
  rw [hre hm hl, h.now]

theorem freshWrite_wp {ρ : RevCtx} {D : List Row → Prop} {t : Int} {LP : Int → Bool → World → Prop} (hLP : LPMono LP)
    (c : Nat) (m : KeyMeta) (k : Nat) (w : World) (h : St ρ D t w) (hld : Loaded ρ LP m w k) :
    Wp (do let w ← get; keyWrap k; cacheWrite c m { loadedAt := w.now, obj := k }; pure k) w fun r w' =>
      St ρ D t w' ∧ MSame w w' ∧ ∀ k', r = .ok k' → k' = k ∧ Res ρ LP m.kid w' k ∧
        (modeOf w c = .simple → c < w.caches.length → readEntry w' c m = some { loadedAt := t, obj := k }) := by
  apply Wp.bind; apply Wp.get; simp only []
  refine Wp.bind_unit rfl ?_
  obtain ⟨h2, hcw, hres, hre⟩ := freshWrite_world hLP c m k w h hld
  refine Wp.bind_world (fun e => ⟨h2, hcw.msame, fun k' hk' => by cases hk'⟩) (fun _ => ?_)
  refine ⟨h2, hcw.msame, fun k' hk' => ?_⟩
  cases hk'
  exact ⟨rfl, hres, hre⟩

/-- merging a freshly loaded key's revoked flag into the existing entry of the same key. -/
theorem mergeWrite_wp {ρ : RevCtx} {D : List Row → Prop} {t : Int} {LP : Int → Bool → World → Prop} (hLP : LPMono LP)
    (c : Nat) (m : KeyMeta) (e : CEntry) (k : Nat) (b : Bool) (kc : Int) (w : World) (h : St ρ D t w)
    (hre : readEntry w c m = some e) (hcr : (keyAt w e.obj).created = kc)
    (hb : ∀ τ m0, ρ = some (τ, m0) → m0 = ⟨m.kid, kc⟩ → b = true)
    (hlp : LP kc b w) (hst : ∃ r ∈ w.store, r.kid = m.kid ∧ r.created = kc) :
    Wp (do
        modify fun w => { w with keys := setAt w.keys e.obj fun x => { x with revoked := b } }
        let w ← get
        keyCloseRaw k
        let e' : CEntry := { e with loadedAt := w.now }
        cacheWrite c m e'
        pure e.obj) w fun r w' =>
      St ρ D t w' ∧ MSame w w' ∧ ∀ k', r = .ok k' → k' = e.obj ∧ Res ρ LP m.kid w' e.obj ∧
        (modeOf w c = .simple → c < w.caches.length → readEntry w' c m = some { e with loadedAt := t }) := by
  obtain ⟨hmem, hkid, hexact⟩ := readMeta_facts h hre
  have g := h.good c _ e hmem
  obtain ⟨eo, heo, hec, hes⟩ := g.coh
  have hka : keyAt w e.obj = eo := keyAt_of_get heo
  rw [hka] at hcr
  have hme : readMeta w c m = ⟨m.kid, kc⟩ := by
    have : readMeta w c m = ⟨(readMeta w c m).kid, (readMeta w c m).created⟩ := rfl
    rw [this, hkid, ← hec, hcr]
  refine Wp.bind_unit rfl ?_
  have h3 : St ρ D t (modify (fun w => { w with keys := setAt w.keys e.obj fun x => { x with revoked := b } }) w).2 := by
    apply h.setRevoked
    intro c2 m2 e2 hm2 ho τ m0 h1 h2
    have := h.objMeta c2 c m2 _ e2 e hm2 hmem ho
    rw [this, hme] at h2
    exact hb τ m0 h1 h2.symm
  have hext3 := revokedSet_ext e.obj b w
  have hk3 : (modify (fun w => { w with keys := setAt w.keys e.obj fun x => { x with revoked := b } }) w).2.keys[e.obj]?
      = some { eo with revoked := b } := by
    simp only [modify_run, setAt_getElem?, if_true, heo, Option.map_some]
  have hents3 : ∀ c, entsOf (modify (fun w => { w with keys := setAt w.keys e.obj fun x => { x with revoked := b } }) w).2 c = entsOf w c :=
    fun _ => rfl
  have hms3 : MSame w (modify (fun w => { w with keys := setAt w.keys e.obj fun x => { x with revoked := b } }) w).2 :=
    ⟨rfl, fun _ => rfl⟩
  have hst3 : (modify (fun w => { w with keys := setAt w.keys e.obj fun x => { x with revoked := b } }) w).2.store = w.store := rfl
  generalize (modify (fun w => { w with keys := setAt w.keys e.obj fun x => { x with revoked := b } }) w).2 = w3
    at h3 hext3 hk3 hents3 hms3 hst3 ⊢
  apply Wp.bind; apply Wp.get; simp only []
  refine Wp.bind_unit (keyCloseRaw_ok k w3) ?_
  have hcw4 := keyCloseRaw_cw k w3
  have hv4 := fun c => CW.views (keyCloseRaw_q0 k w3) c
  have h4 : St ρ D t (keyCloseRaw k w3).2 := h3.step' (keyCloseRaw_ext k w3) (keyCloseRaw_q0 k w3) (keyCloseRaw_ss k w3)
  generalize (keyCloseRaw k w3).2 = w4 at hcw4 hv4 h4 ⊢
  obtain ⟨k4, hk4, hc4, -⟩ := hcw4.ext.keys _ _ hk3
  obtain ⟨k4', hk4', hr4⟩ := hcw4.rev _ _ hk3
  rw [hk4] at hk4'; cases hk4'
  simp only at hc4 hr4
  have hka4 : keyAt w4 e.obj = k4 := keyAt_of_get hk4
  have hwm : writeMeta w4 m { e with loadedAt := w3.now } = ⟨m.kid, kc⟩ := by
    unfold writeMeta
    simp only [hka4, hc4, hcr]
    split
    · rfl
    · rename_i hne; rw [← hme, hexact hne]
  have hext14 : Ext w w4 := hext3.trans hcw4.ext
  have hg : Good ρ w4 (writeMeta w4 m { e with loadedAt := w3.now }) { e with loadedAt := w3.now } := by
    rw [hwm]
    refine ⟨⟨k4, hk4, by rw [hc4, hcr], ?_⟩, by rw [hcw4.ext.now]; exact Int.le_refl _, ?_⟩
    · intro τ m0 h1 h2; left; rw [hr4]; exact hb τ m0 h1 h2.symm
    · obtain ⟨r, hr, hh⟩ := hst; exact ⟨r, hext14.store r hr, hh⟩
  have hobj : ∀ c2 m2 e2, (m2, e2) ∈ entsOf w4 c2 → e2.obj = ({ e with loadedAt := w3.now } : CEntry).obj →
      m2 = writeMeta w4 m { e with loadedAt := w3.now } := by
    intro c2 m2 e2 hm ho
    rw [(hv4 c2).1, hents3] at hm
    rw [hwm, ← hme]
    exact h.objMeta c2 c m2 _ e2 e hm hmem ho
  have h5 := h4.cacheWrite c m _ hg hobj
  obtain ⟨hcw5, -, -, -, -⟩ := cacheWrite_spec c m { e with loadedAt := w3.now } w4
  have hre5 := readEntry_cacheWrite c m { e with loadedAt := w3.now } w4
  have hms : MSame w (cacheWrite c m { e with loadedAt := w3.now } w4).2 :=
    RT.trans hms3 (RT.trans hcw4.msame hcw5.msame)
  refine Wp.bind_world (fun e => ⟨h5, hms, fun k' hk' => by cases hk'⟩) (fun _ => ?_)
  refine ⟨h5, hms, fun k' hk' => ?_⟩
  cases hk'
  refine ⟨rfl, ?_, ?_⟩
  · obtain ⟨k5, hk5, hc5, -⟩ := hcw5.ext.keys _ _ hk4
    obtain ⟨k5', hk5', hr5⟩ := hcw5.rev _ _ hk4
    rw [hk5] at hk5'; cases hk5'
    have e1 : k5.created = kc := by rw [hc5, hc4, hcr]
    have e2 : k5.revoked = b := by rw [hr5, hr4]
    refine ⟨k5, hk5, ?_, ?_, ?_⟩
    · rw [e1, e2]; exact hLP _ _ _ _ hlp (hext14.trans hcw5.ext)
    · obtain ⟨r, hr, hh⟩ := hst
      exact ⟨r, (hext14.trans hcw5.ext).store r hr, by rw [e1]; exact hh⟩
    · intro τ m0 h1 h2; rw [e2]; rw [e1] at h2; exact hb τ m0 h1 h2
  · intro hm hl
    have hm4 : modeOf w4 c = .simple := by rw [hcw4.mode, hms3.2]; exact hm
    have hl4 : c < w4.caches.length := by rw [hcw4.len, hms3.1]; exact hl
    show readEntry (cacheWrite c m { e with loadedAt := w3.now } w4).2 c m = _
    rw [hre5 hm4 hl4, hext3.now, h.now]

theorem cacheRead_wp (c : Nat) (m : KeyMeta) (w : World) :
    Wp (cacheRead c m) w fun r w' => SV w w' ∧ ∃ o, r = .ok o ∧
      (∀ e, o = some e → readEntry w c m = some e) ∧
      (modeOf w c = .simple → o = readEntry w c m) ∧ (modeOf w c = .never → o = none) := cacheRead_spec c m w

theorem getFresh_wp (c : Nat) (m : KeyMeta) (i : Int) (w : World) :
    Wp (getFresh c m i) w fun r w' => SV w w' ∧ ∃ ko fr, r = .ok (ko, fr) ∧
      ((ko = none ∧ fr = false ∧ (modeOf w c = .simple → readEntry w c m = none)) ∨
       ∃ e, readEntry w c m = some e ∧ ko = some e.obj ∧ fr = !isReloadRequired e (keyAt w e.obj) w.now i) :=
  getFresh_spec c m i w

/-- `keyCache.load`. -/
theorem cacheLoad_wp {ρ : RevCtx} {D : List Row → Prop} {t : Int} {LP : Int → Bool → World → Prop} {loader : KeyMeta → M Nat}
    (hLP : LPMono LP) (c : Nat) (m : KeyMeta) (hl : LoaderOK ρ D t LP loader m) (w : World) (h : St ρ D t w) :
    Wp (cacheLoad c m loader) w fun r w' =>
      St ρ D t w' ∧ MSame w w' ∧ ∀ k, r = .ok k → Res ρ LP m.kid w' k ∧
        (modeOf w c = .simple → c < w.caches.length →
          ∃ e, readEntry w' c m = some e ∧ e.obj = k ∧ e.loadedAt = t) := by
  unfold cacheLoad
  apply Wp.bind
  apply Wp.mono (hl w h)
  intro r w1 ⟨h1, hms1, hk1⟩
  cases r with
  | error e => exact ⟨h1, hms1, fun k hk => by cases hk⟩
  | ok k =>
    simp only []
    have hld := hk1 k rfl
    apply Wp.bind; apply Wp.keyObj; simp only []
    apply Wp.bind
    apply Wp.mono (cacheRead_wp c m w1)
    intro r2 w2 ⟨hsv, o, ho, ho1, _, _⟩
    subst ho
    simp only []
    have h2 : St ρ D t w2 := h1.sv hsv
    have hld2 : Loaded ρ LP m w2 k := by
      obtain ⟨a, b, c1⟩ := hld
      refine ⟨a.mono hLP (CW.of_sv hsv), by rw [hsv.keyAt]; exact b, ?_⟩
      intro c2 m2 e2 hm; rw [(hsv.view c2).1] at hm; exact c1 c2 m2 e2 hm
    have hms2 : MSame w w2 := RT.trans hms1 hsv.msame
    have fresh : Wp (do let w ← get; keyWrap k; cacheWrite c m { loadedAt := w.now, obj := k }; pure k) w2 fun r w' =>
        St ρ D t w' ∧ MSame w w' ∧ ∀ k, r = .ok k → Res ρ LP m.kid w' k ∧
          (modeOf w c = .simple → c < w.caches.length → ∃ e, readEntry w' c m = some e ∧ e.obj = k ∧ e.loadedAt = t) := by
      apply Wp.mono (freshWrite_wp hLP c m k w2 h2 hld2)
      intro r w' ⟨a, b, c1⟩
      refine ⟨a, RT.trans hms2 b, fun k' hk' => ?_⟩
      obtain ⟨e1, e2, e3⟩ := c1 k' hk'
      subst e1
      refine ⟨e2, fun hm hlen => ⟨_, e3 (by rw [hms2.2]; exact hm) (by rw [hms2.1]; exact hlen), rfl, rfl⟩⟩
    cases o with
    | none => exact fresh
    | some e =>
      simp only []
      apply Wp.bind; apply Wp.keyObj; simp only []
      split
      · rename_i hceq
        have hre : readEntry w2 c m = some e := by rw [hsv.readEntry]; exact ho1 e rfl
        obtain ⟨⟨ko, hk, hlp, hst, hrev⟩, -, -⟩ := hld2
        have hka : keyAt w2 k = ko := keyAt_of_get hk
        have hk1' : keyAt w1 k = ko := by rw [← hsv.keyAt]; exact hka
        rw [hk1'] at hceq ⊢
        apply Wp.mono (mergeWrite_wp hLP c m e k ko.revoked ko.created w2 h2 hre hceq
          (fun τ m0 h1 h2 => hrev τ m0 h1 h2) hlp hst)
        intro r w' ⟨a, b, c1⟩
        refine ⟨a, RT.trans hms2 b, fun k' hk' => ?_⟩
        obtain ⟨e1, e2, e3⟩ := c1 k' hk'
        subst e1
        refine ⟨e2, fun hm hlen => ⟨_, e3 (by rw [hms2.2]; exact hm) (by rw [hms2.1]; exact hlen), rfl, rfl⟩⟩
      · exact fresh

/-- cache hit: the entry `read` finds in `w0` is not due for a reload. -/
def Hit (w0 : World) (c : Nat) (m : KeyMeta) (i : Int) (k : Nat) : Prop :=
  ∃ e, readEntry w0 c m = some e ∧ e.obj = k ∧ isReloadRequired e (keyAt w0 k) w0.now i = false

/-- what a cache hit does to the world: reference counting and cache-internal bookkeeping only. -/
structure HW (w w' : World) : Prop where
  cw : CW w w'
  log : w'.log = w.log
  view : ∀ c, entsOf w' c = entsOf w c ∧ latestOf w' c = latestOf w c

instance : RT HW where
  refl w := ⟨RT.refl w, rfl, fun _ => ⟨rfl, rfl⟩⟩
  trans h1 h2 := ⟨RT.trans h1.cw h2.cw, h2.log.trans h1.log,
    fun c => ⟨(h2.view c).1.trans (h1.view c).1, (h2.view c).2.trans (h1.view c).2⟩⟩

theorem HW.of_sv {w w' : World} (h : SV w w') : HW w w' :=
  ⟨CW.of_sv h, h.log, fun c => ⟨(h.view c).1, (h.view c).2.1⟩⟩

theorem keyIncr_hw (o : Nat) (w : World) : HW w (keyIncr o w).2 :=
  ⟨keyIncr_cw o w, rfl, fun _ => ⟨rfl, rfl⟩⟩

theorem HW.readEntry {w w' : World} (h : HW w w') (c : Nat) (m : KeyMeta) : readEntry w' c m = readEntry w c m := by
  unfold Env.readEntry readMeta; rw [(h.view c).1, (h.view c).2]

theorem St.hw {ρ : RevCtx} {D : List Row → Prop} {t : Int} {w w' : World} (h : St ρ D t w) (hw : HW w w') :
    St ρ D t w' := by
  refine ⟨hw.cw.ext.now.trans h.now, hw.cw.faults h.faults, ?_, ?_, ?_, ?_, hw.cw.store ▸ h.sto⟩
  · intro c m e hm; rw [(hw.view c).1] at hm; exact (h.good c m e hm).mono hw.cw.ext hw.cw.rev
  · intro c1 c2 m1 m2 e1 e2 h1 h2; rw [(hw.view _).1] at h1 h2; exact h.objMeta c1 c2 m1 m2 e1 e2 h1 h2
  · intro c kid m hm; rw [(hw.view c).2] at hm; exact h.aliasKid c kid m hm
  · intro τ m0 hρ; rw [hw.cw.ext.now]; exact h.tau τ m0 hρ

/-- the two lookups and the load of `GetOrLoad` on a real cache. -/
theorem getOrLoad_cached_wp {ρ : RevCtx} {D : List Row → Prop} {t : Int} {LP : Int → Bool → World → Prop}
    {loader : KeyMeta → M Nat} (hLP : LPMono LP) (c : Nat) (m : KeyMeta) (hl : LoaderOK ρ D t LP loader m) (i : Int)
    (w : World) (h : St ρ D t w) :
    Wp (do
        match ← getFresh c m i with
        | (some k, true) => keyIncr k; pure k
        | _ =>
          match ← getFresh c m i with
          | (some k, true) => keyIncr k; pure k
          | _ =>
            let k ← cacheLoad c m loader
            keyIncr k
            pure k) w fun r w' =>
      St ρ D t w' ∧ MSame w w' ∧ ∀ k, r = .ok k →
        ((Hit w c m i k ∧ HW w w') ∨ Res ρ LP m.kid w' k) ∧
        (modeOf w c = .simple → c < w.caches.length → ∃ e, readEntry w' c m = some e ∧ e.obj = k) := by
  -- a hit, from any world that differs from `w` by bookkeeping only
  have hit : ∀ (w1 : World) (k : Nat), SV w w1 → Hit w c m i k →
      Wp (do keyIncr k; pure k) w1 fun r w' =>
        St ρ D t w' ∧ MSame w w' ∧ ∀ k, r = .ok k →
          ((Hit w c m i k ∧ HW w w') ∨ Res ρ LP m.kid w' k) ∧
          (modeOf w c = .simple → c < w.caches.length → ∃ e, readEntry w' c m = some e ∧ e.obj = k) := by
    intro w1 k hsv hh
    refine Wp.bind_unit rfl ?_
    have hw : HW w (keyIncr k w1).2 := RT.trans (HW.of_sv hsv) (keyIncr_hw k w1)
    refine ⟨h.hw hw, hw.cw.msame, fun k' hk' => ?_⟩
    cases hk'
    refine ⟨Or.inl ⟨hh, hw⟩, fun _ _ => ?_⟩
    obtain ⟨e, he, ho, -⟩ := hh
    exact ⟨e, (hw.readEntry c m).trans he, ho⟩
  have load : ∀ (w1 : World), SV w w1 →
      Wp (do let k ← cacheLoad c m loader; keyIncr k; pure k) w1 fun r w' =>
        St ρ D t w' ∧ MSame w w' ∧ ∀ k, r = .ok k →
          ((Hit w c m i k ∧ HW w w') ∨ Res ρ LP m.kid w' k) ∧
          (modeOf w c = .simple → c < w.caches.length → ∃ e, readEntry w' c m = some e ∧ e.obj = k) := by
    intro w1 hsv
    apply Wp.bind
    apply Wp.mono (cacheLoad_wp hLP c m hl w1 (h.sv hsv))
    intro r w2 ⟨h2, hms2, hk2⟩
    cases r with
    | error e => exact ⟨h2, RT.trans hsv.msame hms2, fun k hk => by cases hk⟩
    | ok k =>
      simp only []
      refine Wp.bind_unit rfl ?_
      have hw := keyIncr_hw k w2
      obtain ⟨hres, hsim⟩ := hk2 k rfl
      refine ⟨h2.hw hw, RT.trans hsv.msame (RT.trans hms2 hw.cw.msame), fun k' hk' => ?_⟩
      cases hk'
      refine ⟨Or.inr (hres.mono hLP hw.cw), fun hm hlen => ?_⟩
      obtain ⟨e, he, ho, -⟩ := hsim (by rw [(hsv.view c).2.2]; exact hm) (by rw [hsv.len]; exact hlen)
      exact ⟨e, (hw.readEntry c m).trans he, ho⟩
  have mkhit : ∀ (w1 : World) (e : CEntry), SV w w1 → readEntry w1 c m = some e →
      (!isReloadRequired e (keyAt w1 e.obj) w1.now i) = true → Hit w c m i e.obj := by
    intro w1 e hsv he hf
    refine ⟨e, by rw [← hsv.readEntry]; exact he, rfl, ?_⟩
    rw [← hsv.keyAt, ← hsv.now]
    cases hx : isReloadRequired e (keyAt w1 e.obj) w1.now i
    · rfl
    · rw [hx] at hf; cases hf
  apply Wp.bind
  apply Wp.mono (getFresh_wp c m i w)
  intro r w1 ⟨hsv1, ko, fr, hr, hcase⟩
  subst hr
  simp only []
  have second : Wp (do
          match ← getFresh c m i with
          | (some k, true) => keyIncr k; pure k
          | _ =>
            let k ← cacheLoad c m loader
            keyIncr k
            pure k) w1 fun r w' =>
        St ρ D t w' ∧ MSame w w' ∧ ∀ k, r = .ok k →
          ((Hit w c m i k ∧ HW w w') ∨ Res ρ LP m.kid w' k) ∧
          (modeOf w c = .simple → c < w.caches.length → ∃ e, readEntry w' c m = some e ∧ e.obj = k) := by
    apply Wp.bind
    apply Wp.mono (getFresh_wp c m i w1)
    intro r w2 ⟨hsv2, ko2, fr2, hr2, hcase2⟩
    subst hr2
    simp only []
    have hsv12 : SV w w2 := RT.trans hsv1 hsv2
    rcases hcase2 with ⟨rfl, rfl, -⟩ | ⟨e, he, rfl, rfl⟩
    · exact load w2 hsv12
    · cases hf : (!isReloadRequired e (keyAt w1 e.obj) w1.now i)
      · exact load w2 hsv12
      · exact hit w2 e.obj hsv12 (mkhit w1 e hsv1 he hf)
  rcases hcase with ⟨rfl, rfl, -⟩ | ⟨e, he, rfl, rfl⟩
  · exact second
  · cases hf : (!isReloadRequired e (keyAt w e.obj) w.now i)
    · exact second
    · exact hit w1 e.obj hsv1 (mkhit w e (RT.refl w) he hf)

/-- `keyCacher.GetOrLoad`: a hit, or a key with the loader's guarantees. -/
theorem getOrLoad_wp {ρ : RevCtx} {D : List Row → Prop} {t : Int} {LP : Int → Bool → World → Prop}
    {loader : KeyMeta → M Nat} (hLP : LPMono LP) (c : Nat) (m : KeyMeta) (hl : LoaderOK ρ D t LP loader m) (i : Int)
    (w : World) (h : St ρ D t w) :
    Wp (getOrLoad c m i loader) w fun r w' =>
      St ρ D t w' ∧ MSame w w' ∧ ∀ k, r = .ok k →
        ((Hit w c m i k ∧ HW w w') ∨ Res ρ LP m.kid w' k) ∧
        (modeOf w c = .simple → c < w.caches.length → ∃ e, readEntry w' c m = some e ∧ e.obj = k) := by
  unfold getOrLoad
  apply Wp.bind; apply Wp.getCache; simp only []
  cases hmode : (cacheAt w c).mode with
  | never =>
    simp only []
    apply Wp.bind
    apply Wp.mono (hl w h)
    intro r w1 ⟨h1, hms1, hk1⟩
    cases r with
    | error e => exact ⟨h1, hms1, fun k hk => by cases hk⟩
    | ok k =>
      simp only []
      refine Wp.bind_unit rfl ?_
      have hcw := keyWrap_cw k w1
      refine ⟨h1.step' (keyWrap_ext k w1) (keyWrap_q0 k w1) (keyWrap_ss k w1), RT.trans hms1 hcw.msame, fun k' hk' => ?_⟩
      cases hk'
      refine ⟨Or.inr ((hk1 k rfl).1.mono hLP hcw), fun hm => ?_⟩
      unfold modeOf at hm; rw [hmode] at hm; cases hm
  | simple => simp only []; exact getOrLoad_cached_wp hLP c m hl i w h
  | bounded => simp only []; exact getOrLoad_cached_wp hLP c m hl i w h

theorem hit_key {ρ : RevCtx} {D : List Row → Prop} {t : Int} {w w' : World} {c : Nat} {m : KeyMeta} {i : Int} {k : Nat}
    (h : St ρ D t w) (hh : Hit w c m i k) (hw : CW w w') : ∃ ko : KeyObj, w'.keys[k]? = some ko := by
  obtain ⟨e, he, ho, -⟩ := hh
  obtain ⟨hmem, -, -⟩ := readMeta_facts h he
  obtain ⟨ko, hk, -, -⟩ := (h.good c _ e hmem).coh
  rw [ho] at hk
  obtain ⟨k1, e1, -⟩ := hw.ext.keys _ _ hk
  exact ⟨k1, e1⟩

/-- on a map-backed cache: `read` of "latest" finds the key `k`, or the alias points to a key with a
later stamp than `k`'s. -/
def ReadsBack (w0 w' : World) (c : Nat) (kid : KeyId) (k : Nat) : Prop :=
  modeOf w0 c = .simple → c < w0.caches.length →
    (∃ e, readEntry w' c ⟨kid, 0⟩ = some e ∧ e.obj = k) ∨
    (∃ l, assocGet (latestOf w' c) kid = some l ∧ (keyAt w' k).created < l.created)

theorem ReadsBack.hw {w0 w w' : World} {c : Nat} {kid : KeyId} {k : Nat} (h : ReadsBack w0 w c kid k)
    (hk : ∃ ko, w.keys[k]? = some ko) (hw : HW w w') : ReadsBack w0 w' c kid k := by
  intro hm hl
  obtain ⟨ko, hko⟩ := hk
  obtain ⟨k1, e1, c1, -⟩ := hw.cw.ext.keys _ _ hko
  rcases h hm hl with ⟨e, he, ho⟩ | ⟨l, hl', hlt⟩
  · left; exact ⟨e, by rw [hw.readEntry]; exact he, ho⟩
  · right
    refine ⟨l, by rw [(hw.view c).2]; exact hl', ?_⟩
    rw [keyAt_of_get e1, c1, ← keyAt_of_get hko]; exact hlt

/-- filing a freshly loaded key under its exact stamp: afterwards "latest" reads it back, unless the
alias already points to a key with a later stamp. -/
theorem readsBack_after_write {ρ : RevCtx} {D : List Row → Prop} {t : Int} (c : Nat) (kid : KeyId) (rk : Nat)
    (w : World) (h : St ρ D t w) (hk : ∃ ko, w.keys[rk]? = some ko)
    (hm : modeOf w c = .simple) (hl : c < w.caches.length) :
    (∃ e, readEntry (cacheWrite c ⟨kid, (keyAt w rk).created⟩ { loadedAt := w.now, obj := rk } (keyWrap rk w).2).2 c ⟨kid, 0⟩ = some e ∧ e.obj = rk) ∨
    (∃ l, assocGet (latestOf (cacheWrite c ⟨kid, (keyAt w rk).created⟩ { loadedAt := w.now, obj := rk } (keyWrap rk w).2).2 c) kid = some l ∧
      (keyAt (cacheWrite c ⟨kid, (keyAt w rk).created⟩ { loadedAt := w.now, obj := rk } (keyWrap rk w).2).2 rk).created < l.created) := by
  obtain ⟨ko, hko⟩ := hk
  have hcw1 := keyWrap_cw rk w
  have hv1 := fun c => CW.views (keyWrap_q0 rk w) c
  obtain ⟨k1, e1, c1, -⟩ := hcw1.ext.keys _ _ hko
  have hka1 : (keyAt (keyWrap rk w).2 rk).created = (keyAt w rk).created := by
    rw [keyAt_of_get e1, c1, keyAt_of_get hko]
  have hm1 : modeOf (keyWrap rk w).2 c = .simple := by rw [hcw1.mode]; exact hm
  have hl1 : c < (keyWrap rk w).2.caches.length := by rw [hcw1.len]; exact hl
  generalize (keyWrap rk w).2 = w1 at hcw1 hv1 e1 hka1 hm1 hl1 ⊢
  obtain ⟨hcw2, hlat, -, hents, -⟩ := cacheWrite_spec c ⟨kid, (keyAt w rk).created⟩ { loadedAt := w.now, obj := rk } w1
  have hwm : writeMeta w1 ⟨kid, (keyAt w rk).created⟩ { loadedAt := w.now, obj := rk } = ⟨kid, (keyAt w rk).created⟩ := by
    unfold writeMeta
    split
    · rename_i h0
      simp only at h0
      simp only [hka1]
    · rfl
  rw [hwm] at hlat hents
  have hents' := hents hm1 hl1
  obtain ⟨k2, e2, c2, -⟩ := hcw2.ext.keys _ _ e1
  have hka2 : (keyAt (cacheWrite c ⟨kid, (keyAt w rk).created⟩ { loadedAt := w.now, obj := rk } w1).2 rk).created
      = (keyAt w rk).created := by
    rw [keyAt_of_get e2, c2, c1, keyAt_of_get hko]
  generalize (cacheWrite c ⟨kid, (keyAt w rk).created⟩ { loadedAt := w.now, obj := rk } w1).2 = w2 at hlat hents' hka2 ⊢
  have hlat' := hlat c
  have readAt : ∀ l, assocGet (latestOf w2 c) kid = some l → l = ⟨kid, (keyAt w rk).created⟩ →
      ∃ e, readEntry w2 c ⟨kid, 0⟩ = some e ∧ e.obj = rk := by
    intro l hl' hleq
    refine ⟨{ loadedAt := w.now, obj := rk }, ?_, rfl⟩
    unfold readEntry readMeta
    simp only [if_true, hl', Option.getD_some]
    rw [hents', hleq, assocGet_assocSet_same]
  by_cases hs : setsLatest w1 c ⟨kid, (keyAt w rk).created⟩ { loadedAt := w.now, obj := rk } = true
  · rw [if_pos ⟨rfl, hl1, hs⟩] at hlat'
    left
    exact readAt _ (by rw [hlat', assocGet_assocSet_same]) rfl
  · rw [if_neg (fun hh => hs hh.2.2)] at hlat'
    unfold setsLatest at hs
    simp only at hs
    split at hs
    · exact absurd rfl hs
    · cases hal : assocGet (latestOf w1 c) kid with
      | none => rw [hal] at hs; exact absurd rfl hs
      | some l =>
        rw [hal] at hs
        simp only [decide_eq_true_eq] at hs
        have hlk : l.kid = kid := h.aliasKid c kid l (by rw [← (hv1 c).2]; exact hal)
        by_cases heq : l.created = (keyAt w rk).created
        · left
          refine readAt l (by rw [hlat']; exact hal) ?_
          cases l; simp only at hlk heq; rw [hlk, heq]
        · right
          refine ⟨l, by rw [hlat']; exact hal, ?_⟩
          rw [hka2]
          rw [hka1] at hs
          omega

/-- the validated part of `GetOrLoadLatest` on a real cache. -/
theorem getOrLoadLatest_cached_wp {ρ : RevCtx} {D : List Row → Prop} {t : Int} {LP : Int → Bool → World → Prop}
    {loader : KeyMeta → M Nat} (hLP : LPMono LP) (c : Nat) (kid : KeyId) (hl : LoaderOK ρ D t LP loader ⟨kid, 0⟩) (i ea : Int)
    (w : World) (h : St ρ D t w) :
    Wp (do
        let m : KeyMeta := ⟨kid, 0⟩
        let key ← match ← getFresh c m i with
          | (some k, true) => pure k
          | _ => cacheLoad c m loader
        let ko ← keyObj key
        let w ← get
        if isKeyInvalid ko w.now ea then
          let reloaded ← loader m
          let ro ← keyObj reloaded
          let w ← get
          keyWrap reloaded
          cacheWrite c ⟨kid, ro.created⟩ { loadedAt := w.now, obj := reloaded }
          keyIncr reloaded
          pure reloaded
        else
          keyIncr key
          pure key) w fun r w' =>
      St ρ D t w' ∧ MSame w w' ∧ (∀ k, r = .ok k →
        (Hit w c ⟨kid, 0⟩ i k ∧ HW w w' ∧ isKeyInvalid (keyAt w k) t ea = false) ∨ Res ρ LP kid w' k) ∧
        ∀ k, r = .ok k → ReadsBack w w' c kid k := by
  -- second stage, from a world `w2` with the first-stage key `key`
  have stage2 : ∀ (w2 : World) (key : Nat), St ρ D t w2 → MSame w w2 →
      ((Hit w c ⟨kid, 0⟩ i key ∧ HW w w2) ∨ Res ρ LP kid w2 key) → ReadsBack w w2 c kid key →
      Wp (do
        let ko ← keyObj key
        let w ← get
        if isKeyInvalid ko w.now ea then
          let reloaded ← loader ⟨kid, 0⟩
          let ro ← keyObj reloaded
          let w ← get
          keyWrap reloaded
          cacheWrite c ⟨kid, ro.created⟩ { loadedAt := w.now, obj := reloaded }
          keyIncr reloaded
          pure reloaded
        else
          keyIncr key
          pure key) w2 fun r w' =>
      St ρ D t w' ∧ MSame w w' ∧ (∀ k, r = .ok k →
        (Hit w c ⟨kid, 0⟩ i k ∧ HW w w' ∧ isKeyInvalid (keyAt w k) t ea = false) ∨ Res ρ LP kid w' k) ∧
        ∀ k, r = .ok k → ReadsBack w w' c kid k := by
    intro w2 key h2 hms2 hkey hrb
    have hkex : ∃ ko, w2.keys[key]? = some ko := by
      rcases hkey with ⟨hh, hw2⟩ | ⟨ko, hko, -⟩
      · exact hit_key h hh hw2.cw
      · exact ⟨ko, hko⟩
    apply Wp.bind; apply Wp.keyObj; simp only []
    apply Wp.bind; apply Wp.get; simp only []
    split
    · -- invalid: reload
      apply Wp.bind
      apply Wp.mono (hl w2 h2)
      intro r w3 ⟨h3, hms3, hk3⟩
      cases r with
      | error e => exact ⟨h3, RT.trans hms2 hms3, fun k hk => (by cases hk), fun k hk => (by cases hk)⟩
      | ok rk =>
        simp only []
        obtain ⟨hres, -, hfr⟩ := hk3 rk rfl
        apply Wp.bind; apply Wp.keyObj; simp only []
        apply Wp.bind; apply Wp.get; simp only []
        refine Wp.bind_unit rfl ?_
        have hld : Loaded ρ LP ⟨kid, (keyAt w3 rk).created⟩ w3 rk := ⟨hres, fun _ => rfl, hfr⟩
        obtain ⟨h4, hcw4, hres4, -⟩ := freshWrite_world hLP c ⟨kid, (keyAt w3 rk).created⟩ rk w3 h3 hld
        have hms4 : MSame w (cacheWrite c ⟨kid, (keyAt w3 rk).created⟩ { loadedAt := w3.now, obj := rk } (keyWrap rk w3).2).2 :=
          RT.trans hms2 (RT.trans hms3 hcw4.msame)
        have hrb4 : ReadsBack w (cacheWrite c ⟨kid, (keyAt w3 rk).created⟩ { loadedAt := w3.now, obj := rk } (keyWrap rk w3).2).2 c kid rk := by
          intro hm hlen
          obtain ⟨ko, hko, -⟩ := hres
          exact readsBack_after_write c kid rk w3 h3 ⟨ko, hko⟩
            (by rw [hms3.2, hms2.2]; exact hm) (by rw [hms3.1, hms2.1]; exact hlen)
        refine Wp.bind_world (fun e => ⟨h4, hms4, fun k' hk' => (by cases hk'), fun k' hk' => (by cases hk')⟩) (fun _ => ?_)
        refine Wp.bind_unit rfl ?_
        have hw := keyIncr_hw rk (cacheWrite c ⟨kid, (keyAt w3 rk).created⟩ { loadedAt := w3.now, obj := rk } (keyWrap rk w3).2).2
        refine ⟨h4.hw hw, RT.trans hms4 hw.cw.msame, fun k' hk' => ?_, fun k' hk' => ?_⟩
        · cases hk'
          exact Or.inr (hres4.mono hLP hw.cw)
        · cases hk'
          obtain ⟨ko4, hko4, -⟩ := hres4
          exact hrb4.hw ⟨ko4, hko4⟩ hw
    · rename_i hvalid
      refine Wp.bind_unit rfl ?_
      have hw := keyIncr_hw key w2
      refine ⟨h2.hw hw, RT.trans hms2 hw.cw.msame, fun k' hk' => ?_, fun k' hk' => ?_⟩
      · cases hk'
        rcases hkey with ⟨hh, hw2⟩ | hres
        · left
          refine ⟨hh, RT.trans hw2 hw, ?_⟩
          -- the key object is the same as in `w`
          obtain ⟨e, he, ho, -⟩ := hh
          obtain ⟨hmem, -, -⟩ := readMeta_facts h he
          obtain ⟨eo, heo, -, -⟩ := (h.good c _ e hmem).coh
          rw [ho] at heo
          obtain ⟨k1, e1, c1, -⟩ := hw2.cw.ext.keys _ _ heo
          obtain ⟨k1', e1', r1⟩ := hw2.cw.rev _ _ heo
          rw [e1] at e1'; cases e1'
          have hv : isKeyInvalid (keyAt w2 key) w2.now ea = false := by
            cases hx : isKeyInvalid (keyAt w2 key) w2.now ea
            · rfl
            · exact absurd hx hvalid
          rw [keyAt_of_get e1, h2.now] at hv
          rw [keyAt_of_get heo]
          unfold isKeyInvalid at hv ⊢
          rw [r1, c1] at hv; exact hv
        · exact Or.inr (hres.mono hLP hw.cw)
      · cases hk'
        exact hrb.hw hkex hw
  apply Wp.bind
  apply Wp.mono (getFresh_wp c ⟨kid, 0⟩ i w)
  intro r w1 ⟨hsv1, ko, fr, hr, hcase⟩
  subst hr
  simp only []
  have load : ∀ (r : Except Err Nat) (w2 : World),
      (St ρ D t w2 ∧ MSame w1 w2 ∧ ∀ k, r = .ok k → Res ρ LP kid w2 k ∧
        (modeOf w1 c = .simple → c < w1.caches.length →
          ∃ e, readEntry w2 c ⟨kid, 0⟩ = some e ∧ e.obj = k ∧ e.loadedAt = t)) →
      ∀ k, r = .ok k → ReadsBack w w2 c kid k := by
    intro r w2 ⟨_, _, hk2⟩ k hr hm hlen
    obtain ⟨e, he, ho, -⟩ := (hk2 k hr).2 (by rw [(hsv1.view c).2.2]; exact hm) (by rw [hsv1.len]; exact hlen)
    exact Or.inl ⟨e, he, ho⟩
  rcases hcase with ⟨rfl, rfl, -⟩ | ⟨e, he, rfl, rfl⟩
  · simp only []
    apply Wp.bind
    apply Wp.mono (cacheLoad_wp hLP c ⟨kid, 0⟩ hl w1 (h.sv hsv1))
    intro r w2 hpost
    have hrb := load r w2 hpost
    obtain ⟨h2, hms2, hk2⟩ := hpost
    cases r with
    | error e => exact ⟨h2, RT.trans hsv1.msame hms2, fun k hk => (by cases hk), fun k hk => (by cases hk)⟩
    | ok k =>
      simp only []
      exact stage2 w2 k h2 (RT.trans hsv1.msame hms2) (Or.inr (hk2 k rfl).1) (hrb k rfl)
  · cases hf : (!isReloadRequired e (keyAt w e.obj) w.now i)
    · simp only []
      apply Wp.bind
      apply Wp.mono (cacheLoad_wp hLP c ⟨kid, 0⟩ hl w1 (h.sv hsv1))
      intro r w2 hpost
      have hrb := load r w2 hpost
      obtain ⟨h2, hms2, hk2⟩ := hpost
      cases r with
      | error e => exact ⟨h2, RT.trans hsv1.msame hms2, fun k hk => (by cases hk), fun k hk => (by cases hk)⟩
      | ok k =>
        simp only []
        exact stage2 w2 k h2 (RT.trans hsv1.msame hms2) (Or.inr (hk2 k rfl).1) (hrb k rfl)
    · simp only []
      apply Wp.bind; apply Wp.pure
      simp only []
      refine stage2 w1 e.obj (h.sv hsv1) hsv1.msame (Or.inl ⟨⟨e, he, rfl, ?_⟩, HW.of_sv hsv1⟩) ?_
      · cases hx : isReloadRequired e (keyAt w e.obj) w.now i
        · rfl
        · rw [hx] at hf; cases hf
      · intro _ _
        exact Or.inl ⟨e, by rw [hsv1.readEntry]; exact he, rfl⟩

/-- `keyCacher.GetOrLoadLatest`: a valid cache hit, or a key with the loader's guarantees. -/
theorem getOrLoadLatest_wp {ρ : RevCtx} {D : List Row → Prop} {t : Int} {LP : Int → Bool → World → Prop}
    {loader : KeyMeta → M Nat} (hLP : LPMono LP) (c : Nat) (kid : KeyId) (hl : LoaderOK ρ D t LP loader ⟨kid, 0⟩) (i ea : Int)
    (w : World) (h : St ρ D t w) :
    Wp (getOrLoadLatest c kid i ea loader) w fun r w' =>
      St ρ D t w' ∧ MSame w w' ∧ (∀ k, r = .ok k →
        (Hit w c ⟨kid, 0⟩ i k ∧ HW w w' ∧ isKeyInvalid (keyAt w k) t ea = false) ∨ Res ρ LP kid w' k) ∧
        ∀ k, r = .ok k → ReadsBack w w' c kid k := by
  unfold getOrLoadLatest
  apply Wp.bind; apply Wp.getCache; simp only []
  cases hmode : (cacheAt w c).mode with
  | never =>
    simp only []
    apply Wp.bind
    apply Wp.mono (hl w h)
    intro r w1 ⟨h1, hms1, hk1⟩
    cases r with
    | error e => exact ⟨h1, hms1, fun k hk => (by cases hk), fun k hk => (by cases hk)⟩
    | ok k =>
      simp only []
      refine Wp.bind_unit rfl ?_
      have hcw := keyWrap_cw k w1
      refine ⟨h1.step' (keyWrap_ext k w1) (keyWrap_q0 k w1) (keyWrap_ss k w1), RT.trans hms1 hcw.msame,
        fun k' hk' => ?_, fun k' hk' hm => ?_⟩
      · cases hk'
        exact Or.inr ((hk1 k rfl).1.mono hLP hcw)
      · unfold modeOf at hm; rw [hmode] at hm; cases hm
  | simple => simp only []; exact getOrLoadLatest_cached_wp hLP c kid hl i ea w h
  | bounded => simp only []; exact getOrLoadLatest_cached_wp hLP c kid hl i ea w h

end AsherahVerif.Env
