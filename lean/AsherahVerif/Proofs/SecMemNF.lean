import AsherahVerif.Proofs.SecMemWorld
/-
Fault-free sequential runs of the world of secrets (every operation with the empty fault oracle):
every secret is either idle (mapped, locked, excluded from dumps, PROT_NONE, original bytes, no
readers) or closed (wiped, unlocked, unmapped) — and what each operation then observes.
-/
namespace AsherahVerif.SecMem

/-- a secret between fault-free sequential operations. -/
structure SeqOk (s : Sec) : Prop where
  live : s.closed = false → s.idle = true
  gone : s.closed = true → s.page.mapped = false ∧ s.page.locked = false ∧ s.page.content = .zero ∧ s.counter = 0

theorem SeqOk.sinv {s : Sec} (h : SeqOk s) : SInv s := by
  cases hc : s.closed
  · exact SInv.of_idle (h.live hc)
  · obtain ⟨g1, _, _, g4⟩ := h.gone hc
    exact ⟨fun h' => (by rw [hc] at h'; cases h'), fun _ => g1, g4⟩

/-- a fault-free read (any nesting) of an idle secret: ok, through a read-only page, sees the
original bytes, and the secret is idle again. -/
theorem withClosed_idle (s : Sec) (hs : s.idle = true) :
    withClosed s [] = { res := .ok, sec := s, evs := [protCall .ro true s.born, protCall .none true s.born], rest := [],
                        called := true, inside := some { s.page with prot := .ro }, seen := some (.bytes s.born) } := by
  obtain ⟨i1, i2, i3, i4, i5, i6, i7, i8, _⟩ := idle_elim hs
  obtain ⟨impl, id, len, born, ⟨mapped, locked, dd, prot, content, guards⟩, closing, closed, counter⟩ := s
  simp only at i1 i2 i3 i4 i5 i6 i7 i8
  subst i1 i2 i3 i4 i5 i6 i7 i8
  simp [withClosed]

/-- reading a closed (or closing) secret: the documented error, nothing touched. -/
theorem withClosed_closed (s : Sec) (fl : List Bool) (hc : s.closed = true) :
    withClosed s fl = { res := .closedErr, sec := s, evs := [], rest := fl, called := false, inside := none, seen := none } := by
  simp [withClosed, hc]

/-- fault-free Close of an idle secret. -/
theorem close_idle (pf : Proto) (hpf : pf.closeWaits = true) (s : Sec) (hs : s.idle = true) :
    (close pf s []).res = .ok ∧ SeqOk (close pf s []).sec ∧ (close pf s []).sec.closed = true ∧
    inuseDelta (close pf s []).evs = -1 ∧ releasesClean (close pf s []).evs = true ∧
    wipeBeforeRelease true (close pf s []).evs = true := by
  obtain ⟨i1, i2, i3, i4, i5, i6, i7, i8, _⟩ := idle_elim hs
  obtain ⟨impl, id, len, born, ⟨mapped, locked, dd, prot, content, guards⟩, closing, closed, counter⟩ := s
  simp only at i1 i2 i3 i4 i5 i6 i7 i8
  subst i1 i2 i3 i4 i5 i6 i7 i8
  rw [close_eq pf hpf]
  cases impl <;>
    simp [closeInner, pmClose, mgClose, mgDestroy, Run.call, Run.wipe, Page.writable, applyPrim, Prim.alwaysFails, inuseDelta,
      releasesClean, wipeBeforeRelease, Content.isSecret] <;>
    exact ⟨fun h => (by cases h), fun _ => ⟨rfl, rfl, rfl, rfl⟩⟩

/-- Close of a closed secret: nil, nothing touched. -/
theorem close_closed (pf : Proto) (hpf : pf.closeWaits = true) (s : Sec) (fl : List Bool) (hc : s.closed = true) :
    close pf s fl = { res := .ok, sec := { s with closing := true }, evs := [], rest := fl } := by
  rw [close_eq pf hpf]; simp [hc]

def SeqWorld (w : World) : Prop :=
  w.pf.accessChecksClosing = true ∧ w.pf.closeWaits = true ∧ (∀ s ∈ w.secs, SeqOk s) ∧ w.inuse = live w.secs

theorem SeqWorld.init (cfg : Cfg) : SeqWorld { cfg := cfg } :=
  ⟨rfl, rfl, (by intro s hs; cases hs), (by simp [live])⟩

theorem seqOk_set {l : List Sec} {i : Nat} {x : Sec} (hl : ∀ s ∈ l, SeqOk s) (hx : SeqOk x) : ∀ s ∈ l.set i x, SeqOk s := by
  intro s hs
  rcases mem_set_cases hs with rfl | hs
  · exact hx
  · exact hl s hs

theorem createOp_seq (w : World) (h3 : ∀ s ∈ w.secs, SeqOk s) (impl : Impl) (random : Bool) (len : Nat) :
    ∀ s ∈ (w.createOp impl random len []).1.secs, SeqOk s := by
  unfold World.createOp
  have hs := createSound_of (create_sound w.cfg impl random w.nextId len [])
  generalize create w.cfg impl random w.nextId len [] = c at hs
  cases hsec : c.sec with
  | none => simpa [hsec] using h3
  | some s =>
    have hok : c.res = .ok := by
      by_cases h : c.res = .ok
      · exact h
      · have := hs.fail_sec h; rw [hsec] at this; cases this
    obtain ⟨s', e1, e2, _, _⟩ := hs.ok_sec hok
    rw [hsec] at e1; cases e1
    simp only [hsec]
    intro x hx
    simp only [List.mem_append, List.mem_singleton] at hx
    rcases hx with hx | rfl
    · exact h3 x hx
    · exact ⟨fun _ => e2, fun h => (by rw [(idle_elim e2).2.1] at h; cases h)⟩

/-- a fault-free `withBytes` leaves an idle-or-closed secret exactly as it was. -/
theorem withBytes_seqOk (pf : Proto) (h1 : pf.accessChecksClosing = true) (nest : Nat) (s : Sec) (hs : SeqOk s) :
    (withBytes pf nest s []).sec = s := by
  rw [withBytes_seq pf h1 nest s [] hs.sinv]
  cases hc : s.closed
  · rw [withClosed_idle s (hs.live hc)]
  · rw [withClosed_closed s [] hc]

theorem withOp_seq (w : World) (h1 : w.pf.accessChecksClosing = true) (h3 : ∀ s ∈ w.secs, SeqOk s) (sid nest : Nat) :
    ∀ s ∈ (w.withOp sid nest []).1.secs, SeqOk s := by
  unfold World.withOp
  cases h : w.secs[sid]? with
  | none => exact h3
  | some s =>
    have hs := h3 s (List.mem_of_getElem? h)
    simp only [withBytes_seqOk w.pf h1 nest s hs]
    exact seqOk_set h3 hs

theorem readOp_seq (w : World) (h1 : w.pf.accessChecksClosing = true) (h3 : ∀ s ∈ w.secs, SeqOk s) (rid k : Nat) :
    ∀ s ∈ (w.readOp rid k []).1.secs, SeqOk s := by
  unfold World.readOp
  cases hr : w.readers[rid]? with
  | none => exact h3
  | some p =>
    obtain ⟨sid, i⟩ := p
    simp only
    cases h : w.secs[sid]? with
    | none => exact h3
    | some s =>
      have hs := h3 s (List.mem_of_getElem? h)
      simp only [withBytes_seqOk w.pf h1 0 s hs]
      exact seqOk_set h3 hs

theorem closeOp_seq (w : World) (h2 : w.pf.closeWaits = true) (h3 : ∀ s ∈ w.secs, SeqOk s) (sid : Nat) :
    ∀ s ∈ (w.closeOp sid []).1.secs, SeqOk s := by
  unfold World.closeOp
  cases h : w.secs[sid]? with
  | none => exact h3
  | some s =>
    have hs := h3 s (List.mem_of_getElem? h)
    apply seqOk_set h3
    cases hc : s.closed
    · exact (close_idle w.pf h2 s (hs.live hc)).2.1
    · rw [close_closed w.pf h2 s [] hc]
      exact ⟨fun h' => (by simp only at h'; rw [hc] at h'; cases h'), fun _ => hs.gone hc⟩

/-- a fault-free step keeps every secret idle-or-closed. -/
theorem step_seq (w : World) (hw : SeqWorld w) (op : Op) : SeqWorld (w.step op []).1 := by
  obtain ⟨h1, h2, h3, h4⟩ := hw
  have hwi : WorldInv w := ⟨fun s hs => (h3 s hs).sinv, h4⟩
  have hf := step_facts w h1 h2 hwi op []
  refine ⟨by rw [hf.pf]; exact h1, by rw [hf.pf]; exact h2, ?_, hf.inv.inuse⟩
  cases op with
  | new impl len => exact createOp_seq w h3 impl false len
  | rand impl len => exact createOp_seq w h3 impl true len
  | withB sid nest => exact withOp_seq w h1 h3 sid nest
  | withF sid nest => exact withOp_seq w h1 h3 sid nest
  | newReader sid =>
    simp only [World.step]
    cases h : w.secs[sid]? <;> exact h3
  | read rid k => exact readOp_seq w h1 h3 rid k
  | close sid => exact closeOp_seq w h2 h3 sid
  | isClosed sid =>
    simp only [World.step]
    cases h : w.secs[sid]? <;> exact h3

/-- fault-free run of an operation sequence. -/
def World.runNF (w : World) (ops : List Op) : World := World.run w (ops.map fun op => (op, []))

theorem runNF_seq (w : World) (hw : SeqWorld w) (ops : List Op) : SeqWorld (w.runNF ops) := by
  induction ops generalizing w with
  | nil => exact hw
  | cons op t ih =>
    simp only [World.runNF, List.map_cons, World.run]
    exact ih _ (step_seq w hw op)

end AsherahVerif.SecMem
