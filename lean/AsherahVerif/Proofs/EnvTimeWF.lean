import AsherahVerif.Proofs.EnvTimeC20
/-
C20: the wiring invariant `WF` over whole histories.
-/
set_option linter.unusedVariables false
namespace AsherahVerif.Env

theorem cacheClose_nr (c : Nat) : Resp NR (cacheClose c) := by
  intro w
  unfold cacheClose
  simp only [bind_run, getCache_run]
  cases hmode : (cacheAt w c).mode with
  | never => exact RT.refl w
  | simple =>
    simp only []
    exact gen_releaseAll (R := NR) _ w
  | bounded =>
    simp only []
    rw [setCache_bind_run]
    generalize hkc : ({ mode := CacheMode.bounded, latest := (cacheAt w c).latest, slots := (cacheAt w c).slots, pol := (Cache.step (cacheAt w c).pol Cache.Op.close fun x => false).cache } : KeyCache) = kc
    have hm' : kc.mode = (cacheAt w c).mode := by rw [← hkc]; exact hmode.symm
    obtain ⟨hcw, -, he⟩ := setCache_cw c kc w hm'
    refine RT.trans (⟨hcw.msame, fun c' hc' => ?_⟩ : NR w (setCache c kc w).2) (gen_releaseAll (R := NR) _ _)
    rw [he]
    split
    · rename_i h
      rw [h.1] at hc'
      unfold modeOf at hc'; rw [hmode] at hc'; cases hc'
    · rfl

theorem modeOf_addCache (kc : KeyCache) (w : World) (c : Nat) :
    modeOf (addCache kc w).2 c = if c = w.caches.length then kc.mode else modeOf w c := by
  unfold modeOf; rw [cacheAt_addCache]; split <;> rfl

theorem addCache_len (kc : KeyCache) (w : World) : (addCache kc w).2.caches.length = w.caches.length + 1 := by
  show (w.caches ++ [kc]).length = _; simp

/-- adding an empty cache keeps the wiring of everything that exists. -/
theorem WF.addCache {w : World} (h : WF w) (kc : KeyCache) (h1 : kc.ents = []) (h2 : kc.latest = []) :
    WF (addCache kc w).2 := by
  refine ⟨?_, ?_, ?_⟩
  · intro c hc
    rw [(addCache_views kc w h1 h2 c).1]
    rw [modeOf_addCache] at hc
    split at hc
    · rename_i heq
      unfold entsOf cacheAt
      rw [List.getD_eq_getElem?_getD, List.getElem?_eq_none (by omega)]; rfl
    · exact h.never c hc
  · intro f fac hf
    have hf' : w.facs[f]? = some fac := hf
    have g := h.facs f fac hf'
    refine ⟨⟨by rw [addCache_len]; have := g.sk.1; omega, ?_⟩, fun c hc => ?_, g.unshared⟩
    · rw [modeOf_addCache, if_neg (by have := g.sk.1; omega)]; exact g.sk.2
    · obtain ⟨a, b, c1⟩ := g.shared c hc
      exact ⟨a, by rw [addCache_len]; omega, by rw [modeOf_addCache, if_neg (by omega)]; exact c1⟩
  · intro s ss hs
    have hs' : w.sessions[s]? = some ss := hs
    obtain ⟨fac, a, b, c1⟩ := h.sess s ss hs'
    exact ⟨fac, a, by rw [addCache_len]; omega, by rw [modeOf_addCache, if_neg (by omega)]; exact c1⟩

theorem msame_of_caches {w w' : World} (hc : w'.caches = w.caches) : MSame w w' :=
  ⟨by rw [hc], fun c => by unfold modeOf cacheAt; rw [hc]⟩

theorem FacWF.congr {w w' : World} {fac fac' : Factory} (h : FacWF w fac) (hc : w'.caches = w.caches)
    (h1 : fac'.pol = fac.pol) (h2 : fac'.skCache = fac.skCache) (h3 : fac'.sharedIk = fac.sharedIk) : FacWF w' fac' := by
  have g := h.mono (msame_of_caches hc)
  exact ⟨by rw [h1, h2]; exact g.sk, fun c hc' => by rw [h1]; exact g.shared c (by rw [← h3]; exact hc'),
    fun hn => by rw [h1]; exact g.unshared (by rw [← h3]; exact hn)⟩

theorem NeverEmpty.congr {w w' : World} (h : NeverEmpty w) (hc : w'.caches = w.caches) : NeverEmpty w' := by
  intro c hm
  have e1 : modeOf w' c = modeOf w c := by unfold modeOf cacheAt; rw [hc]
  have e2 : entsOf w' c = entsOf w c := by unfold entsOf cacheAt; rw [hc]
  rw [e2]; rw [e1] at hm; exact h c hm

theorem SessWF.congr {w w' : World} {ss ss' : Session} (h : SessWF w ss) (hc : w'.caches = w.caches)
    (hf : ∀ fac, w.facs[ss.fac]? = some fac → ∃ fac', w'.facs[ss.fac]? = some fac' ∧ fac'.pol = fac.pol)
    (h1 : ss'.fac = ss.fac) (h2 : ss'.ikCache = ss.ikCache) : SessWF w' ss' := by
  obtain ⟨fac, a, b, c⟩ := h
  obtain ⟨fac', a', hp⟩ := hf fac a
  have hm := msame_of_caches hc
  exact ⟨fac', by rw [h1]; exact a', by rw [h2, hm.1]; exact b, by rw [h2, hm.2, hp]; exact c⟩

theorem getElem?_append_singleton {α : Type} (l : List α) (a : α) (i : Nat) (b : α) (h : (l ++ [a])[i]? = some b) :
    l[i]? = some b ∨ (i = l.length ∧ b = a) := by
  by_cases hlt : i < l.length
  · rw [List.getElem?_append_left hlt] at h; exact Or.inl h
  · by_cases heq : i = l.length
    · subst heq; simp at h; exact Or.inr ⟨rfl, h.symm⟩
    · rw [List.getElem?_eq_none (by simp; omega)] at h; cases h

theorem Wp.addCache_bind {β : Type} {kc : KeyCache} {f : Nat → M β} {w : World} {Q : Except Err β → World → Prop}
    (h : Wp (f w.caches.length) (addCache kc w).2 Q) : Wp (addCache kc >>= f) w Q := by
  apply Wp.bind; exact h

theorem newFactory_wf (p : Policy) (a b c d : Nat) (w : World) (h : WF w) :
    Wp (newFactory p a b c d) w fun _ w' => WF w' := by
  unfold newFactory
  apply Wp.addCache_bind
  have h1 := h.addCache (cacheOf p.cacheSK p.skKind a b) (cacheOf_ents _ _ _ _).1 (cacheOf_ents _ _ _ _).2
  have hm1 : modeOf (addCache (cacheOf p.cacheSK p.skKind a b) w).2 w.caches.length = modeFor p.cacheSK p.skKind := by
    rw [modeOf_addCache, if_pos rfl, cacheOf_mode]
  have hl1 := addCache_len (cacheOf p.cacheSK p.skKind a b) w
  have hf1 : (addCache (cacheOf p.cacheSK p.skKind a b) w).2.facs = w.facs := rfl
  generalize (addCache (cacheOf p.cacheSK p.skKind a b) w).2 = w1 at h1 hm1 hl1 hf1 ⊢
  split
  · rename_i hsh
    apply Wp.addCache_bind
    have h2 := h1.addCache (cacheOf true p.ikKind c d) (cacheOf_ents _ _ _ _).1 (cacheOf_ents _ _ _ _).2
    have hm2 : modeOf (addCache (cacheOf true p.ikKind c d) w1).2 w1.caches.length = modeFor true p.ikKind := by
      rw [modeOf_addCache, if_pos rfl, cacheOf_mode]
    have hm2' : modeOf (addCache (cacheOf true p.ikKind c d) w1).2 w.caches.length = modeFor p.cacheSK p.skKind := by
      rw [modeOf_addCache, if_neg (by omega)]; exact hm1
    have hl2 := addCache_len (cacheOf true p.ikKind c d) w1
    apply Wp.bind; apply Wp.pure; simp only []
    show WF { (addCache (cacheOf true p.ikKind c d) w1).2 with
      facs := (addCache (cacheOf true p.ikKind c d) w1).2.facs ++ [{ pol := p, skCache := w.caches.length, sharedIk := some w1.caches.length }] }
    generalize (addCache (cacheOf true p.ikKind c d) w1).2 = w2 at h2 hm2 hm2' hl2 ⊢
    refine ⟨NeverEmpty.congr h2.never rfl, ?_, ?_⟩
    · intro f fac hf
      rcases getElem?_append_singleton _ _ _ _ hf with hf | ⟨-, rfl⟩
      · exact (h2.facs f fac hf).congr rfl rfl rfl rfl
      · refine ⟨⟨?_, hm2'⟩, ?_, ?_⟩
        · show w.caches.length < w2.caches.length; omega
        · intro c' hc'; cases hc'
          exact ⟨hsh, by show w1.caches.length < w2.caches.length; omega, hm2⟩
        · intro hc'; cases hc'
    · intro s ss hs
      refine SessWF.congr (h2.sess s ss hs) rfl (fun fac a1 => ⟨fac, ?_, rfl⟩) rfl rfl
      obtain ⟨hh, _⟩ := List.getElem?_eq_some_iff.mp a1
      exact (List.getElem?_append_left hh).trans a1
  · rename_i hsh
    apply Wp.bind; apply Wp.pure; simp only []
    show WF { w1 with facs := w1.facs ++ [{ pol := p, skCache := w.caches.length, sharedIk := none }] }
    refine ⟨NeverEmpty.congr h1.never rfl, ?_, ?_⟩
    · intro f fac hf
      rcases getElem?_append_singleton _ _ _ _ hf with hf | ⟨-, rfl⟩
      · exact (h1.facs f fac hf).congr rfl rfl rfl rfl
      · refine ⟨⟨?_, hm1⟩, ?_, ?_⟩
        · show w.caches.length < w1.caches.length; omega
        · intro c' hc'; cases hc'
        · intro _; simpa using hsh
    · intro s ss hs
      refine SessWF.congr (h1.sess s ss hs) rfl (fun fac a1 => ⟨fac, ?_, rfl⟩) rfl rfl
      obtain ⟨hh, _⟩ := List.getElem?_eq_some_iff.mp a1
      exact (List.getElem?_append_left hh).trans a1

theorem getSession_wf (f part c d : Nat) (w : World) (h : WF w) (hf : f < w.facs.length) :
    Wp (getSession f part c d) w fun _ w' => WF w' := by
  unfold getSession
  apply Wp.bind; apply Wp.get; simp only []
  have hfac : w.facs[f]? = some (w.facs.getD f default) := by
    rw [List.getD_eq_getElem?_getD, List.getElem?_eq_getElem hf]; rfl
  have g := h.facs f _ hfac
  generalize w.facs.getD f default = fac at hfac g ⊢
  cases hsh : fac.sharedIk with
  | some c' =>
    simp only []
    apply Wp.bind; apply Wp.pure; simp only []
    obtain ⟨a1, b1, c1⟩ := g.shared c' hsh
    show WF { w with sessions := w.sessions ++ [{ fac := f, part := part, ikCache := c' }] }
    refine ⟨NeverEmpty.congr h.never rfl, fun f' fac' hf' => (h.facs f' fac' hf').congr rfl rfl rfl rfl, ?_⟩
    intro s ss hs
    rcases getElem?_append_singleton _ _ _ _ hs with hs | ⟨-, rfl⟩
    · exact SessWF.congr (h.sess s ss hs) rfl (fun fac hfac => ⟨fac, hfac, rfl⟩) rfl rfl
    · exact ⟨fac, hfac, b1, c1.trans (by rw [a1]; rfl)⟩
  | none =>
    simp only []
    apply Wp.addCache_bind
    have hu := g.unshared hsh
    have h1 := h.addCache (cacheOf fac.pol.cacheIK fac.pol.ikKind c d) (cacheOf_ents _ _ _ _).1 (cacheOf_ents _ _ _ _).2
    have hm1 : modeOf (addCache (cacheOf fac.pol.cacheIK fac.pol.ikKind c d) w).2 w.caches.length
        = modeFor fac.pol.cacheIK fac.pol.ikKind := by
      rw [modeOf_addCache, if_pos rfl, cacheOf_mode]
    have hl1 := addCache_len (cacheOf fac.pol.cacheIK fac.pol.ikKind c d) w
    have hf1 : (addCache (cacheOf fac.pol.cacheIK fac.pol.ikKind c d) w).2.facs = w.facs := rfl
    show WF { (addCache (cacheOf fac.pol.cacheIK fac.pol.ikKind c d) w).2 with
      sessions := (addCache (cacheOf fac.pol.cacheIK fac.pol.ikKind c d) w).2.sessions ++ [{ fac := f, part := part, ikCache := w.caches.length }] }
    generalize (addCache (cacheOf fac.pol.cacheIK fac.pol.ikKind c d) w).2 = w1 at h1 hm1 hl1 hf1 ⊢
    refine ⟨NeverEmpty.congr h1.never rfl, fun f' fac' hf' => (h1.facs f' fac' hf').congr rfl rfl rfl rfl, ?_⟩
    intro s ss hs
    rcases getElem?_append_singleton _ _ _ _ hs with hs | ⟨-, rfl⟩
    · exact SessWF.congr (h1.sess s ss hs) rfl (fun fac hfac => ⟨fac, hfac, rfl⟩) rfl rfl
    · refine ⟨fac, by show w1.facs[f]? = _; rw [hf1]; exact hfac, by show w.caches.length < w1.caches.length; omega, ?_⟩
      exact hm1.trans (by rw [hu]; rfl)

theorem setAt_some {α : Type} {l : List α} {i j : Nat} {f : α → α} {b : α} (h : (setAt l i f)[j]? = some b) :
    ∃ a, l[j]? = some a ∧ (b = a ∨ b = f a) := by
  rw [setAt_getElem?] at h
  split at h
  · cases ha : l[j]? with
    | none => rw [ha] at h; cases h
    | some a => rw [ha] at h; simp only [Option.map_some, Option.some.injEq] at h; exact ⟨a, rfl, Or.inr h.symm⟩
  · exact ⟨b, h, Or.inl rfl⟩

theorem setAt_get {α : Type} {l : List α} {i j : Nat} {f : α → α} {a : α} (h : l[j]? = some a) :
    (setAt l i f)[j]? = some a ∨ (setAt l i f)[j]? = some (f a) := by
  rw [setAt_getElem?]
  split
  · right; rw [h]; rfl
  · left; exact h

theorem closeSession_wf (s : Nat) (w : World) (h : WF w) : Wp (closeSession s) w fun _ w' => WF w' := by
  unfold closeSession
  apply Wp.bind; apply Wp.get; simp only []
  apply Wp.bind; apply Wp.modify; simp only []
  have h1 : WF { w with sessions := setAt w.sessions s fun x => { x with closed := true } } := by
    refine ⟨NeverEmpty.congr h.never rfl, fun f' fac' hf' => (h.facs f' fac' hf').congr rfl rfl rfl rfl, ?_⟩
    intro s' ss hs
    obtain ⟨a, ha, hb⟩ := setAt_some hs
    rcases hb with rfl | rfl
    · exact SessWF.congr (h.sess s' _ ha) rfl (fun fac hfac => ⟨fac, hfac, rfl⟩) rfl rfl
    · exact SessWF.congr (h.sess s' a ha) rfl (fun fac hfac => ⟨fac, hfac, rfl⟩) rfl rfl
  split
  · exact h1
  · exact h1.nr (cacheClose_nr _ _) (cacheClose_ext _ _).facs (cacheClose_ext _ _).sessions

theorem closeFactory_wf (f : Nat) (w : World) (h : WF w) : Wp (closeFactory f) w fun _ w' => WF w' := by
  unfold closeFactory
  apply Wp.bind; apply Wp.get; simp only []
  apply Wp.bind; apply Wp.modify; simp only []
  have h1 : WF { w with facs := setAt w.facs f fun x => { x with closed := true } } := by
    refine ⟨NeverEmpty.congr h.never rfl, ?_, ?_⟩
    · intro f' fac hf
      obtain ⟨a, ha, hb⟩ := setAt_some hf
      have g := h.facs f' a ha
      rcases hb with rfl | rfl
      · exact g.congr rfl rfl rfl rfl
      · exact g.congr rfl rfl rfl rfl
    · intro s ss hs
      refine SessWF.congr (h.sess s ss hs) rfl (fun fac a1 => ?_) rfl rfl
      rcases setAt_get (i := f) (f := fun x : Factory => { x with closed := true }) a1 with h' | h'
      · exact ⟨fac, h', rfl⟩
      · exact ⟨_, h', rfl⟩
  have close1 : ∀ c w1, WF w1 → WF (cacheClose c w1).2 := fun c w1 hw =>
    hw.nr (cacheClose_nr _ _) (cacheClose_ext _ _).facs (cacheClose_ext _ _).sessions
  cases (w.facs.getD f default).sharedIk with
  | none =>
    simp only []
    first
      | exact close1 _ _ h1
      | (apply Wp.bind; apply Wp.pure; simp only []; exact close1 _ _ h1)
  | some c =>
    simp only []
    refine Wp.bind_world (fun e => close1 _ _ h1) (fun _ => ?_)
    exact close1 _ _ (close1 _ _ h1)

theorem WF.same {w w' : World} (h : WF w) (hc : w'.caches = w.caches) (hf : w'.facs = w.facs)
    (hs : w'.sessions = w.sessions) : WF w' :=
  ⟨NeverEmpty.congr h.never hc, fun f fac hfac => (h.facs f fac (hf ▸ hfac)).congr hc rfl rfl rfl,
   fun s ss hss => (h.sess s ss (hs ▸ hss)).congr hc (fun fac a => ⟨fac, hf ▸ a, rfl⟩) rfl rfl⟩

theorem WF.beginOp {w : World} (h : WF w) (fl : List Fault) : WF (beginOp fl w).2 := h.same rfl rfl rfl

/-- every allowed operation keeps the wiring invariant. -/
theorem WF.step {w : World} (h : WF w) (op : Op) (ha : allowed w op = true) : WF (applyOp w op).2 := by
  rw [applyOp_world]
  cases op with
  | newFactory p a b c d => exact newFactory_wf p a b c d w h
  | getSession f part c d =>
    simp only [allowed, decide_eq_true_eq] at ha
    exact getSession_wf f part c d w h ha
  | encrypt s pay fl => exact h.nr (encrypt_nr s pay fl true w) (encrypt_ext s pay fl true w).facs (encrypt_ext s pay fl true w).sessions
  | decrypt s d fl => exact h.nr (decrypt_nr s d fl true w) (decrypt_ext s d fl true w).facs (decrypt_ext s d fl true w).sessions
  | closeSession s => exact closeSession_wf s _ (h.beginOp [])
  | closeFactory f => exact closeFactory_wf f _ (h.beginOp [])
  | advance d => exact h.same rfl rfl rfl
  | revoke m => exact h.same rfl rfl rfl
  | corruptRow m dp => simp [allowed] at ha

theorem Reach.wf {w : World} (h : Reach w) : WF w := by
  refine Reach.induction ?_ (fun w op _ hi ha => hi.step op ha) h
  intro t
  refine ⟨?_, ?_, ?_⟩
  · intro c _; rfl
  · intro f fac hf; simp [World.init] at hf
  · intro s ss hs; simp [World.init] at hs

/-- a successful decrypt on a map-backed cache leaves an entry for the record's intermediate key. -/
theorem decrypt_entry {ρ : RevCtx} {w : World} (hi : Inv ρ w) (s : Nat) (d : Drr) (b : Bool) :
    Wp (decrypt s d [] b) w fun r w' => ∀ pl, r = .ok pl → ∃ dk p, d.key = some dk ∧ dk.parent = some p ∧
      (modeOf w (sessionCtx w s).ikCache = .simple → (sessionCtx w s).ikCache < w.caches.length →
        ∃ e, readEntry w' (sessionCtx w s).ikCache p = some e) := by
  unfold decrypt
  refine Wp.bind_unit rfl ?_
  apply Wp.bind; apply Wp.get; simp only []
  have hx : sessionCtx (beginOp [] w).2 s = sessionCtx w s := rfl
  rw [hx]
  have h0 := St.beginOp hi
  generalize sessionCtx w s = x at *
  unfold decryptDataRowRecord
  cases hkey : d.key with
  | none => exact fun pl hpl => by cases hpl
  | some dk =>
    simp only []
    cases hpar : dk.parent with
    | none => exact fun pl hpl => by cases hpl
    | some p =>
      simp only []
      split
      · exact fun pl hpl => by cases hpl
      · apply Wp.bind
        apply Wp.mono (getOrLoad_wp (LP := fun _ _ _ => True) (fun _ _ _ _ h _ => h) x.ikCache p
          (loadIntermediateKey_ok x p b) x.pol.revokeInterval (beginOp [] w).2 h0)
        intro r w1 ⟨h1, hms1, hk1⟩
        cases r with
        | error e => exact fun pl hpl => by cases hpl
        | ok ik =>
          simp only []
          apply Wp.finallyDo
          have hq1 : QES w1 (decryptRow ik dk d.data w1).2 :=
            ⟨decryptRow_ext ik dk d.data w1, decryptRow_q0 ik dk d.data w1, decryptRow_ss ik dk d.data w1⟩
          have hq2 : QES (decryptRow ik dk d.data w1).2 (keyRelease ik (decryptRow ik dk d.data w1).2).2 :=
            ⟨keyRelease_ext _ _, keyRelease_q0 _ _, keyRelease_ss _ _⟩
          have hq := RT.trans hq1 hq2
          intro pl _
          refine ⟨dk, p, rfl, hpar, fun hm hl => ?_⟩
          obtain ⟨e, he, -⟩ := (hk1 ik rfl).2 hm hl
          refine ⟨e, ?_⟩
          show readEntry (keyRelease ik (decryptRow ik dk d.data w1).2).2 x.ikCache p = _
          unfold readEntry readMeta
          rw [(hq.views _).1, (hq.views _).2]
          exact he

end AsherahVerif.Env
