import AsherahVerif.Proofs.EnvCohStill
/-
Specification calculus for the coherence proofs.

`CSpec a F P x G` — run `x` from a world that satisfies `Inv`, the stable precondition `P` and (in
fault-free mode `F`) has an empty fault schedule.  Then
* the world only `Ext`ends, and
* either a destroyed secret was touched (`Bust a`: the access-after-close counter exceeds `a`,
  the value it had at most at the start), or `Inv` still holds, the fault schedule is still empty
  (mode `F`), every successful result `v` satisfies `G v`, and in mode `F` the result IS a success.

`F := False` gives the safety reading (any faults), `F := True` the progress reading (no faults).
-/
set_option linter.unusedVariables false
namespace AsherahVerif.Env

def Bust (a : Nat) (w : World) : Prop := a < accessesAfterClose w

theorem Bust.ext {a : Nat} {w w' : World} (h : Ext w w') (hb : Bust a w) : Bust a w' :=
  Nat.lt_of_lt_of_le hb (aac_mono h)

structure Stable (P : World → Prop) : Prop where
  st : ∀ w w', Ext w w' → P w → P w'

theorem Stable.const (c : Prop) : Stable (fun _ => c) := ⟨fun _ _ _ h => h⟩
theorem Stable.and {P Q : World → Prop} (hp : Stable P) (hq : Stable Q) : Stable (fun w => P w ∧ Q w) :=
  ⟨fun w w' he h => ⟨hp.st w w' he h.1, hq.st w w' he h.2⟩⟩
theorem Stable.or {P Q : World → Prop} (hp : Stable P) (hq : Stable Q) : Stable (fun w => P w ∨ Q w) :=
  ⟨fun w w' he h => h.elim (fun h => Or.inl (hp.st w w' he h)) (fun h => Or.inr (hq.st w w' he h))⟩
theorem Stable.imp {c : Prop} {Q : World → Prop} (hq : Stable Q) : Stable (fun w => c → Q w) :=
  ⟨fun w w' he h hc => hq.st w w' he (h hc)⟩
theorem Stable.exists {ι : Sort _} {P : ι → World → Prop} (hp : ∀ i, Stable (P i)) : Stable (fun w => ∃ i, P i w) :=
  ⟨fun w w' he ⟨i, h⟩ => ⟨i, (hp i).st w w' he h⟩⟩
theorem Stable.forall {ι : Sort _} {P : ι → World → Prop} (hp : ∀ i, Stable (P i)) : Stable (fun w => ∀ i, P i w) :=
  ⟨fun w w' he h i => (hp i).st w w' he (h i)⟩
theorem Stable.goodKeyAt (m : KeyMeta) (o : Nat) : Stable (fun w => GoodKeyAt w m o) :=
  ⟨fun w w' he h => h.ext he⟩
theorem Stable.wraps (m : KeyMeta) (mat : Nat) : Stable (fun w => Wraps w.store m mat) :=
  ⟨fun w w' he h => h.mono he.store⟩
theorem Stable.mem_store (r : Row) : Stable (fun w => r ∈ w.store) := ⟨fun w w' he h => he.store r h⟩
theorem Stable.cacheGood (kc : KeyCache) : Stable (fun w => CacheGood w kc) := ⟨fun w w' he h => h.ext he⟩
theorem Stable.now (f : Int → Prop) : Stable (fun w => f w.now) := ⟨fun w w' he h => he.now ▸ h⟩
theorem Stable.facs (f : List Factory → Prop) : Stable (fun w => f w.facs) := ⟨fun w w' he h => he.facs ▸ h⟩
theorem Stable.sessions (f : List Session → Prop) : Stable (fun w => f w.sessions) :=
  ⟨fun w w' he h => he.sessions ▸ h⟩

/-- key object `o` exists with this creation stamp and material (both immutable). -/
def KeyIs (w : World) (o : Nat) (c : Int) (m : Nat) : Prop :=
  ∃ ko, w.keys[o]? = some ko ∧ ko.created = c ∧ ko.mat = m

theorem KeyIs.ext {w w' : World} (h : Ext w w') {o : Nat} {c : Int} {m : Nat} (hk : KeyIs w o c m) : KeyIs w' o c m := by
  obtain ⟨ko, h1, h2, h3⟩ := hk
  obtain ⟨k', h1', h2', h3', _, _⟩ := h.keys o ko h1
  exact ⟨k', h1', h2'.trans h2, h3'.trans h3⟩

theorem Stable.keyIs (o : Nat) (c : Int) (m : Nat) : Stable (fun w => KeyIs w o c m) := ⟨fun _ _ he h => h.ext he⟩

/-- key object `k` is the stored key of `m`'s id — exactly `m` unless `m` is the "latest" meta. -/
def GoodFor (m : KeyMeta) (k : Nat) (w : World) : Prop :=
  ∃ m0 : KeyMeta, m0.kid = m.kid ∧ (m.created ≠ 0 → m0 = m) ∧ GoodKeyAt w m0 k

theorem Stable.goodFor (m : KeyMeta) (k : Nat) : Stable (fun w => GoodFor m k w) :=
  ⟨fun w w' he ⟨m0, h1, h2, h3⟩ => ⟨m0, h1, h2, h3.ext he⟩⟩

theorem Stable.goodFor' (m : KeyMeta) (k : Nat) : Stable (GoodFor m k) := Stable.goodFor m k

/-- the creation stamp a key generated now would get is not the "latest" marker 0. -/
def TimeOK (x : Ctx) (w : World) : Prop := keyTimestamp w.now x.pol.precision ≠ 0

theorem Stable.timeOK (x : Ctx) : Stable (TimeOK x) := ⟨fun w w' he h => by unfold TimeOK at *; rw [he.now]; exact h⟩
theorem Stable.timeOK' (x : Ctx) : Stable (fun w => TimeOK x w) := Stable.timeOK x

macro "stable_atom" : tactic => `(tactic| first
  | with_reducible exact Stable.const _
  | with_reducible exact Stable.goodKeyAt _ _ | with_reducible exact Stable.wraps _ _
  | with_reducible exact Stable.mem_store _ | with_reducible exact Stable.cacheGood _
  | with_reducible exact Stable.keyIs _ _ _ | with_reducible exact Stable.goodFor _ _ | with_reducible exact Stable.goodFor' _ _
  | with_reducible exact Stable.timeOK _ | with_reducible exact Stable.timeOK' _
  | with_reducible assumption)

macro "stable_struct" : tactic => `(tactic| first
  | with_reducible apply Stable.and | with_reducible apply Stable.or | with_reducible apply Stable.imp
  | with_reducible apply Stable.exists | with_reducible apply Stable.forall
  | (with_reducible intro _))

macro "stable_auto" : tactic => `(tactic| repeat (any_goals (first | stable_atom | stable_struct)))

/-- what holds after a non-busted run. -/
def Post {α : Type} (F : Prop) (G : α → World → Prop) (r : Except Err α) (w : World) : Prop :=
  Inv w ∧ (F → w.faults = []) ∧ (∀ v, r = .ok v → G v w) ∧ (F → ∃ v, r = .ok v)

structure CSpec {α : Type} (a : Nat) (F : Prop) (P : World → Prop) (x : M α) (G : α → World → Prop) : Prop where
  ext : Extends x
  post : ∀ w, (F → a ≤ accessesAfterClose w) → Inv w → (F → w.faults = []) → P w →
    Bust a (x w).2 ∨ Post F G (x w).1 (x w).2

theorem CSpec.pure {α : Type} {a : Nat} {F : Prop} {P : World → Prop} {G : α → World → Prop} (v : α)
    (h : ∀ w, Inv w → P w → G v w) : CSpec a F P (pure v : M α) G :=
  ⟨Extends.pure v, fun w _ hi hf hp => Or.inr ⟨hi, hf, fun v' hv => (by cases hv; exact h w hi hp), fun _ => ⟨v, rfl⟩⟩⟩

theorem CSpec.throw {α : Type} {a : Nat} {F : Prop} {P : World → Prop} {G : α → World → Prop} (e : Err)
    (h : ∀ w, Inv w → P w → ¬ F) : CSpec a F P (throw e : M α) G :=
  ⟨Extends.throw e, fun w _ hi hf hp => Or.inr ⟨hi, hf, fun v' hv => (by cases hv), fun hF => absurd hF (h w hi hp)⟩⟩

theorem CSpec.weaken {α : Type} {a : Nat} {F : Prop} {P P' : World → Prop} {x : M α} {G G' : α → World → Prop}
    (h : CSpec a F P x G) (hp : ∀ w, Inv w → P' w → P w) (hg : ∀ v w, Inv w → G v w → G' v w) : CSpec a F P' x G' :=
  ⟨h.ext, fun w ha hi hf hp' => (h.post w ha hi hf (hp w hi hp')).imp id
    fun ⟨i, f, g, s⟩ => ⟨i, f, fun v hv => hg v _ i (g v hv), s⟩⟩

theorem CSpec.pre {α : Type} {a : Nat} {F : Prop} {P P' : World → Prop} {x : M α} {G : α → World → Prop}
    (hp : ∀ w, Inv w → P' w → P w) (h : CSpec a F P x G) : CSpec a F P' x G :=
  h.weaken hp fun _ _ _ h => h

theorem CSpec.bind {α β : Type} {a : Nat} {F : Prop} {P : World → Prop} {x : M α} {f : α → M β}
    {G1 : α → World → Prop} {G2 : β → World → Prop}
    (hx : CSpec a F P x G1) (hf : ∀ v, CSpec a F (G1 v) (f v) G2) : CSpec a F P (x >>= f) G2 := by
  refine ⟨Extends.bind hx.ext fun v => (hf v).ext, ?_⟩
  intro w ha hi hnf hp
  have h1 := hx.post w ha hi hnf hp
  have e1 := hx.ext w
  simp only [bind_run]
  cases hr : x w with
  | mk r w1 =>
    rw [hr] at h1 e1
    cases r with
    | error e =>
      rcases h1 with hb | ⟨i, f', g, s⟩
      · exact Or.inl hb
      · exact Or.inr ⟨i, f', fun v hv => (by cases hv), fun hF => (by obtain ⟨v, hv⟩ := s hF; cases hv)⟩
    | ok v =>
      rcases h1 with hb | ⟨i, f', g, s⟩
      · exact Or.inl (hb.ext ((hf v).ext w1))
      · exact (hf v).post w1 (fun hF => Nat.le_trans (ha hF) (aac_mono e1)) i f' (g v rfl)

/-- sequencing that keeps the (stable) precondition for the continuation. -/
theorem CSpec.bind_frame {α β : Type} {a : Nat} {F : Prop} {P P' : World → Prop} {x : M α} {f : α → M β}
    {G1 : α → World → Prop} {G2 : β → World → Prop}
    (hx : CSpec a F P' x G1) (hpre : ∀ w, Inv w → P w → P' w) (hS : Stable P)
    (hf : ∀ v, CSpec a F (fun w => P w ∧ G1 v w) (f v) G2) : CSpec a F P (x >>= f) G2 := by
  have hx' : CSpec a F P x (fun v w => P w ∧ G1 v w) := by
    refine ⟨hx.ext, fun w ha hi hnf hp => ?_⟩
    have e1 := hx.ext w
    exact (hx.post w ha hi hnf (hpre w hi hp)).imp id
      fun ⟨i, f', g, s⟩ => ⟨i, f', fun v hv => ⟨hS.st w _ e1 hp, g v hv⟩, s⟩
  exact hx'.bind hf

/-- `tryM` turns the outcome into a value. -/
theorem CSpec.tryM {α : Type} {a : Nat} {F : Prop} {P : World → Prop} {x : M α} {G : α → World → Prop}
    (hx : CSpec a F P x G) :
    CSpec a F P (Env.tryM x) (fun r w => (∀ v, r = .ok v → G v w) ∧ (F → ∃ v, r = .ok v)) := by
  refine ⟨Extends.tryM hx.ext, fun w ha hi hnf hp => ?_⟩
  simp only [tryM_run]
  exact (hx.post w ha hi hnf hp).imp id
    fun ⟨i, f', g, s⟩ => ⟨i, f', fun r hr => (by cases hr; exact ⟨g, s⟩), fun _ => ⟨_, rfl⟩⟩

/-- Go `defer`: the deferred call must keep the invariant; the (stable) result facts survive it. -/
theorem CSpec.finallyDo {α : Type} {a : Nat} {F : Prop} {P : World → Prop} {x : M α} {fin : M Unit}
    {G : α → World → Prop}
    (hx : CSpec a F P x G) (hS : ∀ v, Stable (G v))
    (hfin : CSpec a F (fun _ => True) fin (fun _ _ => True)) : CSpec a F P (finallyDo x fin) G := by
  refine ⟨Extends.finallyDo hx.ext hfin.ext, fun w ha hi hnf hp => ?_⟩
  simp only [finallyDo_run]
  have e1 := hx.ext w
  have e2 := hfin.ext (x w).2
  rcases hx.post w ha hi hnf hp with hb | ⟨i, f', g, s⟩
  · exact Or.inl (hb.ext e2)
  · rcases hfin.post (x w).2 (fun hF => Nat.le_trans (ha hF) (aac_mono e1)) i f' trivial with hb | ⟨i2, f2, _, _⟩
    · exact Or.inl hb
    · exact Or.inr ⟨i2, f2, fun v hv => (hS v).st _ _ e2 (g v hv), s⟩

/-- a computation that touches neither store nor caches: only its result needs an argument. -/
theorem CSpec.of_still {α : Type} {a : Nat} {F : Prop} {P : World → Prop} {x : M α} {G : α → World → Prop}
    (he : Extends x) (hs : Stills x)
    (hr : ∀ w, (F → a ≤ accessesAfterClose w) → Inv w → (F → w.faults = []) → P w →
      Bust a (x w).2 ∨ ((∀ v, (x w).1 = .ok v → G v (x w).2) ∧ (F → ∃ v, (x w).1 = .ok v))) :
    CSpec a F P x G :=
  ⟨he, fun w ha hi hnf hp => (hr w ha hi hnf hp).imp id fun ⟨g, s⟩ =>
    ⟨hi.still (he w) (hs.st w), fun hF => (hs.st w).nf (hnf hF), g, s⟩⟩

/-- a still computation that always succeeds, with nothing to say about its result. -/
theorem CSpec.of_still_ok {α : Type} {a : Nat} {F : Prop} {P : World → Prop} {x : M α}
    (he : Extends x) (hs : Stills x) (hok : ∀ w, ∃ v, (x w).1 = .ok v) :
    CSpec a F P x (fun _ _ => True) :=
  CSpec.of_still he hs fun w _ _ _ _ => Or.inr ⟨fun _ _ => trivial, fun _ => hok w⟩

theorem CSpec.get {a : Nat} {F : Prop} {P : World → Prop} :
    CSpec a F P get (fun v w => v.now = w.now ∧ v.facs = w.facs ∧ v.sessions = w.sessions) :=
  CSpec.of_still Extends.get Stills.get fun w _ _ _ _ => Or.inr ⟨fun v hv => (by cases hv; exact ⟨rfl, rfl, rfl⟩), fun _ => ⟨w, rfl⟩⟩

/-- use a lemma about `x` as the last step, keeping the stable precondition for the result. -/
theorem CSpec.frame {α : Type} {a : Nat} {F : Prop} {P P' : World → Prop} {x : M α} {G1 G : α → World → Prop}
    (hx : CSpec a F P' x G1) (hpre : ∀ w, Inv w → P w → P' w) (hS : Stable P)
    (hg : ∀ v w, Inv w → P w → G1 v w → G v w) : CSpec a F P x G := by
  refine ⟨hx.ext, fun w ha hi hnf hp => ?_⟩
  have e1 := hx.ext w
  exact (hx.post w ha hi hnf (hpre w hi hp)).imp id
    fun ⟨i, f', g, s⟩ => ⟨i, f', fun v hv => hg v _ i (hS.st w _ e1 hp) (g v hv), s⟩

theorem CSpec.ite {α : Type} {a : Nat} {F : Prop} {P : World → Prop} {x y : M α} {G : α → World → Prop}
    {c : Prop} [Decidable c] (hx : c → CSpec a F P x G) (hy : ¬ c → CSpec a F P y G) :
    CSpec a F P (if c then x else y) G := by
  split
  · exact hx ‹_›
  · exact hy ‹_›

/-- extract a world-independent consequence of the precondition. -/
theorem CSpec.of_pre {α : Type} {a : Nat} {F : Prop} {P : World → Prop} {x : M α} {G : α → World → Prop}
    {C : Prop} (he : Extends x) (hc : ∀ w, Inv w → P w → C) (h : C → CSpec a F P x G) : CSpec a F P x G :=
  ⟨he, fun w ha hi hnf hp => (h (hc w hi hp)).post w ha hi hnf hp⟩

theorem CSpec.exists_pre {α : Type} {ι : Sort _} {a : Nat} {F : Prop} {P : ι → World → Prop} {x : M α}
    {G : α → World → Prop} (he : Extends x) (h : ∀ i, CSpec a F (P i) x G) : CSpec a F (fun w => ∃ i, P i w) x G :=
  ⟨he, fun w ha hi hnf ⟨i, hp⟩ => (h i).post w ha hi hnf hp⟩

/-- in fault-free mode an impossible branch; in safety mode nothing to show beyond `Ext`. -/
theorem CSpec.of_mode {α : Type} {a : Nat} {F : Prop} {P : World → Prop} {x : M α} {G : α → World → Prop}
    (he : Extends x) (h : F → CSpec a F P x G) (h' : ¬ F → CSpec a F P x G) : CSpec a F P x G :=
  ⟨he, fun w ha hi hnf hp => (Classical.em F).elim (fun hF => (h hF).post w ha hi hnf hp)
    (fun hF => (h' hF).post w ha hi hnf hp)⟩

end AsherahVerif.Env
