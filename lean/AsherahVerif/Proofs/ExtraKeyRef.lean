import AsherahVerif.Proofs.KeyRef
/-
C08 (strengthening): the EXACT counting invariant of the key-cache reference protocol.
`refs o = cnt s o` (equality), `destroyed o ↔ refs o ≤ 0`, cache keys unique.
-/
namespace AsherahVerif.KeyRef

def keysOf (c : List (Nat × Nat)) : List Nat := c.map (·.1)

theorem erase_keys_nodup (c : List (Nat × Nat)) (k : Nat) (h : (keysOf c).Nodup) : (keysOf (erase c k)).Nodup := by
  unfold keysOf erase
  exact List.Nodup.sublist (List.Sublist.map _ List.filter_sublist) h

theorem erase_not_mem (c : List (Nat × Nat)) (k : Nat) : k ∉ keysOf (erase c k) := by
  unfold keysOf erase
  intro h
  rw [List.mem_map] at h
  obtain ⟨p, hp, hk⟩ := h
  rw [List.mem_filter] at hp
  have := hp.2
  simp [hk] at this

theorem erase_mem_keys {c : List (Nat × Nat)} {k x : Nat} (h : x ∈ keysOf (erase c k)) : x ∈ keysOf c := by
  unfold keysOf erase at *
  exact (List.Sublist.map _ List.filter_sublist).subset h

theorem erase_of_not_mem (c : List (Nat × Nat)) (k : Nat) (h : k ∉ keysOf c) : erase c k = c := by
  unfold keysOf at h
  unfold erase
  rw [List.filter_eq_self]
  intro p hp
  have : p.1 ≠ k := fun e => h (List.mem_map.mpr ⟨p, hp, e⟩)
  simpa using this

theorem lookup_none_not_mem {c : List (Nat × Nat)} {k : Nat} (h : lookup c k = none) : k ∉ keysOf c := by
  unfold lookup keysOf at *
  induction c with
  | nil => simp
  | cons a t ih =>
    simp only [List.find?_cons] at h
    by_cases hak : a.1 = k
    · have hb : (a.1 == k) = true := by simpa using hak
      simp [hb] at h
    · have hb : (a.1 == k) = false := by simpa using hak
      simp only [hb] at h
      have := ih h
      simp only [List.map_cons, List.mem_cons, not_or]
      exact ⟨fun e => hak e.symm, this⟩

/-- with unique keys, erasing a present key removes EXACTLY one entry. -/
theorem inCache_erase_exact {c : List (Nat × Nat)} {k o : Nat} (hn : (keysOf c).Nodup)
    (h : lookup c k = some o) (x : Nat) :
    inCache (erase c k) x + (if x = o then 1 else 0) = inCache c x := by
  induction c with
  | nil => simp [lookup] at h
  | cons a t ih =>
    have hnt : (keysOf t).Nodup := by
      unfold keysOf at *; simp only [List.map_cons, List.nodup_cons] at hn; exact hn.2
    have hat : a.1 ∉ keysOf t := by
      unfold keysOf at *; simp only [List.map_cons, List.nodup_cons] at hn; exact hn.1
    by_cases hak : a.1 = k
    · have hb : (a.1 == k) = true := by simpa using hak
      have ho : a.2 = o := by
        unfold lookup at h
        simp only [List.find?_cons, hb, Option.map_some] at h
        injection h
      have he : erase (a :: t) k = t := by
        have hne : (a.1 != k) = false := by simp [hak]
        have : erase (a :: t) k = erase t k := by
          unfold erase; simp only [List.filter_cons, hne, Bool.false_eq_true, if_false]
        rw [this]; exact erase_of_not_mem t k (hak ▸ hat)
      rw [he]
      unfold inCache
      simp only [List.map_cons, List.count_cons, ho, beq_iff_eq]
      by_cases hx : x = o
      · subst hx; simp
      · have : ¬ (o = x) := fun e => hx e.symm
        simp [hx, this]
    · have hb : (a.1 == k) = false := by simpa using hak
      have hl : lookup t k = some o := by
        unfold lookup at h ⊢
        simpa only [List.find?_cons, hb] using h
      have hne : (a.1 != k) = true := by simp [hak]
      have he : erase (a :: t) k = a :: erase t k := by
        unfold erase; simp only [List.filter_cons, hne, if_true]
      rw [he]
      have := ih hnt hl
      unfold inCache at this ⊢
      simp only [List.map_cons, List.count_cons]
      omega

theorem inCache_erase_none {c : List (Nat × Nat)} {k : Nat} (h : lookup c k = none) : erase c k = c :=
  erase_of_not_mem c k (lookup_none_not_mem h)

theorem keys_append_nodup (c : List (Nat × Nat)) (k o : Nat) (hn : (keysOf c).Nodup) (hk : k ∉ keysOf c) :
    (keysOf (c ++ [(k, o)])).Nodup := by
  unfold keysOf at *
  simp only [List.map_append, List.map_cons, List.map_nil]
  rw [List.nodup_append]
  refine ⟨hn, by simp, ?_⟩
  intro a ha b hb
  simp only [List.mem_singleton] at hb
  subst hb
  intro e; subst e; exact hk ha

/-- the exact invariant. -/
structure InvEq (s : St) : Prop where
  looked : s.looked = []
  keys : (keysOf s.cache).Nodup
  count : ∀ o, (objAt s.objs o).refs = (cnt s o : Int)
  range : ∀ o, 0 < cnt s o → o < s.objs.length
  dead : ∀ o, o < s.objs.length → ((objAt s.objs o).destroyed = true ↔ (objAt s.objs o).refs ≤ 0)
  ok : s.failed = false

theorem invEq_init : InvEq init := by
  refine ⟨rfl, ?_, ?_, ?_, ?_, rfl⟩
  · simp [keysOf, init]
  · intro o; simp [cnt, inCache, init, objAt]; rfl
  · intro o h; simp [cnt, inCache, init] at h
  · intro o h; simp [init] at h

theorem incrO_destroyed (objs : List Obj) (o x : Nat) :
    (objAt (incrO objs o) x).destroyed = (objAt objs x).destroyed := by
  rw [incrO_getD]
  by_cases hc : x = o ∧ x < objs.length
  · rw [if_pos hc]
  · rw [if_neg hc]

theorem decr_destroyed (objs : List Obj) (o x : Nat) (ho : o < objs.length) :
    (objAt (decr objs o) x).destroyed =
      if x = o then ((objAt objs x).destroyed || decide ((objAt objs x).refs - 1 ≤ 0)) else (objAt objs x).destroyed := by
  rw [decr_getD]
  by_cases hx : x = o
  · subst hx
    rw [if_pos ⟨rfl, ho⟩, if_pos rfl]
  · have hc : ¬ (x = o ∧ x < objs.length) := fun h => hx h.1
    rw [if_neg hc, if_neg hx]

theorem eq_acquire (s : St) (o : Nat) (h : InvEq s) (hpos : 0 < cnt s o) :
    InvEq { s with objs := incrO s.objs o, holders := o :: s.holders } := by
  have hr := h.range o hpos
  refine ⟨h.looked, h.keys, ?_, ?_, ?_, h.ok⟩
  · intro x
    have hc := h.count x
    have ⟨hrf, _⟩ := incrO_refs s.objs o x hr
    simp only [cnt, List.count_cons] at hc ⊢
    rw [hrf]
    by_cases hx : x = o
    · subst hx; simp; omega
    · have : ¬ (o = x) := fun e => hx e.symm
      simp [hx, this]; omega
  · intro x hx
    rw [incrO_length]
    by_cases hxo : x = o
    · subst hxo; exact hr
    · apply h.range
      simp only [cnt, List.count_cons] at hx ⊢
      have : ¬ (o = x) := fun e => hxo e.symm
      simp [this] at hx; exact hx
  · intro x hx
    rw [incrO_length] at hx
    have ⟨hrf, _⟩ := incrO_refs s.objs o x hr
    rw [incrO_destroyed, hrf]
    have hd := h.dead x hx
    by_cases hxo : x = o
    · have hc := h.count x
      rw [hxo] at hc hd ⊢
      rw [if_pos rfl]
      constructor
      · intro hdd; have := hd.mp hdd; omega
      · intro hle; omega
    · rw [if_neg hxo]; simpa using hd

theorem eq_drop (s : St) (o : Nat) (cache' : List (Nat × Nat)) (pending' holders' : List Nat) (h : InvEq s)
    (hpos : 0 < cnt s o) (hk : (keysOf cache').Nodup)
    (heq : ∀ x, inCache cache' x + pending'.count x + holders'.count x + (if x = o then 1 else 0) = cnt s x) :
    InvEq { s with objs := decr s.objs o, cache := cache', pending := pending', holders := holders' } := by
  have hr := h.range o hpos
  refine ⟨h.looked, hk, ?_, ?_, ?_, h.ok⟩
  · intro x
    have hc := h.count x
    have ⟨hrf, _⟩ := decr_refs s.objs o x hr
    have hl := heq x
    simp only [cnt] at hc hl ⊢
    rw [hrf]
    by_cases hx : x = o
    · subst hx; simp only [if_true] at hl ⊢; omega
    · simp only [hx, if_false] at hl ⊢; omega
  · intro x hx
    rw [decr_length]
    apply h.range
    have hl := heq x
    simp only [cnt] at hx hl ⊢
    omega
  · intro x hx
    rw [decr_length] at hx
    have ⟨hrf, _⟩ := decr_refs s.objs o x hr
    rw [decr_destroyed _ _ _ hr, hrf]
    have hd := h.dead x hx
    by_cases hxo : x = o
    · have hc := h.count x
      rw [hxo] at hc hd ⊢
      rw [if_pos rfl, if_pos rfl]
      simp only [Bool.or_eq_true, decide_eq_true_eq]
      constructor
      · intro hdd
        rcases hdd with hdd | hdd
        · have := hd.mp hdd; omega
        · exact hdd
      · intro hle; exact Or.inr hle
    · rw [if_neg hxo, if_neg hxo]; simpa using hd

theorem eq_recount (s : St) (cache' : List (Nat × Nat)) (pending' holders' : List Nat) (h : InvEq s)
    (hk : (keysOf cache').Nodup)
    (heq : ∀ x, inCache cache' x + pending'.count x + holders'.count x = cnt s x) :
    InvEq { s with cache := cache', pending := pending', holders := holders' } := by
  refine ⟨h.looked, hk, ?_, ?_, h.dead, h.ok⟩
  · intro x
    have hc := h.count x
    have hl := heq x
    simp only [cnt] at hc hl ⊢
    omega
  · intro x hx
    apply h.range
    have hl := heq x
    simp only [cnt] at hx hl ⊢
    omega

theorem eq_new (s : St) (key : Nat) (h : InvEq s) (hkey : key ∉ keysOf s.cache) :
    InvEq { s with cache := s.cache ++ [(key, s.objs.length)], objs := s.objs ++ [{ refs := 2, destroyed := false }],
                   holders := s.objs.length :: s.holders } := by
  have hzero : cnt s s.objs.length = 0 := by
    apply Classical.byContradiction; intro hne
    have := h.range s.objs.length (by omega)
    omega
  refine ⟨h.looked, keys_append_nodup _ _ _ h.keys hkey, ?_, ?_, ?_, h.ok⟩
  · intro x
    simp only [cnt, inCache_append, List.count_cons]
    by_cases hx : x = s.objs.length
    · rw [hx, append_getD_eq]
      simp only [cnt] at hzero
      simp; omega
    · have hne : ¬ (s.objs.length = x) := fun e => hx e.symm
      have hc := h.count x
      simp only [cnt] at hc
      by_cases hlt : x < s.objs.length
      · rw [append_getD_lt _ _ _ hlt]; simp [hne]; omega
      · have hr : ¬ (0 < cnt s x) := fun hp => hlt (h.range x hp)
        simp only [cnt] at hr
        have hne' : (s.objs.length == x) = false := by simpa using hne
        rw [objAt_ge _ _ (by simp; omega), default_obj]
        simp only [hne, hne', if_false, Bool.false_eq_true]
        simp; omega
  · intro x hx
    simp only [List.length_append, List.length_cons, List.length_nil]
    by_cases hxl : x = s.objs.length
    · omega
    · have hne : ¬ (s.objs.length = x) := fun e => hxl e.symm
      have : 0 < cnt s x := by
        simp only [cnt, inCache_append, List.count_cons, hne, if_false] at hx ⊢
        simp only [beq_iff_eq, hne, if_false] at hx
        omega
      have := h.range x this; omega
  · intro x hx
    simp only [List.length_append, List.length_cons, List.length_nil] at hx
    by_cases hlt : x < s.objs.length
    · rw [append_getD_lt _ _ _ hlt]; exact h.dead x hlt
    · have hx2 : x = s.objs.length := by omega
      rw [hx2, append_getD_eq]; simp

/-- the eviction that may precede an insert preserves the exact invariant. -/
theorem evict_invEq (s : St) (key : Nat) (victim : Option Nat) (async : Bool)
    (c1 : List (Nat × Nat)) (o1 : List Obj) (p1 : List Nat) (h : InvEq s)
    (he : evictVictim Facts.good s key victim async = some (c1, o1, p1)) :
    InvEq { s with cache := c1, objs := o1, pending := p1 } := by
  unfold evictVictim at he
  cases victim with
  | none => simp at he; obtain ⟨rfl, rfl, rfl⟩ := he; exact h
  | some vk =>
    simp only at he
    cases hv : lookup s.cache vk with
    | none => simp [hv] at he
    | some vo =>
      simp only [hv] at he
      by_cases hvk : vk = key
      · simp [hvk] at he
      · simp only [hvk, if_false] at he
        have hf := inCache_erase_exact h.keys hv
        have hkn := erase_keys_nodup s.cache vk h.keys
        by_cases ha : async = true
        · simp only [ha, if_true] at he
          injection he with he; injection he with e1 e2; injection e2 with e2 e3
          subst e1; subst e2; subst e3
          exact eq_recount s _ _ _ h hkn (by
            intro x
            have hle := hf x
            simp only [cnt, count_append_singleton]
            by_cases hx : vo = x
            · subst hx; simp at hle ⊢; omega
            · have : ¬ (x = vo) := fun e => hx e.symm
              simp [hx, this] at hle ⊢; omega)
        · simp only [ha, Facts.good, if_true] at he
          injection he with he; injection he with e1 e2; injection e2 with e2 e3
          subst e1; subst e2; subst e3
          exact eq_drop s vo _ _ _ h (by have := lookup_inCache_pos hv; unfold cnt; omega) hkn (by
            intro x
            have hle := hf x
            simp only [cnt]
            omega)

/-- **every step of the protocol preserves the exact invariant.** -/
theorem step_invEq (s : St) (st : Step) (s' : St) (h : InvEq s) (hs : step Facts.good s st = some s') : InvEq s' := by
  cases st with
  | hit key =>
    simp only [step, Facts.good] at hs
    cases hk : lookup s.cache key with
    | none => simp [hk] at hs
    | some o =>
      simp only [hk, if_true] at hs
      injection hs with hs; subst hs
      exact eq_acquire s o h (by have := lookup_inCache_pos hk; unfold cnt; omega)
  | incr o =>
    simp only [step] at hs
    rw [h.looked] at hs; simp at hs
  | merge key =>
    simp only [step] at hs
    cases hk : lookup s.cache key with
    | none => simp [hk] at hs
    | some o =>
      simp only [hk] at hs
      injection hs with hs; subst hs
      exact eq_acquire s o h (by have := lookup_inCache_pos hk; unfold cnt; omega)
  | use o =>
    simp only [step] at hs
    by_cases ho : o ∈ s.holders
    · simp only [ho, if_true] at hs
      have hpos : 0 < cnt s o := by
        have := List.count_pos_iff.mpr ho; unfold cnt; omega
      have hc := h.count o
      by_cases hd : (objAt s.objs o).destroyed = true
      · have := (h.dead o (h.range o hpos)).mp hd; omega
      · have hd' : (s.objs.getD o default).destroyed = false := by
          simpa [objAt] using hd
        simp only [hd', Bool.false_eq_true, if_false] at hs
        injection hs with hs; subst hs; exact h
    · simp [ho] at hs
  | release o =>
    simp only [step] at hs
    by_cases ho : o ∈ s.holders
    · simp only [ho, if_true] at hs
      injection hs with hs; subst hs
      have hcp := List.count_pos_iff.mpr ho
      exact eq_drop s o s.cache s.pending (s.holders.erase o) h (by unfold cnt; omega) h.keys (by
        intro x
        by_cases hx : x = o
        · subst hx
          have := List.count_erase_self (a := x) (l := s.holders)
          simp only [cnt, if_true]; omega
        · have hne : List.count x (s.holders.erase o) = List.count x s.holders := List.count_erase_of_ne hx
          simp only [cnt, hx, if_false, hne]; omega)
    · simp [ho] at hs
  | deliver =>
    simp only [step, Facts.good, if_true] at hs
    cases hp : s.pending with
    | nil => simp [hp] at hs
    | cons o rest =>
      simp only [hp] at hs
      injection hs with hs; subst hs
      exact eq_drop s o s.cache rest s.holders h (by unfold cnt; rw [hp]; simp; omega) h.keys (by
        intro x
        simp only [cnt, hp, List.count_cons]
        by_cases hx : x = o
        · subst hx; simp; omega
        · have : ¬ (o = x) := fun e => hx e.symm
          simp [hx, this])
  | load key victim async =>
    simp only [step] at hs
    cases he : evictVictim Facts.good s key victim async with
    | none => simp [he] at hs
    | some r =>
      obtain ⟨c1, o1, p1⟩ := r
      have h1 := evict_invEq s key victim async c1 o1 p1 h he
      rw [he] at hs
      have hg : Facts.good.replaceReleasesOld = true := rfl
      simp only [hg, if_true] at hs
      injection hs with hs; subst hs
      have h2 : InvEq { s with cache := erase c1 key, pending := p1,
                               objs := (match lookup c1 key with | some old => decr o1 old | none => o1) } := by
        cases hl : lookup c1 key with
        | none =>
          simp only
          exact eq_recount { s with cache := c1, objs := o1, pending := p1 } _ _ _ h1
            (erase_keys_nodup c1 key h1.keys) (by
              intro x; rw [inCache_erase_none hl]; simp only [cnt])
        | some old =>
          simp only
          have hf := inCache_erase_exact h1.keys hl
          exact eq_drop { s with cache := c1, objs := o1, pending := p1 } old _ _ _ h1
            (by have := lookup_inCache_pos hl; simp only [cnt]; omega) (erase_keys_nodup c1 key h1.keys) (by
              intro x
              have hle := hf x
              dsimp only [cnt] at hle ⊢
              omega)
      exact eq_new _ key h2 (erase_not_mem c1 key)

theorem run_invEq (s : St) (h : InvEq s) (sched : List Step) : InvEq (run Facts.good s sched) := by
  induction sched generalizing s with
  | nil => exact h
  | cons st rest ih =>
    simp only [run]
    cases hs : step Facts.good s st with
    | none => exact ih s h
    | some s' => exact ih s' (step_invEq s st s' h hs)

theorem run_append (F : Facts) (s : St) (a b : List Step) : run F s (a ++ b) = run F (run F s a) b := by
  induction a generalizing s with
  | nil => rfl
  | cons st rest ih =>
    simp only [List.cons_append, run]
    cases step F s st <;> exact ih _

end AsherahVerif.KeyRef

namespace AsherahVerif.KeyRef

/-! ### progress: draining the event queue and letting every holder release -/

/-- the schedule "the event goroutine runs every pending callback, then every holder closes". -/
def drain (s : St) : List Step := s.pending.map (fun _ => Step.deliver) ++ s.holders.map Step.release

theorem run_delivers (F : Facts) (p : List Nat) (s : St) (hp : s.pending = p) :
    (run F s (p.map fun _ => Step.deliver)).pending = [] ∧
    (run F s (p.map fun _ => Step.deliver)).holders = s.holders ∧
    (run F s (p.map fun _ => Step.deliver)).cache = s.cache := by
  induction p generalizing s with
  | nil => exact ⟨hp, rfl, rfl⟩
  | cons o rest ih =>
    simp only [List.map_cons, run, step, hp]
    exact ih _ rfl

theorem run_releases (F : Facts) (hs : List Nat) (s : St) (hh : s.holders = hs) :
    (run F s (hs.map Step.release)).holders = [] ∧
    (run F s (hs.map Step.release)).pending = s.pending ∧
    (run F s (hs.map Step.release)).cache = s.cache := by
  induction hs generalizing s with
  | nil => exact ⟨hh, rfl, rfl⟩
  | cons o rest ih =>
    have hm : o ∈ s.holders := by rw [hh]; exact List.mem_cons_self
    simp only [List.map_cons, run, step, if_pos hm]
    have := ih { s with objs := decr s.objs o, holders := s.holders.erase o } (by
      show s.holders.erase o = rest
      rw [hh]; simp)
    exact this

theorem drain_quiescent (F : Facts) (s : St) :
    (run F s (drain s)).pending = [] ∧ (run F s (drain s)).holders = [] ∧ (run F s (drain s)).cache = s.cache := by
  unfold drain
  rw [run_append]
  have h1 := run_delivers F s.pending s rfl
  have h2 := run_releases F s.holders (run F s (s.pending.map fun _ => Step.deliver)) h1.2.1
  exact ⟨by rw [h2.2.1]; exact h1.1, h2.1, by rw [h2.2.2]; exact h1.2.2⟩

end AsherahVerif.KeyRef
