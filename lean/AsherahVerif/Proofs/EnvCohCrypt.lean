import AsherahVerif.Proofs.EnvCohIK
/-
Specifications of `EncryptPayload`, `decryptRow`, `DecryptDataRowRecord`:
a returned record is `Genuine` (sealed under a DRK that is sealed under a stored intermediate key of
the session's partition), and a genuine record decrypts to its payload.
-/
set_option linter.unusedVariables false
namespace AsherahVerif.Env

/-- `d` seals `pay` under a data-row key sealed under the stored intermediate key `(ik part, c)`. -/
def Genuine (store : List Row) (part pay : Nat) (d : Drr) : Prop :=
  ∃ (dk : DrrKey) (c : Int) (ikm dm n n' : Nat), (d.key = some dk ∧ dk.parent = some ⟨.ik part, c⟩ ∧
    dk.enc = .enc ikm n' (.key dm) ∧ d.data = .enc dm n (.payload pay)) ∧ Wraps store ⟨.ik part, c⟩ ikm

theorem Genuine.mono {s s' : List Row} (h : ∀ r, r ∈ s → r ∈ s') {part pay : Nat} {d : Drr}
    (hg : Genuine s part pay d) : Genuine s' part pay d := by
  obtain ⟨dk, c, ikm, dm, n, n', h1, h2⟩ := hg
  exact ⟨dk, c, ikm, dm, n, n', h1, h2.mono h⟩

theorem Stable.genuine (part pay : Nat) (d : Drr) : Stable (fun w => Genuine w.store part pay d) :=
  ⟨fun w w' he h => h.mono he.store⟩

theorem Wraps.congr {s : List Row} {m m' : KeyMeta} {mat : Nat} (hk : m.kid = m'.kid) (hc : m.created = m'.created)
    (h : Wraps s m mat) : Wraps s m' mat := by
  cases m; cases m'; simp only at hk hc; subst hk; subst hc; exact h

theorem encryptInner_spec {a : Nat} {F : Prop} (x : Ctx) (pay ik drk : Nat) (m0 : KeyMeta) (hm0 : m0.kid = x.ikId)
    (ikm dc dm : Nat) (dcr : Int) :
    CSpec a F (fun w => (KeyIs w ik m0.created ikm ∧ Wraps w.store m0 ikm) ∧ KeyIs w drk dcr dm)
      (do
        let encData ← withKey drk fun dm => aeadEncrypt (.payload pay) dm
        let encKey ← withKey ik fun im => withKey drk fun dm => aeadEncrypt (.key dm) im
        let io ← keyObj ik
        let dko ← keyObj drk
        pure (⟨some ⟨dko.created, encKey, some ⟨x.ikId, io.created⟩⟩, encData⟩ : Drr))
      (fun d w => Genuine w.store x.part pay d) := by
  apply CSpec.bind_frame (G1 := fun encData _ => ∃ n, encData = .enc dm n (.payload pay))
    (P' := fun w => KeyIs w drk dcr dm) _ (fun w _ h => h.2) (by stable_auto)
  · intro encData
    apply CSpec.bind_frame (G1 := fun encKey _ => ∃ n', encKey = .enc ikm n' (.key dm))
      (P' := fun w => KeyIs w ik m0.created ikm ∧ KeyIs w drk dcr dm) _ (fun w _ h => ⟨h.1.1.1, h.1.2⟩) (by stable_auto)
    · intro encKey
      apply CSpec.bind_frame (keyObj_spec ik m0.created ikm fun w _ h => h.1.1.1.1) (fun _ _ h => h) (by stable_auto)
      intro io
      apply CSpec.bind_frame (keyObj_spec' drk) (fun _ _ _ => trivial) (by stable_auto)
      intro dko
      refine CSpec.pure _ fun w _ h => ?_
      obtain ⟨⟨⟨⟨⟨⟨_, hw⟩, _⟩, n, hn⟩, n', hn'⟩, hio, _⟩, _⟩ := h
      refine ⟨_, io.created, ikm, dm, n, n', ⟨rfl, rfl, hn', hn⟩, hw.congr hm0 hio.symm⟩
    · exact CSpec.withKey ikm (fun w _ h => ⟨_, h.1⟩) (fun im => withKey_ext _ _ fun dm => aeadEncrypt_ext _ _)
        (CSpec.withKey dm (fun w _ h => ⟨_, h.2⟩) (fun dm => aeadEncrypt_ext _ _) (aeadEncrypt_spec _ _))
  · exact CSpec.withKey dm (fun w _ h => ⟨_, h⟩) (fun dm => aeadEncrypt_ext _ _) (aeadEncrypt_spec _ _)

theorem encryptPayload_cspec {a : Nat} {F : Prop} (x : Ctx) (pay : Nat) (rl : Bool) :
    CSpec a F (TimeOK x) (encryptPayload x pay rl) (fun d w => Genuine w.store x.part pay d) := by
  unfold encryptPayload
  apply CSpec.bind (getOrLoadLatest_cspec x.ikCache x.ikId _ _ _ (fun _ => loadLatestOrCreateIntermediateKey_ext x rl)
    (Stable.timeOK x) (loadLatestOrCreateIntermediateKey_cspec x rl))
  intro ik
  refine CSpec.finallyDo ?_ (fun _ => Stable.genuine _ _ _) (keyRelease_cspec ik)
  have hext : Extends (do
      let w ← get
      let (s, m) ← secretRandom
      let drk ← newKeyObj (w.now / nsPerSec) false m s
      finallyDo (do
        let encData ← withKey drk fun dm => aeadEncrypt (.payload pay) dm
        let encKey ← withKey ik fun im => withKey drk fun dm => aeadEncrypt (.key dm) im
        let io ← keyObj ik
        let dko ← keyObj drk
        pure (⟨some ⟨dko.created, encKey, some ⟨x.ikId, io.created⟩⟩, encData⟩ : Drr)) (keyCloseRaw drk)) := by
    ext_auto [secretRandom_ext, keyCloseRaw_ext]
    · exact withKey_ext _ _ fun dm => aeadEncrypt_ext _ _
    · exact withKey_ext _ _ fun im => withKey_ext _ _ fun dm => aeadEncrypt_ext _ _
  apply CSpec.pre (P := fun w => ∃ m0 : KeyMeta, ∃ ikm, m0.kid = x.ikId ∧ (KeyIs w ik m0.created ikm ∧ Wraps w.store m0 ikm))
  · intro w _ h
    obtain ⟨m0, hm0, _, hg⟩ := h
    obtain ⟨ikm, h1, h2⟩ := hg.keyIs
    exact ⟨m0, ikm, hm0, h1, h2⟩
  apply CSpec.exists_pre hext; intro m0
  apply CSpec.exists_pre hext; intro ikm
  apply CSpec.of_pre (C := m0.kid = x.ikId) hext (fun w _ h => h.1)
  intro hm0
  apply CSpec.pre (P := fun w => KeyIs w ik m0.created ikm ∧ Wraps w.store m0 ikm) (fun w _ h => h.2)
  apply CSpec.bind_frame CSpec.get (fun _ _ _ => trivial) (by stable_auto)
  intro w0
  apply CSpec.pre (P := fun w => KeyIs w ik m0.created ikm ∧ Wraps w.store m0 ikm) (fun w _ h => h.1)
  apply CSpec.bind_frame (secretRandom_cspec) (fun _ _ _ => trivial) (by stable_auto)
  intro sm
  obtain ⟨s, dm⟩ := sm
  dsimp only
  apply CSpec.pre (P := fun w => KeyIs w ik m0.created ikm ∧ Wraps w.store m0 ikm) (fun w _ h => h.1)
  apply CSpec.bind_frame (newKeyObj_cspec _ false dm s) (fun _ _ _ => trivial) (by stable_auto)
  intro drk
  refine CSpec.finallyDo ?_ (fun _ => Stable.genuine _ _ _) (keyCloseRaw_cspec drk)
  exact encryptInner_spec x pay ik drk m0 hm0 ikm 0 dm _

theorem decryptRow_cspec {a : Nat} {F : Prop} (ik : Nat) (dk : DrrKey) (data : Ct) (c : Int) (ikm dm n n' pay : Nat)
    (hk : dk.enc = .enc ikm n' (.key dm)) (hd : data = .enc dm n (.payload pay)) :
    CSpec a F (fun w => KeyIs w ik c ikm) (decryptRow ik dk data) (fun p _ => p = pay) := by
  unfold decryptRow
  have hfe : ∀ im, Extends (do
      let pt ← aeadDecrypt dk.enc im
      match pt with
      | .key dm =>
        let b ← newBuf dm
        finallyDo (do
          match ← aeadDecrypt data dm with
          | .payload p => pure p
          | .key _ => throw .aead) (wipeBuf b)
      | .payload _ => throw .aead) := by
    intro im; ext_auto [aeadDecrypt_ext]
  refine CSpec.withKey ikm (fun w _ h => ⟨c, h⟩) hfe ?_
  apply CSpec.bind_frame (aeadDecrypt_spec dk.enc ikm) (fun w _ _ _ => ⟨n', _, hk⟩) (by stable_auto)
  intro pt
  apply CSpec.of_pre (C := pt = .key dm) (by ext_auto [aeadDecrypt_ext])
    (fun w _ h => by obtain ⟨n2, hn2⟩ := h.2; rw [hk] at hn2; cases hn2; rfl)
  intro hpt
  subst hpt
  dsimp only
  apply CSpec.bind (newBuf_cspec dm)
  intro b
  refine CSpec.finallyDo ?_ (fun _ => Stable.const _) (wipeBuf_spec b)
  apply CSpec.bind ((aeadDecrypt_spec data dm).pre fun w _ _ _ => ⟨n, _, hd⟩)
  intro pt2
  apply CSpec.of_pre (C := pt2 = .payload pay) (by ext_auto)
    (fun w _ h => by obtain ⟨n2, hn2⟩ := h; rw [hd] at hn2; cases hn2; rfl)
  intro hpt2
  subst hpt2
  exact CSpec.pure _ fun _ _ _ => rfl

theorem decryptDataRowRecord_cspec {a : Nat} {F : Prop} (x : Ctx) (d : Drr) (rl : Bool) (pay : Nat) :
    CSpec a F (fun w => Genuine w.store x.part pay d) (decryptDataRowRecord x d rl) (fun p _ => p = pay) := by
  have hext := decryptDataRowRecord_ext x d rl
  apply CSpec.exists_pre hext; intro dk
  apply CSpec.exists_pre hext; intro c
  apply CSpec.exists_pre hext; intro ikm
  apply CSpec.exists_pre hext; intro dm
  apply CSpec.exists_pre hext; intro n
  apply CSpec.exists_pre hext; intro n'
  apply CSpec.of_pre (C := (d.key = some dk ∧ dk.parent = some ⟨.ik x.part, c⟩ ∧
    dk.enc = .enc ikm n' (.key dm) ∧ d.data = .enc dm n (.payload pay)) ∧ c ≠ 0) hext
  · intro w hi h
    refine ⟨h.1, ?_⟩
    obtain ⟨r, hr, _, hc, _⟩ := h.2
    have hc' : r.created = c := hc
    rw [← hc']; exact hi.wf.nz r hr
  intro ⟨⟨hkey, hpar, henc, hdata⟩, hcz⟩
  apply CSpec.pre (P := fun w => Wraps w.store ⟨.ik x.part, c⟩ ikm) (fun w _ h => h.2)
  unfold decryptDataRowRecord
  rw [hkey]; dsimp only
  rw [hpar]; dsimp only
  rw [if_neg (by intro h; exact h rfl)]
  apply CSpec.bind_frame (getOrLoad_cspec x.ikCache ⟨.ik x.part, c⟩ _ (fun m => loadIntermediateKey x m rl)
    (fun m => loadIntermediateKey_ext x m rl) (by stable_auto) (loadIntermediateKey_cspec x ⟨.ik x.part, c⟩ rl rfl))
    (fun w _ h _ => ⟨ikm, h⟩) (by stable_auto)
  intro ik
  refine CSpec.finallyDo ?_ (fun _ => Stable.const _) (keyRelease_cspec ik)
  refine (decryptRow_cspec ik dk d.data c ikm dm n n' pay henc hdata).pre fun w hi h => ?_
  obtain ⟨mat, hki, hw⟩ := (GoodFor.of_nz hcz h.2).keyIs
  have := Wraps.unique hi.wf hw h.1
  subst this
  exact hki

end AsherahVerif.Env
