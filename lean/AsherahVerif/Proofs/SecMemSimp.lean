import Lean.Meta.Tactic.Simp.RegisterCommand
import AsherahVerif.Model.SecMem
/-! simp sets of the secmem proofs: `secmem` evaluates one memory-primitive call of the model (used
by the `oracle_step` tactic of Proofs/SecMem.lean, which consumes the fault oracle one answer at a
time); `secmemchk` unfolds the Bool checkers once a path has been evaluated. -/
register_simp_attr secmem
register_simp_attr secmemchk
