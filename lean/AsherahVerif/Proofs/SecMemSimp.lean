import Lean.Meta.Tactic.Simp.RegisterCommand
import AsherahVerif.Model.SecMem
/-! simp set `secmem`: unfolds one memory-primitive call of the model (used by the `oracle_step`
tactic of Proofs/SecMem.lean, which consumes the fault oracle one answer at a time). -/
register_simp_attr secmem
