import AsherahVerif.Proofs.EnvTimeCache
/-
The metastore primitives and the key constructors of envelope.go against the invariant `St`
(fault-free: `St` carries `faults = []`).
-/
set_option linter.unusedVariables false
namespace AsherahVerif.Env

/-! ### rows -/

theorem findRow_some {store : List Row} {m : KeyMeta} {r : Row} (h : findRow store m = some r) :
    r ∈ store ∧ r.kid = m.kid ∧ r.created = m.created := by
  unfold findRow at h
  have h1 := List.find?_some h
  have h2 := List.mem_of_find?_eq_some h
  simp only [decide_eq_true_eq] at h1
  exact ⟨h2, h1.1, h1.2⟩

theorem findRow_none {store : List Row} {m : KeyMeta} (h : findRow store m = none) :
    ∀ r ∈ store, ¬ (r.kid = m.kid ∧ r.created = m.created) := by
  unfold findRow at h
  intro r hr hc
  have := List.find?_eq_none.mp h r hr
  simp only [decide_eq_true_eq] at this
  exact this hc

theorem findRow_isSome_of_mem {store : List Row} {m : KeyMeta} {r : Row} (hr : r ∈ store) (hk : r.kid = m.kid)
    (hc : r.created = m.created) : (findRow store m).isSome = true := by
  cases h : findRow store m with
  | some _ => rfl
  | none => exact absurd ⟨hk, hc⟩ (findRow_none h r hr)

def latestStep (acc : Option Row) (r : Row) : Option Row :=
  match acc with
  | none => some r
  | some a => if a.created < r.created then some r else some a

/-- the fold of `latestRow`: the accumulator is a row of the list (or the start value) with maximal stamp. -/
theorem latest_fold (l : List Row) (acc : Option Row) :
    (∀ a, acc = some a → ∃ b, l.foldl latestStep acc = some b ∧ a.created ≤ b.created) ∧
    (∀ b, l.foldl latestStep acc = some b → (acc = some b ∨ b ∈ l)) ∧
    (∀ r ∈ l, ∃ b, l.foldl latestStep acc = some b ∧ r.created ≤ b.created) ∧
    (l.foldl latestStep acc = none → acc = none ∧ l = []) := by
  induction l generalizing acc with
  | nil =>
    simp only [List.foldl_nil]
    exact ⟨fun a h => ⟨a, h, Int.le_refl _⟩, fun b h => Or.inl h, fun r hr => (by cases hr), fun h => ⟨h, trivial⟩⟩
  | cons x rest ih =>
    simp only [List.foldl_cons]
    cases acc with
    | none =>
      simp only [latestStep]
      obtain ⟨i1, i2, i3, i4⟩ := ih (some x)
      refine ⟨fun a h => (by cases h), ?_, ?_, ?_⟩
      · intro b hb
        rcases i2 b hb with h | h
        · cases h; right; exact List.mem_cons_self
        · right; exact List.mem_cons_of_mem _ h
      · intro r hr
        rcases List.mem_cons.mp hr with h | h
        · subst h; exact i1 r rfl
        · exact i3 r h
      · intro h; obtain ⟨h', _⟩ := i4 h; cases h'
    | some a =>
      simp only [latestStep]
      split
      · rename_i hlt
        obtain ⟨i1, i2, i3, i4⟩ := ih (some x)
        refine ⟨?_, ?_, ?_, ?_⟩
        · intro a' ha'; cases ha'
          obtain ⟨b, hb, hle⟩ := i1 x rfl
          exact ⟨b, hb, by omega⟩
        · intro b hb
          rcases i2 b hb with h | h
          · cases h; right; exact List.mem_cons_self
          · right; exact List.mem_cons_of_mem _ h
        · intro r hr
          rcases List.mem_cons.mp hr with h | h
          · subst h; exact i1 r rfl
          · exact i3 r h
        · intro h; obtain ⟨h', _⟩ := i4 h; cases h'
      · rename_i hnlt
        obtain ⟨i1, i2, i3, i4⟩ := ih (some a)
        refine ⟨?_, ?_, ?_, ?_⟩
        · intro a' ha'; cases ha'; exact i1 a rfl
        · intro b hb
          rcases i2 b hb with h | h
          · left; exact h
          · right; exact List.mem_cons_of_mem _ h
        · intro r hr
          rcases List.mem_cons.mp hr with h | h
          · subst h
            obtain ⟨b, hb, hle⟩ := i1 a rfl
            exact ⟨b, hb, by omega⟩
          · exact i3 r h
        · intro h; obtain ⟨h', _⟩ := i4 h; cases h'

theorem latestRow_eq (store : List Row) (k : KeyId) :
    latestRow store k = (store.filter (·.kid = k)).foldl latestStep none := rfl

theorem latestRow_some {store : List Row} {k : KeyId} {r : Row} (h : latestRow store k = some r) :
    r ∈ store ∧ r.kid = k ∧ ∀ r' ∈ store, r'.kid = k → r'.created ≤ r.created := by
  rw [latestRow_eq] at h
  obtain ⟨-, i2, i3, -⟩ := latest_fold (store.filter (·.kid = k)) none
  rcases i2 r h with h' | h'
  · cases h'
  · have hm := List.mem_filter.mp h'
    simp only [decide_eq_true_eq] at hm
    refine ⟨hm.1, hm.2, ?_⟩
    intro r' hr' hk'
    obtain ⟨b, hb, hle⟩ := i3 r' (List.mem_filter.mpr ⟨hr', by simp [hk']⟩)
    rw [h] at hb; cases hb; exact hle

theorem latestRow_none {store : List Row} {k : KeyId} (h : latestRow store k = none) :
    ∀ r ∈ store, r.kid ≠ k := by
  rw [latestRow_eq] at h
  obtain ⟨-, -, -, i4⟩ := latest_fold (store.filter (·.kid = k)) none
  obtain ⟨-, hnil⟩ := i4 h
  intro r hr hk
  have : r ∈ store.filter (·.kid = k) := List.mem_filter.mpr ⟨hr, by simp [hk]⟩
  rw [hnil] at this; cases this

/-! ### metastore calls without faults -/

theorem takeFault_wp {w : World} (hf : w.faults = []) {Q : Except Err Fault → World → Prop} (h : Q (.ok .ok) w) :
    Wp takeFault w Q := by
  unfold Wp; rw [takeFault_nofault hf]; exact h

/-- a step that only appends to the call log. -/
def LogOnly (w w' : World) : Prop := ∃ l, w' = { w with log := l }

theorem St.logOnly {ρ : RevCtx} {D : List Row → Prop} {t : Int} {w w' : World} (h : St ρ D t w) (hl : LogOnly w w') :
    St ρ D t w' := by
  obtain ⟨l, rfl⟩ := hl
  exact h.step' (Ext.of_eq rfl rfl rfl rfl rfl rfl rfl (Nat.le_refl _) (Nat.le_refl _) (Nat.le_refl _))
    (Q0.of_eq rfl rfl rfl) rfl

theorem LogOnly.msame {w w' : World} (hl : LogOnly w w') : MSame w w' := by
  obtain ⟨l, rfl⟩ := hl; exact ⟨rfl, fun _ => rfl⟩

theorem msLoad_wp (m : KeyMeta) (w : World) (hf : w.faults = []) :
    Wp (msLoad m) w fun r w' => r = .ok (findRow w.store m) ∧ LogOnly w w' := by
  unfold msLoad
  apply Wp.bind; apply takeFault_wp hf; simp only []
  apply Wp.bind; apply Wp.get; simp only []
  rw [if_neg (by simp)]
  apply Wp.bind; apply Wp.modify; simp only []
  exact ⟨rfl, _, rfl⟩

theorem msLoadLatest_wp (k : KeyId) (w : World) (hf : w.faults = []) :
    Wp (msLoadLatest k) w fun r w' => r = .ok (latestRow w.store k) ∧ LogOnly w w' := by
  unfold msLoadLatest
  apply Wp.bind; apply takeFault_wp hf; simp only []
  apply Wp.bind; apply Wp.get; simp only []
  rw [if_neg (by simp)]
  apply Wp.bind; apply Wp.modify; simp only []
  exact ⟨rfl, _, rfl⟩

/-- `tryStore` without faults: `true` = the row was absent and is appended; `false` = a row with
that id and stamp exists and nothing changed. -/
theorem msStore_wp (r0 : Row) (w : World) (hf : w.faults = []) :
    Wp (msStore r0) w fun r w' =>
      (r = .ok true ∧ findRow w.store ⟨r0.kid, r0.created⟩ = none ∧ ∃ l, w' = { w with store := w.store ++ [r0], log := l }) ∨
      (r = .ok false ∧ (findRow w.store ⟨r0.kid, r0.created⟩).isSome = true ∧ LogOnly w w') := by
  unfold msStore
  apply Wp.bind; apply takeFault_wp hf; simp only []
  apply Wp.bind; apply Wp.get; simp only []
  cases hfr : findRow w.store ⟨r0.kid, r0.created⟩ with
  | none =>
    simp only [Option.isSome_none, Bool.false_eq_true, if_false]
    apply Wp.bind; apply Wp.modify; simp only []
    apply Wp.bind; apply Wp.modify; simp only []
    exact Or.inl ⟨rfl, trivial, _, rfl⟩
  | some r1 =>
    simp only [Option.isSome_some, if_true]
    apply Wp.bind; apply Wp.modify; simp only []
    exact Or.inr ⟨rfl, trivial, _, rfl⟩

/-! ### `SS` (store untouched) for everything that does not write the metastore -/

theorem takeFault_ss : Resp SS takeFault := by
  intro w; unfold takeFault; split <;> rfl
theorem logCall_ss (c : Call) : Resp SS (logCall c) := fun w => rfl
theorem newBuf_ss (m : Nat) : Resp SS (newBuf m) := fun w => rfl
theorem wipeBuf_ss (b : Nat) : Resp SS (wipeBuf b) := fun w => rfl
theorem newKeyObj_ss (c : Int) (r : Bool) (m s : Nat) : Resp SS (newKeyObj c r m s) := fun w => rfl
theorem secretsSet_ss (s : Nat) (f : Secret → Secret) :
    Resp SS (modify fun w => { w with secrets := setAt w.secrets s f }) := fun w => rfl
theorem secretNew_ss (b m : Nat) : Resp SS (secretNew b m) := by
  unfold secretNew
  resp_auto [takeFault_ss, wipeBuf_ss, logCall_ss]
  intro w; rfl
theorem secretRandom_ss : Resp SS secretRandom := by
  unfold secretRandom
  resp_auto [takeFault_ss, logCall_ss]
  intro w; rfl
theorem withKey_ss {α : Type} (o : Nat) (f : Nat → M α) (hf : ∀ m, Resp SS (f m)) : Resp SS (withKey o f) := by
  unfold withKey
  resp_auto
  · exact secretsSet_ss _ _
  · exact hf _
theorem kmsEncrypt_ss (m : Nat) : Resp SS (kmsEncrypt m) := by
  unfold kmsEncrypt; resp_auto [takeFault_ss, logCall_ss]
theorem kmsDecrypt_ss (c : Ct) : Resp SS (kmsDecrypt c) := by
  unfold kmsDecrypt; resp_auto [takeFault_ss, logCall_ss, newBuf_ss]
theorem aeadEncrypt_ss (pt : Pt) (k : Nat) : Resp SS (aeadEncrypt pt k) := by
  unfold aeadEncrypt
  resp_auto [takeFault_ss, logCall_ss]
  intro w; rfl
theorem aeadDecrypt_ss (c : Ct) (k : Nat) : Resp SS (aeadDecrypt c k) := by
  unfold aeadDecrypt; resp_auto [takeFault_ss, logCall_ss]
theorem msLoad_ss (m : KeyMeta) : Resp SS (msLoad m) := by
  unfold msLoad; resp_auto [takeFault_ss, logCall_ss]
theorem msLoadLatest_ss (k : KeyId) : Resp SS (msLoadLatest k) := by
  unfold msLoadLatest; resp_auto [takeFault_ss, logCall_ss]
theorem mustLoadLatest_ss (k : KeyId) : Resp SS (mustLoadLatest k) := by
  unfold mustLoadLatest; resp_auto [msLoadLatest_ss]
theorem generateKey_ss (x : Ctx) : Resp SS (generateKey x) := by
  unfold generateKey; resp_auto [secretRandom_ss, newKeyObj_ss]
theorem systemKeyFromEKR_ss (r : Row) : Resp SS (systemKeyFromEKR r) := by
  unfold systemKeyFromEKR; resp_auto [kmsDecrypt_ss, secretNew_ss, newKeyObj_ss]
theorem loadSystemKey_ss (m : KeyMeta) : Resp SS (loadSystemKey m) := by
  unfold loadSystemKey; resp_auto [msLoad_ss, systemKeyFromEKR_ss]
theorem decryptRow_ss (ik : Nat) (dk : DrrKey) (data : Ct) : Resp SS (decryptRow ik dk data) := by
  unfold decryptRow
  apply withKey_ss
  intro im
  resp_auto [aeadDecrypt_ss, newBuf_ss, wipeBuf_ss]

/-- `QES`: a step below the cache layer that does not write the metastore. -/
structure QES (w w' : World) : Prop where
  ext : Ext w w'
  q : Q0 w w'
  store : w'.store = w.store

instance : RT QES where
  refl w := ⟨Ext.refl w, RT.refl w, rfl⟩
  trans h1 h2 := ⟨h1.ext.trans h2.ext, RT.trans h1.q h2.q, h2.store.trans h1.store⟩

theorem QES.cw {w w' : World} (h : QES w w') : CW w w' := CW.of_q0 h.ext h.q h.store
theorem St.qes {ρ : RevCtx} {D : List Row → Prop} {t : Int} {w w' : World} (h : St ρ D t w) (hq : QES w w') :
    St ρ D t w' := h.step' hq.ext hq.q hq.store
theorem QES.views {w w' : World} (h : QES w w') (c : Nat) :
    entsOf w' c = entsOf w c ∧ latestOf w' c = latestOf w c := CW.views h.q c

/-! ### new key objects -/

/-- `k` is an existing key object with stamp `c` and flag `b` that no cache entry points to. -/
def NewKey (w : World) (k : Nat) (c : Int) (b : Bool) : Prop :=
  (∃ ko : KeyObj, w.keys[k]? = some ko ∧ ko.created = c ∧ ko.revoked = b) ∧
    ∀ c2 m2 e2, (m2, e2) ∈ entsOf w c2 → e2.obj ≠ k

theorem NewKey.mono {w w' : World} {k : Nat} {c : Int} {b : Bool} (h : NewKey w k c b) (hext : Ext w w') (hq : Q0 w w') :
    NewKey w' k c b := by
  obtain ⟨⟨ko, hk, hc, hb⟩, hf⟩ := h
  obtain ⟨k1, e1, c1, _⟩ := hext.keys _ _ hk
  obtain ⟨k2, e2, r2⟩ := hq.rev _ _ hk
  rw [e1] at e2; cases e2
  refine ⟨⟨k1, e1, c1.trans hc, r2.trans hb⟩, ?_⟩
  intro c2 m2 e2 hm
  rw [(CW.views hq c2).1] at hm
  exact hf c2 m2 e2 hm

theorem newKeyObj_wp {ρ : RevCtx} {D : List Row → Prop} {t : Int} (c : Int) (b : Bool) (m s : Nat) (w : World)
    (h : St ρ D t w) :
    Wp (newKeyObj c b m s) w fun r w' => St ρ D t w' ∧ QES w w' ∧ ∃ k, r = .ok k ∧ NewKey w' k c b := by
  have hq : QES w (newKeyObj c b m s w).2 := ⟨newKeyObj_ext c b m s w, newKeyObj_q0 c b m s w, rfl⟩
  refine ⟨h.qes hq, hq, w.keys.length, rfl, ⟨⟨{ created := c, revoked := b, mat := m, sec := s }, ?_, rfl, rfl⟩, ?_⟩⟩
  · show (w.keys ++ [_])[w.keys.length]? = _
    simp
  · intro c2 m2 e2 hm ho
    have hm' : (m2, e2) ∈ entsOf w c2 := hm
    obtain ⟨ko, hk, -⟩ := (h.good c2 m2 e2 hm').coh
    rw [ho] at hk
    rw [List.getElem?_eq_none (Nat.le_refl _)] at hk
    cases hk

/-- `generateKey`: a fresh key stamped with the truncated clock. -/
theorem generateKey_wp {ρ : RevCtx} {D : List Row → Prop} {t : Int} (x : Ctx) (w : World) (h : St ρ D t w) :
    Wp (generateKey x) w fun r w' => St ρ D t w' ∧ QES w w' ∧
      ∀ k, r = .ok k → NewKey w' k (keyTimestamp t x.pol.precision) false := by
  unfold generateKey
  apply Wp.bind; apply Wp.get; simp only []
  have hq1 : QES w (secretRandom w).2 := ⟨secretRandom_ext w, secretRandom_q0 w, secretRandom_ss w⟩
  refine Wp.bind_world (fun e => ⟨h.qes hq1, hq1, fun k hk => by cases hk⟩) (fun a => ?_)
  obtain ⟨s, m⟩ := a
  simp only []
  apply Wp.mono (newKeyObj_wp _ _ _ _ _ (h.qes hq1))
  intro r w' ⟨h2, hq2, k, hr, hn⟩
  subst hr
  refine ⟨h2, RT.trans hq1 hq2, fun k' hk' => ?_⟩
  cases hk'; rw [← h.now]; exact hn

/-- `systemKeyFromEKR`: a fresh key object carrying the row's stamp and flag. -/
theorem systemKeyFromEKR_wp {ρ : RevCtx} {D : List Row → Prop} {t : Int} (r0 : Row) (w : World) (h : St ρ D t w) :
    Wp (systemKeyFromEKR r0) w fun r w' => St ρ D t w' ∧ QES w w' ∧
      ∀ k, r = .ok k → NewKey w' k r0.created r0.revoked := by
  unfold systemKeyFromEKR
  have hq1 : QES w (kmsDecrypt r0.enc w).2 := ⟨kmsDecrypt_ext _ w, kmsDecrypt_q0 _ w, kmsDecrypt_ss _ w⟩
  refine Wp.bind_world (fun e => ⟨h.qes hq1, hq1, fun k hk => by cases hk⟩) (fun a => ?_)
  obtain ⟨b, m⟩ := a
  simp only []
  have hq2 : QES (kmsDecrypt r0.enc w).2 (secretNew b m (kmsDecrypt r0.enc w).2).2 :=
    ⟨secretNew_ext _ _ _, secretNew_q0 _ _ _, secretNew_ss _ _ _⟩
  have hq12 := RT.trans hq1 hq2
  refine Wp.bind_world (fun e => ⟨h.qes hq12, hq12, fun k hk => by cases hk⟩) (fun s => ?_)
  apply Wp.mono (newKeyObj_wp _ _ _ _ _ (h.qes hq12))
  intro r w' ⟨h2, hq3, k, hr, hn⟩
  subst hr
  refine ⟨h2, RT.trans hq12 hq3, fun k' hk' => ?_⟩
  cases hk'; exact hn

/-! ### what an operation may add to the metastore -/

/-- the parent of an intermediate-key row was validated at time `t` under policy `x.pol`: not expired
(for policies under which a key is not born expired), and — if it is the revoked row — either its
revocation could not be known yet (`t ≤ τ + interval`) or no later stamp could be created. -/
def ParentOK (ρ : RevCtx) (x : Ctx) (t : Int) (r : Row) : Prop :=
  ∃ p : KeyMeta, r.parent = some p ∧ (BornValid x.pol → isExpired t p.created x.pol.expireAfter = false) ∧
    ∀ τ m0, ρ = some (τ, m0) → m0 = p →
      t ≤ τ + x.pol.revokeInterval ∨ keyTimestamp t x.pol.precision ≤ p.created

/-- rows of the store: those of the world the operation started from (`s0`), or rows the operation
created — unrevoked, stamped with the truncated clock, a system key or an intermediate key of the
session's partition with a validated parent. -/
def Delta (ρ : RevCtx) (x : Ctx) (t : Int) (s0 : List Row) (store : List Row) : Prop :=
  ∀ r ∈ store, r ∈ s0 ∨ (r.revoked = false ∧ r.created = keyTimestamp t x.pol.precision ∧
    (r.kid = .sk ∨ (r.kid = x.ikId ∧ ParentOK ρ x t r)))

theorem St.addRow {ρ : RevCtx} {D : List Row → Prop} {t : Int} {w : World} (h : St ρ D t w) (r0 : Row) (l : List Call)
    (hnone : findRow w.store ⟨r0.kid, r0.created⟩ = none) (hnz : r0.created ≠ 0)
    (hnzp : ∀ p, r0.parent = some p → p.created ≠ 0) (hunrev : r0.revoked = false) (hD : D (w.store ++ [r0])) :
    St ρ D t { w with store := w.store ++ [r0], log := l } := by
  have hext : Ext w { w with store := w.store ++ [r0], log := l } :=
    ⟨rfl, rfl, rfl, fun r h => List.mem_append_left _ h, fun _ s h => ⟨s, h, rfl, Nat.le_refl _, Nat.le_refl _⟩,
     fun _ k h => ⟨k, h, rfl, rfl, rfl, id⟩, fun _ b h => ⟨b, h, rfl, id⟩, Nat.le_refl _, Nat.le_refl _, Nat.le_refl _⟩
  refine h.step hext (Q0.of_eq rfl rfl rfl) ⟨?_, ?_, ?_, hD⟩
  · intro r1 r2 h1 h2 hk hc
    simp only [List.mem_append, List.mem_singleton] at h1 h2
    rcases h1 with h1 | h1 <;> rcases h2 with h2 | h2
    · exact h.sto.uniq r1 r2 h1 h2 hk hc
    · subst h2; exact absurd ⟨hk, hc⟩ (findRow_none hnone r1 h1)
    · subst h1; exact absurd ⟨hk.symm, hc.symm⟩ (findRow_none hnone r2 h2)
    · rw [h1, h2]
  · intro τ m0 hρ
    obtain ⟨⟨r, hr, hrk, hrc⟩, hall⟩ := h.sto.rev τ m0 hρ
    refine ⟨⟨r, List.mem_append_left _ hr, hrk, hrc⟩, ?_⟩
    intro r' hr' hk' hc'
    simp only [List.mem_append, List.mem_singleton] at hr'
    rcases hr' with hr' | hr'
    · exact hall r' hr' hk' hc'
    · subst hr'
      exact absurd ⟨hrk.trans hk'.symm, hrc.trans hc'.symm⟩ (findRow_none hnone r hr)
  · intro r hr
    simp only [List.mem_append, List.mem_singleton] at hr
    rcases hr with hr | hr
    · exact h.sto.nz r hr
    · subst hr; exact ⟨hnz, hnzp⟩

/-! ### system keys -/

/-- a loader's result assembled from a fresh key object that mirrors a stored row. -/
theorem loaded_of_newKey {ρ : RevCtx} {D : List Row → Prop} {t : Int} {LP : Int → Bool → World → Prop} {m : KeyMeta}
    {w : World} {k : Nat} {r0 : Row} (h : St ρ D t w) (hn : NewKey w k r0.created r0.revoked) (hr : r0 ∈ w.store)
    (hk : r0.kid = m.kid) (hlp : LP r0.created r0.revoked w) (hex : m.created ≠ 0 → r0.created = m.created) :
    Loaded ρ LP m w k := by
  obtain ⟨⟨ko, hko, hc, hb⟩, hf⟩ := hn
  refine ⟨⟨ko, hko, by rw [hc, hb]; exact hlp, ⟨r0, hr, hk, hc.symm⟩, ?_⟩, by rw [keyAt_of_get hko, hc]; exact hex, hf⟩
  intro τ m0 hρ hm
  rw [hb]
  exact (h.sto.rev τ m0 hρ).2 r0 hr (by rw [hm]; exact hk) (by rw [hm]; exact hc.symm)

/-- `loadSystemKey` as a loader: the key has exactly the requested stamp. -/
theorem loadSystemKey_ok {ρ : RevCtx} {D : List Row → Prop} {t : Int} (p : KeyMeta) :
    LoaderOK ρ D t (fun c _ _ => c = p.created) loadSystemKey p := by
  intro w h
  unfold loadSystemKey
  apply Wp.bind
  apply Wp.mono (msLoad_wp p w h.faults)
  intro r w1 ⟨hr, hl⟩
  subst hr
  simp only []
  have h1 := h.logOnly hl
  have hst : w1.store = w.store := by obtain ⟨l, rfl⟩ := hl; rfl
  cases hf : findRow w.store p with
  | none => exact ⟨h1, hl.msame, fun k hk => by cases hk⟩
  | some r0 =>
    simp only []
    obtain ⟨hmem, hk, hc⟩ := findRow_some hf
    apply Wp.mono (systemKeyFromEKR_wp r0 w1 h1)
    intro r w2 ⟨h2, hq, hn⟩
    refine ⟨h2, RT.trans hl.msame hq.q.msame, fun k hk' => ?_⟩
    exact loaded_of_newKey h2 (hn k hk') (by rw [hq.store, hst]; exact hmem) hk hc (fun _ => hc)

/-- what a key handed out by a cache for the exact meta `m` satisfies. -/
def KeyOut (ρ : RevCtx) (t i : Int) (m : KeyMeta) (w : World) (k : Nat) : Prop :=
  ∃ ko : KeyObj, w.keys[k]? = some ko ∧ ko.created = m.created ∧
    (∃ r ∈ w.store, r.kid = m.kid ∧ r.created = m.created) ∧
    ∀ τ m0, ρ = some (τ, m0) → m0 = m → ko.revoked = true ∨ t ≤ τ + i

/-- a cache hit: the key object, its stamp and the freshness of its revoked flag. -/
theorem hit_out {ρ : RevCtx} {D : List Row → Prop} {t : Int} {w w' : World} {c : Nat} {m : KeyMeta} {i : Int} {k : Nat}
    (h : St ρ D t w) (hh : Hit w c m i k) (hw : CW w w') :
    (readMeta w c m).kid = m.kid ∧ (m.created ≠ 0 → readMeta w c m = m) ∧
      ∃ ko : KeyObj, w'.keys[k]? = some ko ∧ (keyAt w k).created = ko.created ∧ (keyAt w k).revoked = ko.revoked ∧
        KeyOut ρ t i (readMeta w c m) w' k := by
  obtain ⟨e, he, ho, hfr⟩ := hh
  obtain ⟨hmem, hkid, hex⟩ := readMeta_facts h he
  have g := h.good c _ e hmem
  obtain ⟨ko, hk, hc, hs⟩ := g.coh
  rw [ho] at hk
  obtain ⟨k1, e1, c1, -⟩ := hw.ext.keys _ _ hk
  obtain ⟨k1', e1', r1⟩ := hw.rev _ _ hk
  rw [e1] at e1'; cases e1'
  refine ⟨hkid, hex, k1, e1, by rw [keyAt_of_get hk, c1], by rw [keyAt_of_get hk, r1], k1, e1, c1.trans hc, ?_, ?_⟩
  · obtain ⟨r, hr, hh⟩ := g.stored
    exact ⟨r, hw.ext.store r hr, hh⟩
  · intro τ m0 hρ hm
    rw [r1]
    rcases hs τ m0 hρ hm.symm with h1 | h1
    · left; exact h1
    · rw [keyAt_of_get hk] at hfr
      unfold isReloadRequired at hfr
      cases hrv : ko.revoked
      · right
        rw [hrv] at hfr
        simp only [Bool.false_eq_true, if_false, decide_eq_false_iff_not] at hfr
        rw [h.now] at hfr
        omega
      · left; rfl

/-- `getOrLoadSystemKey` for a real stamp: the key has that stamp, its row is stored, and if it is
the revoked row its flag is set unless the revocation could not be known yet. -/
theorem getOrLoadSystemKey_wp {ρ : RevCtx} {D : List Row → Prop} {t : Int} (x : Ctx) (p : KeyMeta) (hp : p.created ≠ 0)
    (w : World) (h : St ρ D t w) :
    Wp (getOrLoadSystemKey x p) w fun r w' =>
      St ρ D t w' ∧ MSame w w' ∧ ∀ k, r = .ok k → KeyOut ρ t x.pol.revokeInterval p w' k := by
  unfold getOrLoadSystemKey
  apply Wp.mono (getOrLoad_wp (LP := fun c _ _ => c = p.created) (fun _ _ _ _ h _ => h) x.skCache p
    (loadSystemKey_ok p) x.pol.revokeInterval w h)
  intro r w' ⟨h1, hms, hk⟩
  refine ⟨h1, hms, fun k hr => ?_⟩
  rcases (hk k hr).1 with ⟨hh, hw⟩ | hres
  · obtain ⟨-, hex, ko, -, -, -, hout⟩ := hit_out h hh hw.cw
    rw [hex hp] at hout; exact hout
  · obtain ⟨ko, hko, hlp, hst, hrev⟩ := hres
    refine ⟨ko, hko, hlp, ?_, ?_⟩
    · rw [hlp] at hst; exact hst
    · intro τ m0 hρ hm
      left; exact hrev τ m0 hρ (by rw [hm, hlp])

/-- `QE`: a step below the cache layer (it may write the metastore). -/
structure QE (w w' : World) : Prop where
  ext : Ext w w'
  q : Q0 w w'

instance : RT QE where
  refl w := ⟨Ext.refl w, RT.refl w⟩
  trans h1 h2 := ⟨h1.ext.trans h2.ext, RT.trans h1.q h2.q⟩

theorem QES.qe {w w' : World} (h : QES w w') : QE w w' := ⟨h.ext, h.q⟩
theorem NewKey.qe {w w' : World} {k : Nat} {c : Int} {b : Bool} (h : NewKey w k c b) (hq : QE w w') : NewKey w' k c b :=
  h.mono hq.ext hq.q
theorem LogOnly.qes {w w' : World} (hl : LogOnly w w') : QES w w' := by
  obtain ⟨l, rfl⟩ := hl
  exact ⟨Ext.of_eq rfl rfl rfl rfl rfl rfl rfl (Nat.le_refl _) (Nat.le_refl _) (Nat.le_refl _), Q0.of_eq rfl rfl rfl, rfl⟩

theorem mustLoadLatest_wp (k : KeyId) (w : World) (hf : w.faults = []) :
    Wp (mustLoadLatest k) w fun r w' => LogOnly w w' ∧ ∀ r0, r = .ok r0 → latestRow w.store k = some r0 := by
  unfold mustLoadLatest
  apply Wp.bind
  apply Wp.mono (msLoadLatest_wp k w hf)
  intro r w1 ⟨hr, hl⟩
  subst hr
  simp only []
  cases hlr : latestRow w.store k with
  | none => exact ⟨hl, fun r0 h0 => by cases h0⟩
  | some r1 => exact ⟨hl, fun r0 h0 => by cases h0; rfl⟩

/-- `tryStoreSystemKey` for a key stamped with the truncated clock. -/
theorem tryStoreSystemKey_wp {ρ : RevCtx} {x : Ctx} {t : Int} {s0 : List Row} (sk : Nat) (w : World)
    (h : St ρ (Delta ρ x t s0) t w) (hc : (keyAt w sk).created = keyTimestamp t x.pol.precision)
    (hpos : 0 < keyTimestamp t x.pol.precision) :
    Wp (tryStoreSystemKey sk) w fun r w' => St ρ (Delta ρ x t s0) t w' ∧ QE w w' ∧
      (r = .ok true → ∃ r0 ∈ w'.store, r0.kid = .sk ∧ r0.created = keyTimestamp t x.pol.precision ∧ r0.revoked = false) ∧
      (r = .ok false → ∃ r1 ∈ w'.store, r1.kid = .sk ∧ r1.created = keyTimestamp t x.pol.precision) := by
  unfold tryStoreSystemKey
  apply Wp.bind; apply Wp.keyObj; simp only []
  have hq1 : QES w (withKey sk (fun m => kmsEncrypt m) w).2 :=
    ⟨withKey_ext _ _ (fun m => kmsEncrypt_ext m) w, withKey_q0 _ _ (fun m => kmsEncrypt_q0 m) w,
     withKey_ss _ _ (fun m => kmsEncrypt_ss m) w⟩
  refine Wp.bind_world (fun e => ⟨h.qes hq1, hq1.qe, fun hh => (by cases hh), fun hh => (by cases hh)⟩) (fun enc => ?_)
  have h1 := h.qes hq1
  generalize (withKey sk (fun m => kmsEncrypt m) w).2 = w1 at hq1 h1 ⊢
  apply Wp.mono (msStore_wp _ w1 h1.faults)
  intro r w2 hcase
  simp only at hcase
  rcases hcase with ⟨hr, hnone, l, rfl⟩ | ⟨hr, hsome, hl⟩
  · subst hr
    have h2 : St ρ (Delta ρ x t s0) t { w1 with store := w1.store ++
        [{ kid := .sk, created := (keyAt w sk).created, revoked := false, enc := enc, parent := none }], log := l } := by
      refine h1.addRow _ l hnone (by show (keyAt w sk).created ≠ 0; rw [hc]; omega) (fun p hp => by cases hp) rfl ?_
      intro r hr
      simp only [List.mem_append, List.mem_singleton] at hr
      rcases hr with hr | hr
      · exact h1.sto.delta r hr
      · subst hr; exact Or.inr ⟨rfl, hc, Or.inl rfl⟩
    refine ⟨h2, RT.trans hq1.qe ⟨?_, Q0.of_eq rfl rfl rfl⟩, fun _ => ?_, fun hh => (by cases hh)⟩
    · exact ⟨rfl, rfl, rfl, fun r h => List.mem_append_left _ h, fun _ s h => ⟨s, h, rfl, Nat.le_refl _, Nat.le_refl _⟩,
        fun _ k h => ⟨k, h, rfl, rfl, rfl, id⟩, fun _ b h => ⟨b, h, rfl, id⟩, Nat.le_refl _, Nat.le_refl _, Nat.le_refl _⟩
    · exact ⟨_, List.mem_append_right _ (List.mem_singleton.mpr rfl), rfl, hc, rfl⟩
  · subst hr
    refine ⟨h1.logOnly hl, RT.trans hq1.qe hl.qes.qe, fun hh => (by cases hh), fun _ => ?_⟩
    cases hfr : findRow w1.store ⟨.sk, (keyAt w sk).created⟩ with
    | none => rw [hfr] at hsome; cases hsome
    | some r1 =>
      obtain ⟨hm, hk, hcr⟩ := findRow_some hfr
      exact ⟨r1, hl.qes.ext.store r1 hm, hk, hcr.trans hc⟩

/-- `createSK`: the new key if the metastore took it, else the latest stored system key (whose stamp
is then at least the stamp the new key would have had). -/
theorem createSK_wp {ρ : RevCtx} {x : Ctx} {t : Int} {s0 : List Row} (w : World)
    (h : St ρ (Delta ρ x t s0) t w) (hpos : 0 < keyTimestamp t x.pol.precision) :
    Wp (loadLatestOrCreateSystemKey.createSK x) w fun r w' => St ρ (Delta ρ x t s0) t w' ∧ MSame w w' ∧
      ∀ k, r = .ok k → ∃ r0 ∈ w'.store, r0.kid = .sk ∧ NewKey w' k r0.created r0.revoked ∧
        keyTimestamp t x.pol.precision ≤ r0.created := by
  unfold loadLatestOrCreateSystemKey.createSK
  apply Wp.bind
  apply Wp.mono (generateKey_wp x w h)
  intro r w1 ⟨h1, hq1, hn1⟩
  cases r with
  | error e => exact ⟨h1, hq1.q.msame, fun k hk => by cases hk⟩
  | ok sk =>
    simp only []
    have hn := hn1 sk rfl
    have hc : (keyAt w1 sk).created = keyTimestamp t x.pol.precision := by
      obtain ⟨⟨ko, hk, hc, -⟩, -⟩ := hn
      rw [keyAt_of_get hk]; exact hc
    apply Wp.bind; apply Wp.tryM
    apply Wp.mono (tryStoreSystemKey_wp sk w1 h1 hc hpos)
    intro r w2 ⟨h2, hq2, htrue, hfalse⟩
    simp only []
    have hms2 : MSame w w2 := RT.trans hq1.q.msame hq2.q.msame
    cases r with
    | error e =>
      simp only []
      have hq3 : QES w2 (keyCloseRaw sk w2).2 := ⟨keyCloseRaw_ext sk w2, keyCloseRaw_q0 sk w2, keyCloseRaw_ss sk w2⟩
      refine Wp.bind_unit (keyCloseRaw_ok sk w2) ?_
      exact ⟨h2.qes hq3, RT.trans hms2 hq3.q.msame, fun k hk => by cases hk⟩
    | ok b =>
      cases b with
      | true =>
        simp only []
        obtain ⟨r0, hr0, hk0, hc0, hv0⟩ := htrue rfl
        refine ⟨h2, hms2, fun k hk => ?_⟩
        cases hk
        refine ⟨r0, hr0, hk0, ?_, by rw [hc0]; exact Int.le_refl _⟩
        rw [hc0, hv0]; exact hn.qe hq2
      | false =>
        simp only []
        obtain ⟨r1, hr1, hk1, hc1⟩ := hfalse rfl
        have hq3 : QES w2 (keyCloseRaw sk w2).2 := ⟨keyCloseRaw_ext sk w2, keyCloseRaw_q0 sk w2, keyCloseRaw_ss sk w2⟩
        refine Wp.bind_unit (keyCloseRaw_ok sk w2) ?_
        have h3 := h2.qes hq3
        have hms3 : MSame w (keyCloseRaw sk w2).2 := RT.trans hms2 hq3.q.msame
        have hr1' : r1 ∈ (keyCloseRaw sk w2).2.store := by rw [hq3.store]; exact hr1
        generalize (keyCloseRaw sk w2).2 = w3 at h3 hms3 hr1'
        apply Wp.bind
        apply Wp.mono (mustLoadLatest_wp .sk w3 h3.faults)
        intro r w4 ⟨hl, hlat⟩
        have h4 := h3.logOnly hl
        have hms4 : MSame w w4 := RT.trans hms3 hl.msame
        cases r with
        | error e => exact ⟨h4, hms4, fun k hk => by cases hk⟩
        | ok r0 =>
          simp only []
          obtain ⟨hm0, hk0, hmax⟩ := latestRow_some (hlat r0 rfl)
          apply Wp.mono (systemKeyFromEKR_wp r0 w4 h4)
          intro r w5 ⟨h5, hq5, hn5⟩
          refine ⟨h5, RT.trans hms4 hq5.q.msame, fun k hk => ?_⟩
          refine ⟨r0, ?_, hk0, hn5 k hk, ?_⟩
          · rw [hq5.store]; exact hl.qes.ext.store r0 hm0
          · rw [← hc1]; exact hmax r1 hr1' hk1

/-- what the system-key loader guarantees about the stamp `c` of the key it returns: not expired
(for policies under which a key is not born expired); and if it is the revoked row, then no later
stamp could have been created. -/
def LPsk (ρ : RevCtx) (x : Ctx) (t : Int) : Int → Bool → World → Prop := fun c _ _ =>
  (BornValid x.pol → isExpired t c x.pol.expireAfter = false) ∧
  ∀ τ m0, ρ = some (τ, m0) → m0 = ⟨.sk, c⟩ → keyTimestamp t x.pol.precision ≤ c

theorem LPsk_mono (ρ : RevCtx) (x : Ctx) (t : Int) : LPMono (LPsk ρ x t) := fun _ _ _ _ h _ => h

theorem loadLatestOrCreateSystemKey_ok {ρ : RevCtx} {x : Ctx} {t : Int} {s0 : List Row}
    (hpos : 0 < keyTimestamp t x.pol.precision) :
    LoaderOK ρ (Delta ρ x t s0) t (LPsk ρ x t) (fun _ => loadLatestOrCreateSystemKey x) ⟨.sk, 0⟩ := by
  intro w h
  show Wp (loadLatestOrCreateSystemKey x) w _
  unfold loadLatestOrCreateSystemKey
  apply Wp.bind
  apply Wp.mono (msLoadLatest_wp .sk w h.faults)
  intro r w1 ⟨hr, hl⟩
  subst hr
  simp only []
  have h1 := h.logOnly hl
  have hst : w1.store = w.store := by obtain ⟨l, rfl⟩ := hl; rfl
  apply Wp.bind; apply Wp.get; simp only []
  have create : Wp (loadLatestOrCreateSystemKey.createSK x) w1 fun r w' =>
      St ρ (Delta ρ x t s0) t w' ∧ MSame w w' ∧ ∀ k, r = .ok k → Loaded ρ (LPsk ρ x t) ⟨.sk, 0⟩ w' k := by
    apply Wp.mono (createSK_wp w1 h1 hpos)
    intro r w2 ⟨h2, hms, hk⟩
    refine ⟨h2, RT.trans hl.msame hms, fun k hr => ?_⟩
    obtain ⟨r0, hr0, hk0, hn, hle⟩ := hk k hr
    refine loaded_of_newKey h2 hn hr0 hk0 ⟨fun hb => isExpired_mono hle (hb t), fun _ _ _ _ => hle⟩ (fun h0 => absurd rfl h0)
  cases hlr : latestRow w.store .sk with
  | none => simp only []; exact create
  | some r0 =>
    simp only []
    split
    · rename_i hvalid
      obtain ⟨hm0, hk0, -⟩ := latestRow_some hlr
      apply Wp.mono (systemKeyFromEKR_wp r0 w1 h1)
      intro r w2 ⟨h2, hq, hn⟩
      refine ⟨h2, RT.trans hl.msame hq.q.msame, fun k hr => ?_⟩
      have hmem : r0 ∈ w2.store := by rw [hq.store, hst]; exact hm0
      have hv : isExpired t r0.created x.pol.expireAfter = false ∧ r0.revoked = false := by
        unfold isEnvelopeInvalid at hvalid
        rw [h1.now] at hvalid
        cases h1' : isExpired t r0.created x.pol.expireAfter <;> cases h2' : r0.revoked <;> simp [h1', h2'] at hvalid
        exact ⟨rfl, rfl⟩
      refine loaded_of_newKey h2 (hn k hr) hmem hk0 ⟨fun _ => hv.1, ?_⟩ (fun h0 => absurd rfl h0)
      intro τ m0 hρ hm
      have := (h2.sto.rev τ m0 hρ).2 r0 hmem (by rw [hm]; exact hk0) (by rw [hm])
      rw [hv.2] at this; cases this
    · exact create

end AsherahVerif.Env
