import AsherahVerif.Proofs.EnvResNoCache
/-
C09 — closing everything: `closeAllOps w` closes every session and every factory of `w` that is
still open; it is a well-formed continuation of any history and leaves everything closed.
-/
set_option linter.unusedVariables false
namespace AsherahVerif.Env.Res

theorem applyOp_closeSession_flags (w : World) (s : Nat) :
    (applyOp w (.closeSession s)).2.sessions = setAt w.sessions s (fun x => { x with closed := true }) ∧
    (applyOp w (.closeSession s)).2.facs = w.facs := by
  rw [applyOp_snd_eq]
  simp only [bind_run, beginOp, modify_run, closeSession, get_run]
  split
  · exact ⟨rfl, rfl⟩
  · have := cacheClose_ext (w.sessions.getD s default).ikCache
      { w with log := [], faults := [], sessions := setAt w.sessions s fun x => { x with closed := true } }
    exact ⟨this.sessions, this.facs⟩

theorem applyOp_closeFactory_flags (w : World) (f : Nat) :
    (applyOp w (.closeFactory f)).2.facs = setAt w.facs f (fun x => { x with closed := true }) ∧
    (applyOp w (.closeFactory f)).2.sessions = w.sessions := by
  rw [applyOp_snd_eq]
  simp only [bind_run, beginOp, modify_run, closeFactory, get_run]
  let w1 : World := { w with log := [], faults := [], facs := setAt w.facs f fun x => { x with closed := true } }
  have key : ∀ x : M Unit, Extends x → (x w1).2.facs = w1.facs ∧ (x w1).2.sessions = w1.sessions :=
    fun x hx => ⟨(hx w1).facs, (hx w1).sessions⟩
  cases hsi : (w.facs.getD f default).sharedIk with
  | some c0 => exact key _ (Extends.bind (cacheClose_ext c0) fun _ => cacheClose_ext _)
  | none => exact key _ (cacheClose_ext _)


/-- closing a list of distinct, not yet closed sessions, one after the other. -/
theorem closeSessions_run (l : List Nat) : ∀ (w : World), l.Nodup →
    (∀ s, s ∈ l → ∃ ss, w.sessions[s]? = some ss ∧ ss.closed = false) →
    validFrom w (l.map Op.closeSession) ∧
    (runOps w (l.map Op.closeSession)).2.facs = w.facs ∧
    (∀ (s : Nat) (ss' : Session), (runOps w (l.map Op.closeSession)).2.sessions[s]? = some ss' →
      ∃ ss, w.sessions[s]? = some ss ∧ (ss'.closed = true ↔ s ∈ l ∨ ss.closed = true)) := by
  induction l with
  | nil => intro w _ _; exact ⟨trivial, rfl, fun s ss' h => ⟨ss', h, by simp⟩⟩
  | cons a t ih =>
    intro w hnd hopen
    simp only [List.nodup_cons] at hnd
    obtain ⟨ssa, hssa, hcla⟩ := hopen a List.mem_cons_self
    obtain ⟨hs1, hf1⟩ := applyOp_closeSession_flags w a
    have hopen' : ∀ s, s ∈ t → ∃ ss, (applyOp w (.closeSession a)).2.sessions[s]? = some ss ∧ ss.closed = false := by
      intro s hs
      obtain ⟨ss, hss, hcl⟩ := hopen s (List.mem_cons_of_mem _ hs)
      have hne : s ≠ a := fun e => hnd.1 (e ▸ hs)
      refine ⟨ss, ?_, hcl⟩
      rw [hs1, setAt_getElem?]; simp [hne, hss]
    obtain ⟨v, hfac, hflag⟩ := ih (applyOp w (.closeSession a)).2 hnd.2 hopen'
    simp only [List.map_cons]
    refine ⟨⟨⟨ssa, hssa, hcla⟩, v⟩, ?_, ?_⟩
    · rw [runOps_snd_cons, hfac, hf1]
    · intro s ss' h
      rw [runOps_snd_cons] at h
      obtain ⟨ss1, h1, hiff⟩ := hflag s ss' h
      rw [hs1] at h1
      obtain ⟨ss0, h0, _, _, _, e4⟩ := ses_setAt_lookup _ _ _ _ h1
      refine ⟨ss0, h0, ?_⟩
      rw [hiff, e4]
      simp only [List.mem_cons]
      constructor
      · rintro (h | h | h)
        · exact Or.inl (Or.inr h)
        · exact Or.inl (Or.inl h)
        · exact Or.inr h
      · rintro ((h | h) | h)
        · exact Or.inr (Or.inl h)
        · exact Or.inl h
        · exact Or.inr (Or.inr h)

theorem closeFactories_run (l : List Nat) : ∀ (w : World), l.Nodup →
    (∀ f, f ∈ l → ∃ fac, w.facs[f]? = some fac ∧ fac.closed = false) →
    validFrom w (l.map Op.closeFactory) ∧
    (runOps w (l.map Op.closeFactory)).2.sessions = w.sessions ∧
    (∀ (f : Nat) (fac' : Factory), (runOps w (l.map Op.closeFactory)).2.facs[f]? = some fac' →
      ∃ fac, w.facs[f]? = some fac ∧ (fac'.closed = true ↔ f ∈ l ∨ fac.closed = true)) := by
  induction l with
  | nil => intro w _ _; exact ⟨trivial, rfl, fun s ss' h => ⟨ss', h, by simp⟩⟩
  | cons a t ih =>
    intro w hnd hopen
    simp only [List.nodup_cons] at hnd
    obtain ⟨faca, hfaca, hcla⟩ := hopen a List.mem_cons_self
    obtain ⟨hf1, hs1⟩ := applyOp_closeFactory_flags w a
    have hopen' : ∀ f, f ∈ t → ∃ fac, (applyOp w (.closeFactory a)).2.facs[f]? = some fac ∧ fac.closed = false := by
      intro f hf
      obtain ⟨fac, hfac, hcl⟩ := hopen f (List.mem_cons_of_mem _ hf)
      have hne : f ≠ a := fun e => hnd.1 (e ▸ hf)
      refine ⟨fac, ?_, hcl⟩
      rw [hf1, setAt_getElem?]; simp [hne, hfac]
    obtain ⟨v, hses, hflag⟩ := ih (applyOp w (.closeFactory a)).2 hnd.2 hopen'
    simp only [List.map_cons]
    refine ⟨⟨⟨faca, hfaca, hcla⟩, v⟩, ?_, ?_⟩
    · rw [runOps_snd_cons, hses, hs1]
    · intro f fac' h
      rw [runOps_snd_cons] at h
      obtain ⟨fac1, h1, hiff⟩ := hflag f fac' h
      rw [hf1] at h1
      obtain ⟨fac0, h0, _, _, _, e4⟩ := fac_setAt_lookup _ _ _ _ h1
      refine ⟨fac0, h0, ?_⟩
      rw [hiff, e4]
      simp only [List.mem_cons]
      constructor
      · rintro (h | h | h)
        · exact Or.inl (Or.inr h)
        · exact Or.inl (Or.inl h)
        · exact Or.inr h
      · rintro ((h | h) | h)
        · exact Or.inr (Or.inl h)
        · exact Or.inl h
        · exact Or.inr (Or.inr h)

/-- `Close` on every session that is still open, then on every factory that is still open. -/
def closeAllOps (w : World) : List Op :=
  ((List.range w.sessions.length).filter fun s => !(w.sessions.getD s default).closed).map Op.closeSession ++
  ((List.range w.facs.length).filter fun f => !(w.facs.getD f default).closed).map Op.closeFactory

theorem validFrom_append (w : World) (a b : List Op) :
    validFrom w (a ++ b) ↔ validFrom w a ∧ validFrom (runOps w a).2 b := by
  induction a generalizing w with
  | nil => simp [validFrom, runOps]
  | cons op rest ih => simp only [List.cons_append, validFrom, ih, runOps_snd_cons, and_assoc]

theorem runOps_snd_append (w : World) (a b : List Op) : (runOps w (a ++ b)).2 = (runOps (runOps w a).2 b).2 := by
  induction a generalizing w with
  | nil => rfl
  | cons op rest ih => rw [List.cons_append, runOps_snd_cons, runOps_snd_cons, ih]

theorem closeAll_spec (w : World) :
    validFrom w (closeAllOps w) ∧ CapsPos (closeAllOps w) ∧ allClosed (runOps w (closeAllOps w)).2 := by
  let ls := (List.range w.sessions.length).filter fun s => !(w.sessions.getD s default).closed
  let lf := (List.range w.facs.length).filter fun f => !(w.facs.getD f default).closed
  have hls : ls.Nodup := List.Nodup.sublist List.filter_sublist List.nodup_range
  have hlf : lf.Nodup := List.Nodup.sublist List.filter_sublist List.nodup_range
  have hopenS : ∀ s, s ∈ ls → ∃ ss, w.sessions[s]? = some ss ∧ ss.closed = false := by
    intro s hs
    simp only [ls, List.mem_filter, List.mem_range] at hs
    refine ⟨w.sessions[s], List.getElem?_eq_getElem hs.1, ?_⟩
    have := hs.2
    rw [getD_eq_of_getElem? (List.getElem?_eq_getElem hs.1)] at this
    simpa using this
  obtain ⟨v1, hf1, hflag1⟩ := closeSessions_run ls w hls hopenS
  let w1 := (runOps w (ls.map Op.closeSession)).2
  have hopenF : ∀ f, f ∈ lf → ∃ fac, w1.facs[f]? = some fac ∧ fac.closed = false := by
    intro f hf
    simp only [lf, List.mem_filter, List.mem_range] at hf
    refine ⟨w.facs[f], by show (runOps w _).2.facs[f]? = _; rw [hf1]; exact List.getElem?_eq_getElem hf.1, ?_⟩
    have := hf.2
    rw [getD_eq_of_getElem? (List.getElem?_eq_getElem hf.1)] at this
    simpa using this
  obtain ⟨v2, hs2, hflag2⟩ := closeFactories_run lf w1 hlf hopenF
  refine ⟨(validFrom_append _ _ _).2 ⟨v1, v2⟩, ?_, ?_⟩
  · intro op hop
    simp only [closeAllOps, List.mem_append, List.mem_map] at hop
    rcases hop with ⟨s, _, rfl⟩ | ⟨f, _, rfl⟩ <;> trivial
  · show allClosed (runOps w (ls.map Op.closeSession ++ lf.map Op.closeFactory)).2
    rw [runOps_snd_append]
    constructor
    · intro ss' hm
      rw [hs2] at hm
      obtain ⟨s, hlt, rfl⟩ := List.getElem_of_mem hm
      have h' := List.getElem?_eq_getElem hlt
      obtain ⟨ss, hss, hiff⟩ := hflag1 s _ h'
      rw [hiff]
      by_cases hc : ss.closed = true
      · exact Or.inr hc
      · left
        simp only [ls, List.mem_filter, List.mem_range]
        exact ⟨getElem?_lt hss, by rw [getD_eq_of_getElem? hss]; simpa using hc⟩
    · intro fac' hm
      obtain ⟨f, hlt, rfl⟩ := List.getElem_of_mem hm
      have h' := List.getElem?_eq_getElem hlt
      obtain ⟨fac1, hfac1, hiff⟩ := hflag2 f _ h'
      rw [hiff]
      by_cases hc : fac1.closed = true
      · exact Or.inr hc
      · left
        have hfac0 : w.facs[f]? = some fac1 := by rw [← hf1]; exact hfac1
        simp only [lf, List.mem_filter, List.mem_range]
        exact ⟨getElem?_lt hfac0, by rw [getD_eq_of_getElem? hfac0]; simpa using hc⟩

end AsherahVerif.Env.Res
