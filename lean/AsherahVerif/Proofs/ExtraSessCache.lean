import AsherahVerif.Proofs.SessCache
/-
C16 (strengthening): exact usage count (`users = number of holders`), exact life-cycle sum
(`cached + removers + closes = 1` for every session ever created), unique cache keys, and the
progress schedule "every holder closes, then every remover runs".
-/
namespace AsherahVerif.SessCache

def keysOf (c : List (Nat × Nat)) : List Nat := c.map (·.1)

theorem erase_keys_nodup (c : List (Nat × Nat)) (k : Nat) (h : (keysOf c).Nodup) : (keysOf (erase c k)).Nodup := by
  unfold keysOf erase
  exact List.Nodup.sublist (List.Sublist.map _ List.filter_sublist) h

theorem erase_not_mem (c : List (Nat × Nat)) (k : Nat) : k ∉ keysOf (erase c k) := by
  unfold keysOf erase
  intro h
  rw [List.mem_map] at h
  obtain ⟨p, hp, hk⟩ := h
  rw [List.mem_filter] at hp
  have := hp.2
  simp [hk] at this

theorem erase_mem_keys {c : List (Nat × Nat)} {k x : Nat} (h : x ∈ keysOf (erase c k)) : x ∈ keysOf c := by
  unfold keysOf erase at *
  exact (List.Sublist.map _ List.filter_sublist).subset h

theorem erase_of_not_mem (c : List (Nat × Nat)) (k : Nat) (h : k ∉ keysOf c) : erase c k = c := by
  unfold keysOf at h
  unfold erase
  rw [List.filter_eq_self]
  intro p hp
  have : p.1 ≠ k := fun e => h (List.mem_map.mpr ⟨p, hp, e⟩)
  simpa using this

theorem lookup_none_not_mem {c : List (Nat × Nat)} {k : Nat} (h : lookup c k = none) : k ∉ keysOf c := by
  unfold lookup keysOf at *
  induction c with
  | nil => simp
  | cons a t ih =>
    simp only [List.find?_cons] at h
    by_cases hak : a.1 = k
    · have hb : (a.1 == k) = true := by simpa using hak
      simp [hb] at h
    · have hb : (a.1 == k) = false := by simpa using hak
      simp only [hb] at h
      have := ih h
      simp only [List.map_cons, List.mem_cons, not_or]
      exact ⟨fun e => hak e.symm, this⟩

/-- with unique keys, erasing a present key removes EXACTLY one entry. -/
theorem inCache_erase_exact {c : List (Nat × Nat)} {k o : Nat} (hn : (keysOf c).Nodup)
    (h : lookup c k = some o) (x : Nat) :
    inCache (erase c k) x + (if x = o then 1 else 0) = inCache c x := by
  induction c with
  | nil => simp [lookup] at h
  | cons a t ih =>
    have hnt : (keysOf t).Nodup := by
      unfold keysOf at *; simp only [List.map_cons, List.nodup_cons] at hn; exact hn.2
    have hat : a.1 ∉ keysOf t := by
      unfold keysOf at *; simp only [List.map_cons, List.nodup_cons] at hn; exact hn.1
    by_cases hak : a.1 = k
    · have hb : (a.1 == k) = true := by simpa using hak
      have ho : a.2 = o := by
        unfold lookup at h
        simp only [List.find?_cons, hb, Option.map_some] at h
        injection h
      have he : erase (a :: t) k = t := by
        have hne : (a.1 != k) = false := by simp [hak]
        have : erase (a :: t) k = erase t k := by
          unfold erase; simp only [List.filter_cons, hne, Bool.false_eq_true, if_false]
        rw [this]; exact erase_of_not_mem t k (hak ▸ hat)
      rw [he]
      unfold inCache
      simp only [List.map_cons, List.count_cons, ho, beq_iff_eq]
      by_cases hx : x = o
      · subst hx; simp
      · have : ¬ (o = x) := fun e => hx e.symm
        simp [hx, this]
    · have hb : (a.1 == k) = false := by simpa using hak
      have hl : lookup t k = some o := by
        unfold lookup at h ⊢
        simpa only [List.find?_cons, hb] using h
      have hne : (a.1 != k) = true := by simp [hak]
      have he : erase (a :: t) k = a :: erase t k := by
        unfold erase; simp only [List.filter_cons, hne, if_true]
      rw [he]
      have := ih hnt hl
      unfold inCache at this ⊢
      simp only [List.map_cons, List.count_cons]
      omega

theorem keys_append_nodup (c : List (Nat × Nat)) (k o : Nat) (hn : (keysOf c).Nodup) (hk : k ∉ keysOf c) :
    (keysOf (c ++ [(k, o)])).Nodup := by
  unfold keysOf at *
  simp only [List.map_append, List.map_cons, List.map_nil]
  rw [List.nodup_append]
  refine ⟨hn, by simp, ?_⟩
  intro a ha b hb
  simp only [List.mem_singleton] at hb
  subst hb
  intro e; subst e; exact hk ha

/-- the exact invariant (on top of the safety invariant `Inv`). -/
structure InvEq (st : St) : Prop where
  inv : Inv st
  keys : (keysOf st.cache).Nodup
  usersEq : ∀ s, (at' st.sess s).users = (st.holders.count s : Int)
  lifeEq : ∀ s, s < st.sess.length → inCache st.cache s + (at' st.sess s).removers + (at' st.sess s).closes = 1
  cf : st.closedFactory = true → st.cache = []

theorem invEq_init : InvEq init := by
  refine ⟨inv_init, ?_, ?_, ?_, ?_⟩
  · simp [keysOf, init]
  · intro s; simp [init, at', default_sess]
  · intro s h; simp [init] at h
  · intro _; rfl

theorem eq_leave (st : St) (k s : Nat) (h : InvEq st) (hk : lookup st.cache k = some s) :
    InvEq { st with cache := erase st.cache k, sess := spawnRemover Facts.good st.sess s } := by
  have hpos := lookup_inCache_pos hk
  have hr := h.inv.range s (by omega)
  have hf := inCache_erase_exact h.keys hk
  refine ⟨inv_leave st k s h.inv hk, erase_keys_nodup _ _ h.keys, ?_, ?_, ?_⟩
  · intro x
    have ⟨hu, _, _⟩ := at_spawn st.sess s x
    dsimp only
    rw [hu]; exact h.usersEq x
  · intro x hx
    dsimp only at hx ⊢
    rw [spawn_length] at hx
    have ⟨_, hc, hrm⟩ := at_spawn st.sess s x
    have hl := h.lifeEq x hx
    have hle := hf x
    rw [hc, hrm]
    by_cases hxs : x = s
    · subst hxs
      have : (x = x ∧ x < st.sess.length) := ⟨rfl, hr⟩
      rw [if_pos this]; rw [if_pos rfl] at hle; omega
    · have : ¬ (x = s ∧ x < st.sess.length) := fun e => hxs e.1
      rw [if_neg this]; rw [if_neg hxs] at hle; omega
  · intro hc
    dsimp only at hc ⊢
    rw [h.cf hc]; rfl

theorem eq_new (st : St) (p : Nat) (h : InvEq st) (hp : p ∉ keysOf st.cache) (hcf : st.closedFactory = false) :
    InvEq { st with cache := st.cache ++ [(p, st.sess.length)],
                    sess := st.sess ++ [{ part := p, users := 1, closes := 0, removers := 0 }],
                    holders := st.sess.length :: st.holders } := by
  have hz : inCache st.cache st.sess.length + st.holders.count st.sess.length = 0 := by
    apply Classical.byContradiction; intro hne
    have := h.inv.range st.sess.length (by omega); omega
  refine ⟨inv_new st p h.inv, keys_append_nodup _ _ _ h.keys hp, ?_, ?_, ?_⟩
  · intro x
    dsimp only
    simp only [List.count_cons]
    by_cases hx : x = st.sess.length
    · rw [hx, at_append_eq]; simp; omega
    · have hne : (st.sess.length == x) = false := by simpa using fun e => hx e.symm
      simp only [hne, Bool.false_eq_true, if_false]
      by_cases hlt : x < st.sess.length
      · rw [at_append_lt _ _ _ hlt]; have := h.usersEq x; omega
      · have h0 : st.holders.count x = 0 := by
          apply Classical.byContradiction; intro hc
          have := h.inv.range x (by omega); omega
        rw [at_ge _ _ (by simp; omega), default_sess]; simp [h0]
  · intro x hx
    dsimp only at hx ⊢
    simp only [List.length_append, List.length_cons, List.length_nil] at hx
    simp only [inCache_append]
    by_cases hx2 : x = st.sess.length
    · rw [hx2, at_append_eq]; simp; omega
    · have hne : ¬ (st.sess.length = x) := fun e => hx2 e.symm
      rw [if_neg hne]
      have hlt : x < st.sess.length := by omega
      rw [at_append_lt _ _ _ hlt]; have := h.lifeEq x hlt; omega
  · intro hc
    dsimp only at hc
    rw [hcf] at hc; exact absurd hc (by decide)

theorem step_invEq (st : St) (x : Step) (st' : St) (h : InvEq st) (hs : step Facts.good st x = some st') : InvEq st' := by
  have hinv' : Inv st' := step_inv st x st' h.inv hs
  cases x with
  | getHit p =>
    simp only [step] at hs
    by_cases hcf : st.closedFactory = true
    · simp [hcf] at hs
    · simp only [hcf, Bool.false_eq_true, if_false] at hs
      cases hk : lookup st.cache p with
      | none => simp [hk] at hs
      | some s =>
        simp only [hk, Facts.good, if_true] at hs
        injection hs with hs; subst hs
        have hpos := lookup_inCache_pos hk
        have hr := h.inv.range s (by omega)
        refine ⟨hinv', h.keys, ?_, ?_, fun hc => Bool.noConfusion hc⟩
        · intro y
          dsimp only
          have ⟨hu, _, _⟩ := at_upd_users st.sess s y 1 hr
          rw [hu]
          have := h.usersEq y
          simp only [List.count_cons]
          by_cases hy : y = s
          · subst hy; simp; omega
          · have : (s == y) = false := by simpa using fun e => hy e.symm
            simp [hy, this]; omega
        · intro y hy
          dsimp only at hy ⊢
          rw [upd_length] at hy
          have ⟨_, hc, hrm⟩ := at_upd_users st.sess s y 1 hr
          rw [hc, hrm]; exact h.lifeEq y hy
  | getLoad p victim expired =>
    simp only [step] at hs
    by_cases hcf : st.closedFactory = true
    · simp [hcf] at hs
    · simp only [hcf, Bool.false_eq_true, if_false] at hs
      have ph1 : ∀ c1 l1,
          (match lookup st.cache p with
            | some old => if expired = true then some (erase st.cache p, spawnRemover Facts.good st.sess old) else none
            | none => if expired = true then none else some (st.cache, st.sess)) = some (c1, l1) →
          InvEq { st with cache := c1, sess := l1 } ∧ p ∉ keysOf c1 := by
        intro c1 l1 he
        cases hl : lookup st.cache p with
        | none =>
          simp only [hl] at he
          by_cases hx : expired = true
          · simp [hx] at he
          · simp only [hx, Bool.false_eq_true, if_false] at he
            injection he with he; injection he with e1 e2; subst e1; subst e2
            exact ⟨h, lookup_none_not_mem hl⟩
        | some old =>
          simp only [hl] at he
          by_cases hx : expired = true
          · simp only [hx, if_true] at he
            injection he with he; injection he with e1 e2; subst e1; subst e2
            exact ⟨eq_leave st p old h hl, erase_not_mem _ _⟩
          · simp [hx] at he
      split at hs
      · simp at hs
      · next c1 l1 heq =>
        have ⟨h1, hp1⟩ := ph1 c1 l1 heq
        have ph2 : ∀ c2 l2,
            (match victim with
              | none => some (c1, l1)
              | some vp =>
                match lookup c1 vp with
                | some vs => if vp = p then none else some (erase c1 vp, spawnRemover Facts.good l1 vs)
                | none => none) = some (c2, l2) →
            InvEq { st with cache := c2, sess := l2 } ∧ p ∉ keysOf c2 := by
          intro c2 l2 he
          cases victim with
          | none => simp at he; obtain ⟨rfl, rfl⟩ := he; exact ⟨h1, hp1⟩
          | some vp =>
            simp only at he
            cases hl : lookup c1 vp with
            | none => simp [hl] at he
            | some vs =>
              simp only [hl] at he
              by_cases hvp : vp = p
              · simp [hvp] at he
              · simp only [hvp, if_false] at he
                injection he with he; injection he with e1 e2; subst e1; subst e2
                exact ⟨eq_leave { st with cache := c1, sess := l1 } vp vs h1 hl, fun hm => hp1 (erase_mem_keys hm)⟩
        split at hs
        · simp at hs
        · next c2 l2 heq2 =>
          have ⟨h2, hp2⟩ := ph2 c2 l2 heq2
          simp only [Facts.good, if_true] at hs
          injection hs with hs; subst hs
          have e : st.closedFactory = false := by simpa using hcf
          have h3 := eq_new { st with cache := c2, sess := l2 } p h2 hp2 e
          dsimp only at h3
          rw [e] at h3
          exact h3
  | incr s =>
    simp only [step] at hs
    rw [h.inv.pend] at hs; simp at hs
  | use s =>
    simp only [step] at hs
    by_cases hm : s ∈ st.holders
    · simp only [hm, if_true] at hs
      by_cases hcl : (st.sess.getD s default).closes > 0
      · simp only [hcl, if_true] at hs
        injection hs with hs; subst hs
        exact ⟨hinv', h.keys, h.usersEq, h.lifeEq, h.cf⟩
      · simp only [hcl, if_false] at hs
        injection hs with hs; subst hs; exact h
    · simp [hm] at hs
  | close s =>
    simp only [step] at hs
    by_cases hm : s ∈ st.holders
    · simp only [hm, if_true] at hs
      injection hs with hs; subst hs
      have hc := List.count_pos_iff.mpr hm
      have hr := h.inv.range s (by omega)
      refine ⟨hinv', h.keys, ?_, ?_, h.cf⟩
      · intro y
        dsimp only
        have ⟨hu, _, _⟩ := at_upd_users st.sess s y (-1) hr
        have hu' : (at' (upd st.sess s fun x => { x with users := x.users - 1 }) y).users =
            (at' st.sess y).users + (if y = s then -1 else 0) := by
          have : (fun x : Sess => { x with users := x.users - 1 }) = (fun x : Sess => { x with users := x.users + -1 }) := by
            funext x; simp [Int.sub_eq_add_neg]
          rw [this]; exact hu
        rw [hu']
        have := h.usersEq y
        by_cases hy : y = s
        · subst hy
          have := List.count_erase_self (a := y) (l := st.holders)
          simp; omega
        · have hne : List.count y (st.holders.erase s) = List.count y st.holders := List.count_erase_of_ne hy
          simp [hy, hne]; omega
      · intro y hy
        dsimp only at hy ⊢
        rw [upd_length] at hy
        rw [at_upd]
        by_cases hc' : y = s ∧ y < st.sess.length
        · rw [if_pos hc']; exact h.lifeEq y hy
        · rw [if_neg hc']; exact h.lifeEq y hy
    · simp [hm] at hs
  | remove s =>
    simp only [step] at hs
    by_cases hg : (st.sess.getD s default).removers > 0 ∧ ((st.sess.getD s default).users ≤ 0 ∨ (!Facts.good.removeWaitsForZero) = true)
    · rw [if_pos hg] at hs
      injection hs with hs; subst hs
      have hrm : 0 < (at' st.sess s).removers := by simpa [at'] using hg.1
      refine ⟨hinv', h.keys, ?_, ?_, h.cf⟩
      · intro y
        dsimp only
        rw [at_upd]
        by_cases hc' : y = s ∧ y < st.sess.length
        · rw [if_pos hc']; exact h.usersEq y
        · rw [if_neg hc']; exact h.usersEq y
      · intro y hy
        dsimp only at hy ⊢
        rw [upd_length] at hy
        rw [at_upd]
        by_cases hc' : y = s ∧ y < st.sess.length
        · rw [if_pos hc']
          have := h.lifeEq y hy
          obtain ⟨e, _⟩ := hc'; subst e
          simp only; omega
        · rw [if_neg hc']; exact h.lifeEq y hy
    · rw [if_neg hg] at hs; cases hs
  | factoryClose =>
    simp only [step] at hs
    by_cases hcf : st.closedFactory = true
    · simp [hcf] at hs
    · simp only [hcf, Bool.false_eq_true, if_false] at hs
      injection hs with hs; subst hs
      refine ⟨hinv', by simp [keysOf], ?_, ?_, fun _ => rfl⟩
      · intro y
        dsimp only
        have ⟨_, hu, _, _⟩ := at_spawnAll st.cache st.sess y
        rw [hu]; exact h.usersEq y
      · intro y hy
        dsimp only at hy ⊢
        have ⟨hl, _, hc, hrm⟩ := at_spawnAll st.cache st.sess y
        rw [hl] at hy
        rw [hc, hrm, if_pos hy]
        have := h.lifeEq y hy
        have h0 : inCache [] y = 0 := by simp [inCache]
        rw [h0]; omega

theorem run_invEq (st : St) (h : InvEq st) (sched : List Step) : InvEq (run Facts.good st sched) := by
  induction sched generalizing st with
  | nil => exact h
  | cons x rest ih =>
    simp only [run]
    cases hs : step Facts.good st x with
    | none => exact ih st h
    | some st' => exact ih st' (step_invEq st x st' h hs)

theorem run_append (F : Facts) (s : St) (a b : List Step) : run F s (a ++ b) = run F (run F s a) b := by
  induction a generalizing s with
  | nil => rfl
  | cons st rest ih =>
    simp only [List.cons_append, run]
    cases step F s st <;> exact ih _

end AsherahVerif.SessCache

namespace AsherahVerif.SessCache

/-! ### progress: every holder closes, then every remover runs -/

/-- the schedule "every holder closes its session, then every remover goroutine is scheduled". -/
def settle (st : St) : List Step :=
  st.holders.map Step.close ++ (List.range st.sess.length).map Step.remove

theorem run_closes (F : Facts) (hs : List Nat) (st : St) (hh : st.holders = hs) :
    (run F st (hs.map Step.close)).holders = [] ∧
    (run F st (hs.map Step.close)).cache = st.cache ∧
    (run F st (hs.map Step.close)).sess.length = st.sess.length ∧
    (run F st (hs.map Step.close)).closedFactory = st.closedFactory := by
  induction hs generalizing st with
  | nil => exact ⟨hh, rfl, rfl, rfl⟩
  | cons o rest ih =>
    have hm : o ∈ st.holders := by rw [hh]; exact List.mem_cons_self
    simp only [List.map_cons, run, step, if_pos hm]
    have := ih { st with sess := upd st.sess o fun x => { x with users := x.users - 1 }, holders := st.holders.erase o } (by
      show st.holders.erase o = rest
      rw [hh]; simp)
    refine ⟨this.1, this.2.1, ?_, this.2.2.2⟩
    rw [this.2.2.1]; exact upd_length _ _ _

theorem remove_step_frame (F : Facts) (st : St) (s : Nat) (st' : St) (hs : step F st (.remove s) = some st') :
    st'.holders = st.holders ∧ st'.cache = st.cache ∧ st'.sess.length = st.sess.length ∧
    st'.closedFactory = st.closedFactory ∧ ∀ x, (at' st'.sess x).removers ≤ (at' st.sess x).removers := by
  simp only [step] at hs
  split at hs
  · injection hs with hs; subst hs
    refine ⟨rfl, rfl, upd_length _ _ _, rfl, ?_⟩
    intro x
    dsimp only
    rw [at_upd]
    by_cases hc : x = s ∧ x < st.sess.length
    · rw [if_pos hc]; simp only; omega
    · rw [if_neg hc]; omega
  · cases hs

theorem run_removes_frame (F : Facts) (l : List Nat) (st : St) :
    (run F st (l.map Step.remove)).holders = st.holders ∧
    (run F st (l.map Step.remove)).cache = st.cache ∧
    (run F st (l.map Step.remove)).sess.length = st.sess.length ∧
    (run F st (l.map Step.remove)).closedFactory = st.closedFactory ∧
    ∀ x, (at' (run F st (l.map Step.remove)).sess x).removers ≤ (at' st.sess x).removers := by
  induction l generalizing st with
  | nil => exact ⟨rfl, rfl, rfl, rfl, fun _ => Nat.le_refl _⟩
  | cons s rest ih =>
    simp only [List.map_cons, run]
    cases hs : step F st (.remove s) with
    | none => exact ih st
    | some st' =>
      have f := remove_step_frame F st s st' hs
      have g := ih st'
      exact ⟨g.1.trans f.1, g.2.1.trans f.2.1, g.2.2.1.trans f.2.2.1, g.2.2.2.1.trans f.2.2.2.1,
        fun x => Nat.le_trans (g.2.2.2.2 x) (f.2.2.2.2 x)⟩

/-- with no holder left, one scheduling of the remover of `s` leaves no remover of `s` behind. -/
theorem remove_done (st : St) (h : InvEq st) (hh : st.holders = []) (s : Nat) :
    (at' (run Facts.good st [.remove s]).sess s).removers = 0 := by
  simp only [run]
  have hu : (at' st.sess s).users = 0 := by rw [h.usersEq s, hh]; simp
  cases hs : step Facts.good st (.remove s) with
  | none =>
    dsimp only
    simp only [step] at hs
    split at hs
    · cases hs
    · next hg =>
      apply Classical.byContradiction; intro hne
      apply hg
      refine ⟨?_, Or.inl ?_⟩
      · show (at' st.sess s).removers > 0; omega
      · show (at' st.sess s).users ≤ 0; omega
  | some st' =>
    dsimp only
    simp only [step] at hs
    split at hs
    · next hg =>
      injection hs with hs; subst hs
      dsimp only
      have hrm : 0 < (at' st.sess s).removers := hg.1
      have hlt : s < st.sess.length := by
        apply Classical.byContradiction; intro hc
        rw [at_ge _ _ (by omega), default_sess] at hrm; simp at hrm
      rw [at_upd, if_pos ⟨rfl, hlt⟩]
      have := h.lifeEq s hlt
      simp only; omega
    · cases hs

theorem run_removes_done (l : List Nat) (st : St) (h : InvEq st) (hh : st.holders = []) :
    ∀ s, s ∈ l → (at' (run Facts.good st (l.map Step.remove)).sess s).removers = 0 := by
  induction l generalizing st with
  | nil => intro s hs; cases hs
  | cons a rest ih =>
    intro s hs
    have e : run Facts.good st ((a :: rest).map Step.remove) =
        run Facts.good (run Facts.good st [.remove a]) (rest.map Step.remove) := by
      rw [← run_append]; rfl
    rw [e]
    have h1 : InvEq (run Facts.good st [.remove a]) := run_invEq st h _
    have hh1 : (run Facts.good st [.remove a]).holders = [] := by
      have := (run_removes_frame Facts.good [a] st).1
      exact this.trans hh
    by_cases hsa : s = a
    · subst hsa
      have d := remove_done st h hh s
      have m := (run_removes_frame Facts.good rest (run Facts.good st [.remove s])).2.2.2.2 s
      omega
    · have : s ∈ rest := by
        rcases List.mem_cons.mp hs with e | e
        · exact absurd e hsa
        · exact e
      exact ih _ h1 hh1 s this

/-- **progress**: after `settle`, nobody holds anything, the cache is untouched, no remover is left,
every session that is not cached has been closed exactly once and every cached one is still open. -/
theorem settle_spec (st : St) (h : InvEq st) :
    let st' := run Facts.good st (settle st)
    InvEq st' ∧ st'.holders = [] ∧ st'.cache = st.cache ∧ st'.sess.length = st.sess.length ∧
    st'.closedFactory = st.closedFactory ∧
    (∀ s, (at' st'.sess s).removers = 0) ∧
    (∀ s, s < st.sess.length → inCache st.cache s = 0 → (at' st'.sess s).closes = 1) ∧
    (∀ s, 0 < inCache st.cache s → (at' st'.sess s).closes = 0) := by
  intro st'
  have hst' : st' = run Facts.good (run Facts.good st (st.holders.map Step.close))
      ((List.range st.sess.length).map Step.remove) := by
    show run Facts.good st (settle st) = _
    unfold settle; rw [run_append]
  have c := run_closes Facts.good st.holders st rfl
  have hmid : InvEq (run Facts.good st (st.holders.map Step.close)) := run_invEq st h _
  have f := run_removes_frame Facts.good (List.range st.sess.length) (run Facts.good st (st.holders.map Step.close))
  have d := run_removes_done (List.range st.sess.length) _ hmid c.1
  rw [← hst'] at f d
  have hinv : InvEq st' := by rw [hst']; exact run_invEq _ hmid _
  have hlen : st'.sess.length = st.sess.length := f.2.2.1.trans c.2.2.1
  have hcache : st'.cache = st.cache := f.2.1.trans c.2.1
  have hrem : ∀ s, (at' st'.sess s).removers = 0 := by
    intro s
    by_cases hlt : s < st.sess.length
    · exact d s (List.mem_range.mpr hlt)
    · rw [at_ge _ _ (by omega), default_sess]
  refine ⟨hinv, f.1.trans c.1, hcache, hlen, f.2.2.2.1.trans c.2.2.2, hrem, ?_, ?_⟩
  · intro s hlt hc
    have := hinv.lifeEq s (by omega)
    rw [hcache, hc, hrem s] at this; omega
  · intro s hc
    have hlt : s < st.sess.length := h.inv.range s (by omega)
    have := hinv.lifeEq s (by omega)
    rw [hcache, hrem s] at this; omega

end AsherahVerif.SessCache
