import AsherahVerif.Proofs.EnvResNames
/-
C03 — the role discipline (ghost typing of key materials).

Every material gets, at the moment `CreateRandom` hands it out, the role of the key it is
generated for: `data` (the DRK of an `EncryptPayload`), `intermediate p` (a new intermediate key of
partition `p`), `system` (a new system key).  `ρ : RoleMap` is that ghost assignment; it only ever
grows.  `TI ρ part w`: the metastore rows, the key-cache entries and the call log of the current
operation (on a session of partition `part`) are well-typed under `ρ`.  Specifications thread the
growing `ρ` existentially: `TIx ρ0 part Γ w` = "for some `ρ ≥ ρ0`, `TI ρ part w` and the facts `Γ`
(typings of the key objects, materials and ciphertexts the running code holds) are true".
-/
set_option linter.unusedVariables false
namespace AsherahVerif.Env.Res

/-- how a key material came into being. -/
inductive Role | data | intermediate (partition : Nat) | system
deriving DecidableEq, Repr

abbrev RoleMap := Nat → Option Role

def RoleMap.le (ρ ρ' : RoleMap) : Prop := ∀ m r, ρ m = some r → ρ' m = some r

theorem RoleMap.le_refl (ρ : RoleMap) : ρ.le ρ := fun _ _ h => h
theorem RoleMap.le_trans {a b c : RoleMap} (h1 : a.le b) (h2 : b.le c) : a.le c := fun m r h => h2 m r (h1 m r h)

/-- the role of the key stored under a key id. -/
def roleOfKid : KeyId → Role
  | .sk => .system
  | .ik p => .intermediate p

/-- a ciphertext that may sit in a metastore row of key id `kid`: a system key row holds a
KMS-wrapped system material; an intermediate key row of partition `p` holds an intermediate
material of `p` wrapped under a system material.  (Other shapes — junk from out-of-band damage —
carry no key.) -/
def CtOK (ρ : RoleMap) : KeyId → Ct → Prop
  | .sk, .kms m => ρ m = some .system
  | .ik p, .enc k _ (.key m) => ρ m = some (.intermediate p) ∧ ρ k = some .system
  | _, _ => True

def RowOK (ρ : RoleMap) (r : Row) : Prop :=
  CtOK ρ r.kid r.enc ∧ ∀ p pm, r.kid = .ik p → r.parent = some pm → pm.kid = .sk

inductive Fact
  | obj (o : Nat) (r : Role)       -- key object `o` holds a material of role `r`
  | mat (m : Nat) (r : Role)       -- material `m` has role `r`
  | ct (kid : KeyId) (c : Ct)      -- `c` may be stored in a row of key id `kid`
  | row (r : Row) (kid : KeyId)    -- `r` is a well-typed row of key id `kid`

def Holds (ρ : RoleMap) (w : World) : Fact → Prop
  | .obj o r => ∃ ko, w.keys[o]? = some ko ∧ ρ ko.mat = some r
  | .mat m r => ρ m = some r
  | .ct kid c => CtOK ρ kid c
  | .row r kid => RowOK ρ r ∧ r.kid = kid

/-- the calls the discipline allows in an operation on a session of partition `part`:
(plaintext, key) ∈ {(payload, data), (data, intermediate part), (intermediate part, system)}. -/
def okEnc (ρ : RoleMap) (part : Nat) : Call → Prop
  | .aeadEnc k (.payload _) _ => ρ k = some .data
  | .aeadEnc k (.key m) _ =>
    (ρ m = some .data ∧ ρ k = some (.intermediate part)) ∨ (ρ m = some (.intermediate part) ∧ ρ k = some .system)
  | _ => True

structure TI (ρ : RoleMap) (part : Nat) (w : World) : Prop where
  dom : ∀ m r, ρ m = some r → m < w.mats
  store : ∀ r, r ∈ w.store → RowOK ρ r
  caches : ∀ (c : Nat) (kc : KeyCache), w.caches[c]? = some kc →
    (∀ (m : KeyMeta) (e : CEntry), (m, e) ∈ kc.ents → ∃ ko : KeyObj, w.keys[e.obj]? = some ko ∧ ρ ko.mat = some (roleOfKid m.kid)) ∧
    (∀ kid l, (kid, l) ∈ kc.latest → l.kid = kid)
  log : ∀ c, c ∈ w.log → okEnc ρ part c

def TIx (ρ0 : RoleMap) (part : Nat) (Γ : List Fact) (w : World) : Prop :=
  ∃ ρ, ρ0.le ρ ∧ TI ρ part w ∧ ∀ f, f ∈ Γ → Holds ρ w f

/-! ### monotonicity -/

theorem CtOK.mono {ρ ρ' : RoleMap} (h : ρ.le ρ') {kid : KeyId} {c : Ct} (hc : CtOK ρ kid c) : CtOK ρ' kid c := by
  cases kid <;> cases c <;> try trivial
  · exact h _ _ hc
  · rename_i p k n pt
    cases pt <;> try trivial
    exact ⟨h _ _ hc.1, h _ _ hc.2⟩

theorem RowOK.mono {ρ ρ' : RoleMap} (h : ρ.le ρ') {r : Row} (hr : RowOK ρ r) : RowOK ρ' r := ⟨hr.1.mono h, hr.2⟩

theorem okEnc.mono {ρ ρ' : RoleMap} (h : ρ.le ρ') {part : Nat} {c : Call} (hc : okEnc ρ part c) : okEnc ρ' part c := by
  cases c <;> try trivial
  rename_i k pt f
  cases pt
  · exact h _ _ hc
  · rcases hc with ⟨a, b⟩ | ⟨a, b⟩
    · exact Or.inl ⟨h _ _ a, h _ _ b⟩
    · exact Or.inr ⟨h _ _ a, h _ _ b⟩

/-- how a world may change without disturbing a fact: key objects keep their material. -/
def KeysKeep (w w' : World) : Prop :=
  ∀ (o : Nat) (ko : KeyObj), w.keys[o]? = some ko → ∃ ko' : KeyObj, w'.keys[o]? = some ko' ∧ ko'.mat = ko.mat

theorem KeysKeep.refl (w : World) : KeysKeep w w := fun o ko h => ⟨ko, h, rfl⟩
theorem KeysKeep.of_ext {w w' : World} (h : Ext w w') : KeysKeep w w' := fun o ko hk => by
  obtain ⟨k', h1, _, h2, _⟩ := h.keys o ko hk; exact ⟨k', h1, h2⟩
theorem KeysKeep.of_eq {w w' : World} (h : w'.keys = w.keys) : KeysKeep w w' := fun o ko hk => ⟨ko, h ▸ hk, rfl⟩

theorem Holds.mono {ρ ρ' : RoleMap} {w w' : World} (h : ρ.le ρ') (hk : KeysKeep w w') {f : Fact} (hf : Holds ρ w f) :
    Holds ρ' w' f := by
  cases f with
  | obj o r =>
    obtain ⟨ko, h1, h2⟩ := hf
    obtain ⟨ko', h1', hm⟩ := hk o ko h1
    exact ⟨ko', h1', by rw [hm]; exact h _ _ h2⟩
  | mat m r => exact h _ _ hf
  | ct kid c => exact CtOK.mono h hf
  | row r kid => exact ⟨hf.1.mono h, hf.2⟩

/-- a world change that touches neither store, caches, log nor the material of any key object, and
does not lower the material counter. -/
theorem TI.frame {ρ : RoleMap} {part : Nat} {w w' : World} (h : TI ρ part w) (hm : w.mats ≤ w'.mats)
    (hs : w'.store = w.store) (hc : w'.caches = w.caches) (hl : w'.log = w.log) (hk : KeysKeep w w') : TI ρ part w' := by
  refine ⟨fun m r hr => Nat.lt_of_lt_of_le (h.dom m r hr) hm, by rw [hs]; exact h.store, ?_, by rw [hl]; exact h.log⟩
  intro c kc hkc
  rw [hc] at hkc
  refine ⟨?_, (h.caches c kc hkc).2⟩
  intro m e hme
  obtain ⟨ko, h1, h2⟩ := (h.caches c kc hkc).1 m e hme
  obtain ⟨ko', h1', hm'⟩ := hk _ _ h1
  exact ⟨ko', h1', by rw [hm']; exact h2⟩

theorem TIx.frame {ρ0 : RoleMap} {part : Nat} {Γ : List Fact} {w w' : World} (h : TIx ρ0 part Γ w) (hm : w.mats ≤ w'.mats)
    (hs : w'.store = w.store) (hc : w'.caches = w.caches) (hl : w'.log = w.log) (hk : KeysKeep w w') : TIx ρ0 part Γ w' := by
  obtain ⟨ρ, h1, h2, h3⟩ := h
  exact ⟨ρ, h1, h2.frame hm hs hc hl hk, fun f hf => (h3 f hf).mono (RoleMap.le_refl ρ) hk⟩

theorem TIx.weaken {ρ0 : RoleMap} {part : Nat} {Γ Γ' : List Fact} {w : World} (h : TIx ρ0 part Γ w)
    (hsub : ∀ f, f ∈ Γ' → f ∈ Γ) : TIx ρ0 part Γ' w := by
  obtain ⟨ρ, h1, h2, h3⟩ := h
  exact ⟨ρ, h1, h2, fun f hf => h3 f (hsub f hf)⟩

theorem TIx.drop {ρ0 : RoleMap} {part : Nat} {Γ : List Fact} {f : Fact} {w : World} (h : TIx ρ0 part (f :: Γ) w) :
    TIx ρ0 part Γ w := h.weaken fun _ hg => List.mem_cons_of_mem _ hg


/-! ### primitives -/

section prim
variable (ρ0 : RoleMap) (part : Nat) (Γ : List Fact)

theorem keysKeep_setAt (w : World) (o : Nat) (f : KeyObj → KeyObj) (hf : ∀ k, (f k).mat = k.mat) :
    KeysKeep w { w with keys := setAt w.keys o f } := by
  intro o' ko h
  show ∃ ko', (setAt w.keys o f)[o']? = some ko' ∧ _
  rw [setAt_getElem?]
  by_cases e : o' = o
  · subst e; simp only [if_true, h, Option.map_some]; exact ⟨f ko, rfl, hf ko⟩
  · simp only [e, if_false]; exact ⟨ko, h, rfl⟩

theorem keysKeep_append (w : World) (x : KeyObj) : KeysKeep w { w with keys := w.keys ++ [x] } :=
  fun o ko h => ⟨ko, append_getElem?_of_some _ h, rfl⟩

def notEnc : Call → Bool
  | .aeadEnc _ _ _ => false
  | _ => true

/-- logging a call other than an AEAD encryption. -/
theorem logCall_ti (c : Call) (hc : notEnc c = true) : Preserves (TIx ρ0 part Γ) (logCall c) := by
  rintro w ⟨ρ, h1, h2, h3⟩
  refine ⟨ρ, h1, ⟨h2.dom, h2.store, h2.caches, ?_⟩, fun f hf => (h3 f hf).mono (RoleMap.le_refl ρ) (KeysKeep.refl _)⟩
  intro c' hc'
  simp only [logCall_run, List.mem_append, List.mem_singleton] at hc'
  rcases hc' with h | rfl
  · exact h2.log c' h
  · cases c' <;> first | trivial | cases hc

macro_rules | `(tactic| pres_leaf) => `(tactic| first
  | (apply logCall_ti; rfl)
  | exact Preserves.modify (fun _ h => TIx.frame h (Nat.le_refl _) rfl rfl rfl (KeysKeep.refl _))
  | exact takeFault_preserves (fun _ _ h => TIx.frame h (Nat.le_refl _) rfl rfl rfl (KeysKeep.refl _))
  | exact Preserves.lam _ _ (fun _ h => TIx.frame h (Nat.le_refl _) rfl rfl rfl (KeysKeep.refl _))
  | exact Preserves.modify (fun _ h => TIx.frame h (Nat.le_refl _) rfl rfl rfl (keysKeep_setAt _ _ _ fun _ => rfl)))

theorem takeFault_ti : Preserves (TIx ρ0 part Γ) takeFault :=
  takeFault_preserves (fun _ _ h => TIx.frame h (Nat.le_refl _) rfl rfl rfl (KeysKeep.refl _))
theorem newBuf_ti (m : Nat) : Preserves (TIx ρ0 part Γ) (newBuf m) :=
  fun _ h => TIx.frame h (Nat.le_refl _) rfl rfl rfl (KeysKeep.refl _)
theorem wipeBuf_ti (b : Nat) : Preserves (TIx ρ0 part Γ) (wipeBuf b) :=
  Preserves.modify (fun _ h => TIx.frame h (Nat.le_refl _) rfl rfl rfl (KeysKeep.refl _))
theorem secretClose_ti (s : Nat) : Preserves (TIx ρ0 part Γ) (secretClose s) :=
  Preserves.modify (fun _ h => TIx.frame h (Nat.le_refl _) rfl rfl rfl (KeysKeep.refl _))
theorem secretNew_ti (b m : Nat) : Preserves (TIx ρ0 part Γ) (secretNew b m) := by
  unfold secretNew; pres_auto_deep [wipeBuf_ti]
theorem keyCloseRaw_ti (o : Nat) : Preserves (TIx ρ0 part Γ) (keyCloseRaw o) := by
  unfold keyCloseRaw; pres_auto [secretClose_ti]
theorem keyRelease_ti (o : Nat) : Preserves (TIx ρ0 part Γ) (keyRelease o) := by
  unfold keyRelease; pres_auto [keyCloseRaw_ti]
theorem keyIncr_ti (o : Nat) : Preserves (TIx ρ0 part Γ) (keyIncr o) :=
  Preserves.modify (fun _ h => TIx.frame h (Nat.le_refl _) rfl rfl rfl (keysKeep_setAt _ _ _ fun _ => rfl))
theorem keyWrap_ti (o : Nat) : Preserves (TIx ρ0 part Γ) (keyWrap o) :=
  Preserves.modify (fun _ h => TIx.frame h (Nat.le_refl _) rfl rfl rfl (keysKeep_setAt _ _ _ fun _ => rfl))
theorem releaseAll_ti (l : List Nat) : Preserves (TIx ρ0 part Γ) (releaseAll l) := by
  induction l with
  | nil => exact Preserves.pure _
  | cons v rest ih => unfold releaseAll; pres_auto [keyRelease_ti]

theorem secretRandom_ok_eff {w w1 : World} {s m : Nat} (hr : secretRandom w = (.ok (s, m), w1)) :
    m = w.mats ∧ w1.mats = w.mats + 1 ∧ w1.store = w.store ∧ w1.caches = w.caches ∧ w1.keys = w.keys ∧
    w1.log = w.log ++ [Call.randSecret false] := by
  simp only [secretRandom, bind_run] at hr
  obtain ⟨f, hf⟩ := takeFault_ok w
  cases htf : takeFault w with
  | mk r0 w0 =>
    rw [htf] at hf hr; subst hf
    have h0 : w0.mats = w.mats ∧ w0.store = w.store ∧ w0.caches = w.caches ∧ w0.keys = w.keys ∧ w0.log = w.log := by
      unfold takeFault at htf; split at htf <;> (cases htf; exact ⟨rfl, rfl, rfl, rfl, rfl⟩)
    simp only at hr
    split at hr
    · simp [logCall_run, bind_run, throw_run] at hr
    · have : (logCall (Call.randSecret false) >>= fun __r w =>
          ((Except.ok (w.secrets.length, w.mats),
            { w with mats := w.mats + 1, secrets := w.secrets ++ [{ mat := w.mats }] }) : Except Err (Nat × Nat) × World)) w0
          = (Except.ok (w0.secrets.length, w0.mats), { w0 with log := w0.log ++ [Call.randSecret false], mats := w0.mats + 1, secrets := w0.secrets ++ [{ mat := w0.mats }] }) := rfl
      rw [this] at hr
      cases hr
      obtain ⟨a1, a2, a3, a4, a5⟩ := h0
      exact ⟨a1, by show w0.mats + 1 = _; rw [a1], a2, a3, a4, by show w0.log ++ _ = _; rw [a5]⟩

/-- `CreateRandom`: the fresh material gets the role of the key it is generated for. -/
theorem secretRandom_ti (role : Role) :
    Spec (TIx ρ0 part Γ) secretRandom (fun p => TIx ρ0 part (Fact.mat p.2 role :: Γ)) (TIx ρ0 part Γ) := by
  intro w hw
  have hpres : TIx ρ0 part Γ (secretRandom w).2 := by
    have : Preserves (TIx ρ0 part Γ) secretRandom := by
      unfold secretRandom
      pres_auto_deep
      exact Preserves.lam _ _ (fun _ h => TIx.frame h (Nat.le_succ _) rfl rfl rfl (KeysKeep.refl _))
    exact this w hw
  cases hr : secretRandom w with
  | mk r w1 =>
    rw [hr] at hpres
    cases r with
    | error e => exact hpres
    | ok p =>
      obtain ⟨s, m⟩ := p
      obtain ⟨e1, e2, e3, e4, e5, e6⟩ := secretRandom_ok_eff hr
      obtain ⟨ρ, h1, h2, h3⟩ := hw
      have hnone : ρ m = none := by
        cases hq : ρ m with
        | none => rfl
        | some r => have := h2.dom m r hq; omega
      let ρ' : RoleMap := fun x => if x = m then some role else ρ x
      have hle : ρ.le ρ' := by
        intro x r hx
        show (if x = m then some role else ρ x) = some r
        by_cases e : x = m
        · subst e; rw [hnone] at hx; cases hx
        · simp [e, hx]
      have hkk : KeysKeep w w1 := KeysKeep.of_eq e5
      refine ⟨ρ', RoleMap.le_trans h1 hle, ⟨?_, ?_, ?_, ?_⟩, ?_⟩
      · intro x r hx
        show x < w1.mats
        rw [e2]
        by_cases e : x = m
        · omega
        · have : ρ x = some r := by simpa [ρ', e] using hx
          have := h2.dom x r this; omega
      · rw [e3]; exact fun r hr' => (h2.store r hr').mono hle
      · intro c kc hkc
        rw [e4] at hkc
        refine ⟨?_, (h2.caches c kc hkc).2⟩
        intro mm e hme
        obtain ⟨ko, q1, q2⟩ := (h2.caches c kc hkc).1 mm e hme
        exact ⟨ko, by rw [e5]; exact q1, hle _ _ q2⟩
      · intro c hc
        rw [e6] at hc
        rcases List.mem_append.1 hc with hc | hc
        · exact (h2.log c hc).mono hle
        · simp at hc; subst hc; trivial
      · intro f hf
        rcases List.mem_cons.1 hf with rfl | hf
        · show ρ' m = some role; simp [ρ']
        · exact (h3 f hf).mono hle hkk

/-- `NewCryptoKey`: the object holds the material. -/
theorem newKeyObj_ti {E : World → Prop} (role : Role) (c : Int) (r : Bool) (m s : Nat) :
    Spec (TIx ρ0 part (Fact.mat m role :: Γ)) (newKeyObj c r m s) (fun o => TIx ρ0 part (Fact.obj o role :: Γ)) E := by
  rintro w ⟨ρ, h1, h2, h3⟩
  show TIx ρ0 part (Fact.obj w.keys.length role :: Γ) { w with keys := w.keys ++ [_] }
  have hkk := keysKeep_append w { created := c, revoked := r, mat := m, sec := s }
  refine ⟨ρ, h1, h2.frame (Nat.le_refl _) rfl rfl rfl hkk, ?_⟩
  intro f hf
  rcases List.mem_cons.1 hf with rfl | hf
  · exact ⟨{ created := c, revoked := r, mat := m, sec := s }, by show (w.keys ++ [_])[w.keys.length]? = _; simp,
      h3 _ List.mem_cons_self⟩
  · exact (h3 f (List.mem_cons_of_mem _ hf)).mono (RoleMap.le_refl ρ) hkk

/-- `WithKeyFunc` on a typed key object: the callback sees a material of that role. -/
theorem withKey_ti {α : Type} {Q : α → World → Prop} {E : World → Prop} (o : Nat) (role : Role) (f : Nat → M α)
    (ho : Fact.obj o role ∈ Γ)
    (he : ∀ w s g, TIx ρ0 part Γ w → E { w with secrets := setAt w.secrets s g })
    (hf : ∀ m, Spec (TIx ρ0 part (Fact.mat m role :: Γ)) (f m) Q E) : Spec (TIx ρ0 part Γ) (withKey o f) Q E := by
  intro w hw
  rw [withKey_run]
  by_cases hc : (w.secrets.getD (w.keys.getD o default).sec default).closes > 0
  · simp only [hc, if_true]; exact he _ _ _ hw
  · simp only [hc, if_false]
    apply hf
    obtain ⟨ρ, h1, h2, h3⟩ := hw
    refine ⟨ρ, h1, h2, ?_⟩
    intro g hg
    rcases List.mem_cons.1 hg with rfl | hg
    · obtain ⟨ko, q1, q2⟩ := h3 _ ho
      show ρ (w.keys.getD o default).mat = some role
      rw [getD_eq_of_getElem? q1]; exact q2
    · exact h3 g hg

/-- `withKey` when the callback needs no typing of the material. -/
theorem withKey_ti_any {α : Type} {Q : α → World → Prop} {E : World → Prop} (o : Nat) (f : Nat → M α)
    (he : ∀ w s g, TIx ρ0 part Γ w → E { w with secrets := setAt w.secrets s g })
    (hf : ∀ m, Spec (TIx ρ0 part Γ) (f m) Q E) : Spec (TIx ρ0 part Γ) (withKey o f) Q E := by
  intro w hw
  rw [withKey_run]
  by_cases hc : (w.secrets.getD (w.keys.getD o default).sec default).closes > 0
  · simp only [hc, if_true]; exact he _ _ _ hw
  · simp only [hc, if_false]; exact hf _ w hw

theorem TIx.aac {w : World} (s : Nat) (g : Secret → Secret) (h : TIx ρ0 part Γ w) :
    TIx ρ0 part Γ { w with secrets := setAt w.secrets s g } :=
  h.frame (Nat.le_refl _) rfl rfl rfl (KeysKeep.refl _)

/-- the AEAD is asked to encrypt `pt` under `k`, and the discipline allows it. -/
theorem aeadEncrypt_ti_ok (pt : Pt) (k : Nat)
    (hok : ∀ ρ w, (∀ f, f ∈ Γ → Holds ρ w f) → ∀ fl, okEnc ρ part (.aeadEnc k pt fl)) :
    Preserves (TIx ρ0 part Γ) (aeadEncrypt pt k) := by
  have hlog : ∀ fl, Preserves (TIx ρ0 part Γ) (logCall (.aeadEnc k pt fl)) := by
    rintro fl w ⟨ρ, h1, h2, h3⟩
    refine ⟨ρ, h1, ⟨h2.dom, h2.store, h2.caches, ?_⟩, fun f hf => (h3 f hf).mono (RoleMap.le_refl ρ) (KeysKeep.refl _)⟩
    intro c' hc'
    simp only [logCall_run, List.mem_append, List.mem_singleton] at hc'
    rcases hc' with h | rfl
    · exact h2.log c' h
    · exact hok ρ w h3 fl
  unfold aeadEncrypt
  pres_auto_deep [hlog]

/-- payload under a data key. -/
theorem aeadEncrypt_ti_payload (p k : Nat) (hk : Fact.mat k .data ∈ Γ) :
    Preserves (TIx ρ0 part Γ) (aeadEncrypt (.payload p) k) :=
  aeadEncrypt_ti_ok ρ0 part Γ _ _ fun ρ w h _ => h _ hk

/-- a data key under the intermediate key of the session's partition. -/
theorem aeadEncrypt_ti_drk (m k : Nat) (hm : Fact.mat m .data ∈ Γ) (hk : Fact.mat k (.intermediate part) ∈ Γ) :
    Preserves (TIx ρ0 part Γ) (aeadEncrypt (.key m) k) :=
  aeadEncrypt_ti_ok ρ0 part Γ _ _ fun ρ w h _ => Or.inl ⟨h _ hm, h _ hk⟩

/-- a (new) intermediate key under a system key: the result may go into an intermediate-key row. -/
theorem aeadEncrypt_ti_ik (m k : Nat) (hm : Fact.mat m (.intermediate part) ∈ Γ) (hk : Fact.mat k .system ∈ Γ) :
    Spec (TIx ρ0 part Γ) (aeadEncrypt (.key m) k) (fun c => TIx ρ0 part (Fact.ct (.ik part) c :: Γ)) (TIx ρ0 part Γ) := by
  have hp := aeadEncrypt_ti_ok ρ0 part Γ (.key m) k fun ρ w h _ => Or.inr ⟨h _ hm, h _ hk⟩
  have hres := aeadEncrypt_result (.key m) k (TIx ρ0 part Γ)
  intro w hw
  have h1 := hp w hw
  have h2 := hres w hw
  cases hr : aeadEncrypt (.key m) k w with
  | mk r w' =>
    rw [hr] at h1 h2
    cases r with
    | error e => exact h1
    | ok c =>
      obtain ⟨n, rfl⟩ := h2
      obtain ⟨ρ, g1, g2, g3⟩ := h1
      refine ⟨ρ, g1, g2, ?_⟩
      intro f hf
      rcases List.mem_cons.1 hf with rfl | hf
      · exact ⟨g3 _ hm, g3 _ hk⟩
      · exact g3 f hf

theorem aeadDecrypt_ok_inv {c : Ct} {k : Nat} {w w' : World} {pt : Pt} (h : aeadDecrypt c k w = (.ok pt, w')) :
    ∃ n, c = .enc k n pt := by
  simp only [aeadDecrypt, bind_run] at h
  obtain ⟨f, hf⟩ := takeFault_ok w
  cases htf : takeFault w with
  | mk r0 w0 =>
    rw [htf] at hf h; subst hf
    simp only at h
    by_cases hfo : f ≠ Fault.ok
    · simp [hfo, logCall_run, bind_run, throw_run] at h
    · simp only [hfo, if_false] at h
      cases c with
      | enc k' n pt' =>
        simp only at h
        by_cases hk : k' = k
        · simp only [hk, if_true, logCall_run, bind_run, pure_run] at h
          cases h; exact ⟨n, by rw [hk]⟩
        · simp [hk, logCall_run, bind_run, throw_run] at h
      | kms m => simp [logCall_run, bind_run, throw_run] at h
      | junk j => simp [logCall_run, bind_run, throw_run] at h

theorem kmsDecrypt_ok_inv {c : Ct} {w w' : World} {b m : Nat} (h : kmsDecrypt c w = (.ok (b, m), w')) : c = .kms m := by
  simp only [kmsDecrypt, bind_run] at h
  obtain ⟨f, hf⟩ := takeFault_ok w
  cases htf : takeFault w with
  | mk r0 w0 =>
    rw [htf] at hf h; subst hf
    simp only at h
    by_cases hfo : f ≠ Fault.ok
    · simp [hfo, logCall_run, bind_run, throw_run] at h
    · simp only [hfo, if_false] at h
      cases c with
      | kms m' =>
        simp only [logCall_run, bind_run, newBuf, pure_run] at h
        cases h; rfl
      | enc k' n pt' => simp [logCall_run, bind_run, throw_run] at h
      | junk j => simp [logCall_run, bind_run, throw_run] at h

theorem kmsEncrypt_ok_inv {m : Nat} {w w' : World} {c : Ct} (h : kmsEncrypt m w = (.ok c, w')) : c = .kms m := by
  simp only [kmsEncrypt, bind_run] at h
  obtain ⟨f, hf⟩ := takeFault_ok w
  cases htf : takeFault w with
  | mk r0 w0 =>
    rw [htf] at hf h; subst hf
    simp only at h
    by_cases hfo : f ≠ Fault.ok
    · simp [hfo, logCall_run, bind_run, throw_run] at h
    · simp only [hfo, if_false, logCall_run, bind_run, pure_run] at h
      cases h; rfl

theorem aeadDecrypt_ti (c : Ct) (k : Nat) : Preserves (TIx ρ0 part Γ) (aeadDecrypt c k) := by
  unfold aeadDecrypt; pres_auto

/-- unwrapping a well-typed intermediate-key row yields an intermediate material of its partition. -/
theorem aeadDecrypt_ti_row (r : Row) (p k : Nat) (hr : Fact.row r (.ik p) ∈ Γ) :
    Spec (TIx ρ0 part Γ) (aeadDecrypt r.enc k)
      (fun pt => TIx ρ0 part ((match pt with | .key m => [Fact.mat m (.intermediate p)] | .payload _ => []) ++ Γ))
      (TIx ρ0 part Γ) := by
  intro w hw
  have h1 := aeadDecrypt_ti ρ0 part Γ r.enc k w hw
  cases hrun : aeadDecrypt r.enc k w with
  | mk res w' =>
    rw [hrun] at h1
    cases res with
    | error e => exact h1
    | ok pt =>
      have henc := aeadDecrypt_ok_inv hrun
      obtain ⟨n, henc⟩ := henc
      obtain ⟨ρ, g1, g2, g3⟩ := h1
      refine ⟨ρ, g1, g2, ?_⟩
      intro f hf
      rcases List.mem_append.1 hf with hf | hf
      · cases pt with
        | payload q => simp at hf
        | key m =>
          simp only [List.mem_singleton] at hf
          subst hf
          have hrow := g3 _ hr
          have : CtOK ρ (.ik p) (.enc k n (.key m)) := by
            have := hrow.1.1; rw [hrow.2, henc] at this; exact this
          exact this.1
      · exact g3 f hf

theorem kmsDecrypt_ti (c : Ct) : Preserves (TIx ρ0 part Γ) (kmsDecrypt c) := by
  unfold kmsDecrypt; pres_auto [newBuf_ti]

/-- the KMS unwraps a well-typed system-key row: a system material. -/
theorem kmsDecrypt_ti_row (r : Row) (hr : Fact.row r .sk ∈ Γ) :
    Spec (TIx ρ0 part Γ) (kmsDecrypt r.enc) (fun q => TIx ρ0 part (Fact.mat q.2 .system :: Γ)) (TIx ρ0 part Γ) := by
  intro w hw
  have h1 := kmsDecrypt_ti ρ0 part Γ r.enc w hw
  cases hrun : kmsDecrypt r.enc w with
  | mk res w' =>
    rw [hrun] at h1
    cases res with
    | error e => exact h1
    | ok q =>
      obtain ⟨b, m⟩ := q
      have henc : r.enc = .kms m := kmsDecrypt_ok_inv hrun
      obtain ⟨ρ, g1, g2, g3⟩ := h1
      refine ⟨ρ, g1, g2, ?_⟩
      intro f hf
      rcases List.mem_cons.1 hf with rfl | hf
      · have hrow := g3 _ hr
        have : CtOK ρ .sk (.kms m) := by have := hrow.1.1; rw [hrow.2, henc] at this; exact this
        exact this
      · exact g3 f hf

/-- the system key handed to the KMS: the result may go into a system-key row. -/
theorem kmsEncrypt_ti (m : Nat) (hm : Fact.mat m .system ∈ Γ) :
    Spec (TIx ρ0 part Γ) (kmsEncrypt m) (fun c => TIx ρ0 part (Fact.ct .sk c :: Γ)) (TIx ρ0 part Γ) := by
  have hp : Preserves (TIx ρ0 part Γ) (kmsEncrypt m) := by unfold kmsEncrypt; pres_auto
  intro w hw
  have h1 := hp w hw
  cases hrun : kmsEncrypt m w with
  | mk res w' =>
    rw [hrun] at h1
    cases res with
    | error e => exact h1
    | ok c =>
      have hc : c = .kms m := kmsEncrypt_ok_inv hrun
      subst hc
      obtain ⟨ρ, g1, g2, g3⟩ := h1
      refine ⟨ρ, g1, g2, ?_⟩
      intro f hf
      rcases List.mem_cons.1 hf with rfl | hf
      · exact g3 (Fact.mat m .system) hm
      · exact g3 f hf


theorem msStore_eff (r : Row) (w : World) :
    ∃ b w', msStore r w = (.ok b, w') ∧ w'.caches = w.caches ∧ w'.keys = w.keys ∧ w'.mats = w.mats ∧
      (∃ c, w'.log = w.log ++ [c] ∧ notEnc c = true) ∧ (w'.store = w.store ∨ w'.store = w.store ++ [r]) := by
  simp only [msStore, bind_run, get_run]
  obtain ⟨f, hf⟩ := takeFault_ok w
  cases htf : takeFault w with
  | mk r0 w0 =>
    rw [htf] at hf; subst hf
    have h0 : w0.store = w.store ∧ w0.caches = w.caches ∧ w0.keys = w.keys ∧ w0.mats = w.mats ∧ w0.log = w.log := by
      unfold takeFault at htf; split at htf <;> (cases htf; exact ⟨rfl, rfl, rfl, rfl, rfl⟩)
    obtain ⟨a1, a2, a3, a4, a5⟩ := h0
    simp only
    cases f <;> simp only
    · split
      · exact ⟨_, _, rfl, a2, a3, a4, ⟨_, by show w0.log ++ _ = _; rw [a5], rfl⟩, Or.inl a1⟩
      · exact ⟨_, _, rfl, a2, a3, a4, ⟨_, by show w0.log ++ _ = _; rw [a5], rfl⟩, Or.inr (by show w0.store ++ [r] = _; rw [a1])⟩
    · exact ⟨_, _, rfl, a2, a3, a4, ⟨_, by show w0.log ++ _ = _; rw [a5], rfl⟩, Or.inl a1⟩
    · exact ⟨_, _, rfl, a2, a3, a4, ⟨_, by show w0.log ++ _ = _; rw [a5], rfl⟩, Or.inl a1⟩
    · split
      · exact ⟨_, _, rfl, a2, a3, a4, ⟨_, by show w0.log ++ _ = _; rw [a5], rfl⟩, Or.inr (by show w0.store ++ [r] = _; rw [a1])⟩
      · exact ⟨_, _, rfl, a2, a3, a4, ⟨_, by show w0.log ++ _ = _; rw [a5], rfl⟩, Or.inl a1⟩

/-- storing a row whose ciphertext is well-typed for its key id. -/
theorem msStore_ti (r : Row) (hct : Fact.ct r.kid r.enc ∈ Γ)
    (hpar : ∀ p pm, r.kid = .ik p → r.parent = some pm → pm.kid = .sk) : Preserves (TIx ρ0 part Γ) (msStore r) := by
  rintro w ⟨ρ, h1, h2, h3⟩
  obtain ⟨b, w', hr, e1, e2, e3, ⟨c, e4, hc⟩, e5⟩ := msStore_eff r w
  rw [hr]
  have hkk : KeysKeep w w' := KeysKeep.of_eq e2
  refine ⟨ρ, h1, ⟨?_, ?_, ?_, ?_⟩, fun f hf => (h3 f hf).mono (RoleMap.le_refl ρ) hkk⟩
  · intro m r' hm; show m < w'.mats; rw [e3]; exact h2.dom m r' hm
  · intro r' hr'
    rcases e5 with e5 | e5
    · exact h2.store r' (e5 ▸ hr')
    · rw [e5] at hr'
      rcases List.mem_append.1 hr' with hr' | hr'
      · exact h2.store r' hr'
      · simp at hr'; subst hr'; exact ⟨h3 _ hct, hpar⟩
  · intro c' kc hkc
    rw [e1] at hkc
    refine ⟨?_, (h2.caches c' kc hkc).2⟩
    intro mm e hme
    obtain ⟨ko, q1, q2⟩ := (h2.caches c' kc hkc).1 mm e hme
    exact ⟨ko, by rw [e2]; exact q1, q2⟩
  · intro c' hc'
    rw [e4] at hc'
    rcases List.mem_append.1 hc' with hc' | hc'
    · exact h2.log c' hc'
    · simp at hc'; subst hc'
      cases c' <;> first | trivial | cases hc

/-- a row read from the metastore is well-typed, and has the key id that was asked for. -/
theorem msLoad_ti (m : KeyMeta) :
    Spec (TIx ρ0 part Γ) (msLoad m)
      (fun r => TIx ρ0 part ((match r with | some row => [Fact.row row m.kid] | none => []) ++ Γ)) (TIx ρ0 part Γ) := by
  have hp : Preserves (TIx ρ0 part Γ) (msLoad m) := by unfold msLoad; pres_auto
  intro w hw
  have h1 := hp w hw
  have hext := msLoad_ext m w
  cases hrun : msLoad m w with
  | mk res w' =>
    rw [hrun] at h1 hext
    cases res with
    | error e => exact h1
    | ok r =>
      cases r with
      | none => simpa using h1
      | some row =>
        -- the row is in the store, with the requested key id
        have hrow : row ∈ w.store ∧ row.kid = m.kid := by
          simp only [msLoad, bind_run] at hrun
          obtain ⟨f, hf⟩ := takeFault_ok w
          cases htf : takeFault w with
          | mk r0 w0 =>
            rw [htf] at hf hrun; subst hf
            have hst : w0.store = w.store := by have := takeFault_store w; rw [htf] at this; exact this
            simp only [get_run] at hrun
            by_cases hfo : f ≠ Fault.ok
            · simp [hfo, logCall_run, bind_run, throw_run] at hrun
            · simp only [hfo, if_false, logCall_run, bind_run, pure_run] at hrun
              simp only [Prod.mk.injEq, Except.ok.injEq] at hrun
              have hfind : w0.store.find? (fun r => decide (r.kid = m.kid ∧ r.created = m.created)) = some row := hrun.1
              have h1' := List.mem_of_find?_eq_some hfind
              have h2' := List.find?_some hfind
              simp at h2'
              exact ⟨hst ▸ h1', h2'.1⟩
        obtain ⟨ρ, g1, g2, g3⟩ := h1
        refine ⟨ρ, g1, g2, ?_⟩
        intro f hf
        simp only [List.singleton_append, List.mem_cons] at hf
        rcases hf with rfl | hf
        · exact ⟨g2.store row (hext.store row hrow.1), hrow.2⟩
        · exact g3 f hf


theorem latestRow_mem {store : List Row} {k : KeyId} {r : Row} (h : latestRow store k = some r) :
    r ∈ store ∧ r.kid = k := by
  unfold latestRow at h
  have key : ∀ (l : List Row) (acc : Option Row) (r : Row),
      List.foldl (fun acc r => match acc with
        | none => some r
        | some a => if a.created < r.created then some r else some a) acc l = some r →
      (acc = some r) ∨ r ∈ l := by
    intro l
    induction l with
    | nil => intro acc r h; exact Or.inl h
    | cons x t ih =>
      intro acc r h
      simp only [List.foldl_cons] at h
      rcases ih _ _ h with h' | h'
      · cases acc with
        | none => simp only [Option.some.injEq] at h'; exact Or.inr (h' ▸ List.mem_cons_self)
        | some a =>
          simp only at h'
          split at h'
          · simp only [Option.some.injEq] at h'; exact Or.inr (h' ▸ List.mem_cons_self)
          · exact Or.inl h'
      · exact Or.inr (List.mem_cons_of_mem _ h')
  rcases key _ _ _ h with h' | h'
  · cases h'
  · have := List.mem_filter.1 h'
    exact ⟨this.1, by simpa using this.2⟩

theorem msLoadLatest_ti (k : KeyId) :
    Spec (TIx ρ0 part Γ) (msLoadLatest k)
      (fun r => TIx ρ0 part ((match r with | some row => [Fact.row row k] | none => []) ++ Γ)) (TIx ρ0 part Γ) := by
  have hp : Preserves (TIx ρ0 part Γ) (msLoadLatest k) := by unfold msLoadLatest; pres_auto
  intro w hw
  have h1 := hp w hw
  have hext := msLoadLatest_ext k w
  cases hrun : msLoadLatest k w with
  | mk res w' =>
    rw [hrun] at h1 hext
    cases res with
    | error e => exact h1
    | ok r =>
      cases r with
      | none => simpa using h1
      | some row =>
        have hrow : row ∈ w.store ∧ row.kid = k := by
          simp only [msLoadLatest, bind_run] at hrun
          obtain ⟨f, hf⟩ := takeFault_ok w
          cases htf : takeFault w with
          | mk r0 w0 =>
            rw [htf] at hf hrun; subst hf
            have hst : w0.store = w.store := by have := takeFault_store w; rw [htf] at this; exact this
            simp only [get_run] at hrun
            by_cases hfo : f ≠ Fault.ok
            · simp [hfo, logCall_run, bind_run, throw_run] at hrun
            · simp only [hfo, if_false, logCall_run, bind_run, pure_run] at hrun
              simp only [Prod.mk.injEq, Except.ok.injEq] at hrun
              have := latestRow_mem hrun.1
              exact ⟨hst ▸ this.1, this.2⟩
        obtain ⟨ρ, g1, g2, g3⟩ := h1
        refine ⟨ρ, g1, g2, ?_⟩
        intro f hf
        simp only [List.singleton_append, List.mem_cons] at hf
        rcases hf with rfl | hf
        · exact ⟨g2.store row (hext.store row hrow.1), hrow.2⟩
        · exact g3 f hf

theorem mustLoadLatest_ti (k : KeyId) :
    Spec (TIx ρ0 part Γ) (mustLoadLatest k) (fun row => TIx ρ0 part (Fact.row row k :: Γ)) (TIx ρ0 part Γ) := by
  unfold mustLoadLatest
  refine Spec.bind (msLoadLatest_ti ρ0 part Γ k) (fun _ h => h) fun r => ?_
  cases r with
  | none => exact Spec.throw _ fun _ h => by simpa using h
  | some row => exact Spec.pure _ fun _ h => by simpa using h

/-- pure content of a row fact: its key id, and that the parent of an intermediate-key row is a
system key. -/
theorem TIx.row_pure {w : World} {r : Row} {kid : KeyId} (h : TIx ρ0 part Γ w) (hr : Fact.row r kid ∈ Γ) :
    r.kid = kid ∧ ∀ p pm, r.kid = .ik p → r.parent = some pm → pm.kid = .sk := by
  obtain ⟨ρ, _, _, h3⟩ := h
  have := h3 _ hr
  exact ⟨this.2, this.1.2⟩

end prim
end AsherahVerif.Env.Res
