import AsherahVerif.Proofs.EnvFootprint
/-
Coherence invariants of the envelope model (C01 / C02):

* `StoreWF`  — the metastore is a function of `(kid, created)`; every system-key row is a KMS
  wrapping; every intermediate-key row names a present system-key row and is sealed under the
  material that row wraps; no row carries the "latest" stamp `created = 0`.
* `Coherent` — every entry `(m ↦ e)` of every key cache holds a key object whose creation stamp is
  `m.created` and whose material is the one wrapped by store row `m`; every `latest` alias of an id
  points at a meta of that id.
* `Inv = StoreWF ∧ Coherent`.

Plus the lemmas that move these facts along `Ext` (EnvFrames) and along the few world updates that
are not `Ext` (`revoke`, `advance`, session / factory bookkeeping).
-/
set_option linter.unusedVariables false
namespace AsherahVerif.Env

/-! ### accesses after close -/

def sumAac (l : List Secret) : Nat := l.foldl (fun a s => a + s.aac) 0

theorem foldl_aac_shift (l : List Secret) (a : Nat) :
    l.foldl (fun a s => a + s.aac) a = a + l.foldl (fun a s => a + s.aac) 0 := by
  induction l generalizing a with
  | nil => simp
  | cons s t ih => simp only [List.foldl_cons]; rw [ih (a + s.aac), ih (0 + s.aac)]; omega

theorem sumAac_cons (s : Secret) (t : List Secret) : sumAac (s :: t) = s.aac + sumAac t := by
  unfold sumAac; simp only [List.foldl_cons]; rw [foldl_aac_shift]; omega

theorem sumAac_mono (l l' : List Secret)
    (h : ∀ (i : Nat) (s : Secret), l[i]? = some s → ∃ s' : Secret, l'[i]? = some s' ∧ s.aac ≤ s'.aac) :
    sumAac l ≤ sumAac l' := by
  induction l generalizing l' with
  | nil => simp [sumAac]
  | cons s t ih =>
    cases l' with
    | nil => obtain ⟨s', h', _⟩ := h 0 s rfl; cases h'
    | cons s' t' =>
      rw [sumAac_cons, sumAac_cons]
      obtain ⟨s'', h0, hle⟩ := h 0 s rfl
      cases h0
      have := ih t' (fun i x hx => h (i + 1) x hx)
      omega

theorem aac_mono {w w' : World} (h : Ext w w') : accessesAfterClose w ≤ accessesAfterClose w' := by
  apply sumAac_mono
  intro i s hs
  obtain ⟨s', h1, _, _, h4⟩ := h.secrets i s hs
  exact ⟨s', h1, h4⟩

theorem sumAac_setAt (l : List Secret) (i : Nat) (hi : i < l.length) :
    sumAac (setAt l i fun x => { x with aac := x.aac + 1 }) = sumAac l + 1 := by
  induction l generalizing i with
  | nil => simp at hi
  | cons s t ih =>
    cases i with
    | zero =>
      have : setAt (s :: t) 0 (fun x => { x with aac := x.aac + 1 }) = { s with aac := s.aac + 1 } :: t := by
        apply List.ext_getElem?
        intro j
        rw [setAt_getElem?]
        cases j <;> simp
      rw [this, sumAac_cons, sumAac_cons]; simp only; omega
    | succ i =>
      have : setAt (s :: t) (i + 1) (fun x => { x with aac := x.aac + 1 }) =
          s :: setAt t i (fun x => { x with aac := x.aac + 1 }) := by
        apply List.ext_getElem?
        intro j
        rw [setAt_getElem?]
        cases j with
        | zero => simp
        | succ j => simp [setAt_getElem?]
      rw [this, sumAac_cons, sumAac_cons, ih i (by simpa using hi)]; omega

/-! ### store predicates -/

/-- the material a row wraps (by the shape of its ciphertext). -/
def RowMat (r : Row) (mat : Nat) : Prop :=
  match r.kid with
  | .sk => r.enc = .kms mat
  | .ik _ => ∃ skm n, r.enc = .enc skm n (.key mat)

/-- the store has a row `m` wrapping material `mat`. -/
def Wraps (store : List Row) (m : KeyMeta) (mat : Nat) : Prop :=
  ∃ r, r ∈ store ∧ r.kid = m.kid ∧ r.created = m.created ∧ RowMat r mat

/-- a well-formed row: a system key is a KMS wrapping; an intermediate key names a present system
key and is sealed under the material that system-key row wraps. -/
def RowGood (store : List Row) (r : Row) : Prop :=
  match r.kid with
  | .sk => ∃ mat, r.enc = .kms mat
  | .ik _ => ∃ c skm n mat, r.parent = some ⟨.sk, c⟩ ∧ r.enc = .enc skm n (.key mat) ∧ Wraps store ⟨.sk, c⟩ skm

structure StoreWF (store : List Row) : Prop where
  uniq : ∀ r, r ∈ store → findRow store ⟨r.kid, r.created⟩ = some r
  good : ∀ r, r ∈ store → RowGood store r
  nz : ∀ r, r ∈ store → r.created ≠ 0

/-- key object `o` is (a copy of) the key stored under `m`. -/
def GoodKeyAt (w : World) (m : KeyMeta) (o : Nat) : Prop :=
  ∃ k, w.keys[o]? = some k ∧ k.created = m.created ∧ Wraps w.store m k.mat

structure CacheGood (w : World) (kc : KeyCache) : Prop where
  ents : ∀ m e, (m, e) ∈ kc.ents → GoodKeyAt w m e.obj
  latest : ∀ kid m', (kid, m') ∈ kc.latest → m'.kid = kid

def Coherent (w : World) : Prop := ∀ (c : Nat) (kc : KeyCache), w.caches[c]? = some kc → CacheGood w kc

structure Inv (w : World) : Prop where
  wf : StoreWF w.store
  coh : Coherent w

/-! ### findRow / latestRow -/

theorem findRow_some {store : List Row} {m : KeyMeta} {r : Row} (h : findRow store m = some r) :
    r ∈ store ∧ r.kid = m.kid ∧ r.created = m.created := by
  unfold findRow at h
  have h1 := List.mem_of_find?_eq_some h
  have h2 := List.find?_some h
  simp only [decide_eq_true_eq] at h2
  exact ⟨h1, h2.1, h2.2⟩

theorem findRow_none {store : List Row} {m : KeyMeta} (h : findRow store m = none) :
    ∀ r, r ∈ store → ¬ (r.kid = m.kid ∧ r.created = m.created) := by
  unfold findRow at h
  intro r hr hc
  have := List.find?_eq_none.mp h r hr
  simp only [decide_eq_true_eq] at this
  exact this hc

theorem StoreWF.find {store : List Row} (h : StoreWF store) {r : Row} {m : KeyMeta} (hr : r ∈ store)
    (hk : r.kid = m.kid) (hc : r.created = m.created) : findRow store m = some r := by
  have := h.uniq r hr
  cases m; simp only at hk hc; subst hk; subst hc; exact this

theorem RowMat.unique {r : Row} {a b : Nat} (ha : RowMat r a) (hb : RowMat r b) : a = b := by
  unfold RowMat at ha hb
  cases hk : r.kid with
  | sk => rw [hk] at ha hb; dsimp only at ha hb; rw [ha] at hb; cases hb; rfl
  | ik p =>
    rw [hk] at ha hb; dsimp only at ha hb
    obtain ⟨_, _, ha⟩ := ha; obtain ⟨_, _, hb⟩ := hb; rw [ha] at hb; cases hb; rfl

theorem Wraps.unique {store : List Row} (h : StoreWF store) {m : KeyMeta} {a b : Nat}
    (ha : Wraps store m a) (hb : Wraps store m b) : a = b := by
  obtain ⟨r1, h1, k1, c1, m1⟩ := ha
  obtain ⟨r2, h2, k2, c2, m2⟩ := hb
  have e1 := h.find h1 k1 c1
  have e2 := h.find h2 k2 c2
  rw [e1] at e2; cases e2
  exact m1.unique m2

theorem Wraps.mono {s s' : List Row} (h : ∀ r, r ∈ s → r ∈ s') {m : KeyMeta} {mat : Nat} (hw : Wraps s m mat) :
    Wraps s' m mat := by
  obtain ⟨r, hr, rest⟩ := hw; exact ⟨r, h r hr, rest⟩

theorem RowGood.mono {s s' : List Row} (h : ∀ r, r ∈ s → r ∈ s') {r : Row} (hg : RowGood s r) : RowGood s' r := by
  unfold RowGood at *
  split
  · rename_i hk; rw [hk] at hg; exact hg
  · rename_i p hk; rw [hk] at hg; dsimp only at hg
    obtain ⟨c, skm, n, mat, h1, h2, h3⟩ := hg
    exact ⟨c, skm, n, mat, h1, h2, h3.mono h⟩

theorem latestRow_aux (l : List Row) (acc : Option Row) :
    (∀ r, l.foldl (fun acc r => match acc with
      | none => some r
      | some a => if a.created < r.created then some r else some a) acc = some r → acc = some r ∨ r ∈ l) ∧
    (l.foldl (fun acc r => match acc with
      | none => some r
      | some a => if a.created < r.created then some r else some a) acc = none → acc = none ∧ l = []) := by
  induction l generalizing acc with
  | nil => simp
  | cons x t ih =>
    simp only [List.foldl_cons]
    constructor
    · intro r hr
      rcases (ih _).1 r hr with h | h
      · cases acc with
        | none => simp only at h; cases h; right; simp
        | some a =>
          simp only at h
          split at h
          · cases h; right; simp
          · left; exact h
      · right; simp [h]
    · intro hn
      have := ((ih _).2 hn).1
      cases acc with
      | none => simp at this
      | some a => simp only at this; split at this <;> cases this

theorem latestRow_some {store : List Row} {k : KeyId} {r : Row} (h : latestRow store k = some r) :
    r ∈ store ∧ r.kid = k := by
  unfold latestRow at h
  rcases (latestRow_aux _ none).1 r h with h | h
  · cases h
  · simpa using h

theorem latestRow_none {store : List Row} {k : KeyId} (h : latestRow store k = none) :
    ∀ r, r ∈ store → r.kid ≠ k := by
  unfold latestRow at h
  have := ((latestRow_aux _ none).2 h).2
  intro r hr hk
  have : r ∈ store.filter (·.kid = k) := by simp [hr, hk]
  rw [‹store.filter (·.kid = k) = []›] at this
  cases this

/-! ### transport along `Ext` -/

theorem GoodKeyAt.ext {w w' : World} (h : Ext w w') {m : KeyMeta} {o : Nat} (hg : GoodKeyAt w m o) :
    GoodKeyAt w' m o := by
  obtain ⟨k, hk, hc, hw⟩ := hg
  obtain ⟨k', hk', c', m', _, _⟩ := h.keys o k hk
  exact ⟨k', hk', c'.trans hc, m' ▸ hw.mono h.store⟩

/-- same store rows (up to growth), same caches, heap objects keep their identity. -/
theorem CacheGood.ext {w w' : World} (h : Ext w w') {kc : KeyCache} (hg : CacheGood w kc) : CacheGood w' kc :=
  ⟨fun m e he => (hg.ents m e he).ext h, hg.latest⟩

theorem Coherent.ext {w w' : World} (h : Ext w w') (hc : w'.caches = w.caches) (hg : Coherent w) : Coherent w' := by
  intro c kc hkc
  rw [hc] at hkc
  exact (hg c kc hkc).ext h

end AsherahVerif.Env
