import AsherahVerif.Proofs.EnvResList
import AsherahVerif.Proofs.EnvResE2
/-
C09 — the resource invariant.

`RIc T raw h w` relates the three heaps of a world:
* secret ledger and key heap are parallel (`keys[o].sec = o`; the one exception is a secret that
  was just allocated and whose `CryptoKey` object is about to be created: `raw = .sec s`);
* a secret has been closed exactly once iff its key object ran `once.Do(close)`, never more, and
  was never accessed after that;
* reference counting: for a wrapped key object, `refs` = (number of entries of *open* caches that
  point to it) + (number of references currently held by running code, `h o`), and the object is
  closed iff that number is 0.  The one raw (never wrapped, not yet closed) object the running code
  may own is `raw = .obj o`;
* every open cache is keyed consistently (an entry under `(id, created)` holds a key created at
  `created`), without duplicate keys, and its "latest" aliases stay within the id.
`T` is the table of caches: which ones have been closed (`dead`) and each one's mode; it is fixed
while an SDK operation runs.  This file: definition and the effect of every heap update.
-/
set_option linter.unusedVariables false
namespace AsherahVerif.Env.Res

inductive Raw | none | obj (o : Nat) | sec (s m : Nat)
deriving DecidableEq, Repr

structure CTab where
  dead : Nat → Bool
  mode : Nat → CacheMode
  n : Nat

def cntOf (T : CTab) (h : Nat → Int) (w : World) (o : Nat) : Int := (entCount T.dead w.caches o : Int) + h o

/-- a bounded key cache and its eviction policy (the E2 cache model) agree: the policy is
well-formed, open and expiry-free, and its keys are exactly the slots of the cached entries. -/
structure BOK (kc : KeyCache) : Prop where
  inv : Cache.Inv kc.pol
  live : kc.pol.closing = false
  noexp : kc.pol.expiry = 0
  slots : kc.slots.Nodup
  valid : ∀ s, s ∈ Cache.keysOf kc.pol.items → s < kc.slots.length
  keys : ∀ m : KeyMeta, m ∈ kc.ents.map (·.1) ↔ ∃ s, kc.slots[s]? = some m ∧ s ∈ Cache.keysOf kc.pol.items

structure CacheOK (keys : List KeyObj) (kc : KeyCache) : Prop where
  entKey : ∀ (m : KeyMeta) (e : CEntry), (m, e) ∈ kc.ents → ∃ k : KeyObj, keys[e.obj]? = some k ∧ k.created = m.created
  nodup : (kc.ents.map (·.1)).Nodup
  latest : ∀ kid l, (kid, l) ∈ kc.latest → l.kid = kid
  nev : kc.mode = .never → kc.ents = []
  bnd : kc.mode = .bounded → BOK kc

def Raw.extra : Raw → Nat
  | .sec _ _ => 1
  | _ => 0

structure RIc (T : CTab) (raw : Raw) (h : Nat → Int) (w : World) : Prop where
  len : w.secrets.length = w.keys.length + raw.extra
  rawSec : ∀ s m, raw = .sec s m → s = w.keys.length ∧ ∃ sx : Secret, w.secrets[s]? = some sx ∧ sx.mat = m
  rawObj : ∀ o, raw = .obj o → o < w.keys.length
  sec : ∀ (o : Nat) (k : KeyObj), w.keys[o]? = some k → k.sec = o
  mat : ∀ (o : Nat) (k : KeyObj) (sx : Secret), w.keys[o]? = some k → w.secrets[o]? = some sx → sx.mat = k.mat
  led : ∀ (i : Nat) (s : Secret), w.secrets[i]? = some s → s.aac = 0 ∧
      s.closes = (match w.keys[i]? with | some k => if k.closed then 1 else 0 | none => 0)
  acc : ∀ (o : Nat) (k : KeyObj), w.keys[o]? = some k →
      (raw = .obj o → k.closed = false ∧ k.refs = 0 ∧ cntOf T h w o = 0) ∧
      (raw ≠ .obj o → k.refs = cntOf T h w o ∧ (k.closed = true ↔ cntOf T h w o = 0))
  hval : ∀ o, h o ≠ 0 → o < w.keys.length
  ents : ∀ (c : Nat) (kc : KeyCache), w.caches[c]? = some kc → T.dead c = false → CacheOK w.keys kc
  mode : ∀ c, (w.caches.getD c default).mode = T.mode c
  clen : w.caches.length = T.n

/-- holds as a list of object indices (with multiplicity). -/
def hcount (H : List Nat) : Nat → Int := fun o => (H.count o : Int)

/-- the invariant with the held references given as a list. -/
def RI (T : CTab) (raw : Raw) (H : List Nat) (w : World) : Prop := RIc T raw (hcount H) w

theorem CacheOK.mono {keys keys' : List KeyObj} {kc : KeyCache} (h : CacheOK keys kc)
    (hk : ∀ (o : Nat) (k : KeyObj), keys[o]? = some k → ∃ k' : KeyObj, keys'[o]? = some k' ∧ k'.created = k.created) : CacheOK keys' kc :=
  ⟨fun m e hme => by
      obtain ⟨k, hk1, hk2⟩ := h.entKey m e hme
      obtain ⟨k', h1, h2⟩ := hk _ _ hk1
      exact ⟨k', h1, h2.trans hk2⟩, h.nodup, h.latest, h.nev, h.bnd⟩

/-- live entries point to existing objects. -/
theorem RIc.entCount_zero_of_ge {T : CTab} {raw : Raw} {h : Nat → Int} {w : World} (hi : RIc T raw h w)
    {o : Nat} (ho : w.keys.length ≤ o) : entCount T.dead w.caches o = 0 := by
  apply Classical.byContradiction
  intro hne
  have hpos : 0 < entCount T.dead w.caches o := Nat.pos_of_ne_zero hne
  obtain ⟨c, kc, hc, hd, hm⟩ := entCount_pos_iff.1 hpos
  unfold objsOf at hm
  obtain ⟨⟨m, e⟩, hme, rfl⟩ := List.mem_map.1 hm
  obtain ⟨k, hk, _⟩ := (hi.ents c kc hc hd).entKey m e hme
  have := getElem?_lt hk
  simp only at this ho
  omega

theorem RIc.cnt_zero_of_ge {T : CTab} {raw : Raw} {h : Nat → Int} {w : World} (hi : RIc T raw h w)
    {o : Nat} (ho : w.keys.length ≤ o) : cntOf T h w o = 0 := by
  unfold cntOf
  rw [hi.entCount_zero_of_ge ho]
  have : h o = 0 := by
    apply Classical.byContradiction
    intro hne
    have := hi.hval o hne
    omega
  simp [this]

/-- the invariant only looks at `keys`, `secrets`, `caches`. -/
theorem RIc.frame {T : CTab} {raw : Raw} {h : Nat → Int} {w w' : World} (hi : RIc T raw h w)
    (hk : w'.keys = w.keys) (hs : w'.secrets = w.secrets) (hc : w'.caches = w.caches) : RIc T raw h w' := by
  obtain ⟨a1, a2, a3, a4, a4', a5, a6, a7, a8, a9, a11⟩ := hi
  refine ⟨?_, ?_, ?_, ?_, ?_, ?_, ?_, ?_, ?_, ?_, by rw [hc]; exact a11⟩
  · rw [hk, hs]; exact a1
  · rw [hk, hs]; exact a2
  · rw [hk]; exact a3
  · rw [hk]; exact a4
  · rw [hk, hs]; exact a4'
  · rw [hk, hs]; exact a5
  · unfold cntOf; rw [hk, hc]; exact a6
  · rw [hk]; exact a7
  · rw [hk, hc]; exact a8
  · rw [hc]; exact a9

theorem RIc.congr_h {T : CTab} {raw : Raw} {h h' : Nat → Int} {w : World} (hi : RIc T raw h w)
    (hh : ∀ o, h o = h' o) : RIc T raw h' w := by
  have : h = h' := funext hh
  subst this; exact hi

theorem RIc.congr_T {T T' : CTab} {raw : Raw} {h : Nat → Int} {w : World} (hi : RIc T raw h w)
    (hd : ∀ c, c < w.caches.length → T.dead c = T'.dead c) (hm : ∀ c, T.mode c = T'.mode c) (hn : T.n = T'.n) : RIc T' raw h w := by
  have hcnt : ∀ o, cntOf T' h w o = cntOf T h w o := by
    intro o; unfold cntOf; rw [entCount_congr w.caches o hd]
  refine ⟨hi.len, hi.rawSec, hi.rawObj, hi.sec, hi.mat, hi.led, ?_, hi.hval, ?_, ?_, by rw [← hn]; exact hi.clen⟩
  · intro o k hk; simp only [hcnt]; exact hi.acc o k hk
  · intro c kc hc hdc
    exact hi.ents c kc hc (by rw [hd c (getElem?_lt hc)]; exact hdc)
  · intro c; rw [← hm]; exact hi.mode c

/-! ### allocation -/

/-- `secretRandom` / `secretNew` success: one more (open) secret, its key object still to come. -/
theorem RIc.allocSecret {T : CTab} {h : Nat → Int} {w w' : World} (hi : RIc T .none h w) (x : Secret)
    (hx : x.closes = 0 ∧ x.aac = 0)
    (hk : w'.keys = w.keys) (hs : w'.secrets = w.secrets ++ [x]) (hc : w'.caches = w.caches) :
    RIc T (.sec w.secrets.length x.mat) h w' := by
  have hlen : w.secrets.length = w.keys.length := by simpa [Raw.extra] using hi.len
  refine ⟨?_, ?_, ?_, ?_, ?_, ?_, ?_, ?_, ?_, ?_, by rw [hc]; exact hi.clen⟩
  · rw [hk, hs]; simp [Raw.extra, hlen]
  · intro s m hs'; cases hs'; rw [hk, hs]; exact ⟨hlen, x, by simp, rfl⟩
  · intro o ho; cases ho
  · rw [hk]; exact hi.sec
  · intro o k sx hk' hsx
    rw [hk] at hk'
    rw [hs, List.getElem?_append_left (by have := getElem?_lt hk'; omega)] at hsx
    exact hi.mat o k sx hk' hsx
  · intro i s hs'
    rw [hs, getElem?_append_single] at hs'
    rw [hk]
    split at hs'
    · exact hi.led i s hs'
    · split at hs'
      · cases hs'
        rename_i h1 h2
        subst h2
        rw [List.getElem?_eq_none (by omega)]
        exact ⟨hx.2, hx.1⟩
      · cases hs'
  · intro o k hk'
    rw [hk] at hk'
    unfold cntOf; rw [hc]
    refine ⟨fun e => (by cases e), fun _ => ?_⟩
    exact (hi.acc o k hk').2 (by intro e; cases e)
  · rw [hk]; exact hi.hval
  · rw [hk, hc]; exact hi.ents
  · rw [hc]; exact hi.mode

/-- `newKeyObj` for the pending secret: a raw key object. -/
theorem RIc.allocKey {T : CTab} {h : Nat → Int} {w w' : World} {s m : Nat} (hi : RIc T (.sec s m) h w) (x : KeyObj)
    (hx : x.sec = s ∧ x.closed = false ∧ x.refs = 0 ∧ x.mat = m)
    (hk : w'.keys = w.keys ++ [x]) (hs : w'.secrets = w.secrets) (hc : w'.caches = w.caches) :
    RIc T (.obj w.keys.length) h w' := by
  have hs0 : s = w.keys.length := (hi.rawSec s m rfl).1
  have hlen : w.secrets.length = w.keys.length + 1 := by simpa [Raw.extra] using hi.len
  have hcnt0 : cntOf T h w w.keys.length = 0 := hi.cnt_zero_of_ge (Nat.le_refl _)
  refine ⟨?_, ?_, ?_, ?_, ?_, ?_, ?_, ?_, ?_, ?_, by rw [hc]; exact hi.clen⟩
  · rw [hk, hs]; simp [Raw.extra, hlen]
  · intro s m hs'; cases hs'
  · intro o ho; cases ho; rw [hk]; simp
  · intro o k hk'
    rw [hk, getElem?_append_single] at hk'
    split at hk'
    · exact hi.sec o k hk'
    · split at hk'
      · cases hk'; rename_i h2; rw [h2, hx.1, hs0]
      · cases hk'
  · intro o k sx hk' hsx
    rw [hs] at hsx
    rw [hk, getElem?_append_single] at hk'
    split at hk'
    · exact hi.mat o k sx hk' hsx
    · split at hk'
      · cases hk'
        rename_i h2
        obtain ⟨_, sx0, hsx0, hm0⟩ := hi.rawSec s m rfl
        rw [h2, ← hs0, hsx0] at hsx
        cases hsx
        rw [hm0, hx.2.2.2]
      · cases hk'
  · intro i sx hs'
    rw [hs] at hs'
    have := hi.led i sx hs'
    refine ⟨this.1, ?_⟩
    rw [hk, getElem?_append_single]
    by_cases h1 : i < w.keys.length
    · simp only [h1, if_true]; exact this.2
    · have hnone : w.keys[i]? = none := List.getElem?_eq_none (by omega)
      rw [hnone] at this
      by_cases h2 : i = w.keys.length
      · simp [h1, h2, hx.2.1, this.2]
      · simp [h1, h2, this.2]
  · intro o k hk'
    rw [hk, getElem?_append_single] at hk'
    have hcnt : cntOf T h w' o = cntOf T h w o := by unfold cntOf; rw [hc]
    rw [hcnt]
    split at hk'
    · rename_i hlt
      refine ⟨fun e => (by cases e; omega), fun _ => ?_⟩
      exact (hi.acc o k hk').2 (by intro e; cases e)
    · split at hk'
      · cases hk'
        rename_i h2
        subst h2
        exact ⟨fun _ => ⟨hx.2.1, hx.2.2.1, hcnt0⟩, fun hne => absurd rfl hne⟩
      · cases hk'
  · intro o ho; rw [hk]; have := hi.hval o ho; simp; omega
  · intro c kc hc' hd
    rw [hc] at hc'
    refine (hi.ents c kc hc' hd).mono ?_
    intro o k hk'
    exact ⟨k, by rw [hk]; exact append_getElem?_of_some _ hk', rfl⟩
  · rw [hc]; exact hi.mode

/-! ### updates of one key object -/

/-- facts shared by all in-place updates of key object `o` that keep `sec`, `created`. -/
theorem keys_setAt_lookup (keys : List KeyObj) (o o' : Nat) (f : KeyObj → KeyObj) (k' : KeyObj)
    (h : (setAt keys o f)[o']? = some k') :
    (o' = o ∧ ∃ k, keys[o]? = some k ∧ k' = f k) ∨ (o' ≠ o ∧ keys[o']? = some k') := by
  rw [setAt_getElem?] at h
  by_cases e : o' = o
  · subst e
    simp only [if_true] at h
    cases hk : keys[o']? with
    | none => rw [hk] at h; cases h
    | some k => rw [hk] at h; simp at h; exact Or.inl ⟨rfl, k, rfl, h.symm⟩
  · simp only [e, if_false] at h
    exact Or.inr ⟨e, h⟩

theorem CacheOK.setAt {keys : List KeyObj} {kc : KeyCache} (h : CacheOK keys kc) (o : Nat) (f : KeyObj → KeyObj)
    (hf : ∀ k, (f k).created = k.created) : CacheOK (setAt keys o f) kc := by
  refine h.mono ?_
  intro o' k hk
  rw [setAt_getElem?]
  by_cases e : o' = o
  · subst e; simp only [if_true, hk, Option.map_some]; exact ⟨f k, rfl, hf k⟩
  · simp only [e, if_false]; exact ⟨k, hk, rfl⟩

/-- an update of object `o` that keeps `sec`, `created`, `closed` and sets `refs` consistently. -/
theorem RIc.updKey {T : CTab} {raw raw' : Raw} {h h' : Nat → Int} {w w' : World} (hi : RIc T raw h w)
    (o : Nat) (f : KeyObj → KeyObj) (k : KeyObj) (hko : w.keys[o]? = some k)
    (hf : ∀ x, (f x).sec = x.sec ∧ (f x).created = x.created ∧ (f x).closed = x.closed ∧ (f x).mat = x.mat)
    (hraw : raw'.extra = raw.extra ∧ (∀ s m, raw' = .sec s m → raw = .sec s m) ∧ (∀ o', raw' = .obj o' → o' < w.keys.length))
    (hh : ∀ o', o' ≠ o → h' o' = h o' ∧ (raw' = .obj o' ↔ raw = .obj o'))
    (hval : h' o ≠ 0 → True)
    (hacc : (raw' = .obj o → k.closed = false ∧ (f k).refs = 0 ∧ cntOf T h' w o = 0) ∧
      (raw' ≠ .obj o → (f k).refs = cntOf T h' w o ∧ (k.closed = true ↔ cntOf T h' w o = 0)))
    (hk : w'.keys = setAt w.keys o f) (hs : w'.secrets = w.secrets) (hc : w'.caches = w.caches) :
    RIc T raw' h' w' := by
  have hcnt : ∀ o', cntOf T h' w' o' = cntOf T h' w o' := by intro o'; unfold cntOf; rw [hc]
  have hcnt2 : ∀ o', o' ≠ o → cntOf T h' w o' = cntOf T h w o' := by
    intro o' ho'; unfold cntOf; rw [(hh o' ho').1]
  refine ⟨?_, ?_, ?_, ?_, ?_, ?_, ?_, ?_, ?_, ?_, by rw [hc]; exact hi.clen⟩
  · rw [hk, hs, setAt_length, hraw.1]; exact hi.len
  · intro s m hs'; rw [hk, hs, setAt_length]; exact hi.rawSec s m (hraw.2.1 s m hs')
  · intro o' ho'; rw [hk, setAt_length]; exact hraw.2.2 o' ho'
  · intro o' k' hk'
    rw [hk] at hk'
    rcases keys_setAt_lookup _ _ _ _ _ hk' with ⟨rfl, k0, h0, rfl⟩ | ⟨_, h0⟩
    · rw [(hf k0).1]; exact hi.sec _ _ h0
    · exact hi.sec _ _ h0
  · intro o' k' sx hk' hsx
    rw [hk] at hk'; rw [hs] at hsx
    rcases keys_setAt_lookup _ _ _ _ _ hk' with ⟨rfl, k0, h0, rfl⟩ | ⟨_, h0⟩
    · rw [(hf k0).2.2.2]; exact hi.mat _ _ _ h0 hsx
    · exact hi.mat _ _ _ h0 hsx
  · intro i s hs'
    rw [hs] at hs'
    have := hi.led i s hs'
    refine ⟨this.1, ?_⟩
    rw [this.2, hk, setAt_getElem?]
    by_cases e : i = o
    · subst e; simp only [if_true, hko, Option.map_some, (hf k).2.2.1]
    · simp only [e, if_false]
  · intro o' k' hk'
    rw [hk] at hk'
    rw [hcnt]
    rcases keys_setAt_lookup _ _ _ _ _ hk' with ⟨rfl, k0, h0, rfl⟩ | ⟨hne, h0⟩
    · rw [hko] at h0; cases h0
      rw [(hf k).2.2.1]; exact hacc
    · rw [hcnt2 o' hne]
      have := hi.acc o' k' h0
      exact ⟨fun e => this.1 ((hh o' hne).2.1 e), fun e => this.2 (fun e' => e ((hh o' hne).2.2 e'))⟩
  · intro o' ho'
    rw [hk, setAt_length]
    by_cases e : o' = o
    · subst e; exact getElem?_lt hko
    · rw [(hh o' e).1] at ho'; exact hi.hval o' ho'
  · intro c kc hc' hd
    rw [hc] at hc'; rw [hk]
    exact (hi.ents c kc hc' hd).setAt o f fun x => (hf x).2.1
  · rw [hc]; exact hi.mode

/-- closing key object `o` (its `once.Do`): `closed := true` and one `Close` reaches its secret. -/
theorem RIc.closeKey {T : CTab} {raw raw' : Raw} {h h' : Nat → Int} {w w' : World} (hi : RIc T raw h w)
    (o : Nat) (f : KeyObj → KeyObj) (k : KeyObj) (hko : w.keys[o]? = some k) (hopen : k.closed = false)
    (hf : ∀ x, (f x).sec = x.sec ∧ (f x).created = x.created ∧ (f x).closed = true ∧ (f x).mat = x.mat)
    (hraw : raw'.extra = raw.extra ∧ (∀ s m, raw' = .sec s m → raw = .sec s m) ∧ (∀ o', raw' = .obj o' → o' < w.keys.length) ∧ raw' ≠ .obj o)
    (hh : ∀ o', o' ≠ o → h' o' = h o' ∧ (raw' = .obj o' ↔ raw = .obj o'))
    (hacc : (f k).refs = cntOf T h' w o ∧ cntOf T h' w o = 0)
    (hk : w'.keys = setAt w.keys o f)
    (hs : w'.secrets = setAt w.secrets o fun x => { x with closes := x.closes + 1 }) (hc : w'.caches = w.caches) :
    RIc T raw' h' w' := by
  have hcnt : ∀ o', cntOf T h' w' o' = cntOf T h' w o' := by intro o'; unfold cntOf; rw [hc]
  have hcnt2 : ∀ o', o' ≠ o → cntOf T h' w o' = cntOf T h w o' := by
    intro o' ho'; unfold cntOf; rw [(hh o' ho').1]
  have hsecmat : ∀ (i : Nat) (sx : Secret), w'.secrets[i]? = some sx → ∃ s0 : Secret, w.secrets[i]? = some s0 ∧ sx.mat = s0.mat := by
    intro i sx hsx
    rw [hs, setAt_getElem?] at hsx
    by_cases e : i = o
    · subst e
      simp only [if_true] at hsx
      cases hsi : w.secrets[i]? with
      | none => rw [hsi] at hsx; cases hsx
      | some s0 => rw [hsi] at hsx; simp at hsx; subst hsx; exact ⟨s0, rfl, rfl⟩
    · simp only [e, if_false] at hsx; exact ⟨sx, hsx, rfl⟩
  refine ⟨?_, ?_, ?_, ?_, ?_, ?_, ?_, ?_, ?_, ?_, by rw [hc]; exact hi.clen⟩
  · rw [hk, hs, setAt_length, setAt_length, hraw.1]; exact hi.len
  · intro s m hs'
    rw [hk, setAt_length]
    obtain ⟨q1, sx, q2, q3⟩ := hi.rawSec s m (hraw.2.1 s m hs')
    refine ⟨q1, ?_⟩
    rw [hs, setAt_getElem?]
    by_cases e : s = o
    · subst e; simp only [if_true, q2, Option.map_some]; exact ⟨_, rfl, q3⟩
    · simp only [e, if_false]; exact ⟨sx, q2, q3⟩
  · intro o' ho'; rw [hk, setAt_length]; exact hraw.2.2.1 o' ho'
  · intro o' k' hk'
    rw [hk] at hk'
    rcases keys_setAt_lookup _ _ _ _ _ hk' with ⟨rfl, k0, h0, rfl⟩ | ⟨_, h0⟩
    · rw [(hf k0).1]; exact hi.sec _ _ h0
    · exact hi.sec _ _ h0
  · intro o' k' sx hk' hsx
    rw [hk] at hk'
    obtain ⟨s0, hs0, hm0⟩ := hsecmat o' sx hsx
    rw [hm0]
    rcases keys_setAt_lookup _ _ _ _ _ hk' with ⟨rfl, k0, h0, rfl⟩ | ⟨_, h0⟩
    · rw [(hf k0).2.2.2]; exact hi.mat _ _ _ h0 hs0
    · exact hi.mat _ _ _ h0 hs0
  · intro i s hs'
    rw [hs, setAt_getElem?] at hs'
    rw [hk, setAt_getElem?]
    by_cases e : i = o
    · subst e
      simp only [if_true] at hs' ⊢
      cases hsi : w.secrets[i]? with
      | none => rw [hsi] at hs'; cases hs'
      | some s0 =>
        rw [hsi] at hs'; simp at hs'; subst hs'
        have := hi.led i s0 hsi
        rw [hko] at this
        simp only [hopen] at this
        simp [hko, (hf k).2.2.1, this.1, this.2]
    · simp only [e, if_false] at hs' ⊢
      exact hi.led i s hs'
  · intro o' k' hk'
    rw [hk] at hk'
    rw [hcnt]
    rcases keys_setAt_lookup _ _ _ _ _ hk' with ⟨rfl, k0, h0, rfl⟩ | ⟨hne, h0⟩
    · rw [hko] at h0; cases h0
      refine ⟨fun e => absurd e hraw.2.2.2, fun _ => ⟨hacc.1, ?_⟩⟩
      simp [(hf k).2.2.1, hacc.2]
    · rw [hcnt2 o' hne]
      have := hi.acc o' k' h0
      exact ⟨fun e => this.1 ((hh o' hne).2.1 e), fun e => this.2 (fun e' => e ((hh o' hne).2.2 e'))⟩
  · intro o' ho'
    rw [hk, setAt_length]
    by_cases e : o' = o
    · subst e; exact getElem?_lt hko
    · rw [(hh o' e).1] at ho'; exact hi.hval o' ho'
  · intro c kc hc' hd
    rw [hc] at hc'; rw [hk]
    exact (hi.ents c kc hc' hd).setAt o f fun x => (hf x).2.1
  · rw [hc]; exact hi.mode

/-! ### updates of one cache -/

/-- replacing the contents of open cache `c`: references move between the cache and the holder. -/
theorem RIc.updCache {T : CTab} {raw : Raw} {h h' : Nat → Int} {w w' : World} (hi : RIc T raw h w)
    (c : Nat) (kc kc' : KeyCache) (hkc : w.caches[c]? = some kc) (hd : T.dead c = false)
    (hmode : kc'.mode = kc.mode) (hok : CacheOK w.keys kc')
    (hh : ∀ o, h' o + ((objsOf kc').count o : Int) = h o + ((objsOf kc).count o : Int))
    (hk : w'.keys = w.keys) (hs : w'.secrets = w.secrets) (hc : w'.caches = setAt w.caches c fun _ => kc') :
    RIc T raw h' w' := by
  have hcnt : ∀ o, cntOf T h' w' o = cntOf T h w o := by
    intro o
    unfold cntOf
    rw [hc]
    have := entCount_setAt_live (dead := T.dead) kc' o hkc hd
    have := hh o
    omega
  refine ⟨?_, ?_, ?_, ?_, ?_, ?_, ?_, ?_, ?_, ?_, by rw [hc, setAt_length]; exact hi.clen⟩
  · rw [hk, hs]; exact hi.len
  · rw [hk, hs]; exact hi.rawSec
  · rw [hk]; exact hi.rawObj
  · rw [hk]; exact hi.sec
  · rw [hk, hs]; exact hi.mat
  · rw [hk, hs]; exact hi.led
  · intro o k hk'; rw [hk] at hk'; rw [hcnt]; exact hi.acc o k hk'
  · intro o ho
    rw [hk]
    apply Classical.byContradiction
    intro hge
    have h1 : h o = 0 := by
      apply Classical.byContradiction; intro hne; exact hge (hi.hval o hne)
    have inv : ∀ kc0, CacheOK w.keys kc0 → (objsOf kc0).count o = 0 := by
      intro kc0 hok0
      apply List.count_eq_zero.2
      intro hm
      unfold objsOf at hm
      obtain ⟨⟨m, e⟩, hme, rfl⟩ := List.mem_map.1 hm
      obtain ⟨k, hk', _⟩ := hok0.entKey m e hme
      exact hge (getElem?_lt hk')
    have := hh o
    rw [inv kc (hi.ents c kc hkc hd), inv kc' hok, h1] at this
    simp at this
    exact ho this
  · intro c' kc0 hc' hd'
    rw [hk]
    rw [hc, setAt_getElem?] at hc'
    by_cases e : c' = c
    · subst e; simp only [if_true, hkc, Option.map_some] at hc'; cases hc'; exact hok
    · simp only [e, if_false] at hc'; exact hi.ents c' kc0 hc' hd'
  · intro c'
    rw [← hi.mode c', hc]
    by_cases hlt : c' < w.caches.length
    · rw [setAt_getD _ _ _ _ _ hlt]
      by_cases e : c' = c
      · subst e; simp only [if_true, hmode, getD_eq_of_getElem? hkc]
      · simp only [e, if_false]
    · simp only [List.getD_eq_getElem?_getD]
      rw [List.getElem?_eq_none (by rw [setAt_length]; omega), List.getElem?_eq_none (by omega)]

/-- closing cache `c`: its entries' references pass to the code that is about to release them. -/
theorem RIc.kill {T : CTab} {raw : Raw} {h : Nat → Int} {w : World} (hi : RIc T raw h w)
    (c : Nat) (kc : KeyCache) (hkc : w.caches[c]? = some kc) (hd : T.dead c = false) :
    RIc { T with dead := fun j => j == c || T.dead j } raw (fun o => h o + ((objsOf kc).count o : Int)) w := by
  have hcnt : ∀ o, cntOf { T with dead := fun j => j == c || T.dead j } (fun o => h o + ((objsOf kc).count o : Int)) w o
      = cntOf T h w o := by
    intro o
    unfold cntOf
    have := entCount_kill (dead := T.dead) o hkc hd
    simp only
    omega
  refine ⟨hi.len, hi.rawSec, hi.rawObj, hi.sec, hi.mat, hi.led, ?_, ?_, ?_, hi.mode, hi.clen⟩
  · intro o k hk; rw [hcnt]; exact hi.acc o k hk
  · intro o ho
    by_cases h1 : h o = 0
    · simp only [h1, Int.zero_add] at ho
      have : o ∈ objsOf kc := by
        apply Classical.byContradiction; intro hn
        rw [List.count_eq_zero.2 hn] at ho; exact ho rfl
      unfold objsOf at this
      obtain ⟨⟨m, e⟩, hme, rfl⟩ := List.mem_map.1 this
      obtain ⟨k, hk', _⟩ := (hi.ents c kc hkc hd).entKey m e hme
      exact getElem?_lt hk'
    · exact hi.hval o h1
  · intro c' kc0 hc' hd'
    simp only [Bool.or_eq_false_iff] at hd'
    exact hi.ents c' kc0 hc' hd'.2

end AsherahVerif.Env.Res
