import AsherahVerif.Proofs.EnvResNames
/-
C03 — history level: across a whole history no two ciphertexts (returned in records or stored in
the metastore) share a nonce, and no two records have their payloads under the same data key.
-/
set_option linter.unusedVariables false
namespace AsherahVerif.Env.Res

def outCts : Out → List Ct
  | .record d => drrCts d
  | _ => []

/-- nonces of all `enc` terms in the records returned so far. -/
def outNonces (outs : List Out) : List Nat := (outs.flatMap outCts).filterMap ctNonce

/-- history invariant: the nonces of all ciphertexts returned or stored so far are pairwise
distinct, and below the counter. -/
def NamesInv (outs : List Out) (w : World) : Prop :=
  (outNonces outs ++ storeNonces w).Nodup ∧ ∀ n, n ∈ outNonces outs ++ storeNonces w → n < w.nonces

theorem outNonces_append (outs : List Out) (o : Out) : outNonces (outs ++ [o]) = outNonces outs ++ (outCts o).filterMap ctNonce := by
  unfold outNonces; simp [List.flatMap_append, List.filterMap_append]

theorem NamesInv.step {outs : List Out} {w w' : World} (h : NamesInv outs w) (o : Out)
    (hn : NR (storeNonces w) w.nonces (outCts o) w') : NamesInv (outs ++ [o]) w' := by
  obtain ⟨h0, extra, h1, h2, h3⟩ := hn
  obtain ⟨g1, g2⟩ := h
  unfold NamesInv
  rw [outNonces_append, h1]
  have hold : ∀ n, n ∈ outNonces outs ++ storeNonces w → n < w.nonces := g2
  constructor
  · simp only [List.nodup_append, List.mem_append] at g1 h2 ⊢
    refine ⟨⟨g1.1, h2.2.1, ?_⟩, ⟨g1.2.1, h2.1, ?_⟩, ?_⟩
    · intro a ha b hb e; subst e
      have := hold a (List.mem_append_left _ ha)
      have := (h3 a (List.mem_append_right _ hb)).1
      omega
    · intro a ha b hb e; subst e
      have := hold a (List.mem_append_right _ ha)
      have := (h3 a (List.mem_append_left _ hb)).1
      omega
    · rintro a (ha | ha) b (hb | hb) e <;> subst e
      · exact g1.2.2 a ha a hb rfl
      · have := hold a (List.mem_append_left _ ha); have := (h3 a (List.mem_append_left _ hb)).1; omega
      · have := hold a (List.mem_append_right _ hb); have := (h3 a (List.mem_append_right _ ha)).1; omega
      · exact h2.2.2 a hb a ha rfl
  · intro n hn
    simp only [List.mem_append] at hn
    rcases hn with (hn | hn) | hn | hn
    · have := hold n (List.mem_append_left _ hn); omega
    · exact (h3 n (List.mem_append_right _ hn)).2
    · have := hold n (List.mem_append_right _ hn); omega
    · exact (h3 n (List.mem_append_left _ hn)).2

theorem NR.start (w w1 : World) (hs : w1.store = w.store) (hn : w1.nonces = w.nonces) : NR (storeNonces w) w.nonces [] w1 :=
  ⟨by omega, [], by unfold storeNonces; rw [hs]; simp, by simp, by simp⟩


section
variable (S0 : List Nat) (n0 : Nat) (C : List Ct)
theorem addCache_nr (kc : KeyCache) : Preserves (NR S0 n0 C) (addCache kc) := fun _ h => NR.frame h rfl (Nat.le_refl _)
theorem newFactory_nr (p : Policy) (a b c d : Nat) : Preserves (NR S0 n0 C) (newFactory p a b c d) := by
  unfold newFactory; pres_auto [addCache_nr]
theorem getSession_nr (f part c d : Nat) : Preserves (NR S0 n0 C) (getSession f part c d) := by
  unfold getSession; pres_auto [addCache_nr]
theorem closeSession_nr (s : Nat) : Preserves (NR S0 n0 C) (closeSession s) := by
  unfold closeSession; pres_auto [cacheClose_nr]
theorem closeFactory_nr (f : Nat) : Preserves (NR S0 n0 C) (closeFactory f) := by
  unfold closeFactory; pres_auto [cacheClose_nr]
theorem beginOp_nr (fl : List Fault) : Preserves (NR S0 n0 C) (beginOp fl) := Preserves.modify (fun _ h => NR.frame h rfl (Nat.le_refl _))
theorem advance_nr (d : Nat) : Preserves (NR S0 n0 C) (advance d) := Preserves.modify (fun _ h => NR.frame h rfl (Nat.le_refl _))
end

theorem filterMap_map_sublist {α β : Type} (g : α → Option β) (f : α → α) (h : ∀ x, g (f x) = g x ∨ g (f x) = none) :
    ∀ l : List α, List.Sublist ((l.map f).filterMap g) (l.filterMap g) := by
  intro l
  induction l with
  | nil => exact List.Sublist.refl _
  | cons a t ih =>
    simp only [List.map_cons, List.filterMap_cons]
    rcases h a with e | e
    · rw [e]; cases g a with
      | none => exact ih
      | some b => exact ih.cons₂ b
    · rw [e]; cases g a with
      | none => exact ih
      | some b => exact ih.cons b

theorem NamesInv.sub {outs : List Out} {w w' : World} (h : NamesInv outs w) (o : Out) (ho : outCts o = [])
    (hs : List.Sublist (storeNonces w') (storeNonces w)) (hn : w.nonces ≤ w'.nonces) : NamesInv (outs ++ [o]) w' := by
  unfold NamesInv
  rw [outNonces_append, ho]
  simp only [List.filterMap_nil, List.append_nil]
  constructor
  · exact List.Nodup.sublist (List.Sublist.append_left hs _) h.1
  · intro n hn'
    have : n ∈ outNonces outs ++ storeNonces w := by
      rcases List.mem_append.1 hn' with h1 | h1
      · exact List.mem_append_left _ h1
      · exact List.mem_append_right _ (hs.subset h1)
    have := h.2 n this; omega

/-- `applyOp`'s packaging of an outcome. -/
def wrapOut {α : Type} (f : α → Out) (r : Except Err α × World) : Out × World :=
  match r with
  | (.ok a, w') => (f a, w')
  | (.error e, w') => (Out.error e, w')

theorem applyOp_eq (w : World) (op : Op) : applyOp w op = match op with
    | .newFactory p a b c d => wrapOut Out.id (newFactory p a b c d w)
    | .getSession f part c d => wrapOut Out.id (getSession f part c d w)
    | .encrypt s pay fl => wrapOut Out.record (encrypt s pay fl true w)
    | .decrypt s d fl => wrapOut Out.payload (decrypt s d fl true w)
    | .closeSession s => wrapOut (fun _ => Out.unit) ((do beginOp []; closeSession s : M Unit) w)
    | .closeFactory f => wrapOut (fun _ => Out.unit) ((do beginOp []; closeFactory f : M Unit) w)
    | .advance d => wrapOut (fun _ => Out.unit) (advance d w)
    | .revoke m => wrapOut (fun _ => Out.unit) (revoke m w)
    | .corruptRow m dp => wrapOut (fun _ => Out.unit) (corruptRow m dp w) := by
  cases op <;> rfl

/-- every public operation keeps the nonce discipline of the history. -/
theorem NamesInv.applyOp {outs : List Out} {w : World} (h : NamesInv outs w) (op : Op) :
    NamesInv (outs ++ [(Env.applyOp w op).1]) (Env.applyOp w op).2 := by
  have start := NR.start w
  have viaPres : ∀ {α : Type} (f : α → Out) (x : M α), (∀ a, outCts (f a) = []) →
      Preserves (NR (storeNonces w) w.nonces []) x →
      NamesInv (outs ++ [(wrapOut f (x w)).1]) (wrapOut f (x w)).2 := by
    intro α f x hf hx
    have := hx w (start w rfl rfl)
    cases hr : x w with
    | mk r w' =>
      rw [hr] at this
      cases r with
      | ok a => exact h.step _ (by show NR _ _ (outCts (f a)) _; rw [hf a]; exact this)
      | error e => exact h.step _ this
  rw [applyOp_eq]
  cases op with
  | newFactory p a b c d => exact viaPres Out.id _ (fun _ => rfl) (newFactory_nr _ _ _ p a b c d)
  | getSession f part c d => exact viaPres Out.id _ (fun _ => rfl) (getSession_nr _ _ _ f part c d)
  | encrypt s pay fl =>
    have hsp := encryptPayload_nr (storeNonces w) w.nonces (sessionCtx w s) pay true
      { w with log := [], faults := fl } (start _ rfl rfl)
    have he : encrypt s pay fl true w = encryptPayload (sessionCtx w s) pay true { w with log := [], faults := fl } := rfl
    simp only [he]
    cases hr : encryptPayload (sessionCtx w s) pay true { w with log := [], faults := fl } with
    | mk r w' =>
      rw [hr] at hsp
      cases r with
      | ok d => exact h.step _ hsp
      | error e => exact h.step _ hsp
  | decrypt s d fl =>
    exact viaPres Out.payload _ (fun _ => rfl)
      (Preserves.bind (beginOp_nr _ _ _ fl) fun _ => Preserves.bind Preserves.get fun w1 => decryptDataRowRecord_nr _ _ _ _ d true)
  | closeSession s => exact viaPres (fun _ => Out.unit) _ (fun _ => rfl) (Preserves.bind (beginOp_nr _ _ _ []) fun _ => closeSession_nr _ _ _ s)
  | closeFactory f => exact viaPres (fun _ => Out.unit) _ (fun _ => rfl) (Preserves.bind (beginOp_nr _ _ _ []) fun _ => closeFactory_nr _ _ _ f)
  | advance d => exact viaPres (fun _ => Out.unit) _ (fun _ => rfl) (advance_nr _ _ _ d)
  | revoke m =>
    refine h.sub Out.unit rfl ?_ (Nat.le_refl _)
    show List.Sublist ((w.store.map _).filterMap fun (r : Row) => ctNonce r.enc) _
    apply filterMap_map_sublist
    intro r; left; split <;> rfl
  | corruptRow m dp =>
    refine h.sub Out.unit rfl ?_ (Nat.le_refl _)
    show List.Sublist ((w.store.map _).filterMap fun (r : Row) => ctNonce r.enc) _
    apply filterMap_map_sublist
    intro r
    split
    · split
      · left; rfl
      · right; rfl
    · left; rfl

theorem NamesInv.runOps {outs : List Out} {w : World} (h : NamesInv outs w) (ops : List Op) :
    NamesInv (outs ++ (Env.runOps w ops).1) (Env.runOps w ops).2 := by
  induction ops generalizing outs w with
  | nil => simpa [Env.runOps] using h
  | cons op rest ih =>
    have := ih (h.applyOp op)
    simp only [Env.runOps]
    rw [List.append_assoc] at this
    exact this

theorem NamesInv.init (t : Int) : NamesInv [] (World.init t) := by
  constructor <;> simp [outNonces, storeNonces, World.init]


/-! ### one payload per data key -/

def outDataKey : Out → Option Nat
  | .record d => ctKey d.data
  | _ => none

/-- materials under which the payloads of the records returned so far were encrypted. -/
def outDataKeys (outs : List Out) : List Nat := outs.filterMap outDataKey

def KeysInv (outs : List Out) (w : World) : Prop :=
  (outDataKeys outs).Nodup ∧ ∀ k, k ∈ outDataKeys outs → k < w.mats

theorem applyOp_mats (w : World) (op : Op) : w.mats ≤ (Env.applyOp w op).2.mats := by
  have key : ∀ {α : Type} (f : α → Out) (x : M α), Preserves (fun w' => w.mats ≤ w'.mats) x → w.mats ≤ (wrapOut f (x w)).2.mats := by
    intro α f x hx
    have := hx w (Nat.le_refl _)
    cases hr : x w with
    | mk r w' => rw [hr] at this; cases r <;> exact this
  have hm : ∀ {f : World → World}, (∀ w', (f w').mats = w'.mats) → Preserves (fun w' => w.mats ≤ w'.mats) (modify f) :=
    fun h => Preserves.modify fun w' hw' => by rw [h]; exact hw'
  rw [applyOp_eq]
  cases op with
  | newFactory p a b c d => apply key; unfold newFactory addCache; pres_auto
  | getSession f part c d => apply key; unfold getSession addCache; pres_auto
  | encrypt s pay fl => exact key _ _ (mats_of_ext (encrypt_ext s pay fl true) _)
  | decrypt s d fl => exact key _ _ (mats_of_ext (decrypt_ext s d fl true) _)
  | closeSession s =>
    apply key; unfold closeSession beginOp
    pres_auto [mats_of_ext (cacheClose_ext _) w.mats]
  | closeFactory f =>
    apply key; unfold closeFactory beginOp
    pres_auto [mats_of_ext (cacheClose_ext _) w.mats]
  | advance d => exact key _ _ (hm fun _ => rfl)
  | revoke m => exact key _ _ (hm fun _ => rfl)
  | corruptRow m dp => exact key _ _ (hm fun _ => rfl)

theorem KeysInv.applyOp {outs : List Out} {w : World} (h : KeysInv outs w) (op : Op) :
    KeysInv (outs ++ [(Env.applyOp w op).1]) (Env.applyOp w op).2 := by
  have hmono := applyOp_mats w op
  have other : outDataKey (Env.applyOp w op).1 = none → KeysInv (outs ++ [(Env.applyOp w op).1]) (Env.applyOp w op).2 := by
    intro hn
    unfold KeysInv outDataKeys
    rw [List.filterMap_append]
    simp only [List.filterMap_cons, hn, List.filterMap_nil, List.append_nil]
    exact ⟨h.1, fun k hk => Nat.lt_of_lt_of_le (h.2 k hk) hmono⟩
  cases op with
  | encrypt s pay fl =>
    have hsp := encryptPayload_datakey w.mats (sessionCtx w s) pay true { w with log := [], faults := fl } (Nat.le_refl _)
    have he : encrypt s pay fl true w = encryptPayload (sessionCtx w s) pay true { w with log := [], faults := fl } := rfl
    rw [applyOp_eq] at other ⊢
    simp only [he] at other ⊢
    cases hr : encryptPayload (sessionCtx w s) pay true { w with log := [], faults := fl } with
    | mk r w' =>
      rw [hr] at hsp other
      cases r with
      | error e => exact other rfl
      | ok d =>
        obtain ⟨k, n, hd, h1, h2⟩ := hsp
        show KeysInv (outs ++ [Out.record d]) w'
        unfold KeysInv outDataKeys
        rw [List.filterMap_append]
        have : outDataKey (Out.record d) = some k := by simp [outDataKey, hd, ctKey]
        simp only [List.filterMap_cons, this, List.filterMap_nil]
        have hmono' : w.mats ≤ w'.mats := by omega
        constructor
        · rw [List.nodup_append]
          refine ⟨h.1, by simp, ?_⟩
          intro a ha b hb e
          simp at hb; subst hb; subst e
          have := h.2 a ha; omega
        · intro k' hk'
          rcases List.mem_append.1 hk' with hk' | hk'
          · exact Nat.lt_of_lt_of_le (h.2 k' hk') hmono'
          · simp at hk'; subst hk'; exact h2
  | newFactory p a b c d => apply other; rw [applyOp_eq]; simp only [wrapOut]; split <;> rfl
  | getSession f part c d => apply other; rw [applyOp_eq]; simp only [wrapOut]; split <;> rfl
  | decrypt s d fl => apply other; rw [applyOp_eq]; simp only [wrapOut]; split <;> rfl
  | closeSession s => apply other; rw [applyOp_eq]; simp only [wrapOut]; split <;> rfl
  | closeFactory f => apply other; rw [applyOp_eq]; simp only [wrapOut]; split <;> rfl
  | advance d => apply other; rfl
  | revoke m => apply other; rfl
  | corruptRow m dp => apply other; rfl

theorem KeysInv.runOps {outs : List Out} {w : World} (h : KeysInv outs w) (ops : List Op) :
    KeysInv (outs ++ (Env.runOps w ops).1) (Env.runOps w ops).2 := by
  induction ops generalizing outs w with
  | nil => simpa [Env.runOps] using h
  | cons op rest ih =>
    have := ih (h.applyOp op)
    simp only [Env.runOps]
    rw [List.append_assoc] at this
    exact this

theorem KeysInv.init (t : Int) : KeysInv [] (World.init t) := by
  constructor <;> simp [outDataKeys]

end AsherahVerif.Env.Res
