import AsherahVerif.Proofs.ExtraCacheMon
/-
C15 (strengthening): LRU with REAL recency.  A ghost function over the observable history — the
index of the last event that touched key `k` (a `Set k _`, or a `Get k` that hit) — and the theorem
that after any history the LRU policy's `order` list is exactly the live keys sorted by that index,
most recent first; hence the victim is the live key with the smallest last-touch index.
-/
namespace AsherahVerif.CacheSpec
open AsherahVerif.Cache

/-- the event is a use of key `k`: a `Set k _`, or a `Get k` that returned a value. -/
def touches (k : Nat) (e : Ev) : Bool :=
  match e.1, e.2.1 with
  | .set k' _, _ => k' == k
  | .get k', .val _ => k' == k
  | _, _ => false

def touchFold (k : Nat) (st : Nat × Nat) (e : Ev) : Nat × Nat :=
  (if touches k e then st.2 + 1 else st.1, st.2 + 1)

/-- 1 + index of the last event of the history that touched `k`; 0 if none did. -/
def lastTouch (k : Nat) (tr : List Ev) : Nat := (tr.foldl (touchFold k) (0, 0)).1

theorem touchFold_snd (k : Nat) (tr : List Ev) (st : Nat × Nat) :
    (tr.foldl (touchFold k) st).2 = st.2 + tr.length := by
  induction tr generalizing st with
  | nil => rfl
  | cons e t ih => simp only [List.foldl_cons, List.length_cons]; rw [ih]; simp only [touchFold]; omega

theorem touchFold_le (k : Nat) (tr : List Ev) (st : Nat × Nat) (h : st.1 ≤ st.2) :
    (tr.foldl (touchFold k) st).1 ≤ (tr.foldl (touchFold k) st).2 := by
  induction tr generalizing st with
  | nil => exact h
  | cons e t ih =>
    simp only [List.foldl_cons]
    apply ih
    simp only [touchFold]
    split <;> omega

theorem lastTouch_le (k : Nat) (tr : List Ev) : lastTouch k tr ≤ tr.length := by
  have h1 := touchFold_le k tr (0, 0) (Nat.le_refl _)
  have h2 := touchFold_snd k tr (0, 0)
  unfold lastTouch; simp only at h2; omega

theorem lastTouch_snoc (k : Nat) (tr : List Ev) (e : Ev) :
    lastTouch k (tr ++ [e]) = if touches k e then tr.length + 1 else lastTouch k tr := by
  unfold lastTouch
  rw [List.foldl_append]
  simp only [List.foldl_cons, List.foldl_nil, touchFold]
  have := touchFold_snd k tr (0, 0)
  rw [this]
  simp

theorem lt_untouched {pre : List Ev} {ev : Ev} (hn : ∀ a, touches a ev = false) (a : Nat) :
    lastTouch a (pre ++ [ev]) = lastTouch a pre := by
  rw [lastTouch_snoc, hn a]; simp

theorem lt_touched {pre : List Ev} {ev : Ev} {k : Nat} (hk : ∀ a, touches a ev = (k == a)) :
    lastTouch k (pre ++ [ev]) = pre.length + 1 ∧ ∀ a, a ≠ k → lastTouch a (pre ++ [ev]) = lastTouch a pre := by
  constructor
  · rw [lastTouch_snoc, hk k]; simp
  · intro a ha
    rw [lastTouch_snoc, hk a]
    have : (k == a) = false := by simpa using fun e => ha e.symm
    simp [this]

/-- `o` lists keys by strictly decreasing last-touch stamp, all of them touched at least once. -/
def Sorted (lt : Nat → Nat) (o : List Nat) : Prop :=
  o.Pairwise (fun a b => lt b < lt a) ∧ ∀ a, a ∈ o → 0 < lt a

theorem sorted_sub {lt lt' : Nat → Nat} {o o' : List Nat} (hs : Sorted lt o) (hsub : o'.Sublist o)
    (heq : ∀ a, a ∈ o' → lt' a = lt a) : Sorted lt' o' := by
  refine ⟨?_, ?_⟩
  · have := hs.1.sublist hsub
    apply this.imp_of_mem
    intro a b ha hb hab
    rw [heq a ha, heq b hb]; exact hab
  · intro a ha; rw [heq a ha]; exact hs.2 a (hsub.subset ha)

theorem sorted_front {lt lt' : Nat → Nat} {o o' : List Nat} {k n : Nat} (hs : Sorted lt o) (hsub : o'.Sublist o)
    (hk : k ∉ o') (hle : ∀ a, lt a ≤ n) (hkn : lt' k = n + 1) (heq : ∀ a, a ≠ k → lt' a = lt a) :
    Sorted lt' (k :: o') := by
  have hne : ∀ a, a ∈ o' → a ≠ k := fun a ha e => hk (e ▸ ha)
  have h1 := sorted_sub (lt' := lt') hs hsub (fun a ha => heq a (hne a ha))
  refine ⟨?_, ?_⟩
  · rw [List.pairwise_cons]
    refine ⟨?_, h1.1⟩
    intro a ha
    rw [heq a (hne a ha), hkn]
    have := hle a; omega
  · intro a ha
    rcases List.mem_cons.mp ha with e | e
    · rw [e, hkn]; omega
    · exact h1.2 a e

/-- the policy is LRU and its order list is sorted by last touch in the history `tr`. -/
def SortedLru (c : Cache) (tr : List Ev) : Prop :=
  ∃ o, c.pol = .lru o ∧ Sorted (fun a => lastTouch a tr) o

theorem evict_lru {c c' : Cache} {b : Bool} {cbs : List (Nat × Nat)} {o : List Nat} (hp : c.pol = .lru o)
    (he : evict c b = some (c', cbs)) : ∃ x, c'.pol = .lru (o.erase x) := by
  unfold evict at he
  rw [hp] at he
  simp only [Pol.victim] at he
  cases hg : o.getLast? with
  | none => rw [hg] at he; cases he
  | some k =>
    rw [hg] at he
    simp only at he
    cases hl : lookup c.items k with
    | none => rw [hl] at he; cases he
    | some it =>
      rw [hl] at he
      simp only [evictItem] at he
      injection he with he
      injection he with h1 h2
      subst h1
      exact ⟨it.key, rfl⟩

theorem evictAll_lru (orc : Nat → Bool) : ∀ (n : Nat) (c : Cache) (acc : List (Nat × Nat)) (c' : Cache)
    (r : List (Nat × Nat)) (o : List Nat), c.pol = .lru o → evictAll orc n c acc = some (c', r) →
    ∃ o', c'.pol = .lru o' := by
  intro n
  induction n with
  | zero =>
    intro c acc c' r o hp he
    simp only [evictAll] at he
    injection he with he; injection he with h1 _; subst h1; exact ⟨o, hp⟩
  | succ n ih =>
    intro c acc c' r o hp he
    unfold evictAll at he
    split at he
    · injection he with he; injection he with h1 _; subst h1; exact ⟨o, hp⟩
    · split at he
      · cases he
      · next c1 cbs hev =>
        obtain ⟨x, hx⟩ := evict_lru hp hev
        exact ih c1 _ c' r _ hx he

/-- **one step keeps the LRU order sorted by last touch.** -/
theorem lru_step {c : Cache} (h : Inv c) {pre : List Ev} (hJ : SortedLru c pre) (op : Op) (orc : Nat → Bool) :
    SortedLru (step c op orc).cache (pre ++ [(op, (step c op orc).res, (step c op orc).cbs)]) := by
  obtain ⟨o, hp, hs⟩ := hJ
  have hnd : o.Nodup := by have := h.polNodup; rw [hp] at this; exact this
  have hle : ∀ a, lastTouch a pre ≤ pre.length := fun a => lastTouch_le a pre
  -- events that touch nothing, policy list shrinks or stays
  have quiet : ∀ (ev : Ev) (o' : List Nat), (∀ a, touches a ev = false) → o'.Sublist o →
      Sorted (fun a => lastTouch a (pre ++ [ev])) o' := by
    intro ev o' hn hsub
    exact sorted_sub hs hsub (fun a _ => lt_untouched hn a)
  -- events that touch `k`, which moves to the front
  have front : ∀ (ev : Ev) (o' : List Nat) (k : Nat), (∀ a, touches a ev = (k == a)) → o'.Sublist o → k ∉ o' →
      Sorted (fun a => lastTouch a (pre ++ [ev])) (k :: o') := by
    intro ev o' k hk hsub hko
    obtain ⟨h1, h2⟩ := lt_touched (pre := pre) hk
    exact sorted_front hs hsub hko hle h1 h2
  have hempty : c.closing = true → o = [] := by
    intro hc
    have hi := h.closed hc
    cases ho : o with
    | nil => rfl
    | cons a t =>
      have : a ∈ c.pol.keys := by rw [hp]; simp [Pol.keys, ho]
      have := (h.same a).mp this
      rw [hi] at this; simp [keysOf] at this
  cases op with
  | tick d => exact ⟨o, hp, quiet _ o (fun a => rfl) (List.Sublist.refl _)⟩
  | len => exact ⟨o, hp, quiet _ o (fun a => rfl) (List.Sublist.refl _)⟩
  | capacity => exact ⟨o, hp, quiet _ o (fun a => rfl) (List.Sublist.refl _)⟩
  | set k v =>
    simp only [step]
    by_cases hc : c.closing = true
    · rw [if_pos hc]
      refine ⟨o, hp, ?_⟩
      rw [hempty hc]; exact ⟨List.Pairwise.nil, fun a ha => by cases ha⟩
    · rw [if_neg hc]
      cases hl : lookup c.items k with
      | some it =>
        simp only
        refine ⟨k :: o.erase k, by rw [hp]; rfl, ?_⟩
        exact front _ (o.erase k) k (fun a => rfl) List.erase_sublist
          (fun hm => ((List.Nodup.mem_erase_iff hnd).mp hm).1 rfl)
      | none =>
        simp only
        have hko : k ∉ o := by
          intro hm
          have : k ∈ c.pol.keys := by rw [hp]; exact hm
          exact (lookup_none.mp hl) ((h.same k).mp this)
        by_cases hfull : c.items.length = c.cap
        · rw [if_pos hfull]
          have hne : c.items ≠ [] := by
            intro e; rw [e] at hfull; simp at hfull; have := h.capPos; omega
          obtain ⟨it, hit, hv, hev⟩ := evict_spec h.toBij hne (orc 0)
          obtain ⟨x, hx⟩ := evict_lru hp hev
          rw [hev]
          simp only at hx ⊢
          refine ⟨k :: o.erase x, by rw [hx]; rfl, ?_⟩
          exact front _ (o.erase x) k (fun a => rfl) List.erase_sublist
            (fun hm => hko (List.mem_of_mem_erase hm))
        · rw [if_neg hfull]
          simp only
          refine ⟨k :: o, by rw [hp]; rfl, ?_⟩
          exact front _ o k (fun a => rfl) (List.Sublist.refl _) hko
  | get k =>
    simp only [step]
    by_cases hc : c.closing = true
    · rw [if_pos hc]
      exact ⟨o, hp, quiet _ o (fun a => rfl) (List.Sublist.refl _)⟩
    · rw [if_neg hc]
      cases hl : lookup c.items k with
      | none => exact ⟨o, hp, quiet _ o (fun a => rfl) (List.Sublist.refl _)⟩
      | some it =>
        simp only
        by_cases hexp : c.expiry > 0 ∧ it.exp < c.now
        · rw [if_pos hexp]
          simp only [evictItem]
          refine ⟨o.erase it.key, by rw [hp]; rfl, ?_⟩
          exact quiet _ _ (fun a => rfl) List.erase_sublist
        · rw [if_neg hexp]
          simp only
          refine ⟨k :: o.erase k, by rw [hp]; rfl, ?_⟩
          exact front _ (o.erase k) k (fun a => rfl) List.erase_sublist
            (fun hm => ((List.Nodup.mem_erase_iff hnd).mp hm).1 rfl)
  | del k =>
    simp only [step]
    by_cases hc : c.closing = true
    · rw [if_pos hc]
      exact ⟨o, hp, quiet _ o (fun a => rfl) (List.Sublist.refl _)⟩
    · rw [if_neg hc]
      cases hl : lookup c.items k with
      | none => exact ⟨o, hp, quiet _ o (fun a => rfl) (List.Sublist.refl _)⟩
      | some it =>
        simp only
        refine ⟨o.erase k, by rw [hp]; rfl, ?_⟩
        exact quiet _ _ (fun a => rfl) List.erase_sublist
  | close =>
    simp only [step]
    by_cases hc : c.closing = true
    · rw [if_pos hc]
      exact ⟨o, hp, quiet _ o (fun a => rfl) (List.Sublist.refl _)⟩
    · rw [if_neg hc]
      have hb : Bij { c with closing := true } := ⟨h.itemsNodup, h.polNodup, h.same⟩
      obtain ⟨c', cbs, h1, _, _, _, _, _⟩ :=
        evictAll_spec orc c.items.length { c with closing := true } [] hb (Nat.le_refl _)
      obtain ⟨o', ho'⟩ := evictAll_lru orc _ { c with closing := true } [] c' _ o hp h1
      simp only [List.nil_append] at h1
      rw [h1]
      simp only
      refine ⟨[], by rw [ho']; rfl, List.Pairwise.nil, fun a ha => by cases ha⟩

theorem lru_run {c : Cache} (h : Inv c) {pre : List Ev} (hJ : SortedLru c pre) (ops : List (Op × (Nat → Bool))) :
    SortedLru (run c ops).1 (pre ++ trace c ops) := by
  induction ops generalizing c pre with
  | nil => simp only [run, trace, List.append_nil]; exact hJ
  | cons a t ih =>
    obtain ⟨op, orc⟩ := a
    have h1 := lru_step h hJ op orc
    have := ih (step_inv h op orc).1 h1
    simp only [run, trace]
    rw [List.append_assoc] at this
    exact this

end AsherahVerif.CacheSpec
