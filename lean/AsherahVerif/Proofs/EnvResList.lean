import AsherahVerif.Proofs.EnvResBase
/-
List-level facts for the resource invariant (C09): `setAt`, association lists, and the multiset of
key objects referenced from the entries of the caches that are still open (`liveObjs`).
-/
set_option linter.unusedVariables false
namespace AsherahVerif.Env.Res

theorem setAt_cons_zero {α : Type} (a : α) (l : List α) (f : α → α) : setAt (a :: l) 0 f = f a :: l := by
  apply List.ext_getElem?
  intro j
  rw [setAt_getElem?]
  cases j <;> simp

theorem setAt_cons_succ {α : Type} (a : α) (l : List α) (i : Nat) (f : α → α) :
    setAt (a :: l) (i+1) f = a :: setAt l i f := by
  apply List.ext_getElem?
  intro j
  rw [setAt_getElem?]
  cases j <;> simp [setAt_getElem?]

theorem setAt_of_ge {α : Type} (l : List α) (i : Nat) (f : α → α) (h : l.length ≤ i) : setAt l i f = l := by
  apply List.ext_getElem?
  intro j
  rw [setAt_getElem?]
  split
  · subst_vars; rw [List.getElem?_eq_none h]; rfl
  · rfl

theorem setAt_getD_self {α : Type} (l : List α) (i : Nat) (f : α → α) (d : α) (hi : i < l.length) :
    (setAt l i f).getD i d = f (l.getD i d) := by
  rw [setAt_getD l i i f d hi]; simp

/-! ### association lists -/

section assoc
variable {κ α : Type} [DecidableEq κ]

theorem assocGet_nil (k : κ) : assocGet ([] : List (κ × α)) k = none := rfl

theorem assocGet_cons (p : κ × α) (l : List (κ × α)) (k : κ) :
    assocGet (p :: l) k = if p.1 = k then some p.2 else assocGet l k := by
  unfold assocGet
  simp only [List.find?_cons]
  by_cases h : p.1 = k <;> simp [h]

theorem assocGet_mem {l : List (κ × α)} {k : κ} {v : α} (h : assocGet l k = some v) : (k, v) ∈ l := by
  induction l with
  | nil => simp [assocGet_nil] at h
  | cons p t ih =>
    rw [assocGet_cons] at h
    split at h
    · cases h; rename_i hp; subst hp; exact List.mem_cons_self
    · exact List.mem_cons_of_mem _ (ih h)

theorem assocGet_none_iff {l : List (κ × α)} {k : κ} : assocGet l k = none ↔ k ∉ l.map (·.1) := by
  induction l with
  | nil => simp [assocGet_nil]
  | cons p t ih =>
    rw [assocGet_cons]
    by_cases h : p.1 = k
    · simp [h]
    · simp only [h, if_false, ih, List.map_cons, List.mem_cons]
      constructor
      · intro hn hc; cases hc with
        | inl e => exact h e.symm
        | inr e => exact hn e
      · intro hn hc; exact hn (Or.inr hc)

theorem assocGet_of_mem {l : List (κ × α)} {k : κ} {v : α} (hn : (l.map (·.1)).Nodup) (h : (k, v) ∈ l) :
    assocGet l k = some v := by
  induction l with
  | nil => cases h
  | cons p t ih =>
    rw [assocGet_cons]
    simp only [List.map_cons, List.nodup_cons] at hn
    cases List.mem_cons.1 h with
    | inl e => subst e; simp
    | inr e =>
      have : p.1 ≠ k := by
        intro hp; apply hn.1; rw [hp]; exact List.mem_map.2 ⟨(k, v), e, rfl⟩
      simp [this, ih hn.2 e]

theorem assocSet_of_none {l : List (κ × α)} {k : κ} (v : α) (h : assocGet l k = none) :
    assocSet l k v = l ++ [(k, v)] := by
  unfold assocSet
  unfold assocGet at h
  cases hf : l.find? (·.1 = k) with
  | none => simp
  | some x => rw [hf] at h; cases h

theorem assocSet_of_some {l : List (κ × α)} {k : κ} (v : α) {old : α} (h : assocGet l k = some old) :
    assocSet l k v = l.map fun p => if p.1 = k then (k, v) else p := by
  unfold assocSet
  unfold assocGet at h
  cases hf : l.find? (·.1 = k) with
  | none => rw [hf] at h; cases h
  | some x => simp

theorem assocSet_keys_of_some {l : List (κ × α)} {k : κ} (v : α) {old : α} (h : assocGet l k = some old) :
    (assocSet l k v).map (·.1) = l.map (·.1) := by
  rw [assocSet_of_some v h, List.map_map]
  apply List.map_congr_left
  intro p _
  by_cases hp : p.1 = k <;> simp [hp]

theorem assocSet_keys_nodup {l : List (κ × α)} (k : κ) (v : α) (hn : (l.map (·.1)).Nodup) :
    ((assocSet l k v).map (·.1)).Nodup := by
  cases h : assocGet l k with
  | none =>
    rw [assocSet_of_none v h, List.map_append, List.nodup_append]
    refine ⟨hn, by simp, ?_⟩
    intro a ha b hb
    simp only [List.map_cons, List.map_nil, List.mem_singleton] at hb
    subst hb
    intro e; subst e
    exact (assocGet_none_iff.1 h) ha
  | some old => rw [assocSet_keys_of_some v h]; exact hn

theorem mem_assocSet {l : List (κ × α)} {k k' : κ} {v v' : α} (h : (k', v') ∈ assocSet l k v) :
    (k' = k ∧ v' = v) ∨ ((k', v') ∈ l ∧ k' ≠ k) := by
  cases hg : assocGet l k with
  | none =>
    rw [assocSet_of_none v hg, List.mem_append] at h
    cases h with
    | inl h =>
      by_cases e : k' = k
      · subst e; exact absurd (List.mem_map.2 ⟨(k', v'), h, rfl⟩) (assocGet_none_iff.1 hg)
      · exact Or.inr ⟨h, e⟩
    | inr h => simp at h; exact Or.inl h
  | some old =>
    rw [assocSet_of_some v hg, List.mem_map] at h
    obtain ⟨p, hp, he⟩ := h
    by_cases e : p.1 = k
    · simp only [e, if_true] at he; cases he; exact Or.inl ⟨rfl, rfl⟩
    · simp only [e, if_false] at he; subst he; exact Or.inr ⟨hp, e⟩

theorem assocGet_assocSet_self (l : List (κ × α)) (k : κ) (v : α) : assocGet (assocSet l k v) k = some v := by
  cases hg : assocGet l k with
  | none =>
    rw [assocSet_of_none v hg]
    induction l with
    | nil => simp [assocGet_cons]
    | cons p t ih =>
      rw [assocGet_cons] at hg
      split at hg
      · cases hg
      · rename_i hp
        rw [List.cons_append, assocGet_cons]; simp only [hp, if_false]; exact ih hg
  | some old =>
    rw [assocSet_of_some v hg]
    induction l with
    | nil => simp [assocGet_nil] at hg
    | cons p t ih =>
      rw [List.map_cons, assocGet_cons]
      rw [assocGet_cons] at hg
      by_cases hp : p.1 = k
      · simp [hp]
      · simp only [hp, if_false] at hg ⊢
        exact ih hg

theorem mem_assocSet_self (l : List (κ × α)) (k : κ) (v : α) : (k, v) ∈ assocSet l k v :=
  assocGet_mem (assocGet_assocSet_self l k v)

/-- replacing the value at a present (unique) key: the multiset of projections loses the old
projection and gains the new one. -/
theorem count_assocSet_of_some {l : List (κ × α)} {k : κ} (v : α) {old : α} (g : α → Nat)
    (hn : (l.map (·.1)).Nodup) (h : assocGet l k = some old) (x : Nat) :
    ((assocSet l k v).map (fun p => g p.2)).count x + (if g old = x then 1 else 0) =
      (l.map (fun p => g p.2)).count x + (if g v = x then 1 else 0) := by
  rw [assocSet_of_some v h]
  induction l with
  | nil => simp [assocGet_nil] at h
  | cons p t ih =>
    rw [assocGet_cons] at h
    simp only [List.map_cons, List.nodup_cons] at hn
    by_cases hp : p.1 = k
    · simp only [hp, if_true] at h
      cases h
      have hk : k ∉ t.map (·.1) := hp ▸ hn.1
      have htail : t.map (fun p => if p.1 = k then (k, v) else p) = t := by
        conv => rhs; rw [← List.map_id t]
        apply List.map_congr_left
        intro q hq
        have : q.1 ≠ k := fun e => hk (e ▸ List.mem_map.2 ⟨q, hq, rfl⟩)
        simp [this]
      simp only [List.map_cons, hp, if_true, htail, List.count_cons, beq_iff_eq]
      omega
    · simp only [hp, if_false] at h
      have := ih hn.2 h
      simp only [List.map_cons, hp, if_false, List.count_cons, beq_iff_eq]
      omega

theorem count_assocSet_of_none {l : List (κ × α)} {k : κ} (v : α) (g : α → Nat)
    (h : assocGet l k = none) (x : Nat) :
    ((assocSet l k v).map (fun p => g p.2)).count x =
      (l.map (fun p => g p.2)).count x + (if g v = x then 1 else 0) := by
  rw [assocSet_of_none v h]
  simp [List.count_append, List.count_cons]

end assoc

/-! ### objects referenced from the entries of open caches -/

def objsOf (kc : KeyCache) : List Nat := kc.ents.map (fun p => p.2.obj)

/-- objects of the entries of the caches `i, i+1, …` that are not marked dead. -/
def liveObjsFrom (dead : Nat → Bool) : Nat → List KeyCache → List Nat
  | _, [] => []
  | i, kc :: rest => (if dead i then [] else objsOf kc) ++ liveObjsFrom dead (i+1) rest

def liveObjs (dead : Nat → Bool) (cs : List KeyCache) : List Nat := liveObjsFrom dead 0 cs

/-- number of entries of open caches that point to object `o`. -/
def entCount (dead : Nat → Bool) (cs : List KeyCache) (o : Nat) : Nat := (liveObjs dead cs).count o

theorem liveObjsFrom_setAt_live (dead : Nat → Bool) (o : Nat) (new : KeyCache) :
    ∀ (cs : List KeyCache) (i c : Nat) (old : KeyCache), cs[c]? = some old → dead (i + c) = false →
      (liveObjsFrom dead i (setAt cs c fun _ => new)).count o + (objsOf old).count o =
        (liveObjsFrom dead i cs).count o + (objsOf new).count o := by
  intro cs
  induction cs with
  | nil => intro i c old h; cases h
  | cons kc rest ih =>
    intro i c old h hd
    cases c with
    | zero =>
      simp only [List.getElem?_cons_zero, Option.some.injEq] at h
      subst h
      simp only [Nat.add_zero] at hd
      simp only [setAt_cons_zero, liveObjsFrom, hd, List.count_append]
      simp; omega
    | succ c =>
      simp only [List.getElem?_cons_succ] at h
      have := ih (i+1) c old h (by rw [← hd]; congr 1; omega)
      simp only [setAt_cons_succ, liveObjsFrom, List.count_append]
      omega

theorem liveObjsFrom_setAt_dead (dead : Nat → Bool) (f : KeyCache → KeyCache) :
    ∀ (cs : List KeyCache) (i c : Nat), dead (i + c) = true →
      liveObjsFrom dead i (setAt cs c f) = liveObjsFrom dead i cs := by
  intro cs
  induction cs with
  | nil => intro i c _; rw [setAt_of_ge _ _ _ (by simp)]
  | cons kc rest ih =>
    intro i c hd
    cases c with
    | zero =>
      simp only [Nat.add_zero] at hd
      simp only [setAt_cons_zero, liveObjsFrom, hd, if_true]
    | succ c =>
      simp only [setAt_cons_succ, liveObjsFrom]
      rw [ih (i+1) c (by rw [← hd]; congr 1; omega)]

theorem liveObjsFrom_append (dead : Nat → Bool) (kc : KeyCache) :
    ∀ (cs : List KeyCache) (i : Nat),
      liveObjsFrom dead i (cs ++ [kc]) = liveObjsFrom dead i cs ++ (if dead (i + cs.length) then [] else objsOf kc) := by
  intro cs
  induction cs with
  | nil => intro i; simp [liveObjsFrom]
  | cons a rest ih =>
    intro i
    simp only [List.cons_append, liveObjsFrom, ih, List.length_cons, List.append_assoc]
    rw [show i + 1 + rest.length = i + (rest.length + 1) by omega]

theorem liveObjsFrom_congr (dead dead' : Nat → Bool) :
    ∀ (cs : List KeyCache) (i : Nat), (∀ j, j < cs.length → dead (i + j) = dead' (i + j)) →
      liveObjsFrom dead i cs = liveObjsFrom dead' i cs := by
  intro cs
  induction cs with
  | nil => intro i _; rfl
  | cons a rest ih =>
    intro i h
    have h0 := h 0 (by simp)
    simp only [Nat.add_zero] at h0
    simp only [liveObjsFrom, h0]
    rw [ih (i+1)]
    intro j hj
    have := h (j+1) (by simp; omega)
    rw [show i + 1 + j = i + (j + 1) by omega]; exact this

/-- marking one more cache dead removes exactly its entries from the multiset. -/
theorem liveObjsFrom_kill (dead : Nat → Bool) (o : Nat) (c' : Nat) :
    ∀ (cs : List KeyCache) (i c : Nat) (kc : KeyCache), cs[c]? = some kc → c' = i + c → dead c' = false →
      (liveObjsFrom (fun j => j == c' || dead j) i cs).count o + (objsOf kc).count o =
        (liveObjsFrom dead i cs).count o := by
  intro cs
  induction cs with
  | nil => intro i c kc h; cases h
  | cons a rest ih =>
    intro i c kc h hc hd
    cases c with
    | zero =>
      simp only [List.getElem?_cons_zero, Option.some.injEq] at h
      subst h
      simp only [Nat.add_zero] at hc
      subst hc
      simp only [liveObjsFrom, beq_self_eq_true, Bool.true_or, if_true, hd, List.nil_append, List.count_append]
      rw [liveObjsFrom_congr (fun j => j == c' || dead j) dead rest (c'+1)]
      · simp; omega
      · intro j _
        have : (c' + 1 + j == c') = false := by simp; omega
        simp [this]
    | succ c =>
      simp only [List.getElem?_cons_succ] at h
      have := ih (i+1) c kc h (by omega) hd
      have hne : (i == c') = false := by simp; omega
      simp only [liveObjsFrom, hne, Bool.false_or, List.count_append]
      omega

theorem mem_liveObjsFrom (dead : Nat → Bool) (x : Nat) :
    ∀ (cs : List KeyCache) (i : Nat), x ∈ liveObjsFrom dead i cs ↔
      ∃ c kc, cs[c]? = some kc ∧ dead (i + c) = false ∧ x ∈ objsOf kc := by
  intro cs
  induction cs with
  | nil => intro i; simp [liveObjsFrom]
  | cons a rest ih =>
    intro i
    simp only [liveObjsFrom, List.mem_append, ih]
    constructor
    · intro h
      cases h with
      | inl h =>
        by_cases hd : dead i
        · simp [hd] at h
        · simp only [hd] at h
          exact ⟨0, a, rfl, by simpa using hd, by simpa using h⟩
      | inr h =>
        obtain ⟨c, kc, h1, h2, h3⟩ := h
        exact ⟨c+1, kc, by simpa using h1, by rw [← h2]; congr 1; omega, h3⟩
    · rintro ⟨c, kc, h1, h2, h3⟩
      cases c with
      | zero =>
        simp only [List.getElem?_cons_zero, Option.some.injEq] at h1
        subst h1
        simp only [Nat.add_zero] at h2
        left; simp [h2, h3]
      | succ c =>
        right
        exact ⟨c, kc, by simpa using h1, by rw [← h2]; congr 1; omega, h3⟩

theorem mem_liveObjs {dead : Nat → Bool} {cs : List KeyCache} {x : Nat} :
    x ∈ liveObjs dead cs ↔ ∃ c kc, cs[c]? = some kc ∧ dead c = false ∧ x ∈ objsOf kc := by
  unfold liveObjs
  rw [mem_liveObjsFrom]
  simp

theorem entCount_pos_iff {dead : Nat → Bool} {cs : List KeyCache} {x : Nat} :
    0 < entCount dead cs x ↔ ∃ c kc, cs[c]? = some kc ∧ dead c = false ∧ x ∈ objsOf kc := by
  unfold entCount
  rw [List.count_pos_iff, mem_liveObjs]

theorem entCount_setAt_live {dead : Nat → Bool} {cs : List KeyCache} {c : Nat} {old : KeyCache} (new : KeyCache) (o : Nat)
    (h : cs[c]? = some old) (hd : dead c = false) :
    entCount dead (setAt cs c fun _ => new) o + (objsOf old).count o = entCount dead cs o + (objsOf new).count o := by
  unfold entCount liveObjs
  exact liveObjsFrom_setAt_live dead o new cs 0 c old h (by simpa using hd)

theorem entCount_setAt_dead {dead : Nat → Bool} (cs : List KeyCache) {c : Nat} (f : KeyCache → KeyCache) (o : Nat)
    (hd : dead c = true) : entCount dead (setAt cs c f) o = entCount dead cs o := by
  unfold entCount liveObjs
  rw [liveObjsFrom_setAt_dead dead f cs 0 c (by simpa using hd)]

theorem entCount_append_empty (dead : Nat → Bool) (cs : List KeyCache) (kc : KeyCache) (o : Nat) (h : kc.ents = []) :
    entCount dead (cs ++ [kc]) o = entCount dead cs o := by
  unfold entCount liveObjs
  rw [liveObjsFrom_append]
  simp [objsOf, h]

theorem entCount_congr {dead dead' : Nat → Bool} (cs : List KeyCache) (o : Nat)
    (h : ∀ c, c < cs.length → dead c = dead' c) : entCount dead cs o = entCount dead' cs o := by
  unfold entCount liveObjs
  rw [liveObjsFrom_congr dead dead' cs 0 (by simpa using h)]

theorem entCount_kill {dead : Nat → Bool} {cs : List KeyCache} {c : Nat} {kc : KeyCache} (o : Nat)
    (h : cs[c]? = some kc) (hd : dead c = false) :
    entCount (fun j => j == c || dead j) cs o + (objsOf kc).count o = entCount dead cs o := by
  unfold entCount liveObjs
  exact liveObjsFrom_kill dead o c cs 0 c kc h (by simp) hd

end AsherahVerif.Env.Res
