import AsherahVerif.Proofs.EnvCohInv
/-
`Stills x`: the computation touches neither the metastore nor any key cache, and leaves an empty
fault schedule empty.  Together with `Extends x` (EnvFootprint) this preserves `Inv`.
Compositional, with a `still_auto` tactic in the style of `ext_auto`.
-/
set_option linter.unusedVariables false
namespace AsherahVerif.Env

structure Still (w w' : World) : Prop where
  store : w'.store = w.store
  caches : w'.caches = w.caches
  nf : w.faults = [] → w'.faults = []

theorem Still.refl (w : World) : Still w w := ⟨rfl, rfl, id⟩
theorem Still.trans {a b c : World} (h1 : Still a b) (h2 : Still b c) : Still a c :=
  ⟨h2.store.trans h1.store, h2.caches.trans h1.caches, fun h => h2.nf (h1.nf h)⟩

structure Stills {α : Type} (x : M α) : Prop where
  st : ∀ w, Still w (x w).2

theorem Stills.pure {α : Type} (a : α) : Stills (pure a : M α) := ⟨fun w => Still.refl w⟩
theorem Stills.throw {α : Type} (e : Err) : Stills (throw e : M α) := ⟨fun w => Still.refl w⟩
theorem Stills.get : Stills get := ⟨fun w => Still.refl w⟩

theorem Stills.bind {α β : Type} {x : M α} {f : α → M β} (hx : Stills x) (hf : ∀ a, Stills (f a)) :
    Stills (x >>= f) := by
  constructor
  intro w
  have h1 := hx.st w
  simp only [bind_run]
  cases hr : x w with
  | mk r w' =>
    rw [hr] at h1
    cases r with
    | ok a => exact h1.trans ((hf a).st w')
    | error e => exact h1

theorem Stills.finallyDo {α : Type} {x : M α} {fin : M Unit} (hx : Stills x) (hf : Stills fin) :
    Stills (finallyDo x fin) := by
  constructor; intro w; simp only [finallyDo_run]; exact (hx.st w).trans (hf.st _)

theorem Stills.tryM {α : Type} {x : M α} (hx : Stills x) : Stills (Env.tryM x) := by
  constructor; intro w; simp only [tryM_run]; exact hx.st w

theorem takeFault_still : Stills takeFault := by
  constructor; intro w; unfold takeFault; split
  · exact Still.refl w
  · rename_i h; exact ⟨rfl, rfl, fun hf => by rw [hf] at h; cases h⟩

theorem logCall_still (c : Call) : Stills (logCall c) := ⟨fun w => ⟨rfl, rfl, id⟩⟩
theorem getCache_still (c : Nat) : Stills (getCache c) := ⟨fun w => Still.refl w⟩
theorem keyObj_still (o : Nat) : Stills (keyObj o) := ⟨fun w => Still.refl w⟩
theorem newBuf_still (m : Nat) : Stills (newBuf m) := ⟨fun w => ⟨rfl, rfl, id⟩⟩
theorem wipeBuf_still (b : Nat) : Stills (wipeBuf b) := ⟨fun w => ⟨rfl, rfl, id⟩⟩
theorem newKeyObj_still (c : Int) (r : Bool) (m s : Nat) : Stills (newKeyObj c r m s) := ⟨fun w => ⟨rfl, rfl, id⟩⟩
theorem secretClose_still (s : Nat) : Stills (secretClose s) := ⟨fun w => ⟨rfl, rfl, id⟩⟩
theorem keyIncr_still (o : Nat) : Stills (keyIncr o) := ⟨fun w => ⟨rfl, rfl, id⟩⟩
theorem keyWrap_still (o : Nat) : Stills (keyWrap o) := ⟨fun w => ⟨rfl, rfl, id⟩⟩
theorem keysSet_still (f : World → List KeyObj) :
    Stills (modify fun w => { w with keys := f w }) := ⟨fun w => ⟨rfl, rfl, id⟩⟩
theorem secretsSet_still (f : World → List Secret) :
    Stills (modify fun w => { w with secrets := f w }) := ⟨fun w => ⟨rfl, rfl, id⟩⟩

macro "still_step" : tactic => `(tactic| first
  | with_reducible exact Stills.pure _ | with_reducible exact Stills.throw _ | with_reducible exact Stills.get
  | with_reducible exact takeFault_still | with_reducible exact logCall_still _
  | with_reducible exact getCache_still _
  | with_reducible exact keyObj_still _
  | with_reducible exact newBuf_still _ | with_reducible exact wipeBuf_still _
  | with_reducible exact newKeyObj_still _ _ _ _ | with_reducible exact secretClose_still _
  | with_reducible exact keyIncr_still _ | with_reducible exact keyWrap_still _
  | with_reducible exact keysSet_still _ | with_reducible exact secretsSet_still _
  | with_reducible assumption
  | with_reducible apply Stills.finallyDo | with_reducible apply Stills.tryM | with_reducible apply Stills.bind
  | (with_reducible intro _) | split | dsimp only)

syntax "still_auto" ("[" Lean.Parser.Tactic.SolveByElim.arg,* "]")? : tactic
macro_rules
  | `(tactic| still_auto) => `(tactic| repeat (any_goals still_step))
  | `(tactic| still_auto [$ls,*]) => `(tactic| repeat (any_goals (first | still_step | with_reducible apply_rules [$ls,*])))

theorem lam_still {α : Type} (f : World → α) (g : World → World)
    (hs : ∀ w, (g w).store = w.store) (hc : ∀ w, (g w).caches = w.caches) (hf : ∀ w, (g w).faults = w.faults) :
    Stills (fun w => ((.ok (f w), g w) : Except Err α × World)) :=
  ⟨fun w => ⟨hs w, hc w, fun h => (hf w).trans h⟩⟩

theorem msLoad_still (m : KeyMeta) : Stills (msLoad m) := by unfold msLoad; still_auto
theorem msLoadLatest_still (k : KeyId) : Stills (msLoadLatest k) := by unfold msLoadLatest; still_auto
theorem secretNew_still (b m : Nat) : Stills (secretNew b m) := by
  unfold secretNew; still_auto
  exact Stills.bind (logCall_still _) fun _ => lam_still _ _ (fun _ => rfl) (fun _ => rfl) (fun _ => rfl)
theorem secretRandom_still : Stills secretRandom := by
  unfold secretRandom; still_auto
  exact Stills.bind (logCall_still _) fun _ => lam_still _ _ (fun _ => rfl) (fun _ => rfl) (fun _ => rfl)
theorem keyCloseRaw_still (o : Nat) : Stills (keyCloseRaw o) := by unfold keyCloseRaw; still_auto
theorem keyRelease_still (o : Nat) : Stills (keyRelease o) := by unfold keyRelease; still_auto [keyCloseRaw_still]
theorem withKey_still {α : Type} (o : Nat) (f : Nat → M α) (hf : ∀ m, Stills (f m)) : Stills (withKey o f) := by
  unfold withKey; still_auto [hf]
theorem kmsEncrypt_still (m : Nat) : Stills (kmsEncrypt m) := by unfold kmsEncrypt; still_auto
theorem kmsDecrypt_still (c : Ct) : Stills (kmsDecrypt c) := by unfold kmsDecrypt; still_auto
theorem aeadEncrypt_still (pt : Pt) (k : Nat) : Stills (aeadEncrypt pt k) := by
  unfold aeadEncrypt; still_auto
  exact Stills.bind (logCall_still _) fun _ => lam_still _ _ (fun _ => rfl) (fun _ => rfl) (fun _ => rfl)
theorem aeadDecrypt_still (c : Ct) (k : Nat) : Stills (aeadDecrypt c k) := by unfold aeadDecrypt; still_auto
theorem releaseAll_still (l : List Nat) : Stills (releaseAll l) := by
  induction l with
  | nil => exact Stills.pure _
  | cons v rest ih => unfold releaseAll; still_auto [keyRelease_still]
theorem generateKey_still (x : Ctx) : Stills (generateKey x) := by unfold generateKey; still_auto [secretRandom_still]
theorem systemKeyFromEKR_still (r : Row) : Stills (systemKeyFromEKR r) := by
  unfold systemKeyFromEKR; still_auto [kmsDecrypt_still, secretNew_still]
theorem loadSystemKey_still (m : KeyMeta) : Stills (loadSystemKey m) := by
  unfold loadSystemKey; still_auto [msLoad_still, systemKeyFromEKR_still]
theorem mustLoadLatest_still (k : KeyId) : Stills (mustLoadLatest k) := by
  unfold mustLoadLatest; still_auto [msLoadLatest_still]
theorem decryptRow_still (ik : Nat) (dk : DrrKey) (data : Ct) : Stills (decryptRow ik dk data) := by
  unfold decryptRow
  apply withKey_still
  intro im
  still_auto [aeadDecrypt_still]

/-! ### `Inv` along still extensions -/

theorem Inv.still {w w' : World} (hi : Inv w) (he : Ext w w') (hs : Still w w') : Inv w' :=
  ⟨hs.store ▸ hi.wf, hi.coh.ext he hs.caches⟩

end AsherahVerif.Env
