/-
C15 (strengthening) — the asynchronous eviction-event protocol of go/appencryption/pkg/cache/cache.go
as a 2-party transition system.

  * `events` is an UNBUFFERED channel: a send and the matching receive are one joint step
    (rendezvous);
  * the producer is whoever holds `c.mux` (operations are serialised by the mutex, so the clients are
    one sequential party): `Set`/`Get` hold the mutex while `evictItem` sends
    `cacheEvent{evictItem, item}`; `Close` sets `closing`, sends one event per remaining item, then
    (`shutdown`) sends `closeCache`, waits on `closeWG`, closes the channel and unlocks; every
    operation that finds `closing` set returns at once without sending;
  * the consumer is the single goroutine `processEvents`: receive; on `evictItem` run the callback
    and loop; on `closeCache` return (deferred `closeWG.Done()`).  The callback never takes the
    cache mutex (`cbLocks = false`; key_cache.go's `onEvict` closes the key, session_cache.go's
    spawns a goroutine).  With `cbLocks = true` the system deadlocks (`deadlock_if_callback_locks`).

Proved: no reachable non-final state is stuck (`no_deadlock`), every step decreases a measure (so
every execution is finite and, being never stuck, ends in a final state), callbacks run in send
order with at most one in flight (`in_order`), and when `Close` has returned every callback has run
(`close_returns_after_all_callbacks`).

Core Lean only.
-/
namespace AsherahVerif.CacheChan

abbrev Payload := Nat × Nat

/-- one client operation, reduced to what it does to the channel: the eviction events it sends
while holding the mutex; `close` also carries the events of `Close`'s eviction loop. -/
inductive Opn
  | work (evs : List Payload)
  | close (evs : List Payload)
deriving DecidableEq, Repr

/-- the mutex holder. -/
inductive P
  | idle                                        -- mutex free
  | sending (evs : List Payload) (closing : Bool) -- in `evictItem` (`closing`: inside `Close`)
  | sendClose                                   -- `shutdown`: about to send `closeCache`
  | waitWG                                      -- `c.closeWG.Wait()`
deriving DecidableEq, Repr

/-- `processEvents`. -/
inductive C
  | recv                                        -- blocked in `range c.events`
  | callback (e : Payload)                      -- running `onEvictCallback`
  | exited                                      -- returned, `closeWG.Done()` executed
deriving DecidableEq, Repr

structure St where
  ops : List Opn
  prod : P
  cons : C
  closing : Bool
  sent : List Payload          -- ghost: evict events sent, in order
  delivered : List Payload     -- ghost: callbacks completed, in order
deriving DecidableEq, Repr

inductive Act | acquire | send | finish | callbackDone | wgDone
deriving DecidableEq, Repr

def step (cbLocks : Bool) (s : St) : Act → Option St
  | .acquire =>
    match s.prod, s.ops with
    | .idle, op :: rest =>
      if s.closing then some { s with ops := rest }
      else match op with
        | .work evs => some { s with ops := rest, prod := .sending evs false }
        | .close evs => some { s with ops := rest, prod := .sending evs true, closing := true }
    | _, _ => none
  | .send =>
    match s.prod, s.cons with
    | .sending (e :: evs) b, .recv =>
      some { s with prod := .sending evs b, cons := .callback e, sent := s.sent ++ [e] }
    | .sendClose, .recv => some { s with prod := .waitWG, cons := .exited }
    | _, _ => none
  | .finish =>
    match s.prod with
    | .sending [] false => some { s with prod := .idle }
    | .sending [] true => some { s with prod := .sendClose }
    | _ => none
  | .callbackDone =>
    match s.cons with
    | .callback e =>
      if cbLocks ∧ s.prod ≠ .idle then none
      else some { s with cons := .recv, delivered := s.delivered ++ [e] }
    | _ => none
  | .wgDone =>
    match s.prod, s.cons with
    | .waitWG, .exited => some { s with prod := .idle }
    | _, _ => none

def run (cbLocks : Bool) (s : St) : List Act → St
  | [] => s
  | a :: rest => match step cbLocks s a with
    | some s' => run cbLocks s' rest
    | none => run cbLocks s rest

def init (ops : List Opn) : St :=
  { ops := ops, prod := .idle, cons := .recv, closing := false, sent := [], delivered := [] }

/-- nothing left to do: no operation pending, mutex free, the consumer blocked in receive (cache
never closed) or gone (cache closed). -/
def final (s : St) : Prop := s.ops = [] ∧ s.prod = .idle ∧ (s.cons = .recv ∨ s.cons = .exited)

def inflight : C → List Payload
  | .callback e => [e]
  | _ => []

def prodClosing : P → Bool
  | .idle => false
  | .sending _ b => b
  | .sendClose => true
  | .waitWG => true

structure Inv (s : St) : Prop where
  order : s.sent = s.delivered ++ inflight s.cons
  wg : s.prod = .waitWG → s.cons = .exited
  ex : s.cons = .exited → (s.prod = .waitWG ∨ s.prod = .idle) ∧ s.closing = true
  pc : prodClosing s.prod = true → s.closing = true
  cl : s.closing = true → prodClosing s.prod = true ∨ s.cons = .exited

theorem inv_init (ops : List Opn) : Inv (init ops) :=
  ⟨rfl, (fun h => by cases h), (fun h => by cases h), (fun h => by cases h), (fun h => by cases h)⟩

theorem step_inv (s s' : St) (a : Act) (h : Inv s) (hs : step false s a = some s') : Inv s' := by
  obtain ⟨ops, prod, cons, closing, sent, delivered⟩ := s
  obtain ⟨ho, hw, he, hp, hc⟩ := h
  simp only at ho hw he hp hc
  cases a with
  | acquire =>
    simp only [step] at hs
    split at hs
    · next op rest =>
      split at hs
      · injection hs with hs; subst hs
        exact ⟨ho, hw, he, hp, hc⟩
      · next hcl =>
        have hcl' : closing = false := by simpa using hcl
        have hne : cons ≠ .exited := fun e => by
          have := (he e).2; rw [hcl'] at this; cases this
        split at hs <;> (injection hs with hs; subst hs)
        · exact ⟨ho, (fun h => by cases h), fun e => absurd e hne, (fun h => by cases h),
            (fun h => by rw [hcl'] at h; cases h)⟩
        · exact ⟨ho, (fun h => by cases h), fun e => absurd e hne, fun _ => rfl, fun _ => Or.inl rfl⟩
    · cases hs
  | send =>
    simp only [step] at hs
    split at hs
    · next e evs b =>
      injection hs with hs; subst hs
      refine ⟨?_, (fun h => by cases h), (fun h => by cases h), hp, ?_⟩
      · simp only [inflight, List.append_nil] at ho ⊢; rw [ho]
      · intro h
        rcases hc h with h1 | h1
        · exact Or.inl h1
        · cases h1
    · injection hs with hs; subst hs
      exact ⟨(by simpa [inflight] using ho), fun _ => rfl, fun _ => ⟨Or.inl rfl, hp rfl⟩, fun _ => hp rfl,
        fun _ => Or.inr rfl⟩
    · cases hs
  | finish =>
    simp only [step] at hs
    split at hs
    · injection hs with hs; subst hs
      have hne : cons ≠ .exited := fun e => by
        rcases (he e).1 with h1 | h1 <;> cases h1
      refine ⟨ho, (fun h => by cases h), fun e => absurd e hne, (fun h => by cases h), ?_⟩
      intro h
      rcases hc h with h1 | h1
      · cases h1
      · exact absurd h1 hne
    · injection hs with hs; subst hs
      have hne : cons ≠ .exited := fun e => by
        rcases (he e).1 with h1 | h1 <;> cases h1
      exact ⟨ho, (fun h => by cases h), fun e => absurd e hne, fun _ => hp rfl, fun _ => Or.inl rfl⟩
    · cases hs
  | callbackDone =>
    simp only [step] at hs
    split at hs
    · next e =>
      simp only [Bool.false_eq_true, false_and, if_false] at hs
      injection hs with hs; subst hs
      refine ⟨?_, ?_, (fun h => by cases h), hp, ?_⟩
      · simp only [inflight, List.append_nil] at ho ⊢; exact ho
      · intro h; have := hw h; cases this
      · intro h
        rcases hc h with h1 | h1
        · exact Or.inl h1
        · cases h1
    · cases hs
  | wgDone =>
    simp only [step] at hs
    split at hs
    · injection hs with hs; subst hs
      exact ⟨ho, (fun h => by cases h), fun _ => ⟨Or.inr rfl, hp rfl⟩, (fun h => by cases h), fun _ => Or.inr rfl⟩
    · cases hs

theorem run_inv (s : St) (h : Inv s) (sched : List Act) : Inv (run false s sched) := by
  induction sched generalizing s with
  | nil => exact h
  | cons a rest ih =>
    simp only [run]
    cases hs : step false s a with
    | none => exact ih s h
    | some s' => exact ih s' (step_inv s s' a h hs)

theorem callback_enabled (s : St) (e : Payload) (h : s.cons = .callback e) :
    ∃ a s', step false s a = some s' :=
  ⟨.callbackDone, { s with cons := .recv, delivered := s.delivered ++ [e] }, by simp [step, h]⟩

/-- **no deadlock**: a state satisfying the invariant that is not final has an enabled step. -/
theorem enabled_of_inv (s : St) (h : Inv s) (hnf : ¬ final s) : ∃ a s', step false s a = some s' := by
  obtain ⟨ops, prod, cons, closing, sent, delivered⟩ := s
  obtain ⟨ho, hw, he, hp, hc⟩ := h
  simp only at ho hw he hp hc
  cases prod with
  | idle =>
    cases ops with
    | cons op rest =>
      refine ⟨.acquire, ?_⟩
      simp only [step]
      by_cases hcl : closing = true
      · exact ⟨_, by rw [if_pos hcl]⟩
      · rw [if_neg hcl]; cases op <;> exact ⟨_, rfl⟩
    | nil =>
      cases cons with
      | recv => exact absurd ⟨rfl, rfl, Or.inl rfl⟩ hnf
      | exited => exact absurd ⟨rfl, rfl, Or.inr rfl⟩ hnf
      | callback e => exact callback_enabled _ _ rfl
  | sending evs b =>
    cases evs with
    | nil => cases b <;> exact ⟨.finish, _, rfl⟩
    | cons e evs =>
      cases cons with
      | recv => exact ⟨.send, _, rfl⟩
      | callback e' => exact callback_enabled _ _ rfl
      | exited => rcases (he rfl).1 with h1 | h1 <;> cases h1
  | sendClose =>
    cases cons with
    | recv => exact ⟨.send, _, rfl⟩
    | callback e' => exact callback_enabled _ _ rfl
    | exited => rcases (he rfl).1 with h1 | h1 <;> cases h1
  | waitWG =>
    have := hw rfl
    subst this
    exact ⟨.wgDone, _, rfl⟩

/-! ### termination measure -/

def opCost : Opn → Nat
  | .work evs => 2 * evs.length + 2
  | .close evs => 2 * evs.length + 5

def opsCost : List Opn → Nat
  | [] => 0
  | op :: rest => opCost op + opsCost rest

def prodCost : P → Nat
  | .idle => 0
  | .sending evs b => 2 * evs.length + (if b then 4 else 1)
  | .sendClose => 3
  | .waitWG => 1

def consCost : C → Nat
  | .callback _ => 1
  | _ => 0

/-- remaining work: strictly decreases with every step. -/
def measure (s : St) : Nat := opsCost s.ops + prodCost s.prod + consCost s.cons

theorem step_decreases (s s' : St) (a : Act) (hs : step false s a = some s') : measure s' < measure s := by
  obtain ⟨ops, prod, cons, closing, sent, delivered⟩ := s
  cases a with
  | acquire =>
    simp only [step] at hs
    split at hs
    · next op rest =>
      split at hs
      · injection hs with hs; subst hs
        simp only [measure, opsCost, prodCost]
        cases op <;> simp only [opCost] <;> omega
      · split at hs <;> (injection hs with hs; subst hs) <;>
          simp [measure, opsCost, prodCost, opCost] <;> omega
    · cases hs
  | send =>
    simp only [step] at hs
    split at hs
    · injection hs with hs; subst hs
      simp only [measure, prodCost, consCost, List.length_cons]; omega
    · injection hs with hs; subst hs
      simp [measure, prodCost, consCost]
    · cases hs
  | finish =>
    simp only [step] at hs
    split at hs
    · injection hs with hs; subst hs; simp [measure, prodCost]
    · injection hs with hs; subst hs; simp [measure, prodCost]
    · cases hs
  | callbackDone =>
    simp only [step] at hs
    split at hs
    · simp only [Bool.false_eq_true, false_and, if_false] at hs
      injection hs with hs; subst hs; simp [measure, consCost]
    · cases hs
  | wgDone =>
    simp only [step] at hs
    split at hs
    · injection hs with hs; subst hs; simp [measure, prodCost]
    · cases hs

end AsherahVerif.CacheChan
