import AsherahVerif.Proofs.EnvFrames
/-
`Extends` (see EnvFrames) for every function of the envelope model, bottom-up.
Consequences used by the property proofs: an encrypt/decrypt/close never touches the clock, the
factories or the sessions, never removes or alters a metastore row, never changes the identity of
a heap object, never re-opens a closed key or secret, never un-wipes a buffer.
-/
set_option linter.unusedVariables false
namespace AsherahVerif.Env

theorem msLoad_ext (m : KeyMeta) : Extends (msLoad m) := by unfold msLoad; ext_auto
theorem msLoadLatest_ext (k : KeyId) : Extends (msLoadLatest k) := by unfold msLoadLatest; ext_auto

theorem storeAppend_ext (r : Row) : Extends (modify fun w => { w with store := w.store ++ [r] }) := fun w =>
  ⟨rfl, rfl, rfl, fun x h => List.mem_append_left _ h, fun _ s h => ⟨s, h, rfl, Nat.le_refl _, Nat.le_refl _⟩,
   fun _ k h => ⟨k, h, rfl, rfl, rfl, id⟩, fun _ b h => ⟨b, h, rfl, id⟩, Nat.le_refl _, Nat.le_refl _, Nat.le_refl _⟩

theorem msStore_ext (r : Row) : Extends (msStore r) := by
  unfold msStore; ext_auto [storeAppend_ext]

theorem secretAppend_ext (s : Secret) (f : World → Nat) (g : World → Nat) (hg : ∀ w, w.mats ≤ g w) :
    Extends (fun w => ((.ok (f w), { w with secrets := w.secrets ++ [s], mats := g w }) : Except Err Nat × World)) := fun w =>
  ⟨rfl, rfl, rfl, fun _ h => h, fun _ x h => ⟨x, append_getElem?_of_some _ h, rfl, Nat.le_refl _, Nat.le_refl _⟩,
   fun _ k h => ⟨k, h, rfl, rfl, rfl, id⟩, fun _ b h => ⟨b, h, rfl, id⟩, Nat.le_refl _, hg w, Nat.le_refl _⟩

theorem secretNew_ext (b m : Nat) : Extends (secretNew b m) := by
  unfold secretNew
  ext_auto
  intro w
  exact ⟨rfl, rfl, rfl, fun _ h => h, fun _ x h => ⟨x, append_getElem?_of_some _ h, rfl, Nat.le_refl _, Nat.le_refl _⟩,
   fun _ k h => ⟨k, h, rfl, rfl, rfl, id⟩, fun _ b h => ⟨b, h, rfl, id⟩, Nat.le_refl _, Nat.le_refl _, Nat.le_refl _⟩

theorem secretRandom_ext : Extends secretRandom := by
  unfold secretRandom
  ext_auto
  intro w
  exact ⟨rfl, rfl, rfl, fun _ h => h, fun _ x h => ⟨x, append_getElem?_of_some _ h, rfl, Nat.le_refl _, Nat.le_refl _⟩,
   fun _ k h => ⟨k, h, rfl, rfl, rfl, id⟩, fun _ b h => ⟨b, h, rfl, id⟩, Nat.le_refl _, Nat.le_succ _, Nat.le_refl _⟩

theorem keyCloseRaw_ext (o : Nat) : Extends (keyCloseRaw o) := by
  unfold keyCloseRaw
  ext_auto
  exact keys_setAt_ext o _ fun k => ⟨rfl, rfl, rfl, fun _ => rfl⟩

theorem keyRelease_ext (o : Nat) : Extends (keyRelease o) := by
  unfold keyRelease
  apply Extends.bind
  · exact keys_setAt_ext o _ fun k => ⟨rfl, rfl, rfl, id⟩
  · ext_auto [keyCloseRaw_ext]

theorem keyIncr_ext (o : Nat) : Extends (keyIncr o) :=
  keys_setAt_ext o _ fun k => ⟨rfl, rfl, rfl, id⟩

theorem keyWrap_ext (o : Nat) : Extends (keyWrap o) :=
  keys_setAt_ext o _ fun k => ⟨rfl, rfl, rfl, id⟩

theorem withKey_ext {α : Type} (o : Nat) (f : Nat → M α) (hf : ∀ m, Extends (f m)) : Extends (withKey o f) := by
  unfold withKey
  ext_auto
  · exact secrets_setAt_ext _ _ fun x => ⟨rfl, Nat.le_refl _, Nat.le_succ _⟩
  · exact hf _

theorem kmsEncrypt_ext (m : Nat) : Extends (kmsEncrypt m) := by unfold kmsEncrypt; ext_auto
theorem kmsDecrypt_ext (c : Ct) : Extends (kmsDecrypt c) := by unfold kmsDecrypt; ext_auto

theorem aeadEncrypt_ext (pt : Pt) (k : Nat) : Extends (aeadEncrypt pt k) := by
  unfold aeadEncrypt
  ext_auto
  intro w
  exact Ext.of_eq rfl rfl rfl rfl rfl rfl rfl (Nat.le_refl _) (Nat.le_refl _) (Nat.le_succ _)

theorem aeadDecrypt_ext (c : Ct) (k : Nat) : Extends (aeadDecrypt c k) := by unfold aeadDecrypt; ext_auto

theorem releaseAll_ext (l : List Nat) : Extends (releaseAll l) := by
  induction l with
  | nil => exact Extends.pure _
  | cons v rest ih => unfold releaseAll; ext_auto [keyRelease_ext]

theorem cacheGet_ext (c : Nat) (m : KeyMeta) : Extends (cacheGet c m) := by unfold cacheGet; ext_auto
theorem cacheSet_ext (c : Nat) (m : KeyMeta) (e : CEntry) : Extends (cacheSet c m e) := by
  unfold cacheSet; ext_auto [releaseAll_ext]
theorem cacheRead_ext (c : Nat) (m : KeyMeta) : Extends (cacheRead c m) := by
  unfold cacheRead; ext_auto [cacheGet_ext]
theorem getFresh_ext (c : Nat) (m : KeyMeta) (i : Int) : Extends (getFresh c m i) := by
  unfold getFresh; ext_auto [cacheRead_ext]
theorem cacheWrite_ext (c : Nat) (m : KeyMeta) (e : CEntry) : Extends (cacheWrite c m e) := by
  unfold cacheWrite; ext_auto [cacheGet_ext, cacheSet_ext, keyRelease_ext]

theorem revokedSet_ext (o : Nat) (r : Bool) :
    Extends (modify fun w => { w with keys := setAt w.keys o fun x => { x with revoked := r } }) :=
  keys_setAt_ext o _ fun k => ⟨rfl, rfl, rfl, id⟩

theorem cacheLoad_ext (c : Nat) (m : KeyMeta) (loader : KeyMeta → M Nat) (hl : ∀ m, Extends (loader m)) :
    Extends (cacheLoad c m loader) := by
  unfold cacheLoad
  ext_auto [cacheRead_ext, cacheWrite_ext, keyCloseRaw_ext, keyWrap_ext, revokedSet_ext, hl]

theorem getOrLoad_ext (c : Nat) (m : KeyMeta) (i : Int) (loader : KeyMeta → M Nat) (hl : ∀ m, Extends (loader m)) :
    Extends (getOrLoad c m i loader) := by
  unfold getOrLoad
  ext_auto [getFresh_ext, cacheLoad_ext, keyIncr_ext, keyWrap_ext, hl]

theorem getOrLoadLatest_ext (c : Nat) (k : KeyId) (i e : Int) (loader : KeyMeta → M Nat)
    (hl : ∀ m, Extends (loader m)) : Extends (getOrLoadLatest c k i e loader) := by
  unfold getOrLoadLatest
  ext_auto [getFresh_ext, cacheLoad_ext, cacheWrite_ext, keyIncr_ext, keyWrap_ext, hl]

theorem cacheClose_ext (c : Nat) : Extends (cacheClose c) := by
  unfold cacheClose; ext_auto [releaseAll_ext]

theorem generateKey_ext (x : Ctx) : Extends (generateKey x) := by
  unfold generateKey; ext_auto [secretRandom_ext]
theorem systemKeyFromEKR_ext (r : Row) : Extends (systemKeyFromEKR r) := by
  unfold systemKeyFromEKR; ext_auto [kmsDecrypt_ext, secretNew_ext]
theorem loadSystemKey_ext (m : KeyMeta) : Extends (loadSystemKey m) := by
  unfold loadSystemKey; ext_auto [msLoad_ext, systemKeyFromEKR_ext]
theorem getOrLoadSystemKey_ext (x : Ctx) (m : KeyMeta) : Extends (getOrLoadSystemKey x m) := by
  unfold getOrLoadSystemKey; exact getOrLoad_ext _ _ _ _ loadSystemKey_ext
theorem tryStoreSystemKey_ext (sk : Nat) : Extends (tryStoreSystemKey sk) := by
  unfold tryStoreSystemKey
  ext_auto [msStore_ext]
  exact withKey_ext _ _ fun m => kmsEncrypt_ext m
theorem mustLoadLatest_ext (k : KeyId) : Extends (mustLoadLatest k) := by
  unfold mustLoadLatest; ext_auto [msLoadLatest_ext]
theorem createSK_ext (x : Ctx) : Extends (loadLatestOrCreateSystemKey.createSK x) := by
  unfold loadLatestOrCreateSystemKey.createSK
  ext_auto [generateKey_ext, tryStoreSystemKey_ext, keyCloseRaw_ext, mustLoadLatest_ext, systemKeyFromEKR_ext]
theorem loadLatestOrCreateSystemKey_ext (x : Ctx) : Extends (loadLatestOrCreateSystemKey x) := by
  unfold loadLatestOrCreateSystemKey
  ext_auto [msLoadLatest_ext, systemKeyFromEKR_ext, createSK_ext]

theorem withKey_aeadDecrypt_ext (o : Nat) (c : Ct) : Extends (withKey o fun skm => aeadDecrypt c skm) :=
  withKey_ext _ _ fun m => aeadDecrypt_ext _ _

theorem intermediateKeyFromEKR_ext (x : Ctx) (sk : Nat) (r : Row) (b : Bool) :
    Extends (intermediateKeyFromEKR x sk r b) := by
  unfold intermediateKeyFromEKR
  ext_auto [getOrLoadSystemKey_ext, keyRelease_ext, withKey_aeadDecrypt_ext, secretNew_ext]

theorem tryStoreIntermediateKey_ext (x : Ctx) (ik sk : Nat) : Extends (tryStoreIntermediateKey x ik sk) := by
  unfold tryStoreIntermediateKey
  ext_auto [msStore_ext]
  exact withKey_ext _ _ fun ikm => withKey_ext _ _ fun skm => aeadEncrypt_ext _ _

theorem createIntermediateKey_ext (x : Ctx) (b : Bool) : Extends (createIntermediateKey x b) := by
  unfold createIntermediateKey
  ext_auto [generateKey_ext, tryStoreIntermediateKey_ext, keyCloseRaw_ext, mustLoadLatest_ext,
    intermediateKeyFromEKR_ext, keyRelease_ext]
  exact getOrLoadLatest_ext _ _ _ _ _ fun _ => loadLatestOrCreateSystemKey_ext x

theorem getValidIntermediateKey_ext (x : Ctx) (sk : Nat) (r : Row) (b : Bool) :
    Extends (getValidIntermediateKey x sk r b) := by
  unfold getValidIntermediateKey; ext_auto [intermediateKeyFromEKR_ext]

theorem loadLatestOrCreateIntermediateKey_ext (x : Ctx) (b : Bool) :
    Extends (loadLatestOrCreateIntermediateKey x b) := by
  unfold loadLatestOrCreateIntermediateKey
  ext_auto [msLoadLatest_ext, createIntermediateKey_ext, getOrLoadSystemKey_ext, getValidIntermediateKey_ext, keyRelease_ext]

theorem loadIntermediateKey_ext (x : Ctx) (m : KeyMeta) (b : Bool) : Extends (loadIntermediateKey x m b) := by
  unfold loadIntermediateKey
  ext_auto [msLoad_ext, getOrLoadSystemKey_ext, intermediateKeyFromEKR_ext, keyRelease_ext]

theorem encryptPayload_ext (x : Ctx) (p : Nat) (b : Bool) : Extends (encryptPayload x p b) := by
  unfold encryptPayload
  apply Extends.bind
  · exact getOrLoadLatest_ext _ _ _ _ _ fun _ => loadLatestOrCreateIntermediateKey_ext x b
  · intro ik
    apply Extends.finallyDo _ (keyRelease_ext ik)
    ext_auto [secretRandom_ext, keyCloseRaw_ext]
    · exact withKey_ext _ _ fun dm => aeadEncrypt_ext _ _
    · exact withKey_ext _ _ fun im => withKey_ext _ _ fun dm => aeadEncrypt_ext _ _

theorem decryptRow_ext (ik : Nat) (dk : DrrKey) (data : Ct) : Extends (decryptRow ik dk data) := by
  unfold decryptRow
  apply withKey_ext
  intro im
  ext_auto [aeadDecrypt_ext]

theorem getOrLoadIK_ext (x : Ctx) (p : KeyMeta) (b : Bool) :
    Extends (getOrLoad x.ikCache p x.pol.revokeInterval (fun m => loadIntermediateKey x m b)) :=
  getOrLoad_ext _ _ _ _ fun m => loadIntermediateKey_ext x m b

theorem decryptDataRowRecord_ext (x : Ctx) (d : Drr) (b : Bool) : Extends (decryptDataRowRecord x d b) := by
  unfold decryptDataRowRecord
  ext_auto [decryptRow_ext, keyRelease_ext, getOrLoadIK_ext]

theorem beginOp_ext (fl : List Fault) : Extends (beginOp fl) := fun w =>
  Ext.of_eq rfl rfl rfl rfl rfl rfl rfl (Nat.le_refl _) (Nat.le_refl _) (Nat.le_refl _)

theorem encrypt_ext (s p : Nat) (fl : List Fault) (b : Bool) : Extends (encrypt s p fl b) := by
  unfold encrypt; ext_auto [beginOp_ext, encryptPayload_ext]
theorem decrypt_ext (s : Nat) (d : Drr) (fl : List Fault) (b : Bool) : Extends (decrypt s d fl b) := by
  unfold decrypt; ext_auto [beginOp_ext, decryptDataRowRecord_ext]

end AsherahVerif.Env
