import AsherahVerif.Proofs.EnvResEnv
import AsherahVerif.Proofs.EnvResBuf
/-
C03 — fresh names: every AEAD encryption gets a nonce that no ciphertext stored or returned so far
carries, and every record's payload is encrypted under a material generated during that call.
-/
set_option linter.unusedVariables false
namespace AsherahVerif.Env.Res

def ctNonce : Ct → Option Nat
  | .enc _ n _ => some n
  | _ => none

def ctKey : Ct → Option Nat
  | .enc k _ _ => some k
  | _ => none

/-- nonces of the `enc` terms in the metastore. -/
def storeNonces (w : World) : List Nat := w.store.filterMap fun r => ctNonce r.enc

/-- nonce discipline inside one operation: `S0` are the nonces in the metastore when the operation
started, `n0` the nonce counter then; `C` are the ciphertexts the running code has produced and not
yet stored or returned. Everything new is fresh, distinct, and below the counter. -/
def NR (S0 : List Nat) (n0 : Nat) (C : List Ct) (w : World) : Prop :=
  n0 ≤ w.nonces ∧ ∃ extra, storeNonces w = S0 ++ extra ∧ (extra ++ C.filterMap ctNonce).Nodup ∧
    ∀ n, n ∈ extra ++ C.filterMap ctNonce → n0 ≤ n ∧ n < w.nonces

theorem NR.frame {S0 : List Nat} {n0 : Nat} {C : List Ct} {w w' : World} (h : NR S0 n0 C w)
    (hs : w'.store = w.store) (hn : w.nonces ≤ w'.nonces) : NR S0 n0 C w' := by
  obtain ⟨h0, extra, h1, h2, h3⟩ := h
  refine ⟨Nat.le_trans h0 hn, extra, by unfold storeNonces at *; rw [hs]; exact h1, h2, fun n hn' => ?_⟩
  have := h3 n hn'; omega

macro_rules | `(tactic| pres_leaf) => `(tactic| first
  | exact Preserves.modify (fun _ h => NR.frame h rfl (Nat.le_refl _))
  | exact takeFault_preserves (fun _ _ h => NR.frame h rfl (Nat.le_refl _))
  | exact Preserves.lam _ _ (fun _ h => NR.frame h rfl (Nat.le_refl _)))

section
variable (S0 : List Nat) (n0 : Nat) (C : List Ct)

theorem logCall_nr (c : Call) : Preserves (NR S0 n0 C) (logCall c) := Preserves.modify (fun _ h => NR.frame h rfl (Nat.le_refl _))
theorem msLoad_nr (m : KeyMeta) : Preserves (NR S0 n0 C) (msLoad m) := by unfold msLoad; pres_auto [logCall_nr]
theorem msLoadLatest_nr (k : KeyId) : Preserves (NR S0 n0 C) (msLoadLatest k) := by unfold msLoadLatest; pres_auto [logCall_nr]
theorem mustLoadLatest_nr (k : KeyId) : Preserves (NR S0 n0 C) (mustLoadLatest k) := by unfold mustLoadLatest; pres_auto [msLoadLatest_nr]
theorem secretNew_nr (b m : Nat) : Preserves (NR S0 n0 C) (secretNew b m) := by unfold secretNew wipeBuf; pres_auto [logCall_nr]
theorem secretRandom_nr : Preserves (NR S0 n0 C) secretRandom := by unfold secretRandom; pres_auto [logCall_nr]
theorem kmsDecrypt_nr (c : Ct) : Preserves (NR S0 n0 C) (kmsDecrypt c) := by unfold kmsDecrypt newBuf; pres_auto [logCall_nr]
theorem aeadDecrypt_nr (c : Ct) (k : Nat) : Preserves (NR S0 n0 C) (aeadDecrypt c k) := by unfold aeadDecrypt; pres_auto [logCall_nr]

/-- `kmsEncrypt` yields a term without nonce. -/
theorem kmsEncrypt_nr (m : Nat) : Spec (NR S0 n0 C) (kmsEncrypt m) (fun c => NR S0 n0 (c :: C)) (NR S0 n0 C) := by
  unfold kmsEncrypt
  refine Spec.bind (takeFault_preserves (fun _ _ h => NR.frame h rfl (Nat.le_refl _))).toSpec (fun _ h => h) fun f => ?_
  split
  · exact Spec.bind (logCall_nr S0 n0 C _).toSpec (fun _ h => h) fun _ => Spec.throw _ fun _ h => h
  · refine Spec.bind (logCall_nr S0 n0 C _).toSpec (fun _ h => h) fun _ => Spec.pure _ fun w h => ?_
    have e : (Ct.kms m :: C).filterMap ctNonce = C.filterMap ctNonce := by simp [List.filterMap_cons, ctNonce]
    unfold NR; rw [e]; exact h

/-- `aeadEncrypt` yields a term with a fresh nonce. -/
theorem aeadEncrypt_nr (pt : Pt) (k : Nat) :
    Spec (NR S0 n0 C) (aeadEncrypt pt k) (fun c => NR S0 n0 (c :: C)) (NR S0 n0 C) := by
  unfold aeadEncrypt
  refine Spec.bind (takeFault_preserves (fun _ _ h => NR.frame h rfl (Nat.le_refl _))).toSpec (fun _ h => h) fun f => ?_
  split
  · exact Spec.bind (logCall_nr S0 n0 C _).toSpec (fun _ h => h) fun _ => Spec.throw _ fun _ h => h
  · refine Spec.bind (logCall_nr S0 n0 C _).toSpec (fun _ h => h) fun _ => ?_
    intro w h
    obtain ⟨h0, extra, h1, h2, h3⟩ := h
    show NR S0 n0 (Ct.enc k w.nonces pt :: C) { w with nonces := w.nonces + 1 }
    refine ⟨by show n0 ≤ w.nonces + 1; omega, extra, h1, ?_, ?_⟩
    · simp only [List.filterMap_cons, ctNonce]
      rw [List.nodup_append] at h2 ⊢
      refine ⟨h2.1, ?_, ?_⟩
      · rw [List.nodup_cons]
        refine ⟨fun hm => ?_, h2.2.1⟩
        have := (h3 _ (List.mem_append_right _ hm)).2; omega
      · intro a ha b hb
        rcases List.mem_cons.1 hb with rfl | hb
        · have := (h3 _ (List.mem_append_left _ ha)).2; omega
        · exact h2.2.2 a ha b hb
    · intro n hn
      simp only [List.filterMap_cons, ctNonce, List.mem_append, List.mem_cons] at hn
      show n0 ≤ n ∧ n < w.nonces + 1
      rcases hn with hn | rfl | hn
      · have := h3 n (List.mem_append_left _ hn); omega
      · omega
      · have := h3 n (List.mem_append_right _ hn); omega


theorem msStore_cases (r : Row) (w : World) :
    ∃ b w', msStore r w = (.ok b, w') ∧ w'.nonces = w.nonces ∧ (w'.store = w.store ∨ w'.store = w.store ++ [r]) := by
  simp only [msStore, bind_run, get_run]
  obtain ⟨f, hf⟩ := takeFault_ok w
  cases htf : takeFault w with
  | mk r0 w0 =>
    rw [htf] at hf; subst hf
    have hst : w0.store = w.store := by have := takeFault_store w; rw [htf] at this; exact this
    have hn : w0.nonces = w.nonces := by unfold takeFault at htf; split at htf <;> (cases htf; rfl)
    simp only
    cases f <;> simp only
    · split
      · exact ⟨_, _, rfl, hn, Or.inl hst⟩
      · exact ⟨_, _, rfl, hn, Or.inr (by show w0.store ++ [r] = _; rw [hst])⟩
    · exact ⟨_, _, rfl, hn, Or.inl hst⟩
    · exact ⟨_, _, rfl, hn, Or.inl hst⟩
    · split
      · exact ⟨_, _, rfl, hn, Or.inr (by show w0.store ++ [r] = _; rw [hst])⟩
      · exact ⟨_, _, rfl, hn, Or.inl hst⟩

theorem NR.drop {S0 : List Nat} {n0 : Nat} {C : List Ct} {c : Ct} {w : World} (h : NR S0 n0 (c :: C) w) : NR S0 n0 C w := by
  obtain ⟨h0, extra, h1, h2, h3⟩ := h
  refine ⟨h0, extra, h1, ?_, ?_⟩
  · refine List.Nodup.sublist ?_ h2
    apply List.Sublist.append_left
    simp only [List.filterMap_cons]
    split
    · exact List.Sublist.refl _
    · exact List.sublist_cons_self _ _
  · intro n hn
    apply h3 n
    rcases List.mem_append.1 hn with hn | hn
    · exact List.mem_append_left _ hn
    · apply List.mem_append_right
      simp only [List.filterMap_cons]
      split
      · exact hn
      · exact List.mem_cons_of_mem _ hn

theorem NR.stored {S0 : List Nat} {n0 : Nat} {C : List Ct} {r : Row} {w w' : World} (h : NR S0 n0 (r.enc :: C) w)
    (hs : w'.store = w.store ++ [r]) (hn : w'.nonces = w.nonces) : NR S0 n0 C w' := by
  obtain ⟨h0, extra, h1, h2, h3⟩ := h
  cases hc : ctNonce r.enc with
  | none =>
    have e : (r.enc :: C).filterMap ctNonce = C.filterMap ctNonce := by simp [List.filterMap_cons, hc]
    rw [e] at h2 h3
    refine ⟨by rw [hn]; exact h0, extra, ?_, h2, by rw [hn]; exact h3⟩
    unfold storeNonces at *
    rw [hs, List.filterMap_append, h1]
    simp [hc]
  | some n =>
    have e : (r.enc :: C).filterMap ctNonce = n :: C.filterMap ctNonce := by simp [List.filterMap_cons, hc]
    rw [e] at h2 h3
    refine ⟨by rw [hn]; exact h0, extra ++ [n], ?_, ?_, ?_⟩
    · unfold storeNonces at *
      rw [hs, List.filterMap_append, h1]
      simp [hc]
    · rw [List.append_assoc]; exact h2
    · rw [hn, List.append_assoc]; exact h3

/-- `msStore` consumes the ciphertext of the row (whether or not the row gets written). -/
theorem msStore_nr {E : World → Prop} (r : Row) : Spec (NR S0 n0 (r.enc :: C)) (msStore r) (fun _ => NR S0 n0 C) E := by
  intro w h
  obtain ⟨b, w', hr, hn, hs⟩ := msStore_cases r w
  rw [hr]
  rcases hs with hs | hs
  · exact (h.drop).frame hs (by omega)
  · exact h.stored hs hn

theorem secretClose_nr (s : Nat) : Preserves (NR S0 n0 C) (secretClose s) := Preserves.modify (fun _ h => NR.frame h rfl (Nat.le_refl _))
theorem newKeyObj_nr (c : Int) (r : Bool) (m s : Nat) : Preserves (NR S0 n0 C) (newKeyObj c r m s) := fun _ h => NR.frame h rfl (Nat.le_refl _)
theorem newBuf_nr (m : Nat) : Preserves (NR S0 n0 C) (newBuf m) := fun _ h => NR.frame h rfl (Nat.le_refl _)
theorem wipeBuf_nr (b : Nat) : Preserves (NR S0 n0 C) (wipeBuf b) := Preserves.modify (fun _ h => NR.frame h rfl (Nat.le_refl _))
theorem keyCloseRaw_nr (o : Nat) : Preserves (NR S0 n0 C) (keyCloseRaw o) := by unfold keyCloseRaw; pres_auto [secretClose_nr]
theorem keyRelease_nr (o : Nat) : Preserves (NR S0 n0 C) (keyRelease o) := by unfold keyRelease; pres_auto [keyCloseRaw_nr]
theorem keyIncr_nr (o : Nat) : Preserves (NR S0 n0 C) (keyIncr o) := Preserves.modify (fun _ h => NR.frame h rfl (Nat.le_refl _))
theorem keyWrap_nr (o : Nat) : Preserves (NR S0 n0 C) (keyWrap o) := Preserves.modify (fun _ h => NR.frame h rfl (Nat.le_refl _))
theorem setCache_nr (c : Nat) (kc : KeyCache) : Preserves (NR S0 n0 C) (setCache c kc) := Preserves.modify (fun _ h => NR.frame h rfl (Nat.le_refl _))
theorem releaseAll_nr (l : List Nat) : Preserves (NR S0 n0 C) (releaseAll l) := by
  induction l with
  | nil => exact Preserves.pure _
  | cons v rest ih => unfold releaseAll; pres_auto [keyRelease_nr]
theorem cacheGet_nr (c : Nat) (m : KeyMeta) : Preserves (NR S0 n0 C) (cacheGet c m) := by unfold cacheGet; pres_auto [setCache_nr]
theorem cacheSet_nr (c : Nat) (m : KeyMeta) (e : CEntry) : Preserves (NR S0 n0 C) (cacheSet c m e) := by
  unfold cacheSet; pres_auto [setCache_nr, releaseAll_nr]
theorem cacheRead_nr (c : Nat) (m : KeyMeta) : Preserves (NR S0 n0 C) (cacheRead c m) := by unfold cacheRead; pres_auto [cacheGet_nr]
theorem getFresh_nr (c : Nat) (m : KeyMeta) (i : Int) : Preserves (NR S0 n0 C) (getFresh c m i) := by unfold getFresh; pres_auto [cacheRead_nr]
theorem cacheWrite_nr (c : Nat) (m : KeyMeta) (e : CEntry) : Preserves (NR S0 n0 C) (cacheWrite c m e) := by
  unfold cacheWrite; pres_auto [cacheGet_nr, cacheSet_nr, keyRelease_nr, setCache_nr]
theorem cacheLoad_nr (c : Nat) (m : KeyMeta) (loader : KeyMeta → M Nat) (hl : ∀ m, Preserves (NR S0 n0 C) (loader m)) :
    Preserves (NR S0 n0 C) (cacheLoad c m loader) := by
  unfold cacheLoad; pres_auto [cacheRead_nr, cacheWrite_nr, keyCloseRaw_nr, keyWrap_nr, hl]
theorem getOrLoad_nr (c : Nat) (m : KeyMeta) (i : Int) (loader : KeyMeta → M Nat) (hl : ∀ m, Preserves (NR S0 n0 C) (loader m)) :
    Preserves (NR S0 n0 C) (getOrLoad c m i loader) := by
  unfold getOrLoad; pres_auto [getFresh_nr, cacheLoad_nr, keyIncr_nr, keyWrap_nr, hl]
theorem getOrLoadLatest_nr (c : Nat) (k : KeyId) (i e : Int) (loader : KeyMeta → M Nat)
    (hl : ∀ m, Preserves (NR S0 n0 C) (loader m)) : Preserves (NR S0 n0 C) (getOrLoadLatest c k i e loader) := by
  unfold getOrLoadLatest; pres_auto [getFresh_nr, cacheLoad_nr, cacheWrite_nr, keyIncr_nr, keyWrap_nr, hl]
theorem cacheClose_nr (c : Nat) : Preserves (NR S0 n0 C) (cacheClose c) := by
  unfold cacheClose; pres_auto [releaseAll_nr, setCache_nr]

theorem withKey_run {α : Type} (o : Nat) (f : Nat → M α) (w : World) :
    withKey o f w = if (w.secrets.getD (w.keys.getD o default).sec default).closes > 0 then
        (.error .secretClosed, { w with secrets := setAt w.secrets (w.keys.getD o default).sec fun x => { x with aac := x.aac + 1 } })
      else f (w.keys.getD o default).mat w := by
  simp only [withKey, bind_run, keyObj, get_run]
  split <;> rfl

/-- `withKey`: either the callback runs, or only the after-close counter moves. -/
theorem withKey_nr {α : Type} {Q : α → World → Prop} {E : World → Prop} (o : Nat) (f : Nat → M α)
    (he : ∀ w, NR S0 n0 C w → E w) (hf : ∀ m, Spec (NR S0 n0 C) (f m) Q E) : Spec (NR S0 n0 C) (withKey o f) Q E := by
  intro w hw
  rw [withKey_run]
  by_cases hc : (w.secrets.getD (w.keys.getD o default).sec default).closes > 0
  · simp only [hc, if_true]
    exact he _ (hw.frame rfl (Nat.le_refl _))
  · simp only [hc, if_false]
    exact hf _ w hw

theorem withKey_nr_pres {α : Type} (o : Nat) (f : Nat → M α) (hf : ∀ m, Preserves (NR S0 n0 C) (f m)) :
    Preserves (NR S0 n0 C) (withKey o f) :=
  (withKey_nr S0 n0 C o f (fun _ h => h) fun m => (hf m).toSpec).toPreserves

theorem generateKey_nr (x : Ctx) : Preserves (NR S0 n0 C) (generateKey x) := by
  unfold generateKey; pres_auto [secretRandom_nr, newKeyObj_nr]
theorem systemKeyFromEKR_nr (r : Row) : Preserves (NR S0 n0 C) (systemKeyFromEKR r) := by
  unfold systemKeyFromEKR; pres_auto [kmsDecrypt_nr, secretNew_nr, newKeyObj_nr]
theorem loadSystemKey_nr (m : KeyMeta) : Preserves (NR S0 n0 C) (loadSystemKey m) := by
  unfold loadSystemKey; pres_auto [msLoad_nr, systemKeyFromEKR_nr]
theorem getOrLoadSystemKey_nr (x : Ctx) (m : KeyMeta) : Preserves (NR S0 n0 C) (getOrLoadSystemKey x m) := by
  unfold getOrLoadSystemKey; exact getOrLoad_nr S0 n0 C _ _ _ _ (loadSystemKey_nr S0 n0 C)

theorem tryStoreSystemKey_nr (sk : Nat) : Preserves (NR S0 n0 C) (tryStoreSystemKey sk) := by
  unfold tryStoreSystemKey
  apply Spec.toPreserves
  refine Spec.bind (keyObj_preserves _).toSpec (fun _ h => h) fun ko => ?_
  refine Spec.bind (withKey_nr S0 n0 C sk _ (fun _ h => h) fun m => kmsEncrypt_nr S0 n0 C m) (fun _ h => h) fun enc => ?_
  exact msStore_nr S0 n0 C { kid := .sk, created := ko.created, revoked := false, enc := enc, parent := none }

theorem tryStoreIntermediateKey_nr (x : Ctx) (ik sk : Nat) : Preserves (NR S0 n0 C) (tryStoreIntermediateKey x ik sk) := by
  unfold tryStoreIntermediateKey
  apply Spec.toPreserves
  refine Spec.bind (keyObj_preserves _).toSpec (fun _ h => h) fun io => ?_
  refine Spec.bind (keyObj_preserves _).toSpec (fun _ h => h) fun so => ?_
  refine Spec.bind (withKey_nr S0 n0 C ik _ (fun _ h => h) fun ikm =>
    withKey_nr S0 n0 C sk _ (fun _ h => h) fun skm => aeadEncrypt_nr S0 n0 C _ _) (fun _ h => h) fun enc => ?_
  exact msStore_nr S0 n0 C { kid := x.ikId, created := io.created, revoked := false, enc := enc, parent := some ⟨.sk, so.created⟩ }

theorem createSK_nr (x : Ctx) : Preserves (NR S0 n0 C) (loadLatestOrCreateSystemKey.createSK x) := by
  unfold loadLatestOrCreateSystemKey.createSK
  pres_auto [generateKey_nr, tryStoreSystemKey_nr, keyCloseRaw_nr, mustLoadLatest_nr, systemKeyFromEKR_nr]
theorem loadLatestOrCreateSystemKey_nr (x : Ctx) : Preserves (NR S0 n0 C) (loadLatestOrCreateSystemKey x) := by
  unfold loadLatestOrCreateSystemKey
  pres_auto [msLoadLatest_nr, systemKeyFromEKR_nr, createSK_nr]
theorem withKey_aeadDecrypt_nr (o : Nat) (c : Ct) : Preserves (NR S0 n0 C) (withKey o fun skm => aeadDecrypt c skm) :=
  withKey_nr_pres S0 n0 C _ _ fun m => aeadDecrypt_nr S0 n0 C _ _
theorem intermediateKeyFromEKR_nr (x : Ctx) (sk : Nat) (r : Row) (b : Bool) :
    Preserves (NR S0 n0 C) (intermediateKeyFromEKR x sk r b) := by
  unfold intermediateKeyFromEKR
  pres_auto [getOrLoadSystemKey_nr, keyRelease_nr, withKey_aeadDecrypt_nr, newBuf_nr, secretNew_nr, newKeyObj_nr]
theorem createIntermediateKey_nr (x : Ctx) (b : Bool) : Preserves (NR S0 n0 C) (createIntermediateKey x b) := by
  unfold createIntermediateKey
  pres_auto [generateKey_nr, tryStoreIntermediateKey_nr, keyCloseRaw_nr, mustLoadLatest_nr,
    intermediateKeyFromEKR_nr, keyRelease_nr]
  exact getOrLoadLatest_nr S0 n0 C _ _ _ _ _ fun _ => loadLatestOrCreateSystemKey_nr S0 n0 C x
theorem getValidIntermediateKey_nr (x : Ctx) (sk : Nat) (r : Row) (b : Bool) :
    Preserves (NR S0 n0 C) (getValidIntermediateKey x sk r b) := by
  unfold getValidIntermediateKey; pres_auto [intermediateKeyFromEKR_nr]
theorem loadLatestOrCreateIntermediateKey_nr (x : Ctx) (b : Bool) :
    Preserves (NR S0 n0 C) (loadLatestOrCreateIntermediateKey x b) := by
  unfold loadLatestOrCreateIntermediateKey
  pres_auto [msLoadLatest_nr, createIntermediateKey_nr, getOrLoadSystemKey_nr, getValidIntermediateKey_nr, keyRelease_nr]
theorem loadIntermediateKey_nr (x : Ctx) (m : KeyMeta) (b : Bool) : Preserves (NR S0 n0 C) (loadIntermediateKey x m b) := by
  unfold loadIntermediateKey
  pres_auto [msLoad_nr, getOrLoadSystemKey_nr, intermediateKeyFromEKR_nr, keyRelease_nr]
theorem decryptRow_nr (ik : Nat) (dk : DrrKey) (data : Ct) : Preserves (NR S0 n0 C) (decryptRow ik dk data) := by
  unfold decryptRow
  apply withKey_nr_pres
  intro im
  pres_auto [aeadDecrypt_nr, newBuf_nr, wipeBuf_nr]
theorem getOrLoadIK_nr (x : Ctx) (p : KeyMeta) (b : Bool) :
    Preserves (NR S0 n0 C) (getOrLoad x.ikCache p x.pol.revokeInterval (fun m => loadIntermediateKey x m b)) :=
  getOrLoad_nr S0 n0 C _ _ _ _ fun m => loadIntermediateKey_nr S0 n0 C x m b
theorem decryptDataRowRecord_nr (x : Ctx) (d : Drr) (b : Bool) : Preserves (NR S0 n0 C) (decryptDataRowRecord x d b) := by
  unfold decryptDataRowRecord
  pres_auto [decryptRow_nr, keyRelease_nr, getOrLoadIK_nr]

/-- the ciphertexts of a data row record. -/
def drrCts (d : Drr) : List Ct := (d.key.map (·.enc)).toList ++ [d.data]

/-- `EncryptPayload` returns two ciphertexts with fresh, distinct nonces that are in no stored row. -/
theorem encryptPayload_nr (x : Ctx) (p : Nat) (b : Bool) :
    Spec (NR S0 n0 []) (encryptPayload x p b) (fun d => NR S0 n0 (drrCts d)) (NR S0 n0 []) := by
  unfold encryptPayload
  refine Spec.bind (getOrLoadLatest_nr S0 n0 [] _ _ _ _ _ fun _ => loadLatestOrCreateIntermediateKey_nr S0 n0 [] x b).toSpec (fun _ h => h) fun ik => ?_
  refine Spec.finallyDo (R := fun d => NR S0 n0 (drrCts d)) (E₁ := NR S0 n0 []) ?_
    (fun d => (keyRelease_nr S0 n0 _ ik).toSpec) (keyRelease_nr S0 n0 _ ik).toSpec
  refine Spec.bind (Preserves.get).toSpec (fun _ h => h) fun w0 => ?_
  refine Spec.bind (secretRandom_nr S0 n0 []).toSpec (fun _ h => h) ?_
  rintro ⟨s, m⟩
  refine Spec.bind (newKeyObj_nr S0 n0 [] _ _ _ _).toSpec (fun _ h => h) fun drk => ?_
  refine Spec.finallyDo (R := fun d => NR S0 n0 (drrCts d)) (E₁ := NR S0 n0 []) ?_
    (fun d => (keyCloseRaw_nr S0 n0 _ drk).toSpec) (keyCloseRaw_nr S0 n0 _ drk).toSpec
  refine Spec.bind (withKey_nr S0 n0 [] drk _ (fun _ h => h) fun dm => aeadEncrypt_nr S0 n0 [] _ _) (fun _ h => h) fun encData => ?_
  refine Spec.bind (withKey_nr S0 n0 [encData] ik _ (fun _ h => h.drop) fun im =>
    withKey_nr S0 n0 [encData] drk _ (fun _ h => h.drop) fun dm => (aeadEncrypt_nr S0 n0 [encData] _ _).weaken (fun _ h => h) (fun _ _ h => h) (fun _ h => h.drop))
    (fun _ h => h) fun encKey => ?_
  refine Spec.bind (keyObj_preserves _).toSpec (fun _ h => h.drop.drop) fun io => ?_
  refine Spec.bind (keyObj_preserves _).toSpec (fun _ h => h.drop.drop) fun dko => ?_
  exact Spec.pure _ fun _ h => h

end

/-! ### the data key of a record -/

/-- key object `o` exists and holds material `m`. -/
def KeyMatIs (m o : Nat) (w : World) : Prop := ∃ k, w.keys[o]? = some k ∧ k.mat = m

theorem KeyMatIs.ext {m o : Nat} {w w' : World} (h : KeyMatIs m o w) (he : Ext w w') : KeyMatIs m o w' := by
  obtain ⟨k, hk, hm⟩ := h
  obtain ⟨k', hk', _, hm', _⟩ := he.keys o k hk
  exact ⟨k', hk', hm'.trans hm⟩

theorem mats_of_ext {α : Type} {x : M α} (hx : Extends x) (m0 : Nat) : Preserves (fun w => m0 ≤ w.mats) x :=
  fun w hw => Nat.le_trans hw (hx w).mats

theorem secretRandom_mat' {w w1 : World} {s m : Nat} (hr : secretRandom w = (.ok (s, m), w1)) :
    w.mats ≤ m ∧ m < w1.mats := by
  simp only [secretRandom, bind_run] at hr
  obtain ⟨f, hf⟩ := takeFault_ok w
  cases htf : takeFault w with
  | mk r0 w0 =>
    rw [htf] at hf hr; subst hf
    have hm0 : w0.mats = w.mats := by
      unfold takeFault at htf; split at htf <;> (cases htf; rfl)
    simp only at hr
    split at hr
    · simp [logCall_run, bind_run, throw_run] at hr
    · have : (logCall (Call.randSecret false) >>= fun __r w =>
          ((Except.ok (w.secrets.length, w.mats),
            { w with mats := w.mats + 1, secrets := w.secrets ++ [{ mat := w.mats }] }) : Except Err (Nat × Nat) × World)) w0
          = (Except.ok (w0.secrets.length, w0.mats), { w0 with log := w0.log ++ [Call.randSecret false], mats := w0.mats + 1, secrets := w0.secrets ++ [{ mat := w0.mats }] }) := rfl
      rw [this] at hr
      cases hr
      constructor
      · omega
      · show w0.mats < w0.mats + 1; omega

theorem withKey_spec_mat {α : Type} {P : World → Prop} {Q : α → World → Prop} {E : World → Prop} (o : Nat) (f : Nat → M α)
    (he : ∀ w s g, P w → E { w with secrets := setAt w.secrets s g })
    (hf : ∀ w, P w → Spec (fun w' => w' = w) (f (w.keys.getD o default).mat) Q E) : Spec P (withKey o f) Q E := by
  intro w hw
  rw [withKey_run]
  by_cases hc : (w.secrets.getD (w.keys.getD o default).sec default).closes > 0
  · simp only [hc, if_true]; exact he _ _ _ hw
  · simp only [hc, if_false]; exact hf w hw w rfl

theorem aeadEncrypt_result (pt : Pt) (k : Nat) (P : World → Prop) :
    Spec P (aeadEncrypt pt k) (fun c _ => ∃ n, c = .enc k n pt) (fun _ => True) := by
  intro w _
  simp only [aeadEncrypt, bind_run]
  obtain ⟨f, hf⟩ := takeFault_ok w
  cases htf : takeFault w with
  | mk r0 w1 =>
    rw [htf] at hf; subst hf
    simp only
    by_cases hfok : f ≠ Fault.ok
    · simp [hfok, logCall_run, bind_run, throw_run]
    · simp only [hfok, if_false, logCall_run, bind_run]
      exact ⟨_, rfl⟩

/-- `EncryptPayload` encrypts the payload under a material that `CreateRandom` handed out during
this very call: the record's data ciphertext is `enc k _ (payload p)` with `m0 ≤ k < mats`. -/
theorem encryptPayload_datakey (m0 : Nat) (x : Ctx) (p : Nat) (b : Bool) :
    Spec (fun w => m0 ≤ w.mats) (encryptPayload x p b)
      (fun d w => ∃ k n, d.data = .enc k n (.payload p) ∧ m0 ≤ k ∧ k < w.mats) (fun _ => True) := by
  unfold encryptPayload
  refine Spec.bind (mats_of_ext (getOrLoadLatest_ext _ _ _ _ _ fun _ => loadLatestOrCreateIntermediateKey_ext x b) m0).toSpec
    (fun _ _ => True.intro) fun ik => ?_
  have stable : ∀ {β : Type} (y : M β) (hy : Extends y) (d : Drr),
      Spec (fun w => ∃ k n, d.data = .enc k n (.payload p) ∧ m0 ≤ k ∧ k < w.mats) y
        (fun _ w => ∃ k n, d.data = .enc k n (.payload p) ∧ m0 ≤ k ∧ k < w.mats)
        (fun w => ∃ k n, d.data = .enc k n (.payload p) ∧ m0 ≤ k ∧ k < w.mats) := by
    intro β y hy d
    apply Preserves.toSpec
    rintro w ⟨k, n, h1, h2, h3⟩
    exact ⟨k, n, h1, h2, Nat.lt_of_lt_of_le h3 (hy w).mats⟩
  refine Spec.finallyDo (E₁ := fun _ => True) ?_ (fun d => stable _ (keyRelease_ext ik) d) (Spec.trivial _)
  refine Spec.bind (Preserves.get).toSpec (fun _ _ => True.intro) fun w0 => ?_
  -- the DRK: its material is the counter value at that moment
  refine Spec.bind (R := fun (q : Nat × Nat) w => m0 ≤ q.2 ∧ q.2 < w.mats) (E₁ := fun _ => True) ?_ (fun _ h => h) ?_
  · intro w hw
    cases hr : secretRandom w with
    | mk r w1 =>
      cases r with
      | error e => trivial
      | ok q => obtain ⟨s, m⟩ := q; have := secretRandom_mat' hr; exact ⟨by simp only; omega, this.2⟩
  rintro ⟨s, m⟩
  refine Spec.bind (R := fun drk w => (m0 ≤ m ∧ m < w.mats) ∧ KeyMatIs m drk w) (E₁ := fun _ => True) ?_ (fun _ h => h) fun drk => ?_
  · intro w hw
    exact ⟨hw, ⟨{ created := w0.now / nsPerSec, revoked := false, mat := m, sec := s }, by show (w.keys ++ [_])[w.keys.length]? = _; simp, rfl⟩⟩
  refine Spec.finallyDo (E₁ := fun _ => True) ?_ (fun d => stable _ (keyCloseRaw_ext drk) d) (Spec.trivial _)
  -- the payload ciphertext
  refine Spec.bind (R := fun c w => (∃ n, c = .enc m n (.payload p)) ∧ m0 ≤ m ∧ m < w.mats) (E₁ := fun _ => True) ?_ (fun _ h => h) fun encData => ?_
  · refine withKey_spec_mat drk _ (fun _ _ _ _ => True.intro) ?_
    rintro w ⟨⟨h1, h2⟩, k, hk, hm⟩
    rw [getD_eq_of_getElem? hk, hm]
    have hres := aeadEncrypt_result (.payload p) m (fun w' => w' = w)
    have hmono := mats_of_ext (aeadEncrypt_ext (.payload p) m) (m + 1)
    refine ((hres.and hmono.toSpec).weaken (fun w' hw' => ⟨hw', by rw [hw']; exact h2⟩) ?_ (fun _ _ => True.intro))
    rintro c w' ⟨hc, hm'⟩
    exact ⟨hc, h1, hm'⟩
  refine Spec.bind (R := fun _ w => (∃ n, encData = .enc m n (.payload p)) ∧ m0 ≤ m ∧ m < w.mats) (E₁ := fun _ => True) ?_ (fun _ h => h) fun encKey => ?_
  · rintro w ⟨h1, h2, h3⟩
    have := (withKey_ext ik (fun im => withKey drk fun dm => aeadEncrypt (.key dm) im) (fun im => withKey_ext _ _ fun dm => aeadEncrypt_ext _ _) w).mats
    cases hr : withKey ik (fun im => withKey drk fun dm => aeadEncrypt (.key dm) im) w with
    | mk r w1 =>
      rw [hr] at this
      cases r with
      | error e => trivial
      | ok c => exact ⟨h1, h2, Nat.lt_of_lt_of_le h3 this⟩
  refine Spec.bind (R := fun _ w => (∃ n, encData = .enc m n (.payload p)) ∧ m0 ≤ m ∧ m < w.mats) (E₁ := fun _ => True)
    (fun w hw => hw) (fun _ h => h) fun io => ?_
  refine Spec.bind (R := fun _ w => (∃ n, encData = .enc m n (.payload p)) ∧ m0 ≤ m ∧ m < w.mats) (E₁ := fun _ => True)
    (fun w hw => hw) (fun _ h => h) fun dko => ?_
  refine Spec.pure _ ?_
  rintro w ⟨⟨n, hn⟩, h2, h3⟩
  exact ⟨m, n, hn, h2, h3⟩

end AsherahVerif.Env.Res
