import AsherahVerif.Proofs.EnvResInv
/-
C09 — the effect of the key-object primitives (`keyIncr`, `keyRelease`, `keyCloseRaw`, `keyWrap`,
`withKey`, secret / key allocation) on the resource invariant, as `Spec`s.
-/
set_option linter.unusedVariables false
namespace AsherahVerif.Env.Res

theorem setAt_setAt {α : Type} (l : List α) (i : Nat) (f g : α → α) :
    setAt (setAt l i f) i g = setAt l i (fun x => g (f x)) := by
  apply List.ext_getElem?
  intro j
  simp only [setAt_getElem?]
  by_cases e : j = i
  · subst e; cases l[j]? <;> simp
  · simp [e]

theorem keyCloseRaw_run (w : World) (o : Nat) (k : KeyObj) (hk : w.keys[o]? = some k) :
    keyCloseRaw o w = (.ok (), if k.closed then w else
      { w with keys := setAt w.keys o (fun x => { x with closed := true }),
               secrets := setAt w.secrets k.sec fun x => { x with closes := x.closes + 1 } }) := by
  have hg : w.keys.getD o default = k := getD_eq_of_getElem? hk
  simp only [keyCloseRaw, bind_run, keyObj, hg]
  by_cases hc : k.closed
  · simp [hc]
  · simp [hc, secretClose, modify_run, bind_run]

theorem keyRelease_run (w : World) (o : Nat) (k : KeyObj) (hk : w.keys[o]? = some k) :
    keyRelease o w = (.ok (),
      if k.refs - 1 > 0 ∨ k.closed then { w with keys := setAt w.keys o (fun x => { x with refs := x.refs - 1 }) }
      else { w with keys := setAt w.keys o (fun x => { x with refs := x.refs - 1, closed := true }),
                    secrets := setAt w.secrets k.sec fun x => { x with closes := x.closes + 1 } }) := by
  have hlt := getElem?_lt hk
  have hg : (setAt w.keys o (fun x => { x with refs := x.refs - 1 })).getD o default = { k with refs := k.refs - 1 } := by
    rw [setAt_getD_self _ _ _ _ hlt, getD_eq_of_getElem? hk]
  have hk1 : (setAt w.keys o (fun x => { x with refs := x.refs - 1 }))[o]? = some { k with refs := k.refs - 1 } := by
    rw [setAt_getElem?]; simp [hk]
  simp only [keyRelease, bind_run, modify_run, keyObj, hg]
  by_cases hr : k.refs - 1 > 0
  · have hr' : 1 < k.refs := by omega
    simp [hr']
  · have hr' : ¬ 1 < k.refs := by omega
    simp only [hr, if_false, false_or]
    rw [keyCloseRaw_run _ o _ hk1]
    by_cases hc : k.closed
    · simp [hc]
    · simp [hc, setAt_setAt]

/-! ### leaves: the invariant does not look at log, faults, store, buffers, counters -/

macro_rules | `(tactic| pres_leaf) => `(tactic| first
  | exact Preserves.modify (fun _ h => RIc.frame h rfl rfl rfl)
  | exact takeFault_preserves (fun _ _ h => RIc.frame h rfl rfl rfl)
  | exact Preserves.lam _ _ (fun _ h => RIc.frame h rfl rfl rfl))

section leaves
variable (T : CTab) (raw : Raw) (h : Nat → Int)

theorem logCall_ri (c : Call) : Preserves (RIc T raw h) (logCall c) := Preserves.modify (fun _ h => RIc.frame h rfl rfl rfl)
theorem takeFault_ri : Preserves (RIc T raw h) takeFault := takeFault_preserves (fun _ _ h => RIc.frame h rfl rfl rfl)
theorem newBuf_ri (m : Nat) : Preserves (RIc T raw h) (newBuf m) := fun _ h => RIc.frame h rfl rfl rfl
theorem wipeBuf_ri (b : Nat) : Preserves (RIc T raw h) (wipeBuf b) := Preserves.modify (fun _ h => RIc.frame h rfl rfl rfl)
theorem beginOp_ri (fl : List Fault) : Preserves (RIc T raw h) (beginOp fl) := Preserves.modify (fun _ h => RIc.frame h rfl rfl rfl)
theorem msLoad_ri (m : KeyMeta) : Preserves (RIc T raw h) (msLoad m) := by unfold msLoad; pres_auto [logCall_ri]
theorem msLoadLatest_ri (k : KeyId) : Preserves (RIc T raw h) (msLoadLatest k) := by unfold msLoadLatest; pres_auto [logCall_ri]
theorem mustLoadLatest_ri (k : KeyId) : Preserves (RIc T raw h) (mustLoadLatest k) := by unfold mustLoadLatest; pres_auto [msLoadLatest_ri]
theorem msStore_ri (r : Row) : Preserves (RIc T raw h) (msStore r) := by unfold msStore; pres_auto [logCall_ri]
theorem kmsEncrypt_ri (m : Nat) : Preserves (RIc T raw h) (kmsEncrypt m) := by unfold kmsEncrypt; pres_auto [logCall_ri]
theorem kmsDecrypt_ri (c : Ct) : Preserves (RIc T raw h) (kmsDecrypt c) := by unfold kmsDecrypt; pres_auto [logCall_ri, newBuf_ri]
theorem aeadEncrypt_ri (pt : Pt) (k : Nat) : Preserves (RIc T raw h) (aeadEncrypt pt k) := by unfold aeadEncrypt; pres_auto [logCall_ri]
theorem aeadDecrypt_ri (c : Ct) (k : Nat) : Preserves (RIc T raw h) (aeadDecrypt c k) := by unfold aeadDecrypt; pres_auto [logCall_ri]

end leaves

/-! ### held references as a function -/

def hadd (h : Nat → Int) (o : Nat) (d : Int) : Nat → Int := fun o' => h o' + (if o' = o then d else 0)

theorem hcount_cons (o : Nat) (H : List Nat) : hcount (o :: H) = hadd (hcount H) o 1 := by
  funext o'
  unfold hcount hadd
  rw [List.count_cons]
  by_cases e : o' = o
  · subst e; simp
  · have : (o == o') = false := by simp; exact fun h => e h.symm
    simp [e, this]

theorem hadd_hadd_cancel (h : Nat → Int) (o : Nat) : hadd (hadd h o 1) o (-1) = h := by
  funext o'; unfold hadd; by_cases e : o' = o <;> simp [e]; omega

theorem hcount_nonneg (H : List Nat) (o : Nat) : 0 ≤ hcount H o := by unfold hcount; omega

theorem cntOf_hadd (T : CTab) (h : Nat → Int) (w : World) (o o' : Nat) (d : Int) :
    cntOf T (hadd h o d) w o' = cntOf T h w o' + (if o' = o then d else 0) := by
  unfold cntOf hadd; omega

theorem RIc.valid_of_cnt {T : CTab} {raw : Raw} {h : Nat → Int} {w : World} (hi : RIc T raw h w) {o : Nat}
    (hc : cntOf T h w o ≠ 0) : ∃ k, w.keys[o]? = some k := by
  have : o < w.keys.length := by
    apply Classical.byContradiction; intro hge
    exact hc (hi.cnt_zero_of_ge (by omega))
  exact ⟨_, List.getElem?_eq_getElem this⟩

/-- a key object with a positive count is wrapped, open, and its secret has not been closed. -/
theorem RIc.open_of_cnt {T : CTab} {raw : Raw} {h : Nat → Int} {w : World} (hi : RIc T raw h w) {o : Nat}
    (hc : 1 ≤ cntOf T h w o) :
    ∃ k, w.keys[o]? = some k ∧ raw ≠ .obj o ∧ k.refs = cntOf T h w o ∧ k.closed = false ∧ k.sec = o ∧
      ∃ s, w.secrets[o]? = some s ∧ s.closes = 0 ∧ s.aac = 0 := by
  obtain ⟨k, hk⟩ := hi.valid_of_cnt (o := o) (by omega)
  have hacc := hi.acc o k hk
  have hraw : raw ≠ .obj o := by
    intro e; have := (hacc.1 e).2.2; omega
  have h2 := hacc.2 hraw
  have hcl : k.closed = false := by
    cases hkc : k.closed with
    | false => rfl
    | true => have := h2.2.1 hkc; omega
  have hlt : o < w.secrets.length := by
    have := hi.len; have := getElem?_lt hk; omega
  have hs := hi.led o _ (List.getElem?_eq_getElem hlt)
  rw [hk] at hs
  simp only [hcl] at hs
  exact ⟨k, hk, hraw, h2.1, hcl, hi.sec o k hk, _, List.getElem?_eq_getElem hlt, by simpa using hs.2, hs.1⟩

/-- `tracked(k)`: one more held reference on a live wrapped key. -/
theorem keyIncr_specc (T : CTab) (raw : Raw) (h : Nat → Int) (o : Nat) :
    Spec (fun w => RIc T raw h w ∧ 1 ≤ cntOf T h w o) (keyIncr o) (fun _ => RIc T raw (hadd h o 1)) (fun _ => False) := by
  rintro w ⟨hi, hc⟩
  obtain ⟨k, hk, hraw, hrefs, hcl, _, _⟩ := hi.open_of_cnt hc
  show RIc T raw (hadd h o 1) { w with keys := setAt w.keys o fun x => { x with refs := x.refs + 1 } }
  refine hi.updKey o (fun x => { x with refs := x.refs + 1 }) k hk (fun x => ⟨rfl, rfl, rfl, rfl⟩) ⟨rfl, fun _ _ e => e, hi.rawObj⟩ ?_ (fun _ => trivial) ?_ rfl rfl rfl
  · intro o' ho'; simp [hadd, ho']
  · refine ⟨fun e => absurd e hraw, fun _ => ?_⟩
    rw [cntOf_hadd]; simp only [if_true]
    refine ⟨by omega, ?_⟩
    rw [hcl]; constructor
    · intro e; cases e
    · intro e; omega

/-- `cachedCryptoKey.Close`: drop one reference; the last one closes the key and its secret, once. -/
theorem keyRelease_specc (T : CTab) (raw : Raw) (h : Nat → Int) (o : Nat) :
    Spec (fun w => RIc T raw h w ∧ 1 ≤ cntOf T h w o) (keyRelease o) (fun _ => RIc T raw (hadd h o (-1))) (fun _ => False) := by
  rintro w ⟨hi, hc⟩
  obtain ⟨k, hk, hraw, hrefs, hcl, hsec, _⟩ := hi.open_of_cnt hc
  rw [keyRelease_run w o k hk]
  have hh : ∀ o', o' ≠ o → hadd h o (-1) o' = h o' ∧ (raw = .obj o' ↔ raw = .obj o') := by
    intro o' ho'; simp [hadd, ho']
  by_cases hr : k.refs - 1 > 0
  · simp only [hr, true_or, if_true]
    refine hi.updKey o (fun x => { x with refs := x.refs - 1 }) k hk (fun x => ⟨rfl, rfl, rfl, rfl⟩) ⟨rfl, fun _ _ e => e, hi.rawObj⟩ hh (fun _ => trivial) ?_ rfl rfl rfl
    refine ⟨fun e => absurd e hraw, fun _ => ?_⟩
    rw [cntOf_hadd]; simp only [if_true]
    refine ⟨by omega, ?_⟩
    rw [hcl]; constructor
    · intro e; cases e
    · intro e; omega
  · simp only [hr, hcl, false_or, if_false]
    rw [hsec]
    refine hi.closeKey o (fun x => { x with refs := x.refs - 1, closed := true }) k hk hcl (fun x => ⟨rfl, rfl, rfl, rfl⟩) ⟨rfl, fun _ _ e => e, hi.rawObj, hraw⟩ hh ?_ rfl rfl rfl
    rw [cntOf_hadd]; simp only [if_true]
    constructor <;> omega

/-- `CryptoKey.Close` on the raw key the running code owns. -/
theorem keyCloseRaw_spec (T : CTab) (h : Nat → Int) (o : Nat) :
    Spec (RIc T (.obj o) h) (keyCloseRaw o) (fun _ => RIc T .none h) (fun _ => False) := by
  intro w hi
  have hlt := hi.rawObj o rfl
  have hk : w.keys[o]? = some w.keys[o] := List.getElem?_eq_getElem hlt
  have hacc := (hi.acc o _ hk).1 rfl
  rw [keyCloseRaw_run w o _ hk]
  simp only [hacc.1, if_false]
  rw [hi.sec o _ hk]
  refine hi.closeKey o (fun x => { x with closed := true }) _ hk hacc.1 (fun x => ⟨rfl, rfl, rfl, rfl⟩)
    ⟨rfl, fun _ _ e => (by cases e), fun _ e => (by cases e), (by intro e; cases e)⟩
    ?_ ⟨(by simp only; rw [hacc.2.1, hacc.2.2]), hacc.2.2⟩ rfl rfl rfl
  intro o' ho'
  refine ⟨rfl, ?_⟩
  constructor
  · intro e; cases e
  · intro e; cases e; exact absurd rfl ho'

/-- `newCachedCryptoKey`: the raw key becomes a wrapped key with one (held) reference. -/
theorem keyWrap_spec (T : CTab) (H : List Nat) (o : Nat) :
    Spec (RI T (.obj o) H) (keyWrap o) (fun _ w => RI T .none (o :: H) w ∧ entCount T.dead w.caches o = 0) (fun _ => False) := by
  intro w hi
  have hlt := hi.rawObj o rfl
  have hk : w.keys[o]? = some w.keys[o] := List.getElem?_eq_getElem hlt
  have hacc := (hi.acc o _ hk).1 rfl
  have hent : entCount T.dead w.caches o = 0 := by
    have := hacc.2.2; unfold cntOf at this
    have := hcount_nonneg H o
    omega
  show RI T .none (o :: H) { w with keys := setAt w.keys o fun x => { x with refs := 1 } } ∧ _
  refine ⟨?_, hent⟩
  unfold RI
  rw [hcount_cons]
  refine RIc.updKey hi o (fun x => { x with refs := 1 }) _ hk (fun x => ⟨rfl, rfl, rfl, rfl⟩) ⟨rfl, fun _ _ e => (by cases e), fun _ e => (by cases e)⟩ ?_ (fun _ => trivial) ?_ rfl rfl rfl
  · intro o' ho'
    refine ⟨by simp [hadd, ho'], ?_⟩
    constructor
    · intro e; cases e
    · intro e; cases e; exact absurd rfl ho'
  · refine ⟨fun e => (by cases e), fun _ => ?_⟩
    rw [cntOf_hadd, hacc.2.2]
    simp [hacc.1]

theorem withKey_open {α : Type} (w : World) (o : Nat) (f : Nat → M α) (k : KeyObj) (hk : w.keys[o]? = some k)
    (s : Secret) (hs : w.secrets[k.sec]? = some s) (hc : s.closes = 0) : withKey o f w = f k.mat w := by
  have hg : w.keys.getD o default = k := getD_eq_of_getElem? hk
  have hg2 : w.secrets.getD k.sec default = s := getD_eq_of_getElem? hs
  simp only [withKey, bind_run, keyObj, get_run, hg, hg2, hc]
  simp

theorem withKey_spec {α : Type} {P : World → Prop} {Q : α → World → Prop} {E : World → Prop} (o : Nat) (f : Nat → M α)
    (hopen : ∀ w, P w → ∃ k s, w.keys[o]? = some k ∧ w.secrets[k.sec]? = some s ∧ s.closes = 0)
    (hf : ∀ m, Spec P (f m) Q E) : Spec P (withKey o f) Q E := by
  intro w hw
  obtain ⟨k, s, hk, hs, hc⟩ := hopen w hw
  rw [withKey_open w o f k hk s hs hc]
  exact hf k.mat w hw

theorem RI.open_of_held {T : CTab} {raw : Raw} {H : List Nat} {w : World} (hi : RI T raw H w) {o : Nat}
    (ho : o ∈ H ∨ raw = .obj o) : ∃ k s, w.keys[o]? = some k ∧ w.secrets[k.sec]? = some s ∧ s.closes = 0 := by
  cases ho with
  | inl ho =>
    have hc : 1 ≤ cntOf T (hcount H) w o := by
      unfold cntOf hcount
      have := List.count_pos_iff.2 ho
      omega
    obtain ⟨k, hk, _, _, _, hsec, s, hs, hc0, _⟩ := RIc.open_of_cnt hi hc
    exact ⟨k, s, hk, by rw [hsec]; exact hs, hc0⟩
  | inr ho =>
    subst ho
    have hlt := hi.rawObj o rfl
    have hk : w.keys[o]? = some w.keys[o] := List.getElem?_eq_getElem hlt
    have hacc := (hi.acc o _ hk).1 rfl
    have hlt2 : o < w.secrets.length := by have := hi.len; omega
    have hs := hi.led o _ (List.getElem?_eq_getElem hlt2)
    rw [hk] at hs
    simp only [hacc.1] at hs
    exact ⟨_, _, hk, by rw [hi.sec o _ hk]; exact List.getElem?_eq_getElem hlt2, by simpa using hs.2⟩

/-- `WithKeyFunc` on a key the running code holds (or owns raw): the secret is open, the callback runs. -/
theorem withKey_ri {α : Type} {T : CTab} {raw : Raw} {H : List Nat} {Q : α → World → Prop} {E : World → Prop}
    (o : Nat) (f : Nat → M α) (ho : o ∈ H ∨ raw = .obj o) (hf : ∀ m, Spec (RI T raw H) (f m) Q E) :
    Spec (RI T raw H) (withKey o f) Q E :=
  withKey_spec o f (fun w hw => RI.open_of_held hw ho) hf

/-! ### list-form specs used by the envelope layer -/

theorem keyRelease_spec (T : CTab) (raw : Raw) (H : List Nat) (o : Nat) :
    Spec (RI T raw (o :: H)) (keyRelease o) (fun _ => RI T raw H) (fun _ => False) := by
  have := keyRelease_specc T raw (hcount (o :: H)) o
  rw [hcount_cons, hadd_hadd_cancel] at this
  refine this.weaken ?_ (fun _ _ h => h) (fun _ h => h)
  intro w hw
  refine ⟨by unfold RI at hw; rw [hcount_cons] at hw; exact hw, ?_⟩
  rw [cntOf_hadd]; simp only [if_true]
  unfold cntOf
  have := hcount_nonneg H o
  omega

theorem keyRelease_pres (T : CTab) (raw : Raw) (H : List Nat) (o : Nat) :
    Spec (RI T raw (o :: H)) (keyRelease o) (fun _ => RI T raw H) (RI T raw H) :=
  (keyRelease_spec T raw H o).weaken (fun _ h => h) (fun _ _ h => h) (fun _ h => h.elim)

theorem keyIncr_spec (T : CTab) (raw : Raw) (H : List Nat) (o : Nat) :
    Spec (fun w => RI T raw H w ∧ 0 < entCount T.dead w.caches o) (keyIncr o) (fun _ => RI T raw (o :: H)) (fun _ => False) := by
  have := keyIncr_specc T raw (hcount H) o
  rw [← hcount_cons] at this
  refine this.weaken ?_ (fun _ _ h => h) (fun _ h => h)
  rintro w ⟨hw, hc⟩
  refine ⟨hw, ?_⟩
  unfold cntOf
  have := hcount_nonneg H o
  omega

theorem secretRandom_spec (T : CTab) (h : Nat → Int) :
    Spec (RIc T .none h) secretRandom (fun p => RIc T (.sec p.1 p.2) h) (RIc T .none h) := by
  unfold secretRandom
  refine Spec.bind (takeFault_ri T .none h).toSpec (fun _ h => h) ?_
  intro f
  split
  · exact Spec.bind (logCall_ri T .none h _).toSpec (fun _ h => h) fun _ => Spec.throw _ fun _ h => h
  · refine Spec.bind (logCall_ri T .none h _).toSpec (fun _ h => h) fun _ => ?_
    intro w hi
    exact hi.allocSecret { mat := w.mats } ⟨rfl, rfl⟩ rfl rfl rfl

theorem secretNew_spec (T : CTab) (h : Nat → Int) (b m : Nat) :
    Spec (RIc T .none h) (secretNew b m) (fun s => RIc T (.sec s m) h) (RIc T .none h) := by
  unfold secretNew
  refine Spec.bind (takeFault_ri T .none h).toSpec (fun _ h => h) ?_
  intro f
  refine Spec.bind (wipeBuf_ri T .none h b).toSpec (fun _ h => h) fun _ => ?_
  split
  · exact Spec.bind (logCall_ri T .none h _).toSpec (fun _ h => h) fun _ => Spec.throw _ fun _ h => h
  · refine Spec.bind (logCall_ri T .none h _).toSpec (fun _ h => h) fun _ => ?_
    intro w hi
    exact hi.allocSecret { mat := m } ⟨rfl, rfl⟩ rfl rfl rfl

theorem newKeyObj_spec (T : CTab) (h : Nat → Int) (c : Int) (r : Bool) (m s : Nat) :
    Spec (RIc T (.sec s m) h) (newKeyObj c r m s) (fun o => RIc T (.obj o) h) (fun _ => False) := by
  intro w hi
  exact hi.allocKey { created := c, revoked := r, mat := m, sec := s } ⟨rfl, rfl, rfl, rfl⟩ rfl rfl rfl

end AsherahVerif.Env.Res
