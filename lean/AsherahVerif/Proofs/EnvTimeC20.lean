import AsherahVerif.Proofs.EnvTimeGen
import AsherahVerif.Proofs.EnvTimeHit
/-
C20 support: the call log only grows within an operation (`LG`), caches that retain nothing stay
empty (`NR`), how the factory/session wiring fixes the cache modes (`WF`).
-/
set_option linter.unusedVariables false
namespace AsherahVerif.Env

/-! ### `LG`: the call log only grows -/

def LG (w w' : World) : Prop := ∃ l : List Call, w'.log = w.log ++ l

instance : RT LG where
  refl w := ⟨[], by simp⟩
  trans := by
    rintro a b c ⟨l1, e1⟩ ⟨l2, e2⟩
    exact ⟨l1 ++ l2, by rw [e2, e1, List.append_assoc]⟩

theorem IL.lg {w w' : World} (h : IL w w') : LG w w' := by
  obtain ⟨l, e, _⟩ := h; exact ⟨l, e⟩

theorem cacheWrite_il (c : Nat) (m : KeyMeta) (e : CEntry) : Resp IL (cacheWrite c m e) := by
  unfold cacheWrite
  resp_auto [cacheGet_il, cacheSet_il, keyRelease_il, setCache_il]

instance : Gen LG where
  same w w' h _ := ⟨[], by simp [h]⟩
  logCall c := fun w => ⟨[c], rfl⟩
  cacheGet c m := fun w => (cacheGet_il c m w).lg
  cacheSet c m e := fun w => (cacheSet_il c m e w).lg
  cacheWrite c m e := fun w => (cacheWrite_il c m e w).lg

/-- the first call the operation logged. -/
def LogHead (c : Call) (w : World) : Prop := ∃ l, w.log = c :: l

theorem LogHead.lg {c : Call} {w w' : World} (h : LogHead c w) (hl : LG w w') : LogHead c w' := by
  obtain ⟨l, e⟩ := h
  obtain ⟨l', e'⟩ := hl
  exact ⟨l ++ l', by rw [e', e]; rfl⟩

/-- postconditions that hold as soon as the log starts with `c`. -/
def StableQ {α : Type} (c : Call) (Q : Except Err α → World → Prop) : Prop := ∀ r w, LogHead c w → Q r w

theorem stable_base {α : Type} (c : Call) : StableQ (α := α) c (fun _ w => LogHead c w) := fun _ _ h => h

theorem stable_bind {α β : Type} {c : Call} {f : α → M β} {Q : Except Err β → World → Prop}
    (hf : ∀ a, Resp LG (f a)) (hQ : StableQ c Q) :
    StableQ c (fun r w1 => match r with | .ok a => Wp (f a) w1 Q | .error e => Q (.error e) w1) := by
  intro r w h
  cases r with
  | ok a => exact hQ _ _ (h.lg (hf a w))
  | error e => exact hQ _ _ h

theorem stable_finally {α : Type} {c : Call} {fin : M Unit} {Q : Except Err α → World → Prop}
    (hfin : Resp LG fin) (hQ : StableQ c Q) : StableQ c (fun r w1 => Wp fin w1 (fun _ w2 => Q r w2)) :=
  fun r w h => hQ _ _ (h.lg (hfin w))

theorem stable_tryM {α : Type} {c : Call} {Q : Except Err (Except Err α) → World → Prop}
    (hQ : StableQ c Q) : StableQ c (fun r w1 => Q (.ok r) w1) := fun r w h => hQ _ _ h

theorem msLoadLatest_log (k : KeyId) (w : World) (hf : w.faults = []) :
    (msLoadLatest k w).2.log = w.log ++ [.loadLatest k ((latestRow w.store k).map (·.created)) false] := by
  unfold msLoadLatest
  simp only [bind_run, takeFault_nofault hf, get_run]
  rw [if_neg (by simp)]
  rfl

theorem msLoad_log (m : KeyMeta) (w : World) (hf : w.faults = []) :
    (msLoad m w).2.log = w.log ++ [.load m (findRow w.store m).isSome false] := by
  unfold msLoad
  simp only [bind_run, takeFault_nofault hf, get_run]
  rw [if_neg (by simp)]
  rfl

/-- discharge `StableQ c Q` for the nested postconditions `Wp.bind`/`Wp.finallyDo` build. -/
macro "stable_auto" : tactic => `(tactic|
  (repeat (any_goals (first
    | assumption
    | exact stable_base _
    | apply stable_bind
    | apply stable_finally
    | apply stable_tryM))))

theorem Wp.of_stable {α : Type} {x : M α} {w : World} {c : Call} {Q : Except Err α → World → Prop}
    (hQ : StableQ c Q) (h : LogHead c (x w).2) : Wp x w Q := hQ _ _ h

/-- the intermediate-key loader of `EncryptPayload` first of all reads the latest record of the partition. -/
theorem loadLatestOrCreateIntermediateKey_head (x : Ctx) (b : Bool) (w : World) (hl : w.log = []) (hf : w.faults = []) :
    Wp (loadLatestOrCreateIntermediateKey x b) w fun _ w' =>
      LogHead (.loadLatest x.ikId ((latestRow w.store x.ikId).map (·.created)) false) w' := by
  unfold loadLatestOrCreateIntermediateKey
  apply Wp.bind
  refine Wp.of_stable ?_ ⟨[], by rw [msLoadLatest_log x.ikId w hf, hl]; rfl⟩
  stable_auto
  intro r
  resp_auto [gen_createIntermediateKey, gen_getOrLoadSystemKey, gen_getValidIntermediateKey, gen_keyRelease]

/-- on a real cache, an encrypt whose "latest" entry is missing or due for a reload first of all
re-reads the latest intermediate-key record of the partition. -/
theorem encrypt_reread (w : World) (s pay : Nat) (b : Bool)
    (hmode : modeOf w (sessionCtx w s).ikCache ≠ .never)
    (hstale : ∀ e, readEntry w (sessionCtx w s).ikCache ⟨(sessionCtx w s).ikId, 0⟩ = some e →
      isReloadRequired e (keyAt w e.obj) w.now (sessionCtx w s).pol.revokeInterval = true) :
    Wp (encrypt s pay [] b) w fun _ w' =>
      LogHead (.loadLatest (sessionCtx w s).ikId ((latestRow w.store (sessionCtx w s).ikId).map (·.created)) false) w' := by
  unfold encrypt
  refine Wp.bind_unit rfl ?_
  apply Wp.bind; apply Wp.get; simp only []
  have hx : sessionCtx (beginOp [] w).2 s = sessionCtx w s := rfl
  rw [hx]
  generalize hw0 : (beginOp [] w).2 = w0
  have hlog0 : w0.log = [] := by rw [← hw0]; rfl
  have hf0 : w0.faults = [] := by rw [← hw0]; rfl
  have hst0 : w0.store = w.store := by rw [← hw0]; rfl
  have hstale0 : ∀ e, readEntry w0 (sessionCtx w s).ikCache ⟨(sessionCtx w s).ikId, 0⟩ = some e →
      isReloadRequired e (keyAt w0 e.obj) w0.now (sessionCtx w s).pol.revokeInterval = true := by
    rw [← hw0]; exact hstale
  have hmode0 : (cacheAt w0 (sessionCtx w s).ikCache).mode ≠ .never := by rw [← hw0]; exact hmode
  generalize sessionCtx w s = x at *
  unfold encryptPayload
  apply Wp.bind
  unfold getOrLoadLatest
  apply Wp.bind; apply Wp.getCache; simp only []
  apply Wp.bind
  apply Wp.mono (getFresh_wp x.ikCache ⟨x.ikId, 0⟩ x.pol.revokeInterval w0)
  intro r w1 ⟨hsv1, ko, fr, hr, hcase⟩
  subst hr
  have hhead := loadLatestOrCreateIntermediateKey_head x b w1 (by rw [hsv1.log]; exact hlog0)
    (by rw [hsv1.faults]; exact hf0)
  rw [hsv1.store, hst0] at hhead
  rcases hcase with ⟨rfl, rfl, -⟩ | ⟨e, he, rfl, rfl⟩
  · simp only []
    apply Wp.bind
    unfold cacheLoad
    apply Wp.bind
    refine Wp.mono hhead ?_
    refine (?_ : StableQ _ _)
    stable_auto
    all_goals (intro _)
    all_goals resp_auto [gen_cacheRead, Gen.cacheWrite, gen_keyCloseRaw, gen_keyWrap, gen_keyIncr, gen_keyRelease,
      gen_loadLatestOrCreateIntermediateKey, gen_secretRandom, gen_newKeyObj]
    all_goals first
      | exact gen_modify _ (fun _ => rfl) (fun _ => rfl)
      | exact gen_withKey _ _ fun dm => gen_aeadEncrypt _ _
      | exact gen_withKey _ _ fun im => gen_withKey _ _ fun dm => gen_aeadEncrypt _ _
  · rw [hstale0 e he]
    simp only [Bool.not_true]
    apply Wp.bind
    unfold cacheLoad
    apply Wp.bind
    refine Wp.mono hhead ?_
    refine (?_ : StableQ _ _)
    stable_auto
    all_goals (intro _)
    all_goals resp_auto [gen_cacheRead, Gen.cacheWrite, gen_keyCloseRaw, gen_keyWrap, gen_keyIncr, gen_keyRelease,
      gen_loadLatestOrCreateIntermediateKey, gen_secretRandom, gen_newKeyObj]
    all_goals first
      | exact gen_modify _ (fun _ => rfl) (fun _ => rfl)
      | exact gen_withKey _ _ fun dm => gen_aeadEncrypt _ _
      | exact gen_withKey _ _ fun im => gen_withKey _ _ fun dm => gen_aeadEncrypt _ _

theorem loadIntermediateKey_head (x : Ctx) (p : KeyMeta) (b : Bool) (w : World) (hl : w.log = []) (hf : w.faults = []) :
    Wp (loadIntermediateKey x p b) w fun _ w' => LogHead (.load p (findRow w.store p).isSome false) w' := by
  unfold loadIntermediateKey
  apply Wp.bind
  refine Wp.of_stable ?_ ⟨[], by rw [msLoad_log p w hf, hl]; rfl⟩
  stable_auto
  intro r
  resp_auto [gen_getOrLoadSystemKey, gen_intermediateKeyFromEKR, gen_keyRelease]

/-- on a real cache, a decrypt whose intermediate-key entry is missing or due for a reload first of
all re-reads that key's record. -/
theorem decrypt_reread (w : World) (s : Nat) (d : Drr) (b : Bool) (dk : DrrKey) (p : KeyMeta)
    (hkey : d.key = some dk) (hpar : dk.parent = some p) (hkid : p.kid = (sessionCtx w s).ikId)
    (hmode : modeOf w (sessionCtx w s).ikCache ≠ .never)
    (hstale : ∀ e, readEntry w (sessionCtx w s).ikCache p = some e →
      isReloadRequired e (keyAt w e.obj) w.now (sessionCtx w s).pol.revokeInterval = true) :
    Wp (decrypt s d [] b) w fun _ w' => LogHead (.load p (findRow w.store p).isSome false) w' := by
  unfold decrypt
  refine Wp.bind_unit rfl ?_
  apply Wp.bind; apply Wp.get; simp only []
  have hx : sessionCtx (beginOp [] w).2 s = sessionCtx w s := rfl
  rw [hx]
  generalize hw0 : (beginOp [] w).2 = w0
  have hlog0 : w0.log = [] := by rw [← hw0]; rfl
  have hf0 : w0.faults = [] := by rw [← hw0]; rfl
  have hst0 : w0.store = w.store := by rw [← hw0]; rfl
  have hstale0 : ∀ e, readEntry w0 (sessionCtx w s).ikCache p = some e →
      isReloadRequired e (keyAt w0 e.obj) w0.now (sessionCtx w s).pol.revokeInterval = true := by
    rw [← hw0]; exact hstale
  have hmode0 : (cacheAt w0 (sessionCtx w s).ikCache).mode ≠ .never := by rw [← hw0]; exact hmode
  generalize sessionCtx w s = x at *
  unfold decryptDataRowRecord
  rw [hkey]; simp only []
  rw [hpar]; simp only []
  rw [if_neg (by simp [hkid])]
  apply Wp.bind
  unfold getOrLoad
  apply Wp.bind; apply Wp.getCache; simp only []
  -- both lookups miss (or are stale); then the load
  have hload : ∀ (w2 : World) (Q : Except Err Nat → World → Prop), SV w0 w2 →
      StableQ (Call.load p (findRow w.store p).isSome false) Q →
      Wp (do
        let k ← cacheLoad x.ikCache p fun m => loadIntermediateKey x m b
        keyIncr k
        pure k) w2 Q := by
    intro w2 Q hsv2 hQ
    have hhead := loadIntermediateKey_head x p b w2 (by rw [hsv2.log]; exact hlog0) (by rw [hsv2.faults]; exact hf0)
    rw [hsv2.store, hst0] at hhead
    apply Wp.bind
    unfold cacheLoad
    apply Wp.bind
    refine Wp.mono hhead ?_
    refine (?_ : StableQ _ _)
    stable_auto
    all_goals (intro _)
    all_goals resp_auto [gen_cacheRead, Gen.cacheWrite, gen_keyCloseRaw, gen_keyWrap, gen_keyIncr, gen_keyRelease]
    all_goals exact gen_modify (R := LG) _ (fun _ => rfl) (fun _ => rfl)
  have hmiss : ∀ w2, SV w0 w2 → ∀ ko fr,
      ((ko = none ∧ fr = false ∧ (modeOf w2 x.ikCache = .simple → readEntry w2 x.ikCache p = none)) ∨
       ∃ e, readEntry w2 x.ikCache p = some e ∧ ko = some e.obj ∧
        fr = !isReloadRequired e (keyAt w2 e.obj) w2.now x.pol.revokeInterval) →
      (ko = none ∧ fr = false) ∨ (∃ k, ko = some k ∧ fr = false) := by
    intro w2 hsv2 ko fr hcase
    rcases hcase with ⟨rfl, rfl, -⟩ | ⟨e, he, rfl, rfl⟩
    · exact Or.inl ⟨rfl, rfl⟩
    · right
      rw [hsv2.readEntry] at he
      rw [hsv2.keyAt, hsv2.now, hstale0 e he]
      exact ⟨_, rfl, rfl⟩
  apply Wp.bind
  apply Wp.mono (getFresh_wp x.ikCache p x.pol.revokeInterval w0)
  intro r w1 ⟨hsv1, ko, fr, hr, hcase⟩
  subst hr
  rcases hmiss w0 (RT.refl w0) ko fr hcase with ⟨rfl, rfl⟩ | ⟨k, rfl, rfl⟩
  · simp only []
    apply Wp.bind
    apply Wp.mono (getFresh_wp x.ikCache p x.pol.revokeInterval w1)
    intro r w2 ⟨hsv2, ko2, fr2, hr2, hcase2⟩
    subst hr2
    rcases hmiss w1 hsv1 ko2 fr2 hcase2 with ⟨rfl, rfl⟩ | ⟨k, rfl, rfl⟩
    all_goals
      refine hload w2 _ (RT.trans hsv1 hsv2) ?_
      intro r w1 h
      cases r with
      | error e => exact h
      | ok a =>
        exact h.lg (RT.trans (gen_decryptRow (R := LG) a dk d.data w1) (gen_keyRelease (R := LG) a _))
  · simp only []
    apply Wp.bind
    apply Wp.mono (getFresh_wp x.ikCache p x.pol.revokeInterval w1)
    intro r w2 ⟨hsv2, ko2, fr2, hr2, hcase2⟩
    subst hr2
    rcases hmiss w1 hsv1 ko2 fr2 hcase2 with ⟨rfl, rfl⟩ | ⟨k, rfl, rfl⟩
    all_goals
      refine hload w2 _ (RT.trans hsv1 hsv2) ?_
      intro r w1 h
      cases r with
      | error e => exact h
      | ok a =>
        exact h.lg (RT.trans (gen_decryptRow (R := LG) a dk d.data w1) (gen_keyRelease (R := LG) a _))

/-! ### `NR`: caches that retain nothing stay empty -/

def NR (w w' : World) : Prop := MSame w w' ∧ ∀ c, modeOf w c = .never → entsOf w' c = entsOf w c

instance : RT NR where
  refl w := ⟨RT.refl w, fun _ _ => rfl⟩
  trans := by
    rintro a b c ⟨m1, e1⟩ ⟨m2, e2⟩
    exact ⟨RT.trans m1 m2, fun k hk => (e2 k (by rw [m1.2]; exact hk)).trans (e1 k hk)⟩

theorem cacheSet_never (c : Nat) (m : KeyMeta) (e : CEntry) (w : World) (h : modeOf w c = .never) :
    (cacheSet c m e w).2 = w := by
  unfold cacheSet
  simp only [bind_run, getCache_run]
  have : (cacheAt w c).mode = .never := h
  rw [this]
  rfl

theorem cacheGet_never (c : Nat) (m : KeyMeta) (w : World) (h : modeOf w c = .never) :
    cacheGet c m w = (.ok none, w) := by
  unfold cacheGet
  simp only [bind_run, getCache_run]
  have : (cacheAt w c).mode = .never := h
  rw [this]
  rfl

theorem writeTail_never (c : Nat) (m : KeyMeta) (e : CEntry) (w : World) (h : modeOf w c = .never) :
    (writeTail c m e w).2 = w := by
  unfold writeTail
  simp only [bind_run, getCache_run, cacheGet_never c m w h]
  have : (cacheAt w c).mode = .never := h
  rw [this]
  exact cacheSet_never c m e w h

theorem cacheWrite_nr (c : Nat) (m : KeyMeta) (e : CEntry) (w : World) : NR w (cacheWrite c m e w).2 := by
  obtain ⟨hcw, -, -, -, hother⟩ := cacheWrite_spec c m e w
  refine ⟨hcw.msame, fun c' hc' => ?_⟩
  by_cases hcc : c' = c
  · subst hcc
    rw [cacheWrite_eq]
    split
    · obtain ⟨hcw1, -, he1⟩ := setCache_cw c' { cacheAt w c' with latest := assocSet (latestOf w c') m.kid (writeMeta w m e) } w rfl
      have hm1 : modeOf (setCache c' { cacheAt w c' with latest := assocSet (latestOf w c') m.kid (writeMeta w m e) } w).2 c' = .never := by
        rw [hcw1.mode]; exact hc'
      rw [writeTail_never _ _ _ _ hm1, he1]
      split <;> rfl
    · rw [writeTail_never _ _ _ _ hc']
  · exact hother c' hcc

instance : Gen NR where
  same w w' _ h := ⟨⟨by rw [h], fun c => by unfold modeOf cacheAt; rw [h]⟩, fun c _ => by unfold entsOf cacheAt; rw [h]⟩
  logCall c := fun w => ⟨⟨rfl, fun _ => rfl⟩, fun _ _ => rfl⟩
  cacheGet c m := fun w => ⟨(cacheGet_spec c m w).1.msame, fun c' _ => ((cacheGet_spec c m w).1.view c').1⟩
  cacheSet c m e := fun w => by
    obtain ⟨hcw, -, -, -, hother⟩ := cacheSet_spec c m e w
    refine ⟨hcw.msame, fun c' hc' => ?_⟩
    by_cases hcc : c' = c
    · subst hcc; rw [cacheSet_never _ _ _ _ hc']
    · exact hother c' hcc
  cacheWrite c m e := fun w => cacheWrite_nr c m e w

/-- with a `neverCache` every encrypt goes to the loader: its first call re-reads the latest
intermediate-key record of the partition. -/
theorem encrypt_reread_never (w : World) (s pay : Nat) (b : Bool)
    (hmode : modeOf w (sessionCtx w s).ikCache = .never) :
    Wp (encrypt s pay [] b) w fun _ w' =>
      LogHead (.loadLatest (sessionCtx w s).ikId ((latestRow w.store (sessionCtx w s).ikId).map (·.created)) false) w' := by
  unfold encrypt
  refine Wp.bind_unit rfl ?_
  apply Wp.bind; apply Wp.get; simp only []
  have hx : sessionCtx (beginOp [] w).2 s = sessionCtx w s := rfl
  rw [hx]
  generalize hw0 : (beginOp [] w).2 = w0
  have hlog0 : w0.log = [] := by rw [← hw0]; rfl
  have hf0 : w0.faults = [] := by rw [← hw0]; rfl
  have hst0 : w0.store = w.store := by rw [← hw0]; rfl
  have hmode0 : (cacheAt w0 (sessionCtx w s).ikCache).mode = .never := by rw [← hw0]; exact hmode
  generalize sessionCtx w s = x at *
  unfold encryptPayload
  apply Wp.bind
  unfold getOrLoadLatest
  apply Wp.bind; apply Wp.getCache; simp only []
  rw [hmode0]
  simp only []
  have hhead := loadLatestOrCreateIntermediateKey_head x b w0 hlog0 hf0
  rw [hst0] at hhead
  apply Wp.bind
  refine Wp.mono hhead ?_
  refine (?_ : StableQ _ _)
  stable_auto
  all_goals (intro _)
  all_goals resp_auto [gen_keyWrap, gen_keyRelease, gen_keyCloseRaw, gen_secretRandom, gen_newKeyObj]
  all_goals first
    | exact gen_withKey _ _ fun dm => gen_aeadEncrypt _ _
    | exact gen_withKey _ _ fun im => gen_withKey _ _ fun dm => gen_aeadEncrypt _ _

/-! ### the factory/session wiring fixes the cache modes -/

/-- caches built with `neverCache` hold no entries. -/
def NeverEmpty (w : World) : Prop := ∀ c, modeOf w c = .never → entsOf w c = []

structure FacWF (w : World) (fac : Factory) : Prop where
  sk : fac.skCache < w.caches.length ∧ modeOf w fac.skCache = modeFor fac.pol.cacheSK fac.pol.skKind
  shared : ∀ c, fac.sharedIk = some c →
    fac.pol.sharedIK = true ∧ c < w.caches.length ∧ modeOf w c = modeFor true fac.pol.ikKind
  unshared : fac.sharedIk = none → fac.pol.sharedIK = false

/-- a session's intermediate-key cache is its factory's shared one, or its own, built per policy. -/
def SessWF (w : World) (ss : Session) : Prop :=
  ∃ fac, w.facs[ss.fac]? = some fac ∧ ss.ikCache < w.caches.length ∧
    modeOf w ss.ikCache = if fac.pol.sharedIK then modeFor true fac.pol.ikKind
      else modeFor fac.pol.cacheIK fac.pol.ikKind

structure WF (w : World) : Prop where
  never : NeverEmpty w
  facs : ∀ (f : Nat) (fac : Factory), w.facs[f]? = some fac → FacWF w fac
  sess : ∀ (s : Nat) (ss : Session), w.sessions[s]? = some ss → SessWF w ss

theorem FacWF.mono {w w' : World} {fac : Factory} (h : FacWF w fac) (hm : MSame w w') : FacWF w' fac :=
  ⟨⟨by rw [hm.1]; exact h.sk.1, by rw [hm.2]; exact h.sk.2⟩,
   fun c hc => ⟨(h.shared c hc).1, by rw [hm.1]; exact (h.shared c hc).2.1, by rw [hm.2]; exact (h.shared c hc).2.2⟩,
   h.unshared⟩

/-- steps that keep factories and sessions, add no cache, change no mode and keep `never` caches empty. -/
theorem WF.nr {w w' : World} (h : WF w) (hn : NR w w') (hf : w'.facs = w.facs) (hs : w'.sessions = w.sessions) :
    WF w' := by
  refine ⟨?_, ?_, ?_⟩
  · intro c hc
    rw [hn.1.2] at hc
    rw [hn.2 c hc]; exact h.never c hc
  · intro f fac hfac; rw [hf] at hfac; exact (h.facs f fac hfac).mono hn.1
  · intro s ss hss
    rw [hs] at hss
    obtain ⟨fac, h1, h2, h3⟩ := h.sess s ss hss
    exact ⟨fac, by rw [hf]; exact h1, by rw [hn.1.1]; exact h2, by rw [hn.1.2]; exact h3⟩

theorem beginOp_nr (fl : List Fault) : Resp NR (beginOp fl) := fun w => ⟨⟨rfl, fun _ => rfl⟩, fun _ _ => rfl⟩

theorem encrypt_nr (s p : Nat) (fl : List Fault) (b : Bool) : Resp NR (encrypt s p fl b) := by
  unfold encrypt
  refine Resp.bind (R := NR) (beginOp_nr fl) fun _ => ?_
  refine Resp.bind (R := NR) Resp.get fun w => ?_
  exact gen_encryptPayload _ _ _

theorem decrypt_nr (s : Nat) (d : Drr) (fl : List Fault) (b : Bool) : Resp NR (decrypt s d fl b) := by
  unfold decrypt
  refine Resp.bind (R := NR) (beginOp_nr fl) fun _ => ?_
  refine Resp.bind (R := NR) Resp.get fun w => ?_
  exact gen_decryptDataRowRecord _ _ _

end AsherahVerif.Env
