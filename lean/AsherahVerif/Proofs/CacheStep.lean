import AsherahVerif.Proofs.CacheInv
/-
C15 helper lemmas: one step of the cache preserves `Inv` and never panics (capacity ≥ 1).
-/
namespace AsherahVerif.Cache

theorem inv_mk (kind : Kind) (cap expiry protCap winCap : Nat) (h : 1 ≤ cap) :
    Inv (mk kind cap expiry protCap winCap) := by
  refine ⟨⟨by simp [mk, keysOf], ?_, ?_⟩, by simp [mk], h, fun _ => rfl⟩
  · cases kind <;> simp [mk, Pol.keys, Slru.keys]
  · intro k; cases kind <;> simp [mk, Pol.keys, Slru.keys, keysOf]

theorem bij_append {c : Cache} (hb : Bij c) {k v e : Nat} (hk : k ∉ keysOf c.items) :
    Bij { c with items := c.items ++ [⟨k, v, e⟩], pol := c.pol.admit k } := by
  have hkp : k ∉ c.pol.keys := fun h => hk ((hb.same k).mp h)
  refine ⟨?_, Pol.nodup_admit hkp hb.polNodup, ?_⟩
  · simp only [keysOf, List.map_append, List.map_cons, List.map_nil]
    rw [List.nodup_append]
    refine ⟨hb.itemsNodup, by simp, ?_⟩
    intro a ha b hbm; simp at hbm; subst hbm; intro e'; subst e'; exact hk ha
  · intro x
    simp only
    rw [Pol.mem_admit hb.polNodup, hb.same]
    simp only [keysOf, List.map_append, List.map_cons, List.map_nil, List.mem_append, List.mem_singleton]
    exact Or.comm

theorem step_inv {c : Cache} (h : Inv c) (op : Op) (orc : Nat → Bool) :
    Inv (step c op orc).cache ∧ (step c op orc).res ≠ Res.panic := by
  cases op with
  | tick d => exact ⟨⟨⟨h.itemsNodup, h.polNodup, h.same⟩, h.size, h.capPos, h.closed⟩, by simp [step]⟩
  | len => exact ⟨h, by simp [step]⟩
  | capacity => exact ⟨h, by simp [step]⟩
  | set k v =>
    simp only [step]
    split
    · exact ⟨h, by simp⟩
    · next hc =>
      split
      · next it hit =>
        have hk : k ∈ keysOf c.items := by
          apply Classical.byContradiction; intro hn; rw [lookup_none.mpr hn] at hit; cases hit
        have hkp := (h.same k).mpr hk
        refine ⟨⟨⟨by simp only [keysOf_setVal]; exact h.itemsNodup, Pol.nodup_access hkp h.polNodup, ?_⟩,
          by simp only [length_setVal]; exact h.size, h.capPos, fun hcl => absurd hcl hc⟩, by simp⟩
        intro x; simp only [keysOf_setVal]; rw [Pol.mem_access hkp h.polNodup, h.same]
      · next hnone =>
        have hk := lookup_none.mp hnone
        split
        · next hfull =>
          have hne : c.items ≠ [] := by
            intro e; rw [e] at hfull; simp at hfull; have := h.capPos; omega
          obtain ⟨it, hit, hv, hev⟩ := evict_spec h.toBij hne (orc 0)
          obtain ⟨hb1, hlen, hcap, hcl, _, _, it', hit', _, hitems, _⟩ := evict_bij h.toBij hev hne
          rw [hev]
          simp only
          have hk' : k ∉ keysOf (eraseKey c.items it.key) := fun hm => hk (mem_keysOf_eraseKey.mp hm).2
          have hb2 := @bij_append _ hb1 k v (expireAt c) hk'
          refine ⟨⟨hb2, ?_, h.capPos, fun hcl' => absurd hcl' hc⟩, by simp⟩
          simp only [List.length_append, List.length_cons, List.length_nil]
          have := length_eraseKey h.itemsNodup hit
          omega
        · next hnf =>
          have hb2 := @bij_append _ h.toBij k v (expireAt c) hk
          refine ⟨⟨hb2, ?_, h.capPos, fun hcl' => absurd hcl' hc⟩, by simp⟩
          simp only [List.length_append, List.length_cons, List.length_nil]
          have := h.size; omega
  | get k =>
    simp only [step]
    split
    · exact ⟨h, by simp⟩
    · next hc =>
      split
      · exact ⟨h, by simp⟩
      · next it hit =>
        have hkey := (lookup_some hit).2
        have hk : k ∈ keysOf c.items := by
          apply Classical.byContradiction; intro hn; rw [lookup_none.mpr hn] at hit; cases hit
        have hkp := (h.same k).mpr hk
        split
        · simp only [evictItem]
          refine ⟨⟨⟨nodup_keysOf_eraseKey h.itemsNodup, Pol.nodup_remove h.polNodup, ?_⟩, ?_, h.capPos,
            fun hcl' => absurd hcl' hc⟩, by simp⟩
          · intro x; simp only; rw [Pol.mem_remove h.polNodup, mem_keysOf_eraseKey, h.same]
          · have hl := length_eraseKey h.itemsNodup (by rw [hkey]; exact hit)
            have hs := h.size; simp only; omega
        · refine ⟨⟨⟨h.itemsNodup, Pol.nodup_access hkp h.polNodup, ?_⟩, h.size, h.capPos, h.closed⟩, by simp⟩
          intro x; simp only; rw [Pol.mem_access hkp h.polNodup, h.same]
  | del k =>
    simp only [step]
    split
    · exact ⟨h, by simp⟩
    · next hc =>
      split
      · exact ⟨h, by simp⟩
      · next it hit =>
        have hkey := (lookup_some hit).2
        refine ⟨⟨⟨nodup_keysOf_eraseKey h.itemsNodup, Pol.nodup_remove h.polNodup, ?_⟩, ?_, h.capPos,
          fun hcl' => absurd hcl' hc⟩, by simp⟩
        · intro x; simp only; rw [Pol.mem_remove h.polNodup, mem_keysOf_eraseKey, h.same]
        · have hl := length_eraseKey h.itemsNodup (by rw [hkey]; exact hit)
          rw [hkey] at hl
          have hs := h.size; simp only; omega
  | close =>
    simp only [step]
    split
    · exact ⟨h, by simp⟩
    · next hc =>
      have hb : Bij { c with closing := true } := ⟨h.itemsNodup, h.polNodup, h.same⟩
      obtain ⟨c', cbs, h1, h2, h3, h4, h5, h6⟩ :=
        evictAll_spec orc c.items.length { c with closing := true } [] hb (Nat.le_refl _)
      simp only [List.nil_append] at h1
      rw [h1]
      simp only
      refine ⟨⟨⟨by simp [h2, keysOf], ?_, ?_⟩, by simp [h2], by rw [h4]; exact h.capPos, fun _ => h2⟩, by simp⟩
      · cases hp : c'.pol <;> simp [closedPol, Pol.keys, Slru.keys]
      · intro x; cases hp : c'.pol <;> simp [closedPol, Pol.keys, Slru.keys, h2, keysOf]

/-- every state reachable from a freshly built cache satisfies the invariant, and no operation
along the way panics. -/
theorem run_inv {c : Cache} (h : Inv c) (ops : List (Op × (Nat → Bool))) :
    Inv (run c ops).1 ∧ ∀ r ∈ (run c ops).2, r.1 ≠ Res.panic := by
  induction ops generalizing c with
  | nil => exact ⟨h, by simp [run]⟩
  | cons a t ih =>
    obtain ⟨op, orc⟩ := a
    have hs := step_inv h op orc
    have := ih hs.1
    simp only [run]
    refine ⟨this.1, ?_⟩
    intro r hr
    simp only [List.mem_cons] at hr
    rcases hr with hr | hr
    · subst hr; exact hs.2
    · exact this.2 r hr

end AsherahVerif.Cache
