import AsherahVerif.Model.Metastore
/-
Lemmas about the specification table (`Table`) and about `isort`.
-/
namespace AsherahVerif.Metastore

namespace Table

theorem load_nil (id : String) (c : Int) : load [] id c = none := rfl

theorem load_cons (k : Key) (r : Rec) (t : Table) (id : String) (c : Int) :
    load ((k, r) :: t) id c = if k = (id, c) then some r else load t id c := by
  obtain ⟨i, c'⟩ := k
  simp only [load, Prod.mk.injEq]

theorem load_append (t u : Table) (id : String) (c : Int) :
    load (t ++ u) id c = match load t id c with | some r => some r | none => load u id c := by
  induction t with
  | nil => simp [load_nil]
  | cons e t ih =>
    obtain ⟨k, r⟩ := e
    simp only [List.cons_append, load_cons]
    split
    · rfl
    · exact ih

theorem mem_stamps (t : Table) (id : String) (c : Int) : c ∈ t.stamps id ↔ (t.load id c).isSome = true := by
  induction t with
  | nil => simp [stamps, load_nil]
  | cons e t ih =>
    obtain ⟨⟨i, c'⟩, r⟩ := e
    simp only [stamps] at ih ⊢
    simp only [List.filter_cons, load_cons, Prod.mk.injEq]
    by_cases hi : i = id
    · subst hi
      simp only [decide_true, if_true, List.map_cons, List.mem_cons, true_and]
      by_cases hc : c' = c
      · subst hc; simp
      · have : ¬ c = c' := fun h => hc h.symm
        simp [hc, this, ih]
    · simp [hi, ih]

theorem foldl_max_spec (cs : List Int) (c : Int) :
    (cs.foldl max c = c ∨ cs.foldl max c ∈ cs) ∧ c ≤ cs.foldl max c ∧ ∀ x ∈ cs, x ≤ cs.foldl max c := by
  induction cs generalizing c with
  | nil => simp
  | cons a t ih =>
    simp only [List.foldl_cons]
    obtain ⟨h1, h2, h3⟩ := ih (max c a)
    refine ⟨?_, ?_, ?_⟩
    · rcases h1 with h | h
      · rw [h]
        by_cases hca : c ≤ a
        · right; simp [Int.max_eq_right hca]
        · left; exact Int.max_eq_left (by omega)
      · right; exact List.mem_cons_of_mem _ h
    · have := Int.le_max_left c a; omega
    · intro x hx
      rcases List.mem_cons.mp hx with h | h
      · have := Int.le_max_right c a; omega
      · exact h3 x h

theorem maxOf_eq_none (l : List Int) : maxOf l = none ↔ l = [] := by
  cases l <;> simp [maxOf]

theorem maxOf_eq_some (l : List Int) (m : Int) : maxOf l = some m ↔ m ∈ l ∧ ∀ x ∈ l, x ≤ m := by
  cases l with
  | nil => simp [maxOf]
  | cons c cs =>
    simp only [maxOf, Option.some.injEq]
    obtain ⟨h1, h2, h3⟩ := foldl_max_spec cs c
    constructor
    · intro h; subst h
      refine ⟨?_, ?_⟩
      · rcases h1 with h | h
        · rw [h]; exact List.mem_cons_self
        · exact List.mem_cons_of_mem _ h
      · intro x hx
        rcases List.mem_cons.mp hx with h | h
        · subst h; exact h2
        · exact h3 x h
    · rintro ⟨hm, hall⟩
      have hle : cs.foldl max c ≤ m := by
        rcases h1 with h | h
        · rw [h]; exact hall c List.mem_cons_self
        · exact hall _ (List.mem_cons_of_mem _ h)
      have hge : m ≤ cs.foldl max c := by
        rcases List.mem_cons.mp hm with h | h
        · subst h; exact h2
        · exact h3 m h
      omega

theorem maxOf_congr {l l' : List Int} (h : ∀ x, x ∈ l ↔ x ∈ l') : maxOf l = maxOf l' := by
  cases hm : maxOf l with
  | none =>
    have : l = [] := (maxOf_eq_none l).mp hm
    subst this
    have : l' = [] := by
      cases l' with
      | nil => rfl
      | cons a t => exact absurd ((h a).mpr List.mem_cons_self) (by simp)
    subst this; rfl
  | some m =>
    obtain ⟨h1, h2⟩ := (maxOf_eq_some l m).mp hm
    exact ((maxOf_eq_some l' m).mpr ⟨(h m).mp h1, fun x hx => h2 x ((h x).mpr hx)⟩).symm

/-- `loadLatest` is exactly "the record with the greatest creation time for the id". -/
theorem loadLatest_eq_some (t : Table) (id : String) (r : Rec) :
    t.loadLatest id = some r ↔
      ∃ c, t.load id c = some r ∧ ∀ c', (t.load id c').isSome = true → c' ≤ c := by
  unfold loadLatest
  constructor
  · intro h
    split at h
    · exact absurd h (by simp)
    · rename_i c hc
      obtain ⟨_, h2⟩ := (maxOf_eq_some _ c).mp hc
      exact ⟨c, h, fun c' hc' => h2 c' ((mem_stamps t id c').mpr hc')⟩
  · rintro ⟨c, hc, hmax⟩
    have hmem : c ∈ t.stamps id := (mem_stamps t id c).mpr (by simp [hc])
    have : maxOf (t.stamps id) = some c :=
      (maxOf_eq_some _ c).mpr ⟨hmem, fun x hx => hmax x ((mem_stamps t id x).mp hx)⟩
    rw [this]; exact hc

theorem loadLatest_eq_none (t : Table) (id : String) :
    t.loadLatest id = none ↔ ∀ c, t.load id c = none := by
  unfold loadLatest
  constructor
  · intro h c
    split at h
    · rename_i hm
      have hnil := (maxOf_eq_none _).mp hm
      cases hl : t.load id c with
      | none => rfl
      | some r =>
        have : c ∈ t.stamps id := (mem_stamps t id c).mpr (by simp [hl])
        rw [hnil] at this; exact absurd this (by simp)
    · rename_i c' hc
      obtain ⟨h1, _⟩ := (maxOf_eq_some _ c').mp hc
      have := (mem_stamps t id c').mp h1
      rw [h] at this; exact absurd this (by simp)
  · intro h
    have : t.stamps id = [] := by
      cases hs : t.stamps id with
      | nil => rfl
      | cons a l =>
        have : a ∈ t.stamps id := by rw [hs]; exact List.mem_cons_self
        have := (mem_stamps t id a).mp this
        rw [h a] at this; exact absurd this (by simp)
    rw [this]; rfl

theorem Equiv.refl (t : Table) : Equiv t t := fun _ _ => rfl
theorem Equiv.symm {a b : Table} (h : Equiv a b) : Equiv b a := fun id c => (h id c).symm
theorem Equiv.trans {a b c : Table} (h : Equiv a b) (h' : Equiv b c) : Equiv a c :=
  fun id x => (h id x).trans (h' id x)

theorem Equiv.loadLatest {a b : Table} (h : Equiv a b) (id : String) : a.loadLatest id = b.loadLatest id := by
  unfold Table.loadLatest
  have : maxOf (a.stamps id) = maxOf (b.stamps id) :=
    maxOf_congr fun x => by rw [mem_stamps, mem_stamps, h id x]
  rw [this]
  split
  · rfl
  · exact h id _

theorem Equiv.store {a b : Table} (h : Equiv a b) (id : String) (c : Int) (r : Rec) :
    (a.store id c r).2 = (b.store id c r).2 ∧ Equiv (a.store id c r).1 (b.store id c r).1 := by
  unfold Table.store
  rw [h id c]
  split
  · exact ⟨rfl, h⟩
  · refine ⟨rfl, fun i x => ?_⟩
    rw [load_append, load_append, h i x]

/-- extensionally equal tables answer every operation alike and stay extensionally equal -/
theorem Equiv.step {a b : Table} (h : Equiv a b) (op : Op) :
    (a.step op).2 = (b.step op).2 ∧ Equiv (a.step op).1 (b.step op).1 := by
  cases op with
  | store id c r =>
    obtain ⟨h1, h2⟩ := h.store id c r
    simp only [Table.step]
    exact ⟨by rw [h1], h2⟩
  | load id c => simp only [Table.step]; exact ⟨by rw [h id c], h⟩
  | latest id => simp only [Table.step]; exact ⟨by rw [h.loadLatest id], h⟩

theorem Equiv.stepF {a b : Table} (h : Equiv a b) (op : Op) (f : Bool) :
    (a.stepF op f).2 = (b.stepF op f).2 ∧ Equiv (a.stepF op f).1 (b.stepF op f).1 := by
  unfold Table.stepF
  cases f
  · simpa using h.step op
  · exact ⟨rfl, h⟩

/-- keys of a table built by `store` only are pairwise distinct -/
def Nodup (t : Table) : Prop := (t.map (·.1)).Nodup

theorem load_eq_none_iff (t : Table) (id : String) (c : Int) : t.load id c = none ↔ (id, c) ∉ t.map (·.1) := by
  induction t with
  | nil => simp [load_nil]
  | cons e t ih =>
    obtain ⟨k, r⟩ := e
    simp only [load_cons, List.map_cons, List.mem_cons, not_or]
    by_cases hk : k = (id, c)
    · simp [hk]
    · have : ¬ (id, c) = k := fun h => hk h.symm
      simp [hk, this, ih]

theorem store_nodup {t : Table} (h : t.Nodup) (id : String) (c : Int) (r : Rec) : (t.store id c r).1.Nodup := by
  unfold Table.store
  split
  · exact h
  · rename_i hn
    have hnone : t.load id c = none := by
      cases hl : t.load id c with
      | none => rfl
      | some _ => rw [hl] at hn; exact absurd rfl hn
    have hnot := (load_eq_none_iff t id c).mp hnone
    unfold Nodup at *
    simp only [List.map_append, List.map_cons, List.map_nil]
    rw [List.nodup_append]
    refine ⟨h, by simp, ?_⟩
    intro a ha b hb
    simp only [List.mem_cons, List.not_mem_nil, or_false] at hb
    subst hb
    intro e; subst e; exact hnot ha

/-- in a table with distinct keys every entry is the one `load` finds -/
theorem load_of_mem {t : Table} (h : t.Nodup) {k : Key} {r : Rec} (hm : (k, r) ∈ t) : t.load k.1 k.2 = some r := by
  induction t with
  | nil => exact absurd hm (by simp)
  | cons e t ih =>
    obtain ⟨k', r'⟩ := e
    unfold Nodup at h
    simp only [List.map_cons, List.nodup_cons] at h
    rw [load_cons]
    rcases List.mem_cons.mp hm with heq | hin
    · injection heq with h1 h2
      subst h1; subst h2; simp
    · have hne : k' ≠ k := by
        intro e; subst e
        exact h.1 (List.mem_map.mpr ⟨(k', r), hin, rfl⟩)
      simp only [show (k.1, k.2) = k from rfl, hne, if_false]
      exact ih h.2 hin

end Table

/-! ### insertion sort -/

section Sorting
variable {α : Type} (lt : α → α → Bool) (le : α → α → Prop)

theorem mem_insertSorted (x y : α) (l : List α) : y ∈ insertSorted lt x l ↔ y = x ∨ y ∈ l := by
  induction l with
  | nil => simp [insertSorted]
  | cons a t ih =>
    simp only [insertSorted]
    split
    · simp
    · simp only [List.mem_cons, ih]
      constructor
      · rintro (h | h | h)
        · exact Or.inr (Or.inl h)
        · exact Or.inl h
        · exact Or.inr (Or.inr h)
      · rintro (h | h | h)
        · exact Or.inr (Or.inl h)
        · exact Or.inl h
        · exact Or.inr (Or.inr h)

theorem mem_foldl_insertSorted (l acc : List α) (y : α) :
    y ∈ l.foldl (fun acc x => insertSorted lt x acc) acc ↔ y ∈ acc ∨ y ∈ l := by
  induction l generalizing acc with
  | nil => simp
  | cons a t ih =>
    simp only [List.foldl_cons, ih, mem_insertSorted, List.mem_cons]
    constructor
    · rintro ((h | h) | h)
      · exact Or.inr (Or.inl h)
      · exact Or.inl h
      · exact Or.inr (Or.inr h)
    · rintro (h | h | h)
      · exact Or.inl (Or.inr h)
      · exact Or.inl (Or.inl h)
      · exact Or.inr h

theorem mem_isort (l : List α) (y : α) : y ∈ isort lt l ↔ y ∈ l := by
  unfold isort
  rw [mem_foldl_insertSorted]; simp

/-- `lt` is the strict part of a total preorder `le` -/
structure SortOrder : Prop where
  total : ∀ a b, le a b ∨ le b a
  trans : ∀ a b c, le a b → le b c → le a c
  lt_iff : ∀ a b, lt a b = true ↔ ¬ le b a

variable {lt le}

theorem insertSorted_sorted (ho : SortOrder lt le) (x : α) (l : List α) (hs : l.Pairwise le) :
    (insertSorted lt x l).Pairwise le := by
  induction l with
  | nil => simp [insertSorted]
  | cons a t ih =>
    simp only [insertSorted]
    have ⟨ha, ht⟩ := List.pairwise_cons.mp hs
    split
    · rename_i hlt
      have hxa : le x a := by
        rcases ho.total x a with h | h
        · exact h
        · exact absurd h ((ho.lt_iff x a).mp hlt)
      refine List.pairwise_cons.mpr ⟨?_, hs⟩
      intro z hz
      rcases List.mem_cons.mp hz with h | h
      · subst h; exact hxa
      · exact ho.trans _ _ _ hxa (ha z h)
    · rename_i hlt
      have hax : le a x := by
        cases hd : lt x a with
        | true => exact absurd hd hlt
        | false =>
          have : ¬ ¬ le a x := fun hn => by
            have := (ho.lt_iff x a).mpr hn
            rw [hd] at this; exact absurd this (by simp)
          exact Classical.not_not.mp this
      refine List.pairwise_cons.mpr ⟨?_, ih ht⟩
      intro z hz
      rcases (mem_insertSorted lt x z t).mp hz with h | h
      · subst h; exact hax
      · exact ha z h

theorem foldl_insertSorted_sorted (ho : SortOrder lt le) (l acc : List α) (hs : acc.Pairwise le) :
    (l.foldl (fun acc x => insertSorted lt x acc) acc).Pairwise le := by
  induction l generalizing acc with
  | nil => exact hs
  | cons a t ih => exact ih _ (insertSorted_sorted ho a acc hs)

theorem isort_sorted (ho : SortOrder lt le) (l : List α) : (isort lt l).Pairwise le :=
  foldl_insertSorted_sorted ho l [] List.Pairwise.nil

/-- the head of a sorted list is `le` everything in it -/
theorem head_le_of_sorted {l : List α} {h : α} {t : List α} (hs : l.Pairwise le) (hl : l = h :: t) :
    ∀ z ∈ t, le h z := by
  subst hl; exact (List.pairwise_cons.mp hs).1

/-- everything in a sorted list is `le` its last element (or is it) -/
theorem le_getLast_of_sorted {l : List α} (hs : l.Pairwise le) {m : α} (hm : l.getLast? = some m) :
    ∀ z ∈ l, z = m ∨ le z m := by
  induction l with
  | nil => simp at hm
  | cons a t ih =>
    have ⟨ha, ht⟩ := List.pairwise_cons.mp hs
    cases t with
    | nil =>
      simp only [List.getLast?_singleton, Option.some.injEq] at hm
      subst hm; intro z hz; left; simpa using hz
    | cons b t' =>
      have hm' : (b :: t').getLast? = some m := by simpa [List.getLast?_cons_cons] using hm
      intro z hz
      rcases List.mem_cons.mp hz with h | h
      · subst h
        right
        have : m ∈ b :: t' := List.mem_of_getLast? hm'
        exact ha m this
      · exact ih ht hm' z h

end Sorting

theorem intAsc : SortOrder (fun (a b : Int) => decide (a < b)) (fun a b => a ≤ b) :=
  ⟨fun a b => by omega, fun a b c h1 h2 => by omega, fun a b => by simp⟩

/-- memory.go: ascending sort, last element = greatest key -/
theorem getLast_isort_eq_maxOf (l : List Int) :
    (isort (fun a b => decide (a < b)) l).getLast? = Table.maxOf l := by
  cases hm : (isort (fun (a b : Int) => decide (a < b)) l).getLast? with
  | none =>
    have hnil : isort (fun (a b : Int) => decide (a < b)) l = [] := List.getLast?_eq_none_iff.mp hm
    have : l = [] := by
      cases l with
      | nil => rfl
      | cons a t =>
        have : a ∈ isort (fun (a b : Int) => decide (a < b)) (a :: t) := (mem_isort _ _ a).mpr List.mem_cons_self
        rw [hnil] at this; exact absurd this (by simp)
    subst this; rfl
  | some m =>
    have hs := isort_sorted intAsc l
    have hmem : m ∈ l := (mem_isort _ l m).mp (List.mem_of_getLast? hm)
    have hall : ∀ x ∈ l, x ≤ m := by
      intro x hx
      rcases le_getLast_of_sorted hs hm x ((mem_isort _ l x).mpr hx) with h | h
      · omega
      · exact h
    exact ((Table.maxOf_eq_some l m).mpr ⟨hmem, hall⟩).symm

end AsherahVerif.Metastore
