import AsherahVerif.Proofs.EnvTimeOps
/-
Glue between the invariant machinery and the property statements of C04 / C05 / C20.
-/
set_option linter.unusedVariables false
namespace AsherahVerif.Env

theorem Inv.run {ρ : RevCtx} {w : World} (h : Inv ρ w) (ops : List Op) (hok : histOk w ops = true) :
    Inv ρ (runOps w ops).2 := by
  induction ops generalizing w with
  | nil => exact h
  | cons op rest ih =>
    simp only [histOk, Bool.and_eq_true] at hok
    exact ih (h.step op hok.1) hok.2

/-- the outcome of a fault-free `encrypt` from a world satisfying the invariant: the record names an
intermediate key of the session's partition with stamp `c`, and either the key was a valid, fresh hit
on the session's cache, or it came out of `loadLatestOrCreateIntermediateKey` (`LPik`). -/
theorem encrypt_outcome {ρ : RevCtx} {w w' : World} (hi : Inv ρ w) {s pay : Nat} {d : Drr}
    (ha : allowed w (.encrypt s pay []) = true) (h : applyOp w (.encrypt s pay []) = (.record d, w')) :
    Inv ρ w' ∧ w'.now = w.now ∧ Delta ρ (sessionCtx w s) w.now w.store w'.store ∧
      ∃ c, drrIk d = some ⟨(sessionCtx w s).ikId, c⟩ ∧
        EncOut ρ (sessionCtx w s) w.now w.store (beginOp [] w).2 w' c ∧
        ∃ k, (keyAt w' k).created = c ∧ ReadsBack w w' (sessionCtx w s).ikCache (sessionCtx w s).ikId k := by
  simp only [allowed, List.isEmpty_nil, Bool.true_and, decide_eq_true_eq] at ha
  have hw := encrypt_wp hi s pay true ha
  unfold Wp at hw
  rw [applyOp_encrypt_record h] at hw
  exact ⟨hw.1, hw.2.1, hw.2.2.2.1, hw.2.2.2.2 d rfl⟩

/-- the world after `pre ++ [revoke m] ++ post` satisfies the invariant with the revocation of `m`
recorded at the time the clock showed after `pre`. -/
theorem inv_after_revoke {t : Int} {pre post : List Op} {m : KeyMeta}
    (hok : histOk (World.init t) (pre ++ [.revoke m] ++ post) = true)
    (hex : (findRow (runOps (World.init t) pre).2.store m).isSome = true) :
    Inv (some ((runOps (World.init t) pre).2.now, m)) (runOps (World.init t) (pre ++ [.revoke m] ++ post)).2 := by
  rw [histOk_append, histOk_append] at hok
  simp only [Bool.and_eq_true] at hok
  obtain ⟨⟨hpre, hrev⟩, hpost⟩ := hok
  have hr : Reach (runOps (World.init t) pre).2 := ⟨t, pre, hpre, rfl⟩
  have h1 := inv_revoke_new hr.inv m hex
  rw [runOps_append, runOps_append]
  have e : (runOps (runOps (World.init t) pre).2 [Op.revoke m]).2 = (revoke m (runOps (World.init t) pre).2).2 := by
    simp only [runOps]
    rw [applyOp_world]
  rw [runOps_append] at hpost
  rw [e] at hpost ⊢
  exact h1.run post hpost

/-- the session's cache entry for "latest" was trusted: not flagged revoked, hence loaded at most one
interval ago. -/
theorem hit_fresh {w : World} {c : Nat} {m : KeyMeta} {i ea t : Int} {k : Nat} (hh : Hit w c m i k)
    (hv : isKeyInvalid (keyAt w k) t ea = false) :
    ∃ e, readEntry w c m = some e ∧ e.obj = k ∧ w.now ≤ e.loadedAt + i := by
  obtain ⟨e, he, ho, hfr⟩ := hh
  refine ⟨e, he, ho, ?_⟩
  unfold isKeyInvalid at hv
  unfold isReloadRequired at hfr
  have hrev : (keyAt w k).revoked = false := by
    cases hx : (keyAt w k).revoked
    · rfl
    · rw [hx] at hv; simp at hv
  rw [hrev] at hfr
  simp only [Bool.false_eq_true, if_false, decide_eq_false_iff_not] at hfr
  omega

end AsherahVerif.Env
