import AsherahVerif.Proofs.EnvTimeWF
/-
Timed calculus under faults (C04 with faults), part 1: fault-token bookkeeping.

Every primitive that leaves the SDK core (metastore, KMS, AEAD, secret allocator) consumes exactly one
token of `World.faults` and appends exactly one entry to `World.log`; a public operation installs its
fault list `fl` and resets the log.  Hence the `i`-th logged call of an operation consumed the token
`tok fl i`, and "no fault hits a metastore `store`" is a decidable property of the fault list and the
operation's call log (`sff`).

* `J fl w`   : the remaining schedule is `fl` minus one token per logged call;
* `Bad fl w` : some logged `store` call consumed a token other than `.ok`  (`¬ sff fl w.log`);
* `GenF R`   : footprints, generically, for step relations that the nine token-consuming primitives
               respect as a whole (`TK fl`: `J fl` is preserved).
-/
set_option linter.unusedVariables false
namespace AsherahVerif.Env.TimeF
open AsherahVerif.Env

/-! ### tokens -/

/-- the token the `i`-th primitive call of an operation with fault list `fl` consumes. -/
def tok (fl : List Fault) (i : Nat) : Fault := fl.getD i .ok

def isStore : Call → Bool
  | .store _ _ => true
  | _ => false

/-- **store-fault-free**: every fault token consumed by a `store` primitive is `.ok`
(`log` = the calls of the operation in order; the `i`-th call consumed the `i`-th token). -/
def sff : List Fault → List Call → Bool
  | _, [] => true
  | fl, c :: rest => (!isStore c || decide (fl.headD .ok = .ok)) && sff fl.tail rest

/-- some logged `store` consumed a token other than `.ok`. -/
def Bad (fl : List Fault) (w : World) : Prop := ∃ i c, w.log[i]? = some c ∧ isStore c = true ∧ tok fl i ≠ .ok

theorem tok_tail (fl : List Fault) (i : Nat) : tok fl.tail i = tok fl (i + 1) := by
  unfold tok
  cases fl with
  | nil => simp
  | cons a rest => simp

theorem tok_zero (fl : List Fault) : tok fl 0 = fl.headD .ok := by
  unfold tok; cases fl <;> rfl

theorem sff_false_iff (fl : List Fault) (log : List Call) :
    sff fl log = false ↔ ∃ i c, log[i]? = some c ∧ isStore c = true ∧ tok fl i ≠ .ok := by
  induction log generalizing fl with
  | nil => simp [sff]
  | cons c rest ih =>
    simp only [sff, Bool.and_eq_false_iff, Bool.or_eq_false_iff, Bool.not_eq_false', decide_eq_false_iff_not]
    constructor
    · rintro (⟨h1, h2⟩ | h)
      · exact ⟨0, c, rfl, h1, by rw [tok_zero]; exact h2⟩
      · obtain ⟨i, c', h1, h2, h3⟩ := (ih fl.tail).mp h
        exact ⟨i + 1, c', by simpa using h1, h2, by rw [← tok_tail]; exact h3⟩
    · rintro ⟨i, c', h1, h2, h3⟩
      cases i with
      | zero =>
        simp only [List.getElem?_cons_zero, Option.some.injEq] at h1
        subst h1
        exact Or.inl ⟨h2, by rw [← tok_zero]; exact h3⟩
      | succ j =>
        refine Or.inr ((ih fl.tail).mpr ⟨j, c', by simpa using h1, h2, by rw [tok_tail]; exact h3⟩)

theorem not_bad_of_sff {fl : List Fault} {w : World} (h : sff fl w.log = true) : ¬ Bad fl w := by
  intro hb
  have := (sff_false_iff fl w.log).mpr hb
  rw [h] at this; cases this

theorem sff_nil (log : List Call) : sff [] log = true := by
  induction log with
  | nil => rfl
  | cons c rest ih => simp [sff, ih]

theorem Bad.lg {fl : List Fault} {w w' : World} (h : Bad fl w) (hl : LG w w') : Bad fl w' := by
  obtain ⟨i, c, h1, h2, h3⟩ := h
  obtain ⟨l, e⟩ := hl
  refine ⟨i, c, ?_, h2, h3⟩
  rw [e]
  have hi : i < w.log.length := by
    apply Classical.byContradiction; intro hc
    rw [List.getElem?_eq_none (by omega)] at h1; cases h1
  rw [List.getElem?_append_left hi]; exact h1

/-- the remaining schedule is the operation's fault list minus one token per logged call. -/
def J (fl : List Fault) (w : World) : Prop := w.faults = fl.drop w.log.length

theorem J.beginOp (fl : List Fault) (w : World) : J fl (beginOp fl w).2 := by
  show fl = fl.drop 0; rfl

theorem drop_head_tail (fl : List Fault) (n : Nat) :
    (fl.drop n).headD .ok = tok fl n ∧ (fl.drop n).tail = fl.drop (n + 1) := by
  induction fl generalizing n with
  | nil => simp [tok]
  | cons a rest ih =>
    cases n with
    | zero => simp [tok]
    | succ k =>
      have := ih k
      simp only [List.drop_succ_cons]
      exact ⟨this.1.trans (by simp [tok]), this.2⟩

/-- `takeFault` under `J`: the token of the current position; the schedule advances. -/
theorem takeFault_run {fl : List Fault} {w : World} (h : J fl w) :
    takeFault w = (.ok (tok fl w.log.length), { w with faults := fl.drop (w.log.length + 1) }) := by
  unfold takeFault
  obtain ⟨h1, h2⟩ := drop_head_tail fl w.log.length
  unfold J at h
  rw [← h] at h1 h2
  split
  · rename_i hf
    rw [hf] at h1 h2
    simp only [List.headD_nil, List.tail_nil] at h1 h2
    rw [← h1, ← h2, ← hf]
  · rename_i f rest hf
    rw [hf] at h1 h2
    simp only [List.headD_cons, List.tail_cons] at h1 h2
    rw [← h1, ← h2]

/-- after the token was taken, one logged call restores `J`. -/
theorem J.logged {fl : List Fault} {w w' : World} {c : Call} (hf : w'.faults = fl.drop (w.log.length + 1))
    (hl : w'.log = w.log ++ [c]) : J fl w' := by
  unfold J; rw [hf, hl]; simp

/-! ### step relations -/

/-- `J fl` is preserved. -/
def TK (fl : List Fault) (w w' : World) : Prop := J fl w → J fl w'

instance (fl : List Fault) : RT (TK fl) where
  refl w := id
  trans h1 h2 := fun h => h2 (h1 h)

/-- neither the schedule nor the log changed. -/
def SameFL (w w' : World) : Prop := w'.faults = w.faults ∧ w'.log = w.log

theorem TK.of_same {fl : List Fault} {w w' : World} (h1 : w'.log = w.log) (h2 : w'.faults = w.faults) : TK fl w w' := by
  intro h; unfold J at *; rw [h1, h2]; exact h

/-! ### footprints, generically, for relations respected by each token-consuming primitive as a whole -/

class GenF (R : World → World → Prop) : Prop extends RT R where
  same : ∀ w w' : World, w'.log = w.log → w'.faults = w.faults → R w w'
  msLoad : ∀ m, Resp R (Env.msLoad m)
  msLoadLatest : ∀ k, Resp R (Env.msLoadLatest k)
  msStore : ∀ r, Resp R (Env.msStore r)
  secretNew : ∀ b m, Resp R (Env.secretNew b m)
  secretRandom : Resp R Env.secretRandom
  kmsEncrypt : ∀ m, Resp R (Env.kmsEncrypt m)
  kmsDecrypt : ∀ c, Resp R (Env.kmsDecrypt c)
  aeadEncrypt : ∀ pt k, Resp R (Env.aeadEncrypt pt k)
  aeadDecrypt : ∀ c k, Resp R (Env.aeadDecrypt c k)

section
variable {R : World → World → Prop} [GenF R]

theorem f_modify (f : World → World) (h1 : ∀ w, (f w).log = w.log) (h2 : ∀ w, (f w).faults = w.faults) :
    Resp R (modify f) := fun w => GenF.same _ _ (h1 w) (h2 w)

theorem f_newBuf (m : Nat) : Resp R (newBuf m) := fun w => GenF.same _ _ rfl rfl
theorem f_wipeBuf (b : Nat) : Resp R (wipeBuf b) := fun w => GenF.same _ _ rfl rfl
theorem f_secretClose (s : Nat) : Resp R (secretClose s) := fun w => GenF.same _ _ rfl rfl
theorem f_newKeyObj (c : Int) (r : Bool) (m s : Nat) : Resp R (newKeyObj c r m s) := fun w => GenF.same _ _ rfl rfl
theorem f_keyIncr (o : Nat) : Resp R (keyIncr o) := fun w => GenF.same _ _ rfl rfl
theorem f_keyWrap (o : Nat) : Resp R (keyWrap o) := fun w => GenF.same _ _ rfl rfl
theorem f_setCache (c : Nat) (kc : KeyCache) : Resp R (setCache c kc) := fun w => GenF.same _ _ rfl rfl

theorem f_keyCloseRaw (o : Nat) : Resp R (keyCloseRaw o) := by
  unfold keyCloseRaw
  resp_auto [f_secretClose]
  exact f_modify _ (fun _ => rfl) (fun _ => rfl)

theorem f_keyRelease (o : Nat) : Resp R (keyRelease o) := by
  unfold keyRelease
  apply Resp.bind
  · exact f_modify _ (fun _ => rfl) (fun _ => rfl)
  · resp_auto [f_keyCloseRaw]

theorem f_releaseAll (l : List Nat) : Resp R (releaseAll l) := by
  induction l with
  | nil => exact Resp.pure _
  | cons v rest ih => unfold releaseAll; resp_auto [f_keyRelease]

theorem f_withKey {α : Type} (o : Nat) (f : Nat → M α) (hf : ∀ m, Resp R (f m)) : Resp R (withKey o f) := by
  unfold withKey
  resp_auto
  · exact f_modify _ (fun _ => rfl) (fun _ => rfl)
  · exact hf _

theorem f_mustLoadLatest (k : KeyId) : Resp R (mustLoadLatest k) := by
  unfold mustLoadLatest; resp_auto [GenF.msLoadLatest]

theorem f_cacheGet (c : Nat) (m : KeyMeta) : Resp R (cacheGet c m) := by
  unfold cacheGet; resp_auto [f_setCache]
theorem f_cacheSet (c : Nat) (m : KeyMeta) (e : CEntry) : Resp R (cacheSet c m e) := by
  unfold cacheSet; resp_auto [f_setCache, f_releaseAll]
theorem f_cacheRead (c : Nat) (m : KeyMeta) : Resp R (cacheRead c m) := by
  unfold cacheRead; resp_auto [f_cacheGet]
theorem f_getFresh (c : Nat) (m : KeyMeta) (i : Int) : Resp R (getFresh c m i) := by
  unfold getFresh; resp_auto [f_cacheRead]
theorem f_cacheWrite (c : Nat) (m : KeyMeta) (e : CEntry) : Resp R (cacheWrite c m e) := by
  unfold cacheWrite; resp_auto [f_cacheGet, f_cacheSet, f_keyRelease, f_setCache]

theorem f_cacheLoad (c : Nat) (m : KeyMeta) (loader : KeyMeta → M Nat) (hl : ∀ m, Resp R (loader m)) :
    Resp R (cacheLoad c m loader) := by
  unfold cacheLoad
  resp_auto [f_cacheRead, f_cacheWrite, f_keyCloseRaw, f_keyWrap, hl]
  exact f_modify _ (fun _ => rfl) (fun _ => rfl)

theorem f_getOrLoad (c : Nat) (m : KeyMeta) (i : Int) (loader : KeyMeta → M Nat) (hl : ∀ m, Resp R (loader m)) :
    Resp R (getOrLoad c m i loader) := by
  unfold getOrLoad
  resp_auto [f_getFresh, f_cacheLoad, f_keyIncr, f_keyWrap, hl]

theorem f_getOrLoadLatest (c : Nat) (k : KeyId) (i e : Int) (loader : KeyMeta → M Nat)
    (hl : ∀ m, Resp R (loader m)) : Resp R (getOrLoadLatest c k i e loader) := by
  unfold getOrLoadLatest
  resp_auto [f_getFresh, f_cacheLoad, f_cacheWrite, f_keyIncr, f_keyWrap, hl]

theorem f_generateKey (x : Ctx) : Resp R (generateKey x) := by
  unfold generateKey; resp_auto [GenF.secretRandom, f_newKeyObj]
theorem f_systemKeyFromEKR (r : Row) : Resp R (systemKeyFromEKR r) := by
  unfold systemKeyFromEKR; resp_auto [GenF.kmsDecrypt, GenF.secretNew, f_newKeyObj]
theorem f_loadSystemKey (m : KeyMeta) : Resp R (loadSystemKey m) := by
  unfold loadSystemKey; resp_auto [GenF.msLoad, f_systemKeyFromEKR]
theorem f_getOrLoadSystemKey (x : Ctx) (m : KeyMeta) : Resp R (getOrLoadSystemKey x m) := by
  unfold getOrLoadSystemKey; exact f_getOrLoad _ _ _ _ f_loadSystemKey
theorem f_tryStoreSystemKey (sk : Nat) : Resp R (tryStoreSystemKey sk) := by
  unfold tryStoreSystemKey
  resp_auto [GenF.msStore]
  exact f_withKey _ _ fun m => GenF.kmsEncrypt m
theorem f_createSK (x : Ctx) : Resp R (loadLatestOrCreateSystemKey.createSK x) := by
  unfold loadLatestOrCreateSystemKey.createSK
  resp_auto [f_generateKey, f_tryStoreSystemKey, f_keyCloseRaw, f_mustLoadLatest, f_systemKeyFromEKR]
theorem f_loadLatestOrCreateSystemKey (x : Ctx) : Resp R (loadLatestOrCreateSystemKey x) := by
  unfold loadLatestOrCreateSystemKey
  resp_auto [GenF.msLoadLatest, f_systemKeyFromEKR, f_createSK]

theorem f_withKey_aeadDecrypt (o : Nat) (c : Ct) : Resp R (withKey o fun skm => aeadDecrypt c skm) :=
  f_withKey _ _ fun m => GenF.aeadDecrypt _ _

theorem f_intermediateKeyFromEKR (x : Ctx) (sk : Nat) (r : Row) (b : Bool) :
    Resp R (intermediateKeyFromEKR x sk r b) := by
  unfold intermediateKeyFromEKR
  resp_auto [f_getOrLoadSystemKey, f_keyRelease, f_withKey_aeadDecrypt, GenF.secretNew, f_newBuf, f_newKeyObj]

theorem f_tryStoreIntermediateKey (x : Ctx) (ik sk : Nat) : Resp R (tryStoreIntermediateKey x ik sk) := by
  unfold tryStoreIntermediateKey
  resp_auto [GenF.msStore]
  exact f_withKey _ _ fun ikm => f_withKey _ _ fun skm => GenF.aeadEncrypt _ _

theorem f_createIntermediateKey (x : Ctx) (b : Bool) : Resp R (createIntermediateKey x b) := by
  unfold createIntermediateKey
  resp_auto [f_generateKey, f_tryStoreIntermediateKey, f_keyCloseRaw, f_mustLoadLatest,
    f_intermediateKeyFromEKR, f_keyRelease]
  exact f_getOrLoadLatest _ _ _ _ _ fun _ => f_loadLatestOrCreateSystemKey x

theorem f_getValidIntermediateKey (x : Ctx) (sk : Nat) (r : Row) (b : Bool) :
    Resp R (getValidIntermediateKey x sk r b) := by
  unfold getValidIntermediateKey; resp_auto [f_intermediateKeyFromEKR]

theorem f_loadLatestOrCreateIntermediateKey (x : Ctx) (b : Bool) :
    Resp R (loadLatestOrCreateIntermediateKey x b) := by
  unfold loadLatestOrCreateIntermediateKey
  resp_auto [GenF.msLoadLatest, f_createIntermediateKey, f_getOrLoadSystemKey, f_getValidIntermediateKey, f_keyRelease]

theorem f_loadIntermediateKey (x : Ctx) (m : KeyMeta) (b : Bool) : Resp R (loadIntermediateKey x m b) := by
  unfold loadIntermediateKey
  resp_auto [GenF.msLoad, f_getOrLoadSystemKey, f_intermediateKeyFromEKR, f_keyRelease]

end

/-! ### the primitives under `J` -/

theorem prim_tk {fl : List Fault} {α : Type} (p : M α) (body : Fault → M α)
    (hp : p = (takeFault >>= body))
    (hb : ∀ f w, ∃ c, (body f w).2.log = w.log ++ [c] ∧ (body f w).2.faults = w.faults) : Resp (TK fl) p := by
  intro w hj
  subst hp
  simp only [bind_run, takeFault_run hj]
  obtain ⟨c, h1, h2⟩ := hb (tok fl w.log.length) { w with faults := fl.drop (w.log.length + 1) }
  exact J.logged (h2.trans rfl) (h1.trans rfl)

end AsherahVerif.Env.TimeF
