import AsherahVerif.Proofs.EnvCohSpec
import AsherahVerif.Proofs.EnvCohAuth
/-
Specifications (`CSpec`, see EnvCohSpec) of the primitives of the envelope model: metastore, KMS,
AEAD, secret factory, key objects, cache slots.
-/
set_option linter.unusedVariables false
namespace AsherahVerif.Env

theorem takeFault_eq (w : World) :
    takeFault w = (.ok (w.faults.headD .ok), { w with faults := w.faults.tail }) := by
  unfold takeFault
  cases w with
  | mk now store mats nonces secrets bufs keys caches facs sessions faults log =>
    cases faults <;> rfl

theorem headD_nil {w : World} (h : w.faults = []) : w.faults.headD Fault.ok = .ok := by rw [h]; rfl

theorem KeyIs.getD {w : World} {o : Nat} {c : Int} {m : Nat} (hk : KeyIs w o c m) :
    (w.keys.getD o default).created = c ∧ (w.keys.getD o default).mat = m := by
  obtain ⟨ko, h1, h2, h3⟩ := hk
  simp only [List.getD_eq_getElem?_getD, h1, Option.getD_some]
  exact ⟨h2, h3⟩

theorem GoodKeyAt.keyIs {w : World} {m : KeyMeta} {o : Nat} (h : GoodKeyAt w m o) :
    ∃ mat, KeyIs w o m.created mat ∧ Wraps w.store m mat := by
  obtain ⟨k, h1, h2, h3⟩ := h; exact ⟨k.mat, ⟨k, h1, h2, rfl⟩, h3⟩

theorem GoodKeyAt.of_keyIs {w : World} {m : KeyMeta} {o : Nat} {mat : Nat} (h : KeyIs w o m.created mat)
    (hw : Wraps w.store m mat) : GoodKeyAt w m o := by
  obtain ⟨k, h1, h2, h3⟩ := h; exact ⟨k, h1, h2, h3 ▸ hw⟩

theorem KeyIs.unique {w : World} {o : Nat} {c c' : Int} {m m' : Nat} (h : KeyIs w o c m) (h' : KeyIs w o c' m') :
    c = c' ∧ m = m' := by
  obtain ⟨k, h1, h2, h3⟩ := h
  obtain ⟨k', h1', h2', h3'⟩ := h'
  rw [h1] at h1'; cases h1'
  exact ⟨h2.symm.trans h2', h3.symm.trans h3'⟩

/-! ### metastore reads -/

theorem msLoad_run (m : KeyMeta) (w : World) :
    msLoad m w = if w.faults.headD .ok ≠ .ok
      then (.error .metastore, { w with faults := w.faults.tail, log := w.log ++ [.load m false true] })
      else (.ok (findRow w.store m), { w with faults := w.faults.tail, log := w.log ++ [.load m (findRow w.store m).isSome false] }) := by
  simp only [msLoad, bind_run, takeFault_eq, get_run]
  split <;> simp [logCall_run]

theorem msLoad_spec {a : Nat} {F : Prop} {P : World → Prop} (m : KeyMeta) :
    CSpec a F P (msLoad m) (fun ro w => ro = findRow w.store m) := by
  refine CSpec.of_still (msLoad_ext m) (msLoad_still m) fun w _ _ hnf _ => Or.inr ?_
  rw [msLoad_run]
  split
  · rename_i h
    exact ⟨fun v hv => (by cases hv), fun hF => absurd (headD_nil (hnf hF)) h⟩
  · exact ⟨fun v hv => (by cases hv; rfl), fun _ => ⟨_, rfl⟩⟩

theorem msLoadLatest_run (k : KeyId) (w : World) :
    msLoadLatest k w = if w.faults.headD .ok ≠ .ok
      then (.error .metastore, { w with faults := w.faults.tail, log := w.log ++ [.loadLatest k none true] })
      else (.ok (latestRow w.store k), { w with faults := w.faults.tail, log := w.log ++ [.loadLatest k ((latestRow w.store k).map (·.created)) false] }) := by
  simp only [msLoadLatest, bind_run, takeFault_eq, get_run]
  split <;> simp [logCall_run]

theorem msLoadLatest_spec {a : Nat} {F : Prop} {P : World → Prop} (k : KeyId) :
    CSpec a F P (msLoadLatest k) (fun ro w => ro = latestRow w.store k) := by
  refine CSpec.of_still (msLoadLatest_ext k) (msLoadLatest_still k) fun w _ _ hnf _ => Or.inr ?_
  rw [msLoadLatest_run]
  split
  · rename_i h
    exact ⟨fun v hv => (by cases hv), fun hF => absurd (headD_nil (hnf hF)) h⟩
  · exact ⟨fun v hv => (by cases hv; rfl), fun _ => ⟨_, rfl⟩⟩

/-! ### KMS / AEAD -/

theorem kmsEncrypt_run (m : Nat) (w : World) :
    kmsEncrypt m w = if w.faults.headD .ok ≠ .ok
      then (.error .kms, { w with faults := w.faults.tail, log := w.log ++ [.kmsEnc true] })
      else (.ok (.kms m), { w with faults := w.faults.tail, log := w.log ++ [.kmsEnc false] }) := by
  simp only [kmsEncrypt, bind_run, takeFault_eq]
  split <;> simp [logCall_run]

theorem kmsEncrypt_spec {a : Nat} {F : Prop} {P : World → Prop} (m : Nat) :
    CSpec a F P (kmsEncrypt m) (fun c _ => c = .kms m) := by
  refine CSpec.of_still (kmsEncrypt_ext m) (kmsEncrypt_still m) fun w _ _ hnf _ => Or.inr ?_
  rw [kmsEncrypt_run]
  split
  · rename_i h
    exact ⟨fun v hv => (by cases hv), fun hF => absurd (headD_nil (hnf hF)) h⟩
  · exact ⟨fun v hv => (by cases hv; rfl), fun _ => ⟨_, rfl⟩⟩

theorem kmsDecrypt_ok {c : Ct} {w : World} {bm : Nat × Nat} (h : (kmsDecrypt c w).1 = .ok bm) : c = .kms bm.2 := by
  unfold kmsDecrypt at h
  obtain ⟨f, w1, _, h⟩ := bind_ok h
  split at h
  · obtain ⟨_, _, _, h⟩ := bind_ok h; cases h
  · split at h
    · obtain ⟨_, _, _, h⟩ := bind_ok h
      obtain ⟨_, _, _, h⟩ := bind_ok h
      cases h; rfl
    · obtain ⟨_, _, _, h⟩ := bind_ok h; cases h

theorem kmsDecrypt_nf {m : Nat} {w : World} (h : w.faults = []) : ∃ b, (kmsDecrypt (.kms m) w).1 = .ok (b, m) := by
  simp only [kmsDecrypt, bind_run, takeFault_eq, headD_nil h]
  simp [logCall_run, newBuf]

theorem kmsDecrypt_cspec {a : Nat} {F : Prop} (c : Ct) :
    CSpec a F (fun _ => F → ∃ m, c = .kms m) (kmsDecrypt c) (fun bm _ => c = .kms bm.2) := by
  refine CSpec.of_still (kmsDecrypt_ext c) (kmsDecrypt_still c) fun w _ _ hnf hp => Or.inr ?_
  refine ⟨fun v hv => kmsDecrypt_ok hv, fun hF => ?_⟩
  obtain ⟨m, hm⟩ := hp hF
  subst hm
  obtain ⟨b, hb⟩ := kmsDecrypt_nf (m := m) (hnf hF)
  exact ⟨_, hb⟩

theorem aeadEncrypt_run (pt : Pt) (k : Nat) (w : World) :
    aeadEncrypt pt k w = if w.faults.headD .ok ≠ .ok
      then (.error .aead, { w with faults := w.faults.tail, log := w.log ++ [.aeadEnc k pt true] })
      else (.ok (.enc k w.nonces pt), { w with faults := w.faults.tail, log := w.log ++ [.aeadEnc k pt false], nonces := w.nonces + 1 }) := by
  simp only [aeadEncrypt, bind_run, takeFault_eq]
  split <;> rfl

theorem aeadEncrypt_spec {a : Nat} {F : Prop} {P : World → Prop} (pt : Pt) (k : Nat) :
    CSpec a F P (aeadEncrypt pt k) (fun c _ => ∃ n, c = .enc k n pt) := by
  refine CSpec.of_still (aeadEncrypt_ext pt k) (aeadEncrypt_still pt k) fun w _ _ hnf _ => Or.inr ?_
  rw [aeadEncrypt_run]
  split
  · rename_i h
    exact ⟨fun v hv => (by cases hv), fun hF => absurd (headD_nil (hnf hF)) h⟩
  · exact ⟨fun v hv => (by cases hv; exact ⟨_, rfl⟩), fun _ => ⟨_, rfl⟩⟩

theorem aeadDecrypt_nf {k n : Nat} {pt : Pt} {w : World} (h : w.faults = []) :
    (aeadDecrypt (.enc k n pt) k w).1 = .ok pt := by
  simp only [aeadDecrypt, bind_run, takeFault_eq, headD_nil h]
  simp [logCall_run]

theorem aeadDecrypt_spec {a : Nat} {F : Prop} (c : Ct) (k : Nat) :
    CSpec a F (fun _ => F → ∃ n pt, c = .enc k n pt) (aeadDecrypt c k) (fun pt _ => ∃ n, c = .enc k n pt) := by
  refine CSpec.of_still (aeadDecrypt_ext c k) (aeadDecrypt_still c k) fun w _ _ hnf hp => Or.inr ?_
  refine ⟨fun v hv => aeadDecrypt_ok hv, fun hF => ?_⟩
  obtain ⟨n, pt, hc⟩ := hp hF
  subst hc
  exact ⟨pt, aeadDecrypt_nf (hnf hF)⟩

/-! ### secret factory, heap -/

theorem secretNew_nf {b m : Nat} {w : World} (h : w.faults = []) : ∃ s, (secretNew b m w).1 = .ok s := by
  simp only [secretNew, bind_run, takeFault_eq, headD_nil h, wipeBuf, modify_run]
  exact ⟨_, rfl⟩

theorem secretNew_cspec {a : Nat} {F : Prop} {P : World → Prop} (b m : Nat) :
    CSpec a F P (secretNew b m) (fun _ _ => True) :=
  CSpec.of_still (secretNew_ext b m) (secretNew_still b m) fun w _ _ hnf _ =>
    Or.inr ⟨fun _ _ => trivial, fun hF => secretNew_nf (hnf hF)⟩

theorem secretRandom_nf {w : World} (h : w.faults = []) : ∃ s, (secretRandom w).1 = .ok s := by
  simp only [secretRandom, bind_run, takeFault_eq, headD_nil h]
  exact ⟨_, rfl⟩

theorem secretRandom_cspec {a : Nat} {F : Prop} {P : World → Prop} :
    CSpec a F P secretRandom (fun _ _ => True) :=
  CSpec.of_still secretRandom_ext secretRandom_still fun w _ _ hnf _ =>
    Or.inr ⟨fun _ _ => trivial, fun hF => secretRandom_nf (hnf hF)⟩

theorem newKeyObj_cspec {a : Nat} {F : Prop} {P : World → Prop} (c : Int) (r : Bool) (m s : Nat) :
    CSpec a F P (newKeyObj c r m s) (fun k w => KeyIs w k c m) := by
  refine CSpec.of_still (newKeyObj_ext c r m s) (newKeyObj_still c r m s) fun w _ _ _ _ => Or.inr ?_
  refine ⟨fun v hv => ?_, fun _ => ⟨_, rfl⟩⟩
  simp only [newKeyObj] at hv ⊢
  cases hv
  exact ⟨{ created := c, revoked := r, mat := m, sec := s }, by simp, rfl, rfl⟩

theorem newBuf_cspec {a : Nat} {F : Prop} {P : World → Prop} (m : Nat) :
    CSpec a F P (newBuf m) (fun _ _ => True) :=
  CSpec.of_still_ok (newBuf_ext m) (newBuf_still m) fun w => ⟨_, rfl⟩

theorem wipeBuf_spec {a : Nat} {F : Prop} {P : World → Prop} (b : Nat) :
    CSpec a F P (wipeBuf b) (fun _ _ => True) :=
  CSpec.of_still_ok (wipeBuf_ext b) (wipeBuf_still b) fun w => ⟨_, rfl⟩

/-- `keyObj` when the object is known. -/
theorem keyObj_spec {a : Nat} {F : Prop} {P : World → Prop} (o : Nat) (c : Int) (m : Nat)
    (h : ∀ w, Inv w → P w → KeyIs w o c m) :
    CSpec a F P (keyObj o) (fun ko _ => ko.created = c ∧ ko.mat = m) :=
  CSpec.of_still (keyObj_ext o) (keyObj_still o) fun w _ hi _ hp =>
    Or.inr ⟨fun v hv => (by cases hv; exact (h w hi hp).getD), fun _ => ⟨_, rfl⟩⟩

/-- `keyObj` when nothing is needed about the result. -/
theorem keyObj_spec' {a : Nat} {F : Prop} {P : World → Prop} (o : Nat) :
    CSpec a F P (keyObj o) (fun _ _ => True) :=
  CSpec.of_still_ok (keyObj_ext o) (keyObj_still o) fun w => ⟨_, rfl⟩

/-! ### always-succeeding key bookkeeping -/

def Total {α : Type} (x : M α) : Prop := ∀ w, ∃ v, (x w).1 = .ok v

theorem Total.bind {α β : Type} {x : M α} {f : α → M β} (hx : Total x) (hf : ∀ v, Total (f v)) : Total (x >>= f) := by
  intro w
  obtain ⟨v, hv⟩ := hx w
  cases hr : x w with
  | mk r w1 =>
    rw [hr] at hv; cases hv
    rw [bind_fst_of_ok hr]
    exact hf v w1

theorem Total.modify (f : World → World) : Total (modify f) := fun w => ⟨(), rfl⟩
theorem Total.pure {α : Type} (v : α) : Total (pure v : M α) := fun w => ⟨v, rfl⟩
theorem keyObj_total (o : Nat) : Total (keyObj o) := fun w => ⟨_, rfl⟩

theorem keyCloseRaw_total (o : Nat) : Total (keyCloseRaw o) := by
  unfold keyCloseRaw
  apply Total.bind (keyObj_total o)
  intro k
  split
  · exact Total.pure _
  · exact Total.bind (Total.modify _) fun _ => Total.modify _

theorem keyRelease_total (o : Nat) : Total (keyRelease o) := by
  unfold keyRelease
  apply Total.bind (Total.modify _)
  intro _
  apply Total.bind (keyObj_total o)
  intro k
  split
  · exact Total.pure _
  · exact keyCloseRaw_total o

theorem releaseAll_total (l : List Nat) : Total (releaseAll l) := by
  induction l with
  | nil => exact Total.pure _
  | cons v t ih => unfold releaseAll; exact Total.bind (keyRelease_total v) fun _ => ih

theorem keyCloseRaw_cspec {a : Nat} {F : Prop} {P : World → Prop} (o : Nat) :
    CSpec a F P (keyCloseRaw o) (fun _ _ => True) :=
  CSpec.of_still_ok (keyCloseRaw_ext o) (keyCloseRaw_still o) (keyCloseRaw_total o)
theorem keyRelease_cspec {a : Nat} {F : Prop} {P : World → Prop} (o : Nat) :
    CSpec a F P (keyRelease o) (fun _ _ => True) :=
  CSpec.of_still_ok (keyRelease_ext o) (keyRelease_still o) (keyRelease_total o)
theorem releaseAll_cspec {a : Nat} {F : Prop} {P : World → Prop} (l : List Nat) :
    CSpec a F P (releaseAll l) (fun _ _ => True) :=
  CSpec.of_still_ok (releaseAll_ext l) (releaseAll_still l) (releaseAll_total l)
theorem keyIncr_cspec {a : Nat} {F : Prop} {P : World → Prop} (o : Nat) :
    CSpec a F P (keyIncr o) (fun _ _ => True) :=
  CSpec.of_still_ok (keyIncr_ext o) (keyIncr_still o) (Total.modify _)
theorem keyWrap_cspec {a : Nat} {F : Prop} {P : World → Prop} (o : Nat) :
    CSpec a F P (keyWrap o) (fun _ _ => True) :=
  CSpec.of_still_ok (keyWrap_ext o) (keyWrap_still o) (Total.modify _)

/-! ### `withKey` -/

theorem withKey_run_coh {α : Type} (o : Nat) (f : Nat → M α) (w : World) :
    withKey o f w =
      if (w.secrets.getD (w.keys.getD o default).sec default).closes > 0 then
        (.error .secretClosed, { w with secrets := setAt w.secrets (w.keys.getD o default).sec (fun x => { x with aac := x.aac + 1 }) })
      else f (w.keys.getD o default).mat w := by
  simp only [withKey, bind_run, keyObj, get_run]
  split <;> simp

/-- the one place where a destroyed secret can be touched: then the counter grows (`Bust`). -/
theorem CSpec.withKey {α : Type} {a : Nat} {F : Prop} {P : World → Prop} {o : Nat} {f : Nat → M α}
    {G : α → World → Prop} (mat : Nat)
    (hk : ∀ w, Inv w → P w → ∃ c, KeyIs w o c mat) (hfe : ∀ m, Extends (f m))
    (hf : CSpec a F P (f mat) G) : CSpec a F P (withKey o f) G := by
  refine ⟨withKey_ext o f hfe, fun w ha hi hnf hp => ?_⟩
  obtain ⟨c, hkis⟩ := hk w hi hp
  rw [withKey_run_coh]
  split
  · rename_i hcl
    by_cases hF : F
    · left
      show a < sumAac _
      have hlt : (w.keys.getD o default).sec < w.secrets.length := by
        apply Classical.byContradiction
        intro hge
        have : w.secrets.getD (w.keys.getD o default).sec default = default := by
          rw [List.getD_eq_getElem?_getD, List.getElem?_eq_none (Nat.le_of_not_lt hge)]; rfl
        rw [this] at hcl
        exact absurd hcl (by decide)
      dsimp only
      rw [sumAac_setAt _ _ hlt]
      exact Nat.lt_succ_of_le (ha hF)
    · right
      have he := withKey_ext o f hfe w
      rw [withKey_run_coh, if_pos hcl] at he
      exact ⟨hi.still he ⟨rfl, rfl, id⟩, fun h => absurd h hF, fun v hv => (by cases hv), fun h => absurd h hF⟩
  · rw [hkis.getD.2]
    exact hf.post w ha hi hnf hp

/-! ### metastore write -/

theorem findRow_append (s : List Row) (r : Row) (m : KeyMeta) :
    findRow (s ++ [r]) m = match findRow s m with
      | some x => some x
      | none => if r.kid = m.kid ∧ r.created = m.created then some r else none := by
  unfold findRow
  rw [List.find?_append]
  cases h : List.find? (fun r => decide (r.kid = m.kid ∧ r.created = m.created)) s with
  | some x => rfl
  | none =>
    simp only [Option.none_or, List.find?_cons, List.find?_nil]
    by_cases hc : r.kid = m.kid ∧ r.created = m.created
    · simp [hc]
    · simp [hc]

theorem StoreWF.append {s : List Row} (h : StoreWF s) {r : Row} (hn : findRow s ⟨r.kid, r.created⟩ = none)
    (hg : RowGood s r) (hz : r.created ≠ 0) : StoreWF (s ++ [r]) := by
  have hmono : ∀ x, x ∈ s → x ∈ s ++ [r] := fun x hx => List.mem_append_left _ hx
  refine ⟨?_, ?_, ?_⟩
  · intro x hx
    rw [findRow_append]
    rcases List.mem_append.mp hx with hx | hx
    · rw [h.uniq x hx]
    · simp only [List.mem_singleton] at hx
      subst hx
      rw [hn]; simp
  · intro x hx
    rcases List.mem_append.mp hx with hx | hx
    · exact (h.good x hx).mono hmono
    · simp only [List.mem_singleton] at hx
      subst hx; exact hg.mono hmono
  · intro x hx
    rcases List.mem_append.mp hx with hx | hx
    · exact h.nz x hx
    · simp only [List.mem_singleton] at hx
      subst hx; exact hz

theorem msStore_run (r : Row) (w : World) :
    msStore r w =
      let ex := (findRow w.store ⟨r.kid, r.created⟩).isSome
      match w.faults.headD .ok with
      | .ok => if ex then (.ok false, { w with faults := w.faults.tail, log := w.log ++ [.store ⟨r.kid, r.created⟩ false] })
               else (.ok true, { w with faults := w.faults.tail, store := w.store ++ [r], log := w.log ++ [.store ⟨r.kid, r.created⟩ true] })
      | .errw => if !ex then (.ok false, { w with faults := w.faults.tail, store := w.store ++ [r], log := w.log ++ [.store ⟨r.kid, r.created⟩ false] })
               else (.ok false, { w with faults := w.faults.tail, log := w.log ++ [.store ⟨r.kid, r.created⟩ false] })
      | _ => (.ok false, { w with faults := w.faults.tail, log := w.log ++ [.store ⟨r.kid, r.created⟩ false] }) := by
  simp only [msStore, bind_run, takeFault_eq, get_run]
  cases w.faults.headD .ok <;> dsimp only
  · split <;> simp [logCall_run]
  · simp [logCall_run]
  · simp [logCall_run]
  · split <;> simp [logCall_run]

/-- `msStore`: the row, if written, is written under a key that was free; the answer `true` means
it is in the store; in fault-free mode the answer `false` means a row with that key exists. -/
theorem msStore_spec {a : Nat} {F : Prop} (r : Row) :
    CSpec a F (fun w => RowGood w.store r ∧ r.created ≠ 0) (msStore r)
      (fun b w => (b = true → r ∈ w.store) ∧
        (b = false → F → ∃ r', r' ∈ w.store ∧ r'.kid = r.kid ∧ r'.created = r.created)) := by
  refine ⟨msStore_ext r, fun w ha hi hnf ⟨hg, hz⟩ => Or.inr ?_⟩
  have hext := msStore_ext r w
  -- the three possible final worlds
  have key : ∀ (b : Bool) (w' : World), msStore r w = (.ok b, w') → w'.caches = w.caches →
      w'.faults = w.faults.tail →
      (w'.store = w.store ∨ (w'.store = w.store ++ [r] ∧ findRow w.store ⟨r.kid, r.created⟩ = none)) →
      (b = true → r ∈ w'.store) →
      (b = false → F → ∃ r', r' ∈ w'.store ∧ r'.kid = r.kid ∧ r'.created = r.created) →
      Post F (fun b w => (b = true → r ∈ w.store) ∧
        (b = false → F → ∃ r', r' ∈ w.store ∧ r'.kid = r.kid ∧ r'.created = r.created)) (msStore r w).1 (msStore r w).2 := by
    intro b w' hrun hc hfl hst h1 h2
    have hext' : Ext w w' := by have := hext; rw [hrun] at this; exact this
    rw [hrun]
    refine ⟨⟨?_, hi.coh.ext hext' hc⟩, fun hF => (by rw [hfl, hnf hF]; rfl), fun v hv => (by cases hv; exact ⟨h1, h2⟩), fun _ => ⟨b, rfl⟩⟩
    rcases hst with hs | ⟨hs, hn⟩
    · rw [hs]; exact hi.wf
    · rw [hs]; exact hi.wf.append hn hg hz
  rw [msStore_run] at key ⊢
  dsimp only at key ⊢
  have hfind : ∀ b, (findRow w.store ⟨r.kid, r.created⟩).isSome = b → (b = true → ∃ r', r' ∈ w.store ∧ r'.kid = r.kid ∧ r'.created = r.created) ∧ (b = false → findRow w.store ⟨r.kid, r.created⟩ = none) := by
    intro b hb
    cases hf : findRow w.store ⟨r.kid, r.created⟩ with
    | none => rw [hf] at hb; cases hb; exact ⟨fun h => (by cases h), fun _ => rfl⟩
    | some x =>
      rw [hf] at hb; cases hb
      exact ⟨fun _ => ⟨x, (findRow_some hf).1, (findRow_some hf).2.1, (findRow_some hf).2.2⟩, fun h => (by cases h)⟩
  cases hfl : w.faults.headD .ok <;> rw [hfl] at key <;> dsimp only at key ⊢
  · -- ok
    cases hex : (findRow w.store ⟨r.kid, r.created⟩).isSome
    · rw [hex] at key
      exact key true _ rfl rfl rfl (Or.inr ⟨rfl, (hfind _ hex).2 rfl⟩) (fun _ => by simp) (fun h => by cases h)
    · rw [hex] at key
      exact key false _ rfl rfl rfl (Or.inl rfl) (fun h => by cases h) (fun _ _ => (hfind _ hex).1 rfl)
  · exact key false _ rfl rfl rfl (Or.inl rfl) (fun h => by cases h)
      (fun _ hF => by rw [hnf hF] at hfl; cases hfl)
  · exact key false _ rfl rfl rfl (Or.inl rfl) (fun h => by cases h)
      (fun _ hF => by rw [hnf hF] at hfl; cases hfl)
  · cases hex : (findRow w.store ⟨r.kid, r.created⟩).isSome
    · rw [hex] at key
      exact key false _ rfl rfl rfl (Or.inr ⟨rfl, (hfind _ hex).2 rfl⟩) (fun h => by cases h)
        (fun _ hF => by rw [hnf hF] at hfl; cases hfl)
    · rw [hex] at key
      exact key false _ rfl rfl rfl (Or.inl rfl) (fun h => by cases h)
        (fun _ hF => by rw [hnf hF] at hfl; cases hfl)

/-! ### cache slots -/

theorem CacheGood.default (w : World) : CacheGood w default :=
  ⟨fun m e h => (by cases h), fun k m h => (by cases h)⟩

theorem getCache_spec {a : Nat} {F : Prop} {P : World → Prop} (c : Nat) :
    CSpec a F P (getCache c) (fun kc w => CacheGood w kc) := by
  refine CSpec.of_still (getCache_ext c) (getCache_still c) fun w _ hi _ _ => Or.inr ⟨fun v hv => ?_, fun _ => ⟨_, rfl⟩⟩
  simp only [getCache] at hv ⊢
  cases hv
  simp only [List.getD_eq_getElem?_getD]
  cases h : w.caches[c]? with
  | none => exact CacheGood.default w
  | some kc => exact hi.coh c kc h

theorem setCache_spec {a : Nat} {F : Prop} (c : Nat) (kc : KeyCache) :
    CSpec a F (fun w => CacheGood w kc) (setCache c kc) (fun _ _ => True) := by
  refine ⟨setCache_ext c kc, fun w _ hi hnf hp => Or.inr ⟨⟨hi.wf, ?_⟩, hnf, fun _ _ => trivial, fun _ => ⟨(), rfl⟩⟩⟩
  intro c' kc' h
  simp only [setCache, modify_run, setAt_getElem?] at h
  have hg : ∀ kc0, CacheGood w kc0 → CacheGood (setCache c kc w).2 kc0 := fun kc0 h0 => h0.ext (setCache_ext c kc w)
  split at h
  · cases hc : w.caches[c']? with
    | none => rw [hc] at h; cases h
    | some x => rw [hc] at h; cases h; exact hg _ hp
  · exact hg _ (hi.coh c' kc' h)

end AsherahVerif.Env
