/-
What the `metastore` model (Model/Metastore.lean, Model/MetastoreCodec.lean) and the C13 theorems ASSUME
about the source of the four metastore implementations — written by hand (initially transcribed from a
reviewed extractor run).  `Props/C13.lean` proves `Generated.Metastore.x = Expected.Metastore.x` for each
fact; when one of the functions below is edited in /repo, the regenerated side changes and that
equality (a proof obligation of C13) no longer checks.

Where each fact is used by the model:
* `ekrJsonTags`, `keyMetaJsonTags`      JSON member names of the SQL row (`encodeRowText`/`decodeEkrJ`) and the names the
                                        v1 DynamoDB decoder looks up (`unmarshalEkrV1`); `ID` is tagged `-`: not persisted.
* `mem*Skeleton/Assigns/Returns`, `memLoadLatestSortLess`, `memEnvelopesType`
                                        `Mem.load/loadLatest/store`: nested-map lookup under the lock, existence check before
                                        the insert, ascending sort of the inner keys and `createdKeys[len-1]`.
* `sql*Query`                           the three statements (`SqlLits`), parsed by `parseSql` and executed by `sqlExec/sqlQueryRow`.
* `sqlPostgres/Oracle/MySQL`, `sqlQ*`   `q`: `?` → `$n` / `:n` for exactly these two db types (`q`, `qRewrite`).
* `sqlNewFields`, `sqlWithDBTypeSkeleton` the defaults and that the option rewrites all three statements (`newSqlMs`).
* `sqlLoad*/sqlLoadLatest*/sqlStore*`, `sqlParseEnvelope*`
                                        argument lists (id, time.Unix(created,0)[, json]) and the result mapping of `sqlStep`
                                        and `parseEnvelope` (ErrNoRows → nil,nil; any Exec error → false,err).
* `V1/V2.partitionKey/sortKey/keyRecord/defaultTableName/conditionExpression/getConsistentRead/
  queryConsistentRead/queryScanIndexForward/queryLimit` the `DdbLits` of each DynamoDB metastore.
* `V1/V2.getItemFields/queryFields/putItemFields` the complete request literals (`ddbStep` builds exactly these fields).
* `V1.envelopeJsonTags`, `V2.envelopeTags/keyMetaTags/itemTags`  attribute names written/read (`Names.ofTags`, `ItemNames`).
* `V1/V2.envelopeFields`, `V2.decodeRecordFields`  which record field goes where (base64 of the key bytes).
* `V1/V2.load*/loadLatest*/store*/decode*`  result mapping of `ddbStep` (nil item → nil,nil; first item of the query;
                                        every PutItem error → false,err).
* `withTableNameSkeleton`, `regionSuffixSkeleton`, `newSkeleton`  `ddbTableName` and the region-suffix observation.
-/
namespace AsherahVerif.Expected.Metastore
def ekrJsonTags : List (String × String) := [("Revoked", "Revoked,omitempty"), ("ID", "-"), ("Created", "Created"), ("EncryptedKey", "Key"), ("ParentKeyMeta", "ParentKeyMeta,omitempty")]
def keyMetaJsonTags : List (String × String) := [("ID", "KeyId"), ("Created", "Created")]
def memLoadSkeleton : List String := ["s.RLock", "defer:s.RUnlock", "if(ok){", "return", "}", "return"]
def memLoadLatestSkeleton : List String := ["s.RLock", "defer:s.RUnlock", "if(ok){", "range(keyIDMap){", "}", "func{", "return", "}", "sort.Slice", "if(ok){", "return", "}", "}", "return"]
def memStoreSkeleton : List String := ["s.Lock", "defer:s.Unlock", "if(ok){", "return", "}", "if(!ok){", "assign:s.Envelopes[keyID]", "}", "assign:s.Envelopes[keyID][created]", "return"]
def memLoadAssigns : List String := ["ret,ok:=s.Envelopes[keyID][created]"]
def memLoadReturns : List String := ["ret,nil", "nil,nil"]
def memLoadLatestAssigns : List String := ["keyIDMap,ok:=s.Envelopes[keyID]", "createdKeys=append(createdKeys,created)", "latestCreated:=createdKeys[len(createdKeys)-1]", "ret,ok:=keyIDMap[latestCreated]"]
def memLoadLatestReturns : List String := ["ret,nil", "nil,nil"]
def memStoreAssigns : List String := ["_,ok:=s.Envelopes[keyID][created]", "_,ok:=s.Envelopes[keyID]", "s.Envelopes[keyID]=make(<*ast.MapType>)", "s.Envelopes[keyID][created]=envelope"]
def memStoreReturns : List String := ["false,nil", "true,nil"]
def memLoadLatestSortLess : List String := ["createdKeys[i]<createdKeys[j]"]
def memEnvelopesType : String := "map[string]map[int64]*appencryption.EnvelopeKeyRecord"
def sqlLoadKeyQuery : String := "SELECT key_record FROM encryption_key WHERE id = ? AND created = ?"
def sqlStoreKeyQuery : String := "INSERT INTO encryption_key (id, created, key_record) VALUES (?, ?, ?)"
def sqlLoadLatestQuery : String := "SELECT key_record from encryption_key WHERE id = ? ORDER BY created DESC LIMIT 1"
def sqlPostgres : String := "postgres"
def sqlOracle : String := "oracle"
def sqlMySQL : String := "mysql"
def sqlDefaultDBType : String := "MySQL"
def sqlQrx : String := "regexp.MustCompile(`\\?`)"
def sqlQSkeleton : List String := ["switch(t){", "case(Postgres):", "case(Oracle):", "default:", "return", "}", "func{", "assign:n++", "strconv.Itoa", "return^", "}", "qrx.ReplaceAllStringFunc", "return^"]
def sqlQReturns : List String := ["sql", "qrx.ReplaceAllStringFunc(sql,func)"]
def sqlQAssigns : List String := ["pref=\"$\"", "pref=\":\"", "n:=0"]
def sqlQReplacement : List String := ["pref+strconv.Itoa(n)"]
def sqlLoadAssigns : List String := ["t:=time.Unix(created,0)"]
def sqlStoreAssigns : List String := ["bytes,err:=json.Marshal(envelope)", "createdAt:=time.Unix(created,0)", "_,err:=s.db.ExecContext(ctx,s.storeKeyQuery,keyID,createdAt,string(bytes))"]
def sqlWithDBTypeSkeleton : List String := ["func{", "assign:s.dbType", "t.q", "assign:s.loadKeyQuery", "t.q", "assign:s.storeKeyQuery", "t.q", "assign:s.loadLatestQuery", "}", "return^"]
def sqlNewFields : List (String × String) := [("db", "dbHandle"), ("dbType", "DefaultDBType"), ("loadKeyQuery", "defaultLoadKeyQuery"), ("storeKeyQuery", "defaultStoreKeyQuery"), ("loadLatestQuery", "defaultLoadLatestQuery")]
def sqlNewSkeleton : List String := ["range(opts){", "opt", "}", "return"]
def sqlParseEnvelopeSkeleton : List String := ["s.Scan", "if(err!=nil){", "errors.Is", "if(errors.Is(err,sql.ErrNoRows)){", "return", "}", "fmt.Errorf", "return^", "}", "[]byte", "json.Unmarshal", "if(err!=nil){", "fmt.Errorf", "return^", "}", "return"]
def sqlParseEnvelopeReturns : List String := ["nil,nil", "nil,fmt.Errorf", "nil,fmt.Errorf", "keyRecord,nil"]
def sqlLoadSkeleton : List String := ["time.Now", "defer:loadSQLTimer.UpdateSince", "time.Unix", "s.db.QueryRowContext", "parseEnvelope", "return^"]
def sqlLoadArgs : List String := ["ctx", "s.loadKeyQuery", "keyID", "t"]
def sqlLoadLatestSkeleton : List String := ["time.Now", "defer:loadLatestSQLTimer.UpdateSince", "s.db.QueryRowContext", "parseEnvelope", "return^"]
def sqlLoadLatestArgs : List String := ["ctx", "s.loadLatestQuery", "keyID"]
def sqlStoreSkeleton : List String := ["time.Now", "defer:storeSQLTimer.UpdateSince", "json.Marshal", "if(err!=nil){", "fmt.Errorf", "return^", "}", "time.Unix", "s.db.ExecContext", "if(err!=nil){", "fmt.Errorf", "return^", "}", "return"]
def sqlStoreArgs : List String := ["ctx", "s.storeKeyQuery", "keyID", "createdAt", "string(bytes)"]
def sqlStoreReturns : List String := ["false,fmt.Errorf", "false,fmt.Errorf", "true,nil"]
namespace V1
def partitionKey : String := "Id"
def sortKey : String := "Created"
def keyRecord : String := "KeyRecord"
def defaultTableName : String := "EncryptionKey"
def getItemFields : List (String × String) := [("ExpressionAttributeNames", "expr.Names()"), ("Key", "map{partitionKey:{S:&keyID},sortKey:{N:aws.String(strconv.FormatInt(created,10))}}"), ("ProjectionExpression", "expr.Projection()"), ("TableName", "aws.String(d.tableName)"), ("ConsistentRead", "aws.Bool(true)")]
def getConsistentRead : Option Bool := some true
def queryFields : List (String × String) := [("ConsistentRead", "aws.Bool(true)"), ("ExpressionAttributeNames", "expr.Names()"), ("ExpressionAttributeValues", "expr.Values()"), ("KeyConditionExpression", "expr.KeyCondition()"), ("Limit", "aws.Int64(1)"), ("ProjectionExpression", "expr.Projection()"), ("ScanIndexForward", "aws.Bool(false)"), ("TableName", "aws.String(d.tableName)")]
def queryConsistentRead : Option Bool := some true
def queryScanIndexForward : Option Bool := some false
def queryLimit : Option Int := some 1
def putItemFields : List (String × String) := [("Item", "map{partitionKey:{S:&keyID},sortKey:{N:aws.String(strconv.FormatInt(created,10))},keyRecord:{M:av}}"), ("TableName", "aws.String(d.tableName)"), ("ConditionExpression", "aws.String(\"attribute_not_exists(\"+partitionKey+\")\")")]
def conditionExpression : String := "attribute_not_exists(Id)"
def loadSkeleton : List String := ["time.Now", "defer:loadDynamoDBTimer.UpdateSince", "expression.Name", "expression.NamesList", "expression.NewBuilder", "expression.NewBuilder().WithProjection", "expression.NewBuilder().WithProjection(proj).Build", "if(err!=nil){", "fmt.Errorf", "return^", "}", "expr.Names", "strconv.FormatInt", "aws.String", "expr.Projection", "aws.String", "aws.Bool", "d.svc.GetItemWithContext", "if(err!=nil){", "fmt.Errorf", "return^", "}", "if(res.Item==nil){", "return", "}", "parseResult", "return^"]
def loadReturns : List String := ["nil,fmt.Errorf", "nil,fmt.Errorf", "nil,nil", "parseResult(res.Item[keyRecord])"]
def loadLatestSkeleton : List String := ["time.Now", "defer:loadLatestDynamoDBTimer.UpdateSince", "expression.Value", "expression.Key", "expression.Key(partitionKey).Equal", "expression.Name", "expression.NamesList", "expression.NewBuilder", "expression.NewBuilder().WithKeyCondition", "expression.NewBuilder().WithKeyCondition(cond).WithProjection", "expression.NewBuilder().WithKeyCondition(cond).WithProjection(proj).Build", "if(err!=nil){", "fmt.Errorf", "return^", "}", "aws.Bool", "expr.Names", "expr.Values", "expr.KeyCondition", "aws.Int64", "expr.Projection", "aws.Bool", "aws.String", "d.svc.QueryWithContext", "if(err!=nil){", "return", "}", "if(len(res.Items)==0){", "return", "}", "parseResult", "return^"]
def loadLatestReturns : List String := ["nil,fmt.Errorf", "nil,err", "nil,nil", "parseResult(res.Items[0][keyRecord])"]
def storeSkeleton : List String := ["time.Now", "defer:storeDynamoDBTimer.UpdateSince", "base64.StdEncoding.EncodeToString", "dynamodbattribute.MarshalMap", "if(err!=nil){", "fmt.Errorf", "return^", "}", "strconv.FormatInt", "aws.String", "aws.String", "aws.String", "d.svc.PutItemWithContext", "if(err!=nil){", "errors.As", "awsErr.Code", "if(errors.As(err,&awsErr)&&awsErr.Code()==dynamodb.ErrCodeConditionalCheckFailedException){", "fmt.Errorf", "return^", "}", "fmt.Errorf", "return^", "}", "return"]
def storeReturns : List String := ["false,fmt.Errorf", "false,fmt.Errorf", "false,fmt.Errorf", "true,nil"]
def decodeSkeleton : List String := ["dynamodbattribute.Unmarshal", "if(err!=nil){", "fmt.Errorf", "return^", "}", "return"]
def decodeReturns : List String := ["nil,fmt.Errorf", "&en,nil"]
def withTableNameSkeleton : List String := ["func{", "if(len(table)>0){", "assign:d.tableName", "}", "}", "return^"]
def envelopeJsonTags : List (String × String) := [("Revoked", "Revoked,omitempty"), ("Created", "Created"), ("EncryptedKey", "Key"), ("ParentKeyMeta", "ParentKeyMeta,omitempty")]
def envelopeFields : List (String × String) := [("Revoked", "envelope.Revoked"), ("Created", "envelope.Created"), ("EncryptedKey", "base64.StdEncoding.EncodeToString(envelope.EncryptedKey)"), ("ParentKeyMeta", "envelope.ParentKeyMeta")]
def regionSuffixSkeleton : List String := ["func{", "if(enabled){", "p.ClientConfig", "assign:d.regionSuffix", "}", "}", "return^"]
def newSkeleton : List String := ["dynamodb.New", "range(opts){", "opt", "}", "return"]
end V1
namespace V2
def partitionKey : String := "Id"
def sortKey : String := "Created"
def keyRecord : String := "KeyRecord"
def defaultTableName : String := "EncryptionKey"
def getItemFields : List (String × String) := [("ExpressionAttributeNames", "expr.Names()"), ("Key", "map{partitionKey:&types.AttributeValueMemberS{Value:keyID},sortKey:&types.AttributeValueMemberN{Value:strconv.FormatInt(created,10)}}"), ("ProjectionExpression", "expr.Projection()"), ("TableName", "aws.String(d.tableName)"), ("ConsistentRead", "aws.Bool(true)")]
def getConsistentRead : Option Bool := some true
def queryFields : List (String × String) := [("ConsistentRead", "aws.Bool(true)"), ("ExpressionAttributeNames", "expr.Names()"), ("ExpressionAttributeValues", "expr.Values()"), ("KeyConditionExpression", "expr.KeyCondition()"), ("Limit", "aws.Int32(1)"), ("ProjectionExpression", "expr.Projection()"), ("ScanIndexForward", "aws.Bool(false)"), ("TableName", "aws.String(d.tableName)")]
def queryConsistentRead : Option Bool := some true
def queryScanIndexForward : Option Bool := some false
def queryLimit : Option Int := some 1
def putItemFields : List (String × String) := [("Item", "map{partitionKey:&types.AttributeValueMemberS{Value:keyID},sortKey:&types.AttributeValueMemberN{Value:strconv.FormatInt(created,10)},keyRecord:&types.AttributeValueMemberM{Value:av}}"), ("TableName", "aws.String(d.tableName)"), ("ConditionExpression", "aws.String(\"attribute_not_exists(\"+partitionKey+\")\")")]
def conditionExpression : String := "attribute_not_exists(Id)"
def loadSkeleton : List String := ["time.Now", "defer:loadDynamoDBTimer.UpdateSince", "expression.Name", "expression.NamesList", "expression.NewBuilder", "expression.NewBuilder().WithProjection", "expression.NewBuilder().WithProjection(proj).Build", "if(err!=nil){", "fmt.Errorf", "return^", "}", "expr.Names", "strconv.FormatInt", "expr.Projection", "aws.String", "aws.Bool", "d.svc.GetItem", "if(err!=nil){", "fmt.Errorf", "return^", "}", "if(res.Item==nil){", "return", "}", "decodeItem", "return^"]
def loadReturns : List String := ["nil,fmt.Errorf", "nil,fmt.Errorf", "nil,nil", "decodeItem(res.Item)"]
def loadLatestSkeleton : List String := ["time.Now", "defer:loadLatestDynamoDBTimer.UpdateSince", "expression.Value", "expression.Key", "expression.Key(partitionKey).Equal", "expression.Name", "expression.NamesList", "expression.NewBuilder", "expression.NewBuilder().WithKeyCondition", "expression.NewBuilder().WithKeyCondition(cond).WithProjection", "expression.NewBuilder().WithKeyCondition(cond).WithProjection(proj).Build", "if(err!=nil){", "fmt.Errorf", "return^", "}", "aws.Bool", "expr.Names", "expr.Values", "expr.KeyCondition", "aws.Int32", "expr.Projection", "aws.Bool", "aws.String", "d.svc.Query", "if(err!=nil){", "fmt.Errorf", "return^", "}", "if(len(res.Items)==0){", "return", "}", "decodeItem", "return^"]
def loadLatestReturns : List String := ["nil,fmt.Errorf", "nil,fmt.Errorf", "nil,nil", "decodeItem(res.Items[0])"]
def storeSkeleton : List String := ["time.Now", "defer:storeDynamoDBTimer.UpdateSince", "if(ekr.ParentKeyMeta!=nil){", "}", "base64.StdEncoding.EncodeToString", "attributevalue.MarshalMap", "if(err!=nil){", "fmt.Errorf", "return^", "}", "strconv.FormatInt", "aws.String", "aws.String", "d.svc.PutItem", "if(err!=nil){", "errors.As", "if(errors.As(err,&ccfe)){", "fmt.Errorf", "return^", "}", "fmt.Errorf", "return^", "}", "return"]
def storeReturns : List String := ["false,fmt.Errorf", "false,fmt.Errorf", "false,fmt.Errorf", "true,nil"]
def decodeSkeleton : List String := ["attributevalue.UnmarshalMap", "if(err!=nil){", "fmt.Errorf", "return^", "}", "if(en==nil){", "fmt.Errorf", "return^", "}", "base64.StdEncoding.DecodeString", "if(err!=nil){", "fmt.Errorf", "return^", "}", "if(en.ParentKeyMeta!=nil){", "}", "return"]
def decodeReturns : List String := ["nil,fmt.Errorf", "nil,fmt.Errorf", "nil,fmt.Errorf", "&appencryption.EnvelopeKeyRecord{…},nil"]
def withTableNameSkeleton : List String := ["func{", "if(name!=\"\"){", "assign:d.tableName", "}", "}", "return^"]
def itemTags : List (String × String) := [("ID", "Id"), ("Created", "Created"), ("KeyRecord", "KeyRecord")]
def envelopeTags : List (String × String) := [("Revoked", "Revoked,omitempty"), ("Created", "Created"), ("EncryptedKey", "Key"), ("ParentKeyMeta", "ParentKeyMeta,omitempty")]
def keyMetaTags : List (String × String) := [("ID", "KeyId"), ("Created", "Created")]
def envelopeFields : List (String × String) := [("Revoked", "ekr.Revoked"), ("Created", "ekr.Created"), ("EncryptedKey", "base64.StdEncoding.EncodeToString(ekr.EncryptedKey)"), ("ParentKeyMeta", "km")]
def decodeRecordFields : List (String × String) := [("ID", "item.ID"), ("Revoked", "en.Revoked"), ("Created", "en.Created"), ("EncryptedKey", "encryptedKey"), ("ParentKeyMeta", "km")]
def newSkeleton : List String := ["range(opts){", "opt", "}", "if(d.svc==nil){", "newDefaultClient", "if(err!=nil){", "return", "}", "assign:d.svc", "}", "if(d.regionSuffixEnabled){", "d.svc.Options", "assign:d.regionSuffix", "}", "return"]
end V2
end AsherahVerif.Expected.Metastore
