/-
What the `metastore` model (Model/Metastore.lean, Model/MetastoreCodec.lean) and the C13 theorems ASSUME
about the source of the four metastore implementations — written by hand (initially transcribed from a
reviewed extractor run).  `Props/C13.lean` proves `Generated.Metastore.x = Expected.Metastore.x` for each
fact; when one of the functions below is edited in /repo, the regenerated side changes and that
equality (a proof obligation of C13) no longer checks.

Where each fact is used by the model:
* `ekrJsonTags`, `keyMetaJsonTags`      JSON member names of the SQL row (`encodeRowText`/`decodeEkrJ`) and the names the
                                        v1 DynamoDB decoder looks up (`unmarshalEkrV1`); `ID` is tagged `-`: not persisted.
* `mem*Skeleton/Assigns/Returns`, `memLoadLatestSortLess`, `memEnvelopesType`
                                        `Mem.load/loadLatest/store`: nested-map lookup under the lock, existence check before
                                        the insert, ascending sort of the inner keys and `createdKeys[len-1]`.
* `sql*Query`                           the three statements (`SqlLits`), parsed by `parseSql` and executed by `sqlExec/sqlQueryRow`.
* `sqlPostgres/Oracle/MySQL`, `sqlQ*`   `q`: `?` → `$n` / `:n` for exactly these two db types (`q`, `qRewrite`).
* `sqlNewFields`, `sqlWithDBTypeSkeleton` the defaults and that the option rewrites all three statements (`newSqlMs`).
* `sqlLoad*/sqlLoadLatest*/sqlStore*`, `sqlParseEnvelope*`
                                        argument lists (id, time.Unix(created,0)[, json]) and the result mapping of `sqlStep`
                                        and `parseEnvelope` (ErrNoRows → nil,nil; any Exec error → false,err).
* `V1/V2.partitionKey/sortKey/keyRecord/defaultTableName/conditionExpression/getConsistentRead/
  queryConsistentRead/queryScanIndexForward/queryLimit` the `DdbLits` of each DynamoDB metastore.
* `V1/V2.getItemFields/queryFields/putItemFields` the complete request literals (`ddbStep` builds exactly these fields).
* `V1.envelopeJsonTags`, `V2.envelopeTags/keyMetaTags/itemTags`  attribute names written/read (`Names.ofTags`, `ItemNames`).
* `V1/V2.envelopeFields`, `V2.decodeRecordFields`  which record field goes where (base64 of the key bytes).
* `V1/V2.load*/loadLatest*/store*/decode*`  result mapping of `ddbStep` (nil item → nil,nil; first item of the query;
                                        every PutItem error → false,err).
* `withTableNameSkeleton`, `regionSuffixSkeleton`, `newSkeleton`  `ddbTableName` and the region-suffix observation.

In all expressions the receiver is printed `r`, parameters `p0,p1,…` and local variables `l0,l1,…` (order of
declaration): the extractor normalises names, so renaming a variable is not a change of shape.
-/
namespace AsherahVerif.Expected.Metastore
def ekrJsonTags : List (String × String) := [("Revoked", "Revoked,omitempty"), ("ID", "-"), ("Created", "Created"), ("EncryptedKey", "Key"), ("ParentKeyMeta", "ParentKeyMeta,omitempty")]
def keyMetaJsonTags : List (String × String) := [("ID", "KeyId"), ("Created", "Created")]
def memLoadSkeleton : List String := ["r.RLock", "defer:r.RUnlock", "if(l1){", "return", "}", "return"]
def memLoadLatestSkeleton : List String := ["r.RLock", "defer:r.RUnlock", "if(l1){", "range(l0){", "}", "func{", "return", "}", "sort.Slice", "if(l1){", "return", "}", "}", "return"]
def memStoreSkeleton : List String := ["r.Lock", "defer:r.Unlock", "if(l0){", "return", "}", "if(!l0){", "assign:r.Envelopes[p0]", "}", "assign:r.Envelopes[p0][p1]", "return"]
def memLoadAssigns : List String := ["l0,l1:=r.Envelopes[p0][p1]"]
def memLoadReturns : List String := ["l0,nil", "nil,nil"]
def memLoadLatestAssigns : List String := ["l0,l1:=r.Envelopes[p0]", "l2=append(l2,l3)", "l6:=l2[len(l2)-1]", "l7,l1:=l0[l6]"]
def memLoadLatestReturns : List String := ["l7,nil", "nil,nil"]
def memStoreAssigns : List String := ["_,l0:=r.Envelopes[p0][p1]", "_,l0:=r.Envelopes[p0]", "r.Envelopes[p0]=make(<*ast.MapType>)", "r.Envelopes[p0][p1]=p2"]
def memStoreReturns : List String := ["false,nil", "true,nil"]
def memLoadLatestSortLess : List String := ["l2[l4]<l2[l5]"]
def memEnvelopesType : String := "map[string]map[int64]*appencryption.EnvelopeKeyRecord"
def sqlLoadKeyQuery : String := "SELECT key_record FROM encryption_key WHERE id = ? AND created = ?"
def sqlStoreKeyQuery : String := "INSERT INTO encryption_key (id, created, key_record) VALUES (?, ?, ?)"
def sqlLoadLatestQuery : String := "SELECT key_record from encryption_key WHERE id = ? ORDER BY created DESC LIMIT 1"
def sqlPostgres : String := "postgres"
def sqlOracle : String := "oracle"
def sqlMySQL : String := "mysql"
def sqlDefaultDBType : String := "MySQL"
def sqlQrx : String := "regexp.MustCompile(`\\?`)"
def sqlQSkeleton : List String := ["switch(r){", "case(Postgres):", "case(Oracle):", "default:", "return", "}", "func{", "assign:l1++", "strconv.Itoa", "return^", "}", "qrx.ReplaceAllStringFunc", "return^"]
def sqlQReturns : List String := ["p0", "qrx.ReplaceAllStringFunc(p0,func)"]
def sqlQAssigns : List String := ["l0=\"$\"", "l0=\":\"", "l1:=0"]
def sqlQReplacement : List String := ["l0+strconv.Itoa(l1)"]
def sqlLoadAssigns : List String := ["l0:=time.Unix(p2,0)"]
def sqlStoreAssigns : List String := ["l0,l1:=json.Marshal(p3)", "l2:=time.Unix(p2,0)", "_,l1:=r.db.ExecContext(p0,r.storeKeyQuery,p1,l2,string(l0))"]
def sqlWithDBTypeSkeleton : List String := ["func{", "assign:l0.dbType", "p0.q", "assign:l0.loadKeyQuery", "p0.q", "assign:l0.storeKeyQuery", "p0.q", "assign:l0.loadLatestQuery", "}", "return^"]
def sqlNewFields : List (String × String) := [("db", "p0"), ("dbType", "DefaultDBType"), ("loadKeyQuery", "defaultLoadKeyQuery"), ("storeKeyQuery", "defaultStoreKeyQuery"), ("loadLatestQuery", "defaultLoadLatestQuery")]
def sqlNewSkeleton : List String := ["range(p1){", "l1", "}", "return"]
def sqlParseEnvelopeSkeleton : List String := ["p0.Scan", "if(l1!=nil){", "errors.Is", "if(errors.Is(l1,sql.ErrNoRows)){", "return", "}", "fmt.Errorf", "return^", "}", "[]byte", "json.Unmarshal", "if(l1!=nil){", "fmt.Errorf", "return^", "}", "return"]
def sqlParseEnvelopeReturns : List String := ["nil,nil", "nil,fmt.Errorf", "nil,fmt.Errorf", "l2,nil"]
def sqlLoadSkeleton : List String := ["time.Now", "defer:loadSQLTimer.UpdateSince", "time.Unix", "r.db.QueryRowContext", "parseEnvelope", "return^"]
def sqlLoadArgs : List String := ["p0", "r.loadKeyQuery", "p1", "l0"]
def sqlLoadLatestSkeleton : List String := ["time.Now", "defer:loadLatestSQLTimer.UpdateSince", "r.db.QueryRowContext", "parseEnvelope", "return^"]
def sqlLoadLatestArgs : List String := ["p0", "r.loadLatestQuery", "p1"]
def sqlStoreSkeleton : List String := ["time.Now", "defer:storeSQLTimer.UpdateSince", "json.Marshal", "if(l1!=nil){", "fmt.Errorf", "return^", "}", "time.Unix", "r.db.ExecContext", "if(l1!=nil){", "fmt.Errorf", "return^", "}", "return"]
def sqlStoreArgs : List String := ["p0", "r.storeKeyQuery", "p1", "l2", "string(l0)"]
def sqlStoreReturns : List String := ["false,fmt.Errorf", "false,fmt.Errorf", "true,nil"]
namespace V1
def partitionKey : String := "Id"
def sortKey : String := "Created"
def keyRecord : String := "KeyRecord"
def defaultTableName : String := "EncryptionKey"
def getItemFields : List (String × String) := [("ExpressionAttributeNames", "l1.Names()"), ("Key", "map{partitionKey:{S:&p1},sortKey:{N:aws.String(strconv.FormatInt(p2,10))}}"), ("ProjectionExpression", "l1.Projection()"), ("TableName", "aws.String(r.tableName)"), ("ConsistentRead", "aws.Bool(true)")]
def getConsistentRead : Option Bool := some true
def queryFields : List (String × String) := [("ConsistentRead", "aws.Bool(true)"), ("ExpressionAttributeNames", "l2.Names()"), ("ExpressionAttributeValues", "l2.Values()"), ("KeyConditionExpression", "l2.KeyCondition()"), ("Limit", "aws.Int64(1)"), ("ProjectionExpression", "l2.Projection()"), ("ScanIndexForward", "aws.Bool(false)"), ("TableName", "aws.String(r.tableName)")]
def queryConsistentRead : Option Bool := some true
def queryScanIndexForward : Option Bool := some false
def queryLimit : Option Int := some 1
def putItemFields : List (String × String) := [("Item", "map{partitionKey:{S:&p1},sortKey:{N:aws.String(strconv.FormatInt(p2,10))},keyRecord:{M:l1}}"), ("TableName", "aws.String(r.tableName)"), ("ConditionExpression", "aws.String(\"attribute_not_exists(\"+partitionKey+\")\")")]
def conditionExpression : String := "attribute_not_exists(Id)"
def loadSkeleton : List String := ["time.Now", "defer:loadDynamoDBTimer.UpdateSince", "expression.Name", "expression.NamesList", "expression.NewBuilder", "expression.NewBuilder().WithProjection", "expression.NewBuilder().WithProjection(l0).Build", "if(l2!=nil){", "fmt.Errorf", "return^", "}", "l1.Names", "strconv.FormatInt", "aws.String", "l1.Projection", "aws.String", "aws.Bool", "r.svc.GetItemWithContext", "if(l2!=nil){", "fmt.Errorf", "return^", "}", "if(l3.Item==nil){", "return", "}", "parseResult", "return^"]
def loadReturns : List String := ["nil,fmt.Errorf", "nil,fmt.Errorf", "nil,nil", "parseResult(l3.Item[keyRecord])"]
def loadLatestSkeleton : List String := ["time.Now", "defer:loadLatestDynamoDBTimer.UpdateSince", "expression.Value", "expression.Key", "expression.Key(partitionKey).Equal", "expression.Name", "expression.NamesList", "expression.NewBuilder", "expression.NewBuilder().WithKeyCondition", "expression.NewBuilder().WithKeyCondition(l0).WithProjection", "expression.NewBuilder().WithKeyCondition(l0).WithProjection(l1).Build", "if(l3!=nil){", "fmt.Errorf", "return^", "}", "aws.Bool", "l2.Names", "l2.Values", "l2.KeyCondition", "aws.Int64", "l2.Projection", "aws.Bool", "aws.String", "r.svc.QueryWithContext", "if(l3!=nil){", "return", "}", "if(len(l4.Items)==0){", "return", "}", "parseResult", "return^"]
def loadLatestReturns : List String := ["nil,fmt.Errorf", "nil,l3", "nil,nil", "parseResult(l4.Items[0][keyRecord])"]
def storeSkeleton : List String := ["time.Now", "defer:storeDynamoDBTimer.UpdateSince", "base64.StdEncoding.EncodeToString", "dynamodbattribute.MarshalMap", "if(l2!=nil){", "fmt.Errorf", "return^", "}", "strconv.FormatInt", "aws.String", "aws.String", "aws.String", "r.svc.PutItemWithContext", "if(l2!=nil){", "errors.As", "l3.Code", "if(errors.As(l2,&l3)&&l3.Code()==dynamodb.ErrCodeConditionalCheckFailedException){", "fmt.Errorf", "return^", "}", "fmt.Errorf", "return^", "}", "return"]
def storeReturns : List String := ["false,fmt.Errorf", "false,fmt.Errorf", "false,fmt.Errorf", "true,nil"]
def decodeSkeleton : List String := ["dynamodbattribute.Unmarshal", "if(l1!=nil){", "fmt.Errorf", "return^", "}", "return"]
def decodeReturns : List String := ["nil,fmt.Errorf", "&l0,nil"]
def withTableNameSkeleton : List String := ["func{", "if(len(p0)>0){", "assign:l0.tableName", "}", "}", "return^"]
def envelopeJsonTags : List (String × String) := [("Revoked", "Revoked,omitempty"), ("Created", "Created"), ("EncryptedKey", "Key"), ("ParentKeyMeta", "ParentKeyMeta,omitempty")]
def envelopeFields : List (String × String) := [("Revoked", "p3.Revoked"), ("Created", "p3.Created"), ("EncryptedKey", "base64.StdEncoding.EncodeToString(p3.EncryptedKey)"), ("ParentKeyMeta", "p3.ParentKeyMeta")]
def regionSuffixSkeleton : List String := ["func{", "if(p0){", "l1.ClientConfig", "assign:l0.regionSuffix", "}", "}", "return^"]
def newSkeleton : List String := ["dynamodb.New", "range(p1){", "l1", "}", "return"]
end V1
namespace V2
def partitionKey : String := "Id"
def sortKey : String := "Created"
def keyRecord : String := "KeyRecord"
def defaultTableName : String := "EncryptionKey"
def getItemFields : List (String × String) := [("ExpressionAttributeNames", "l1.Names()"), ("Key", "map{partitionKey:&types.AttributeValueMemberS{Value:p1},sortKey:&types.AttributeValueMemberN{Value:strconv.FormatInt(p2,10)}}"), ("ProjectionExpression", "l1.Projection()"), ("TableName", "aws.String(r.tableName)"), ("ConsistentRead", "aws.Bool(true)")]
def getConsistentRead : Option Bool := some true
def queryFields : List (String × String) := [("ConsistentRead", "aws.Bool(true)"), ("ExpressionAttributeNames", "l2.Names()"), ("ExpressionAttributeValues", "l2.Values()"), ("KeyConditionExpression", "l2.KeyCondition()"), ("Limit", "aws.Int32(1)"), ("ProjectionExpression", "l2.Projection()"), ("ScanIndexForward", "aws.Bool(false)"), ("TableName", "aws.String(r.tableName)")]
def queryConsistentRead : Option Bool := some true
def queryScanIndexForward : Option Bool := some false
def queryLimit : Option Int := some 1
def putItemFields : List (String × String) := [("Item", "map{partitionKey:&types.AttributeValueMemberS{Value:p1},sortKey:&types.AttributeValueMemberN{Value:strconv.FormatInt(p2,10)},keyRecord:&types.AttributeValueMemberM{Value:l2}}"), ("TableName", "aws.String(r.tableName)"), ("ConditionExpression", "aws.String(\"attribute_not_exists(\"+partitionKey+\")\")")]
def conditionExpression : String := "attribute_not_exists(Id)"
def loadSkeleton : List String := ["time.Now", "defer:loadDynamoDBTimer.UpdateSince", "expression.Name", "expression.NamesList", "expression.NewBuilder", "expression.NewBuilder().WithProjection", "expression.NewBuilder().WithProjection(l0).Build", "if(l2!=nil){", "fmt.Errorf", "return^", "}", "l1.Names", "strconv.FormatInt", "l1.Projection", "aws.String", "aws.Bool", "r.svc.GetItem", "if(l2!=nil){", "fmt.Errorf", "return^", "}", "if(l3.Item==nil){", "return", "}", "decodeItem", "return^"]
def loadReturns : List String := ["nil,fmt.Errorf", "nil,fmt.Errorf", "nil,nil", "decodeItem(l3.Item)"]
def loadLatestSkeleton : List String := ["time.Now", "defer:loadLatestDynamoDBTimer.UpdateSince", "expression.Value", "expression.Key", "expression.Key(partitionKey).Equal", "expression.Name", "expression.NamesList", "expression.NewBuilder", "expression.NewBuilder().WithKeyCondition", "expression.NewBuilder().WithKeyCondition(l0).WithProjection", "expression.NewBuilder().WithKeyCondition(l0).WithProjection(l1).Build", "if(l3!=nil){", "fmt.Errorf", "return^", "}", "aws.Bool", "l2.Names", "l2.Values", "l2.KeyCondition", "aws.Int32", "l2.Projection", "aws.Bool", "aws.String", "r.svc.Query", "if(l3!=nil){", "fmt.Errorf", "return^", "}", "if(len(l4.Items)==0){", "return", "}", "decodeItem", "return^"]
def loadLatestReturns : List String := ["nil,fmt.Errorf", "nil,fmt.Errorf", "nil,nil", "decodeItem(l4.Items[0])"]
def storeSkeleton : List String := ["time.Now", "defer:storeDynamoDBTimer.UpdateSince", "if(p3.ParentKeyMeta!=nil){", "}", "base64.StdEncoding.EncodeToString", "attributevalue.MarshalMap", "if(l3!=nil){", "fmt.Errorf", "return^", "}", "strconv.FormatInt", "aws.String", "aws.String", "r.svc.PutItem", "if(l3!=nil){", "errors.As", "if(errors.As(l3,&l4)){", "fmt.Errorf", "return^", "}", "fmt.Errorf", "return^", "}", "return"]
def storeReturns : List String := ["false,fmt.Errorf", "false,fmt.Errorf", "false,fmt.Errorf", "true,nil"]
def decodeSkeleton : List String := ["attributevalue.UnmarshalMap", "if(l1!=nil){", "fmt.Errorf", "return^", "}", "if(l2==nil){", "fmt.Errorf", "return^", "}", "base64.StdEncoding.DecodeString", "if(l1!=nil){", "fmt.Errorf", "return^", "}", "if(l2.ParentKeyMeta!=nil){", "}", "return"]
def decodeReturns : List String := ["nil,fmt.Errorf", "nil,fmt.Errorf", "nil,fmt.Errorf", "&appencryption.EnvelopeKeyRecord{…},nil"]
def withTableNameSkeleton : List String := ["func{", "if(p0!=\"\"){", "assign:l0.tableName", "}", "}", "return^"]
def itemTags : List (String × String) := [("ID", "Id"), ("Created", "Created"), ("KeyRecord", "KeyRecord")]
def envelopeTags : List (String × String) := [("Revoked", "Revoked,omitempty"), ("Created", "Created"), ("EncryptedKey", "Key"), ("ParentKeyMeta", "ParentKeyMeta,omitempty")]
def keyMetaTags : List (String × String) := [("ID", "KeyId"), ("Created", "Created")]
def envelopeFields : List (String × String) := [("Revoked", "p3.Revoked"), ("Created", "p3.Created"), ("EncryptedKey", "base64.StdEncoding.EncodeToString(p3.EncryptedKey)"), ("ParentKeyMeta", "l0")]
def decodeRecordFields : List (String × String) := [("ID", "l0.ID"), ("Revoked", "l2.Revoked"), ("Created", "l2.Created"), ("EncryptedKey", "l3"), ("ParentKeyMeta", "l4")]
def newSkeleton : List String := ["range(p0){", "l1", "}", "if(l0.svc==nil){", "newDefaultClient", "if(l3!=nil){", "return", "}", "assign:l0.svc", "}", "if(l0.regionSuffixEnabled){", "l0.svc.Options", "assign:l0.regionSuffix", "}", "return"]
end V2
end AsherahVerif.Expected.Metastore
