/-
What engine E1 (`fmt`: Model/Gcm.lean, Model/Codec.lean) ASSUMES about the source, written down by
hand from the documentation (docs/DesignAndArchitecture.md, docs/Metastore.md, the .proto file) and
from the functions the model mirrors.  `Props/C18.lean` proves `Generated.Fmt.x = Expected.Fmt.x`
for every fact below by `decide`; go/cmd/extract/fmt.go regenerates `Generated/Fmt.lean` from the
current tree on every run, so an edit of a tag, a size, a format string or of the shape of
`cryptoFunc.Encrypt/Decrypt` re-opens a proof obligation.

  * sizes: nonce 12, tag 16, AES-256 key 32, static KMS master key 32
  * `cryptoFunc.Encrypt`: buffer of len(data)+16+12, nonce = LAST 12 bytes (random), Seal writes
    ciphertext‖tag at offset 0;  `cryptoFunc.Decrypt`: length check against the nonce size only,
    nonce = data[len-12:], ciphertext‖tag = data[:len-12], gcm.Open does the remaining checks
  * JSON: KeyMeta{KeyId,Created}; DataRowRecord{Key,Data}; EnvelopeKeyRecord{Revoked (omitted unless
    true), Created, Key (base64 of []byte), ParentKeyMeta (omitted when nil)}, `ID` never serialised
  * key ids `_SK_<service>_<product>[_<suffix>]`, `_IK_<partition>_<service>_<product>[_<suffix>]`
  * SQL: table encryption_key(id, created, key_record) with key_record = the EKR JSON text
  * DynamoDB (both plugins): item {Id: S, Created: N, KeyRecord: M{Revoked?: BOOL, Created: N,
    Key: S (base64), ParentKeyMeta?: M{KeyId: S, Created: N}}}
  * protobuf: DataRowRecord{key=1, data=2}, EnvelopeKeyRecord{created=1, key=2, parent_key_meta=3},
    KeyMeta{created=1, key_id=2}; `Revoked` and the record `ID` do not travel
-/
namespace AsherahVerif.Expected.Fmt
def gcmNonceSize : Nat := 12
def gcmTagSize : Nat := 16
def gcmBlockSizeExpr : String := "aes.BlockSize"
def gcmMaxDataSizeExpr : String := "((1<<32)-2)*gcmBlockSize"
def cryptoEncryptSkeleton : List String := ["c", "if(err!=nil){", "return", "}", "if(len(data)>gcmMaxDataSize){", "return", "}", "aeadCipher.Overhead", "if(gcmTagSize!=aeadCipher.Overhead()){", "return", "}", "aeadCipher.NonceSize", "if(gcmNonceSize!=aeadCipher.NonceSize()){", "return", "}", "aeadCipher.NonceSize", "internal.FillRandom", "aeadCipher.Seal", "return"]
def cryptoDecryptSkeleton : List String := ["c", "if(err!=nil){", "return", "}", "aeadCipher.NonceSize", "if(len(data)<aeadCipher.NonceSize()){", "return", "}", "aeadCipher.NonceSize", "aeadCipher.Open", "if(err!=nil){", "fmt.Errorf", "return^", "}", "return"]
def AES256KeySize : Nat := 32
def staticKMSKeySize : Nat := 32
def staticKMSEncryptKeySkeleton : List String := ["func{", "s.Crypto.Encrypt", "return^", "}", "internal.WithKeyFunc", "if(err!=nil){", "return", "}", "return"]
def staticKMSDecryptKeySkeleton : List String := ["func{", "s.Crypto.Decrypt", "return^", "}", "internal.WithKeyFunc", "if(err!=nil){", "return", "}", "return"]
def tagsKeyMeta : List (String × String × String) := [("ID", "string", "KeyId"), ("Created", "int64", "Created")]
def tagsDataRowRecord : List (String × String × String) := [("Key", "*EnvelopeKeyRecord", "Key"), ("Data", "[]byte", "Data")]
def tagsEnvelopeKeyRecord : List (String × String × String) := [("Revoked", "bool", "Revoked,omitempty"), ("ID", "string", "-"), ("Created", "int64", "Created"), ("EncryptedKey", "[]byte", "Key"), ("ParentKeyMeta", "*KeyMeta", "ParentKeyMeta,omitempty")]
def decryptRowSkeleton : List String := ["func{", "crypto.Decrypt", "if(err!=nil){", "return", "}", "defer:internal.MemClr", "crypto.Decrypt", "return^", "}", "internal.WithKeyFunc", "return^"]
def keyIdDefaultPartitionSystemKeyID : List String := ["fmt.Sprintf(\"_SK_%s_%s\",p.service,p.product)"]
def keyIdDefaultPartitionIntermediateKeyID : List String := ["fmt.Sprintf(\"_IK_%s_%s_%s\",p.id,p.service,p.product)"]
def keyIdSuffixedPartitionSystemKeyID : List String := ["fmt.Sprintf(\"_SK_%s_%s_%s\",p.service,p.product,p.suffix)"]
def keyIdSuffixedPartitionIntermediateKeyID : List String := ["fmt.Sprintf(\"_IK_%s_%s_%s_%s\",p.id,p.service,p.product,p.suffix)"]
def sqlLoadKeyQuery : String := "SELECT key_record FROM encryption_key WHERE id = ? AND created = ?"
def sqlStoreKeyQuery : String := "INSERT INTO encryption_key (id, created, key_record) VALUES (?, ?, ?)"
def sqlLoadLatestQuery : String := "SELECT key_record from encryption_key WHERE id = ? ORDER BY created DESC LIMIT 1"
def ddb1AttrNames : List String := ["Id", "Created", "KeyRecord"]
def ddb2AttrNames : List String := ["Id", "Created", "KeyRecord"]
def ddb1Envelope : List (String × String × String) := [("Revoked", "bool", "Revoked,omitempty"), ("Created", "int64", "Created"), ("EncryptedKey", "string", "Key"), ("ParentKeyMeta", "*appencryption.KeyMeta", "ParentKeyMeta,omitempty")]
def ddb2Item : List (String × String × String) := [("ID", "string", "Id"), ("Created", "int64", "Created"), ("KeyRecord", "*envelope", "KeyRecord")]
def ddb2Envelope : List (String × String × String) := [("Revoked", "bool", "Revoked,omitempty"), ("Created", "int64", "Created"), ("EncryptedKey", "string", "Key"), ("ParentKeyMeta", "*keyMeta", "ParentKeyMeta,omitempty")]
def ddb2KeyMeta : List (String × String × String) := [("ID", "string", "KeyId"), ("Created", "int64", "Created")]
def ddb1StoreFields : List String := ["DynamoDBEnvelope.Revoked=envelope.Revoked", "DynamoDBEnvelope.Created=envelope.Created", "DynamoDBEnvelope.EncryptedKey=base64.StdEncoding.EncodeToString(envelope.EncryptedKey)", "DynamoDBEnvelope.ParentKeyMeta=envelope.ParentKeyMeta", "dynamodb.PutItemInput.Item.partitionKey.S=keyID", "dynamodb.PutItemInput.Item.sortKey.N=aws.String(strconv.FormatInt(created,10))", "dynamodb.PutItemInput.Item.keyRecord.M=av", "dynamodb.PutItemInput.TableName=aws.String(d.tableName)", "dynamodb.PutItemInput.ConditionExpression=aws.String(\"attribute_not_exists(\"+partitionKey+\")\")"]
def ddb2StoreFields : List String := ["keyMeta.ID=ekr.ParentKeyMeta.ID", "keyMeta.Created=ekr.ParentKeyMeta.Created", "envelope.Revoked=ekr.Revoked", "envelope.Created=ekr.Created", "envelope.EncryptedKey=base64.StdEncoding.EncodeToString(ekr.EncryptedKey)", "envelope.ParentKeyMeta=km", "dynamodb.PutItemInput.Item.partitionKey.Value=keyID", "dynamodb.PutItemInput.Item.sortKey.Value=strconv.FormatInt(created,10)", "dynamodb.PutItemInput.Item.keyRecord.Value=av", "dynamodb.PutItemInput.TableName=aws.String(d.tableName)", "dynamodb.PutItemInput.ConditionExpression=aws.String(\"attribute_not_exists(\"+partitionKey+\")\")"]
def ddb2DecodeItemFields : List String := ["appencryption.KeyMeta.ID=en.ParentKeyMeta.ID", "appencryption.KeyMeta.Created=en.ParentKeyMeta.Created", "appencryption.EnvelopeKeyRecord.ID=item.ID", "appencryption.EnvelopeKeyRecord.Revoked=en.Revoked", "appencryption.EnvelopeKeyRecord.Created=en.Created", "appencryption.EnvelopeKeyRecord.EncryptedKey=encryptedKey", "appencryption.EnvelopeKeyRecord.ParentKeyMeta=km"]
def toProtobufDRRFields : List String := ["pb.DataRowRecord.Data=drr.Data", "pb.DataRowRecord.Key.Created=drr.Key.Created", "pb.DataRowRecord.Key.Key=drr.Key.EncryptedKey", "pb.DataRowRecord.Key.ParentKeyMeta.Created=drr.Key.ParentKeyMeta.Created", "pb.DataRowRecord.Key.ParentKeyMeta.KeyId=drr.Key.ParentKeyMeta.ID"]
def fromProtobufDRRFields : List String := ["appencryption.DataRowRecord.Data=drr.GetData()", "appencryption.DataRowRecord.Key.EncryptedKey=drr.GetKey().GetKey()", "appencryption.DataRowRecord.Key.Created=drr.GetKey().GetCreated()", "appencryption.DataRowRecord.Key.ParentKeyMeta.ID=drr.GetKey().GetParentKeyMeta().GetKeyId()", "appencryption.DataRowRecord.Key.ParentKeyMeta.Created=drr.GetKey().GetParentKeyMeta().GetCreated()"]
def protoDataRowRecord : List String := ["EnvelopeKeyRecord key=1", "bytes data=2"]
def protoEnvelopeKeyRecord : List String := ["int64 created=1", "bytes key=2", "KeyMeta parent_key_meta=3"]
def protoKeyMeta : List String := ["int64 created=1", "string key_id=2"]
end AsherahVerif.Expected.Fmt
