/-
What Model/Kms.lean assumes about the source of the two AWS KMS plugins (hand-maintained; compare
Generated/Kms.lean, which go/cmd/extract/kms.go regenerates from the tree under check on every run;
Props/C17.lean proves `Generated = Expected`, so an edit of any of these functions re-opens the
obligation to re-read the model).

`DecryptKey` is expected in one of two shapes, selected by `wipe`:
  * `false` — the code as found: the KMS `Plaintext` is never wiped (defect F-7);
  * `true`  — with `internal.MemClr(<output>.Plaintext)` directly after the `Crypto.Decrypt` call.
`wipesV1`/`wipesV2` read which shape the regenerated statements have; the model's `wipe` flag is set from
them (Driver/Kms.lean) and Props/C17.lean proves the regenerated lists equal the expected shape for that flag.
-/
namespace AsherahVerif.Expected.Kms

def wipeMarkerV1 : String := "call internal.MemClr(output.Plaintext)"
def wipeMarkerV2 : String := "call internal.MemClr(resp.Plaintext)"

/-- does the regenerated statement list of v1/v2 `DecryptKey` contain the wipe of the KMS plaintext? -/
def wipes (stmts : List String) (marker : String) : Bool := stmts.contains marker

/-- statements of `sortClients` (aws.go): assignments, returns, go/defer, MemClr calls -/
def v1SortClientsStmts : List String :=
  ["return clients[i].Region==preferredRegion", "return clients"]
/-- statements of `encryptAllRegions` (aws.go): assignments, returns, go/defer, MemClr calls -/
def v1EncryptAllRegionsStmts : List String :=
  ["results:=make(<*ast.ChanType>,len(clients))", "range clients", "c:=&clients[i]", "if c.ARN==*resp.KeyId", "results<-encryptionKey{…}", "go func", "defer wg.Done()", "defer encryptKeyTimer.UpdateSince(time.Now())", "encResp,err:=c.KMS.EncryptWithContext(ctx,&kms.EncryptInput{…})", "if err!=nil", "return ", "results<-encryptionKey{…}", "go func", "defer close(results)", "return results"]
/-- statements of `AWSKMS.EncryptKey` (aws.go): assignments, returns, go/defer, MemClr calls -/
def v1EncryptKeyStmts : List String :=
  ["dataKey,err:=generateDataKeyFunc(ctx,m.Clients)", "if err!=nil", "return nil,err", "defer internal.MemClr(dataKey.Plaintext)", "call internal.MemClr(dataKey.Plaintext)", "encKeyBytes,err:=m.Crypto.Encrypt(keyBytes,dataKey.Plaintext)", "if err!=nil", "return nil,err", "kekEn:=envelope{…}", "range encryptAllRegionsFunc(ctx,dataKey,m.Clients)", "kekEn.KMSKEKs=append(kekEn.KMSKEKs,k)", "b,err:=json.Marshal(kekEn)", "if err!=nil", "return nil,err", "return b,nil"]
/-- statements of `AWSKMS.DecryptKey` (aws.go): assignments, returns, go/defer, MemClr calls -/
def v1DecryptKeyStmts (wipe : Bool) : List String :=
  ["if err!=nil", "err:=json.Unmarshal(keyBytes,&en)", "return nil,fmt.Errorf(\"unable to unmarshal envelope: %w\",err)", "range m.Clients", "c:=&m.Clients[i]", "if key!=nil", "key:=en.KMSKEKs.get(c.Region)", "start:=time.Now()", "output,err:=c.KMS.DecryptWithContext(ctx,&kms.DecryptInput{…})", "if err!=nil", "continue", "decryptedKeyBytes,err:=m.Crypto.Decrypt(en.EncryptedKey,output.Plaintext)"] ++
  (if wipe then [wipeMarkerV1] else []) ++
  ["if err!=nil", "continue", "return decryptedKeyBytes,nil", "return nil,errors.New(\"decrypt failed in all regions\")"]
/-- statements of `Builder.Build` (builder.go): assignments, returns, go/defer, MemClr calls -/
def v2BuildStmts : List String :=
  ["if b.factory==nil", "b.factory=DefaultKMSFactory", "if !b.usingCustomCfg", "cfg,err:=config.LoadDefaultConfig(context.Background())", "if err!=nil", "return nil,fmt.Errorf(\"unable to load default AWS config: %w\",err)", "b.cfg=cfg", "if b.preferredRegion==\"\"&&len(b.arnMap)>1", "return nil,errors.New(\"preferred region must be set when using multiple regions\")", "range b.arnMap", "cfg:=b.cfg.Copy()", "cfg.Region=region", "client:=regionalClient{…}", "if region==b.preferredRegion", "clients=append(?{…},clients)", "clients=append(clients,client)", "return &AWSKMS{…},nil"]
/-- statements of `AWSKMS.encryptAllRegions` (kms.go): assignments, returns, go/defer, MemClr calls -/
def v2EncryptAllRegionsStmts : List String :=
  ["range a.clients", "if c.MasterKeyARN==*dataKey.KeyId", "ch<-regionalKEK{…}", "continue", "go func", "defer wg.Done()", "resp,err:=c.EncryptKey(ctx,dataKey.Plaintext)", "if err!=nil", "return ", "ch<-regionalKEK{…}"]
/-- statements of `AWSKMS.EncryptKey` (kms.go): assignments, returns, go/defer, MemClr calls -/
def v2EncryptKeyStmts : List String :=
  ["dataKey,err:=a.generateDataKey(ctx)", "if err!=nil", "return nil,err", "defer internal.MemClr(dataKey.Plaintext)", "call internal.MemClr(dataKey.Plaintext)", "encKeyBytes,err:=a.crypto.Encrypt(keyBytes,dataKey.Plaintext)", "if err!=nil", "return nil,fmt.Errorf(\"error encrypting key: %w\",err)", "kekEn:=envelope{…}", "b,err:=json.Marshal(kekEn)", "if err!=nil", "return nil,fmt.Errorf(\"error marshalling envelope: %w\",err)", "return b,nil"]
/-- statements of `AWSKMS.DecryptKey` (kms.go): assignments, returns, go/defer, MemClr calls -/
def v2DecryptKeyStmts (wipe : Bool) : List String :=
  ["if err!=nil", "err:=json.Unmarshal(data,&kekEn)", "return nil,fmt.Errorf(\"unable to unmarshal envelope: %w\",err)", "keks:=make(<*ast.MapType>,len(kekEn.KEKs))", "range kekEn.KEKs", "keks[kek.Region]=kek", "range a.clients", "kek,ok:=keks[c.Region]", "if !ok", "continue", "resp,err:=c.DecryptKey(ctx,kek.EncryptedKEK)", "if err!=nil", "continue", "keyBytes,err:=a.crypto.Decrypt(kekEn.EncryptedKey,resp.Plaintext)"] ++
  (if wipe then [wipeMarkerV2] else []) ++
  ["if err!=nil", "continue", "return keyBytes,nil", "return nil,errors.New(\"decrypt failed in all regions\")"]
/-- skeleton of `sortClients` (aws.go) -/
def v1SortClients : List String :=
  ["func{", "return", "}", "sort.SliceStable", "return"]
/-- skeleton of `NewAWS` (aws.go) -/
def v1NewAWS : List String :=
  ["awsARNMap", "newAWS", "return^"]
/-- skeleton of `newAWS` (aws.go) -/
def v1newAWS : List String :=
  ["arnMap.createAWSKMSClients", "if(err!=nil){", "return", "}", "sortClients", "return^"]
/-- skeleton of `createAWSKMSClients` (aws.go) -/
def v1CreateClients : List String :=
  ["session.NewSession", "if(err!=nil){", "fmt.Errorf", "return^", "}", "range(arnMap){", "newAWSKMSClient", "}", "return"]
/-- skeleton of `keys.get` (aws.go) -/
def v1KeysGet : List String :=
  ["range(k){", "if(k[i].Region==region){", "return", "}", "}", "return"]
/-- skeleton of `AWSKMS.EncryptKey` (aws.go) -/
def v1EncryptKey : List String :=
  ["generateDataKeyFunc", "if(err!=nil){", "return", "}", "defer:internal.MemClr", "m.Crypto.Encrypt", "if(err!=nil){", "return", "}", "encryptAllRegionsFunc", "range(encryptAllRegionsFunc(ctx,dataKey,m.Clients)){", "assign:kekEn.KMSKEKs", "}", "json.Marshal", "if(err!=nil){", "return", "}", "return"]
/-- skeleton of `encryptAllRegions` (aws.go) -/
def v1EncryptAllRegions : List String :=
  ["range(clients){", "if(c.ARN==*resp.KeyId){", "results<-", "}else{", "wg.Add", "go:func", "}", "}", "go:func", "return"]
/-- skeleton of `generateDataKey` (aws.go) -/
def v1GenerateDataKey : List String :=
  ["range(clients){", "time.Now", "aws.String", "c.KMS.GenerateDataKeyWithContext", "generateDataKeyTimer.UpdateSince", "if(err!=nil){", "continue", "}", "return", "}", "return"]
/-- skeleton of `AWSKMS.DecryptKey` (aws.go) -/
def v1DecryptKey (wipe : Bool) : List String :=
  ["json.Unmarshal", "if(err!=nil){", "fmt.Errorf", "return^", "}", "range(m.Clients){", "en.KMSKEKs.get", "if(key!=nil){", "time.Now", "c.KMS.DecryptWithContext", "decryptKeyTimer.UpdateSince", "if(err!=nil){", "continue", "}", "m.Crypto.Decrypt"] ++
  (if wipe then ["internal.MemClr"] else []) ++
  ["if(err!=nil){", "continue", "}", "return", "}", "}", "return"]
/-- json tags of struct `envelope` (aws.go), in field order -/
def v1EnvelopeTags : List (String × String) :=
  [("EncryptedKey", "encryptedKey"), ("KMSKEKs", "kmsKeks")]
/-- json tags of struct `encryptionKey` (aws.go), in field order -/
def v1KekTags : List (String × String) :=
  [("Region", "region"), ("ARN", "arn"), ("EncryptedKEK", "encryptedKek")]
/-- skeleton of `NewAWS` (kms.go) -/
def v2NewAWS : List String :=
  ["NewBuilder", "NewBuilder(crypto,arnMap).WithPreferredRegion", "NewBuilder(crypto,arnMap).WithPreferredRegion(preferredRegion).Build", "return^"]
/-- skeleton of `NewBuilder` (builder.go) -/
def v2NewBuilder : List String :=
  ["if(len(arnMap)==0){", "panic", "}", "return"]
/-- skeleton of `Builder.Build` (builder.go) -/
def v2Build : List String :=
  ["if(b.factory==nil){", "assign:b.factory", "}", "if(!b.usingCustomCfg){", "context.Background", "config.LoadDefaultConfig", "if(err!=nil){", "fmt.Errorf", "return^", "}", "assign:b.cfg", "}", "if(b.preferredRegion==\"\"&&len(b.arnMap)>1){", "return", "}", "range(b.arnMap){", "b.cfg.Copy", "assign:cfg.Region", "b.factory", "if(region==b.preferredRegion){", "}else{", "}", "}", "return"]
/-- skeleton of `AWSKMS.EncryptKey` (kms.go) -/
def v2EncryptKey : List String :=
  ["a.generateDataKey", "if(err!=nil){", "return", "}", "defer:internal.MemClr", "a.crypto.Encrypt", "if(err!=nil){", "fmt.Errorf", "return^", "}", "a.encryptRegionalKEKs", "json.Marshal", "if(err!=nil){", "fmt.Errorf", "return^", "}", "return"]
/-- skeleton of `AWSKMS.generateDataKey` (kms.go) -/
def v2GenerateDataKey : List String :=
  ["range(a.clients){", "c.GenerateDataKey", "if(err!=nil){", "continue", "}", "return", "}", "return"]
/-- skeleton of `AWSKMS.encryptRegionalKEKs` (kms.go) -/
def v2EncryptRegionalKEKs : List String :=
  ["go:a.encryptAllRegions", "range(ch){", "}", "return"]
/-- skeleton of `AWSKMS.encryptAllRegions` (kms.go) -/
def v2EncryptAllRegions : List String :=
  ["range(a.clients){", "if(c.MasterKeyARN==*dataKey.KeyId){", "ch<-", "continue", "}", "wg.Add", "go:func", "}", "wg.Wait", "close"]
/-- skeleton of `AWSKMS.DecryptKey` (kms.go) -/
def v2DecryptKey (wipe : Bool) : List String :=
  ["json.Unmarshal", "if(err!=nil){", "fmt.Errorf", "return^", "}", "range(kekEn.KEKs){", "assign:keks[kek.Region]", "}", "range(a.clients){", "if(!ok){", "continue", "}", "c.DecryptKey", "if(err!=nil){", "continue", "}", "a.crypto.Decrypt"] ++
  (if wipe then ["internal.MemClr"] else []) ++
  ["if(err!=nil){", "continue", "}", "return", "}", "return"]
/-- skeleton of `regionalClient.GenerateDataKey` (kms.go) -/
def v2ClientGenerateDataKey : List String :=
  ["time.Now", "r.Client.GenerateDataKey", "generateDataKeyTimer.UpdateSince", "return"]
/-- skeleton of `regionalClient.EncryptKey` (kms.go) -/
def v2ClientEncryptKey : List String :=
  ["time.Now", "defer:encryptKeyTimer.UpdateSince", "r.Client.Encrypt", "return^"]
/-- skeleton of `regionalClient.DecryptKey` (kms.go) -/
def v2ClientDecryptKey : List String :=
  ["time.Now", "defer:decryptKeyTimer.UpdateSince", "r.Client.Decrypt", "return^"]
/-- json tags of struct `envelope` (kms.go), in field order -/
def v2EnvelopeTags : List (String × String) :=
  [("EncryptedKey", "encryptedKey"), ("KEKs", "kmsKeks")]
/-- json tags of struct `regionalKEK` (kms.go), in field order -/
def v2KekTags : List (String × String) :=
  [("Region", "region"), ("ARN", "arn"), ("EncryptedKEK", "encryptedKek")]
def v1GenerateDataKeyFunc : String := "generateDataKey"
def v1EncryptAllRegionsFunc : String := "encryptAllRegions"

end AsherahVerif.Expected.Kms
