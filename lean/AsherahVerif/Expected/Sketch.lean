/-
What C15b's theorems ASSUME about go/appencryption/pkg/cache/internal/{sketch.go,filter.go} beyond the
index arithmetic (which is translated, not assumed): the complete list of slice index expressions of
the two files (the only places the frequency sketch / doorkeeper can fault), the loops that call
`position` / `inc` / `val`, and the statements of the two `Init` functions that size the slices -
vetted by hand: `len(c.counters) = size`, `c.mask = size - 1`, `size >= 1`;
`len(f.bits) = int(numBits+63)/64`, `f.bitsMask = numBits - 1`, `numBits >= 1`.
`Props/C15b.lean` proves `Generated.Sketch.x = Expected.Sketch.x`.
-/
namespace AsherahVerif.Expected.Sketch
def sketchDepth : Nat := 4
def add_indexArg : String := "idx"
def add_loops : List String := ["i:=uint32(0);i<sketchDepth;i++"]
def estimate_indexArg : String := "idx"
def estimate_loops : List String := ["i:=uint32(0);i<sketchDepth;i++"]
def indexSites : List String := ["Reset: c.counters[i]", "Reset: f.bits[i]", "clear: c.counters[i]", "get: f.bits[idx]", "inc: c.counters[idx]", "set: f.bits[idx]", "val: c.counters[idx]"]
def sketchInit : List String := ["size:=nextPowerOfTwo(uint32(width))>>2", "if size<1 {", "size=1", "}", "c.mask=size-1", "if len(c.counters)==int(size) {", "c.clear()", "} else {", "c.counters=make([]uint64,size)", "}"]
def filterInit : List String := ["ln2:=math.Log(2.0)", "factor:=-math.Log(fpp)/(ln2*ln2)", "numBits:=nextPowerOfTwo(uint32(float64(ins)*factor))", "if numBits==0 {", "numBits=1", "}", "f.bitsMask=numBits-1", "if ins==0 {", "f.numHashes=1", "} else {", "f.numHashes=uint32(ln2*float64(numBits)/float64(ins))", "}", "size:=int(numBits+63)/64", "if len(f.bits)!=size {", "f.bits=make([]uint64,size)", "} else {", "f.Reset()", "}"]
end AsherahVerif.Expected.Sketch
