/-
What the `secmem` model (Model/SecMem.lean) and the C11 / C12 theorems ASSUME about the source of
go/securememory — written by hand.  `Props/C12.lean` and `Props/C11.lean` prove
`Generated.SecMem.x = Expected.SecMem.x` for each function skeleton; when one of these functions is
edited in /repo the regenerated side changes and that equality (a proof obligation) no longer checks.

The creation functions have *parametric* expectations: the only accepted variation is the presence
of the wipe in front of each failure-path cleanup (defect F-6 and its repair), which is exactly what
`Model.SecMem.Cfg` parameterises the model by.  `cfgTokens` reads those flags off the regenerated
skeletons; the theorems then hold for the code as it is (repaired or not), and any other edit of
these functions re-opens the obligation.

Where each fact is used by the model:
* `pmAccess/mgAccess`      whole body under `s.rw.Lock()`; closing/closed check first; `Protect(ReadOnly)`
                           only when the counter is 0; the increment only after a successful Protect (`access`).
* `pmRelease/mgRelease`    under the lock; decrement first; `Protect(NoAccess)` when the counter reaches 0;
                           `defer s.c.Broadcast()` (`release`, `signalAll`).
* `pmClose/mgClose`        under the lock: `closing = true`, then loop { closed → return; counter == 0 → close;
                           `s.c.Wait()` } (`closeBody`, `close`, `closeStep`).
* `pmCloseInner`           Protect(ReadWrite), `core.Wipe`, Unlock, Free — each error returns before the next
                           step — then `closed = true`, `InUseCounter.Dec` (`pmClose`).
* `pmNewSecret`            size check, Alloc, Lock, Free on failed Lock (`pmNewSecret`).
* `pmNew/pmCreateRandomInner/mgNewFromBuffer`  (`pmNew`, `pmRand`, `mgFromBuffer`), parametric in the wipes.
* `memcallClean`           Unlock then Free, both attempted (`Run.clean`).
* `wrap*`                  `memcall.Default` forwards 1:1 to github.com/awnumar/memcall.
(The extractor prints every local error variable as `err`: `if(err2!=nil){` appears as `if(err!=nil){`.)
* `pmWithBytes…/readerRead` access; deferred release (errors combined); action (`withBytes`, `readerStep`).
-/
namespace AsherahVerif.Expected.SecMem

def pmAccess : List String := ["s.rw.Lock", "defer:s.rw.Unlock", "if(s.closing||s.closed){", "errors.WithStack", "return^", "}", "if(s.accessCounter==0){", "memcall.ReadOnly", "s.mc.Protect", "if(err!=nil){", "errors.WithMessage", "return^", "}", "}", "assign:s.accessCounter++", "return"]
def pmRelease : List String := ["s.rw.Lock", "defer:s.rw.Unlock", "defer:s.c.Broadcast", "assign:s.accessCounter--", "if(s.accessCounter==0){", "memcall.NoAccess", "s.mc.Protect", "if(err!=nil){", "errors.WithMessage", "return^", "}", "}", "return"]
def pmIsClosed : List String := ["s.rw.RLock", "defer:s.rw.RUnlock", "return"]
def pmClose : List String := ["s.rw.Lock", "defer:s.rw.Unlock", "assign:s.closing", "for(){", "if(s.closed){", "return", "}", "if(s.accessCounter==0){", "s.close", "return^", "}", "s.c.Wait", "}"]
def pmCloseInner : List String := ["memcall.ReadWrite", "s.mc.Protect", "if(err!=nil){", "return", "}", "core.Wipe", "s.mc.Unlock", "if(err!=nil){", "return", "}", "s.mc.Free", "if(err!=nil){", "return", "}", "assign:s.bytes", "assign:s.closed", "securememory.InUseCounter.Dec", "return"]
def withBytes : List String := ["s.access", "if(err!=nil){", "return", "}", "defer:func{", "s.release", "if(err!=nil){", "if(err==nil){", "return", "}", "err.Error", "errors.WithMessage", "return", "}", "}", "action", "return^"]
def mgWithBytes : List String := ["s.access", "if(err!=nil){", "return", "}", "defer:func{", "s.release", "if(err!=nil){", "if(err==nil){", "return", "}", "err.Error", "errors.WithMessage", "return", "}", "}", "s.buffer.Bytes", "action", "return^"]
def pmCreateRandom : List String := ["f.createRandom", "return^"]
def pmNewSecret : List String := ["if(size<1){", "return", "}", "mc.Alloc", "if(err!=nil){", "return", "}", "mc.Lock", "if(err!=nil){", "mc.Free", "if(err!=nil){", "err.Error", "errors.Wrap", "}", "return", "}", "sync.NewCond", "if(log.DebugEnabled()){", "assign:internal.externalAddr", "debug.Stack", "assign:internal.stack", "}", "func{", "go:internal.Finalize", "}", "runtime.SetFinalizer", "return"]
def newReader : List String := ["secrets.NewReader", "return^"]

def mgAccess : List String := ["s.rw.Lock", "defer:s.rw.Unlock", "s.buffer.IsAlive", "if(s.closing||!s.buffer.IsAlive()){", "errors.WithStack", "return^", "}", "if(s.accessCounter==0){", "s.buffer.Inner", "memcall.ReadOnly", "s.mc.Protect", "if(err!=nil){", "errors.WithMessage", "return^", "}", "}", "assign:s.accessCounter++", "return"]
def mgRelease : List String := ["s.rw.Lock", "defer:s.rw.Unlock", "defer:s.c.Broadcast", "assign:s.accessCounter--", "if(s.accessCounter==0){", "s.buffer.Inner", "memcall.NoAccess", "s.mc.Protect", "if(err!=nil){", "errors.WithMessage", "return^", "}", "}", "return"]
def mgIsClosed : List String := ["s.rw.RLock", "defer:s.rw.RUnlock", "s.buffer.IsAlive", "return^"]
def mgClose : List String := ["s.rw.Lock", "defer:s.rw.Unlock", "assign:s.closing", "for(){", "s.buffer.IsAlive", "if(!s.buffer.IsAlive()){", "return", "}", "if(s.accessCounter==0){", "s.buffer.Destroy", "securememory.InUseCounter.Dec", "return", "}", "s.c.Wait", "}"]
def mgNew : List String := ["time.Now", "defer:AllocTimer.UpdateSince", "memguard.NewBufferFromBytes", "f.newFromBuffer", "return^"]
def mgCreateRandom : List String := ["time.Now", "defer:AllocTimer.UpdateSince", "memguard.NewBufferRandom", "f.newFromBuffer", "return^"]

def memcallClean : List String := ["c.Unlock", "if(err!=nil){", "errors.WithStack", "}", "c.Free", "if(err!=nil){", "errors.WithStack", "if(err==nil){", "}else{", "err.Error", "errors.Wrap", "}", "}", "return"]
def wrapAlloc : List String := ["memcall.Alloc", "return^"]
def wrapProtect : List String := ["memcall.Protect", "return^"]
def wrapLock : List String := ["memcall.Lock", "return^"]
def wrapUnlock : List String := ["memcall.Unlock", "return^"]
def wrapFree : List String := ["memcall.Free", "return^"]
def readerRead : List String := ["func{", "if(r.i>=len(b)){", "return", "}", "copy", "assign:r.i", "if(r.i>=len(b)){", "return", "}", "return", "}", "r.secret.WithBytes", "return"]
def readerNew : List String := ["return"]
def closedErr : String := "secret has already been destroyed"

def opt (b : Bool) (toks : List String) : List String := if b then toks else []

/-- `SecretFactory.New` of protectedmemory: `wipeArg` = `core.Wipe(b)` before returning newSecret's
error; `wipeProt` = `core.Wipe(secret.bytes)` before `memcall.Clean` when Protect fails. -/
def pmNew (wipeArg wipeProt : Bool) : List String :=
  ["time.Now", "defer:AllocTimer.UpdateSince", "f.memcall", "newSecret", "if(err!=nil){"] ++ opt wipeArg ["core.Wipe"] ++
  ["return", "}", "subtle.ConstantTimeCopy", "core.Wipe", "memcall.NoAccess", "f.memcall", "f.memcall().Protect", "if(err!=nil){"] ++
  opt wipeProt ["core.Wipe"] ++
  ["f.memcall", "memcall.Clean", "if(err!=nil){", "err.Error", "errors.Wrap", "}", "return", "}",
   "securememory.AllocCounter.Inc", "securememory.InUseCounter.Inc", "return"]

/-- `createRandom`: `wipeRand` / `wipeProt` = `core.Wipe(s.bytes)` before the cleanup of the failed
random read / the failed Protect. -/
def pmCreateRandomInner (wipeRand wipeProt : Bool) : List String :=
  ["time.Now", "defer:AllocTimer.UpdateSince", "f.memcall", "newSecret", "if(err!=nil){", "return", "}", "readFunc", "if(err!=nil){"] ++
  opt wipeRand ["core.Wipe"] ++
  ["f.memcall", "memcall.Clean", "if(err!=nil){", "err.Error", "errors.Wrap", "}", "return", "}",
   "memcall.NoAccess", "f.memcall", "f.memcall().Protect", "if(err!=nil){"] ++
  opt wipeProt ["core.Wipe"] ++
  ["f.memcall", "f.memcall().Unlock", "if(err!=nil){", "err.Error", "errors.Wrap", "}",
   "f.memcall", "f.memcall().Free", "if(err!=nil){", "err.Error", "errors.Wrap", "}", "return", "}",
   "securememory.AllocCounter.Inc", "securememory.InUseCounter.Inc", "return"]

/-- memguard `newFromBuffer`: `wipe` = `lb.Melt(); lb.Wipe()` before `memcall.Clean(…, lb.Inner())`. -/
def mgNewFromBuffer (wipe : Bool) : List String :=
  ["lb.IsAlive", "if(!lb.IsAlive()){", "errors.WithStack", "return^", "}", "lb.Inner", "memcall.NoAccess", "f.memcall",
   "f.memcall().Protect", "if(err!=nil){"] ++ opt wipe ["lb.Melt", "lb.Wipe"] ++
  ["f.memcall", "lb.Inner", "memcall.Clean", "if(err!=nil){", "err.Error", "errors.Wrap", "}", "return", "}",
   "securememory.AllocCounter.Inc", "securememory.InUseCounter.Inc", "sync.NewCond", "f.memcall", "return^"]

/-! ### reading facts off a skeleton -/

def hasInfix : List String → List String → Bool
  | [], pat => pat.isEmpty
  | x :: xs, pat => pat.isPrefixOf (x :: xs) || hasInfix xs pat

/-- index of the first occurrence of a token. -/
def indexOf (tok : String) : List String → Option Nat
  | [] => none
  | x :: xs => if x == tok then some 0 else (indexOf tok xs).map (· + 1)

def before (skel : List String) (a b : String) : Bool :=
  match indexOf a skel, indexOf b skel with
  | some i, some j => i < j
  | _, _ => false

/-- the five F-6 flags, read off the regenerated skeletons of New / createRandom / newFromBuffer. -/
structure CfgTokens where
  wipeArgOnNewFail : Bool
  wipeOnNewProtectFail : Bool
  wipeOnRandFail : Bool
  wipeOnRandProtectFail : Bool
  mgWipeOnProtectFail : Bool
deriving DecidableEq, Repr

def cfgTokens (pmNewSk pmRandSk mgBufSk : List String) : CfgTokens :=
  { wipeArgOnNewFail := hasInfix pmNewSk ["newSecret", "if(err!=nil){", "core.Wipe", "return", "}"]
    wipeOnNewProtectFail := hasInfix pmNewSk ["f.memcall().Protect", "if(err!=nil){", "core.Wipe", "f.memcall", "memcall.Clean"]
    wipeOnRandFail := hasInfix pmRandSk ["readFunc", "if(err!=nil){", "core.Wipe", "f.memcall", "memcall.Clean"]
    wipeOnRandProtectFail := hasInfix pmRandSk ["f.memcall().Protect", "if(err!=nil){", "core.Wipe", "f.memcall", "f.memcall().Unlock"]
    mgWipeOnProtectFail := hasInfix mgBufSk ["f.memcall().Protect", "if(err!=nil){", "lb.Melt", "lb.Wipe", "f.memcall", "lb.Inner", "memcall.Clean"] }

/-- the protocol facts the interleaving model is parameterised by, read off the skeletons of
access / release / Close / close. -/
structure ProtoTokens where
  accessUnderMutex : Bool          -- access = Lock; defer Unlock; …
  accessChecksClosing : Bool       -- the closing/closed test precedes Protect and the increment
  counterIncrUnderMutex : Bool     -- `accessCounter++` after the Lock, only reached past the Protect error return
  releaseUnderMutex : Bool
  releaseBroadcasts : Bool         -- defer s.c.Broadcast()
  closeSetsClosingFirst : Bool     -- Lock; defer Unlock; closing = true; for { … }
  closeWaitsForZeroReaders : Bool  -- `if counter == 0 { close }` is the only way to close; otherwise `s.c.Wait()`
  wipeBeforeUnlock : Bool          -- close(): Protect(RW) < core.Wipe < Unlock < Free
deriving DecidableEq, Repr

def protoTokens (acc rel cls inner : List String) (closeCall closedTest : String) : ProtoTokens :=
  { accessUnderMutex := ["s.rw.Lock", "defer:s.rw.Unlock"].isPrefixOf acc
    accessChecksClosing := before acc closedTest "s.mc.Protect" && before acc closedTest "assign:s.accessCounter++"
    counterIncrUnderMutex := before acc "s.rw.Lock" "assign:s.accessCounter++" &&
      hasInfix acc ["s.mc.Protect", "if(err!=nil){", "errors.WithMessage", "return^", "}", "}", "assign:s.accessCounter++"]
    releaseUnderMutex := ["s.rw.Lock", "defer:s.rw.Unlock"].isPrefixOf rel &&
      hasInfix rel ["assign:s.accessCounter--", "if(s.accessCounter==0){"]
    releaseBroadcasts := rel.contains "defer:s.c.Broadcast"
    closeSetsClosingFirst := ["s.rw.Lock", "defer:s.rw.Unlock", "assign:s.closing", "for(){"].isPrefixOf cls
    closeWaitsForZeroReaders := hasInfix cls ["if(s.accessCounter==0){", closeCall] &&
      (cls.filter (· == closeCall)).length == 1 && before cls closeCall "s.c.Wait"
    wipeBeforeUnlock := inner.isEmpty ||
      (before inner "s.mc.Protect" "core.Wipe" && before inner "core.Wipe" "s.mc.Unlock" && before inner "s.mc.Unlock" "s.mc.Free") }

end AsherahVerif.Expected.SecMem
