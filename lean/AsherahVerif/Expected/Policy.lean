/-
What the models and theorems ASSUME about go/appencryption/policy.go - vetted by hand against
docs/ (CryptoPolicy) and the option documentation: which fields every PolicyOption assigns (and no
others), the defaults of NewCryptoPolicy, and how creation stamps are computed.  The harnesses set
the policy fields directly, so nothing else would notice an option that sets the wrong field.
`Props/C20.lean` proves `Generated.Policy.x = Expected.Policy.x`.
-/
namespace AsherahVerif.Expected.Policy
/-- every function returning a PolicyOption: its parameters and the fields it assigns -/
def options : List String := ["WithRevokeCheckInterval(d): policy.RevokeCheckInterval=d", "WithExpireAfterDuration(d): policy.ExpireKeyAfter=d", "WithNoCache(): policy.CacheSystemKeys=false; policy.CacheIntermediateKeys=false", "WithSharedIntermediateKeyCache(capacity): policy.SharedIntermediateKeyCache=true; policy.IntermediateKeyCacheMaxSize=capacity", "WithSessionCache(): policy.CacheSessions=true", "WithSessionCacheMaxSize(size): policy.SessionCacheMaxSize=size", "WithSessionCacheDuration(d): policy.SessionCacheDuration=d"]
/-- the literal NewCryptoPolicy starts from -/
def defaults : List String := ["ExpireKeyAfter=DefaultExpireAfter", "RevokeCheckInterval=DefaultRevokedCheckInterval", "CreateDatePrecision=DefaultCreateDatePrecision", "CacheSystemKeys=true", "CacheIntermediateKeys=true", "IntermediateKeyCacheMaxSize=DefaultKeyCacheMaxSize", "SystemKeyCacheMaxSize=DefaultKeyCacheMaxSize", "SharedIntermediateKeyCache=false", "CacheSessions=false", "SessionCacheMaxSize=DefaultSessionCacheMaxSize", "SessionCacheDuration=DefaultSessionCacheDuration"]
def constants : List String := ["DefaultExpireAfter=time.Hour*24*90", "DefaultRevokedCheckInterval=time.Minute*60", "DefaultCreateDatePrecision=time.Minute", "DefaultKeyCacheMaxSize=1000", "DefaultSessionCacheMaxSize=1000", "DefaultSessionCacheDuration=time.Hour*2"]
def newCryptoPolicySkeleton : List String := ["range(opts){", "opt", "}", "return"]
def newKeyTimestampSkeleton : List String := ["if(truncate>0){", "time.Now", "time.Now().Truncate", "time.Now().Truncate(truncate).Unix", "return^", "}", "time.Now", "time.Now().Unix", "return^"]
def newKeyTimestampReturns : List String := ["time.Now().Truncate(truncate).Unix()", "time.Now().Unix()"]
end AsherahVerif.Expected.Policy
