/-
What Model/Server.lean assumes about /repo/server/go/pkg/server/server.go and
/repo/server/protos/appencryption.proto, in the vocabulary of go/cmd/extract/server.go
(goast.Skeleton tokens, result expressions of the return statements, type-switch cases, proto field
table).  Props/C19.lean proves `Generated.Server.… = Expected.Server.…` for every fact, so an edit of
one of these functions re-opens the obligation.

Two variants of `defaultHandler.Encrypt/Decrypt/Close` are expected:
  * `Unfixed`: the code as found (no test of `h.session == nil`) — model parameter `Guards.unfixed`;
  * `Fixed`:   the F-10 repair (pending_fixes/F10-server.diff) — model parameter `Guards.fixed`.
Hand-written; not regenerated.
-/
namespace AsherahVerif.Expected.Server
/-- AppEncryption.Session -/
def session : List String := ["a.NewStreamer", "s.Stream", "return^"]
def sessionReturns : List String := ["s.Stream(stream)"]
/-- streamer.NewHandler -/
def newHandler : List String := ["if(s.handlerFactory!=nil){", "s.handlerFactory.NewHandler", "return^", "}", "return"]
def newHandlerReturns : List String := ["s.handlerFactory.NewHandler()", "&defaultHandler{…}"]
/-- streamer.Stream -/
def stream : List String := ["defer:func{", "if(s.handler!=nil){", "s.handler.Close", "}", "}", "for(){", "stream.Recv", "errors.Is", "if(errors.Is(err,io.EOF)){", "return", "}", "if(err!=nil){", "return", "}", "stream.Context", "s.handleRequest", "stream.Send", "if(err!=nil){", "err.Error", "return", "}", "}"]
def streamReturns : List String := ["nil", "err", "err"]
/-- streamer.handleRequest -/
def handleRequest : List String := ["typeswitch{", "case:", "if(s.handler==nil){", "return", "}", "s.handler.Decrypt", "return^", "case:", "if(s.handler==nil){", "return", "}", "s.handler.Encrypt", "return^", "case:", "if(s.handler!=nil){", "return", "}", "s.NewHandler", "assign:s.handler", "s.handler.GetSession", "return^", "}", "return"]
def handleRequestReturns : List String := ["UninitializedSessionResponse", "s.handler.Decrypt(ctx,in)", "UninitializedSessionResponse", "s.handler.Encrypt(ctx,in)", "SessionAlreadyInitializedResponse", "s.handler.GetSession(in)", "nil"]
/-- subject and case types of the type switch in handleRequest -/
def handleRequestCases : List String := ["switch:in.GetRequest().(type)", "case:*pb.SessionRequest_Decrypt", "case:*pb.SessionRequest_Encrypt", "case:*pb.SessionRequest_GetSession"]
/-- defaultHandler.GetSession -/
def getSession : List String := ["r.GetGetSession", "r.GetGetSession().GetPartitionId", "assign:h.partition", "h.sessionFactory.GetSession", "if(err!=nil){", "err.Error", "newErrorResponse", "return^", "}", "assign:h.session", "return"]
def getSessionReturns : List String := ["newErrorResponse(err.Error())", "new(pb.SessionResponse)"]
/-- fromProtobufDRR -/
def fromProtobufDRR : List String := ["drr.GetData", "drr.GetKey", "drr.GetKey().GetKey", "drr.GetKey", "drr.GetKey().GetCreated", "drr.GetKey", "drr.GetKey().GetParentKeyMeta", "drr.GetKey().GetParentKeyMeta().GetKeyId", "drr.GetKey", "drr.GetKey().GetParentKeyMeta", "drr.GetKey().GetParentKeyMeta().GetCreated", "return^"]
def fromProtobufDRRReturns : List String := ["&appencryption.DataRowRecord{…}"]
/-- toProtobufDRR -/
def toProtobufDRR : List String := ["return"]
def toProtobufDRRReturns : List String := ["&pb.DataRowRecord{…}"]
/-- field paths toProtobufDRR reads off the SDK's record (each pointer hop is a nil dereference if absent) -/
def toProtobufDRRReads : List String := ["drr.Data", "drr.Key.Created", "drr.Key.EncryptedKey", "drr.Key.ParentKeyMeta.Created", "drr.Key.ParentKeyMeta.ID"]
/-! response literals and the record mapping: `toProtobufDRR` and `fromProtobufDRR` are inverse field by field -/
/-- the composite literals defaultHandler.Encrypt returns, flattened to field-path:value -/
def encryptFields : List String := ["Response.EncryptResponse.DataRowRecord:toProtobufDRR(drr)"]
/-- the composite literals defaultHandler.Decrypt returns, flattened to field-path:value -/
def decryptFields : List String := ["Response.DecryptResponse.Data:data"]
/-- the composite literals fromProtobufDRR returns, flattened to field-path:value -/
def fromProtobufDRRFields : List String := ["Data:drr.GetData()", "Key.EncryptedKey:drr.GetKey().GetKey()", "Key.Created:drr.GetKey().GetCreated()", "Key.ParentKeyMeta.ID:drr.GetKey().GetParentKeyMeta().GetKeyId()", "Key.ParentKeyMeta.Created:drr.GetKey().GetParentKeyMeta().GetCreated()"]
/-- the composite literals toProtobufDRR returns, flattened to field-path:value -/
def toProtobufDRRFields : List String := ["Data:drr.Data", "Key.Created:drr.Key.Created", "Key.Key:drr.Key.EncryptedKey", "Key.ParentKeyMeta.Created:drr.Key.ParentKeyMeta.Created", "Key.ParentKeyMeta.KeyId:drr.Key.ParentKeyMeta.ID"]
def uninitializedText : String := "newErrorResponse(\"session not yet initialized\")"
def alreadyInitializedText : String := "newErrorResponse(\"session has already been initialized\")"
/-- appencryption.proto: (message, field, number, type, oneof or "") -/
def protoFields : List (String × String × Nat × String × String) := [
  ("SessionRequest", "encrypt", 1, "Encrypt", "request"),
  ("SessionRequest", "decrypt", 2, "Decrypt", "request"),
  ("SessionRequest", "get_session", 3, "GetSession", "request"),
  ("Encrypt", "data", 1, "bytes", ""),
  ("Decrypt", "data_row_record", 1, "DataRowRecord", ""),
  ("DataRowRecord", "key", 1, "EnvelopeKeyRecord", ""),
  ("DataRowRecord", "data", 2, "bytes", ""),
  ("EnvelopeKeyRecord", "created", 1, "int64", ""),
  ("EnvelopeKeyRecord", "key", 2, "bytes", ""),
  ("EnvelopeKeyRecord", "parent_key_meta", 3, "KeyMeta", ""),
  ("KeyMeta", "created", 1, "int64", ""),
  ("KeyMeta", "key_id", 2, "string", ""),
  ("GetSession", "partition_id", 1, "string", ""),
  ("ErrorResponse", "message", 1, "string", ""),
  ("EncryptResponse", "data_row_record", 1, "DataRowRecord", ""),
  ("DecryptResponse", "data", 1, "bytes", ""),
  ("SessionResponse", "encrypt_response", 1, "EncryptResponse", "response"),
  ("SessionResponse", "decrypt_response", 2, "DecryptResponse", "response"),
  ("SessionResponse", "error_response", 3, "ErrorResponse", "response")
]

/-! defaultHandler.Encrypt/Decrypt/Close of the unchanged code -/
namespace Unfixed
def encrypt : List String := ["r.GetEncrypt", "r.GetEncrypt().GetData", "h.session.Encrypt", "if(err!=nil){", "err.Error", "newErrorResponse", "return^", "}", "toProtobufDRR", "return^"]
def encryptReturns : List String := ["newErrorResponse(err.Error())", "&pb.SessionResponse{…}"]
def decrypt : List String := ["r.GetDecrypt", "r.GetDecrypt().GetDataRowRecord", "fromProtobufDRR", "h.session.Decrypt", "if(err!=nil){", "err.Error", "newErrorResponse", "return^", "}", "return"]
def decryptReturns : List String := ["newErrorResponse(err.Error())", "&pb.SessionResponse{…}"]
def close : List String := ["h.session.Close", "return^"]
def closeReturns : List String := ["h.session.Close()"]
end Unfixed

/-! defaultHandler.Encrypt/Decrypt/Close with the nil-session tests (F-10 repaired) -/
namespace Fixed
def encrypt : List String := ["if(h.session==nil){", "return", "}", "r.GetEncrypt", "r.GetEncrypt().GetData", "h.session.Encrypt", "if(err!=nil){", "err.Error", "newErrorResponse", "return^", "}", "toProtobufDRR", "return^"]
def encryptReturns : List String := ["UninitializedSessionResponse", "newErrorResponse(err.Error())", "&pb.SessionResponse{…}"]
def decrypt : List String := ["if(h.session==nil){", "return", "}", "r.GetDecrypt", "r.GetDecrypt().GetDataRowRecord", "fromProtobufDRR", "h.session.Decrypt", "if(err!=nil){", "err.Error", "newErrorResponse", "return^", "}", "return"]
def decryptReturns : List String := ["UninitializedSessionResponse", "newErrorResponse(err.Error())", "&pb.SessionResponse{…}"]
def close : List String := ["if(h.session==nil){", "return", "}", "h.session.Close", "return^"]
def closeReturns : List String := ["nil", "h.session.Close()"]
end Fixed

/-- which command-line option feeds which constructor option in NewMetastore / NewKMS /
NewAppEncryption / NewCryptoPolicy (vetted against docs and cmd flags: e.g. the DynamoDB region
suffix follows `EnableRegionSuffix`, the session cache follows `EnableSessionCaching`).  A flag wired
to the wrong option changes key ids or cache behaviour without any handler test noticing. -/
def optionWiring : List String := ["NewMetastore: switch opts.Metastore", "NewMetastore: newMysql(opts.ConnectionString)", "NewMetastore: if len(opts.ReplicaReadConsistency)>0", "NewMetastore: len(opts.ReplicaReadConsistency)", "NewMetastore: setRdbmsReplicaReadConsistencyValue(opts.ReplicaReadConsistency)", "NewMetastore: if len(opts.DynamoDBEndpoint)>0", "NewMetastore: len(opts.DynamoDBEndpoint)", "NewMetastore: aws.String(opts.DynamoDBEndpoint)", "NewMetastore: if len(opts.DynamoDBRegion)>0", "NewMetastore: len(opts.DynamoDBRegion)", "NewMetastore: aws.String(opts.DynamoDBRegion)", "NewMetastore: persistence.WithDynamoDBRegionSuffix(opts.EnableRegionSuffix)", "NewMetastore: persistence.WithTableName(opts.DynamoDBTableName)", "NewKMS: if opts.KMS==\"static\"", "NewKMS: kms.NewAWS(crypto,opts.PreferredRegion,opts.RegionMap)", "NewAppEncryption: appencryption.NewSessionFactory(&appencryption.Config{…},NewMetastore(options),NewKMS(options,crypto),crypto,appencryption.WithSecretFactory(new(memguard.SecretFactory)),appencryption.WithMetrics(false))", "NewAppEncryption: field Service=options.ServiceName", "NewAppEncryption: field Product=options.ProductID", "NewCryptoPolicy: policyOpts=?{…}", "NewCryptoPolicy: appencryption.WithExpireAfterDuration(options.ExpireAfter)", "NewCryptoPolicy: appencryption.WithRevokeCheckInterval(options.CheckInterval)", "NewCryptoPolicy: if options.EnableSessionCaching", "NewCryptoPolicy: appencryption.WithSessionCacheMaxSize(options.SessionCacheMaxSize)", "NewCryptoPolicy: appencryption.WithSessionCacheDuration(options.SessionCacheDuration)"]

end AsherahVerif.Expected.Server
