/-
What the sequential cache model ASSUMES about concurrency in go/appencryption/pkg/cache/cache.go:
every public operation takes `c.mux` as its first action and releases it only by the deferred unlock
(no other lock traffic inside), so operations of concurrent callers are atomic and any concurrent
history is one of the sequential histories the C15 theorems quantify over (the session cache, C16,
relies on the same fact).  `Props/C15b.lean` proves `Generated.CacheConst.lockDiscipline = lockDiscipline`.
-/
namespace AsherahVerif.Expected.Cache
def lockDiscipline : List String := ["Close: first=c.mux.Lock,defer:c.mux.Unlock; all=c.mux.Lock,defer:c.mux.Unlock", "Len: first=c.mux.RLock,defer:c.mux.RUnlock; all=c.mux.RLock,defer:c.mux.RUnlock", "Capacity: first=c.mux.RLock,defer:c.mux.RUnlock; all=c.mux.RLock,defer:c.mux.RUnlock", "Set: first=c.mux.Lock,defer:c.mux.Unlock; all=c.mux.Lock,defer:c.mux.Unlock", "Get: first=c.mux.Lock,defer:c.mux.Unlock; all=c.mux.Lock,defer:c.mux.Unlock", "Delete: first=c.mux.Lock,defer:c.mux.Unlock; all=c.mux.Lock,defer:c.mux.Unlock"]
end AsherahVerif.Expected.Cache
