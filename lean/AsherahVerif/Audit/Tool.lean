import Lean
/-
`#audit_namespace Foo.Bar` prints, for every theorem declared in namespace `Foo.Bar` (in the
current environment), one line
  AXIOMS <name> : <comma separated axioms>
and for every non-theorem definition `DEF <name>`.  bin/check parses this output: the theorems are
the proof obligations of a property, and any axiom outside {propext, Classical.choice, Quot.sound}
(in particular `sorryAx` and `Lean.ofReduceBool`/`Lean.trustCompiler` from native_decide) fails it.
-/
open Lean Elab Command

elab "#audit_namespace " ns:ident : command => do
  let env ← getEnv
  let nsName := ns.getId
  let mut names : Array Name := #[]
  for (n, ci) in env.constants.map₂.toList do
    if nsName.isPrefixOf n && !n.isInternalDetail then
      match ci with
      | .thmInfo _ => names := names.push n
      | _ => pure ()
  -- constants from imported modules
  for (n, ci) in env.constants.map₁.toList do
    if nsName.isPrefixOf n && !n.isInternalDetail then
      match ci with
      | .thmInfo _ => names := names.push n
      | _ => pure ()
  let sorted := names.qsort (fun a b => a.toString < b.toString)
  for n in sorted do
    let axs ← liftCoreM <| collectAxioms n
    let axs := axs.qsort (fun a b => a.toString < b.toString)
    logInfo m!"AXIOMS {n} : {", ".intercalate (axs.toList.map toString)}"
