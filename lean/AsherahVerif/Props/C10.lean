import AsherahVerif.Proofs.EnvResBuf
/-
C10 — transient plaintext key copies on the Go heap are wiped before the call returns.

Model: `AsherahVerif.Env` (Model/Envelope.lean).  `World.bufs` is the ledger of every ordinary heap
slice that received plaintext key material (`newBuf` sites: the KMS `DecryptKey` result in
`systemKeyFromEKR`, the AEAD-decrypted intermediate key in `intermediateKeyFromEKR`, the
AEAD-decrypted data-row key in `decryptRow`); `wiped` is set by `MemClr` (`wipeBuf`) and by
`SecretFactory.New` (`secretNew`, which wipes its argument also when it fails).
`dirtyBufs w` counts the ledger entries that are not wiped.

All theorems quantify over every world / history, every operation and — because the fault list is
an argument of `Op.encrypt` / `Op.decrypt` and every external call (metastore, KMS, AEAD, secret
factory) consumes one fault token — over every placement of failures, in particular failures
injected after the plaintext exists.  Cache modes are unrestricted (never / simple / bounded).
-/
namespace AsherahVerif.Props.C10
open AsherahVerif.Env AsherahVerif.Env.Res

/-- **bufs_wiped**: if no ledger buffer is dirty when a public operation starts, none is dirty when
it returns — whatever the operation, its result (success or any error) and its fault list.  Every
heap slice that received plaintext key material during the call has been wiped by then. -/
theorem bufs_wiped (w : World) (op : Op) (h : dirtyBufs w = 0) : dirtyBufs (applyOp w op).2 = 0 :=
  (dirtyBufs_eq_zero_iff _).2 (applyOp_cb [] w op ((dirtyBufs_eq_zero_iff w).1 h))

/-- the same as a frame statement that needs no hypothesis on the start world: a buffer that is
dirty after an operation already existed, dirty, before it.  (So every buffer allocated by the
operation is wiped at exit, and no buffer gets un-wiped.) -/
theorem bufs_wiped_frame (w : World) (op : Op) (i : Nat) (b : Buf)
    (hb : (applyOp w op).2.bufs[i]? = some b) (hd : b.wiped = false) :
    ∃ b0, w.bufs[i]? = some b0 ∧ b0.wiped = false := by
  -- exempt exactly the buffers that are dirty at the start
  let S : List Nat := (List.range w.bufs.length).filter fun j => !((w.bufs[j]?.map (·.wiped)).getD true)
  have h0 : CleanBut S w := by
    intro j x hx hn
    cases hxw : x.wiped with
    | true => rfl
    | false =>
      exfalso; apply hn
      simp only [S, List.mem_filter, List.mem_range]
      exact ⟨getElem?_lt hx, by simp [hx, hxw]⟩
  have h1 := applyOp_cb S w op h0 i b hb
  have hi : i ∈ S := by
    apply Classical.byContradiction
    intro hn
    rw [h1 hn] at hd; cases hd
  simp only [S, List.mem_filter, List.mem_range] at hi
  obtain ⟨hlt, hw⟩ := hi
  refine ⟨w.bufs[i], List.getElem?_eq_getElem hlt, ?_⟩
  simpa [List.getElem?_eq_getElem hlt] using hw

/-- **bufs_wiped over histories**: at every quiescent point of every history from the initial
world (any start time, any operations, any fault lists) no ledger buffer is dirty. -/
theorem bufs_wiped_history (t : Int) (ops : List Op) : dirtyBufs (runOps (World.init t) ops).2 = 0 :=
  (dirtyBufs_eq_zero_iff _).2 (runOps_cb [] ops _ (by intro i b hb; simp [World.init] at hb))

/-- … and from any clean world. -/
theorem bufs_wiped_from (w : World) (ops : List Op) (h : dirtyBufs w = 0) : dirtyBufs (runOps w ops).2 = 0 :=
  (dirtyBufs_eq_zero_iff _).2 (runOps_cb [] ops w ((dirtyBufs_eq_zero_iff w).1 h))

/-- the internal steps really do leave a dirty buffer behind for their caller (so the statement is
about the wipes, not about an empty ledger): right after `kmsDecrypt` succeeded, one buffer is
dirty; `secretNew` — even a failing one — cleans it. -/
theorem kmsDecrypt_leaves_dirty :
    dirtyBufs (kmsDecrypt (.kms 7) (World.init 0)).2 = 1 ∧
    dirtyBufs ((do let (b, m) ← kmsDecrypt (.kms 7); secretNew b m) { World.init 0 with faults := [.ok, .err] }).2 = 0 := by
  decide +kernel

/-! ### non-vacuity: a history that allocates plaintext buffers on the paths named by the property -/

private def pol : Policy :=
  { expireAfter := 100 * nsPerSec, revokeInterval := 10 * nsPerSec, precision := 0,
    cacheSK := false, cacheIK := false, sharedIK := false }

/-- factory without caches, one session; encrypt creates SK+IK; the second encrypt unwraps both
(KMS buffer, IK buffer); decrypt unwraps SK, IK and the DRK; a decrypt whose secret allocation for
the IK fails after the plaintext exists (faults: load IK row ok, load SK row ok, KMS ok, SK secret
ok, AEAD ok, IK secret alloc **err**). -/
private def demo : List Op :=
  [.newFactory pol 0 0 0 0, .getSession 0 0 0 0, .encrypt 0 7 [], .encrypt 0 8 []]

private def demoRec : Drr :=
  match (runOps (World.init (5 * nsPerSec)) demo).1 with
  | [_, _, .record d, _] => d
  | _ => default

private def demo2 : List Op :=
  demo ++ [.decrypt 0 demoRec [], .decrypt 0 demoRec [.ok, .ok, .ok, .ok, .ok, .err]]

example : ((runOps (World.init (5 * nsPerSec)) demo2).1.drop 4 = [.payload 7, .error .alloc]) ∧
    (runOps (World.init (5 * nsPerSec)) demo2).2.bufs.length = 7 ∧
    dirtyBufs (runOps (World.init (5 * nsPerSec)) demo2).2 = 0 := by decide +kernel

end AsherahVerif.Props.C10
