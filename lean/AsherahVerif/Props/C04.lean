import AsherahVerif.Proofs.EnvTimeBase
/-
C04 — Expired keys are never used to protect new data (inline rotation).

All statements are about the executable model `AsherahVerif.Env` (Model/Envelope.lean) of
envelope.go / key_cache.go / session.go / policy.go, which the correspondence check replays against
the real package on every run.  Histories are lists of public operations (`Op`) run from
`World.init t`; "the metastore accepts writes" is `histOk`: no fault tokens, no `corruptRow`
(`Reach w` = `w` is the end of such a history).  The clock `w.now` moves only at `Op.advance`.
-/
namespace AsherahVerif.Props.C04
open AsherahVerif.Env

/-! ### concrete witness histories -/

/-- virtual epoch of the harness (ns). -/
def T0 : Int := 1700000000 * 1000000000

def hour : Int := 3600000000000
def sec : Int := 1000000000

/-- SDK-default shape: simple (unbounded) caches for SK and IK, per-session IK cache. -/
def pol (expire revoke prec : Int) : Policy :=
  { expireAfter := expire, revokeInterval := revoke, precision := prec, cacheSK := true, cacheIK := true, sharedIK := false }

theorem pol_ok_hour : PolicyOK (pol hour (120 * sec) sec) :=
  ⟨by decide, by decide, fun _ => ⟨1, by decide⟩⟩
theorem pol_ok_10min : PolicyOK (pol (600 * sec) (120 * sec) sec) :=
  ⟨by decide, by decide, fun _ => ⟨1, by decide⟩⟩
theorem pol_ok_hour60 : PolicyOK (pol hour (60 * sec) sec) :=
  ⟨by decide, by decide, fun _ => ⟨1, by decide⟩⟩

/-! ### the excluded configuration: `CreateDatePrecision > ExpireKeyAfter` -/

/-- one-day precision, one-hour lifetime. -/
def polDay : Policy := pol hour (60 * sec) (86400 * sec)

/-- **excluded point.** With a precision larger than the key lifetime a key is *born* expired: the
very first encrypt of a fresh process names an intermediate key that is already expired at that
moment (stamp truncated to midnight, 80000 s old, lifetime 3600 s). -/
theorem born_expired_counterexample :
    ∃ d m, (applyOp (runOps (World.init T0) [.newFactory polDay 0 0 0 0, .getSession 0 0 0 0]).2
              (.encrypt 0 1 [])).1 = .record d ∧
      drrIk d = some m ∧ isExpired T0 m.created polDay.expireAfter = true :=
  ⟨{ key := some { created := 1700000000, enc := .enc 2 3 (.key 5), parent := some ⟨.ik 0, 1699920000⟩ },
     data := .enc 5 2 (.payload 1) }, ⟨.ik 0, 1699920000⟩, by decide, by decide, by decide⟩

/-- the sub-second corner of the same hypothesis: creation stamps are whole seconds, so a lifetime
below one second (here 0.5 s, precision 0 = none) also gives keys that are expired when created
late in a second. -/
theorem born_expired_subsecond_counterexample :
    ¬ BornValid (pol 500000000 (60 * sec) 0) := by
  intro h
  have := h 1999999999
  revert this; decide

/-! ### F-12: adoption after a refused insert -/

/-- factory 0 (lifetime 1 h) creates SK and, 30 min later, the IK of partition 0; factory 1 shares
the metastore but has a lifetime of 10 min. -/
def f12 : List Op := [
  .newFactory (pol hour (120 * sec) sec) 0 0 0 0, .getSession 0 1 0 0, .encrypt 0 297 [],
  .advance 1800000000007, .getSession 0 0 0 0, .encrypt 1 39 [],
  .newFactory (pol (600 * sec) (120 * sec) sec) 0 0 0 0, .getSession 1 0 0 0]

def w12 : World := (runOps (World.init T0) f12).2

theorem reach12 : Reach w12 := ⟨T0, f12, by decide, rfl⟩

/-- the record the 10-minute factory hands out: it names IK `…1800` of partition 0. -/
def d12 : Drr :=
  { key := some { created := 1700001800, enc := .enc 3 8 (.key 7), parent := some ⟨.ik 0, 1700001800⟩ },
    data := .enc 7 7 (.payload 955) }

/-- the stored row of that IK: its parent is the SK created at the epoch, 1800 s old,
i.e. expired for 1200 s under the 10-minute policy. -/
def r12 : Row :=
  { kid := .ik 0, created := 1700001800, revoked := false, enc := .enc 0 3 (.key 3), parent := some ⟨.sk, 1700000000⟩ }

/-! ### F-11 (expiry form): an alias installed by a decrypt -/

def d11 : Drr :=
  { key := some { created := 1700003000, enc := .enc 3 5 (.key 4), parent := some ⟨.ik 1, 1700003000⟩ },
    data := .enc 4 4 (.payload 2) }

/-- SK created at the epoch; the IK of partition 1 is created 3000 s later under it; 1000 s later
(the SK expired 400 s ago, the IK is 1000 s old) a fresh factory and session decrypt that record. -/
def f11 : List Op := [
  .newFactory (pol hour (60 * sec) sec) 0 0 0 0, .getSession 0 0 0 0, .encrypt 0 1 [],
  .advance 3000000000000, .getSession 0 1 0 0, .encrypt 1 2 [], .advance 1000000000000,
  .newFactory (pol hour (60 * sec) sec) 0 0 0 0, .getSession 1 1 0 0, .decrypt 2 d11 []]

def w11 : World := (runOps (World.init T0) f11).2

theorem reach11 : Reach w11 := ⟨T0, f11, by decide, rfl⟩

def e11 : Drr :=
  { key := some { created := 1700004000, enc := .enc 3 7 (.key 5), parent := some ⟨.ik 1, 1700003000⟩ },
    data := .enc 5 6 (.payload 3) }

def r11 : Row :=
  { kid := .ik 1, created := 1700003000, revoked := false, enc := .enc 0 3 (.key 3), parent := some ⟨.sk, 1700000000⟩ }

/-! ### third sentence of C04 at full strength -/

/-- **full statement** of "an intermediate key whose parent system key has expired stops being used
for new records within one revoke-check interval": if the parent SK of the IK named by a returned
record expired at `tE = p.created·1e9 + expireAfter` then `now ≤ tE + revokeInterval`. -/
def ik_of_expired_sk_bounded_full : Prop :=
  ∀ (w : World) (s pay : Nat) (d : Drr) (w' : World) (m : KeyMeta) (r : Row) (p : KeyMeta),
    Reach w → (∀ fac ∈ w.facs, PolicyOK fac.pol) →
    applyOp w (.encrypt s pay []) = (.record d, w') →
    drrIk d = some m → findRow w'.store m = some r → r.parent = some p →
    w.now ≤ p.created * nsPerSec + (sessionCtx w s).pol.expireAfter + (sessionCtx w s).pol.revokeInterval

theorem facs12 : w12.facs.map (·.pol) = [pol hour (120 * sec) sec, pol (600 * sec) (120 * sec) sec] := by rfl
theorem facs11 : w11.facs.map (·.pol) = [pol hour (60 * sec) sec, pol hour (60 * sec) sec] := by rfl

/-- **the full statement is false (F-12).** The 10-minute factory finds the latest IK valid but its
SK expired, tries to create an IK, is refused by the metastore because a key with that stamp
exists, and adopts the latest stored IK without looking at its parent: 1200 s after the parent's
expiry (interval: 120 s) it hands out a record under that IK. -/
theorem ik_of_expired_sk_bounded_counterexample : ¬ ik_of_expired_sk_bounded_full := by
  intro h
  have hp : ∀ fac ∈ w12.facs, PolicyOK fac.pol := by
    intro fac hf
    have : fac.pol ∈ w12.facs.map (·.pol) := List.mem_map_of_mem hf
    rw [facs12] at this
    simp only [List.mem_cons, List.not_mem_nil, or_false] at this
    rcases this with h | h <;> rw [h]
    · exact pol_ok_hour
    · exact pol_ok_10min
  have := h w12 2 955 d12 (applyOp w12 (.encrypt 2 955 [])).2 ⟨.ik 0, 1700001800⟩ r12 ⟨.sk, 1700000000⟩ reach12 hp
    (Prod.ext (by decide) rfl) (by decide) (by decide) (by decide)
  revert this; decide

/-- **the full statement is false (F-11)**, also with a single policy and without any refused
insert: the key loaded by its exact stamp for the decrypt became the cache's "latest" alias, and the
following encrypt uses it 400 s after its parent SK expired (interval: 60 s). -/
theorem ik_of_expired_sk_bounded_counterexample_alias : ¬ ik_of_expired_sk_bounded_full := by
  intro h
  have hp : ∀ fac ∈ w11.facs, PolicyOK fac.pol := by
    intro fac hf
    have : fac.pol ∈ w11.facs.map (·.pol) := List.mem_map_of_mem hf
    rw [facs11] at this
    simp only [List.mem_cons, List.not_mem_nil, or_false] at this
    rcases this with h | h <;> rw [h] <;> exact pol_ok_hour60
  have := h w11 2 3 e11 (applyOp w11 (.encrypt 2 3 [])).2 ⟨.ik 1, 1700003000⟩ r11 ⟨.sk, 1700000000⟩ reach11 hp
    (Prod.ext (by decide) rfl) (by decide) (by decide) (by decide)
  revert this; decide

end AsherahVerif.Props.C04
