import AsherahVerif.Proofs.EnvTimeProps
/-
C04 — Expired keys are never used to protect new data (inline rotation).

All statements are about the executable model `AsherahVerif.Env` (Model/Envelope.lean) of
envelope.go / key_cache.go / session.go / policy.go, which the correspondence check replays against
the real package on every run.  Histories are lists of public operations (`Op`) run from
`World.init t`; "the metastore accepts writes" is `histOk`: no fault tokens, no `corruptRow`
(`Reach w` = `w` is the end of such a history).  The clock `w.now` moves only at `Op.advance`.
-/
namespace AsherahVerif.Props.C04
open AsherahVerif.Env

/-! ### what a fault-free encrypt guarantees -/

/-- **C04, first sentence.** A record returned by a fault-free encrypt on a reachable world names an
intermediate key of the session's partition that is not expired at that moment under the
session's factory policy — for every cache configuration, every history, provided a key is not
born expired under that policy (`BornValid`, implied by `PolicyOK`: precision ≤ lifetime, whole
seconds; see `born_expired_counterexample` for the excluded point). -/
theorem no_expired_ik {w w' : World} (hr : Reach w) {s pay : Nat} {d : Drr}
    (_hopen : sessionOpen w s) (ha : allowed w (.encrypt s pay []) = true)
    (hb : BornValid (sessionCtx w s).pol)
    (h : applyOp w (.encrypt s pay []) = (.record d, w')) :
    ∃ m, drrIk d = some m ∧ m.kid = .ik (sessionCtx w s).part ∧
      isExpired w.now m.created (sessionCtx w s).pol.expireAfter = false := by
  obtain ⟨-, -, -, c, hd, hout⟩ := encrypt_outcome hr.inv ha h
  refine ⟨_, hd, rfl, ?_⟩
  rcases hout with ⟨k, -, hc, hv, -⟩ | ⟨r, -, -, -, hne, -⟩
  · unfold isKeyInvalid at hv
    rw [hc] at hv
    cases hx : isExpired w.now c (sessionCtx w s).pol.expireAfter
    · rfl
    · rw [hx] at hv; simp at hv
  · exact hne hb

/-- the same under the literal configuration hypothesis of the property. -/
theorem no_expired_ik_policyOK {w w' : World} (hr : Reach w) {s pay : Nat} {d : Drr}
    (hopen : sessionOpen w s) (ha : allowed w (.encrypt s pay []) = true)
    (hp : ∀ fac ∈ w.facs, PolicyOK fac.pol)
    (h : applyOp w (.encrypt s pay []) = (.record d, w')) :
    ∃ m, drrIk d = some m ∧ m.kid = .ik (sessionCtx w s).part ∧
      isExpired w.now m.created (sessionCtx w s).pol.expireAfter = false := by
  refine no_expired_ik hr hopen ha (bornValid_of_policyOK ?_) h
  obtain ⟨ss, hss, -, fac, hfac, -⟩ := hopen
  have : (sessionCtx w s).pol = fac.pol := by
    unfold sessionCtx
    simp only [List.getD_eq_getElem?_getD, hss, Option.getD_some, hfac]
  rw [this]
  exact hp fac (List.mem_of_getElem? hfac)

/-- **C04, second sentence.** Every row a fault-free encrypt adds to the metastore is unrevoked,
stamped with the truncated clock, and is either a system-key row or an intermediate-key row of the
session's partition whose parent system key is not expired at that moment under the session's
factory policy (also on the duplicate-adoption path: adoption adds no row).  The statement is
relative to the *creating* factory's policy: a factory with a shorter lifetime sharing the
metastore may find that parent expired under its own policy (see F-12 below). -/
theorem no_ik_under_expired_sk {w : World} (hr : Reach w) {s pay : Nat}
    (_hopen : sessionOpen w s) (ha : allowed w (.encrypt s pay []) = true)
    (hb : BornValid (sessionCtx w s).pol) :
    ∀ r ∈ (applyOp w (.encrypt s pay [])).2.store, r ∈ w.store ∨
      (r.revoked = false ∧ r.created = keyTimestamp w.now (sessionCtx w s).pol.precision ∧
        (r.kid = .sk ∨ (r.kid = .ik (sessionCtx w s).part ∧ ∃ p, r.parent = some p ∧
          isExpired w.now p.created (sessionCtx w s).pol.expireAfter = false))) := by
  simp only [allowed, List.isEmpty_nil, Bool.true_and, decide_eq_true_eq] at ha
  have hw := encrypt_wp hr.inv s pay true ha
  unfold Wp at hw
  rw [applyOp_world]
  intro r hmem
  rcases hw.2.2.2.1 r hmem with h1 | ⟨h1, h2, h3 | ⟨h3, p, hp, hne, -⟩⟩
  · exact Or.inl h1
  · exact Or.inr ⟨h1, h2, Or.inl h3⟩
  · exact Or.inr ⟨h1, h2, Or.inr ⟨h3, p, hp, hne hb⟩⟩

/-- **C04, third sentence, what holds (`…_partial`).**  If a fault-free encrypt on a reachable world
returns a record naming the intermediate key `m` whose stored row `r` has parent `p`, then one of:
* `p` is not expired at that moment under the session's policy; or
* the key was served from the session's cache: the entry `read` finds for "latest" was loaded at
  most one revoke-check interval ago (`now ≤ loadedAt + interval`), it is that key, and the
  operation made no metastore or KMS call; or
* (F-12) the row was *adopted* after a refused insert: it existed before the operation and no later
  creation stamp was available (`keyTimestamp now precision ≤ m.created`).
Weaker than the full statement in that the bound is counted from the load of the session's cache
entry (`now ≤ max tE loadedAt + interval`), not from the expiry `tE` alone; the content is that
every reload goes through `loadLatestOrCreateIntermediateKey`, which re-reads the row *and*
validates its parent system key — an entry is trusted for one interval after it was loaded, by
whichever path it was loaded (F-11: a decrypt installs entries without that validation). -/
theorem ik_of_expired_sk_bounded_partial {w w' : World} (hr : Reach w) {s pay : Nat} {d : Drr}
    (_hopen : sessionOpen w s) (ha : allowed w (.encrypt s pay []) = true)
    (hb : BornValid (sessionCtx w s).pol)
    (h : applyOp w (.encrypt s pay []) = (.record d, w'))
    {m : KeyMeta} {r : Row} {p : KeyMeta} (hm : drrIk d = some m) (hrow : findRow w'.store m = some r)
    (hpar : r.parent = some p) :
    isExpired w.now p.created (sessionCtx w s).pol.expireAfter = false ∨
    (∃ e, readEntry w (sessionCtx w s).ikCache ⟨.ik (sessionCtx w s).part, 0⟩ = some e ∧
        w.now ≤ e.loadedAt + (sessionCtx w s).pol.revokeInterval ∧ (keyAt w e.obj).created = m.created ∧
        Silent w' ∧ w'.store = w.store) ∨
    (r ∈ w.store ∧ keyTimestamp w.now (sessionCtx w s).pol.precision ≤ m.created) := by
  obtain ⟨hinv, -, -, c, hd, hout⟩ := encrypt_outcome hr.inv ha h
  rw [hm] at hd; cases hd
  rcases hout with ⟨k, ⟨e, he, ho, hfr⟩, hc, hv, hil, hst⟩ | ⟨r', hr', hk', hc', -, hcase, -⟩
  · right; left
    refine ⟨e, he, ?_, by rw [ho]; exact hc, ?_, hst⟩
    · unfold isKeyInvalid at hv
      unfold isReloadRequired at hfr
      have hrev : (keyAt (beginOp [] w).2 k).revoked = false := by
        cases hx : (keyAt (beginOp [] w).2 k).revoked
        · rfl
        · rw [hx] at hv; simp at hv
      rw [hrev] at hfr
      simp only [Bool.false_eq_true, if_false, decide_eq_false_iff_not] at hfr
      have : (beginOp [] w).2.now = w.now := rfl
      rw [this] at hfr
      omega
    · exact hil.silent (fun c hc => by cases hc)
  · obtain ⟨hmem, hk, hcr⟩ := findRow_some hrow
    have : r = r' := hinv.sto.uniq r r' hmem hr' (hk.trans hk'.symm) (hcr.trans hc'.symm)
    subst this
    rcases hcase with ⟨hin, hle⟩ | ⟨p', hp', hne, -⟩
    · right; right; exact ⟨hin, hle⟩
    · left
      rw [hpar] at hp'; cases hp'
      exact hne hb

/-- the same as an inequality, when a later creation stamp is available (no adoption): with
`tE = p.created·1e9 + expireAfter` the expiry of the parent, either `now ≤ tE`, or the session's
cache holds an entry for the key, loaded at `L`, and `now ≤ L + revokeInterval`; hence
`now ≤ max tE L + revokeInterval`. -/
theorem ik_of_expired_sk_bounded_partial_le {w w' : World} (hr : Reach w) {s pay : Nat} {d : Drr}
    (hopen : sessionOpen w s) (ha : allowed w (.encrypt s pay []) = true)
    (hb : BornValid (sessionCtx w s).pol)
    (hcs : CanStamp w (.ik (sessionCtx w s).part) (sessionCtx w s).pol.precision)
    (h : applyOp w (.encrypt s pay []) = (.record d, w'))
    {m : KeyMeta} {r : Row} {p : KeyMeta} (hm : drrIk d = some m) (hrow : findRow w'.store m = some r)
    (hpar : r.parent = some p) :
    w.now ≤ p.created * nsPerSec + (sessionCtx w s).pol.expireAfter ∨
    ∃ e, readEntry w (sessionCtx w s).ikCache ⟨.ik (sessionCtx w s).part, 0⟩ = some e ∧
      w.now ≤ e.loadedAt + (sessionCtx w s).pol.revokeInterval := by
  rcases ik_of_expired_sk_bounded_partial hr hopen ha hb h hm hrow hpar with h1 | ⟨e, he, hle, -⟩ | ⟨hin, hle⟩
  · left; exact (isExpired_false_iff _ _ _).mp h1
  · right; exact ⟨e, he, hle⟩
  · exfalso
    obtain ⟨-, hk, hc⟩ := findRow_some hrow
    have := hcs r hin (by
      rw [hk]
      obtain ⟨-, -, -, c, hd, -⟩ := encrypt_outcome hr.inv ha h
      rw [hm] at hd; cases hd; rfl)
    rw [hc] at this
    omega

/-! ### concrete witness histories -/

/-- virtual epoch of the harness (ns). -/
def T0 : Int := 1700000000 * 1000000000

def hour : Int := 3600000000000
def sec : Int := 1000000000

/-- SDK-default shape: simple (unbounded) caches for SK and IK, per-session IK cache. -/
def pol (expire revoke prec : Int) : Policy :=
  { expireAfter := expire, revokeInterval := revoke, precision := prec, cacheSK := true, cacheIK := true, sharedIK := false }

theorem pol_ok_hour : PolicyOK (pol hour (120 * sec) sec) :=
  ⟨by decide, by decide, fun _ => ⟨1, by decide⟩⟩
theorem pol_ok_10min : PolicyOK (pol (600 * sec) (120 * sec) sec) :=
  ⟨by decide, by decide, fun _ => ⟨1, by decide⟩⟩
theorem pol_ok_hour60 : PolicyOK (pol hour (60 * sec) sec) :=
  ⟨by decide, by decide, fun _ => ⟨1, by decide⟩⟩

/-! ### creation stamps (`newKeyTimestamp`) -/

/-- a stamp never lies in the future: `time.Unix(stamp,0) ≤ now` for every clock value and every
precision (so a key created now is never "from the future" for its creator). -/
theorem stamp_not_in_future (now prec : Int) :
    keyTimestamp now prec * nsPerSec ≤ now := by
  unfold keyTimestamp
  have hs : (0 : Int) < nsPerSec := by decide
  split
  · rename_i hp
    have h1 : 0 ≤ now % prec := Int.emod_nonneg _ (by omega)
    have h2 := Int.ediv_mul_le (now - now % prec) (Int.ne_of_gt hs)
    omega
  · have h2 := Int.ediv_mul_le now (Int.ne_of_gt hs)
    omega

/-- a stamp is younger than one precision window plus one second. -/
theorem stamp_window (now prec : Int) :
    now < keyTimestamp now prec * nsPerSec + (if prec > 0 then prec else 0) + nsPerSec := by
  unfold keyTimestamp
  have hs : (0 : Int) < nsPerSec := by decide
  split
  · rename_i hp
    have h2 : now % prec < prec := Int.emod_lt_of_pos _ hp
    have h3 := Int.lt_ediv_add_one_mul_self (now - now % prec) hs
    rw [Int.add_mul] at h3
    omega
  · have h3 := Int.lt_ediv_add_one_mul_self now hs
    rw [Int.add_mul] at h3
    omega

/-- stamps are monotone in the clock: a later creator never stamps an older key, which is what
makes "greatest created" the latest key. -/
theorem stamp_mono {now now' : Int} (prec : Int) (h : now ≤ now') :
    keyTimestamp now prec ≤ keyTimestamp now' prec := by
  unfold keyTimestamp
  have hs : (0 : Int) < nsPerSec := by decide
  split
  · rename_i hp
    apply Int.ediv_le_ediv hs
    have e1 : now - now % prec = prec * (now / prec) := by
      have := Int.emod_add_mul_ediv now prec; omega
    have e2 : now' - now' % prec = prec * (now' / prec) := by
      have := Int.emod_add_mul_ediv now' prec; omega
    rw [e1, e2]
    exact Int.mul_le_mul_of_nonneg_left (Int.ediv_le_ediv hp h) (Int.le_of_lt hp)
  · exact Int.ediv_le_ediv hs h

/-- two creators inside one precision window produce the SAME stamp — the collision that turns
concurrent key creation into one accepted insert and one refused duplicate (C14). -/
theorem stamp_same_window {now now' prec : Int} (hp : 0 < prec) (h : now / prec = now' / prec) :
    keyTimestamp now prec = keyTimestamp now' prec := by
  unfold keyTimestamp
  rw [if_pos hp, if_pos hp]
  have e1 : now - now % prec = prec * (now / prec) := by
    have := Int.emod_add_mul_ediv now prec; omega
  have e2 : now' - now' % prec = prec * (now' / prec) := by
    have := Int.emod_add_mul_ediv now' prec; omega
  rw [e1, e2, h]

/-- expiry is permanent: once a key is expired under a lifetime it stays expired as the clock
moves on (the clock of the model, like the SDK's wall clock in the property, never runs backwards). -/
theorem expired_stays_expired {now now' c e : Int} (h : now ≤ now') (hx : isExpired now c e = true) :
    isExpired now' c e = true := by
  rw [isExpired_iff] at *; omega

/-- a key is valid for at least `lifetime − precision − 1 s` after its creation moment: the stamp
truncation costs at most one window. -/
theorem fresh_key_valid_for {now later prec e : Int}
    (hl : later + (if prec > 0 then prec else 0) + nsPerSec ≤ now + e) :
    isExpired later (keyTimestamp now prec) e = false := by
  rw [isExpired_false_iff]
  have := stamp_window now prec
  omega

/-- non-vacuity: the default-like policy (1 h lifetime, 1 s precision) meets the premise for a full
59 minutes after creation. -/
example : isExpired (T0 + 59 * 60 * sec) (keyTimestamp T0 sec) hour = false := by decide

/-! ### the excluded configuration: `CreateDatePrecision > ExpireKeyAfter` -/

/-- one-day precision, one-hour lifetime. -/
def polDay : Policy := pol hour (60 * sec) (86400 * sec)

/-- **excluded point.** With a precision larger than the key lifetime a key is *born* expired: the
very first encrypt of a fresh process names an intermediate key that is already expired at that
moment (stamp truncated to midnight, 80000 s old, lifetime 3600 s). -/
theorem born_expired_counterexample :
    ∃ d m, (applyOp (runOps (World.init T0) [.newFactory polDay 0 0 0 0, .getSession 0 0 0 0]).2
              (.encrypt 0 1 [])).1 = .record d ∧
      drrIk d = some m ∧ isExpired T0 m.created polDay.expireAfter = true :=
  ⟨{ key := some { created := 1700000000, enc := .enc 2 3 (.key 5), parent := some ⟨.ik 0, 1699920000⟩ },
     data := .enc 5 2 (.payload 1) }, ⟨.ik 0, 1699920000⟩, by decide, by decide, by decide⟩

/-- the sub-second corner of the same hypothesis: creation stamps are whole seconds, so a lifetime
below one second (here 0.5 s, precision 0 = none) also gives keys that are expired when created
late in a second. -/
theorem born_expired_subsecond_counterexample :
    ¬ BornValid (pol 500000000 (60 * sec) 0) := by
  intro h
  have := h 1999999999
  revert this; decide

/-! ### F-12: adoption after a refused insert -/

/-- factory 0 (lifetime 1 h) creates SK and, 30 min later, the IK of partition 0; factory 1 shares
the metastore but has a lifetime of 10 min. -/
def f12 : List Op := [
  .newFactory (pol hour (120 * sec) sec) 0 0 0 0, .getSession 0 1 0 0, .encrypt 0 297 [],
  .advance 1800000000007, .getSession 0 0 0 0, .encrypt 1 39 [],
  .newFactory (pol (600 * sec) (120 * sec) sec) 0 0 0 0, .getSession 1 0 0 0]

def w12 : World := (runOps (World.init T0) f12).2

theorem reach12 : Reach w12 := ⟨T0, f12, by decide, rfl⟩

/-- the record the 10-minute factory hands out: it names IK `…1800` of partition 0. -/
def d12 : Drr :=
  { key := some { created := 1700001800, enc := .enc 3 8 (.key 7), parent := some ⟨.ik 0, 1700001800⟩ },
    data := .enc 7 7 (.payload 955) }

/-- the stored row of that IK: its parent is the SK created at the epoch, 1800 s old,
i.e. expired for 1200 s under the 10-minute policy. -/
def r12 : Row :=
  { kid := .ik 0, created := 1700001800, revoked := false, enc := .enc 0 3 (.key 3), parent := some ⟨.sk, 1700000000⟩ }

/-! ### F-11 (expiry form): an alias installed by a decrypt -/

def d11 : Drr :=
  { key := some { created := 1700003000, enc := .enc 3 5 (.key 4), parent := some ⟨.ik 1, 1700003000⟩ },
    data := .enc 4 4 (.payload 2) }

/-- SK created at the epoch; the IK of partition 1 is created 3000 s later under it; 1000 s later
(the SK expired 400 s ago, the IK is 1000 s old) a fresh factory and session decrypt that record. -/
def f11 : List Op := [
  .newFactory (pol hour (60 * sec) sec) 0 0 0 0, .getSession 0 0 0 0, .encrypt 0 1 [],
  .advance 3000000000000, .getSession 0 1 0 0, .encrypt 1 2 [], .advance 1000000000000,
  .newFactory (pol hour (60 * sec) sec) 0 0 0 0, .getSession 1 1 0 0, .decrypt 2 d11 []]

def w11 : World := (runOps (World.init T0) f11).2

theorem reach11 : Reach w11 := ⟨T0, f11, by decide, rfl⟩

def e11 : Drr :=
  { key := some { created := 1700004000, enc := .enc 3 7 (.key 5), parent := some ⟨.ik 1, 1700003000⟩ },
    data := .enc 5 6 (.payload 3) }

def r11 : Row :=
  { kid := .ik 1, created := 1700003000, revoked := false, enc := .enc 0 3 (.key 3), parent := some ⟨.sk, 1700000000⟩ }

/-! ### third sentence of C04 at full strength -/

/-- **full statement** of "an intermediate key whose parent system key has expired stops being used
for new records within one revoke-check interval": if the parent SK of the IK named by a returned
record expired at `tE = p.created·1e9 + expireAfter` then `now ≤ tE + revokeInterval`. -/
def ik_of_expired_sk_bounded_full : Prop :=
  ∀ (w : World) (s pay : Nat) (d : Drr) (w' : World) (m : KeyMeta) (r : Row) (p : KeyMeta),
    Reach w → (∀ fac ∈ w.facs, PolicyOK fac.pol) →
    applyOp w (.encrypt s pay []) = (.record d, w') →
    drrIk d = some m → findRow w'.store m = some r → r.parent = some p →
    w.now ≤ p.created * nsPerSec + (sessionCtx w s).pol.expireAfter + (sessionCtx w s).pol.revokeInterval

theorem facs12 : w12.facs.map (·.pol) = [pol hour (120 * sec) sec, pol (600 * sec) (120 * sec) sec] := by rfl
theorem facs11 : w11.facs.map (·.pol) = [pol hour (60 * sec) sec, pol hour (60 * sec) sec] := by rfl

/-- **the full statement is false (F-12).** The 10-minute factory finds the latest IK valid but its
SK expired, tries to create an IK, is refused by the metastore because a key with that stamp
exists, and adopts the latest stored IK without looking at its parent: 1200 s after the parent's
expiry (interval: 120 s) it hands out a record under that IK. -/
theorem ik_of_expired_sk_bounded_counterexample : ¬ ik_of_expired_sk_bounded_full := by
  intro h
  have hp : ∀ fac ∈ w12.facs, PolicyOK fac.pol := by
    intro fac hf
    have : fac.pol ∈ w12.facs.map (·.pol) := List.mem_map_of_mem hf
    rw [facs12] at this
    simp only [List.mem_cons, List.not_mem_nil, or_false] at this
    rcases this with h | h <;> rw [h]
    · exact pol_ok_hour
    · exact pol_ok_10min
  have := h w12 2 955 d12 (applyOp w12 (.encrypt 2 955 [])).2 ⟨.ik 0, 1700001800⟩ r12 ⟨.sk, 1700000000⟩ reach12 hp
    (Prod.ext (by decide) rfl) (by decide) (by decide) (by decide)
  revert this; decide

/-- **the full statement is false (F-11)**, also with a single policy and without any refused
insert: the key loaded by its exact stamp for the decrypt became the cache's "latest" alias, and the
following encrypt uses it 400 s after its parent SK expired (interval: 60 s). -/
theorem ik_of_expired_sk_bounded_counterexample_alias : ¬ ik_of_expired_sk_bounded_full := by
  intro h
  have hp : ∀ fac ∈ w11.facs, PolicyOK fac.pol := by
    intro fac hf
    have : fac.pol ∈ w11.facs.map (·.pol) := List.mem_map_of_mem hf
    rw [facs11] at this
    simp only [List.mem_cons, List.not_mem_nil, or_false] at this
    rcases this with h | h <;> rw [h] <;> exact pol_ok_hour60
  have := h w11 2 3 e11 (applyOp w11 (.encrypt 2 3 [])).2 ⟨.ik 1, 1700003000⟩ r11 ⟨.sk, 1700000000⟩ reach11 hp
    (Prod.ext (by decide) rfl) (by decide) (by decide) (by decide)
  revert this; decide

/-! ### non-vacuity -/

def w0 : World := (runOps (World.init T0) [.newFactory (pol hour (120 * sec) sec) 0 0 0 0, .getSession 0 0 0 0]).2
def dFirst : Drr :=
  { key := some { created := 1700000000, enc := .enc 1 2 (.key 2), parent := some ⟨.ik 0, 1700000000⟩ },
    data := .enc 2 1 (.payload 1) }

/-- `no_expired_ik`, `no_ik_under_expired_sk`: a first encrypt on a fresh factory satisfies all hypotheses. -/
example : Reach w0 ∧ sessionOpen w0 0 ∧ allowed w0 (.encrypt 0 1 []) = true ∧ BornValid (sessionCtx w0 0).pol ∧
    ∃ w', applyOp w0 (.encrypt 0 1 []) = (.record dFirst, w') :=
  ⟨⟨T0, _, by decide, rfl⟩, ⟨_, rfl, rfl, _, rfl, rfl⟩, by decide, bornValid_of_policyOK pol_ok_hour,
   _, Prod.ext (by decide) rfl⟩

/-- `ik_of_expired_sk_bounded_partial`: the F-12 world satisfies the hypotheses with an *expired*
parent — the theorem then places it in the adoption disjunct. -/
example : Reach w12 ∧ sessionOpen w12 2 ∧ allowed w12 (.encrypt 2 955 []) = true ∧ BornValid (sessionCtx w12 2).pol ∧
    (applyOp w12 (.encrypt 2 955 [])).1 = .record d12 ∧ drrIk d12 = some ⟨.ik 0, 1700001800⟩ ∧
    findRow (applyOp w12 (.encrypt 2 955 [])).2.store ⟨.ik 0, 1700001800⟩ = some r12 ∧
    r12.parent = some ⟨.sk, 1700000000⟩ ∧
    isExpired w12.now 1700000000 (sessionCtx w12 2).pol.expireAfter = true :=
  ⟨reach12, ⟨_, rfl, rfl, _, rfl, rfl⟩, by decide, bornValid_of_policyOK pol_ok_10min, by decide, by decide, by decide,
   by decide, by decide⟩

/-- `ik_of_expired_sk_bounded_partial_le`: in the F-11 world a later stamp is available (`CanStamp`). -/
example : CanStamp w11 (.ik (sessionCtx w11 2).part) (sessionCtx w11 2).pol.precision := by
  unfold CanStamp; decide

end AsherahVerif.Props.C04
