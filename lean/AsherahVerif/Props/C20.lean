import AsherahVerif.Proofs.EnvTimeWF
import AsherahVerif.Generated.Policy
import AsherahVerif.Expected.Policy
/-
C20 — Key caching avoids external calls, and only for one revoke-check interval.

About the executable model `AsherahVerif.Env` (Model/Envelope.lean).  Every public operation resets
the call log `World.log`; `Silent w'` = the log of the operation that produced `w'` contains no
`Call.load / loadLatest / store / kmsEnc / kmsDec`; `LogHead c w'` = the first call it logged is `c`.
"Map-backed" = `CacheMode.simple`, the SDK's default key cache (never evicts: the working set fits
trivially); `Reach w` = end of an allowed history (`histOk`: no faults, no `corruptRow`).
-/
namespace AsherahVerif.Props.C20
open AsherahVerif.Env

/-! ### the wiring: which policy gives which cache -/

/-- the session's context in terms of its session and factory records. -/
theorem ctx_of {w : World} {s : Nat} {ss : Session} {fac : Factory} (hs : w.sessions[s]? = some ss)
    (hf : w.facs[ss.fac]? = some fac) :
    sessionCtx w s = { pol := fac.pol, part := ss.part, skCache := fac.skCache, ikCache := ss.ikCache } := by
  unfold sessionCtx
  simp only [List.getD_eq_getElem?_getD, hs, Option.getD_some, hf]

/-- **wiring.** In a reachable world a session of a factory whose policy caches intermediate keys
(per session, SDK default cache kind) has a map-backed intermediate-key cache, and the factory's
system-key cache is map-backed when system keys are cached. -/
theorem simple_of_policy {w : World} (hr : Reach w) {s : Nat} {ss : Session} {fac : Factory}
    (hs : w.sessions[s]? = some ss) (hf : w.facs[ss.fac]? = some fac) :
    (fac.pol.cacheIK = true → fac.pol.ikKind = none → fac.pol.sharedIK = false →
      modeOf w (sessionCtx w s).ikCache = .simple ∧ (sessionCtx w s).ikCache < w.caches.length) ∧
    (fac.pol.cacheSK = true → fac.pol.skKind = none →
      modeOf w (sessionCtx w s).skCache = .simple ∧ (sessionCtx w s).skCache < w.caches.length) := by
  rw [ctx_of hs hf]
  have hwf := hr.wf
  obtain ⟨fac', hf', hlen, hmode⟩ := hwf.sess s ss hs
  rw [hf] at hf'; cases hf'
  refine ⟨fun h1 h2 h3 => ⟨?_, hlen⟩, fun h1 h2 => ⟨?_, (hwf.facs _ _ hf).sk.1⟩⟩
  · simp only []
    rw [hmode, h3, h1, h2]; rfl
  · simp only []
    rw [(hwf.facs _ _ hf).sk.2, h1, h2]; rfl

/-! ### caching disabled: nothing is retained -/

/-- **C20, last sentence.** With `cacheSK = false ∧ cacheIK = false ∧ sharedIK = false` every key cache
of the factory — its system-key cache and the intermediate-key cache of each of its sessions — holds
no entry in every reachable world, and every encrypt of such a session performs its metastore reads
afresh: the first call it makes re-reads the latest intermediate-key record of the partition. -/
theorem nocache_retains_nothing {w : World} (hr : Reach w) {f : Nat} {fac : Factory} (hf : w.facs[f]? = some fac)
    (hno : fac.pol.cacheSK = false ∧ fac.pol.cacheIK = false ∧ fac.pol.sharedIK = false) :
    entsOf w fac.skCache = [] ∧
    (∀ (s : Nat) (ss : Session), w.sessions[s]? = some ss → ss.fac = f → entsOf w ss.ikCache = []) ∧
    (∀ (s : Nat) (ss : Session) (pay : Nat), w.sessions[s]? = some ss → ss.fac = f →
      LogHead (.loadLatest (.ik ss.part) ((latestRow w.store (.ik ss.part)).map (·.created)) false)
        (applyOp w (.encrypt s pay [])).2) := by
  have hwf := hr.wf
  obtain ⟨h1, h2, h3⟩ := hno
  have hsk : modeOf w fac.skCache = .never := by
    rw [(hwf.facs f fac hf).sk.2, h1]; rfl
  have hik : ∀ (s : Nat) (ss : Session), w.sessions[s]? = some ss → ss.fac = f → modeOf w ss.ikCache = .never := by
    intro s ss hs hsf
    obtain ⟨fac', hf', -, hmode⟩ := hwf.sess s ss hs
    rw [hsf, hf] at hf'; cases hf'
    rw [hmode, h3, h2]; rfl
  refine ⟨hwf.never _ hsk, fun s ss hs hsf => hwf.never _ (hik s ss hs hsf), fun s ss pay hs hsf => ?_⟩
  have hctx := ctx_of hs (hsf ▸ hf)
  have := encrypt_reread_never w s pay true (by rw [hctx]; exact hik s ss hs hsf)
  rw [hctx] at this
  rw [applyOp_world]
  exact this

/-! ### repeating an operation -/

/-- **C20, first sentence (encrypt).**  A session with a map-backed intermediate-key cache whose
"latest" entry `e` for its partition is, at the time of the encrypt, within its revoke-check interval
(`now ≤ loadedAt + revokeInterval`), not flagged revoked and not expired: the encrypt performs no
metastore and no KMS call, leaves the metastore alone, and the record names that entry's key. -/
theorem repeat_is_silent {w : World} (hr : Reach w) {s : Nat} (_hopen : sessionOpen w s)
    (hsimple : modeOf w (sessionCtx w s).ikCache = .simple) {e : CEntry}
    (he : readEntry w (sessionCtx w s).ikCache ⟨.ik (sessionCtx w s).part, 0⟩ = some e)
    (hfresh : w.now ≤ e.loadedAt + (sessionCtx w s).pol.revokeInterval)
    (hnr : (keyAt w e.obj).revoked = false)
    (hne : isExpired w.now (keyAt w e.obj).created (sessionCtx w s).pol.expireAfter = false) (pay : Nat) :
    Silent (applyOp w (.encrypt s pay [])).2 ∧ (applyOp w (.encrypt s pay [])).2.store = w.store ∧
    ∀ d, (applyOp w (.encrypt s pay [])).1 = .record d →
      drrIk d = some ⟨.ik (sessionCtx w s).part, (keyAt w e.obj).created⟩ := by
  have hh : Hit w (sessionCtx w s).ikCache ⟨(sessionCtx w s).ikId, 0⟩ (sessionCtx w s).pol.revokeInterval e.obj := by
    refine ⟨e, he, rfl, ?_⟩
    unfold isReloadRequired
    rw [hnr]
    simp only [Bool.false_eq_true, if_false, decide_eq_false_iff_not]
    omega
  have hv : isKeyInvalid (keyAt w e.obj) w.now (sessionCtx w s).pol.expireAfter = false := by
    unfold isKeyInvalid; rw [hnr, hne]; rfl
  have hw := encrypt_hit_silent hr.inv s pay true e.obj hsimple hh hv
  unfold Wp at hw
  rw [applyOp_world]
  refine ⟨hw.1, hw.2.1, fun d hd => ?_⟩
  apply hw.2.2 d
  simp only [applyOp] at hd
  split at hd
  · rename_i a w1 heq
    cases hd; rw [heq]
  · cases hd

/-- the same across a clock advance (and any revocations in the metastore, which the cache cannot
see): if after `advance dt` the entry is still within its interval and its key not expired, the next
encrypt is silent. -/
theorem repeat_is_silent_after_advance {w : World} (hr : Reach w) {s : Nat} (hopen : sessionOpen w s)
    (hsimple : modeOf w (sessionCtx w s).ikCache = .simple) {e : CEntry}
    (he : readEntry w (sessionCtx w s).ikCache ⟨.ik (sessionCtx w s).part, 0⟩ = some e)
    (dt : Nat) (hfresh : w.now + dt ≤ e.loadedAt + (sessionCtx w s).pol.revokeInterval)
    (hnr : (keyAt w e.obj).revoked = false)
    (hne : isExpired (w.now + dt) (keyAt w e.obj).created (sessionCtx w s).pol.expireAfter = false) (pay : Nat) :
    Silent (applyOp (applyOp w (.advance dt)).2 (.encrypt s pay [])).2 :=
  (repeat_is_silent (w := (applyOp w (.advance dt)).2) (hr.step _ rfl) hopen hsimple he hfresh hnr hne pay).1

/-- what a successful encrypt leaves behind on a map-backed cache: the "latest" entry of the
partition is the key just used — unless the cache's alias already points to a key with a *later*
stamp than the one just used (only when the latest cached key was found invalid and the reload
returned an older key: mixed creation precisions). Together with `repeat_is_silent`: a repeated
encrypt is silent until the interval has elapsed or the key expires. -/
theorem encrypt_leaves_entry {w w' : World} (hr : Reach w) {s pay : Nat} {d : Drr}
    (ha : allowed w (.encrypt s pay []) = true) (h : applyOp w (.encrypt s pay []) = (.record d, w'))
    (hsimple : modeOf w (sessionCtx w s).ikCache = .simple) (hlen : (sessionCtx w s).ikCache < w.caches.length) :
    ∃ c k, drrIk d = some ⟨.ik (sessionCtx w s).part, c⟩ ∧ (keyAt w' k).created = c ∧
      ((∃ e, readEntry w' (sessionCtx w s).ikCache ⟨.ik (sessionCtx w s).part, 0⟩ = some e ∧ e.obj = k) ∨
       (∃ l, assocGet (latestOf w' (sessionCtx w s).ikCache) (.ik (sessionCtx w s).part) = some l ∧ c < l.created)) := by
  obtain ⟨-, -, -, c, hd, -, k, hk, hrb⟩ := encrypt_outcome hr.inv ha h
  refine ⟨c, k, hd, hk, ?_⟩
  rcases hrb hsimple hlen with h1 | ⟨l, hl, hlt⟩
  · exact Or.inl h1
  · exact Or.inr ⟨l, hl, by rw [← hk]; exact hlt⟩

/-- **C20, first sentence (decrypt).**  After a decrypt succeeded on a session with a map-backed
intermediate-key cache, the cache holds an entry `e` for the record's intermediate key; repeating the
decrypt (after `advance dt`) while that entry is within its interval — or its key flagged revoked,
which is never reloaded — performs no metastore and no KMS call. -/
theorem repeat_decrypt_is_silent {w w1 : World} (hr : Reach w) {s : Nat} {d : Drr} {pl : Nat}
    (_hopen : sessionOpen w s) (h : applyOp w (.decrypt s d []) = (.payload pl, w1))
    (hsimple : modeOf w (sessionCtx w s).ikCache = .simple) (hlen : (sessionCtx w s).ikCache < w.caches.length) :
    ∃ p e, (d.key.bind (·.parent)) = some p ∧ readEntry w1 (sessionCtx w s).ikCache p = some e ∧
      ∀ dt : Nat, ((keyAt w1 e.obj).revoked = true ∨ w1.now + dt ≤ e.loadedAt + (sessionCtx w s).pol.revokeInterval) →
        Silent (applyOp (applyOp w1 (.advance dt)).2 (.decrypt s d [])).2 := by
  have hw := decrypt_entry hr.inv s d true
  have hinv := decrypt_wp hr.inv s d true
  have hnr := decrypt_nr s d [] true w
  have hext := decrypt_ext s d [] true w
  unfold Wp at hw hinv
  rw [applyOp_decrypt_payload h] at hw hinv hnr hext
  obtain ⟨dk, p, hkey, hpar, hent⟩ := hw pl rfl
  obtain ⟨e, he⟩ := hent hsimple hlen
  refine ⟨p, e, by rw [hkey]; exact hpar, he, fun dt hfr => ?_⟩
  have hctx : ∀ v : World, v.facs = w.facs → v.sessions = w.sessions → sessionCtx v s = sessionCtx w s := by
    intro v h1 h2; unfold sessionCtx; rw [h1, h2]
  have hc1 : sessionCtx (applyOp w1 (.advance dt)).2 s = sessionCtx w s := hctx _ hext.facs hext.sessions
  have hh : Hit (applyOp w1 (.advance dt)).2 (sessionCtx w s).ikCache p (sessionCtx w s).pol.revokeInterval e.obj := by
    refine ⟨e, he, rfl, ?_⟩
    unfold isReloadRequired
    show (if (keyAt w1 e.obj).revoked = true then false else decide (e.loadedAt + _ < w1.now + dt)) = false
    rcases hfr with h1 | h1
    · rw [h1]; rfl
    · split
      · rfl
      · simp only [decide_eq_false_iff_not]; omega
  have hs := decrypt_hit_silent (applyOp w1 (.advance dt)).2 s d true dk p e.obj hkey hpar
    (by rw [hc1]; show modeOf w1 _ = _; rw [hnr.1.2]; exact hsimple) (by rw [hc1]; exact hh)
  unfold Wp at hs
  rw [applyOp_world]
  exact hs.1

/-! ### after the interval: the key's record is re-read first -/

/-- **C20, third sentence.**  On a real (map-backed or bounded) intermediate-key cache, when the
"latest" entry of the session's partition is missing, or due for a reload (`loadedAt + interval <
now` and not flagged revoked), the first call an encrypt makes — before any AEAD use of a key — is
the re-read of the partition's latest intermediate-key record; likewise a decrypt whose entry for
the record's intermediate key is missing or due first re-reads that key's record.
(Partial with respect to "exactly once": after that first read the loader may read again — when the
record it found is invalid it creates a key, and after a refused insert it re-reads the latest.) -/
theorem after_interval_one_reread {w : World} (s : Nat)
    (hmode : modeOf w (sessionCtx w s).ikCache ≠ .never) :
    (∀ pay, (∀ e, readEntry w (sessionCtx w s).ikCache ⟨.ik (sessionCtx w s).part, 0⟩ = some e →
        isReloadRequired e (keyAt w e.obj) w.now (sessionCtx w s).pol.revokeInterval = true) →
      LogHead (.loadLatest (.ik (sessionCtx w s).part)
        ((latestRow w.store (.ik (sessionCtx w s).part)).map (·.created)) false) (applyOp w (.encrypt s pay [])).2) ∧
    (∀ (d : Drr) (dk : DrrKey) (p : KeyMeta), d.key = some dk → dk.parent = some p → p.kid = .ik (sessionCtx w s).part →
      (∀ e, readEntry w (sessionCtx w s).ikCache p = some e →
        isReloadRequired e (keyAt w e.obj) w.now (sessionCtx w s).pol.revokeInterval = true) →
      LogHead (.load p (findRow w.store p).isSome false) (applyOp w (.decrypt s d [])).2) := by
  refine ⟨fun pay hst => ?_, fun d dk p hk hp hkid hst => ?_⟩
  · rw [applyOp_world]; exact encrypt_reread w s pay true hmode hst
  · rw [applyOp_world]; exact decrypt_reread w s d true dk p hk hp hkid hmode hst

/-! ### one unwrap of a system key per factory and interval -/

/-- the system-key stamps a call log shows being unwrapped by the KMS: a successful `kmsDec` is
attributed to the system-key record read last before it. -/
def skUnwraps : List Call → Option Int → List Int
  | [], _ => []
  | .loadLatest .sk (some c) false :: rest, _ => skUnwraps rest (some c)
  | .load ⟨.sk, c⟩ true false :: rest, _ => skUnwraps rest (some c)
  | .kmsDec false :: rest, some c => c :: skUnwraps rest (some c)
  | _ :: rest, last => skUnwraps rest last

/-- (factory, system-key stamp, clock) of every KMS unwrap along a history. -/
def unwrapEvents : World → List Op → List (Nat × Int × Int)
  | _, [] => []
  | w, op :: rest =>
    (match op with
      | .encrypt s _ _ => (skUnwraps (applyOp w op).2.log none).map fun c => ((w.sessions.getD s default).fac, c, w.now)
      | .decrypt s _ _ => (skUnwraps (applyOp w op).2.log none).map fun c => ((w.sessions.getD s default).fac, c, w.now)
      | _ => []) ++ unwrapEvents (applyOp w op).2 rest

/-- **full statement**: along every allowed history in which every factory caches system keys in a
map-backed cache, two unwraps of the same system-key row by the same factory are at least that
factory's revoke-check interval apart. -/
def sk_unwrapped_once_per_interval_full : Prop :=
  ∀ (t : Int) (ops : List Op), histOk (World.init t) ops = true →
    (∀ fac ∈ (runOps (World.init t) ops).2.facs, fac.pol.cacheSK = true ∧ fac.pol.skKind = none) →
    (unwrapEvents (World.init t) ops).Pairwise fun a b => a.1 = b.1 → a.2.1 = b.2.1 →
      a.2.2 + ((runOps (World.init t) ops).2.facs.getD a.1 default).pol.revokeInterval ≤ b.2.2

def T0 : Int := 1700000000 * 1000000000
def sec : Int := 1000000000

/-- SDK-default shape: one-hour interval and lifetime, one-minute creation precision. -/
def polM : Policy :=
  { expireAfter := 3600 * sec, revokeInterval := 3600 * sec, precision := 60 * sec, cacheSK := true, cacheIK := true, sharedIK := false }

/-- the system key is created and, within the minute, revoked; two seconds later a fresh process
(factory 1) encrypts for two new partitions. -/
def hUnwrap : List Op := [.newFactory polM 0 0 0 0, .getSession 0 0 0 0, .encrypt 0 1 [], .revoke ⟨.sk, 1699999980⟩,
  .advance 2000000000, .newFactory polM 0 0 0 0, .getSession 1 1 0 0, .encrypt 1 2 [], .getSession 1 2 0 0, .encrypt 2 3 []]

/-- **the full statement is false.** When the latest system key is revoked and no later stamp can be
created (the clock is still inside the creation-precision window of that key), `GetOrLoadLatest`
never obtains a valid key: every creation of an intermediate key re-reads the latest system-key
record, is refused the insert of a new one (duplicate stamp), adopts the revoked record and unwraps
it again — twice in the first encrypt of the fresh factory, once more in the next partition's first
encrypt, all at the same instant (and the new intermediate keys are created under the revoked key). -/
theorem sk_unwrapped_once_per_interval_counterexample : ¬ sk_unwrapped_once_per_interval_full := by
  intro h
  have := h T0 hUnwrap (by decide) (by decide)
  revert this; decide

/-- **what holds (`…_partial`)**: the exact-stamp path, i.e. every use of a system key as the parent
named by an intermediate-key record (`getOrLoadSystemKey`, shared by all sessions and partitions of
the factory through `Factory.skCache`).  While the factory's map-backed cache holds an entry for the
system key `p` that is within its interval (or flagged revoked), the call returns that key without
any metastore or KMS call — no unwrap, however many sessions and partitions ask.  Missing with
respect to the full statement: the "latest" path of `createIntermediateKey` when the latest system
key is invalid (counterexample above). -/
theorem sk_unwrapped_once_per_interval_partial {w : World} (x : Ctx) (p : KeyMeta) (k : Nat)
    (hsimple : modeOf w x.skCache = .simple) (hh : Hit w x.skCache p x.pol.revokeInterval k) :
    (getOrLoadSystemKey x p w).1 = .ok k ∧ (getOrLoadSystemKey x p w).2.log = w.log ∧
      (getOrLoadSystemKey x p w).2.store = w.store := by
  have := getOrLoad_hit_wp x.skCache p x.pol.revokeInterval loadSystemKey w k hsimple hh
  unfold Wp at this
  unfold getOrLoadSystemKey
  exact ⟨this.1, this.2.log, this.2.cw.store⟩

/-! ### non-vacuity -/

def polNo : Policy :=
  { expireAfter := 3600 * sec, revokeInterval := 60 * sec, precision := sec, cacheSK := false, cacheIK := false, sharedIK := false }
def pol1 : Policy :=
  { expireAfter := 3600 * sec, revokeInterval := 60 * sec, precision := sec, cacheSK := true, cacheIK := true, sharedIK := false }

def wNo : World := (runOps (World.init T0) [.newFactory polNo 0 0 0 0, .getSession 0 0 0 0, .encrypt 0 1 []]).2
def w1 : World := (runOps (World.init T0) [.newFactory pol1 0 0 0 0, .getSession 0 0 0 0, .encrypt 0 1 []]).2
def d1 : Drr :=
  { key := some { created := 1700000000, enc := .enc 1 2 (.key 2), parent := some ⟨.ik 0, 1700000000⟩ },
    data := .enc 2 1 (.payload 1) }
def d2 : Drr :=
  { key := some { created := 1700000000, enc := .enc 1 4 (.key 3), parent := some ⟨.ik 0, 1700000000⟩ },
    data := .enc 3 3 (.payload 2) }

/-- `nocache_retains_nothing`: a factory with caching disabled that has been used. -/
example : Reach wNo ∧ ∃ fac, wNo.facs[0]? = some fac ∧
    fac.pol.cacheSK = false ∧ fac.pol.cacheIK = false ∧ fac.pol.sharedIK = false ∧ wNo.store.length = 2 :=
  ⟨⟨T0, _, by decide, rfl⟩, _, rfl, rfl, rfl, rfl, by decide⟩

/-- `repeat_is_silent` / `simple_of_policy`: after a first encrypt the session's map-backed cache holds
a fresh, valid "latest" entry. -/
example : Reach w1 ∧ sessionOpen w1 0 ∧ modeOf w1 (sessionCtx w1 0).ikCache = .simple ∧
    ∃ e, readEntry w1 (sessionCtx w1 0).ikCache ⟨.ik (sessionCtx w1 0).part, 0⟩ = some e ∧
      w1.now + (59 * 1000000000 : Nat) ≤ e.loadedAt + (sessionCtx w1 0).pol.revokeInterval ∧
      (keyAt w1 e.obj).revoked = false ∧
      isExpired (w1.now + (59 * 1000000000 : Nat)) (keyAt w1 e.obj).created (sessionCtx w1 0).pol.expireAfter = false :=
  ⟨⟨T0, _, by decide, rfl⟩, ⟨_, rfl, rfl, _, rfl, rfl⟩, by decide, ⟨1700000000000000000, 1⟩, by decide, by decide, by decide, by decide⟩

/-- `encrypt_leaves_entry` / `repeat_decrypt_is_silent`: the operations succeed on that world. -/
example : (∃ d w', allowed w1 (.encrypt 0 2 []) = true ∧ applyOp w1 (.encrypt 0 2 []) = (.record d, w')) ∧
    (∃ pl w', applyOp w1 (.decrypt 0 d1 []) = (.payload pl, w')) :=
  ⟨⟨d2, _, by decide, Prod.ext (by decide) rfl⟩, ⟨1, _, Prod.ext (by decide) rfl⟩⟩

/-- `after_interval_one_reread`: 61 s later the entry is due for a reload. -/
example : modeOf (applyOp w1 (.advance 61000000000)).2 (sessionCtx w1 0).ikCache ≠ .never ∧
    ∀ e, readEntry (applyOp w1 (.advance 61000000000)).2 (sessionCtx w1 0).ikCache ⟨.ik 0, 0⟩ = some e →
      isReloadRequired e (keyAt (applyOp w1 (.advance 61000000000)).2 e.obj) (applyOp w1 (.advance 61000000000)).2.now
        (sessionCtx w1 0).pol.revokeInterval = true := by
  refine ⟨by decide, ?_⟩
  intro e he
  have : readEntry (applyOp w1 (.advance 61000000000)).2 (sessionCtx w1 0).ikCache ⟨.ik 0, 0⟩
      = some ⟨1700000000000000000, 1⟩ := by decide
  rw [this] at he; cases he
  decide

/-- `sk_unwrapped_once_per_interval_partial`: the factory's cache holds a fresh entry for the system key. -/
example : modeOf w1 (sessionCtx w1 0).skCache = .simple ∧
    Hit w1 (sessionCtx w1 0).skCache ⟨.sk, 1700000000⟩ (sessionCtx w1 0).pol.revokeInterval 0 :=
  ⟨by decide, ⟨1700000000000000000, 0⟩, by decide, rfl, by decide⟩

/-- the policy options, defaults and stamp computation of policy.go are the vetted ones (which caches
exist under which options is what "caching disabled / enabled" in the statements above refers to). -/
theorem policy_source_as_vetted :
    Generated.Policy.options = Expected.Policy.options ∧
    Generated.Policy.defaults = Expected.Policy.defaults ∧
    Generated.Policy.constants = Expected.Policy.constants ∧
    Generated.Policy.newCryptoPolicySkeleton = Expected.Policy.newCryptoPolicySkeleton ∧
    Generated.Policy.newKeyTimestampSkeleton = Expected.Policy.newKeyTimestampSkeleton ∧
    Generated.Policy.newKeyTimestampReturns = Expected.Policy.newKeyTimestampReturns :=
  ⟨rfl, rfl, rfl, rfl, rfl, rfl⟩

end AsherahVerif.Props.C20
