import AsherahVerif.Proofs.PartitionDec
import AsherahVerif.Expected.Partition
/-
C06 — Partition isolation: a session never decrypts another partition's records; sessions for an
empty partition id are refused.

Everything here is about `AsherahVerif.Partition` (Model/Partition.lean), the executable model of
go/appencryption/partition.go, of `SessionFactory.GetSession`/`newPartition`, of the guard sequence
at the top of `DecryptDataRowRecord` and of `cacheKey`, whose id functions are `sprintf` of the
format literals regenerated from /repo (`Generated.Partition`), and which the correspondence check
(go/cmd/hxpartition + Driver/Partition.lean) runs against the real SDK on every run.

All statements quantify over ALL byte strings (`Bytes = List UInt8`): ids with underscores, ids that
embed the service/product names or a region suffix, empty service/product, invalid UTF-8.  What
happens after the guard of `DecryptDataRowRecord` (key cache, metastore, KMS, AES-GCM) is an
arbitrary function `rest` in `decrypt`: "error" is decided before any key is looked up, so the
theorems hold for every cache state, metastore content and key.

Outcome on the unchanged tree:
* default (unsuffixed) partitions: isolation holds for all pairs          — `default_isolated`.
* suffixed partitions (metastore reports a region suffix): the FULL statement is false (defect F-4,
  `suffixed_counterexample`, `suffixed_never_isolated`: EVERY session accepts some foreign
  partition).  It holds exactly when neither id continues the other by `_…` in the way described by
  `suffixed_accepts_iff`; `suffixed_isolated_partial` proves it under the weakest hypothesis that
  does not mention service/product/suffix: neither id is the other one followed by an underscore.
-/
namespace AsherahVerif.Props.C06
open AsherahVerif.Partition

/-! ### the tie: regenerated facts are the ones the model was written against -/

theorem generated_formats_eq_expected :
    Generated.Partition.fmtSK = Expected.Partition.fmtSK ∧
    Generated.Partition.fmtIK = Expected.Partition.fmtIK ∧
    Generated.Partition.fmtSKSfx = Expected.Partition.fmtSKSfx ∧
    Generated.Partition.fmtIKSfx = Expected.Partition.fmtIKSfx ∧
    Generated.Partition.fmtSKArgs = Expected.Partition.fmtSKArgs ∧
    Generated.Partition.fmtIKArgs = Expected.Partition.fmtIKArgs ∧
    Generated.Partition.fmtSKSfxArgs = Expected.Partition.fmtSKSfxArgs ∧
    Generated.Partition.fmtIKSfxArgs = Expected.Partition.fmtIKSfxArgs ∧
    Generated.Partition.fmtSKText = Expected.Partition.fmtSKText ∧
    Generated.Partition.fmtIKText = Expected.Partition.fmtIKText ∧
    Generated.Partition.fmtSKSfxText = Expected.Partition.fmtSKSfxText ∧
    Generated.Partition.fmtIKSfxText = Expected.Partition.fmtIKSfxText := by
  decide

theorem generated_validity_eq_expected :
    Generated.Partition.isValidDefaultReturn = Expected.Partition.isValidDefaultReturn ∧
    Generated.Partition.isValidDefaultSkeleton = Expected.Partition.isValidDefaultSkeleton ∧
    Generated.Partition.isValidSuffixedReturn = Expected.Partition.isValidSuffixedReturn ∧
    Generated.Partition.isValidSuffixedSkeleton = Expected.Partition.isValidSuffixedSkeleton ∧
    Generated.Partition.newPartitionFields = Expected.Partition.newPartitionFields ∧
    Generated.Partition.newSuffixedPartitionFields = Expected.Partition.newSuffixedPartitionFields := by
  decide

theorem generated_session_eq_expected :
    Generated.Partition.getSessionSkeleton = Expected.Partition.getSessionSkeleton ∧
    Generated.Partition.newPartitionSkeleton = Expected.Partition.newPartitionSkeleton ∧
    Generated.Partition.newPartitionReturns = Expected.Partition.newPartitionReturns ∧
    Generated.Partition.newSessionPartitionField = Expected.Partition.newSessionPartitionField := by
  decide

/-- the validity check precedes the first key-cache lookup of `DecryptDataRowRecord`; a record
carries the producing partition's `IntermediateKeyID()`. -/
theorem generated_guard_eq_expected :
    Generated.Partition.decryptGuardSkeleton = Expected.Partition.decryptGuardSkeleton ∧
    Generated.Partition.encryptParentKeyMetaID = Expected.Partition.encryptParentKeyMetaID := by
  decide

theorem generated_cacheKey_eq_expected :
    Generated.Partition.cacheKeyReturn = Expected.Partition.cacheKeyReturn ∧
    Generated.Partition.cacheKeyParams = Expected.Partition.cacheKeyParams := by
  decide

/-- the regenerated formats are inside the fragment of `fmt.Sprintf` the model covers (only `%s`,
argument counts match): the ids are exactly these byte strings, for all arguments. -/
theorem formats_render (p s pr x : Bytes) :
    skId s pr = skPre ++ s ++ us :: pr ∧
    ikId p s pr = ikPre ++ p ++ us :: (s ++ us :: pr) ∧
    skIdSfx s pr x = skPre ++ s ++ us :: pr ++ us :: x ∧
    ikIdSfx p s pr x = ikPre ++ p ++ us :: (s ++ us :: pr) ++ us :: x :=
  ⟨skId_eq s pr, ikId_eq p s pr, skIdSfx_eq s pr x, ikIdSfx_eq p s pr x⟩

/-- the precomputed form of the validity check that `md_partition` executes is the model's. -/
theorem validator_correct (part : Part) (id : Bytes) :
    part.validator.accepts id = part.isValidIntermediateKeyID id := validator_accepts part id

/-! ### what "isolated" means -/

/-- sessions of factory `f` for `p` and `q`: whatever record the `q` session produced (any IK
creation stamp) and whatever lies behind the guard (`rest`: caches, metastore, KMS, AEAD — any
state), the `p` session's `Decrypt` of it is an error. -/
def Isolated (f : Factory) (p q : Bytes) : Prop :=
  ∀ sp sq, getSession f p = some sp → getSession f q = some sq →
    ∀ (created : Int) (rest : KeyMeta → Res), decrypt sp (recordOf sq created) rest = .err

/-- the metastore does not report a region suffix (no `GetRegionSuffix`, or it returns ""). -/
def Unsuffixed (f : Factory) : Prop := f.regionSuffix = none ∨ f.regionSuffix = some []

/-! ### empty partition id -/

/-- **`GetSession("")` is refused — and only that id is**, for every factory. -/
theorem empty_partition_refused (f : Factory) :
    getSession f [] = none ∧ ∀ id, getSession f id = none ↔ id = [] := by
  constructor
  · simp [getSession, getSessionOk]
  · intro id
    simp [getSession, getSessionOk]

/-! ### the guard decides before any key lookup -/

/-- a record is rejected without consulting anything else exactly when it lacks `Key`, lacks
`ParentKeyMeta`, or its parent key id is not valid for the session's partition; otherwise
`DecryptDataRowRecord` goes on with exactly the record's `ParentKeyMeta`. -/
theorem guard_decides_first (part : Part) (drr : Drr) (rest : KeyMeta → Res) :
    decrypt part drr rest =
      match drr.key with
      | none => .err
      | some k => match k.parentKeyMeta with
        | none => .err
        | some m => if part.isValidIntermediateKeyID m.id then rest m else .err := by
  obtain ⟨key⟩ := drr
  cases key with
  | none => rfl
  | some k =>
    obtain ⟨pm⟩ := k
    cases pm with
    | none => rfl
    | some m => cases h : part.isValidIntermediateKeyID m.id <;> simp [decrypt, decryptGuard, h]

/-- a session always lets its own records through the guard (both schemes). -/
theorem own_record_passes (f : Factory) (p : Bytes) (sp : Part) (h : getSession f p = some sp)
    (created : Int) (rest : KeyMeta → Res) :
    decrypt sp (recordOf sp created) rest = rest ⟨sp.intermediateKeyID, created⟩ := by
  simp only [getSession] at h
  split at h
  · injection h with h
    subst h
    unfold newPartition
    split
    · split
      · simp [decrypt, decryptGuard, recordOf, Part.isValidIntermediateKeyID, Part.intermediateKeyID,
          isValidIKSfx]
      · simp [decrypt, decryptGuard, recordOf, Part.isValidIntermediateKeyID, Part.intermediateKeyID,
          isValidIK]
    · simp [decrypt, decryptGuard, recordOf, Part.isValidIntermediateKeyID, Part.intermediateKeyID,
        isValidIK]
  · cases h

/-! ### default (unsuffixed) partitions: isolation holds for all ids -/

/-- **the default IK id determines the partition id**, for all byte strings. -/
theorem default_injective (p q s pr : Bytes) : ikId p s pr = ikId q s pr → p = q := ikId_inj

/-- id level: the guard of a default session for `p` rejects the IK id of every other partition. -/
theorem default_isolated_ids (p q s pr : Bytes) (h : p ≠ q) :
    isValidIK p s pr (ikId q s pr) = false := by
  cases hv : isValidIK p s pr (ikId q s pr) with
  | false => rfl
  | true => exact absurd (ikId_inj ((isValidIK_iff _ _ _ _).mp hv)).symm h

private theorem getSession_unsuffixed {f : Factory} (hf : Unsuffixed f) {p : Bytes} {sp : Part}
    (h : getSession f p = some sp) : sp = .dflt p f.service f.product := by
  simp only [getSession] at h
  split at h
  · injection h with h
    subst h
    unfold newPartition
    rcases hf with hf | hf <;> simp [hf]
  · cases h

/-- **default scheme: every pair of distinct partition ids is isolated**, whatever the ids, the
service and the product look like, for every cache/metastore/key state. -/
theorem default_isolated (f : Factory) (hf : Unsuffixed f) (p q : Bytes) (h : p ≠ q) :
    Isolated f p q := by
  intro sp sq hp hq created rest
  rw [getSession_unsuffixed hf hp, getSession_unsuffixed hf hq]
  simp [decrypt, decryptGuard, recordOf, Part.isValidIntermediateKeyID, Part.intermediateKeyID,
    default_isolated_ids p q f.service f.product h]

/-! ### suffixed partitions -/

/-- **exactly which foreign records a suffixed session accepts**: its own partition's, and those of
every `q` such that `p ++ "_svc_prod"` is a prefix of `q ++ "_svc_prod_sfx"`. -/
theorem suffixed_accepts_iff (p q s pr x : Bytes) :
    isValidIKSfx p s pr x (ikIdSfx q s pr x) = true ↔
      p = q ∨ p ++ us :: (s ++ us :: pr) <+: q ++ us :: (s ++ us :: pr) ++ us :: x :=
  sfx_accepts_iff p q s pr x

/-- id level, any service/product/suffix: if neither id is the other one continued by `_`, the
suffixed guard of `p` rejects `q`'s IK id. -/
theorem suffixed_isolated_ids_partial (p q s pr x : Bytes) (h : p ≠ q)
    (h1 : ¬ p ++ [us] <+: q) (h2 : ¬ q ++ [us] <+: p) :
    isValidIKSfx p s pr x (ikIdSfx q s pr x) = false := by
  cases hv : isValidIKSfx p s pr x (ikIdSfx q s pr x) with
  | false => rfl
  | true =>
    rcases (sfx_accepts_iff p q s pr x).mp hv with e | hpre
    · exact absurd e h
    · unfold tail at hpre
      rw [List.append_assoc] at hpre
      rcases prefix_cases hpre with e | e | e
      · exact absurd e h
      · exact absurd e h1
      · exact absurd e h2

/-- the full statement of C06 (every factory, in particular the region-suffixed ones). -/
def suffixed_isolated_full : Prop := ∀ (f : Factory) (p q : Bytes), p ≠ q → Isolated f p q

/-- **PARTIAL (what is missing: ids of which one continues the other by an underscore — for those
the statement is false, see `suffixed_counterexample`).**  For EVERY factory — suffixed or not, any
service, product, region suffix — two distinct partition ids of which neither is the other followed
by `_…` are isolated. -/
theorem suffixed_isolated_partial (f : Factory) (p q : Bytes) (h : p ≠ q)
    (h1 : ¬ p ++ [us] <+: q) (h2 : ¬ q ++ [us] <+: p) : Isolated f p q := by
  intro sp sq hp hq created rest
  simp only [getSession] at hp hq
  split at hp
  · split at hq
    · injection hp with hp
      injection hq with hq
      subst hp hq
      unfold newPartition
      split
      · split
        · simp [decrypt, decryptGuard, recordOf, Part.isValidIntermediateKeyID,
            Part.intermediateKeyID, suffixed_isolated_ids_partial p q _ _ _ h h1 h2]
        · simp [decrypt, decryptGuard, recordOf, Part.isValidIntermediateKeyID,
            Part.intermediateKeyID, default_isolated_ids p q _ _ h]
      · simp [decrypt, decryptGuard, recordOf, Part.isValidIntermediateKeyID,
          Part.intermediateKeyID, default_isolated_ids p q _ _ h]
    · cases hq
  · cases hp

/-- corollary: ids without any underscore are isolated under every scheme. -/
theorem suffixed_isolated_no_underscore (f : Factory) (p q : Bytes) (h : p ≠ q)
    (hp : us ∉ p) (hq : us ∉ q) : Isolated f p q := by
  apply suffixed_isolated_partial f p q h
  · rintro ⟨r, hr⟩; apply hq; rw [← hr]; simp
  · rintro ⟨r, hr⟩; apply hp; rw [← hr]; simp

/-- corollary: ids of equal length are isolated under every scheme. -/
theorem suffixed_isolated_same_length (f : Factory) (p q : Bytes) (h : p ≠ q)
    (hl : p.length = q.length) : Isolated f p q := by
  apply suffixed_isolated_partial f p q h
  · rintro ⟨r, hr⟩; have := congrArg List.length hr; simp at this; omega
  · rintro ⟨r, hr⟩; have := congrArg List.length hr; simp at this; omega

/-- "a" -/ private def cxP : Bytes := [97]
/-- "a_svc_prod" -/ private def cxQ : Bytes := [97, 95, 115, 118, 99, 95, 112, 114, 111, 100]
/-- "svc" -/ private def cxS : Bytes := [115, 118, 99]
/-- "prod" -/ private def cxPr : Bytes := [112, 114, 111, 100]
/-- "us-west-2" -/ private def cxX : Bytes := [117, 115, 45, 119, 101, 115, 116, 45, 50]

/-- **F-4: the unchanged code violates the full statement.**  With service "svc", product "prod",
region suffix "us-west-2": the session for partition "a" accepts the parent key id
`_IK_a_svc_prod_svc_prod_us-west-2` of records of partition "a_svc_prod". -/
theorem suffixed_counterexample :
    ∃ p q : Bytes, p ≠ q ∧ isValidIKSfx p cxS cxPr cxX (ikIdSfx q cxS cxPr cxX) = true :=
  ⟨cxP, cxQ, by decide, by decide⟩

/-- the same at session level: that `Decrypt` goes on to look the foreign IK up (and, both
partitions sharing the system key, decrypts the record — observed on the real SDK by hxpartition). -/
theorem suffixed_counterexample_session :
    let f : Factory := ⟨cxS, cxPr, some cxX⟩
    ∃ sp sq, getSession f cxP = some sp ∧ getSession f cxQ = some sq ∧
      ∀ created rest, decrypt sp (recordOf sq created) rest = rest ⟨ikIdSfx cxQ cxS cxPr cxX, created⟩ := by
  refine ⟨.sfx cxP cxS cxPr cxX, .sfx cxQ cxS cxPr cxX, by decide, by decide, ?_⟩
  intro created rest
  have h : isValidIKSfx cxP cxS cxPr cxX (ikIdSfx cxQ cxS cxPr cxX) = true := by decide
  simp [decrypt, decryptGuard, recordOf, Part.isValidIntermediateKeyID, Part.intermediateKeyID, h]

/-- the full statement is false for the code as it is. -/
theorem suffixed_isolated_full_false : ¬ suffixed_isolated_full := by
  intro hfull
  have h := hfull ⟨cxS, cxPr, some cxX⟩ cxP cxQ (by decide)
    (.sfx cxP cxS cxPr cxX) (.sfx cxQ cxS cxPr cxX) (by decide) (by decide) 0
    (fun _ => .plaintext [])
  have hv : isValidIKSfx cxP cxS cxPr cxX (ikIdSfx cxQ cxS cxPr cxX) = true := by decide
  simp [decrypt, decryptGuard, recordOf, Part.isValidIntermediateKeyID, Part.intermediateKeyID, hv] at h

/-- the defect is not tied to particular names: under the suffixed scheme EVERY partition `p` of
EVERY service/product/suffix accepts the records of the distinct partition `p ++ "_svc_prod"`. -/
theorem suffixed_never_isolated (p s pr x : Bytes) :
    let q := p ++ us :: (s ++ us :: pr)
    p ≠ q ∧ isValidIKSfx p s pr x (ikIdSfx q s pr x) = true := by
  constructor
  · intro e
    have := congrArg List.length e
    simp at this
  · rw [sfx_accepts_iff]
    right
    exact ⟨us :: (s ++ us :: pr) ++ us :: x, by simp [tail]⟩

/-- what the prefix rule is for: the same partition's records written under ANOTHER region suffix
are accepted. -/
theorem suffixed_accepts_other_region (p s pr x y : Bytes) :
    isValidIKSfx p s pr x (ikIdSfx p s pr y) = true := by
  rw [isValidIKSfx_iff, ikIdSfx_eq_ikId p s pr y]
  exact Or.inr ⟨us :: y, rfl⟩

/-! ### cacheKey: `id ++ decimal(created)` without a separator -/

/-- **ids with a common tail containing `_`** (all IK ids of one service/product[/suffix] are
`"_IK_" ++ partition ++ tail`; the one SK id likewise): the cache key determines id and stamp, for
all integers (negative ones included). -/
theorem cacheKey_injective (x y t : Bytes) (c d : Int) (ht : us ∈ t) :
    cacheKey (x ++ t) c = cacheKey (y ++ t) d → x = y ∧ c = d :=
  cacheKey_common_tail_inj ht

/-- per-session and shared IK caches of a default factory. -/
theorem cacheKey_injective_ik (p q s pr : Bytes) (c d : Int)
    (h : cacheKey (ikId p s pr) c = cacheKey (ikId q s pr) d) : p = q ∧ c = d := by
  rw [ikId_eq, ikId_eq, List.append_assoc, List.append_assoc] at h
  have h' : cacheKey (ikPre ++ p ++ tail s pr) c = cacheKey (ikPre ++ q ++ tail s pr) d := by
    simpa [List.append_assoc] using h
  have := cacheKey_common_tail_inj (t := tail s pr) (by simp [tail]) h'
  exact ⟨List.append_cancel_left this.1, this.2⟩

/-- IK caches of a suffixed factory, among ids of the same region suffix. -/
theorem cacheKey_injective_ikSfx (p q s pr x : Bytes) (c d : Int)
    (h : cacheKey (ikIdSfx p s pr x) c = cacheKey (ikIdSfx q s pr x) d) : p = q ∧ c = d := by
  rw [ikIdSfx_eq, ikIdSfx_eq] at h
  have h' : cacheKey (ikPre ++ p ++ (tail s pr ++ us :: x)) c =
      cacheKey (ikPre ++ q ++ (tail s pr ++ us :: x)) d := by
    simpa [List.append_assoc] using h
  have := cacheKey_common_tail_inj (t := tail s pr ++ us :: x) (by simp [tail]) h'
  exact ⟨List.append_cancel_left this.1, this.2⟩

/-- system-key cache: one id per factory. -/
theorem cacheKey_injective_sk (id : Bytes) (c d : Int) (h : cacheKey id c = cacheKey id d) : c = d := by
  unfold cacheKey at h
  exact decimal_inj (List.append_cancel_left h)

/-- arbitrary ids (e.g. the ids of different region suffixes that pass a suffixed guard): injective
among stamps of equal decimal width … -/
theorem cacheKey_injective_same_width (i j : Bytes) (c d : Int)
    (hw : (decimal c).length = (decimal d).length) :
    cacheKey i c = cacheKey j d → i = j ∧ c = d :=
  cacheKey_same_width_inj hw

/-- … in particular for all Unix stamps from 2001-09-09 until 2286-11-20. -/
theorem cacheKey_injective_until_2286 (i j : Bytes) (c d : Int)
    (hc : 1000000000 ≤ c ∧ c < 10000000000) (hd : 1000000000 ≤ d ∧ d < 10000000000) :
    cacheKey i c = cacheKey j d → i = j ∧ c = d :=
  cacheKey_same_width_inj (by rw [decimal_length_ten hc.1 hc.2, decimal_length_ten hd.1 hd.2])

/-- what is NOT true: without the width hypothesis the encoding is ambiguous between ids of
different region suffixes that the same suffixed session accepts — partition "a", suffix "r" at
stamp 1700000000 and suffix "r1" at stamp 700000000 (year 1992) share the key
`_IK_a_s_p_r1700000000`. -/
theorem cacheKey_counterexample :
    ∃ (p s pr x y : Bytes) (c d : Int),
      (ikIdSfx p s pr x, c) ≠ (ikIdSfx p s pr y, d) ∧
      isValidIKSfx p s pr x (ikIdSfx p s pr x) = true ∧
      isValidIKSfx p s pr x (ikIdSfx p s pr y) = true ∧
      cacheKey (ikIdSfx p s pr x) c = cacheKey (ikIdSfx p s pr y) d :=
  ⟨[97], [115], [112], [114], [114, 49], 1700000000, 700000000, by decide, by decide, by decide, by decide⟩

/-! ### non-vacuity -/

/-- `default_isolated`: such factories, sessions and records exist, and the own record is let through. -/
example :
    let f : Factory := ⟨cxS, cxPr, none⟩
    Unsuffixed f ∧ getSession f cxP = some (.dflt cxP cxS cxPr) ∧
      getSession f cxQ = some (.dflt cxQ cxS cxPr) ∧
      decrypt (.dflt cxP cxS cxPr) (recordOf (.dflt cxQ cxS cxPr) 5) (fun _ => .plaintext [1]) = .err ∧
      decrypt (.dflt cxP cxS cxPr) (recordOf (.dflt cxP cxS cxPr) 5) (fun _ => .plaintext [1]) = .plaintext [1] := by
  refine ⟨Or.inl rfl, by decide, by decide, by decide, by decide⟩

/-- a metastore that reports the empty suffix yields default partitions. -/
example : Unsuffixed ⟨cxS, cxPr, some []⟩ ∧ newPartition ⟨cxS, cxPr, some []⟩ cxP = .dflt cxP cxS cxPr :=
  ⟨Or.inr rfl, by decide⟩

/-- `suffixed_isolated_partial`: its hypotheses are satisfiable by ids WITH underscores under a
suffixed factory ("a_b" vs "a"+"b" = "ab", and "a_b" vs "a_c"), and the conclusion is an actual
rejection there. -/
example :
    let f : Factory := ⟨cxS, cxPr, some cxX⟩
    let p : Bytes := [97, 95, 98]; let q : Bytes := [97, 95, 99]
    p ≠ q ∧ ¬ p ++ [us] <+: q ∧ ¬ q ++ [us] <+: p ∧
      getSession f p = some (.sfx p cxS cxPr cxX) ∧
      decrypt (.sfx p cxS cxPr cxX) (recordOf (.sfx q cxS cxPr cxX) 5) (fun _ => .plaintext [1]) = .err := by
  refine ⟨by decide, ?_, ?_, by decide, by decide⟩
  · rw [← List.isPrefixOf_iff_prefix]; decide
  · rw [← List.isPrefixOf_iff_prefix]; decide

/-- the hypothesis of `suffixed_isolated_partial` cannot simply be dropped on one side: both
directions have witnesses ("a" accepts "a_svc_prod"; "a_s_p" with suffix "s_p" accepts "a"). -/
example : isValidIKSfx [97, 95, 115, 95, 112] [115] [112] [115, 95, 112]
    (ikIdSfx [97] [115] [112] [115, 95, 112]) = true := by decide

/-- `empty_partition_refused` / `getSession` accept something. -/
example : getSession ⟨cxS, cxPr, some cxX⟩ cxP = some (.sfx cxP cxS cxPr cxX) := by decide

/-- `cacheKey_injective`: the common tails in question do contain an underscore. -/
example : us ∈ tail cxS cxPr ∧ ikId cxP cxS cxPr = ikPre ++ cxP ++ tail cxS cxPr ∧
    cacheKey (ikId cxP cxS cxPr) 1700000000 =
      [95, 73, 75, 95, 97, 95, 115, 118, 99, 95, 112, 114, 111, 100, 49, 55, 48, 48, 48, 48, 48, 48, 48, 48] := by
  refine ⟨by decide, by decide, by decide⟩

/-- `strings.Index` model: first occurrence, `none` for -1. -/
example : index [1, 2, 3, 2, 3] [2, 3] = some 1 ∧ index [1, 2] [3] = none ∧ index [] [] = some 0 ∧
    index [1, 2] [] = some 0 := by decide

/-- `decimal` is `strconv.FormatInt(·, 10)` on samples (negative, zero, int64 extremes). -/
example : decimal 0 = [48] ∧ decimal (-7) = [45, 55] ∧
    decimal 9223372036854775807 = [57, 50, 50, 51, 51, 55, 50, 48, 51, 54, 56, 53, 52, 55, 55, 53, 56, 48, 55] ∧
    decimal (-9223372036854775808) = [45, 57, 50, 50, 51, 51, 55, 50, 48, 51, 54, 56, 53, 52, 55, 55, 53, 56, 48, 56] := by
  decide

end AsherahVerif.Props.C06
