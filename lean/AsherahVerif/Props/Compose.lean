import AsherahVerif.Props.C01
import AsherahVerif.Props.C02
import AsherahVerif.Props.C09
/-
Composition of the coherence theorems (C01/C02, which are stated modulo "the operation touched a
destroyed secret") with the resource theorem C09.no_access_after_close (no secret is ever touched
after close in a well-formed history): the unconditional forms of the round-trip and recovery
properties for well-formed histories — operations only on open sessions and factories, nothing
closed twice, bounded caches of capacity ≥ 1, creation precision + 1 s ≤ the clock (true of every
real clock), no out-of-band row corruption.
-/
namespace AsherahVerif.Props.C01
open AsherahVerif.Env

theorem runOps_snoc (w : World) (ops : List Op) (op : Op) :
    (runOps w (ops ++ [op])).2 = (applyOp (runOps w ops).2 op).2 := by
  induction ops generalizing w with
  | nil => simp [runOps]
  | cons a t ih => simp only [List.cons_append, runOps]; exact ih _

theorem validFrom_snoc (w : World) (ops : List Op) (op : Op)
    (hv : validFrom w ops) (ho : opOk (runOps w ops).2 op) : validFrom w (ops ++ [op]) := by
  induction ops generalizing w with
  | nil => simpa [validFrom, runOps] using ho
  | cons a t ih =>
    simp only [List.cons_append, validFrom] at hv ⊢
    exact ⟨hv.1, ih _ hv.2 (by simpa [runOps] using ho)⟩

/-- **C01, unconditional form**: in every well-formed history, every record returned by an
encrypt decrypts — in the final state, on every open session of that partition, after any
expiry, rotation, revocation, eviction, restart — to exactly the original payload. -/
theorem roundtrip_valid (t : Int) (ops : List Op) (hh : History t ops)
    (hv : validFrom (World.init t) ops) (hc : CapsPos ops)
    (i s pay : Nat) (fl : List Fault) (d : Drr)
    (hop : ops[i]? = some (.encrypt s pay fl))
    (hout : (runOps (World.init t) ops).1[i]? = some (.record d))
    (s' : Nat) (hopen : sessionOpen (runOps (World.init t) ops).2 s')
    (hpart : ((runOps (World.init t) ops).2.sessions.getD s' default).part =
             ((runOps (World.init t) (ops.take i)).2.sessions.getD s default).part) :
    (applyOp (runOps (World.init t) ops).2 (.decrypt s' d [])).1 = .payload pay := by
  rcases roundtrip t ops hh i s pay fl d hop hout s' hpart with h | h
  · exact h
  · exfalso
    have h0 := AsherahVerif.Props.C09.no_access_after_close t ops hv hc
    have hv' := validFrom_snoc (World.init t) ops (.decrypt s' d []) hv hopen
    have hc' : CapsPos (ops ++ [.decrypt s' d []]) := by
      intro op hm
      rcases List.mem_append.mp hm with hm | hm
      · exact hc op hm
      · simp at hm; subst hm; trivial
    have h1 := AsherahVerif.Props.C09.no_access_after_close t _ hv' hc'
    rw [runOps_snoc] at h1
    omega

end AsherahVerif.Props.C01

namespace AsherahVerif.Props.C02
open AsherahVerif.Env AsherahVerif.Props.C01

/-- **C02 "once the faults stop the next operation succeeds", unconditional form**: after any
well-formed history (whatever faults were injected into its operations), a fault-free encrypt on
an open session does not return an error (it returns a record: C02.encrypt_record_or_error). -/
theorem recovers_valid (t : Int) (ops : List Op) (hh : History t ops)
    (hv : validFrom (World.init t) ops) (hc : CapsPos ops)
    (s pay : Nat) (hopen : sessionOpen (runOps (World.init t) ops).2 s) :
    ∀ e, (applyOp (runOps (World.init t) ops).2 (.encrypt s pay [])).1 ≠ .error e := by
  have h0 := AsherahVerif.Props.C09.no_access_after_close t ops hv hc
  have hv' := validFrom_snoc (World.init t) ops (.encrypt s pay []) hv hopen
  have hc' : CapsPos (ops ++ [.encrypt s pay []]) := by
    intro op hm
    rcases List.mem_append.mp hm with hm | hm
    · exact hc op hm
    · simp at hm; subst hm; trivial
  have h1 := AsherahVerif.Props.C09.no_access_after_close t _ hv' hc'
  rw [runOps_snoc] at h1
  exact recovers_of_no_aac t (runOps (World.init t) ops).2 ⟨ops, hh, rfl⟩ s pay hopen (by omega)

end AsherahVerif.Props.C02
