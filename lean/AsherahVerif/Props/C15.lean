import AsherahVerif.Proofs.CacheLookup
/-
C15 — Generic cache: bounded map with exact eviction notifications, for every policy.

Everything here is about `AsherahVerif.Cache` (Model/Cache.lean), the executable model of
`go/appencryption/pkg/cache` that the correspondence check runs against the real package on every
run.  All theorems hold for every policy (LRU, LFU, SLRU with any protected size, TinyLFU with any
window size, bypassed or not), every capacity ≥ 1, every expiry, every operation sequence and every
answer of the TinyLFU frequency-sketch oracle.  Capacity 0 is outside the property's quantifier
(`cap ≥ 1` is the hypothesis `1 ≤ cap`; the Go code panics on the first `Set` there, and so does
the model: `cap0_panics`).
-/
namespace AsherahVerif.Props.C15
open AsherahVerif.Cache

/-- a cache as built by `cache.New(cap).WithPolicy(kind)…Build()`, then any operation sequence. -/
def reach (kind : Kind) (cap expiry protCap winCap : Nat) (ops : List (Op × (Nat → Bool))) :=
  run (mk kind cap expiry protCap winCap) ops

/-- **never more entries than the capacity**, in every reachable state. -/
theorem size_le_cap (kind : Kind) (cap expiry protCap winCap : Nat) (hcap : 1 ≤ cap)
    (ops : List (Op × (Nat → Bool))) :
    (reach kind cap expiry protCap winCap ops).1.items.length ≤ cap := by
  have h := (run_inv (inv_mk kind cap expiry protCap winCap hcap) ops).1
  have hc : ∀ (c : Cache) (ops : List (Op × (Nat → Bool))), Inv c → (run c ops).1.cap = c.cap := by
    intro c ops
    induction ops generalizing c with
    | nil => intro _; rfl
    | cons a t ih =>
      intro hi
      obtain ⟨op, orc⟩ := a
      simp only [run]
      rw [ih _ (step_inv hi op orc).1]
      cases op <;> simp only [step]
      case set k v =>
        split; rfl
        split; rfl
        split
        · have hne : c.items ≠ [] := by
            intro e; rename_i hfull; rw [e] at hfull; simp at hfull; have := hi.capPos; omega
          obtain ⟨it, _, _, hev⟩ := evict_spec hi.toBij hne (orc 0)
          rw [hev]
        · rfl
      case get k =>
        split; rfl
        split; rfl
        split <;> rfl
      case del k =>
        split; rfl
        split <;> rfl
      case close =>
        split; rfl
        have hb : Bij { c with closing := true } := ⟨hi.itemsNodup, hi.polNodup, hi.same⟩
        obtain ⟨c', cbs, h1, _, _, h4, _, _⟩ :=
          evictAll_spec orc c.items.length { c with closing := true } [] hb (Nat.le_refl _)
        simp only [List.nil_append] at h1
        rw [h1]; exact h4
  have := h.size
  unfold reach
  rw [hc _ ops (inv_mk kind cap expiry protCap winCap hcap)] at this
  exact this

/-- **the policy's bookkeeping and the key map describe the same set of keys, without duplicates**
(so a victim always exists when the cache is non-empty and always is a cached entry). -/
theorem policy_bijection (kind : Kind) (cap expiry protCap winCap : Nat) (hcap : 1 ≤ cap)
    (ops : List (Op × (Nat → Bool))) :
    let c := (reach kind cap expiry protCap winCap ops).1
    c.pol.keys.Nodup ∧ (keysOf c.items).Nodup ∧ ∀ k, k ∈ c.pol.keys ↔ k ∈ keysOf c.items := by
  have h := (run_inv (inv_mk kind cap expiry protCap winCap hcap) ops).1
  exact ⟨h.polNodup, h.itemsNodup, h.same⟩

/-- **no sequence of operations panics** (capacity ≥ 1). -/
theorem no_panic (kind : Kind) (cap expiry protCap winCap : Nat) (hcap : 1 ≤ cap)
    (ops : List (Op × (Nat → Bool))) :
    ∀ r ∈ (reach kind cap expiry protCap winCap ops).2, r.1 ≠ Res.panic :=
  (run_inv (inv_mk kind cap expiry protCap winCap hcap) ops).2

/-- the excluded point: capacity 0 panics on the first `Set` (model and Go agree on this). -/
theorem cap0_panics (kind : Kind) (expiry p w k v : Nat) (orc : Nat → Bool) :
    (step (mk kind 0 expiry p w) (.set k v) orc).res = Res.panic := by
  cases kind <;> simp [step, mk, lookup, evict, Pol.victim, lfuVictim, lfuMin, Slru.victim]

/-! ### what a lookup returns, and exactly which callbacks fire (one step, any reachable state) -/

/-- **Set then Get**: after `Set k v` the key maps to `v`. -/
theorem set_stores {c : Cache} (h : Inv c) (hc : c.closing = false) (k v : Nat) (orc : Nat → Bool) :
    (lookup (step c (.set k v) orc).cache.items k).map (·.val) = some v := by
  simp only [step, hc, Bool.false_eq_true, if_false]
  split
  · next it hit => simp [lookup_setVal, hit]
  · next hnone =>
    have hk := lookup_none.mp hnone
    split
    · next hfull =>
      have hne : c.items ≠ [] := by
        intro e; rw [e] at hfull; simp at hfull; have := h.capPos; omega
      obtain ⟨it, hit, _, hev⟩ := evict_spec h.toBij hne (orc 0)
      rw [hev]
      have hk' : k ∉ keysOf (eraseKey c.items it.key) := fun hm => hk (mem_keysOf_eraseKey.mp hm).2
      simp [lookup_append_new hk']
    · simp [lookup_append_new hk]

/-- **`Set` touches no other key except by evicting it, and then says so**: for `j ≠ k` either the
entry is unchanged, or it is gone and the callback carried exactly the value it held.  At most one
callback, only when the cache was full and `k` was new. -/
theorem set_frame {c : Cache} (h : Inv c) (k v j : Nat) (hj : j ≠ k) (orc : Nat → Bool) :
    let o := step c (.set k v) orc
    (lookup o.cache.items j = lookup c.items j ∧ ∀ w, (j, w) ∉ o.cbs) ∨
    (lookup o.cache.items j = none ∧ ∃ it, lookup c.items j = some it ∧ o.cbs = [(j, it.val)] ∧
       c.items.length = c.cap ∧ lookup c.items k = none) := by
  simp only [step]
  split
  · exact Or.inl ⟨rfl, by simp⟩
  · split
    · next it hit => exact Or.inl ⟨by simp [lookup_setVal, hj], by simp⟩
    · next hnone =>
      have hk := lookup_none.mp hnone
      split
      · next hfull =>
        have hne : c.items ≠ [] := by
          intro e; rw [e] at hfull; simp at hfull; have := h.capPos; omega
        obtain ⟨it, hit, _, hev⟩ := evict_spec h.toBij hne (orc 0)
        rw [hev]
        have hk' : k ∉ keysOf (eraseKey c.items it.key) := fun hm => hk (mem_keysOf_eraseKey.mp hm).2
        simp only [lookup_append_new hk', hj, if_false, lookup_eraseKey]
        by_cases hji : j = it.key
        · right; subst hji; exact ⟨by simp, it, hit, rfl, hfull, hnone⟩
        · left; refine ⟨by simp [hji], ?_⟩
          intro w hw; simp at hw; exact hji hw.1
      · exact Or.inl ⟨by simp [lookup_append_new hk, hj], by simp⟩

/-- **Get returns the stored value exactly when the entry is present and not expired**; a hit
changes no entry and fires no callback; an expired entry is removed with one callback carrying its
value; a miss changes nothing. -/
theorem get_spec {c : Cache} (k : Nat) (orc : Nat → Bool) :
    let o := step c (.get k) orc
    match lookup c.items k with
    | none => o.res = Res.miss ∧ o.cbs = [] ∧ o.cache.items = c.items
    | some it =>
      if c.closing then o.res = Res.miss ∧ o.cbs = [] ∧ o.cache.items = c.items
      else if c.expiry > 0 ∧ it.exp < c.now then
        o.res = Res.miss ∧ o.cbs = [(k, it.val)] ∧ o.cache.items = eraseKey c.items k
      else o.res = Res.val it.val ∧ o.cbs = [] ∧ o.cache.items = c.items := by
  simp only [step]
  cases hl : lookup c.items k with
  | none => by_cases hc : c.closing <;> simp [hc]
  | some it =>
    have hkey := (lookup_some hl).2
    by_cases hc : c.closing
    · simp [hc]
    · simp only [hc, Bool.false_eq_true, if_false]
      by_cases he : c.expiry > 0 ∧ it.exp < c.now
      · simp only [he, and_self, if_true, evictItem, hkey]
      · simp only [he, if_false]; simp

/-- **Delete** removes exactly that key, reports whether it was there, fires no callback. -/
theorem del_spec {c : Cache} (k : Nat) (orc : Nat → Bool) :
    let o := step c (.del k) orc
    o.cbs = [] ∧
    (c.closing = false → o.res = Res.bool (lookup c.items k).isSome ∧
      ∀ j, lookup o.cache.items j = if j = k then none else lookup c.items j) := by
  simp only [step]
  by_cases hc : c.closing
  · simp [hc]
  · simp only [hc, Bool.false_eq_true, if_false]
    cases hl : lookup c.items k with
    | none =>
      refine ⟨rfl, fun _ => ⟨rfl, ?_⟩⟩
      intro j; by_cases hjk : j = k
      · subst hjk; simp [hl]
      · simp [hjk]
    | some it => exact ⟨rfl, fun _ => ⟨rfl, fun j => lookup_eraseKey c.items k j⟩⟩

/-- **Close** empties the cache and fires exactly one callback per entry it held, with the value
held (as a multiset: the order is the policy's eviction order). -/
theorem close_spec {c : Cache} (h : Inv c) (hc : c.closing = false) (orc : Nat → Bool) :
    let o := step c .close orc
    o.cache.items = [] ∧ o.cache.closing = true ∧
    o.cbs.Perm (c.items.map fun it => (it.key, it.val)) := by
  simp only [step, hc, Bool.false_eq_true, if_false]
  have hb : Bij { c with closing := true } := ⟨h.itemsNodup, h.polNodup, h.same⟩
  obtain ⟨c', cbs, h1, h2, _, _, h5, h6⟩ :=
    evictAll_spec orc c.items.length { c with closing := true } [] hb (Nat.le_refl _)
  simp only [List.nil_append] at h1
  rw [h1]
  exact ⟨h2, h5, h6⟩

/-- after `Close` nothing is retrievable, nothing is stored and nothing fires. -/
theorem closed_inert {c : Cache} (hc : c.closing = true) (op : Op) (orc : Nat → Bool) :
    (step c op orc).cbs = [] ∧ (step c op orc).cache.items = c.items ∧
    (∀ k, op = .get k → (step c op orc).res = Res.miss) := by
  cases op <;> simp [step, hc]

/-! ### victims are chosen as the policies' definitions say -/

/-- LRU bookkeeping after any operation sequence is the list of live keys ordered by the time of
their last `Set`/`Get` hit, most recent first; the victim is its last element, i.e. the least
recently used key.  Stated as the defining recurrence of recency order. -/
theorem lru_order (o : List Nat) (k : Nat) :
    Pol.access (.lru o) k = .lru (k :: o.erase k) ∧ Pol.admit (.lru o) k = .lru (k :: o) ∧
    Pol.remove (.lru o) k = .lru (o.erase k) ∧ (Pol.victim (.lru o) false).1 = o.getLast? :=
  ⟨rfl, rfl, rfl, rfl⟩

/-- the LRU victim is older (further back in recency order) than every other cached key. -/
theorem lru_victim_is_least_recent (o : List Nat) (v : Nat) (b : Bool)
    (h : (Pol.victim (.lru o) b).1 = some v) : ∃ pre, o = pre ++ [v] := by
  simp only [Pol.victim] at h
  exact ⟨o.dropLast, (dropLast_append_of_getLast? h).symm⟩

/-- the LFU victim has the minimum use count, and among the keys with that count it is the one
that reached it first. -/
theorem lfu_victim_is_least_frequent_then_oldest (e : List (Nat × Nat)) (v : Nat) (b : Bool)
    (h : (Pol.victim (.lfu e) b).1 = some v) :
    ∃ f pre post, e = pre ++ (v, f) :: post ∧ (∀ p ∈ e, f ≤ p.2) ∧ (∀ p ∈ pre, p.2 ≠ f) := by
  simp only [Pol.victim, lfuVictim] at h
  cases hm : lfuMin e with
  | none => rw [hm] at h; cases h
  | some m =>
    rw [hm] at h
    simp only [Option.map_eq_some_iff] at h
    obtain ⟨a, ha, rfl⟩ := h
    obtain ⟨pre, post, he, hpre⟩ := List.find?_eq_some_iff_append.mp ha |>.2
    have ham : a.2 = m := by simpa using (List.find?_eq_some_iff_append.mp ha).1
    refine ⟨m, pre, post, ?_, lfuMin_le hm, ?_⟩
    · rw [he, ← ham]
    · intro p hp; simpa using hpre p hp

/-- LFU counts: a new key starts at 1, every `Set`/`Get` hit adds 1 and moves the key behind the
others with the same count. -/
theorem lfu_counts (e : List (Nat × Nat)) (k : Nat) :
    (lfuFreq e k = none → lfuIncr e k = e ++ [(k, 1)]) ∧
    (∀ f, lfuFreq e k = some f → lfuIncr e k = lfuErase e k ++ [(k, f + 1)]) := by
  constructor
  · intro h; simp [lfuIncr, h]
  · intro f h; simp [lfuIncr, h]

/-- SLRU evicts the least recently used probationary key, and only when probation is empty the
least recently used protected key. -/
theorem slru_victim_def (s : Slru) (b : Bool) :
    (Pol.victim (.slru s) b).1 =
      if s.prob ≠ [] then s.prob.getLast? else s.prot.getLast? := by
  simp only [Pol.victim, Slru.victim]
  cases hp : s.prob.getLast? with
  | none => simp [getLast?_none_iff.mp hp]
  | some k =>
    have : s.prob ≠ [] := fun e => by rw [e] at hp; simp at hp
    simp [this]

/-! ### non-vacuity: concrete reachable states that exercise the hypotheses -/

private def demo : Cache × List (Res × List (Nat × Nat)) :=
  reach .slru 2 0 1 0 [(.set 1 10, fun _ => false), (.get 1, fun _ => false), (.set 2 20, fun _ => false),
    (.set 3 30, fun _ => false), (.get 2, fun _ => false), (.close, fun _ => false)]

example : demo.2 = [(.unit, []), (.val 10, []), (.unit, []), (.unit, [(2, 20)]), (.miss, []),
    (.unit, [(3, 30), (1, 10)])] := by decide

example : Inv (mk .tinylfu 3 5 2 0) ∧ (mk .tinylfu 3 5 2 0).closing = false :=
  ⟨inv_mk _ _ _ _ _ (by decide), rfl⟩

end AsherahVerif.Props.C15
